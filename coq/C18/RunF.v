(** * C18: float entry points for the grid correspondence check (vm_compute) *)
From Coq Require Import List ZArith Floats.
From Celer Require Import Base.Num Base.NumF C18.Algorithms C18.Grids.
Import ListNotations.

Definition run_ufind (front back : float) (size : Z) (v : float) : Z * float * float :=
  let g := ug_from_bounds (T:=float) front back size in
  let b := ug_find g v in (b, ug_at g b, ug_at g (b + 1)).
Definition run_ufind_raw (front back : float) (size : Z) (v : float) : Z :=
  ug_find_raw (ug_from_bounds (T:=float) front back size) v.
Definition run_finterp_u (front back : float) (size : Z) (v : float) : Z * float :=
  find_interp_u (ug_from_bounds (T:=float) front back size) v.
Definition run_nfind (g : list float) (v : float) : Z := Z.of_nat (nu_find g v).
Definition run_finterp_n (g : list float) (v : float) : Z * float :=
  let '(i, f) := find_interp_n g v in (Z.of_nat i, f).
Definition run_interp (xl yl xr yr x : float) : float := lin_interp xl yl xr yr x.
Definition run_twod (xs ys vals : list float) (x y : float) : float := twod xs ys vals x y.
