(** * C18: entry points of the Range / Span model for the correspondence check (vm_compute) *)
From Coq Require Import List Bool ZArith.
From Celer Require Import C18.RangeImpl C18.Span.
Import ListNotations.
Local Open Scope Z_scope.

(** 0 = int, 1 = unsigned int, 2 = long, 3 = unsigned long, 4 = unsigned char *)
Definition ct_of (t : nat) : ctype :=
  match t with 0%nat => Signed 32 | 1%nat => Unsigned 32 | 2%nat => Signed 64 | 3%nat => Unsigned 64
          | _ => Unsigned 8 end.
Definition run_range (t : nat) (a b : Z) (cap : nat) :=
  let ct := ct_of t in
  (range_elems cap ct a b, Range_size ct a b, Range_empty a b, Range_front a, Range_back ct a b).
Definition run_rstep (t : nat) (signed_u : bool) (a b s : Z) (cap : nat) : list Z :=
  let ct := ct_of t in
  StepRange_elems cap (if signed_u then Range_step_signed ct a b s else Range_step_unsigned ct a b s).
Definition run_count (t : nat) (v : Z) (cap : nat) := count_elems cap (ct_of t) v.
Definition run_cstep (t : nat) (v s : Z) (cap : nat) := count_step_elems cap (ct_of t) v s.
Definition run_enum (t : nat) (b e : Z) := range_elems 300 (ct_of t) b e.
Definition run_enum1 (t : nat) (size : Z) := enum_range (ct_of t) size.
Definition run_estep (t : nat) (b e s : Z) := StepRange_elems 64 (Range_step_enum (ct_of t) b e s).

Definition buf (n : nat) : list Z := map (fun i => 100 + Z.of_nat i) (seq 0 n).
Definition out_span (n : nat) (r : span) (ext : Z) (elems : bool) :=
  (span_data r, span_size r, span_empty r, ext, if elems then span_elems (buf (n + 8)) r else []).
Definition run_first n p s c e := out_span n (span_first (p, s) c) dynamic_extent e.
Definition run_last n p s c e := out_span n (span_last (p, s) c) dynamic_extent e.
Definition run_sub n p s o c e := out_span n (span_subspan (p, s) o c) dynamic_extent e.
Definition run_tfirst n p s c e := out_span n (span_first (p, s) c) c e.
Definition run_tlast n p s c e := out_span n (span_last (p, s) c) c e.
Definition run_tsub n p s ext o c e := out_span n (span_subspan (p, s) o c) (subspan_extent ext o c) e.
Definition run_sext e o c := (subspan_extent e o c, subspan_size e o c).
(** the six CELER_EXPECTs of the subviews in header order:
    first<C>, first(c), subspan<O,C>, subspan(o,c), last<C>, last(c) *)
Definition run_pre s o c :=
  let sp : span := (0, s) in
  [first_t_pre sp c; first_pre sp c; subspan_t_pre sp o c; subspan_pre sp o c;
   first_t_pre sp c; last_pre sp c].
