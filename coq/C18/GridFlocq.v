(** * C18/C14: the index law of UniformGrid::find for IEEE-754 binary64
    arithmetic (Flocq's [round radix2 (FLT_exp (-1074) 53) ZnearestE], i.e. the
    correctly rounded result every binary64 +,-,*,/ returns when there is no
    overflow).  Instantiates C18.GridProofs.rfind_in_range. *)
From Coq Require Import Reals ZArith Lra Lia Psatz.
From Flocq Require Import Core Relative.
From Celer Require Import C18.GridProofs.
Local Open Scope R_scope.

Definition b64_exp := FLT_exp (-1074) 53.
Definition rnd64 (x : R) : R := round radix2 b64_exp ZnearestE x.
Definition u64 : R := / 2 * bpow radix2 (- 53 + 1).

#[local] Instance prec53 : Prec_gt_0 53. Proof. unfold Prec_gt_0. lia. Qed.
#[local] Instance b64_valid : Valid_exp b64_exp := FLT_exp_valid (-1074) 53.

Lemma rnd64_mono : forall x y, x <= y -> rnd64 x <= rnd64 y.
Proof. intros. unfold rnd64. apply round_le; [apply b64_valid|apply valid_rnd_N|assumption]. Qed.

Lemma rnd64_0 : rnd64 0 = 0.
Proof. unfold rnd64. apply round_0. apply valid_rnd_N. Qed.

Lemma u64_val : u64 = / 9007199254740992.
Proof.
  unfold u64. change (-53 + 1)%Z with (-52)%Z.
  change (bpow radix2 (-52)) with (/ IZR (Z.pow_pos 2 52)).
  replace (Z.pow_pos 2 52) with 4503599627370496%Z by reflexivity.
  field.
Qed.

(** relative error of a binary64 operation whose exact result is in the normal range *)
Lemma rnd64_rel : forall x, bpow radix2 (-1022) <= Rabs x -> Rabs (rnd64 x - x) <= u64 * Rabs x.
Proof.
  intros x Hx. unfold rnd64, u64, b64_exp.
  apply relative_error_N_FLT; [lia|]. replace (-1074 + 53 - 1)%Z with (-1022)%Z by lia. exact Hx.
Qed.

(** UniformGrid::find as it is now, computed with binary64 roundings: a valid
    bin for every grid of 2 .. 2^52 - 1 points whose spacing is not subnormal *)
Theorem find_bin_float_in_range : forall front back size v,
  (2 <= size < 4503599627370496)%Z -> front <= v < back ->
  bpow radix2 (-1022) <= rnd64 (back - front) / IZR (size - 1) ->
  let bin := rfind rnd64 front back size v in
  (0 <= bin)%Z /\ (bin + 1 < size)%Z.
Proof.
  intros front back size v Hs Hv Hnorm.
  assert (Hu : 0 < u64 < / 4503599627370496) by (rewrite u64_val; split; [apply Rinv_0_lt_compat|apply Rinv_lt_contravar]; lra).
  assert (Hn1 : 1 <= IZR (size - 1)) by (apply IZR_le; lia).
  assert (Hnle : IZR size <= 4503599627370496) by (apply IZR_le; lia).
  assert (Hbp : 0 < bpow radix2 (-1022)) by apply bpow_gt_0.
  set (D := rnd64 (back - front)) in *.
  assert (HD : 0 < D).
  { assert (0 < D / IZR (size - 1)) by lra.
    apply Rmult_lt_reg_r with (/ IZR (size - 1)); [apply Rinv_0_lt_compat; lra|].
    rewrite Rmult_0_l. exact H. }
  set (x := D / IZR (size - 1)) in *.
  assert (Hx : 0 < x) by lra.
  pose proof (rnd64_rel x) as Rx. rewrite (Rabs_pos_eq x) in Rx by lra.
  specialize (Rx Hnorm). apply Rabs_le_inv in Rx.
  set (delta := rnd64 x) in *.
  assert (Hdl : x * (1 - u64) <= delta) by lra.
  assert (Hdu : delta <= x * (1 + u64)) by lra.
  assert (Hdpos : 0 < delta) by nra.
  (* the top quotient D / delta is about size - 1 >= 1: normal *)
  assert (HY : / 2 <= D / delta).
  { apply Rmult_le_reg_r with delta; [lra|].
    replace (D / delta * delta) with D by (field; lra).
    assert (D = x * IZR (size - 1)) by (unfold x; field; lra). nra. }
  pose proof (rnd64_rel (D / delta)) as RY. rewrite (Rabs_pos_eq (D / delta)) in RY by lra.
  assert (HbY : bpow radix2 (-1022) <= D / delta).
  { eapply Rle_trans; [|exact HY].
    assert (Hh : bpow radix2 (-1) = / 2).
    { change (bpow radix2 (-1)) with (/ IZR (Z.pow_pos 2 1)).
      replace (Z.pow_pos 2 1) with 2%Z by reflexivity. reflexivity. }
    rewrite <- Hh. apply bpow_le. lia. }
  specialize (RY HbY). apply Rabs_le_inv in RY.
  apply (rfind_in_range rnd64 u64); try lra; try lia.
  - exact rnd64_mono.
  - exact rnd64_0.
  - rewrite u64_val. assert (IZR size <= 4503599627370495) by (apply IZR_le; lia). lra.
  - exact HD.
  - exact Hdl.
  - fold D. fold x. fold delta. lra.
Qed.

Example find_bin_float_ex : (2 <= 4 < 4503599627370496)%Z /\ 0 <= 1 / 2 < 1.
Proof. split; [lia|lra]. Qed.
