(** * C18: binary64 facts about the scalar helpers (NaN handling, signed zeros, a rounding
    edge of eumod) -- PrimFloat computations, kept apart from the proofs over R *)
From Coq Require Import Floats ZArith Bool.
From Celer Require Import Base.Num Base.NumF C18.Math.
Local Open Scope float_scope.

(** negate is "negation that won't return signed zeros": 0 - (+0) = 0 - (-0) = +0, while the
    unary minus gives -0 *)
Theorem negate_no_signed_zero :
  Prim2SF (m_negate zero) = S754_zero false /\ Prim2SF (m_negate neg_zero) = S754_zero false /\
  Prim2SF (- zero) = S754_zero true.
Proof. repeat split; vm_compute; reflexivity. Qed.

(** celeritas::min / max on floating point ignore a NaN operand (std::fmin / fmax) *)
Theorem fmin_fmax_nan_l : forall x : float, m_fmin nan x = x /\ m_fmax nan x = x.
Proof. intro x. split; reflexivity. Qed.

Theorem fmin_fmax_nan_r : forall x : float, PrimFloat.eqb x x = true ->
  m_fmin x nan = x /\ m_fmax x nan = x.
Proof.
  intros x Hx. unfold m_fmin, m_fmax. cbn [neqb nltb NumF]. rewrite Hx.
  split; reflexivity.
Qed.

(** signum(NaN) = 0; clamp_to_nonneg propagates NaN; clamp(-0, 0, 1) keeps -0 *)
Theorem signum_clamp_nan :
  m_signum nan = 0%Z /\ PrimFloat.is_nan (m_clamp_to_nonneg nan) = true /\
  m_signum neg_zero = 0%Z /\ m_signum neg_infinity = (-1)%Z /\ m_signum infinity = 1%Z.
Proof. repeat split; vm_compute; reflexivity. Qed.

(** rounding edge: for a tiny negative remainder r + denom rounds to denom, so the binary64
    eumod returns denom itself, outside the documented [0, denom) (exact over R: eumod_spec) *)
Theorem eumod_rounds_to_denom_refuted : exists r d : float,
  PrimFloat.ltb r zero = true /\ PrimFloat.ltb zero d = true /\ PrimFloat.ltb (- d) r = true /\
  m_eumod_r r d = d.
Proof. exists (-0x1p-70), 1. repeat split; vm_compute; reflexivity. Qed.

Theorem fmin_fmax_nan : forall x : float,
  (m_fmin nan x = x /\ m_fmax nan x = x) /\
  (PrimFloat.eqb x x = true -> m_fmin x nan = x /\ m_fmax x nan = x).
Proof. intro x. exact (conj (fmin_fmax_nan_l x) (fmin_fmax_nan_r x)). Qed.
