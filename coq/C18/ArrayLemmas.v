(** * C18: basic facts about get/upd/swap *)
From Coq Require Import List Arith Bool Lia Permutation.
From Celer Require Import C18.Algorithms C18.Specs.
Import ListNotations.

Section ArrayLemmas.
  Context {A : Type}.
  Variable d : A.
  Notation get := (get d).
  Notation swap := (swap d).

  Lemma length_upd : forall (l : list A) i x, length (upd l i x) = length l.
  Proof. induction l as [|a r IH]; intros [|i] x; cbn; auto. Qed.

  Lemma get_upd_eq : forall (l : list A) i x, i < length l -> get (upd l i x) i = x.
  Proof.
    induction l as [|a r IH]; intros [|i] x Hi; cbn in *; try lia; auto.
    apply IH. lia.
  Qed.

  Lemma get_upd_neq : forall (l : list A) i j x, i <> j -> get (upd l i x) j = get l j.
  Proof.
    induction l as [|a r IH]; intros [|i] [|j] x Hij; cbn in *; try lia; auto.
    apply IH. lia.
  Qed.

  Lemma upd_get_same : forall (l : list A) i, upd l i (get l i) = l.
  Proof.
    induction l as [|a r IH]; intros [|i]; cbn; auto. f_equal. apply IH.
  Qed.

  Lemma upd_comm : forall (l : list A) i j x y, i <> j ->
    upd (upd l i x) j y = upd (upd l j y) i x.
  Proof.
    induction l as [|a r IH]; intros [|i] [|j] x y Hij; cbn; auto; try lia.
    f_equal. apply IH. lia.
  Qed.

  Lemma upd_upd : forall (l : list A) i x y, upd (upd l i x) i y = upd l i y.
  Proof. induction l as [|a r IH]; intros [|i] x y; cbn; auto. f_equal. apply IH. Qed.

  Lemma length_swap : forall (l : list A) i j, length (swap l i j) = length l.
  Proof. intros. unfold Algorithms.swap. rewrite !length_upd. reflexivity. Qed.

  Lemma get_swap_l : forall (l : list A) i j, i < length l -> j < length l ->
    get (swap l i j) i = get l j.
  Proof.
    intros l i j Hi Hj. unfold Algorithms.swap.
    destruct (Nat.eq_dec i j) as [->|Hne].
    - rewrite get_upd_eq; [reflexivity|]. rewrite length_upd. lia.
    - rewrite get_upd_neq by lia. apply get_upd_eq. lia.
  Qed.

  Lemma get_swap_r : forall (l : list A) i j, i < length l -> j < length l ->
    get (swap l i j) j = get l i.
  Proof.
    intros l i j Hi Hj. unfold Algorithms.swap. apply get_upd_eq. rewrite length_upd. lia.
  Qed.

  Lemma get_swap_other : forall (l : list A) i j k, k <> i -> k <> j ->
    get (swap l i j) k = get l k.
  Proof. intros. unfold Algorithms.swap. rewrite !get_upd_neq by lia. reflexivity. Qed.

  Lemma swap_same : forall (l : list A) i, swap l i i = l.
  Proof. intros. unfold Algorithms.swap. rewrite upd_upd. apply upd_get_same. Qed.

  Lemma swap_sym : forall (l : list A) i j, swap l i j = swap l j i.
  Proof.
    intros. destruct (Nat.eq_dec i j) as [->|Hne]; [reflexivity|].
    unfold Algorithms.swap. apply upd_comm. lia.
  Qed.

  Lemma perm_upd_head : forall (r : list A) k a, k < length r ->
    Permutation (a :: r) (get r k :: upd r k a).
  Proof.
    induction r as [|b r IH]; intros [|k] a Hk; cbn in *; try lia.
    - apply perm_swap.
    - eapply perm_trans; [apply perm_swap|].
      eapply perm_trans; [apply perm_skip, (IH k a); lia|]. apply perm_swap.
  Qed.

  Lemma perm_swap_lt : forall (l : list A) i j, i < j -> j < length l ->
    Permutation l (swap l i j).
  Proof.
    induction l as [|a r IH]; intros i j Hij Hj; cbn in *; [lia|].
    destruct j as [|j]; [lia|]. destruct i as [|i].
    - unfold Algorithms.swap. cbn. apply perm_upd_head. lia.
    - change (Algorithms.swap d (a :: r) (S i) (S j)) with (a :: swap r i j).
      apply perm_skip. apply IH; lia.
  Qed.

  Lemma perm_swap_any : forall (l : list A) i j, i < length l -> j < length l ->
    Permutation l (swap l i j).
  Proof.
    intros l i j Hi Hj. destruct (lt_eq_lt_dec i j) as [[H|H]|H].
    - apply perm_swap_lt; lia.
    - subst. rewrite swap_same. apply Permutation_refl.
    - rewrite swap_sym. apply perm_swap_lt; lia.
  Qed.

  Lemma get_app_l : forall (l r : list A) i, i < length l -> get (l ++ r) i = get l i.
  Proof. intros. unfold Algorithms.get. apply app_nth1. assumption. Qed.

  Lemma get_app_r : forall (l r : list A) i, length l <= i -> get (l ++ r) i = get r (i - length l).
  Proof. intros. unfold Algorithms.get. apply app_nth2. lia. Qed.

  (** count of a predicate is invariant under permutation *)
  Lemma count_perm : forall (p : A -> bool) (l l' : list A),
    Permutation l l' -> count p l = count p l'.
  Proof.
    intros p l l' HP. unfold count. induction HP; cbn; auto.
    - destruct (p x); cbn; auto.
    - destruct (p x), (p y); cbn; auto.
    - congruence.
  Qed.

  (** a list that is all-true before k and all-false from k on has count k *)
  Lemma count_prefix : forall (p : A -> bool) (l : list A) k, k <= length l ->
    (forall i, i < k -> p (get l i) = true) ->
    (forall i, k <= i -> i < length l -> p (get l i) = false) ->
    count p l = k.
  Proof.
    intros p. unfold count. induction l as [|a r IH]; intros k Hk Ht Hf; cbn in *.
    - lia.
    - destruct k as [|k].
      + rewrite (Hf 0) by lia. apply (IH 0); [lia| intros; lia |].
        intros i _ Hi. apply (Hf (S i)); lia.
      + rewrite (Ht 0) by lia. cbn. f_equal. apply IH; [lia| |].
        * intros i Hi. apply (Ht (S i)). lia.
        * intros i Hi1 Hi2. apply (Hf (S i)); lia.
  Qed.
End ArrayLemmas.

(** consequences of a strict weak order *)
Section SWO.
  Context {A : Type} (cmp : A -> A -> bool).
  Hypothesis O : strict_weak_order cmp.

  Lemma swo_asym : forall a b, cmp a b = true -> cmp b a = false.
  Proof.
    intros a b H. destruct (cmp b a) eqn:E; [|reflexivity].
    pose proof (swo_trans _ O _ _ _ H E) as Haa. rewrite (swo_irrefl _ O) in Haa. discriminate.
  Qed.

  (** negative transitivity *)
  Lemma swo_negtrans : forall a b c, cmp a c = true -> cmp a b = true \/ cmp b c = true.
  Proof.
    intros a b c Hac.
    destruct (cmp a b) eqn:Eab; [left; reflexivity|].
    destruct (cmp b c) eqn:Ebc; [right; reflexivity|]. exfalso.
    destruct (cmp b a) eqn:Eba.
    { pose proof (swo_trans _ O _ _ _ Eba Hac). congruence. }
    destruct (cmp c b) eqn:Ecb.
    { pose proof (swo_trans _ O _ _ _ Hac Ecb). congruence. }
    destruct (swo_incomp _ O a b c Eab Eba Ebc Ecb). congruence.
  Qed.

  (** "not less" is transitive *)
  Lemma swo_nlt_trans : forall a b c, cmp a b = false -> cmp b c = false -> cmp a c = false.
  Proof.
    intros a b c Hab Hbc. destruct (cmp a c) eqn:E; [|reflexivity].
    destruct (swo_negtrans a b c E); congruence.
  Qed.

  Lemma swo_lt_nlt : forall a b c, cmp a b = true -> cmp c b = false -> cmp a c = true.
  Proof.
    intros a b c Hab Hcb. destruct (swo_negtrans a c b Hab); congruence.
  Qed.

  Lemma swo_nlt_lt : forall a b c, cmp b a = false -> cmp b c = true -> cmp a c = true.
  Proof.
    intros a b c Hba Hbc. destruct (swo_negtrans b a c Hbc); congruence.
  Qed.
End SWO.
