(** * C18: entry points of the scalar-helper model (coq/C18/Math.v) for the correspondence
    check: binary64 through vm_compute, integers over Z *)
From Coq Require Import Floats ZArith Bool List.
From Celer Require Import Base.Num Base.NumF C18.Algorithms C18.Math.

Definition run_clamp (v lo hi : float) : float := m_clamp v lo hi.
Definition run_nonneg (v : float) : float := m_clamp_to_nonneg v.
Definition run_fmin (a b : float) : float := m_fmin a b.
Definition run_fmax (a b : float) : float := m_fmax a b.
Definition run_fastpow (a b : float) : float := m_fastpow a b.
(* the second component is the sign bit (vlib's parser does not keep the sign of a zero) *)
Definition run_negate (v : float) : float * bool :=
  let y := m_negate v in (y, PrimFloat.ltb (PrimFloat.div 1 y) 0).
Definition run_diffsq (a b : float) : float := m_diffsq a b.
(* [r] = std::fmod(numer, denom) as computed by the harness *)
Definition run_eumod (r denom : float) : float := m_eumod_r r denom.
Definition run_signum (x : float) : Z := m_signum x.
Definition run_rsqrt (x : float) : float := m_rsqrt x.
Definition run_ipow_u (w : Z) (n : nat) (v : Z) : Z := ipow (1 mod 2 ^ w)%Z (mul_u w) n v.
