(** * C18/C14: grid lookups over R — UniformGrid::find, NonuniformGrid::find,
    find_interp, LinearInterpolator; index law of UniformGrid::find under an
    explicit rounding-error model *)
From Coq Require Import Reals ZArith List Lra Lia Bool Psatz.
From Celer Require Import Base.Num Base.NumR C18.Algorithms C18.Specs C18.ArrayLemmas
  C18.SearchProofs C18.Grids.
Import ListNotations.
Local Open Scope R_scope.

(** validity of a UniformGridData built by from_bounds *)
Definition ug_valid (g : ugrid R) : Prop :=
  (2 <= ug_size g)%Z /\ ug_front g < ug_back g /\
  ug_delta g = (ug_back g - ug_front g) / IZR (ug_size g - 1).

Lemma from_bounds_valid : forall front back size, (2 <= size)%Z -> front < back ->
  ug_valid (ug_from_bounds front back size).
Proof. intros. unfold ug_valid, ug_from_bounds; cbn. numR. repeat split; auto. Qed.

Lemma ug_delta_pos : forall g, ug_valid g -> 0 < ug_delta g.
Proof.
  intros g (Hs & Hfb & Hd). rewrite Hd. apply Rdiv_lt_0_compat; [lra|].
  apply IZR_lt. lia.
Qed.

Lemma ug_at_last : forall g, ug_valid g -> ug_at g (ug_size g - 1) = ug_back g.
Proof.
  intros g (Hs & Hfb & Hd). unfold ug_at. numR. rewrite Hd. field.
  apply not_0_IZR. lia.
Qed.

Lemma ug_at_first : forall g, ug_at g 0 = ug_front g.
Proof. intros. unfold ug_at. numR. lra. Qed.

Lemma ug_at_mono : forall g i j, ug_valid g -> (i < j)%Z -> ug_at g i < ug_at g j.
Proof.
  intros g i j Hv Hij. pose proof (ug_delta_pos g Hv). unfold ug_at. numR.
  apply IZR_lt in Hij. nra.
Qed.

Lemma Int_part_spec : forall r z, IZR z <= r < IZR z + 1 -> Int_part r = z.
Proof.
  intros r z [H1 H2]. destruct (base_Int_part r) as [B1 B2].
  assert (Hlt1 : IZR (Int_part r) < IZR z + 1) by lra.
  assert (Hlt2 : IZR z < IZR (Int_part r) + 1) by lra.
  rewrite <- plus_IZR in Hlt1, Hlt2. apply lt_IZR in Hlt1, Hlt2. lia.
Qed.

Lemma Int_part_IZR : forall z, Int_part (IZR z) = z.
Proof. intros. apply Int_part_spec. lra. Qed.

(** UniformGrid::find: exact semantics over R *)
Lemma ug_find_raw_spec : forall g v, ug_valid g -> ug_front g <= v < ug_back g ->
  let i := ug_find_raw g v in
  (0 <= i)%Z /\ (i + 1 < ug_size g)%Z /\ ug_at g i <= v < ug_at g (i + 1).
Proof.
  intros g v Hv Hr. pose proof (ug_delta_pos g Hv) as Hd.
  destruct Hv as (Hs & Hfb & Hdel). unfold ug_find_raw. numR.
  set (q := (v - ug_front g) / ug_delta g).
  destruct (base_Int_part q) as [B1 B2]. set (i := Int_part q) in *. cbn zeta.
  assert (HN : 1 <= IZR (ug_size g - 1)) by (apply IZR_le; lia).
  assert (Hvq : v - ug_front g = q * ug_delta g) by (unfold q; field; lra).
  assert (HbN : ug_back g - ug_front g = ug_delta g * IZR (ug_size g - 1)) by (rewrite Hdel; field; lra).
  assert (Hq0 : 0 <= q) by (apply Rle_mult_inv_pos; lra).
  assert (Hq1 : q < IZR (ug_size g - 1)) by nra.
  assert (Hi0 : (0 <= i)%Z).
  { apply Z.lt_succ_r. apply lt_IZR. rewrite succ_IZR. lra. }
  assert (Hi1 : (i < ug_size g - 1)%Z) by (apply lt_IZR; lra).
  split; [exact Hi0|]. split; [lia|].
  unfold ug_at. numR. rewrite plus_IZR.
  split; nra.
Qed.

Lemma ug_find_spec : forall g v, ug_valid g -> ug_front g <= v < ug_back g ->
  let i := ug_find g v in
  (0 <= i)%Z /\ (i + 1 < ug_size g)%Z /\ ug_at g i <= v < ug_at g (i + 1).
Proof.
  intros g v Hv Hr. destruct (ug_find_raw_spec g v Hv Hr) as (H0 & H1 & H2).
  unfold ug_find. cbn zeta. destruct (Z.eqb_spec (ug_find_raw g v + 1) (ug_size g)); [lia|].
  auto.
Qed.

(** the bin is characterised by the grid points (find_bin_spec) *)
Lemma ug_find_unique : forall g v i, ug_valid g -> ug_front g <= v < ug_back g ->
  (0 <= i)%Z -> (i + 1 < ug_size g)%Z ->
  (ug_find g v = i <-> ug_at g i <= v < ug_at g (i + 1)).
Proof.
  intros g v i Hv Hr Hi0 Hi1. destruct (ug_find_spec g v Hv Hr) as (F0 & F1 & F2).
  split; [intros <-; exact F2|]. intros Hb.
  set (j := ug_find g v) in *.
  destruct (Z.lt_trichotomy j i) as [Hlt|[Heq|Hgt]]; [|exact Heq|]; exfalso.
  - assert (ug_at g (j + 1) <= ug_at g i).
    { destruct (Z.eq_dec (j + 1) i) as [->|]; [lra|]. left. apply ug_at_mono; auto. lia. }
    lra.
  - assert (ug_at g (i + 1) <= ug_at g j).
    { destruct (Z.eq_dec (i + 1) j) as [->|]; [lra|]. left. apply ug_at_mono; auto. lia. }
    lra.
Qed.

Lemma ug_find_at_node : forall g i, ug_valid g -> (0 <= i)%Z -> (i + 1 < ug_size g)%Z ->
  ug_find g (ug_at g i) = i.
Proof.
  intros g i Hv Hi0 Hi1. apply ug_find_unique; auto.
  - split.
    + rewrite <- (ug_at_first g). destruct (Z.eq_dec i 0) as [->|]; [lra|].
      left. apply ug_at_mono; auto. lia.
    + rewrite <- (ug_at_last g Hv). apply ug_at_mono; auto. lia.
  - split; [lra|]. apply ug_at_mono; auto. lia.
Qed.

(** ** the index law  bin + 1 < size  under a rounding-error model.
    [rnd] is any monotone rounding with relative error [u] at the two
    quantities that matter (the grid spacing and the quotient at the top of
    the grid).  With u = 2^-53 the side condition is size <= 2^52. *)
Section RoundedFind.
  Variable rnd : R -> R.
  Variable u : R.
  Hypothesis u_nonneg : 0 <= u.
  Hypothesis rnd_mono : forall x y, x <= y -> rnd x <= rnd y.
  Hypothesis rnd_0 : rnd 0 = 0.

  Definition rfind (front back : R) (size : Z) (v : R) : Z :=
    let delta := rnd (rnd (back - front) / IZR (size - 1)) in
    let bin := Int_part (rnd (rnd (v - front) / delta)) in
    if (bin + 1 =? size)%Z then (bin - 1)%Z else bin.

  Definition rfind_raw (front back : R) (size : Z) (v : R) : Z :=
    let delta := rnd (rnd (back - front) / IZR (size - 1)) in
    Int_part (rnd (rnd (v - front) / delta)).

  Lemma rfind_raw_le : forall front back size v,
    (2 <= size)%Z -> 2 * IZR size * u < 1 -> front <= v < back ->
    let D := rnd (back - front) in
    let delta := rnd (D / IZR (size - 1)) in
    0 < D ->
    (D / IZR (size - 1)) * (1 - u) <= delta ->              (* spacing: relative error *)
    rnd (D / delta) <= (D / delta) * (1 + u) ->             (* top quotient: relative error *)
    (0 <= rfind_raw front back size v <= size - 1)%Z.
  Proof.
    intros front back size v Hs Hu Hv D delta HD Hdel Htop. unfold rfind_raw. fold D. fold delta.
    assert (Hn1 : 1 <= IZR (size - 1)) by (apply IZR_le; lia).
    assert (Hn : IZR size = IZR (size - 1) + 1) by (rewrite minus_IZR; lra).
    assert (Hu1 : u < 1 / 2) by nra.
    assert (Hdpos : 0 < delta).
    { eapply Rlt_le_trans; [|exact Hdel]. apply Rmult_lt_0_compat; [|lra].
      apply Rdiv_lt_0_compat; lra. }
    set (x := rnd (v - front)).
    assert (Hx0 : 0 <= x) by (unfold x; rewrite <- rnd_0; apply rnd_mono; lra).
    assert (HxD : x <= D) by (unfold x, D; apply rnd_mono; lra).
    set (q := rnd (x / delta)).
    assert (Hq0 : 0 <= q).
    { unfold q. rewrite <- rnd_0. apply rnd_mono. apply Rle_mult_inv_pos; lra. }
    assert (HqY : q <= rnd (D / delta)).
    { unfold q. apply rnd_mono. unfold Rdiv. apply Rmult_le_compat_r; [|lra].
      left. apply Rinv_0_lt_compat. lra. }
    assert (HY : D / delta <= IZR (size - 1) / (1 - u)).
    { apply Rmult_le_reg_r with (delta * (1 - u)); [nra|].
      replace (D / delta * (delta * (1 - u))) with (D * (1 - u)) by (field; lra).
      replace (IZR (size - 1) / (1 - u) * (delta * (1 - u))) with (IZR (size - 1) * delta) by (field; lra).
      replace (D * (1 - u)) with (IZR (size - 1) * (D / IZR (size - 1) * (1 - u))) by (field; lra).
      apply Rmult_le_compat_l; lra. }
    assert (Hqn : q < IZR size).
    { eapply Rle_lt_trans; [exact HqY|]. eapply Rle_lt_trans; [exact Htop|].
      apply Rle_lt_trans with (IZR (size - 1) / (1 - u) * (1 + u)).
      - apply Rmult_le_compat_r; lra.
      - apply Rmult_lt_reg_r with (1 - u); [lra|].
        replace (IZR (size - 1) / (1 - u) * (1 + u) * (1 - u)) with (IZR (size - 1) * (1 + u)) by (field; lra).
        nra. }
    destruct (base_Int_part q) as [B1 B2]. split.
    - apply Z.lt_succ_r. apply lt_IZR. rewrite succ_IZR. lra.
    - apply Z.lt_succ_r. apply lt_IZR. rewrite succ_IZR.
      replace (IZR (size - 1) + 1) with (IZR size) by lra. lra.
  Qed.

  (** the code as it is now (with the step back): always a valid bin *)
  Theorem rfind_in_range : forall front back size v,
    (2 <= size)%Z -> 2 * IZR size * u < 1 -> front <= v < back ->
    let D := rnd (back - front) in
    let delta := rnd (D / IZR (size - 1)) in
    0 < D -> (D / IZR (size - 1)) * (1 - u) <= delta ->
    rnd (D / delta) <= (D / delta) * (1 + u) ->
    let bin := rfind front back size v in
    (0 <= bin)%Z /\ (bin + 1 < size)%Z.
  Proof.
    intros front back size v Hs Hu Hv D delta HD Hdel Htop.
    pose proof (rfind_raw_le front back size v Hs Hu Hv HD Hdel Htop) as [H0 H1].
    unfold rfind. unfold rfind_raw in H0, H1. fold D in H0, H1. fold delta in H0, H1.
    fold D. fold delta. cbn zeta.
    destruct (Z.eqb_spec (Int_part (rnd (rnd (v - front) / delta)) + 1) size); lia.
  Qed.
End RoundedFind.

(** exact arithmetic is the instance rnd = id, u = 0 *)
Lemma rfind_id_eq : forall front back size v,
  rfind (fun x => x) front back size v = ug_find (ug_from_bounds front back size) v.
Proof. intros. unfold rfind, ug_find, ug_find_raw, ug_from_bounds. cbn. numR. reflexivity. Qed.

(** ** NonuniformGrid::find *)
Definition increasing (g : list R) : Prop :=
  forall i j, (i < j)%nat -> (j < length g)%nat -> get 0 g i < get 0 g j.

Lemma Rltb_swo : strict_weak_order Rltb.
Proof.
  constructor.
  - intros a. apply Rltb_false. lra.
  - intros a b c H1 H2. apply Rltb_true in H1, H2. apply Rltb_true. lra.
  - intros a b c H1 H2 H3 H4. apply Rltb_false in H1, H2, H3, H4. split; apply Rltb_false; lra.
Qed.

Lemma increasing_sorted : forall g, increasing g -> sorted Rltb 0 g.
Proof. intros g Hg i j Hij Hj. apply Rltb_false. left. apply Hg; assumption. Qed.

Lemma nu_find_spec : forall (g : list R) v, increasing g -> (2 <= length g)%nat ->
  get 0 g 0 <= v < get 0 g (length g - 1) ->
  let i := nu_find g v in
  (i + 1 < length g)%nat /\ get 0 g i <= v < get 0 g (i + 1).
Proof.
  intros g v Hinc Hlen Hv. unfold nu_find. numR.
  change (lower_bound_p 0 (fun a : R => Rltb a v) g) with (lower_bound 0 Rltb g v).
  destruct (lower_bound_spec 0 Rltb Rltb_swo g v (increasing_sorted g Hinc)) as (K1 & K2 & K3).
  set (k := lower_bound 0 Rltb g v) in *. cbn zeta.
  assert (Hk1 : (k < length g)%nat).
  { destruct (le_lt_dec (length g) k) as [Hge|]; [|assumption]. exfalso.
    assert (Hl : Rltb (get 0 g (length g - 1)) v = true) by (apply K2; lia).
    apply Rltb_true in Hl. lra. }
  assert (Hgk : v <= get 0 g k) by (apply Rltb_false; apply K3; lia).
  destruct (Reqb v (get 0 g k)) eqn:E; cbn [negb].
  - apply Reqb_true in E.
    assert (Hk2 : (k + 1 < length g)%nat).
    { destruct (le_lt_dec (length g) (k + 1)); [|assumption]. exfalso.
      replace k with (length g - 1)%nat in E by lia. lra. }
    split; [exact Hk2|]. split; [lra|]. rewrite E. apply Hinc; lia.
  - apply Reqb_false in E.
    assert (Hk0 : (0 < k)%nat).
    { destruct k; [|lia]. exfalso. lra. }
    replace (k - 1 + 1)%nat with k by lia. split; [lia|]. split; [|lra].
    assert (Hl : Rltb (get 0 g (k - 1)) v = true) by (apply K2; lia).
    apply Rltb_true in Hl. lra.
Qed.

(** ** find_interp: the fraction is in [0, 1) *)
Lemma find_interp_n_fraction : forall (g : list R) v, increasing g -> (2 <= length g)%nat ->
  get 0 g 0 <= v < get 0 g (length g - 1) ->
  let r := find_interp_n g v in
  (fst r + 1 < length g)%nat /\ 0 <= snd r < 1 /\
  v = get 0 g (fst r) + snd r * (get 0 g (fst r + 1) - get 0 g (fst r)).
Proof.
  intros g v Hinc Hlen Hv. destruct (nu_find_spec g v Hinc Hlen Hv) as (H1 & H2).
  unfold find_interp_n. cbn [fst snd]. numR. set (i := nu_find g v) in *.
  set (lo := get 0 g i) in *. set (hi := get 0 g (i + 1)) in *.
  assert (Hlh : lo < hi) by lra.
  split; [exact H1|]. split.
  - split.
    + apply Rle_mult_inv_pos; lra.
    + apply Rmult_lt_reg_r with (hi - lo); [lra|].
      replace ((v - lo) / (hi - lo) * (hi - lo)) with (v - lo) by (field; lra). lra.
  - field. lra.
Qed.

Lemma find_interp_u_fraction : forall g v, ug_valid g -> ug_front g <= v < ug_back g ->
  let r := find_interp_u g v in
  (0 <= fst r)%Z /\ (fst r + 1 < ug_size g)%Z /\ 0 <= snd r < 1.
Proof.
  intros g v Hv Hr. destruct (ug_find_spec g v Hv Hr) as (H0 & H1 & H2).
  unfold find_interp_u. cbn [fst snd]. numR. set (i := ug_find g v) in *.
  set (lo := ug_at g i) in *. set (hi := ug_at g (i + 1)) in *.
  assert (Hlh : lo < hi) by lra.
  repeat split; auto.
  - apply Rle_mult_inv_pos; lra.
  - apply Rmult_lt_reg_r with (hi - lo); [lra|].
    replace ((v - lo) / (hi - lo) * (hi - lo)) with (v - lo) by (field; lra). lra.
Qed.

(** ** LinearInterpolator *)
Lemma lin_interp_eq : forall xl yl xr yr x : R, xl < xr ->
  lin_interp xl yl xr yr x = yl + (yr - yl) * ((x - xl) / (xr - xl)).
Proof. intros. unfold lin_interp. numR. field. lra. Qed.

Lemma lin_interp_left : forall xl yl xr yr : R, xl < xr -> lin_interp xl yl xr yr xl = yl.
Proof. intros. rewrite lin_interp_eq by assumption. replace (xl - xl) with 0 by lra. unfold Rdiv. lra. Qed.

Lemma lin_interp_right : forall xl yl xr yr : R, xl < xr -> lin_interp xl yl xr yr xr = yr.
Proof. intros. rewrite lin_interp_eq by assumption. field. lra. Qed.

Lemma lin_interp_between : forall xl yl xr yr x : R, xl < xr -> xl <= x <= xr ->
  Rmin yl yr <= lin_interp xl yl xr yr x <= Rmax yl yr.
Proof.
  intros xl yl xr yr x Hlr Hx. rewrite lin_interp_eq by assumption.
  set (f := (x - xl) / (xr - xl)).
  assert (Hf : 0 <= f <= 1).
  { unfold f. split; [apply Rle_mult_inv_pos; lra|].
    apply Rmult_le_reg_r with (xr - xl); [lra|].
    replace ((x - xl) / (xr - xl) * (xr - xl)) with (x - xl) by (field; lra). lra. }
  unfold Rmin, Rmax. destruct (Rle_dec yl yr); split; nra.
Qed.

(** ** bilinear interpolation reproduces the node values *)
Lemma twod_at_nodes : forall (xs ys vals : list R) i j,
  increasing xs -> increasing ys -> (i + 1 < length xs)%nat -> (j + 1 < length ys)%nat ->
  twod xs ys vals (get 0 xs i) (get 0 ys j) = get 0 vals (i * length ys + j).
Proof.
  intros xs ys vals i j Hx Hy Hi Hj. unfold twod.
  assert (Hfx : find_interp_n xs (get 0 xs i) = (i, 0)).
  { assert (Hr : get 0 xs 0 <= get 0 xs i < get 0 xs (length xs - 1)).
    { split; [destruct i; [lra|left; apply Hx; lia]|apply Hx; lia]. }
    destruct (nu_find_spec xs _ Hx ltac:(lia) Hr) as (N1 & N2).
    assert (E : nu_find xs (get 0 xs i) = i).
    { set (k := nu_find xs (get 0 xs i)) in *.
      destruct (lt_eq_lt_dec k i) as [[H|H]|H]; [|exact H|]; exfalso.
      - assert (get 0 xs (k + 1) <= get 0 xs i).
        { destruct (Nat.eq_dec (k + 1) i) as [->|]; [lra|left; apply Hx; lia]. } lra.
      - assert (get 0 xs i < get 0 xs k) by (apply Hx; lia). lra. }
    unfold find_interp_n. rewrite E. f_equal. numR.
    replace (get 0 xs i - get 0 xs i) with 0 by lra. unfold Rdiv. lra. }
  assert (Hfy : find_interp_n ys (get 0 ys j) = (j, 0)).
  { assert (Hr : get 0 ys 0 <= get 0 ys j < get 0 ys (length ys - 1)).
    { split; [destruct j; [lra|left; apply Hy; lia]|apply Hy; lia]. }
    destruct (nu_find_spec ys _ Hy ltac:(lia) Hr) as (N1 & N2).
    assert (E : nu_find ys (get 0 ys j) = j).
    { set (k := nu_find ys (get 0 ys j)) in *.
      destruct (lt_eq_lt_dec k j) as [[H|H]|H]; [|exact H|]; exfalso.
      - assert (get 0 ys (k + 1) <= get 0 ys j).
        { destruct (Nat.eq_dec (k + 1) j) as [->|]; [lra|left; apply Hy; lia]. } lra.
      - assert (get 0 ys j < get 0 ys k) by (apply Hy; lia). lra. }
    unfold find_interp_n. rewrite E. f_equal. numR.
    replace (get 0 ys j - get 0 ys j) with 0 by lra. unfold Rdiv. lra. }
  numR. rewrite Hfx, Hfy. rewrite !Nat.add_0_r. lra.
Qed.

(** non-vacuity *)
Example grid_ex : ug_valid (ug_from_bounds 0 1 4) /\ 0 <= 1/2 < 1.
Proof. split; [apply from_bounds_valid; [lia|lra]|lra]. Qed.
Example increasing_ex : increasing [1; 2; 4].
Proof.
  intros i j Hij Hj. cbn in Hj.
  destruct j as [|[|[|j]]]; destruct i as [|[|[|i]]]; cbn; try lia; lra.
Qed.

Lemma lin_interp_spec : forall xl yl xr yr x : R, xl < xr -> xl <= x <= xr ->
  lin_interp xl yl xr yr xl = yl /\ lin_interp xl yl xr yr xr = yr /\
  Rmin yl yr <= lin_interp xl yl xr yr x <= Rmax yl yr.
Proof.
  intros. split; [apply lin_interp_left; assumption|]. split; [apply lin_interp_right; assumption|].
  apply lin_interp_between; assumption.
Qed.
