(** * C18: executable model of corecel/cont/Span.hh subviews and
    corecel/cont/detail/SpanImpl.hh (subspan_extent / subspan_size).

    std::size_t arithmetic is modelled over Z with explicit reduction mod 2^64
    ([sz]); a span is (data offset into a buffer, size).  The CELER_EXPECT
    conditions are separate boolean functions ([*_pre]) -- they are compiled out
    in this build (CELERITAS_DEBUG=0) and guard nothing.   NO proofs here. *)
From Coq Require Import List Bool ZArith.
Import ListNotations.
Local Open Scope Z_scope.

Definition size_mod : Z := 2 ^ 64.
Definition sz (x : Z) : Z := x mod size_mod.
(* inline constexpr std::size_t dynamic_extent = std::size_t(-1); *)
Definition dynamic_extent : Z := sz (-1).

(* count != dynamic_extent ? count : (extent != dynamic_extent ? extent - offset : dynamic_extent) *)
Definition subspan_extent (extent offset count : Z) : Z :=
  if negb (count =? dynamic_extent) then count
  else if negb (extent =? dynamic_extent) then sz (extent - offset) else dynamic_extent.
(* count != dynamic_extent ? count : size - offset *)
Definition subspan_size (size offset count : Z) : Z :=
  if negb (count =? dynamic_extent) then count else sz (size - offset).

(** a span = (pointer as element offset into the underlying buffer, size) *)
Definition span := (Z * Z)%type.
Definition span_data (s : span) : Z := fst s.
Definition span_size (s : span) : Z := snd s.
Definition span_empty (s : span) : bool := span_size s =? 0.
Definition span_elems {A} (buf : list A) (s : span) : list A :=
  firstn (Z.to_nat (span_size s)) (skipn (Z.to_nat (span_data s)) buf).

(* first(count):  CELER_EXPECT(count <= size());  {data(), count} *)
Definition first_pre (s : span) (count : Z) : bool := count <=? span_size s.
Definition span_first (s : span) (count : Z) : span := (span_data s, count).
(* first<Count>(): CELER_EXPECT(Count == 0 || Count <= size()) *)
Definition first_t_pre (s : span) (count : Z) : bool := (count =? 0) || (count <=? span_size s).

(* subspan(offset, count = dynamic_extent):
     CELER_EXPECT(offset + count <= size());
     {data() + offset, subspan_size(size(), offset, count)} *)
Definition subspan_pre (s : span) (offset count : Z) : bool := sz (offset + count) <=? span_size s.
Definition span_subspan (s : span) (offset count : Z) : span :=
  (span_data s + offset, subspan_size (span_size s) offset count).
(* subspan<Offset, Count>():
     CELER_EXPECT((Count == dynamic_extent) || (Offset == 0 && Count == 0)
                  || (Offset + Count <= size())); *)
Definition subspan_t_pre (s : span) (offset count : Z) : bool :=
  (count =? dynamic_extent) || ((offset =? 0) && (count =? 0)) || (sz (offset + count) <=? span_size s).

(* last(count):  CELER_EXPECT(count <= size());  {data() + size() - count, count} *)
Definition last_pre (s : span) (count : Z) : bool := count <=? span_size s.
Definition span_last (s : span) (count : Z) : span := (span_data s + span_size s - count, count).

(** the precondition of std::span::subspan ([span.sub]):
    offset <= size() && (count == dynamic_extent || count <= size() - offset) *)
Definition std_subspan_pre (s : span) (offset count : Z) : bool :=
  (offset <=? span_size s) && ((count =? dynamic_extent) || (count <=? span_size s - offset)).
