(** * C18: scalar helpers of corecel/math/Algorithms.hh = exact-arithmetic reference
    (over R for the floating-point helpers, over Z for the integer ones) *)
From Coq Require Import Reals ZArith Lra Lia Bool List.
From Celer Require Import Base.Num Base.NumR C18.Algorithms C18.Math.
Import ListNotations.
Local Open Scope R_scope.

(** ** clamp, clamp_to_nonneg, min, max *)
Theorem clamp_spec : forall v lo hi : R, clamp_pre lo hi = true ->
  lo <= m_clamp v lo hi <= hi /\ (lo <= v <= hi -> m_clamp v lo hi = v) /\
  m_clamp v lo hi = Rmin hi (Rmax lo v).
Proof.
  intros v lo hi Hpre. unfold clamp_pre in Hpre. unfold m_clamp. numR.
  apply negb_true_iff, Rltb_false in Hpre.
  unfold Rmin, Rmax. rcases; repeat destruct (Rle_dec _ _); repeat split; intros; lra.
Qed.

Theorem clamp_to_nonneg_spec : forall v : R, m_clamp_to_nonneg v = Rmax 0 v /\ 0 <= m_clamp_to_nonneg v.
Proof. intro v. unfold m_clamp_to_nonneg. numR. unfold Rmax. rcases; destruct (Rle_dec 0 v); split; lra. Qed.

Theorem fmin_fmax_spec : forall a b : R, m_fmin a b = Rmin a b /\ m_fmax a b = Rmax a b.
Proof.
  intros a b. unfold m_fmin, m_fmax. numR.
  rewrite !(proj2 (Reqb_true _ _)) by reflexivity.
  unfold Rmin, Rmax. rcases; destruct (Rle_dec a b); split; lra.
Qed.

(** ** fastpow(a, b) = a^b under its CELER_EXPECT (a > 0; for a = 0 the real-number
    logarithm is not the IEEE one, see NOTES) *)
Theorem fastpow_spec : forall a b : R, 0 < a ->
  fastpow_pre a b = true /\ m_fastpow a b = Rpower a b /\
  (forall n : nat, m_fastpow a (INR n) = a ^ n).
Proof.
  intros a b Ha. unfold fastpow_pre, m_fastpow. numR. repeat split.
  - apply orb_true_iff. left. apply Rltb_true. exact Ha.
  - intro n. change (exp (INR n * ln a)) with (Rpower a (INR n)). apply Rpower_pow. exact Ha.
Qed.

(** ** negate, diffsq, signum, rsqrt *)
Theorem negate_spec : forall v : R, m_negate v = - v /\ m_negate (m_negate v) = v /\ m_negate 0 = 0.
Proof. intro v. unfold m_negate. numR. repeat split; lra. Qed.

Theorem diffsq_spec : forall a b : R, m_diffsq a b = a * a - b * b.
Proof. intros. unfold m_diffsq. numR. ring. Qed.

Theorem signum_spec : forall x : R,
  (m_signum x = 1%Z <-> 0 < x) /\ (m_signum x = 0%Z <-> x = 0) /\ (m_signum x = (-1)%Z <-> x < 0) /\
  x = IZR (m_signum x) * Rabs x.
Proof.
  intro x. unfold m_signum. numR. unfold Rabs.
  rcases; destruct (Rcase_abs x); repeat split; intros; try lra; try lia; cbn; lra.
Qed.

Theorem rsqrt_spec : forall x : R, 0 < x ->
  m_rsqrt x = / sqrt x /\ 0 < m_rsqrt x /\ m_rsqrt x * m_rsqrt x * x = 1.
Proof.
  intros x Hx. unfold m_rsqrt. numR. pose proof (sqrt_lt_R0 x Hx) as Hs.
  assert (E : 1 / sqrt x = / sqrt x) by (unfold Rdiv; ring). rewrite E. repeat split.
  - apply Rinv_0_lt_compat. exact Hs.
  - rewrite <- (sqrt_sqrt x) at 3 by lra. field. lra.
Qed.

(** ** eumod: with r = fmod(numer, denom) = numer - trunc(numer / denom) * denom the result is
    in [0, |denom|) and congruent to numer modulo denom *)
Definition Ztrunc (x : R) : Z := if Rlt_dec x 0 then (- Int_part (- x))%Z else Int_part x.
Definition Rfmod (x y : R) : R := x - IZR (Ztrunc (x / y)) * y.

Lemma Int_part_bounds : forall x, IZR (Int_part x) <= x < IZR (Int_part x) + 1.
Proof.
  intro x. pose proof (base_Int_part x) as [H1 H2]. split; lra.
Qed.

(** |fmod(x, y)| < |y| *)
Lemma Rfmod_range : forall x y, y <> 0 -> Rabs (Rfmod x y) < Rabs y.
Proof.
  intros x y Hy. unfold Rfmod, Ztrunc.
  assert (Ex : x = (x / y) * y) by (field; exact Hy).
  set (q := x / y) in *. pose proof (Rabs_pos_lt y Hy) as Hay.
  destruct (Rlt_dec q 0) as [Hq|Hq].
  - pose proof (Int_part_bounds (- q)) as [B1 B2]. rewrite opp_IZR.
    set (k := IZR (Int_part (- q))) in *.
    assert (Ed : x - - k * y = (q + k) * y) by (rewrite Ex at 1; ring). rewrite Ed.
    rewrite Rabs_mult. assert (Hf : Rabs (q + k) < 1) by (apply Rabs_def1; lra).
    pose proof (Rabs_pos (q + k)). clear - Hf Hay H. nra.
  - pose proof (Int_part_bounds q) as [B1 B2].
    set (k := IZR (Int_part q)) in *.
    assert (Ed : x - k * y = (q - k) * y) by (rewrite Ex at 1; ring). rewrite Ed.
    rewrite Rabs_mult. assert (Hf : Rabs (q - k) < 1) by (apply Rabs_def1; lra).
    pose proof (Rabs_pos (q - k)). clear - Hf Hay H. nra.
Qed.

Theorem eumod_spec : forall numer denom : R, denom <> 0 ->
  let r := m_eumod Rfmod numer denom in
  0 <= r < Rabs denom /\ exists k : Z, numer = r + IZR k * denom.
Proof.
  intros numer denom Hd r. subst r. unfold m_eumod, m_eumod_r. numR.
  pose proof (Rfmod_range numer denom Hd) as Habs.
  assert (Hk : exists k : Z, numer = Rfmod numer denom + IZR k * denom).
  { exists (Ztrunc (numer / denom)). unfold Rfmod. ring. }
  destruct Hk as [k Hk]. set (f := Rfmod numer denom) in *.
  unfold Rabs in *. destruct (Rcase_abs f), (Rcase_abs denom); rcases; try lra.
  - split; [lra|]. exists (k + 1)%Z. rewrite plus_IZR. lra.
  - split; [lra|]. exists (k - 1)%Z. rewrite minus_IZR. lra.
  - split; [lra|]. exists k. exact Hk.
  - split; [lra|]. exists k. exact Hk.
Qed.

Example eumod_ex : m_eumod_r (-1) 3 = 2 /\ m_eumod_r (-1) (-3) = 2 /\ m_eumod_r 1 (-3) = 1.
Proof. unfold m_eumod_r. numR. repeat split; rcases; lra. Qed.
Example clamp_ex : clamp_pre 1 2 = true /\ m_clamp 5 1 2 = 2.
Proof. unfold clamp_pre, m_clamp. numR. split; rcases; try reflexivity; lra. Qed.

(** ** integers *)
Local Open Scope Z_scope.

Theorem imin_imax_spec : forall a b : Z, m_imin a b = Z.min a b /\ m_imax a b = Z.max a b.
Proof.
  intros. unfold m_imin, m_imax. rewrite Z.gtb_ltb.
  destruct (Z.ltb_spec b a), (Z.ltb_spec a b); lia.
Qed.

Theorem iclamp_spec : forall v lo hi : Z, lo <= hi ->
  m_iclamp v lo hi = Z.min hi (Z.max lo v) /\ lo <= m_iclamp v lo hi <= hi.
Proof. intros. unfold m_iclamp. destruct (Z.ltb_spec v lo), (Z.ltb_spec hi v); lia. Qed.

Theorem isignum_spec : forall x : Z, m_isignum x = Z.sgn x.
Proof. intros. unfold m_isignum. destruct (Z.ltb_spec 0 x), (Z.ltb_spec x 0); lia. Qed.

(** unsigned fma / negate / diffsq: exact when nothing overflows, congruent mod 2^w always *)
Theorem fma_u_spec : forall w a b y, 0 <= a -> 0 <= b -> 0 <= y ->
  (a * b + y < 2 ^ w -> m_fma_u w a b y = a * b + y) /\
  (0 < w -> 0 <= m_fma_u w a b y < 2 ^ w).
Proof.
  intros w a b y Ha Hb Hy. unfold m_fma_u. split.
  - intros Hlt. apply Z.mod_small. nia.
  - intros Hw. apply Z.mod_pos_bound. apply Z.pow_pos_nonneg; lia.
Qed.

Theorem negate_u_spec : forall w v, 0 < w -> 0 <= v < 2 ^ w ->
  m_negate_u w v = (if v =? 0 then 0 else 2 ^ w - v) /\ m_negate_u w (m_negate_u w v) = v.
Proof.
  intros w v Hw Hv. unfold m_negate_u.
  assert (E : (0 - v) mod 2 ^ w = if v =? 0 then 0 else 2 ^ w - v).
  { destruct (Z.eqb_spec v 0) as [->|Hne]; [reflexivity|].
    replace (0 - v) with ((2 ^ w - v) + (-1) * 2 ^ w) by lia.
    rewrite Z.mod_add by lia. apply Z.mod_small. lia. }
  split; [exact E|]. rewrite E. destruct (Z.eqb_spec v 0) as [->|Hne]; [reflexivity|].
  replace (0 - (2 ^ w - v)) with (v + (-1) * 2 ^ w) by lia.
  rewrite Z.mod_add by lia. apply Z.mod_small. lia.
Qed.

Theorem diffsq_u_spec : forall w a b, 0 < w -> m_diffsq_u w a b = (a * a - b * b) mod 2 ^ w.
Proof.
  intros w a b Hw. unfold m_diffsq_u. rewrite <- Z.mul_mod by (apply Z.pow_nonzero; lia).
  f_equal. ring.
Qed.

(** ceil_div never wraps (unlike the textbook (top + bottom - 1) / bottom): for every
    representable top and bottom >= 1 the w-bit result is the exact ceiling *)
Theorem ceil_div_u_spec : forall w top bottom, 0 <= top < 2 ^ w -> 1 <= bottom ->
  m_ceil_div_u w top bottom = Z.of_nat (ceil_div (Z.to_nat top) (Z.to_nat bottom)) /\
  m_ceil_div_u w top bottom <= top.
Proof.
  intros w top bottom Ht Hb. unfold m_ceil_div_u, ceil_div.
  assert (Hq : 0 <= top / bottom <= top).
  { split; [apply Z.div_pos; lia|]. apply Z.div_le_upper_bound; nia. }
  pose proof (Z.mod_pos_bound top bottom ltac:(lia)) as Hm.
  pose proof (Z.div_mod top bottom ltac:(lia)) as Hdm.
  assert (Hle : top / bottom + (if top mod bottom =? 0 then 0 else 1) <= top).
  { destruct (Z.eqb_spec (top mod bottom) 0); [lia|].
    destruct (Z.eq_dec bottom 1) as [->|]; [rewrite Z.mod_1_r in *; lia|]. nia. }
  rewrite Z.mod_small by (destruct (Z.eqb_spec (top mod bottom) 0); lia).
  split; [|exact Hle].
  rewrite Nat2Z.inj_add, Nat2Z.inj_div. rewrite !Z2Nat.id by lia. f_equal.
  assert (Em : Z.of_nat (Z.to_nat top mod Z.to_nat bottom) = top mod bottom).
  { rewrite Nat2Z.inj_mod. rewrite !Z2Nat.id by lia. reflexivity. }
  destruct (Nat.eqb_spec (Z.to_nat top mod Z.to_nat bottom) 0) as [E|E];
    destruct (Z.eqb_spec (top mod bottom) 0); try reflexivity; lia.
Qed.

Example ceil_div_u_ex : m_ceil_div_u 64 18446744073709551615 2 = 9223372036854775808 /\
  m_ceil_div_u 64 18446744073709551615 18446744073709551615 = 1 /\ m_ceil_div_u 64 0 7 = 0.
Proof. repeat split; vm_compute; reflexivity. Qed.

(** ipow<N> on an unsigned integer type: v^N modulo 2^w *)
Lemma ipow_fuel_u : forall w fuel n v, 0 < w -> (n < fuel)%nat ->
  ipow_fuel (1 mod 2 ^ w) (mul_u w) fuel n v = (v ^ Z.of_nat n) mod 2 ^ w.
Proof.
  intros w fuel n v Hw. revert n. unfold mul_u.
  assert (Hm : 2 ^ w <> 0) by (apply Z.pow_nonzero; lia).
  induction fuel as [|f IH]; intros n Hn; [lia|].
  cbn [ipow_fuel]. destruct (Nat.eqb_spec n 0) as [->|Hn0]; [reflexivity|].
  destruct (Nat.even n) eqn:Ev.
  - apply Nat.even_spec in Ev. destruct Ev as [k ->].
    replace (2 * k / 2)%nat with k by (apply Nat.div_unique_exact; lia).
    rewrite IH by lia. rewrite <- Z.mul_mod by auto. rewrite <- Z.pow_add_r by lia. f_equal. f_equal. lia.
  - assert (Od : Nat.odd n = true) by (unfold Nat.odd; rewrite Ev; reflexivity).
    apply Nat.odd_spec in Od. destruct Od as [k ->].
    replace ((2 * k + 1 - 1) / 2)%nat with k by (apply Nat.div_unique_exact; lia).
    rewrite IH by lia.
    set (P := v ^ Z.of_nat k).
    rewrite Z.mul_mod_idemp_l by auto. rewrite Z.mul_mod_idemp_r by auto.
    replace (v * (P mod 2 ^ w) * P) with (v * P * (P mod 2 ^ w)) by ring.
    rewrite Z.mul_mod_idemp_r by auto. f_equal. subst P.
    replace (Z.of_nat (2 * k + 1)) with (1 + Z.of_nat k + Z.of_nat k) by lia.
    rewrite !Z.pow_add_r by lia. rewrite Z.pow_1_r. ring.
Qed.

Theorem ipow_u_spec : forall w n v, 0 < w ->
  ipow (1 mod 2 ^ w) (mul_u w) n v = (v ^ Z.of_nat n) mod 2 ^ w.
Proof. intros. unfold ipow. apply ipow_fuel_u; auto. Qed.

Example ipow_u_ex : ipow (1 mod 2 ^ 32) (mul_u 32) 33 2 = 0 /\ ipow (1 mod 2 ^ 32) (mul_u 32) 5 7 = 16807.
Proof. split; vm_compute; reflexivity. Qed.

(** ** all_of / any_of / all_adjacent = the list-library references *)
Theorem all_any_spec : forall (A : Type) (p : A -> bool) (l : list A),
  all_of p l = forallb p l /\ any_of p l = existsb p l.
Proof.
  intros A p l. induction l as [|x r [IH1 IH2]]; [split; reflexivity|].
  cbn [all_of any_of forallb existsb]. rewrite IH1, IH2. destruct (p x); split; reflexivity.
Qed.

Theorem all_adjacent_spec : forall (A : Type) (d : A) (p : A -> A -> bool) (l : list A),
  all_adjacent p l = true <->
  (forall i, (S i < length l)%nat -> p (nth i l d) (nth (S i) l d) = true).
Proof.
  intros A d p l. destruct l as [|x r]; cbn [all_adjacent].
  - split; [intros _ i Hi; cbn in Hi; lia|reflexivity].
  - revert x. induction r as [|y r IH]; intro x; cbn [all_adjacent_loop].
    + split; [intros _ i Hi; cbn in Hi; lia|reflexivity].
    + destruct (p x y) eqn:E; cbn [negb].
      * rewrite IH. split.
        -- intros Hall [|i] Hi; [exact E|]. cbn [length] in Hi. apply (Hall i). cbn [length]. lia.
        -- intros Hall i Hi. apply (Hall (S i)). cbn [length] in *. lia.
      * split; [discriminate|]. intros Hall. specialize (Hall 0%nat). cbn in Hall.
        rewrite E in Hall. apply Hall. lia.
Qed.
