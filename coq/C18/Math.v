(** * C18: executable model of the scalar helpers of corecel/math/Algorithms.hh
    (clamp, clamp_to_nonneg, min/max, fastpow, integer fma, negate, diffsq, eumod, signum,
    rsqrt) -- floating-point helpers once over [Num T] (R for the theorems, binary64 for the
    tie), integer helpers over Z with the wrap-around of unsigned types explicit.
    NO proofs here. *)
From Coq Require Import ZArith Bool.
From Celer Require Import Base.Num.
Local Open Scope num_scope.

Section Float.
  Context {T : Type} `{Num T}.

  (* CELER_EXPECT(!(hi < lo));  return v < lo ? lo : hi < v ? hi : v; *)
  Definition clamp_pre (lo hi : T) : bool := negb (hi <? lo).
  Definition m_clamp (v lo hi : T) : T := if v <? lo then lo else if hi <? v then hi else v.
  (* return (v < 0) ? 0 : v; *)
  Definition m_clamp_to_nonneg (v : T) : T := if v <? n0 then n0 else v.

  (* floating-point min / max are std::fmin / std::fmax: a NaN operand is ignored *)
  Definition m_fmin (a b : T) : T :=
    if a =? a then (if b =? b then (if b <? a then b else a) else a) else b.
  Definition m_fmax (a b : T) : T :=
    if a =? a then (if b =? b then (if a <? b then b else a) else a) else b.

  (* CELER_EXPECT(a > 0 || (a == 0 && b != 0));  return std::exp(b * std::log(a)); *)
  Definition fastpow_pre (a b : T) : bool := (n0 <? a) || ((a =? n0) && negb (b =? n0)).
  Definition m_fastpow (a b : T) : T := nexp (b * nlog a).

  (* return T{0} - value; *)
  Definition m_negate (v : T) : T := n0 - v.
  (* return (a - b) * (a + b); *)
  Definition m_diffsq (a b : T) : T := (a - b) * (a + b).

  (* T r = std::fmod(numer, denom);
     if (r < 0) { if (denom >= 0) r += denom; else r -= denom; }  return r;
     [r] is the value of std::fmod *)
  Definition m_eumod_r (r denom : T) : T :=
    if r <? n0 then (if denom >=? n0 then r + denom else r - denom) else r.
  Definition m_eumod (fmod : T -> T -> T) (numer denom : T) : T :=
    m_eumod_r (fmod numer denom) denom.

  (* return (0 < x) - (x < 0); *)
  Definition m_signum (x : T) : Z :=
    let pos := n0 <? x in let neg := x <? n0 in
    ((if pos then 1 else 0) - (if neg then 1 else 0))%Z.

  (* return 1.0 / std::sqrt(value); *)
  Definition m_rsqrt (x : T) : T := n1 / nsqrt x.
End Float.

(** ** integers *)
Section Int.
  Local Open Scope Z_scope.
  (* non-floating-point min / max:  (b < a) ? b : a   /   (b > a) ? b : a *)
  Definition m_imin (a b : Z) : Z := if b <? a then b else a.
  Definition m_imax (a b : Z) : Z := if b >? a then b else a.
  (* clamp / signum on integers *)
  Definition m_iclamp (v lo hi : Z) : Z := if v <? lo then lo else if hi <? v then hi else v.
  Definition m_isignum (x : Z) : Z := (if 0 <? x then 1 else 0) - (if x <? 0 then 1 else 0).
  (* integer fma: a * b + y in an unsigned type of [w] bits *)
  Definition m_fma_u (w a b y : Z) : Z := (a * b + y) mod 2 ^ w.
  (* negate / diffsq on an unsigned type wrap *)
  Definition m_negate_u (w v : Z) : Z := (0 - v) mod 2 ^ w.
  Definition m_diffsq_u (w a b : Z) : Z := (((a - b) mod 2 ^ w) * ((a + b) mod 2 ^ w)) mod 2 ^ w.
  (* ceil_div in an unsigned type: (top / bottom) + (top % bottom != 0) -- the sum cannot wrap *)
  Definition m_ceil_div_u (w top bottom : Z) : Z :=
    (top / bottom + (if top mod bottom =? 0 then 0 else 1)) mod 2 ^ w.
  (* multiplication of an unsigned type, for ipow<N> on unsigned integers *)
  Definition mul_u (w a b : Z) : Z := (a * b) mod 2 ^ w.
End Int.
