(** * C18: specification vocabulary (definitions only) *)
From Coq Require Import List Arith Bool Permutation.
From Celer Require Import C18.Algorithms.
Import ListNotations.

Section Specs.
  Context {A : Type}.

  (** C++ named requirement Compare: a strict weak ordering *)
  Record strict_weak_order (cmp : A -> A -> bool) : Prop := {
    swo_irrefl : forall a, cmp a a = false;
    swo_trans : forall a b c, cmp a b = true -> cmp b c = true -> cmp a c = true;
    (* incomparability is transitive *)
    swo_incomp : forall a b c,
        cmp a b = false -> cmp b a = false -> cmp b c = false -> cmp c b = false ->
        cmp a c = false /\ cmp c a = false }.

  (** sorted w.r.t. cmp: no later element is less than an earlier one
      (pairwise; for a strict weak order equivalent to the adjacent version
      used by std::is_sorted) *)
  Definition sorted (cmp : A -> A -> bool) (d : A) (l : list A) : Prop :=
    forall i j, i < j -> j < length l -> cmp (get d l j) (get d l i) = false.

  Definition sorted_adjacent (cmp : A -> A -> bool) (d : A) (l : list A) : Prop :=
    forall i, S i < length l -> cmp (get d l (S i)) (get d l i) = false.

  (** partitioned w.r.t. p: all the true elements precede all the false ones *)
  Definition partitioned (p : A -> bool) (d : A) (l : list A) : Prop :=
    forall i j, i < j -> j < length l -> p (get d l j) = true -> p (get d l i) = true.

  Definition count (p : A -> bool) (l : list A) : nat := length (filter p l).
End Specs.
