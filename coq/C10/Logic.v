(** * C10: executable model of the logic encodings and their evaluators

      - orange/OrangeTypes.hh  (logic tokens)
      - univ/detail/LogicStack.hh     (32-bit bit-field stack)
      - univ/detail/LogicEvaluator.hh (postfix evaluator)
      - univ/detail/InfixEvaluator.hh (short-circuit infix evaluator)
      - orangeinp/detail/PostfixLogicBuilder.cc
      - orangeinp/detail/InfixStringBuilder.hh
      - orangeinp/detail/InternalSurfaceFlagger.cc
      - detail/UnitInserter.cc : calc_max_depth

    No proofs in this file. *)
From Coq Require Import List Arith Bool NArith ZArith Lia.
From Celer Require Import C10.Csg.
Import ListNotations.

(** ** Logic tokens.
    [logic_int] values [>= lbegin] are operator tokens, everything below is a
    face / surface index; the model keeps the two apart by construction
    (the builder's CELER_EXPECT(s.id < lbegin) is therefore vacuous here). *)
Inductive tok :=
| TFace (f : nat)
| TOpen | TClose | TTrue | TOr | TAnd | TNot.

Definition is_operator_token (x : tok) : bool :=
  match x with TFace _ => false | _ => true end.

(** ** LogicStack: [data_] and [size_] are [size_type], an unsigned integer of
    [W] bits: 32 in device builds ([unsigned int]), 64 in host-only builds
    ([std::size_t]). The model is parametric in [W]. *)
Definition wmod (W : nat) : N := N.pow 2 (N.of_nat W).
Definition mask_not1 (W : nat) : N := (wmod W - 2)%N.       (* ~size_type(1) *)

Record lstack := mkStack { sdata : N; ssize : nat }.
Definition stack_empty : lstack := mkStack 0%N 0.
Definition max_stack_depth (W : nat) : nat := W.

Definition b2N (b : bool) : N := if b then 1%N else 0%N.
Definition lsb (x : N) : N := N.land x 1%N.
Definition shr (x : N) : N := N.shiftr x 1%N.
Definition shl (W : nat) (x : N) : N := (N.shiftl x 1%N mod wmod W)%N.

Definition ls_push (W : nat) (s : lstack) (v : bool) : res lstack :=
  _ <- expect (negb (ssize s =? max_stack_depth W)) ;;
  Ok (mkStack (N.lor (shl W (sdata s)) (lsb (b2N v))) (S (ssize s))).

Definition ls_top (s : lstack) : res bool :=
  _ <- expect (negb (ssize s =? 0)) ;;
  Ok (N.eqb (lsb (sdata s)) 1%N).

Definition ls_pop (s : lstack) : res (bool * lstack) :=
  _ <- expect (negb (ssize s =? 0)) ;;
  Ok (N.eqb (lsb (sdata s)) 1%N, mkStack (shr (sdata s)) (ssize s - 1)).

Definition ls_not (s : lstack) : res lstack :=
  _ <- expect (negb (ssize s =? 0)) ;;
  Ok (mkStack (N.lxor (sdata s) 1%N) (ssize s)).

Definition ls_and (W : nat) (s : lstack) : res lstack :=
  _ <- expect (2 <=? ssize s) ;;
  let temp := lsb (sdata s) in
  Ok (mkStack (N.land (shr (sdata s)) (N.lor temp (mask_not1 W))) (ssize s - 1)).

Definition ls_or (s : lstack) : res lstack :=
  _ <- expect (2 <=? ssize s) ;;
  Ok (mkStack (N.lor (shr (sdata s)) (lsb (sdata s))) (ssize s - 1)).

(** ** LogicEvaluator::operator() : [values] gives the sense of each face *)
Definition logic_step (W : nat) (values : list bool) (s : lstack) (x : tok) : res lstack :=
  match x with
  | TFace f =>
      match nth_error values f with
      | None => Assert
      | Some v => ls_push W s v
      end
  | TTrue => ls_push W s true
  | TOr => ls_or s
  | TAnd => ls_and W s
  | TNot => ls_not s
  | TOpen | TClose => Assert     (* CELER_ASSERT_UNREACHABLE *)
  end.

Fixpoint logic_run (W : nat) (values : list bool) (s : lstack) (l : list tok) : res lstack :=
  match l with
  | [] => Ok s
  | x :: r => s' <- logic_step W values s x ;; logic_run W values s' r
  end.

Definition logic_evaluate (W : nat) (l : list tok) (values : list bool) : res bool :=
  _ <- expect (negb (length l =? 0)) ;;
  s <- logic_run W values stack_empty l ;;
  _ <- expect (ssize s =? 1) ;;
  ls_top s.

(** Reference semantics on an unbounded [list bool] stack (top = head) *)
Definition list_step (vf : nat -> option bool) (st : list bool) (x : tok) : option (list bool) :=
  match x, st with
  | TFace f, _ => match vf f with Some v => Some (v :: st) | None => None end
  | TTrue, _ => Some (true :: st)
  | TOr, a :: b :: r => Some ((b || a) :: r)
  | TAnd, a :: b :: r => Some ((b && a) :: r)
  | TNot, a :: r => Some (negb a :: r)
  | _, _ => None
  end.

Fixpoint list_run (vf : nat -> option bool) (st : list bool) (l : list tok) : option (list bool) :=
  match l with
  | [] => Some st
  | x :: r => match list_step vf st x with Some st' => list_run vf st' r | None => None end
  end.

(** ** calc_max_depth (UnitInserter.cc); [None] = invalid_max_depth *)
Fixpoint cmd_loop (l : list tok) (max_depth cur_depth : Z) : Z * Z :=
  match l with
  | [] => (max_depth, cur_depth)
  | x :: r =>
      match x with
      | TFace _ | TTrue => cmd_loop r max_depth (cur_depth + 1)%Z
      | TAnd | TOr => cmd_loop r (Z.max cur_depth max_depth) (cur_depth - 1)%Z
      | _ => cmd_loop r max_depth cur_depth
      end
  end.

Definition calc_max_depth (l : list tok) : res (option Z) :=
  _ <- expect (negb (length l =? 0)) ;;
  let '(m, c) := cmd_loop l 1%Z 0%Z in
  Ok (if (c =? 1)%Z then Some m else None).

(** ** PostfixLogicBuilder *)

(** [find_sorted] on a sorted vector: position of the element, if present *)
Fixpoint index_of (x : nat) (l : list nat) : option nat :=
  match l with
  | [] => None
  | y :: r => if x =? y then Some 0 else option_map S (index_of x r)
  end.

(** the loop over the remaining daughters of a join: visit, then push the operator *)
Fixpoint join_rest (f : nat -> res (list tok)) (optok : tok) (r : list nat) (acc : list tok)
  : res (list tok) :=
  match r with
  | [] => Ok acc
  | d :: r' => l <- f d ;; join_rest f optok r' (acc ++ l ++ [optok])
  end.

Definition op_tok (o : op) : tok := match o with OpAnd => TAnd | OpOr => TOr end.

(** [PostfixLogicBuilderImpl]: recursion on node ids, [fuel] bounds the depth *)
Fixpoint postfix_impl (fuel : nat) (t : tree) (mapping : option (list nat)) (n : nat)
  : res (list tok) :=
  match fuel with
  | 0 => Fuel
  | S fuel' =>
      nd <- get_node t n ;;
      match nd with
      | NTrue => Ok [TTrue]
      | NFalse => Assert
      | NSurface s =>
          match mapping with
          | None => Ok [TFace s]
          | Some m => match index_of s m with Some i => Ok [TFace i] | None => Assert end
          end
      | NAliased a => postfix_impl fuel' t mapping a
      | NNegated a => l <- postfix_impl fuel' t mapping a ;; Ok (l ++ [TNot])
      | NJoined o ds =>
          _ <- expect (2 <=? length ds) ;;
          match ds with
          | [] => Assert
          | d0 :: r =>
              l0 <- postfix_impl fuel' t mapping d0 ;;
              join_rest (postfix_impl fuel' t mapping) (op_tok o) r l0
          end
      end
  end.

Definition tok_faces (l : list tok) : list nat :=
  flat_map (fun x => match x with TFace f => [f] | _ => [] end) l.

Definition remap_tok (faces : list nat) (x : tok) : res tok :=
  match x with
  | TFace f => match index_of f faces with Some i => Ok (TFace i) | None => Assert end
  | _ => Ok x
  end.

Fixpoint mapM {A B} (f : A -> res B) (l : list A) : res (list B) :=
  match l with
  | [] => Ok []
  | x :: r => y <- f x ;; ys <- mapM f r ;; Ok (y :: ys)
  end.

(** [PostfixLogicBuilder::operator()] -> (faces, logic) *)
Definition build_postfix (fuel : nat) (t : tree) (mapping : option (list nat)) (n : nat)
  : res (list nat * list tok) :=
  _ <- expect (n <? size t) ;;
  lgc <- postfix_impl fuel t mapping n ;;
  let faces := sort_uniq (tok_faces lgc) in
  lgc' <- mapM (remap_tok faces) lgc ;;
  Ok (faces, lgc').

(** ** InfixStringBuilder: the characters are emitted as tokens which the
    check renders ("all(" / "any(" / ", " / ")" / "!" / "T" / "F" / "+n" / "-n") *)
Inductive stok :=
| SAll | SAny | SSep | SClose | SBang | ST | SF | SPlus (s : nat) | SMinus (s : nat).

(** state = the [negated_] flag; output appended *)
Fixpoint infix_string_impl (fuel : nat) (t : tree) (n : nat) (negated : bool)
  : res (list stok * bool) :=
  match fuel with
  | 0 => Fuel
  | S fuel' =>
      nd <- get_node t n ;;
      match nd with
      | NTrue => Ok ([if negated then SF else ST], false)
      | NFalse => Assert
      | NSurface s => Ok ([if negated then SMinus s else SPlus s], false)
      | NAliased a => infix_string_impl fuel' t a negated
      | NNegated a =>
          '(l, ng) <- infix_string_impl fuel' t a true ;;
          Ok ((if negated then [SBang] else []) ++ l, ng)
      | NJoined o ds =>
          _ <- expect (2 <=? length ds) ;;
          match ds with
          | [] => Assert
          | d0 :: r =>
              let head := (if negated then [SBang] else [])
                          ++ [match o with OpAnd => SAll | OpOr => SAny end] in
              '(l0, ng0) <- infix_string_impl fuel' t d0 false ;;
              '(l, ng) <-
                (fix rest (r : list nat) (acc : list stok) (ng : bool) : res (list stok * bool) :=
                   match r with
                   | [] => Ok (acc, ng)
                   | d :: r' =>
                       '(l, ng') <- infix_string_impl fuel' t d ng ;;
                       rest r' (acc ++ [SSep] ++ l) ng'
                   end) r (head ++ l0) ng0 ;;
              Ok (l ++ [SClose], ng)
          end
      end
  end.

Definition build_infix_string (fuel : nat) (t : tree) (n : nat) : res (list stok) :=
  _ <- expect (n <? size t) ;;
  '(l, _) <- infix_string_impl fuel t n false ;;
  Ok l.

(** ** InfixEvaluator *)

(** [short_circuit(i)]: scan forward from [i+1] to the parenthesis closing the
    current group; returns its index. Reading past the end = Assert. *)
Fixpoint short_circuit (fuel : nat) (l : list tok) (i : nat) (par_depth : nat) : res nat :=
  match fuel with
  | 0 => Fuel
  | S fuel' =>
      match par_depth with
      | 0 => Ok i
      | S pd =>
          match nth_error l (S i) with
          | None => Assert
          | Some TOpen => short_circuit fuel' l (S i) (S par_depth)
          | Some TClose => short_circuit fuel' l (S i) pd
          | Some _ => short_circuit fuel' l (S i) par_depth
          end
      end
  end.

Fixpoint infix_loop (fuel : nat) (l : list tok) (sense : nat -> bool)
         (i : nat) (par_depth : Z) (result : bool) : res bool :=
  match fuel with
  | 0 => Fuel
  | S fuel' =>
      match nth_error l i with
      | None => Ok result                       (* i >= size: loop ends *)
      | Some x =>
          match x with
          | TFace f => infix_loop fuel' l sense (S i) par_depth (sense f)
          | _ =>
              if (match x with TOr => result | TAnd => negb result | _ => false end) then
                if (par_depth =? 0)%Z then Ok result
                else
                  i' <- short_circuit (S (length l)) l i 1 ;;
                  infix_loop fuel' l sense (S i') (par_depth - 1)%Z result
              else
                match x with
                | TTrue => infix_loop fuel' l sense (S i) par_depth true
                | TOpen => infix_loop fuel' l sense (S i) (par_depth + 1)%Z result
                | TClose =>
                    _ <- expect (0 <? par_depth)%Z ;;
                    infix_loop fuel' l sense (S i) (par_depth - 1)%Z result
                | TNot =>
                    match nth_error l (S i) with
                    | Some (TFace f) => infix_loop fuel' l sense (S (S i)) par_depth (negb (sense f))
                    | _ => Assert
                    end
                | _ => infix_loop fuel' l sense (S i) par_depth result
                end
          end
      end
  end.

Definition infix_evaluate (l : list tok) (sense : nat -> bool) : res bool :=
  _ <- expect (negb (length l =? 0)) ;;
  infix_loop (S (length l)) l sense 0 0%Z true.

(** The explicit infix logic form of a node. The repository has no builder
    for it (only [InfixEvaluator] and the string form); this is the encoding
    the evaluator's documentation describes: every join is one parenthesised
    group with a single operator, negation only directly in front of a face.
    Nodes outside that fragment (negated joins, negated constants, double
    negations) return [Assert]. *)
Fixpoint infix_rest (f : nat -> res (list tok)) (optok : tok) (r : list nat) (acc : list tok)
  : res (list tok) :=
  match r with
  | [] => Ok acc
  | d :: r' => l <- f d ;; infix_rest f optok r' (acc ++ [optok] ++ l)
  end.

Fixpoint build_infix (fuel : nat) (t : tree) (n : nat) : res (list tok) :=
  match fuel with
  | 0 => Fuel
  | S fuel' =>
      nd <- get_node t n ;;
      match nd with
      | NTrue => Ok [TTrue]
      | NFalse => Assert
      | NSurface s => Ok [TFace s]
      | NAliased a => build_infix fuel' t a
      | NNegated a =>
          c <- get_node t a ;;
          match c with
          | NSurface s => Ok [TNot; TFace s]
          | _ => Assert
          end
      | NJoined o ds =>
          match ds with
          | [] | [_] => Assert
          | d0 :: r =>
              l0 <- build_infix fuel' t d0 ;;
              l <- infix_rest (build_infix fuel' t) (op_tok o) r l0 ;;
              Ok ([TOpen] ++ l ++ [TClose])
          end
      end
  end.

(** ** InternalSurfaceFlagger: [true] = internal surfaces may be present.
    The C++ memoises per node id in [cache_]; the visited function is pure
    and the tree is const, so the cache is transparent and is not modelled. *)
Fixpoint flag_any (f : nat -> res bool) (ds : list nat) : res bool :=
  match ds with
  | [] => Ok false
  | d :: r => b <- f d ;; if b then Ok true else flag_any f r
  end.

Fixpoint flag_internal (fuel : nat) (t : tree) (n : nat) : res bool :=
  match fuel with
  | 0 => Fuel
  | S fuel' =>
      nd <- get_node t n ;;
      match nd with
      | NTrue => Ok false
      | NFalse => Assert
      | NSurface _ => Ok false
      | NAliased a => flag_internal fuel' t a
      | NNegated a =>
          c <- get_node t a ;;
          match c with
          | NJoined _ _ => Ok true
          | _ => flag_internal fuel' t a
          end
      | NJoined o ds =>
          _ <- expect (2 <=? length ds) ;;
          match o with
          | OpOr => Ok true
          | OpAnd => flag_any (flag_internal fuel' t) ds
          end
      end
  end.
