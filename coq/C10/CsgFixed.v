(** * C10: model of CsgTree::exchange AS IT IS IN /repo since d70f3c2 (repair
    of findings R1/R3) and of the functions built on it (CsgTree::simplify,
    replace_and_simplify, simplify_up, simplify).  This is the model the
    correspondence check runs against the real code.

    [Csg.v]'s [exchange chk] (and its callers) is the model of the code BEFORE
    the repair; it is kept for the [*_before_repair_refuted] witnesses only.

    Repair: in the swap-to-lower branch, if the higher node's CURRENT
    definition refers to an id that is not below [node_id], it is not moved
    down; the representation [n] itself is stored at [node_id], its table
    entry is re-pointed to [node_id] and the higher node aliases [node_id].
    Otherwise as before.

    The functions below [exchange_fx] are the text of Csg.v with
    [exchange chk] replaced by [exchange_fx] (generated once, by substitution). No proofs. *)
From Coq Require Import List Arith Bool Lia.
From Celer Require Import C10.Csg.
Import ListNotations.

Definition exchange_fx (t : tree) (node_id : nat) (n : node) : res (tree * node) :=
  _ <- expect (false_id <? node_id) ;;
  _ <- expect (user_node_valid node_id n) ;;
  r <- simplify_node t n ;;
  let n := match r with Some x => x | None => n end in
  old <- get_node t node_id ;;
  match n with
  | NAliased a => Ok (set_node t node_id (NAliased a), old)
  | _ =>
      match ids_find n (ids t) with
      | None =>
          Ok (mkTree (set_nth (nodes t) node_id n) (ids t ++ [(n, node_id)]) (volumes t), old)
      | Some j =>
          if j =? node_id then Ok (t, old)
          else if node_id <? j then
            hi <- get_node t j ;;
            if children_ltb node_id hi then
              (* as before: swap definitions, alias higher -> lower *)
              let ns := set_nth (set_nth (nodes t) node_id hi) j (NAliased node_id) in
              Ok (mkTree ns (ids_set n node_id (ids t)) (volumes t), old)
            else
              (* repair: keep the order -- the representation itself goes to the lower id *)
              let ns := set_nth (set_nth (nodes t) node_id n) j (NAliased node_id) in
              Ok (mkTree ns (ids_set n node_id (ids t)) (volumes t), old)
          else
            Ok (set_node t node_id (NAliased j), old)
      end
  end.

(** [CsgTree::simplify(NodeId)] : [Some old] iff the node changed *)
Definition simplify_one_fx (t : tree) (i : nat) : res (tree * option node) :=
  cur <- get_node t i ;;
  '(t', old) <- exchange_fx t i cur ;;
  now <- get_node t' i ;;
  Ok (t', if node_eqb old now then None else Some old).


(** forward sweep: nodes [n, n+1, ...]; [k] = number left.
    state threaded: (tree, max_node, simplifying) *)
Fixpoint sweep_fwd_fx (st : list repl) (t : tree) (n k : nat)
         (max_node : nat) (simplifying : bool) : res (tree * nat * bool) :=
  match k with
  | 0 => Ok (t, max_node, simplifying)
  | S k' =>
      match nth_error st n with
      | None => Assert
      | Some rv =>
          nd <- get_node t n ;;
          if is_known rv && is_surface nd then
            '(t', _) <- exchange_fx t n (const_node rv) ;;
            sweep_fwd_fx st t' (S n) k' (Nat.max max_node n) simplifying
          else
            '(t', simp) <- simplify_one_fx t n ;;
            match simp with
            | Some _ => sweep_fwd_fx st t' (S n) k' (Nat.max max_node n) true
            | None => sweep_fwd_fx st t' (S n) k' max_node simplifying
            end
      end
  end.

(** the [do ... while (simplifying)] loop *)
Fixpoint rs_loop_fx (fuel : nat) (t : tree) (st : list repl) (max_node : nat)
  : res (tree * list repl) :=
  match fuel with
  | 0 => Fuel
  | S fuel' =>
      '(st', upd) <- sweep_back t st max_node (max_node - false_id) false ;;
      '(t', max_node', simplifying) <-
        sweep_fwd_fx st' t (S false_id) (size t - S false_id) max_node upd ;;
      if simplifying then rs_loop_fx fuel' t' st' max_node' else Ok (t', st')
  end.

(** final "replace nonliterals" loop *)
Fixpoint rs_final_fx (st : list repl) (t : tree) (n k : nat) (unk : list nat)
  : res (tree * list nat) :=
  match k with
  | 0 => Ok (t, rev unk)
  | S k' =>
      match nth_error st n with
      | None => Assert
      | Some rs =>
          nd <- get_node t n ;;
          if is_surface nd then
            rs_final_fx st t (S n) k' (if repl_eqb rs Unknown then n :: unk else unk)
          else if is_known rs then
            '(t', _) <- exchange_fx t n (const_node rs) ;;
            rs_final_fx st t' (S n) k' unk
          else
            '(t', _) <- simplify_one_fx t n ;;
            rs_final_fx st t' (S n) k' unk
      end
  end.

(** [replace_and_simplify(tree, repl_key, repl_value)]; [value] : True{} / False{} *)
Definition replace_and_simplify_fx (fuel : nat) (t : tree) (key : nat) (value : bool)
  : res (tree * list nat) :=
  _ <- expect (key <? size t) ;;
  let st0 := repeat Unvisited (size t) in
  let st1 := set_nth st0 true_id KnownTrue in
  let st2 := set_nth st1 false_id KnownFalse in
  let st3 := set_nth st2 key (if value then KnownTrue else KnownFalse) in
  '(t', st) <- rs_loop_fx fuel t st3 key ;;
  rs_final_fx st t' (S false_id) (size t' - S false_id) [].


(** ** simplify_up / simplify *)
Fixpoint simplify_up_loop_fx (t : tree) (n k : nat) (result : option nat)
  : res (tree * option nat) :=
  match k with
  | 0 => Ok (t, result)
  | S k' =>
      '(t', simp) <- simplify_one_fx t n ;;
      let result' := match simp, result with Some _, None => Some n | _, _ => result end in
      simplify_up_loop_fx t' (S n) k' result'
  end.

Definition simplify_up_fx (t : tree) (start : nat) : res (tree * option nat) :=
  _ <- expect (start <? size t) ;;
  simplify_up_loop_fx t start (size t - start) None.

Fixpoint simplify_loop_fx (fuel : nat) (t : tree) (start : nat) : res tree :=
  match fuel with
  | 0 => Fuel
  | S fuel' =>
      '(t', next) <- simplify_up_fx t start ;;
      match next with
      | None => Ok t'
      | Some s' => _ <- expect (start <? s') ;; simplify_loop_fx fuel' t' s'
      end
  end.

(** [simplify(tree, start)] *)
Definition simplify_tree_fx (t : tree) (start : nat) : res tree :=
  _ <- expect ((false_id <? start) && (start <? size t)) ;;
  simplify_loop_fx (S (size t)) t start.
