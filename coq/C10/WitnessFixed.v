(** * C10: witnesses and satisfiability examples for the current code (model
    CsgFixed.v / RunFixed.v). All by [vm_compute]. *)
From Coq Require Import List Arith Bool NArith ZArith Lia.
From Celer Require Import C10.Csg C10.Logic C10.DeMorgan C10.Run C10.CsgProofs C10.LogicProofs
  C10.FlagProofs C10.Witness C10.Witness3 C10.CsgFixed C10.RunFixed C10.CsgFixedProofs.
Import ListNotations.

(** the tree reached by a sequence of public operations of the current code *)
Fixpoint tree_after_fx (t : tree) (ops : list opc) : res tree :=
  match ops with
  | [] => Ok t
  | o :: r => match run_op_fx 64 t o with Ok (t', _) => tree_after_fx t' r | _ => Assert end
  end.

(** ** R2 on the current code (the flagger finding does not depend on the repair) *)
Definition r2_tree_fx : tree :=
  match tree_after_fx empty_tree r2_ops with Ok t => t | _ => empty_tree end.

Lemma flag_simple_alias_refuted_fx_w :
  exists t n s x,
    tree_after_fx empty_tree r2_ops = Ok t /\ inv t /\
    flag_internal (S (size t)) t n = Ok false /\
    In x (surfs (S (size t)) t n) /\
    eval t s n = true /\ eval t (flip x s) n = true.
Proof.
  exists r2_tree_fx, 7, (fun _ => false), 0.
  split; [vm_compute; reflexivity|].
  split; [apply inv_b_sound; vm_compute; reflexivity|].
  split; [vm_compute; reflexivity|].
  split; [vm_compute; auto|].
  split; vm_compute; reflexivity.
Qed.

(** ** the former refutation witnesses R1 / R3 keep the invariants now *)
Example ex_fx_r1 : exists t,
  tree_after_fx empty_tree (r1_ops ++ [OExchange 4 (NJoined OpAnd [2; 3])]) = Ok t /\ inv t.
Proof. eexists. split; [vm_compute; reflexivity|apply inv_b_sound; vm_compute; reflexivity]. Qed.

Example ex_fx_r3 : exists t, tree_after_fx empty_tree (r3_ops ++ [OReplace 7 false]) = Ok t /\ inv t
  /\ nth_error (nodes t) 9 = Some (NJoined OpAnd [4; 6]) /\ nth_error (nodes t) 11 = Some (NAliased 9).
Proof.
  eexists. split; [vm_compute; reflexivity|]. split; [apply inv_b_sound; vm_compute; reflexivity|].
  split; reflexivity.
Qed.

(** in the R3 situation the new branch of exchange is really taken: the
    repaired function succeeds where the old checked model function stops *)
Example ex_fx_new_branch :
  replace_and_simplify true (rs_fuel r3_tree) r3_tree 7 false = Assert /\
  exists r, replace_and_simplify_fx (rs_fuel r3_tree) r3_tree 7 false = Ok r.
Proof. split; [vm_compute; reflexivity|vm_compute; eauto]. Qed.

(** ** hypotheses of the soundness theorems are satisfiable *)
Example ex_exchange_fx : exists r, exchange_fx ex_tree 5 (NJoined OpAnd [2; 4; 0]) = Ok r.
Proof. vm_compute. eauto. Qed.

Example ex_replace_fx : exists r, replace_and_simplify_fx (rs_fuel ex_tree) ex_tree 2 true = Ok r.
Proof. vm_compute. eauto. Qed.

Example ex_simplify_fx : exists r, simplify_tree_fx ex_tree 2 = Ok r.
Proof. vm_compute. eauto. Qed.
