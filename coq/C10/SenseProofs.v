(** * C10: SenseEvaluator (recursive, short-circuit) returns the node's value *)
From Coq Require Import List Arith Bool Lia.
From Celer Require Import C10.Csg C10.CsgProofs C10.Logic C10.Sense.
Import ListNotations.

(** no join without operands (the short-circuit loop would return the
    value-initialised [SignedSense{}] = "on"); kept by [insert], which only
    stores joins of at least two operands *)
Definition joins_nonempty (t : tree) : Prop :=
  forall i o, nth_error (nodes t) i <> Some (NJoined o []).

Definition maybe_of (o : op) : ssense := match o with OpAnd => SIn | OpOr => SOut end.

Lemma maybe_unit : forall o, maybe_of o = ssense_of_bool (unit_of o).
Proof. intros []; reflexivity. Qed.

Lemma ssense_eqb_of_bool : forall a b, ssense_eqb (ssense_of_bool a) (ssense_of_bool b) = Bool.eqb a b.
Proof. intros [] []; reflexivity. Qed.

Section SenseSound.
Variable t : tree.
Variable s : nat -> bool.
Hypothesis Hwf : wf t.
Hypothesis Hne : joins_nonempty t.
Let v := eval t s.
Let sf := fun k : nat => @Ok ssense (ssense_of_bool (s k)).

Lemma sense_join_maybe : forall (f : nat -> res ssense) o ds,
  (forall d x, In d ds -> f d = Ok x -> x = ssense_of_bool (v d)) ->
  forall r, sense_join f (maybe_of o) ds (maybe_of o) = Ok r ->
  r = ssense_of_bool (joinv o v ds).
Proof.
  intros f o. induction ds as [|d ds IH]; intros Hf r H; simpl in H.
  - injection H as <-. rewrite maybe_unit. destruct o; reflexivity.
  - inv_ok. pose proof (Hf d a (or_introl eq_refl) Hm) as Ea. subst a.
    rewrite maybe_unit, ssense_eqb_of_bool in H.
    destruct (Bool.eqb (v d) (unit_of o)) eqn:E; simpl in H.
    + apply eqb_prop in E. rewrite E, <- maybe_unit in H.
      apply IH in H; [|intros; apply Hf; auto; right; auto].
      subst r. destruct o; simpl in *; rewrite E; reflexivity.
    + injection H as <-. apply eqb_false_iff in E.
      destruct o; simpl in *; destruct (v d); try congruence; reflexivity.
Qed.

Lemma sense_join_sound : forall (f : nat -> res ssense) o ds,
  ds <> [] ->
  (forall d x, In d ds -> f d = Ok x -> x = ssense_of_bool (v d)) ->
  forall r, sense_join f (maybe_of o) ds SOn = Ok r ->
  r = ssense_of_bool (joinv o v ds).
Proof.
  intros f o ds Hds Hf r H. destruct ds as [|d ds]; [congruence|]. simpl in H.
  inv_ok. pose proof (Hf d a (or_introl eq_refl) Hm) as Ea. subst a.
  rewrite maybe_unit, ssense_eqb_of_bool in H.
  destruct (Bool.eqb (v d) (unit_of o)) eqn:E; simpl in H.
  - apply eqb_prop in E. rewrite E, <- maybe_unit in H.
    apply sense_join_maybe in H; [|intros; apply Hf; auto; right; auto].
    subst r. destruct o; simpl in *; rewrite E; reflexivity.
  - injection H as <-. apply eqb_false_iff in E.
    destruct o; simpl in *; destruct (v d); try congruence; reflexivity.
Qed.

Theorem sense_eval_sound : forall fuel n r,
  sense_eval fuel t sf n = Ok r -> r = ssense_of_bool (v n).
Proof.
  induction fuel as [|fuel IH]; intros n r H; simpl in H; [discriminate|].
  inv_ok. apply get_node_ok in Hm.
  pose proof (eval_unfold t s n a Hwf Hm) as E. fold v in E.
  destruct a as [| |b|b|x|o ds].
  - injection H as <-. rewrite E. reflexivity.
  - injection H as <-. rewrite E. reflexivity.
  - rewrite E. simpl. apply IH; auto.
  - inv_ok. subst r. rewrite (IH _ _ Hm0). rewrite E. simpl. destruct (v b); reflexivity.
  - unfold sf in H. injection H as <-. rewrite E. reflexivity.
  - rewrite E, eval_node_join.
    apply (sense_join_sound (sense_eval fuel t sf) o ds).
    + intros ->. eapply Hne; eauto.
    + intros d x _ Hd. apply IH; auto.
    + exact H.
Qed.

(** the entry point used by the check: a point off every surface *)
Theorem sense_eval_bool_sound : forall n b, sense_eval_bool t s n = Ok b -> b = eval t s n.
Proof.
  intros n b H. unfold sense_eval_bool in H. inv_ok. subst b.
  rewrite (sense_eval_sound _ _ _ Hm0). fold v. destruct (v n); reflexivity.
Qed.

End SenseSound.

(** [joins_nonempty] holds for the empty tree and is kept by [insert] *)
Lemma joins_nonempty_empty : joins_nonempty empty_tree.
Proof. intros [|[|[|i]]] o; simpl; discriminate. Qed.

Lemma insert_joins_nonempty : forall t n t' i b,
  joins_nonempty t -> insert t n = Ok (t', i, b) -> n <> NJoined OpAnd [] -> n <> NJoined OpOr [] ->
  joins_nonempty t'.
Proof.
  intros t n t' i b Hne H Hn1 Hn2. unfold insert in H. inv_ok. rename a0 into r0.
  assert (Hn' : forall o, (match r0 with Some x => x | None => n end) <> NJoined o []).
  { intros o. destruct r0 as [x|].
    - destruct n as [| |a1|a1|x1|o1 l1]; simpl in Hm0; inv_ok; try discriminate.
      + destruct a0; try discriminate Hm0; injection Hm0 as <-; discriminate.
      + destruct a0; try discriminate Hm0; injection Hm0 as <-; discriminate.
      + destruct a0 as [l2|].
        * destruct (sort_uniq l2) as [|y [|z l3]]; injection Hm0 as <-; discriminate.
        * injection Hm0 as <-. discriminate.
    - destruct o; auto. }
  assert (Happ : forall n', (forall o, n' <> NJoined o []) ->
            joins_nonempty (mkTree (nodes t ++ [n']) (ids t ++ [(n', size t)]) (volumes t))).
  { intros n' Hq j o. simpl. destruct (Nat.lt_ge_cases j (length (nodes t))) as [L|L].
    - rewrite nth_error_app1 by auto. apply Hne.
    - rewrite nth_error_app2 by auto. destruct (j - length (nodes t)) as [|[|k]]; simpl; try discriminate.
      intros Q. injection Q as Q. eapply Hq; eauto. }
  destruct r0 as [x|].
  - destruct x as [| |a9|a9|x9|o9 l9];
      try (destruct (ids_find _ (ids t)); injection H as <- _ _; auto).
    injection H as <- _ _. auto.
  - destruct (ids_find _ (ids t)); injection H as <- _ _; auto.
Qed.
