(** * C10: executable model of the CSG tree (orange/orangeinp)

    Function-for-function model of
      - CsgTypes.hh (Node variant, equality),
      - CsgTree.{hh,cc} (constructor, insert, exchange, simplify, insert_volume),
      - detail/NodeSimplifier.cc,
      - detail/NodeReplacer.hh,
      - CsgTreeUtils.cc (replace_and_simplify, simplify_up, simplify).

    No proofs in this file (it must still run when a proof breaks).

    Conventions.
      - Node ids / surface ids are [nat]; the invalid id [NodeId{}] is never
        represented (where the code uses it as a sentinel the model uses
        [option]).
      - [std::unordered_map<Node,NodeId> ids_] is an association list with
        first-match lookup; [insert] never overwrites.
      - Every CELER_EXPECT / CELER_ASSERT / CELER_ENSURE site, and every
        out-of-range container access, returns [Assert] (in the release build
        the real code has undefined behaviour there). CELER_VALIDATE and C++
        exceptions return [Throw]. Loops that the C++ writes as [while] take
        fuel; exhaustion returns [Fuel]. *)
From Coq Require Import List Arith Bool Lia.
Import ListNotations.

(** ** Result monad *)
Inductive res (A : Type) : Type :=
| Ok (a : A)
| Throw
| Assert
| Fuel.
Arguments Ok {A} a.
Arguments Throw {A}.
Arguments Assert {A}.
Arguments Fuel {A}.

Definition bind {A B} (m : res A) (f : A -> res B) : res B :=
  match m with
  | Ok a => f a
  | Throw => Throw
  | Assert => Assert
  | Fuel => Fuel
  end.
Notation "x <- m ;; k" := (bind m (fun x => k))
  (at level 61, m at next level, right associativity).
Notation "' p <- m ;; k" := (bind m (fun p => k))
  (at level 61, p pattern, m at next level, right associativity).

Definition expect (b : bool) : res unit := if b then Ok tt else Assert.

(** ** Nodes (CsgTypes.hh) *)
Inductive op := OpAnd | OpOr.

Inductive node :=
| NTrue
| NFalse
| NAliased (a : nat)
| NNegated (a : nat)
| NSurface (s : nat)
| NJoined (o : op) (l : list nat).

Definition op_eqb (a b : op) : bool :=
  match a, b with OpAnd, OpAnd | OpOr, OpOr => true | _, _ => false end.

Fixpoint list_eqb (a b : list nat) : bool :=
  match a, b with
  | [], [] => true
  | x :: a', y :: b' => (x =? y) && list_eqb a' b'
  | _, _ => false
  end.

(** [operator==] on the variant *)
Definition node_eqb (a b : node) : bool :=
  match a, b with
  | NTrue, NTrue => true
  | NFalse, NFalse => true
  | NAliased x, NAliased y => x =? y
  | NNegated x, NNegated y => x =? y
  | NSurface x, NSurface y => x =? y
  | NJoined o l, NJoined o' l' => op_eqb o o' && list_eqb l l'
  | _, _ => false
  end.

(** ** The tree *)
Record tree := mkTree {
  nodes : list node;
  ids : list (node * nat);
  volumes : list nat }.

Definition size (t : tree) : nat := length (nodes t).

Definition true_id : nat := 0.
Definition false_id : nat := 1.

(** [CsgTree::CsgTree()] *)
Definition empty_tree : tree :=
  mkTree [NTrue; NNegated true_id]
         [(NTrue, true_id); (NFalse, false_id);
          (NNegated true_id, false_id); (NNegated false_id, true_id)]
         [].

(** [operator[]] / [at]: CELER_EXPECT(node_id < size) *)
Definition get_node (t : tree) (i : nat) : res node :=
  match nth_error (nodes t) i with Some n => Ok n | None => Assert end.

Fixpoint ids_find (n : node) (m : list (node * nat)) : option nat :=
  match m with
  | [] => None
  | (k, v) :: r => if node_eqb n k then Some v else ids_find n r
  end.

Fixpoint ids_set (n : node) (v : nat) (m : list (node * nat)) : list (node * nat) :=
  match m with
  | [] => []
  | (k, w) :: r => if node_eqb n k then (k, v) :: r else (k, w) :: ids_set n v r
  end.

Fixpoint set_nth {A} (l : list A) (i : nat) (x : A) : list A :=
  match l, i with
  | [], _ => []
  | _ :: r, 0 => x :: r
  | y :: r, S i' => y :: set_nth r i' x
  end.

(** ** Semantics: truth value of every node under a sense assignment.

    One left-to-right pass over the node list; a node reads the values of
    lower ids only (a reference to an id that is not lower reads [false]: on a
    topologically sorted tree this never happens). *)
Definition eval_node (s : nat -> bool) (v : nat -> bool) (n : node) : bool :=
  match n with
  | NTrue => true
  | NFalse => false
  | NAliased a => v a
  | NNegated a => negb (v a)
  | NSurface x => s x
  | NJoined OpAnd l => forallb v l
  | NJoined OpOr l => existsb v l
  end.

Fixpoint eval_list (s : nat -> bool) (ns : list node) (acc : list bool) : list bool :=
  match ns with
  | [] => acc
  | n :: r => eval_list s r (acc ++ [eval_node s (fun i => nth i acc false) n])
  end.

Definition eval (t : tree) (s : nat -> bool) (i : nat) : bool :=
  nth i (eval_list s (nodes t) []) false.

(** ** Validity of user nodes ([IsUserNodeValid]) *)
Definition user_node_valid (max_id : nat) (n : node) : bool :=
  match n with
  | NTrue | NFalse | NAliased _ => true
  | NNegated a => a <? max_id
  | NSurface _ => true
  | NJoined _ l => forallb (fun x => x <? max_id) l
  end.

(** ** NodeSimplifier *)

(** [visit_node_(AliasSimplifier{}, d)] : [Some target] if node [d] is an alias *)
Definition alias_target (t : tree) (d : nat) : res (option nat) :=
  n <- get_node t d ;;
  match n with NAliased a => Ok (Some a) | _ => Ok None end.

(** sorted insertion without duplicates = [std::sort] + [std::unique] *)
Fixpoint insert_uniq (x : nat) (l : list nat) : list nat :=
  match l with
  | [] => [x]
  | y :: r => if x <? y then x :: l else if x =? y then l else y :: insert_uniq x r
  end.
Definition sort_uniq (l : list nat) : list nat := fold_right insert_uniq [] l.

(** The daughter loop of [NodeSimplifier::operator()(Joined&)]:
    [None] = short circuit to the absorbing constant; ignored (identity)
    daughters are dropped (the C++ replaces them by the invalid id, sorts it
    to the back and pops it). *)
Fixpoint join_daughters (t : tree) (cst ign : nat) (l acc : list nat)
  : res (option (list nat)) :=
  match l with
  | [] => Ok (Some (rev acc))
  | d :: r =>
      a <- alias_target t d ;;
      let d' := match a with Some x => x | None => d end in
      if d' =? cst then Ok None
      else if d' =? ign then join_daughters t cst ign r acc
      else join_daughters t cst ign r (d' :: acc)
  end.

(** [std::visit(NodeSimplifier{tree}, n)]; [None] = [no_simplification()] *)
Definition simplify_node (t : tree) (n : node) : res (option node) :=
  match n with
  | NAliased a =>
      r <- alias_target t a ;;
      Ok (match r with Some b => Some (NAliased b) | None => None end)
  | NNegated a =>
      c <- get_node t a ;;
      Ok (match c with
          | NTrue => Some NFalse
          | NFalse => Some NTrue
          | NAliased b => Some (NNegated b)
          | NNegated b => Some (NAliased b)
          | _ => None
          end)
  | NJoined o l =>
      let cst := match o with OpAnd => false_id | OpOr => true_id end in
      let ign := match o with OpAnd => true_id | OpOr => false_id end in
      r <- join_daughters t cst ign l [] ;;
      match r with
      | None => Ok (Some (NAliased cst))
      | Some l1 =>
          match sort_uniq l1 with
          | [] => Ok (Some (NAliased ign))
          | [x] => Ok (Some (NAliased x))
          | l2 => Ok (Some (NJoined o l2))
          end
      end
  | _ => Ok None
  end.

(** ** CsgTree::insert : returns (tree, id, inserted) *)
Definition insert (t : tree) (n : node) : res (tree * nat * bool) :=
  _ <- expect (user_node_valid (size t) n) ;;
  r <- simplify_node t n ;;
  let n' := match r with Some x => x | None => n end in
  match r, n' with
  | Some _, NAliased a => Ok (t, a, false)
  | _, _ =>
      match ids_find n' (ids t) with
      | Some i => Ok (t, i, false)
      | None =>
          let i := size t in
          Ok (mkTree (nodes t ++ [n']) (ids t ++ [(n', i)]) (volumes t), i, true)
      end
  end.

(** [insert_volume] *)
Definition insert_volume (t : tree) (n : nat) : res tree :=
  _ <- expect (n <? size t) ;;
  Ok (mkTree (nodes t) (ids t) (volumes t ++ [n])).

(** Children of a node are all below [i] (used by the optional topological
    check in [exchange], and by the well-formedness predicate). *)
Definition children (n : node) : list nat :=
  match n with
  | NAliased a | NNegated a => [a]
  | NJoined _ l => l
  | _ => []
  end.
Definition children_ltb (i : nat) (n : node) : bool :=
  forallb (fun c => c <? i) (children n).

(** ** CsgTree::exchange : returns (tree, previous node).

    [chk = true] adds ONE check that the C++ does not have: in the
    swap-to-lower branch the definition moved down must only refer to ids
    below its new position (otherwise the documented topological order is
    lost); failing it returns [Assert]. With [chk = false] the function is
    the faithful model. *)
Definition set_node (t : tree) (i : nat) (n : node) : tree :=
  mkTree (set_nth (nodes t) i n) (ids t) (volumes t).

Definition exchange (chk : bool) (t : tree) (node_id : nat) (n : node)
  : res (tree * node) :=
  _ <- expect (false_id <? node_id) ;;
  _ <- expect (user_node_valid node_id n) ;;
  r <- simplify_node t n ;;
  let n := match r with Some x => x | None => n end in
  old <- get_node t node_id ;;
  match n with
  | NAliased a => Ok (set_node t node_id (NAliased a), old)
  | _ =>
      match ids_find n (ids t) with
      | None =>
          Ok (mkTree (set_nth (nodes t) node_id n) (ids t ++ [(n, node_id)]) (volumes t), old)
      | Some j =>
          if j =? node_id then Ok (t, old)
          else if node_id <? j then
            (* a higher node is equivalent: swap definitions, alias higher -> lower *)
            hi <- get_node t j ;;
            _ <- expect (negb chk || children_ltb node_id hi) ;;
            let ns := set_nth (set_nth (nodes t) node_id hi) j (NAliased node_id) in
            Ok (mkTree ns (ids_set n node_id (ids t)) (volumes t), old)
          else
            Ok (set_node t node_id (NAliased j), old)
      end
  end.

(** [CsgTree::simplify(NodeId)] : [Some old] iff the node changed *)
Definition simplify_one (chk : bool) (t : tree) (i : nat) : res (tree * option node) :=
  cur <- get_node t i ;;
  '(t', old) <- exchange chk t i cur ;;
  now <- get_node t' i ;;
  Ok (t', if node_eqb old now then None else Some old).

(** ** NodeReplacer *)
Inductive repl := Unvisited | Unknown | KnownFalse | KnownTrue.

Definition repl_rank (r : repl) : nat :=
  match r with Unvisited => 0 | Unknown => 1 | KnownFalse => 2 | KnownTrue => 3 end.
Definition repl_eqb (a b : repl) : bool := repl_rank a =? repl_rank b.

(** [NodeReplacer::update] *)
Definition nr_update (st : list repl) (n : nat) (r : repl) : res (list repl * bool) :=
  match nth_error st n with
  | None => Assert
  | Some dest =>
      if (repl_eqb dest KnownTrue && repl_eqb r KnownFalse)
         || (repl_eqb dest KnownFalse && repl_eqb r KnownTrue)
      then Throw
      else if repl_rank dest <? repl_rank r then Ok (set_nth st n r, true)
      else Ok (st, false)
  end.

Definition repl_negate (r : repl) : repl :=
  match r with KnownFalse => KnownTrue | KnownTrue => KnownFalse | x => x end.

Fixpoint nr_join (st : list repl) (r : repl) (l : list nat) (upd : bool)
  : res (list repl * bool) :=
  match l with
  | [] => Ok (st, upd)
  | d :: l' =>
      '(st', u) <- nr_update st d r ;;
      nr_join st' r l' (upd || u)
  end.

(** [std::visit(NodeReplacer{&state, n}, tree[n])] *)
Definition node_replacer (st : list repl) (n : nat) (nd : node) : res (list repl * bool) :=
  match nth_error st n with
  | None => Assert
  | Some r =>
      match nd with
      | NTrue => _ <- expect (repl_eqb r KnownTrue) ;; Ok (st, false)
      | NFalse => _ <- expect (repl_eqb r KnownFalse) ;; Ok (st, false)
      | NAliased a => nr_update st a r
      | NNegated a => nr_update st a (repl_negate r)
      | NSurface _ => Ok (st, false)
      | NJoined o l =>
          let r' := if (repl_eqb r KnownTrue && op_eqb o OpOr)
                       || (repl_eqb r KnownFalse && op_eqb o OpAnd)
                    then Unknown else r in
          nr_join st r' l false
      end
  end.

(** ** replace_and_simplify *)

(** backward sweep: nodes [n, n-1, ..., 2]; [k] = number of nodes left *)
Fixpoint sweep_back (t : tree) (st : list repl) (n k : nat) (upd : bool)
  : res (list repl * bool) :=
  match k with
  | 0 => Ok (st, upd)
  | S k' =>
      nd <- get_node t n ;;
      '(st', u) <- node_replacer st n nd ;;
      sweep_back t st' (n - 1) k' (upd || u)
  end.

Definition is_known (r : repl) : bool := repl_eqb r KnownTrue || repl_eqb r KnownFalse.
Definition is_surface (n : node) : bool := match n with NSurface _ => true | _ => false end.
Definition const_node (r : repl) : node := if repl_eqb r KnownTrue then NTrue else NFalse.

(** forward sweep: nodes [n, n+1, ...]; [k] = number left.
    state threaded: (tree, max_node, simplifying) *)
Fixpoint sweep_fwd (chk : bool) (st : list repl) (t : tree) (n k : nat)
         (max_node : nat) (simplifying : bool) : res (tree * nat * bool) :=
  match k with
  | 0 => Ok (t, max_node, simplifying)
  | S k' =>
      match nth_error st n with
      | None => Assert
      | Some rv =>
          nd <- get_node t n ;;
          if is_known rv && is_surface nd then
            '(t', _) <- exchange chk t n (const_node rv) ;;
            sweep_fwd chk st t' (S n) k' (Nat.max max_node n) simplifying
          else
            '(t', simp) <- simplify_one chk t n ;;
            match simp with
            | Some _ => sweep_fwd chk st t' (S n) k' (Nat.max max_node n) true
            | None => sweep_fwd chk st t' (S n) k' max_node simplifying
            end
      end
  end.

(** the [do ... while (simplifying)] loop *)
Fixpoint rs_loop (chk : bool) (fuel : nat) (t : tree) (st : list repl) (max_node : nat)
  : res (tree * list repl) :=
  match fuel with
  | 0 => Fuel
  | S fuel' =>
      '(st', upd) <- sweep_back t st max_node (max_node - false_id) false ;;
      '(t', max_node', simplifying) <-
        sweep_fwd chk st' t (S false_id) (size t - S false_id) max_node upd ;;
      if simplifying then rs_loop chk fuel' t' st' max_node' else Ok (t', st')
  end.

(** final "replace nonliterals" loop *)
Fixpoint rs_final (chk : bool) (st : list repl) (t : tree) (n k : nat) (unk : list nat)
  : res (tree * list nat) :=
  match k with
  | 0 => Ok (t, rev unk)
  | S k' =>
      match nth_error st n with
      | None => Assert
      | Some rs =>
          nd <- get_node t n ;;
          if is_surface nd then
            rs_final chk st t (S n) k' (if repl_eqb rs Unknown then n :: unk else unk)
          else if is_known rs then
            '(t', _) <- exchange chk t n (const_node rs) ;;
            rs_final chk st t' (S n) k' unk
          else
            '(t', _) <- simplify_one chk t n ;;
            rs_final chk st t' (S n) k' unk
      end
  end.

(** [replace_and_simplify(tree, repl_key, repl_value)]; [value] : True{} / False{} *)
Definition replace_and_simplify (chk : bool) (fuel : nat) (t : tree) (key : nat) (value : bool)
  : res (tree * list nat) :=
  _ <- expect (key <? size t) ;;
  let st0 := repeat Unvisited (size t) in
  let st1 := set_nth st0 true_id KnownTrue in
  let st2 := set_nth st1 false_id KnownFalse in
  let st3 := set_nth st2 key (if value then KnownTrue else KnownFalse) in
  '(t', st) <- rs_loop chk fuel t st3 key ;;
  rs_final chk st t' (S false_id) (size t' - S false_id) [].

(** generous fuel for running the model: every productive iteration raises a
    state entry (<= 3 per node) or changes a node *)
Definition rs_fuel (t : tree) : nat := 8 * size t + 16.

(** ** simplify_up / simplify *)
Fixpoint simplify_up_loop (chk : bool) (t : tree) (n k : nat) (result : option nat)
  : res (tree * option nat) :=
  match k with
  | 0 => Ok (t, result)
  | S k' =>
      '(t', simp) <- simplify_one chk t n ;;
      let result' := match simp, result with Some _, None => Some n | _, _ => result end in
      simplify_up_loop chk t' (S n) k' result'
  end.

Definition simplify_up (chk : bool) (t : tree) (start : nat) : res (tree * option nat) :=
  _ <- expect (start <? size t) ;;
  simplify_up_loop chk t start (size t - start) None.

Fixpoint simplify_loop (chk : bool) (fuel : nat) (t : tree) (start : nat) : res tree :=
  match fuel with
  | 0 => Fuel
  | S fuel' =>
      '(t', next) <- simplify_up chk t start ;;
      match next with
      | None => Ok t'
      | Some s' => _ <- expect (start <? s') ;; simplify_loop chk fuel' t' s'
      end
  end.

(** [simplify(tree, start)] *)
Definition simplify_tree (chk : bool) (t : tree) (start : nat) : res tree :=
  _ <- expect ((false_id <? start) && (start <? size t)) ;;
  simplify_loop chk (S (size t)) t start.
