(** * C10: concrete witnesses -- satisfiability examples for the theorems'
    hypotheses, and the two refutations (replayed on the real code by
    props/C10/run.py, see props/C10/NOTES.md). All by [vm_compute]. *)
From Coq Require Import List Arith Bool NArith ZArith Lia.
From Celer Require Import C10.Csg C10.CsgProofs C10.Logic C10.LogicProofs C10.FlagProofs
  C10.DeMorgan C10.Run.
Import ListNotations.

(** the tree reached by a sequence of public operations *)
Fixpoint tree_after (t : tree) (ops : list opc) : res tree :=
  match ops with
  | [] => Ok t
  | o :: r => match run_op 64 false t o with Ok (t', _) => tree_after t' r | _ => Assert end
  end.

(** ** R1. [exchange] can destroy the topological order although its
    documented preconditions hold (node ids below [node_id], logically
    equivalent under a consistent assignment): the swap-to-lower branch moves
    the *current* definition of the higher node down, and that definition may
    refer to ids above the new position. *)
Definition r1_ops : list opc :=
  [OInsert (NSurface 0); OInsert (NSurface 1); OInsert (NSurface 2); OInsert (NSurface 3);
   OInsert (NSurface 4);
   OInsert (NJoined OpAnd [2; 3]);                 (* node 7 *)
   OExchange 7 (NJoined OpAnd [5; 6])].            (* user: node 7 == all{5,6} *)
Definition r1_tree : tree :=
  match tree_after empty_tree r1_ops with Ok t => t | _ => empty_tree end.

Lemma exchange_topo_refuted_w :
  exists t i n t' old,
    tree_after empty_tree r1_ops = Ok t /\
    inv t /\ (forall c, In c (children n) -> c < i) /\
    exchange false t i n = Ok (t', old) /\
    (exists s, ids_sound t s /\ eval_node s (eval t s) n = eval t s i) /\
    ~ wf t'.
Proof.
  exists r1_tree, 4, (NJoined OpAnd [2; 3]).
  eexists. eexists. split; [vm_compute; reflexivity|].
  split; [apply inv_b_sound; vm_compute; reflexivity|].
  split; [simpl; intros c [<-|[<-|[]]]; lia|].
  split; [vm_compute; reflexivity|].
  split.
  - exists (fun _ => false). split; [apply ids_sound_b_sound; vm_compute; reflexivity|].
    vm_compute; reflexivity.
  - intros Hwf. specialize (Hwf 4 (NJoined OpAnd [5; 6]) eq_refl 5). simpl in Hwf.
    assert (5 < 4) by (apply Hwf; auto). lia.
Qed.

(** ** R2. InternalSurfaceFlagger: a negation whose operand is a (not yet
    simplified) alias of an intersection is flagged "no internal surfaces",
    although it is a union of half-spaces. Reached through the public API by
    stopping a simplification half way. *)
Definition r2_ops : list opc :=
  [OInsert (NSurface 0); OInsert (NSurface 1);
   OInsert (NJoined OpAnd [2; 3]);                 (* 4 = all{2,3} *)
   OInsert (NSurface 2);                           (* 5 *)
   OInsert (NJoined OpAnd [2; 3; 5]);              (* 6 *)
   OInsert (NNegated 6);                           (* 7 = not{6} *)
   OExchange 5 NTrue;                              (* surface 2 := true *)
   OSimplifyOne 6].                                (* 6 -> alias of 4; 7 not revisited *)
Definition r2_tree : tree :=
  match tree_after empty_tree r2_ops with Ok t => t | _ => empty_tree end.

Lemma flag_simple_alias_refuted_w :
  exists t n s x,
    tree_after empty_tree r2_ops = Ok t /\ inv t /\
    flag_internal (S (size t)) t n = Ok false /\
    In x (surfs (S (size t)) t n) /\
    eval t s n = true /\ eval t (flip x s) n = true.
Proof.
  exists r2_tree, 7, (fun _ => false), 0.
  split; [vm_compute; reflexivity|].
  split; [apply inv_b_sound; vm_compute; reflexivity|].
  split; [vm_compute; reflexivity|].
  split; [vm_compute; auto|].
  split; vm_compute; reflexivity.
Qed.

(** ** Satisfiability examples *)
Definition ex_ops : list opc :=
  [OInsert (NSurface 0); OInsert (NSurface 1); OInsert (NNegated 3);
   OInsert (NJoined OpAnd [2; 4]); OInsert (NNegated 5); OVolume 6].
Definition ex_tree : tree :=
  match tree_after empty_tree ex_ops with Ok t => t | _ => empty_tree end.

Example ex_inv : inv ex_tree.
Proof. apply inv_b_sound. vm_compute. reflexivity. Qed.

Example ex_ids_sound : ids_sound ex_tree (fun x => x =? 0).
Proof. apply ids_sound_b_sound. vm_compute. reflexivity. Qed.

Example ex_insert : exists t' i b, insert ex_tree (NJoined OpOr [6; 2; 2; 1]) = Ok (t', i, b).
Proof. vm_compute. eauto. Qed.

Example ex_replace : exists r, replace_and_simplify true (rs_fuel ex_tree) ex_tree 2 true = Ok r.
Proof. vm_compute. eauto. Qed.

Example ex_postfix : exists faces lgc,
  build_postfix (S (size ex_tree)) ex_tree None 6 = Ok (faces, lgc) /\ max_height lgc 0 <= 32.
Proof. eexists. eexists. split; [vm_compute; reflexivity|vm_compute; lia]. Qed.

Example ex_flag : flag_internal (S (size ex_tree)) ex_tree 5 = Ok false /\ no_neg_alias ex_tree.
Proof.
  split; [vm_compute; reflexivity|].
  intros n a b Hn Ha.
  assert (E : nodes ex_tree = [NTrue; NNegated 0; NSurface 0; NSurface 1; NNegated 3;
                               NJoined OpAnd [2; 4]; NNegated 5]) by (vm_compute; reflexivity).
  rewrite E in *.
  do 7 (destruct n as [|n]; simpl in Hn;
        [try discriminate; try (injection Hn as <-; simpl in Ha; discriminate)|]).
  destruct n; discriminate.
Qed.

Example ex_demorgan : exists t' tr, demorgan_full ex_tree = Ok (t', tr).
Proof. vm_compute. eauto. Qed.
