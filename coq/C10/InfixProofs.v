(** * C10: the short-circuit infix evaluator (InfixEvaluator.hh) is correct

    Grammar of the explicit infix form accepted by the evaluator (the one its
    documentation describes): an expression is a face, a negated face, the
    constant [true], or a parenthesised group of expressions separated by ONE
    operator.  [iparse s l v]: token list [l] is such an expression and its
    value under sense assignment [s] is [v].

    Main results:
      - [infix_eval_grammar]  : every expression of the grammar is evaluated
        to its value by [infix_evaluate] (no assertion site, enough fuel);
      - [infix_eval_toplevel] : also a top-level operator sequence without the
        outer parentheses (the evaluator's [break] at depth 0);
      - [build_infix_parse]   : the builder's output is in the grammar and its
        value is the node's value;
      - [infix_eval_correct]  : hence evaluator(builder(node)) = eval node. *)
From Coq Require Import List Arith Bool ZArith Lia.
From Celer Require Import C10.Csg C10.CsgProofs C10.Logic C10.LogicProofs.
Import ListNotations.

Ltac lapp := subst; repeat (progress (rewrite <- ?app_assoc; cbn [app])); reflexivity.

(** ** Balanced token segments and [short_circuit] *)
Inductive bal : list tok -> Prop :=
| bal_nil : bal []
| bal_tok : forall x l, x <> TOpen -> x <> TClose -> bal l -> bal (x :: l)
| bal_par : forall l1 l2, bal l1 -> bal l2 -> bal (TOpen :: l1 ++ TClose :: l2).

Lemma bal_app : forall a b, bal a -> bal b -> bal (a ++ b).
Proof.
  intros a b Ha Hb. induction Ha as [|x l H1 H2 Ha IH|l1 l2 H1 IH1 H2 IH2]; simpl; auto.
  - apply bal_tok; auto.
  - rewrite <- app_assoc. simpl. apply bal_par; auto.
Qed.

Lemma nth_error_mid : forall {A} (pre : list A) x post i,
  length pre = i -> nth_error (pre ++ x :: post) i = Some x.
Proof.
  intros A pre x post i <-. rewrite nth_error_app2 by lia.
  rewrite Nat.sub_diag. reflexivity.
Qed.

(** scanning a balanced segment leaves the depth unchanged and never closes
    the current group *)
Lemma short_circuit_bal : forall seg, bal seg ->
  forall L pre post i d fuel,
    L = pre ++ seg ++ post -> length pre = S i ->
    short_circuit (length seg + fuel) L i (S d) = short_circuit fuel L (i + length seg) (S d).
Proof.
  induction 1 as [|x l Hx1 Hx2 Hb IH|l1 l2 H1 IH1 H2 IH2]; intros L pre post i d fuel HL Hpre.
  - simpl. rewrite Nat.add_0_r. reflexivity.
  - cbn [length Nat.add short_circuit].
    assert (E : nth_error L (S i) = Some x) by (subst L; cbn [app]; apply nth_error_mid; auto).
    rewrite E.
    assert (G : short_circuit (length l + fuel) L (S i) (S d)
                = short_circuit fuel L (S i + length l) (S d)).
    { apply (IH L (pre ++ [x]) post); [lapp|].
      rewrite app_length; simpl; lia. }
    replace (i + S (length l)) with (S i + length l) by lia.
    destruct x; try congruence; exact G.
  - assert (E : nth_error L (S i) = Some TOpen) by (subst L; cbn [app]; apply nth_error_mid; auto).
    assert (Elen : length (TOpen :: l1 ++ TClose :: l2) + fuel
                   = S (length l1 + S (length l2 + fuel))).
    { simpl. rewrite app_length. simpl. lia. }
    rewrite Elen. cbn [short_circuit]. rewrite E.
    rewrite (IH1 L (pre ++ [TOpen]) (TClose :: l2 ++ post) (S i) (S d)).
    2:{ lapp. }
    2:{ rewrite app_length; simpl; lia. }
    cbn [short_circuit].
    assert (E2 : nth_error L (S (S i + length l1)) = Some TClose).
    { subst L. replace (pre ++ (TOpen :: l1 ++ TClose :: l2) ++ post)
        with ((pre ++ TOpen :: l1) ++ TClose :: (l2 ++ post)).
      - apply nth_error_mid. rewrite app_length; simpl; lia.
      - lapp. }
    rewrite E2.
    rewrite (IH2 L (pre ++ TOpen :: l1 ++ [TClose]) post (S (S i + length l1)) d).
    2:{ lapp. }
    2:{ rewrite !app_length; simpl; rewrite app_length; simpl; lia. }
    f_equal. simpl. rewrite app_length. simpl. lia.
Qed.

(** from an operator at index [i] inside a group whose remainder is the
    balanced [seg] followed by the closing parenthesis: the index of that
    parenthesis *)
Lemma short_circuit_close : forall seg L pre post i,
  bal seg -> L = pre ++ seg ++ TClose :: post -> length pre = S i ->
  short_circuit (S (length L)) L i 1 = Ok (S (i + length seg)).
Proof.
  intros seg L pre post i Hb HL Hpre.
  assert (Hlen : length L = S i + length seg + S (length post)).
  { subst L. rewrite !app_length. simpl. lia. }
  replace (S (length L)) with (length seg + (S (S (S i + length post)))) by lia.
  rewrite (short_circuit_bal seg Hb L pre (TClose :: post) i 0 _ HL Hpre).
  cbn [short_circuit].
  assert (E : nth_error L (S (i + length seg)) = Some TClose).
  { subst L. rewrite app_assoc. apply nth_error_mid. rewrite app_length. lia. }
  rewrite E. reflexivity.
Qed.

(** ** The grammar *)
Section Grammar.
Variable s : nat -> bool.

Inductive iparse : list tok -> bool -> Prop :=
| ip_face : forall f, iparse [TFace f] (s f)
| ip_not : forall f, iparse [TNot; TFace f] (negb (s f))
| ip_true : iparse [TTrue] true
| ip_group : forall o l v, iseq o l v -> iparse (TOpen :: l ++ [TClose]) v
with iseq : op -> list tok -> bool -> Prop :=
| is_one : forall o l v, iparse l v -> iseq o l v
| is_cons : forall o l1 v1 l2 v2,
    iparse l1 v1 -> iseq o l2 v2 -> iseq o (l1 ++ op_tok o :: l2) (opb o v1 v2).

Scheme iparse_mut := Minimality for iparse Sort Prop
  with iseq_mut := Minimality for iseq Sort Prop.
Combined Scheme iparse_iseq_ind from iparse_mut, iseq_mut.

Lemma op_tok_not_par : forall o, op_tok o <> TOpen /\ op_tok o <> TClose.
Proof. intros []; split; discriminate. Qed.

Lemma iparse_iseq_bal :
  (forall l v, iparse l v -> bal l) /\ (forall o l v, iseq o l v -> bal l).
Proof.
  apply iparse_iseq_ind; intros.
  - apply bal_tok; try discriminate. constructor.
  - apply bal_tok; try discriminate. apply bal_tok; try discriminate. constructor.
  - apply bal_tok; try discriminate. constructor.
  - apply (bal_par l []); auto. constructor.
  - auto.
  - apply bal_app; auto. destruct (op_tok_not_par o). apply bal_tok; auto.
Qed.

Lemma iseq_snoc : forall o l v, iseq o l v -> forall l' v', iparse l' v' ->
  iseq o (l ++ op_tok o :: l') (opb o v v').
Proof.
  induction 1 as [o l v Hp|o l1 v1 l2 v2 Hp Hs IH]; intros l' v' Hp'.
  - apply is_cons; auto. apply is_one; auto.
  - rewrite <- app_assoc. simpl. rewrite opb_assoc. apply is_cons; auto.
Qed.

(** ** The evaluator on the grammar.
    [P]: an expression at index [i] of the whole vector [L], at any depth:
    the loop arrives just behind it with the expression's value, whatever the
    value in [result] was before.
    [Q]: an operator sequence inside a group opened at depth [pd] (so the
    current depth is [pd+1]) followed by its closing parenthesis: the loop
    arrives behind the parenthesis, at depth [pd], with the sequence's value
    -- either by evaluating every operand or by [short_circuit]. *)
Definition Pexpr (l : list tok) (v : bool) : Prop :=
  forall L pre post i pd r fuel,
    L = pre ++ l ++ post -> length pre = i -> (0 <= pd)%Z -> fuel + i > length L ->
    exists fuel', fuel' + (i + length l) > length L /\
      infix_loop fuel L s i pd r = infix_loop fuel' L s (i + length l) pd v.

Definition Qseq (o : op) (l : list tok) (v : bool) : Prop :=
  forall L pre post i pd r fuel,
    L = pre ++ l ++ TClose :: post -> length pre = i -> (0 <= pd)%Z -> fuel + i > length L ->
    exists fuel', fuel' + (i + length l + 1) > length L /\
      infix_loop fuel L s i (pd + 1) r = infix_loop fuel' L s (i + length l + 1) pd v.

Lemma infix_loop_close : forall L i pd r fuel,
  nth_error L i = Some TClose -> (0 <= pd)%Z ->
  infix_loop (S fuel) L s i (pd + 1) r = infix_loop fuel L s (S i) pd r.
Proof.
  intros L i pd r fuel E Hpd. cbn [infix_loop]. rewrite E.
  replace (0 <? pd + 1)%Z with true by (symmetry; apply Z.ltb_lt; lia).
  cbn [expect bind]. f_equal. lia.
Qed.

Lemma infix_grammar : (forall l v, iparse l v -> Pexpr l v) /\ (forall o l v, iseq o l v -> Qseq o l v).
Proof.
  apply iparse_iseq_ind.
  - (* face *)
    intros f L pre post i pd r fuel HL Hpre Hpd Hf.
    assert (E : nth_error L i = Some (TFace f)) by (subst L; apply nth_error_mid; auto).
    assert (Hi : i < length L) by (apply nth_error_Some; congruence).
    destruct fuel as [|fuel]; [lia|]. exists fuel. split; [simpl; lia|].
    cbn [infix_loop]. rewrite E. simpl length. f_equal. lia.
  - (* not face *)
    intros f L pre post i pd r fuel HL Hpre Hpd Hf.
    assert (E : nth_error L i = Some TNot) by (subst L; apply nth_error_mid; auto).
    assert (E2 : nth_error L (S i) = Some (TFace f)).
    { subst L. change (pre ++ [TNot; TFace f] ++ post) with (pre ++ TNot :: TFace f :: post).
      replace (pre ++ TNot :: TFace f :: post) with ((pre ++ [TNot]) ++ TFace f :: post)
        by (rewrite <- app_assoc; reflexivity).
      apply nth_error_mid. rewrite app_length; simpl; lia. }
    assert (Hi : i < length L) by (apply nth_error_Some; congruence).
    destruct fuel as [|fuel]; [lia|]. exists fuel. split; [simpl; lia|].
    cbn [infix_loop]. rewrite E. cbv beta iota. rewrite E2. simpl length. f_equal. lia.
  - (* true *)
    intros L pre post i pd r fuel HL Hpre Hpd Hf.
    assert (E : nth_error L i = Some TTrue) by (subst L; apply nth_error_mid; auto).
    assert (Hi : i < length L) by (apply nth_error_Some; congruence).
    destruct fuel as [|fuel]; [lia|]. exists fuel. split; [simpl; lia|].
    cbn [infix_loop]. rewrite E. simpl length. f_equal. lia.
  - (* group *)
    intros o l v _ IH L pre post i pd r fuel HL Hpre Hpd Hf.
    assert (E : nth_error L i = Some TOpen) by (subst L; apply nth_error_mid; auto).
    assert (Hi : i < length L) by (apply nth_error_Some; congruence).
    destruct fuel as [|fuel]; [lia|].
    destruct (IH L (pre ++ [TOpen]) post (S i) pd r fuel) as [fuel' [Hf' Heq]]; auto.
    { lapp. }
    { rewrite app_length; simpl; lia. }
    { lia. }
    exists fuel'. split.
    { simpl length. rewrite app_length. simpl. lia. }
    cbn [infix_loop]. rewrite E. cbv beta iota. rewrite Heq. f_equal.
    simpl length. rewrite app_length. simpl. lia.
  - (* sequence: last operand, then the closing parenthesis *)
    intros o l v _ IH L pre post i pd r fuel HL Hpre Hpd Hf.
    destruct (IH L pre (TClose :: post) i (pd + 1)%Z r fuel) as [fuel1 [Hf1 Heq]]; auto; [lia|].
    assert (E : nth_error L (i + length l) = Some TClose).
    { subst L. rewrite app_assoc. apply nth_error_mid. rewrite app_length. lia. }
    assert (Hlen : i + length l < length L) by (apply nth_error_Some; congruence).
    destruct fuel1 as [|fuel1]; [lia|]. exists fuel1. split; [lia|].
    rewrite Heq, infix_loop_close; auto. f_equal. lia.
  - (* sequence: operand, operator, rest *)
    intros o l1 v1 l2 v2 _ IH1 Hs2 IH2 L pre post i pd r fuel HL Hpre Hpd Hf.
    destruct (IH1 L pre (op_tok o :: l2 ++ TClose :: post) i (pd + 1)%Z r fuel) as [fuel1 [Hf1 Heq1]]; auto.
    { lapp. }
    { lia. }
    assert (HL2 : L = (pre ++ l1 ++ [op_tok o]) ++ l2 ++ TClose :: post).
    { lapp. }
    assert (Hpre2 : length (pre ++ l1 ++ [op_tok o]) = S (i + length l1)).
    { rewrite !app_length. simpl. lia. }
    assert (E : nth_error L (i + length l1) = Some (op_tok o)).
    { subst L. rewrite <- app_assoc. simpl. rewrite app_assoc. apply nth_error_mid.
      rewrite app_length. lia. }
    assert (Hlen : length L = S (i + length l1) + length l2 + S (length post)).
    { rewrite HL2. rewrite app_length, Hpre2, app_length. simpl. lia. }
    rewrite Heq1. destruct fuel1 as [|fuel1]; [lia|].
    assert (Hlenl : length (l1 ++ op_tok o :: l2) = length l1 + S (length l2)).
    { rewrite app_length. reflexivity. }
    destruct (match o with OpOr => v1 | OpAnd => negb v1 end) eqn:Esc.
    + (* short circuit: skip to the matching parenthesis *)
      assert (Hv : opb o v1 v2 = v1).
      { destruct o, v1; simpl in *; try discriminate; reflexivity. }
      exists fuel1. split; [lia|]. rewrite Hv.
      cbn [infix_loop]. rewrite E.
      assert (Hb2 : bal l2) by (apply (proj2 iparse_iseq_bal o l2 v2 Hs2)).
      pose proof (short_circuit_close l2 L _ post (i + length l1) Hb2 HL2 Hpre2) as SC.
      destruct o, v1; try discriminate Esc; cbn [op_tok negb] in *; cbv beta iota;
        (replace (pd + 1 =? 0)%Z with false by (symmetry; apply Z.eqb_neq; lia));
        rewrite SC; cbn [bind]; f_equal; lia.
    + (* no short circuit: evaluate the rest *)
      assert (Hv : opb o v1 v2 = v2).
      { destruct o, v1; simpl in *; try discriminate; reflexivity. }
      destruct (IH2 L (pre ++ l1 ++ [op_tok o]) post (S (i + length l1)) pd v1 fuel1)
        as [fuel2 [Hf2 Heq2]]; auto; [lia|].
      exists fuel2. split; [lia|]. rewrite Hv.
      cbn [infix_loop]. rewrite E.
      destruct o, v1; try discriminate Esc; cbn [op_tok negb] in *; cbv beta iota; rewrite Heq2; f_equal; lia.
Qed.

(** [InfixEvaluator] on any expression of the grammar *)
Theorem infix_eval_grammar : forall l v, iparse l v -> infix_evaluate l s = Ok v.
Proof.
  intros l v Hp. unfold infix_evaluate.
  assert (Hne : (length l =? 0) = false).
  { destruct Hp; reflexivity. }
  rewrite Hne. cbn [negb expect bind].
  destruct (proj1 infix_grammar l v Hp l [] [] 0 0%Z true (S (length l))) as [fuel' [Hf Heq]];
    auto; try lia.
  { rewrite app_nil_r. reflexivity. }
  rewrite Heq. simpl Nat.add in *.
  destruct fuel' as [|fuel']; [lia|]. cbn [infix_loop].
  replace (nth_error l (length l)) with (@None tok); auto.
  symmetry. apply nth_error_None. lia.
Qed.

(** a top-level operator sequence WITHOUT the outer parentheses: the
    evaluator [break]s at depth 0 *)
Lemma infix_toplevel_seq : forall o l v, iseq o l v ->
  forall L pre i r fuel,
    L = pre ++ l -> length pre = i -> fuel + i > length L ->
    infix_loop fuel L s i 0%Z r = Ok v.
Proof.
  induction 1 as [o l v Hp|o l1 v1 l2 v2 Hp Hs IH]; intros L pre i r fuel HL Hpre Hf.
  - destruct (proj1 infix_grammar l v Hp L pre [] i 0%Z r fuel) as [fuel' [Hf' Heq]]; auto; try lia.
    { rewrite app_nil_r; auto. }
    assert (Hlen : length L = i + length l) by (subst L; rewrite app_length; lia).
    rewrite Heq. destruct fuel' as [|fuel']; [lia|]. cbn [infix_loop].
    replace (nth_error L (i + length l)) with (@None tok); auto.
    symmetry. apply nth_error_None. subst L. rewrite app_length. lia.
  - destruct (proj1 infix_grammar l1 v1 Hp L pre (op_tok o :: l2) i 0%Z r fuel) as [fuel1 [Hf1 Heq1]];
      auto; try lia.
    assert (E : nth_error L (i + length l1) = Some (op_tok o)).
    { subst L. rewrite app_assoc. apply nth_error_mid.
      rewrite app_length. lia. }
    assert (Hlen : length L = S (i + length l1) + length l2).
    { subst L. rewrite !app_length. simpl. lia. }
    rewrite Heq1. destruct fuel1 as [|fuel1]; [lia|].
    destruct (match o with OpOr => v1 | OpAnd => negb v1 end) eqn:Esc.
    + assert (Hv : opb o v1 v2 = v1).
      { destruct o, v1; simpl in *; try discriminate; reflexivity. }
      rewrite Hv. cbn [infix_loop]. rewrite E.
      destruct o, v1; try discriminate Esc; cbn [op_tok negb] in *; cbv beta iota; reflexivity.
    + assert (Hv : opb o v1 v2 = v2).
      { destruct o, v1; simpl in *; try discriminate; reflexivity. }
      rewrite Hv. cbn [infix_loop]. rewrite E.
      specialize (IH L (pre ++ l1 ++ [op_tok o]) (S (i + length l1)) v1 fuel1).
      destruct o, v1; try discriminate Esc; cbn [op_tok negb] in *; cbv beta iota; apply IH;
        try lapp;
        try (rewrite !app_length; simpl; lia); lia.
Qed.

Theorem infix_eval_toplevel : forall o l v, iseq o l v -> infix_evaluate l s = Ok v.
Proof.
  intros o l v Hs. unfold infix_evaluate.
  assert (Hne : (length l =? 0) = false).
  { destruct Hs as [o l v Hp|o l1 v1 l2 v2 Hp Hs].
    - destruct Hp; reflexivity.
    - rewrite app_length. simpl. apply Nat.eqb_neq. lia. }
  rewrite Hne. cbn [negb expect bind].
  apply (infix_toplevel_seq o l v Hs l [] 0 true); auto. lia.
Qed.

End Grammar.

(** ** The builder produces the grammar, with the node's value *)
Section Builder.
Variable t : tree.
Variable s : nat -> bool.
Hypothesis Hwf : wf t.
Let v := eval t s.

Lemma infix_rest_sound : forall f o,
  (forall d l, f d = Ok l -> iparse s l (v d)) ->
  forall r acc l b, infix_rest f (op_tok o) r acc = Ok l -> iseq s o acc b ->
  iseq s o l (fold_left (fun a d => opb o a (v d)) r b).
Proof.
  intros f o Hf. induction r as [|d r IH]; intros acc l b H Hacc; simpl in H.
  - injection H as <-. auto.
  - inv_ok. apply (IH _ _ _ H). apply iseq_snoc; auto.
Qed.

Theorem build_infix_parse : forall fuel n l,
  build_infix fuel t n = Ok l -> iparse s l (v n).
Proof.
  induction fuel as [|fuel IH]; intros n l H; simpl in H; [discriminate|].
  inv_ok. apply get_node_ok in Hm.
  pose proof (eval_unfold t s n a Hwf Hm) as E. fold v in E.
  destruct a as [| |b|b|x|o ds]; try discriminate.
  - injection H as <-. rewrite E. constructor.
  - rewrite E. simpl. apply IH; auto.
  - inv_ok. apply get_node_ok in Hm0.
    destruct a; try discriminate. injection H as <-.
    rewrite E. simpl. fold v. unfold v at 1. rewrite (eval_unfold t s b _ Hwf Hm0). simpl. constructor.
  - injection H as <-. rewrite E. constructor.
  - destruct ds as [|d0 [|d1 r]]; try discriminate. inv_ok. subst l.
    change ([TOpen] ++ a0 ++ [TClose]) with (TOpen :: a0 ++ [TClose]).
    apply ip_group with (o := o).
    pose proof (infix_rest_sound (build_infix fuel t) o (fun d l => IH d l) (d1 :: r) a a0 (v d0) Hm1) as R.
    rewrite E, eval_node_join.
    replace (joinv o v (d0 :: d1 :: r)) with (fold_left (fun a d => opb o a (v d)) (d1 :: r) (v d0)).
    + apply R. apply is_one. apply IH; auto.
    + rewrite fold_opb. destruct o; reflexivity.
Qed.

(** [infix_eval_correct]: the short-circuit evaluator applied to the explicit
    infix form of node [n] returns the node's value *)
Theorem infix_eval_correct : forall fuel n l,
  build_infix fuel t n = Ok l -> infix_evaluate l s = Ok (eval t s n).
Proof.
  intros fuel n l H. apply infix_eval_grammar. apply build_infix_parse with (fuel := fuel); auto.
Qed.

End Builder.
