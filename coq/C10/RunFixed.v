(** * C10: entry points of the model of the current code (CsgFixed.v = exchange
    as repaired in /repo d70f3c2) for the correspondence check. No proofs here. *)
From Coq Require Import List Arith Bool NArith ZArith.
From Celer Require Import C10.Csg C10.Logic C10.DeMorgan C10.Run C10.CsgFixed.
Import ListNotations.

Definition run_op_fx (W : nat) (t : tree) (o : opc) : res (tree * list outp) :=
  match o with
  | OExchange i n =>
      '(t', old) <- exchange_fx t i n ;; Ok (t', [PNode old; PTree t'])
  | OSimplifyOne i =>
      '(t', old) <- simplify_one_fx t i ;; Ok (t', [POptNode old; PTree t'])
  | OReplace k v =>
      '(t', unk) <- replace_and_simplify_fx (rs_fuel t) t k v ;; Ok (t', [PNats unk; PTree t'])
  | OSimplify s =>
      t' <- simplify_tree_fx t s ;; Ok (t', [PUnit; PTree t'])
  | OSimplifyUp s =>
      '(t', r) <- simplify_up_fx t s ;; Ok (t', [POptNat r; PTree t'])
  | _ => run_op W false t o
  end.

Fixpoint run_ops_fx (W : nat) (t : tree) (ops : list opc) : list outp :=
  match ops with
  | [] => []
  | o :: r =>
      match run_op_fx W t o with
      | Ok (t', outs) => outs ++ run_ops_fx W t' r
      | e => [PErr (err_code e)]
      end
  end.

Definition run_seq_fx (W : nat) (ops : list opc) : list outp := run_ops_fx W empty_tree ops.
