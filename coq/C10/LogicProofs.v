(** * C10: proofs about the logic encodings (Logic.v) *)
From Coq Require Import List Arith Bool NArith ZArith Lia.
From Celer Require Import C10.Csg C10.CsgProofs C10.Logic.
Import ListNotations.

(** ** The bit-field stack refines a list of booleans (top = head = LSB) *)
Fixpoint enc (l : list bool) : N :=
  match l with
  | [] => 0%N
  | b :: r => (b2N b + 2 * enc r)%N
  end.

Definition repr (W : nat) (st : lstack) (l : list bool) : Prop :=
  ssize st = length l /\ sdata st = enc l /\ length l <= W.

Lemma enc_bound : forall l, (enc l < 2 ^ N.of_nat (length l))%N.
Proof.
  induction l as [|b l IH]; [simpl; lia|].
  cbn [enc length]. rewrite Nat2N.inj_succ, N.pow_succ_r'.
  destruct b; simpl b2N; lia.
Qed.

Lemma lsb_cons : forall b x, lsb (b2N b + 2 * x) = b2N b.
Proof. intros [] [|p]; reflexivity. Qed.

Lemma shr_cons : forall b x, shr (b2N b + 2 * x) = x.
Proof. intros [] [|p]; reflexivity. Qed.

Lemma lxor_cons : forall b x, N.lxor (b2N b + 2 * x) 1 = (b2N (negb b) + 2 * x)%N.
Proof. intros [] [|p]; reflexivity. Qed.

Lemma lor_cons : forall a b x, N.lor (b2N b + 2 * x) (b2N a) = (b2N (b || a) + 2 * x)%N.
Proof. intros [] [] [|p]; reflexivity. Qed.

Lemma lor_push : forall v x, N.lor (2 * x) (lsb (b2N v)) = (b2N v + 2 * x)%N.
Proof. intros [] [|p]; reflexivity. Qed.

Lemma land_double : forall b x m, N.land (b2N b + 2 * x) (2 * m) = (2 * N.land x m)%N.
Proof.
  intros [] [|p] [|q]; try reflexivity; simpl; destruct (Pos.land p q); reflexivity.
Qed.

Lemma pow2_pos : forall n, (0 < 2 ^ n)%N.
Proof. intros n. assert (2 ^ n <> 0)%N by (apply N.pow_nonzero; lia). lia. Qed.

Lemma eqb_lsb : forall b, N.eqb (b2N b) 1 = b.
Proof. intros []; reflexivity. Qed.

Lemma mask_not1_double : forall W, 1 <= W -> mask_not1 W = (2 * N.ones (N.of_nat (W - 1)))%N.
Proof.
  intros W HW. unfold mask_not1, wmod. rewrite N.ones_equiv.
  replace (N.of_nat W) with (N.succ (N.of_nat (W - 1))) by lia.
  rewrite N.pow_succ_r'.
  assert (0 < 2 ^ N.of_nat (W - 1))%N by (apply pow2_pos). lia.
Qed.

Lemma shl_small : forall W x n, n < W -> (x < 2 ^ N.of_nat n)%N -> shl W x = (2 * x)%N.
Proof.
  intros W x n Hn Hx. unfold shl, wmod. rewrite N.shiftl_mul_pow2. simpl (2 ^ 1)%N.
  rewrite N.mod_small; [lia|].
  assert (2 ^ N.of_nat (S n) <= 2 ^ N.of_nat W)%N by (apply N.pow_le_mono_r; lia).
  rewrite Nat2N.inj_succ, N.pow_succ_r' in H. lia.
Qed.

Lemma and_mask : forall W a b r, 1 <= W -> S (length r) <= W ->
  N.land (b2N b + 2 * enc r) (N.lor (b2N a) (mask_not1 W)) = (b2N (b && a) + 2 * enc r)%N.
Proof.
  intros W a b r HW Hlen. rewrite (mask_not1_double W HW).
  assert (Hr : (enc r < 2 ^ N.of_nat (W - 1))%N).
  { eapply N.lt_le_trans; [apply enc_bound|]. apply N.pow_le_mono_r; lia. }
  destruct a.
  - (* mask = all ones *)
    replace (N.lor (b2N true) (2 * N.ones (N.of_nat (W - 1)))) with (N.ones (N.of_nat W)).
    + rewrite N.land_ones. rewrite N.mod_small; [rewrite andb_true_r; auto|].
      replace (N.of_nat W) with (N.succ (N.of_nat (W - 1))) by lia.
      rewrite N.pow_succ_r'. destruct b; simpl b2N; lia.
    + rewrite !N.ones_equiv.
      replace (N.of_nat W) with (N.succ (N.of_nat (W - 1))) by lia.
      rewrite N.pow_succ_r'.
      assert (0 < 2 ^ N.of_nat (W - 1))%N by (apply pow2_pos).
      set (k := (2 ^ N.of_nat (W - 1))%N) in *.
      replace (N.pred (2 * k)) with (b2N true + 2 * N.pred k)%N by (simpl b2N; lia).
      simpl b2N. destruct (N.pred k); reflexivity.
  - simpl b2N. rewrite N.lor_0_l, land_double, N.land_ones, N.mod_small by auto.
    rewrite andb_false_r. simpl. lia.
Qed.

Opaque N.mul N.add.
Section Refine.
Variable W : nat.
Hypothesis HW : 1 <= W.
Variable values : list bool.

Lemma push_refines : forall st l v, repr W st l -> length l < W ->
  exists st', ls_push W st v = Ok st' /\ repr W st' (v :: l).
Proof.
  intros [d n] l v [Hs [Hd Hl]] Hlt. simpl in *. subst.
  unfold ls_push, max_stack_depth. simpl.
  replace (length l =? W) with false by (symmetry; apply Nat.eqb_neq; lia). simpl.
  eexists; split; [reflexivity|]. repeat split; simpl; auto; try lia.
  rewrite (shl_small W (enc l) (length l)); auto using enc_bound. apply lor_push.
Qed.

(** one token: the bit-field step succeeds and agrees whenever the list step
    succeeds and the result fits in [W] entries *)
Lemma step_refines : forall st l x l',
  repr W st l -> list_step (nth_error values) l x = Some l' -> length l' <= W ->
  exists st', logic_step W values st x = Ok st' /\ repr W st' l'.
Proof.
  intros st l x l' R H Hfit. destruct x; simpl in *; try discriminate.
  - destruct (nth_error values f) as [v|]; [|discriminate]. injection H as <-.
    apply push_refines; auto; simpl in Hfit; lia.
  - injection H as <-. apply push_refines; auto; simpl in Hfit; lia.
  - destruct l as [|a [|b r]]; try discriminate. injection H as <-.
    destruct st as [d n]. destruct R as [Hs [Hd Hl]]. simpl in *. subst.
    unfold ls_or. simpl. eexists; split; [reflexivity|].
    repeat split; simpl; try lia.
    rewrite shr_cons, lsb_cons. apply lor_cons.
  - destruct l as [|a [|b r]]; try discriminate. injection H as <-.
    destruct st as [d n]. destruct R as [Hs [Hd Hl]]. simpl in *. subst.
    unfold ls_and. simpl. eexists; split; [reflexivity|].
    repeat split; simpl; try lia.
    rewrite shr_cons, lsb_cons. apply and_mask; auto; lia.
  - destruct l as [|a r]; try discriminate. injection H as <-.
    destruct st as [d n]. destruct R as [Hs [Hd Hl]]. simpl in *. subst.
    unfold ls_not. simpl. eexists; split; [reflexivity|].
    repeat split; simpl; try lia. apply lxor_cons.
Qed.

(** and conversely: whenever the bit-field step succeeds, the list step does *)
Lemma step_refines_conv : forall st l x st',
  repr W st l -> logic_step W values st x = Ok st' ->
  exists l', list_step (nth_error values) l x = Some l' /\ repr W st' l'.
Proof.
  intros st l x st' R H.
  assert (Hpush : forall v, ls_push W st v = Ok st' -> repr W st' (v :: l)).
  { intros v Hp. pose proof Hp as Hp'. unfold ls_push in Hp'. inv_ok.
    apply negb_true_iff, Nat.eqb_neq in Hm. unfold max_stack_depth in Hm.
    destruct R as [Hs [Hd Hl]].
    destruct (push_refines st l v (conj Hs (conj Hd Hl))) as [st2 [E R2]]; [lia|].
    congruence. }
  destruct x; simpl in *; try discriminate.
  - destruct (nth_error values f) as [v|]; [|discriminate]. eauto.
  - eauto.
  - unfold ls_or in H. inv_ok. apply Nat.leb_le in Hm.
    destruct R as [Hs [Hd Hl]]. destruct l as [|b0 [|b1 r]]; simpl in *; try lia.
    eexists; split; [reflexivity|]. subst st'. destruct st as [d n]; simpl in *. subst.
    repeat split; simpl; try lia. rewrite shr_cons, lsb_cons. apply lor_cons.
  - unfold ls_and in H. inv_ok. apply Nat.leb_le in Hm.
    destruct R as [Hs [Hd Hl]]. destruct l as [|b0 [|b1 r]]; simpl in *; try lia.
    eexists; split; [reflexivity|]. subst st'. destruct st as [d n]; simpl in *. subst.
    repeat split; simpl; try lia. rewrite shr_cons, lsb_cons. apply and_mask; auto; lia.
  - unfold ls_not in H. inv_ok. apply negb_true_iff, Nat.eqb_neq in Hm.
    destruct R as [Hs [Hd Hl]]. destruct l as [|b0 r]; simpl in *; try lia.
    eexists; split; [reflexivity|]. subst st'. destruct st as [d n]; simpl in *. subst.
    repeat split; simpl; try lia. apply lxor_cons.
Qed.

End Refine.
Transparent N.mul N.add.

(** ** Stack heights *)
Definition tok_height (x : tok) (h : nat) : nat :=
  match x with
  | TFace _ | TTrue => S h
  | TAnd | TOr => h - 1
  | _ => h
  end.

(** greatest stack height reached while running [l] from height [h] *)
Fixpoint max_height (l : list tok) (h : nat) : nat :=
  match l with
  | [] => h
  | x :: r => Nat.max h (max_height r (tok_height x h))
  end.

Lemma max_height_ge : forall l h, h <= max_height l h.
Proof. destruct l; simpl; lia. Qed.

Lemma list_step_length : forall vf st x st',
  list_step vf st x = Some st' -> length st' = tok_height x (length st)
  /\ (match x with TAnd | TOr => 2 <= length st | _ => True end).
Proof.
  intros vf st x st' H. destruct x; simpl in *; try discriminate.
  - destruct (vf f); [|discriminate]. injection H as <-. auto.
  - injection H as <-. auto.
  - destruct st as [|a [|b r]]; try discriminate. injection H as <-. simpl. split; lia.
  - destruct st as [|a [|b r]]; try discriminate. injection H as <-. simpl. split; lia.
  - destruct st as [|a r]; try discriminate. injection H as <-. simpl. auto.
Qed.

Section RunRefine.
Variable W : nat.
Hypothesis HW : 1 <= W.
Variable values : list bool.

(** [logic_stack_refines_list], run level: if the unbounded list-stack run
    succeeds and never holds more than [W] entries, the [W]-bit stack run
    succeeds and represents the same stack *)
Lemma run_refines : forall l st ls ls',
  repr W st ls -> list_run (nth_error values) ls l = Some ls' ->
  max_height l (length ls) <= W ->
  exists st', logic_run W values st l = Ok st' /\ repr W st' ls'.
Proof.
  induction l as [|x l IH]; intros st ls ls' R H Hmax; simpl in *.
  - injection H as <-. eauto.
  - destruct (list_step (nth_error values) ls x) as [ls1|] eqn:E; [|discriminate].
    destruct (list_step_length _ _ _ _ E) as [Hlen _].
    assert (Hfit : length ls1 <= W).
    { rewrite Hlen. pose proof (max_height_ge l (tok_height x (length ls))). lia. }
    destruct (step_refines W HW values st ls x ls1 R E Hfit) as [st1 [E1 R1]].
    rewrite E1. simpl. apply (IH st1 ls1 ls'); auto. rewrite Hlen. lia.
Qed.

Lemma run_refines_conv : forall l st ls st',
  repr W st ls -> logic_run W values st l = Ok st' ->
  exists ls', list_run (nth_error values) ls l = Some ls' /\ repr W st' ls'.
Proof.
  induction l as [|x l IH]; intros st ls st' R H; simpl in *.
  - injection H as <-. eauto.
  - inv_ok. destruct (step_refines_conv W HW values st ls x a R Hm) as [ls1 [E R1]].
    rewrite E. eapply IH; eauto.
Qed.

Theorem logic_stack_refines_list : forall l b,
  l <> [] -> list_run (nth_error values) [] l = Some [b] -> max_height l 0 <= W ->
  logic_evaluate W l values = Ok b.
Proof.
  intros l b Hne H Hmax.
  assert (R0 : repr W stack_empty []) by (repeat split; simpl; lia).
  destruct (run_refines l stack_empty [] [b] R0 H Hmax) as [st [E [Hs [Hd _]]]].
  unfold logic_evaluate. destruct l; [congruence|]. simpl length. simpl negb. cbn [expect bind].
  rewrite E. cbn [bind]. rewrite Hs. simpl. unfold ls_top. rewrite Hs. simpl.
  rewrite Hd. cbn [enc]. rewrite lsb_cons, eqb_lsb. reflexivity.
Qed.

Theorem logic_evaluate_list : forall l b,
  logic_evaluate W l values = Ok b -> list_run (nth_error values) [] l = Some [b].
Proof.
  intros l b H. unfold logic_evaluate in H. inv_ok.
  assert (R0 : repr W stack_empty []) by (repeat split; simpl; lia).
  destruct (run_refines_conv l stack_empty [] a0 R0 Hm0) as [ls [E [Hs [Hd _]]]].
  apply Nat.eqb_eq in Hm1. rewrite Hs in Hm1.
  destruct ls as [|b0 [|? ?]]; simpl in Hm1; try lia.
  unfold ls_top in H. inv_ok. rewrite Hd in H. cbn [enc] in H.
  rewrite lsb_cons, eqb_lsb in H. subst. auto.
Qed.

End RunRefine.

(** ** calc_max_depth is the true maximum stack height *)
Lemma cmd_loop_spec : forall vf l st st' m,
  list_run vf st l = Some st' ->
  let '(m', c') := cmd_loop l m (Z.of_nat (length st)) in
  c' = Z.of_nat (length st') /\
  Z.max m' c' = Z.max m (Z.of_nat (max_height l (length st))) /\ (m <= m')%Z.
Proof.
  intros vf. induction l as [|x l IH]; intros st st' m H; simpl in H.
  - injection H as <-. simpl. lia.
  - destruct (list_step vf st x) as [st1|] eqn:E; [|discriminate].
    destruct (list_step_length _ _ _ _ E) as [Hlen Hge].
    specialize (IH st1 st').
    cbn [cmd_loop max_height].
    pose proof (max_height_ge l (tok_height x (length st))) as Hmg.
    destruct x; simpl tok_height in *.
    + specialize (IH m H). rewrite Hlen in IH.
      replace (Z.of_nat (S (length st))) with (Z.of_nat (length st) + 1)%Z in IH by lia.
      destruct (cmd_loop l m (Z.of_nat (length st) + 1)) as [m' c'].
      pose proof (max_height_ge l (S (length st))). lia.
    + specialize (IH m H). rewrite Hlen in IH.
      destruct (cmd_loop l m (Z.of_nat (length st))) as [m' c']. lia.
    + specialize (IH m H). rewrite Hlen in IH.
      destruct (cmd_loop l m (Z.of_nat (length st))) as [m' c']. lia.
    + specialize (IH m H). rewrite Hlen in IH.
      replace (Z.of_nat (S (length st))) with (Z.of_nat (length st) + 1)%Z in IH by lia.
      destruct (cmd_loop l m (Z.of_nat (length st) + 1)) as [m' c'].
      pose proof (max_height_ge l (S (length st))). lia.
    + specialize (IH (Z.max (Z.of_nat (length st)) m) H). rewrite Hlen in IH.
      replace (Z.of_nat (length st - 1)) with (Z.of_nat (length st) - 1)%Z in IH by lia.
      destruct (cmd_loop l (Z.max (Z.of_nat (length st)) m) (Z.of_nat (length st) - 1)) as [m' c'].
      lia.
    + specialize (IH (Z.max (Z.of_nat (length st)) m) H). rewrite Hlen in IH.
      replace (Z.of_nat (length st - 1)) with (Z.of_nat (length st) - 1)%Z in IH by lia.
      destruct (cmd_loop l (Z.max (Z.of_nat (length st)) m) (Z.of_nat (length st) - 1)) as [m' c'].
      lia.
    + specialize (IH m H). rewrite Hlen in IH.
      destruct (cmd_loop l m (Z.of_nat (length st))) as [m' c']. lia.
Qed.

Lemma max_height_final : forall vf l st st',
  list_run vf st l = Some st' -> length st' <= max_height l (length st).
Proof.
  intros vf. induction l as [|x l IH]; intros st st' H; simpl in H.
  - injection H as <-. simpl. lia.
  - destruct (list_step vf st x) as [st1|] eqn:E; [|discriminate].
    destruct (list_step_length _ _ _ _ E) as [Hlen _].
    apply IH in H. rewrite Hlen in H. cbn [max_height]. lia.
Qed.

Theorem calc_max_depth_exact : forall vf l b,
  l <> [] -> list_run vf [] l = Some [b] ->
  calc_max_depth l = Ok (Some (Z.of_nat (max_height l 0))) /\ 1 <= max_height l 0.
Proof.
  intros vf l b Hne H. pose proof (cmd_loop_spec vf l [] [b] 1%Z H) as S.
  pose proof (max_height_final vf l [] [b] H) as F. simpl length in F.
  unfold calc_max_depth.
  assert (E0 : (length l =? 0) = false) by (destruct l; [congruence|reflexivity]).
  rewrite E0. cbn [negb expect bind].
  simpl length in S. change (Z.of_nat 0) with 0%Z in S.
  destruct (cmd_loop l 1 0) as [m' c']. destruct S as [Hc [Hmx Hm]].
  subst c'. change (Z.of_nat 1 =? 1)%Z with true. cbv iota. split; [|lia].
  f_equal. f_equal. lia.
Qed.

(** an expression that does not reduce to exactly one value is reported invalid *)
Theorem calc_max_depth_invalid : forall vf l st',
  l <> [] -> list_run vf [] l = Some st' -> length st' <> 1 ->
  calc_max_depth l = Ok None.
Proof.
  intros vf l st' Hne H Hlen. pose proof (cmd_loop_spec vf l [] st' 1%Z H) as S.
  unfold calc_max_depth. destruct l; [congruence|]. simpl length. cbn [negb Nat.eqb expect bind].
  simpl length in S. change (Z.of_nat 0) with 0%Z in S.
  destruct (cmd_loop (t :: l) 1 0) as [m' c']. destruct S as [Hc _]. subst c'.
  destruct (Z.of_nat (length st') =? 1)%Z eqn:E; auto. apply Z.eqb_eq in E. lia.
Qed.

(** ** PostfixLogicBuilder *)
Lemma list_run_app : forall vf a b st,
  list_run vf st (a ++ b) =
  match list_run vf st a with Some st' => list_run vf st' b | None => None end.
Proof.
  induction a as [|x a IH]; intros b st; simpl; auto.
  destruct (list_step vf st x); auto.
Qed.

Lemma index_of_nth : forall x m i, index_of x m = Some i -> nth i m 0 = x /\ i < length m.
Proof.
  induction m as [|y m IH]; simpl; intros i H; [discriminate|].
  destruct (x =? y) eqn:E.
  - injection H as <-. apply Nat.eqb_eq in E. subst. split; auto. lia.
  - destruct (index_of x m) as [j|]; simpl in H; [|discriminate].
    injection H as <-. destruct (IH j eq_refl). split; auto. lia.
Qed.

Lemma opb_assoc : forall o a b c, opb o (opb o a b) c = opb o a (opb o b c).
Proof. intros [] [] [] []; reflexivity. Qed.

Lemma fold_opb : forall o (v : nat -> bool) r b,
  fold_left (fun a d => opb o a (v d)) r b = opb o b (joinv o v r).
Proof.
  induction r as [|d r IH]; intros b; simpl.
  - destruct o, b; reflexivity.
  - rewrite IH. rewrite opb_assoc. f_equal. destruct o; reflexivity.
Qed.

(** sense of a (pre-remapping) logic index under assignment [s] *)
Definition umap (s : nat -> bool) (mapping : option (list nat)) : nat -> bool :=
  match mapping with
  | None => s
  | Some m => fun k => s (nth k m 0)
  end.

Section Postfix.
Variable t : tree.
Variable s : nat -> bool.
Hypothesis Hwf : wf t.
Variable mapping : option (list nat).
Let u := umap s mapping.
Let vf := fun f : nat => Some (u f).
Let v := eval t s.

Lemma join_rest_sound : forall f o,
  (forall d l, f d = Ok l -> forall st, list_run vf st l = Some (v d :: st)) ->
  forall r acc l, join_rest f (op_tok o) r acc = Ok l ->
  forall st b, list_run vf st acc = Some (b :: st) ->
  list_run vf st l = Some (fold_left (fun a d => opb o a (v d)) r b :: st).
Proof.
  intros f o Hf. induction r as [|d r IH]; intros acc l H st b Hacc; simpl in H.
  - injection H as <-. auto.
  - inv_ok. apply (IH _ _ H). rewrite list_run_app, Hacc, list_run_app.
    rewrite (Hf d a Hm). destruct o; reflexivity.
Qed.

Lemma postfix_impl_sound : forall fuel n l,
  postfix_impl fuel t mapping n = Ok l ->
  forall st, list_run vf st l = Some (v n :: st).
Proof.
  induction fuel as [|fuel IH]; intros n l H st; simpl in H; [discriminate|].
  inv_ok. apply get_node_ok in Hm.
  pose proof (eval_unfold t s n a Hwf Hm) as E. fold v in E.
  destruct a as [| |b|b|x|o ds]; try discriminate.
  - injection H as <-. rewrite E. reflexivity.
  - rewrite E. simpl. apply IH; auto.
  - inv_ok. subst l. rewrite list_run_app, (IH _ _ Hm0). rewrite E. reflexivity.
  - rewrite E. subst vf u. unfold umap. destruct mapping as [m|].
    + destruct (index_of x m) as [i|] eqn:Ei; [|discriminate]. injection H as <-.
      apply index_of_nth in Ei. destruct Ei as [Ei _]. simpl. rewrite Ei. reflexivity.
    + injection H as <-. reflexivity.
  - inv_ok. destruct ds as [|d0 r]; [discriminate|]. inv_ok.
    rewrite (join_rest_sound (postfix_impl fuel t mapping) o (fun d l => IH d l) r a0 l H st (v d0)).
    + rewrite E, eval_node_join. rewrite fold_opb. destruct o; reflexivity.
    + apply IH; auto.
Qed.

Lemma remap_run : forall faces l l',
  mapM (remap_tok faces) l = Ok l' ->
  forall st, list_run (nth_error (map u faces)) st l' = list_run vf st l.
Proof.
  intros faces. induction l as [|x l IH]; intros l' H st; simpl in H.
  - injection H as <-. reflexivity.
  - inv_ok. subst l'. simpl.
    assert (Hx : list_step (nth_error (map u faces)) st a = list_step vf st x).
    { destruct x; simpl in Hm; try (injection Hm as <-; reflexivity).
      destruct (index_of f faces) as [i|] eqn:Ei; [|discriminate]. injection Hm as <-.
      apply index_of_nth in Ei. destruct Ei as [Ei Hi]. simpl.
      rewrite nth_error_map. rewrite (nth_error_nth' faces 0 Hi). simpl. rewrite Ei. reflexivity. }
    rewrite Hx. destruct (list_step vf st x); auto.
Qed.

(** [postfix_eval_correct]: the logic vector produced for node [n], evaluated
    by LogicEvaluator on the [W]-bit stack with the senses of its faces under
    [s], yields the node's value -- provided the depth reported by
    calc_max_depth (which is exactly the greatest stack height) fits. *)
Theorem postfix_eval_correct_gen : forall W fuel n faces lgc,
  1 <= W -> build_postfix fuel t mapping n = Ok (faces, lgc) ->
  calc_max_depth lgc = Ok (Some (Z.of_nat (max_height lgc 0))) /\
  1 <= max_height lgc 0 /\
  (max_height lgc 0 <= W -> logic_evaluate W lgc (map u faces) = Ok (v n)).
Proof.
  intros W fuel n faces lgc HW H. unfold build_postfix in H. inv_ok. subst.
  pose proof (postfix_impl_sound fuel n a0 Hm0 []) as R.
  rewrite <- (remap_run _ _ _ Hm1) in R.
  assert (Hne : lgc <> []) by (intros ->; discriminate).
  destruct (calc_max_depth_exact _ lgc (v n) Hne R) as [C G].
  split; auto. split; auto. intros Hfit.
  apply logic_stack_refines_list; auto.
Qed.

End Postfix.
