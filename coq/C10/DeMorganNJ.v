(** * C10: transform_negated_joins leaves no negated join (and no alias) in
    its output -- the structural half of [demorgan_sound].

    The output tree is built from [empty_tree] by [insert] only.  Invariants:
      - [Rinv r] on the tree being built: no [Aliased] node; the operand of
        every [Negated] node is not a [Joined] node; the hash-cons table is
        exact (an entry maps a representation to a node of that very shape, or
        to a non-join node for the two constant entries of the constructor);
      - [Tinv r tr] on the translation table: [unmodified] of an input node
        whose (dealiased) definition is not a join points to a non-join node.
    Everything [insert] can return for [Negated{u}] with [u] a non-join is a
    non-join ([insert_nonjoin]); a negation is only ever inserted for such a
    [u] (the negation of a join is never inserted: process_negated_joined_nodes
    returns "do not insert" for it). *)
From Coq Require Import List Arith Bool Lia.
From Celer Require Import C10.Csg C10.CsgProofs C10.DeMorgan C10.DeMorganProofs.
Import ListNotations.

Definition njoin (r : tree) (u : nat) : Prop :=
  u < size r /\ forall o l, nth_error (nodes r) u <> Some (NJoined o l).

Definition no_alias (r : tree) : Prop := forall i a, nth_error (nodes r) i <> Some (NAliased a).
Definition neg_ok (r : tree) : Prop :=
  forall i b, nth_error (nodes r) i = Some (NNegated b) -> njoin r b.
Definition ids_exact (r : tree) : Prop :=
  forall n i, In (n, i) (ids r) ->
    nth_error (nodes r) i = Some n \/ (is_joined n = false /\ njoin r i).
Definition Rinv (r : tree) : Prop := no_alias r /\ neg_ok r /\ ids_exact r.

(** the property of the output *)
Definition no_negated_join (r : tree) : Prop :=
  no_alias r /\
  forall i c, nth_error (nodes r) i = Some (NNegated c) ->
    c < size r /\ forall o l, nth_error (nodes r) c <> Some (NJoined o l).

Lemma Rinv_no_negated_join : forall r, Rinv r -> no_negated_join r.
Proof. intros r [A [B _]]. split; auto. Qed.

Lemma njoin_app : forall r r' extra u, nodes r' = nodes r ++ extra -> njoin r u -> njoin r' u.
Proof.
  intros r r' extra u E [Hu Hn]. unfold njoin, size in *. rewrite E. split.
  - rewrite app_length. lia.
  - intros o l. rewrite nth_error_app1 by auto. apply Hn.
Qed.

Lemma Rinv_empty : Rinv empty_tree.
Proof.
  split; [|split].
  - intros [|[|[|i]]] a; simpl; discriminate.
  - intros [|[|[|i]]] b H; simpl in H; try discriminate. injection H as <-.
    split; [unfold size, true_id; simpl; lia|]. intros o l; simpl; discriminate.
  - intros n i Hin. simpl in Hin.
    destruct Hin as [H|[H|[H|[H|[]]]]]; injection H as <- <-.
    + left; reflexivity.
    + right. split; auto. split; [unfold size, true_id, false_id; simpl; lia|intros o l; simpl; discriminate].
    + left; reflexivity.
    + right. split; auto. split; [unfold size, true_id, false_id; simpl; lia|intros o l; simpl; discriminate].
Qed.

(** appending a node that is not an alias and not the negation of a join *)
Lemma Rinv_append : forall r n',
  Rinv r -> (forall a, n' <> NAliased a) -> (forall u, n' = NNegated u -> njoin r u) ->
  Rinv (mkTree (nodes r ++ [n']) (ids r ++ [(n', size r)]) (volumes r)).
Proof.
  intros r n' [Ha [Hn Hi]] Hna Hneg.
  set (r' := mkTree (nodes r ++ [n']) (ids r ++ [(n', size r)]) (volumes r)).
  assert (E : nodes r' = nodes r ++ [n']) by reflexivity.
  assert (Hnth : forall i m, nth_error (nodes r') i = Some m ->
            (i < size r /\ nth_error (nodes r) i = Some m) \/ (i = size r /\ m = n')).
  { intros i m H. rewrite E in H. destruct (Nat.lt_ge_cases i (size r)) as [L|L].
    - rewrite nth_error_app1 in H by auto. auto.
    - rewrite nth_error_app2 in H by auto. unfold size in *.
      destruct (i - length (nodes r)) as [|j] eqn:Ej; simpl in H.
      + injection H as <-. right. split; auto. lia.
      + destruct j; discriminate. }
  split; [|split].
  - intros i a H. apply Hnth in H. destruct H as [[_ H]|[_ H]]; [eapply Ha; eauto|eapply Hna; eauto].
  - intros i b H. apply Hnth in H. destruct H as [[_ H]|[_ H]].
    + eapply njoin_app; eauto.
    + eapply njoin_app; eauto.
  - intros n i Hin. simpl in Hin. apply in_app_or in Hin. destruct Hin as [Hin|[Hin|[]]].
    + destruct (Hi n i Hin) as [H|[H1 H2]].
      * left. rewrite E. rewrite nth_error_app1; auto. apply nth_error_Some. congruence.
      * right. split; auto. eapply njoin_app; eauto.
    + injection Hin as <- <-. left. rewrite E. rewrite nth_error_app2 by (unfold size; lia).
      unfold size. rewrite Nat.sub_diag. reflexivity.
Qed.

(** the three outcomes of [insert] *)
Lemma insert_cases : forall r n r' i b, insert r n = Ok (r', i, b) ->
  exists r0, simplify_node r n = Ok r0 /\
    ((r' = r /\ r0 = Some (NAliased i)) \/
     ((forall a, r0 <> Some (NAliased a)) /\
      ((r' = r /\ In (match r0 with Some x => x | None => n end, i) (ids r)) \/
       (r' = mkTree (nodes r ++ [match r0 with Some x => x | None => n end])
                    (ids r ++ [(match r0 with Some x => x | None => n end, size r)]) (volumes r)
        /\ i = size r)))).
Proof.
  intros r n r' i b H. unfold insert in H. inv_ok. rename a0 into r0. exists r0. split; auto.
  destruct r0 as [x|].
  - destruct x as [| |a9|a9|x9|o9 l9];
      try (right; split; [congruence|];
           match type of H with match ids_find ?N ?M with _ => _ end = _ =>
             let Ef := fresh "Ef" in destruct (ids_find N M) eqn:Ef;
             [left; injection H as <- <- <-; apply ids_find_In in Ef; auto
             |right; injection H as <- <- <-; auto] end).
    left. injection H as <- <- <-. auto.
  - right; split; [congruence|].
    match type of H with match ids_find ?N ?M with _ => _ end = _ =>
      let Ef := fresh "Ef" in destruct (ids_find N M) eqn:Ef;
      [left; injection H as <- <- <-; apply ids_find_In in Ef; auto
      |right; injection H as <- <- <-; auto] end.
Qed.

(** what the simplifier can make of a node that is neither a join nor an alias,
    on a tree without aliases *)
Lemma simplify_nonjoin : forall r n r0,
  no_alias r -> simplify_node r n = Ok r0 -> is_joined n = false -> (forall a, n <> NAliased a) ->
  r0 = None \/ r0 = Some NTrue \/ r0 = Some NFalse \/
  exists u b, n = NNegated u /\ nth_error (nodes r) u = Some (NNegated b) /\ r0 = Some (NAliased b).
Proof.
  intros r n r0 Ha H Hj Hna. destruct n as [| |a|a|x|o l]; simpl in H; try discriminate;
    try (injection H as <-; auto).
  - exfalso. eapply Hna; eauto.
  - inv_ok. apply get_node_ok in Hm. subst r0. destruct a0; auto.
    + exfalso. eapply Ha; eauto.
    + right. right. right. eauto.
Qed.

Lemma simplify_join : forall r o l r0, simplify_node r (NJoined o l) = Ok r0 ->
  exists x, r0 = Some x /\ ((exists a, x = NAliased a) \/ (exists l2, x = NJoined o l2)).
Proof.
  intros r o l r0 H. simpl in H. inv_ok. destruct a as [l1|].
  - destruct (sort_uniq l1) as [|x [|y l2]]; injection H as <-; eauto.
  - injection H as <-. eauto.
Qed.

(** [insert] of a node that is not a join, not an alias, and not the negation
    of a join: returns a non-join, keeps the invariant *)
Lemma insert_nonjoin : forall r n r' i b,
  Rinv r -> insert r n = Ok (r', i, b) ->
  is_joined n = false -> (forall a, n <> NAliased a) -> (forall u, n = NNegated u -> njoin r u) ->
  Rinv r' /\ njoin r' i /\ exists extra, nodes r' = nodes r ++ extra.
Proof.
  intros r n r' i b HR H Hj Hna Hneg.
  destruct (insert_cases _ _ _ _ _ H) as [r0 [Hs C]].
  pose proof HR as [Ha [Hn Hi]].
  pose proof (simplify_nonjoin r n r0 Ha Hs Hj Hna) as S.
  set (n' := match r0 with Some x => x | None => n end) in *.
  assert (Hn' : (forall a, r0 <> Some (NAliased a)) ->
            is_joined n' = false /\ (forall a, n' <> NAliased a) /\ (forall u, n' = NNegated u -> njoin r u)).
  { intros Hnal. subst n'.
    destruct S as [->|[->|[->|[u [b0 [_ [_ ->]]]]]]]; auto; try (repeat split; congruence).
    all: try (exfalso; eapply Hnal; eauto). }
  destruct C as [[-> ->]|[Hnal [[-> Hin]|[-> ->]]]].
  - (* alias of the operand of a negation *)
    split; auto. split; [|exists []; rewrite app_nil_r; auto].
    destruct S as [S|[S|[S|[u [b0 [_ [Hu S]]]]]]]; try discriminate.
    injection S as <-. eapply Hn; eauto.
  - (* found in the table *)
    destruct (Hn' Hnal) as [J1 _].
    split; auto. split; [|exists []; rewrite app_nil_r; auto].
    destruct (Hi _ _ Hin) as [E|[_ E]]; auto.
    split; [apply nth_error_Some; congruence|].
    intros o l. rewrite E. intros Q. injection Q as Q. rewrite Q in J1. discriminate.
  - (* appended *)
    destruct (Hn' Hnal) as [J1 [J2 J3]].
    split; [apply Rinv_append; auto|]. split; [|exists [n']; reflexivity].
    split; [unfold size; simpl; rewrite app_length; simpl; lia|].
    intros o l. simpl. rewrite nth_error_app2 by (unfold size; lia).
    unfold size. rewrite Nat.sub_diag. simpl. intros Q. injection Q as Q. rewrite Q in J1. discriminate.
Qed.

(** [insert] of a join: keeps the invariant (it never appends a negation) *)
Lemma insert_join : forall r o l r' i b,
  Rinv r -> insert r (NJoined o l) = Ok (r', i, b) ->
  Rinv r' /\ exists extra, nodes r' = nodes r ++ extra.
Proof.
  intros r o l r' i b HR H.
  destruct (insert_cases _ _ _ _ _ H) as [r0 [Hs C]].
  destruct (simplify_join _ _ _ _ Hs) as [x [-> Hx]].
  destruct C as [[-> _]|[Hnal [[-> _]|[-> ->]]]]; try (split; [solve [auto]|exists []; rewrite app_nil_r; solve [auto]]).
  destruct Hx as [[a ->]|[l2 ->]]; [exfalso; eapply Hnal; eauto|].
  split; [|eexists; reflexivity]. apply Rinv_append; auto; congruence.
Qed.

Ltac fin5 := split; [solve [auto]|split; [solve [auto]|split; [solve [auto]|split; [solve [eauto]|]]]].

Section NJ.
Variable t : tree.

Definition Tinv (r : tree) (tr : list matching) : Prop :=
  forall k m u tn, nth_error tr k = Some m -> unmodified m = Some u ->
    target_node t k = Ok tn -> is_joined tn = false -> njoin r u.

Lemma Tinv_app : forall r r' extra tr, nodes r' = nodes r ++ extra -> Tinv r tr -> Tinv r' tr.
Proof. intros r r' extra tr E H k m u tn A B C D. eapply njoin_app; eauto. Qed.

(** [process_negated_joined_nodes]: the tree keeps [Rinv], [unmodified]
    entries are untouched, and a negation is only passed on for insertion if
    its operand's definition is not a join *)
Lemma process_nj : forall st tr nid r b r' tr',
  Rinv r -> process_negated_joined_nodes t st tr nid r = Ok (b, r', tr') ->
  Rinv r' /\ (exists extra, nodes r' = nodes r ++ extra) /\ length tr' = length tr /\
  (forall k m', nth_error tr' k = Some m' ->
     exists m, nth_error tr k = Some m /\ unmodified m' = unmodified m) /\
  (b = true -> forall c, target_node t nid = Ok (NNegated c) ->
     exists tc, target_node t c = Ok tc /\ is_joined tc = false).
Proof.
  intros st tr nid r b r' tr' HR H. unfold process_negated_joined_nodes in H.
  apply bind_ok in H. destruct H as [tn [Htn H]].
  assert (Hself : forall k m', nth_error tr k = Some m' ->
            exists m, nth_error tr k = Some m /\ unmodified m' = unmodified m) by eauto.
  assert (Hset : forall m0 m1, tr_get tr nid = Ok m0 -> unmodified m1 = unmodified m0 ->
            forall k m', nth_error (tr_set tr nid m1) k = Some m' ->
            exists m, nth_error tr k = Some m /\ unmodified m' = unmodified m).
  { intros m0 m1 G U k m' Hk. unfold tr_set in Hk. apply set_nth_cases in Hk.
    destruct Hk as [[-> ->]|[_ Hk]]; eauto.
    unfold tr_get in G. destruct (nth_error tr nid) eqn:E; [|discriminate].
    injection G as ->. eauto. }
  assert (Hnil : exists extra, nodes r = nodes r ++ extra) by (exists []; rewrite app_nil_r; auto).
  destruct tn as [| |c|c|x|o ds].
  1,2,3,5: injection H as <- <- <-; fin5; intros _ c0 Q; congruence.
  - (* negated *)
    apply bind_ok in H. destruct H as [tc [Htc H]].
    destruct (is_joined tc) eqn:Ej.
    + apply bind_ok in H. destruct H as [mc [_ H]].
      destruct (opposite_join mc); [|discriminate].
      apply bind_ok in H. destruct H as [m [Hget H]]. injection H as <- <- <-.
      split; auto. split; auto. split; [unfold tr_set; apply set_nth_length|].
      split; [eapply Hset; eauto|]. discriminate.
    + assert (Hb : forall c0, target_node t nid = Ok (NNegated c0) ->
                exists tc0, target_node t c0 = Ok tc0 /\ is_joined tc0 = false).
      { intros c0 Q. rewrite Htn in Q. injection Q as <-. eauto. }
      apply bind_ok in H. destruct H as [iv [_ H]].
      apply bind_ok in H. destruct H as [hp [_ H]].
      destruct (iv || negb hp).
      * injection H as <- <- <-. fin5. intros _. exact Hb.
      * apply bind_ok in H. destruct H as [bb [_ H]]. injection H as <- <- <-. fin5. intros _. exact Hb.
  - (* joined *)
    apply bind_ok in H. destruct H as [nj [_ H]].
    apply bind_ok in H. destruct H as [[r2 tr2] [H1 H]].
    apply bind_ok in H. destruct H as [bb [_ H]]. injection H as <- <- <-.
    assert (Hb : bb = true -> forall c0, target_node t nid = Ok (NNegated c0) ->
              exists tc0, target_node t c0 = Ok tc0 /\ is_joined tc0 = false)
      by (intros _ c0 Q; rewrite Htn in Q; discriminate).
    destruct nj.
    + apply bind_ok in H1. destruct H1 as [nn [Hnn H1]].
      apply bind_ok in H1. destruct H1 as [[[r3 nid3] b3] [Hi H1]].
      apply bind_ok in H1. destruct H1 as [m [Hget H1]]. injection H1 as <- <-.
      unfold build_negated_node in Hnn. apply bind_ok in Hnn. destruct Hnn as [ops [_ Hnn]].
      injection Hnn as <-.
      destruct (insert_join _ _ _ _ _ _ HR Hi) as [R3 P3].
      split; auto. split; auto. split; [unfold tr_set; apply set_nth_length|].
      split; auto. eapply Hset; eauto.
    + injection H1 as <- <-. fin5. exact Hb.
Qed.

Lemma bst_loop_nj : forall st k tr r nid r' tr',
  Rinv r -> Tinv r tr -> bst_loop t st tr r nid k = Ok (r', tr') -> Rinv r'.
Proof.
  intros st. induction k as [|k IH]; intros tr r nid r' tr' HR HT H; simpl in H.
  - injection H as <- <-. auto.
  - apply bind_ok in H. destruct H as [[[ins r1] tr1] [Hp H]].
    destruct (process_nj _ _ _ _ _ _ _ HR Hp) as [R1 [[ex1 P1] [L1 [U1 B1]]]].
    assert (T1 : Tinv r1 tr1).
    { intros k0 m' u tn Hk Hu Ht Hj. destruct (U1 _ _ Hk) as [m [Hk0 E]].
      rewrite E in Hu. eapply njoin_app; eauto. }
    destruct ins; cbn [negb] in H.
    2:{ eapply IH; eauto. }
    apply bind_ok in H. destruct H as [tn [Htn H]].
    apply bind_ok in H. destruct H as [new_node [Hnew H]].
    apply bind_ok in H. destruct H as [[[r2 new_id] b2] [Hins H]].
    apply bind_ok in H. destruct H as [m [Hget H]].
    apply bind_ok in H. destruct H as [u0 [_ H]].
    set (m1 := mkMatch (Some new_id) (simplified_to m) (opposite_join m) (new_negation m)) in *.
    (* the insertion of the translated node *)
    assert (Hstep : Rinv r2 /\ (exists extra, nodes r2 = nodes r1 ++ extra) /\
                    (is_joined tn = false -> njoin r2 new_id)).
    { destruct tn as [| |c|c|x|o ds]; simpl in Hnew; try discriminate.
      - injection Hnew as <-.
        destruct (insert_nonjoin _ _ _ _ _ R1 Hins) as [A [B C]]; auto; congruence.
      - injection Hnew as <-.
        destruct (insert_nonjoin _ _ _ _ _ R1 Hins) as [A [B C]]; auto; congruence.
      - apply bind_ok in Hnew. destruct Hnew as [mc [Hmc Hnew]].
        destruct (unmodified mc) as [u|] eqn:Eu; [|discriminate]. injection Hnew as <-.
        destruct (B1 eq_refl c Htn) as [tc [Htc Hjc]].
        assert (Hu : njoin r1 u).
        { unfold tr_get in Hmc. destruct (nth_error tr1 c) eqn:Ec; [|discriminate].
          injection Hmc as ->. eapply T1; eauto. }
        destruct (insert_nonjoin _ _ _ _ _ R1 Hins) as [A [B C]]; auto; try congruence.
        all: try (intros u1 Q; injection Q as <-; auto).
      - injection Hnew as <-.
        destruct (insert_nonjoin _ _ _ _ _ R1 Hins) as [A [B C]]; auto; congruence.
      - apply bind_ok in Hnew. destruct Hnew as [ds' [_ Hnew]]. injection Hnew as <-.
        destruct (insert_join _ _ _ _ _ _ R1 Hins) as [A C]. split; auto. split; auto. discriminate. }
    destruct Hstep as [R2 [[ex2 P2] Hnj]].
    assert (T2 : Tinv r2 (tr_set tr1 nid m1)).
    { intros k0 m' u tn0 Hk Hu Ht Hj. unfold tr_set in Hk. apply set_nth_cases in Hk.
      destruct Hk as [[-> ->]|[_ Hk]].
      - simpl in Hu. injection Hu as <-. rewrite Htn in Ht. injection Ht as <-. auto.
      - eapply njoin_app; eauto. }
    apply bind_ok in H. destruct H as [nn [_ H]].
    destruct nn.
    + apply bind_ok in H. destruct H as [u1 [Hex H]].
      apply bind_ok in H. destruct H as [[[r3 neg_id] b3] [Hins3 H]].
      apply expect_ok in Hex. apply andb_true_iff in Hex. destruct Hex as [Hex _].
      apply andb_true_iff in Hex. destruct Hex as [_ Hex]. apply negb_true_iff in Hex.
      destruct (insert_nonjoin _ _ _ _ _ R2 Hins3) as [R3 [_ [ex3 P3]]]; auto; try congruence.
      all: try (intros u Q; injection Q as <-; auto).
      eapply IH; [exact R3| |exact H].
      intros k0 m' u tn0 Hk Hu Ht Hj. unfold tr_set in Hk. apply set_nth_cases in Hk.
      destruct Hk as [[-> ->]|[_ Hk]].
      * simpl in Hu. injection Hu as <-. eapply njoin_app; eauto.
      * eapply njoin_app; eauto; eapply T2; eauto.
    + eapply IH; eauto.
Qed.

End NJ.

Lemma bst_volumes_nodes : forall tr vs r r', bst_volumes tr vs r = Ok r' -> nodes r' = nodes r.
Proof.
  intros tr. induction vs as [|v vs IH]; intros r r' H; simpl in H.
  - injection H as <-. reflexivity.
  - apply bind_ok in H. destruct H as [m [_ H]].
    destruct (equivalent_node m); [|discriminate].
    apply bind_ok in H. destruct H as [r1 [H1 H]].
    unfold insert_volume in H1. apply bind_ok in H1. destruct H1 as [u0 [_ H1]].
    injection H1 as <-. apply IH in H. simpl in H. exact H.
Qed.

(** the structural half of [demorgan_sound]: for EVERY input tree on which the
    simplifier runs to completion, the output has no alias and no negation
    whose operand is a join *)
Theorem demorgan_no_negated_join : forall t t' tr,
  demorgan_full t = Ok (t', tr) -> no_negated_join t'.
Proof.
  intros t t' tr H. unfold demorgan_full in H.
  apply bind_ok in H. destruct H as [st [_ H]].
  apply bind_ok in H. destruct H as [[r tr0] [Hloop H]].
  apply bind_ok in H. destruct H as [r2 [Hvol H]].
  injection H as <- <-.
  assert (T0 : Tinv t empty_tree (repeat no_match (size t))).
  { intros k m u tn Hk Hu. apply nth_error_In, repeat_spec in Hk. subst m. discriminate. }
  pose proof (bst_loop_nj t _ _ _ _ _ _ _ Rinv_empty T0 Hloop) as R.
  apply bst_volumes_nodes in Hvol.
  destruct (Rinv_no_negated_join _ R) as [A B].
  unfold no_negated_join, no_alias, size. rewrite Hvol. auto.
Qed.

(** full [demorgan_sound] *)
Theorem demorgan_sound : forall t t' tr,
  wf t -> demorgan_full t = Ok (t', tr) ->
  inv t' /\
  (forall s, Forall2 (fun v' v => eval t' s v' = eval t s v) (volumes t') (volumes t)) /\
  no_negated_join t'.
Proof.
  intros t t' tr Hwf H. destruct (demorgan_sound_equiv t t' tr Hwf H) as [A B].
  split; auto. split; auto. eapply demorgan_no_negated_join; eauto.
Qed.
