(** * C10: proofs about the CSG tree model (Csg.v) *)
From Coq Require Import List Arith Bool Lia.
From Celer Require Import C10.Csg.
Import ListNotations.

Lemma list_eqb_eq : forall a b, list_eqb a b = true -> a = b.
Proof.
  induction a as [|x a IH]; destruct b as [|y b]; simpl; intros H; try discriminate; auto.
  apply andb_true_iff in H. destruct H as [H1 H2].
  apply Nat.eqb_eq in H1. subst. f_equal. auto.
Qed.

Lemma node_eqb_eq : forall a b, node_eqb a b = true -> a = b.
Proof.
  destruct a, b; simpl; intros H; try discriminate; auto;
    try (apply Nat.eqb_eq in H; subst; reflexivity).
  apply andb_true_iff in H. destruct H as [H1 H2].
  apply list_eqb_eq in H2. subst. destruct o, o0; simpl in H1; try discriminate; reflexivity.
Qed.

(** ** Basic facts about the result monad *)
Lemma bind_ok : forall {A B} (m : res A) (f : A -> res B) b,
  bind m f = Ok b -> exists a, m = Ok a /\ f a = Ok b.
Proof. intros A B [a| | |] f b H; simpl in H; try discriminate. eauto. Qed.

Lemma expect_ok : forall b u, expect b = Ok u -> b = true.
Proof. intros [] u H; simpl in H; congruence. Qed.

Ltac inv_ok :=
  repeat match goal with
  | H : bind _ _ = Ok _ |- _ =>
      let a := fresh "a" in let Ha := fresh "Hm" in
      apply bind_ok in H; destruct H as [a [Ha H]]
  | H : expect _ = Ok _ |- _ => apply expect_ok in H
  | H : Ok _ = Ok _ |- _ => injection H as H
  end.

(** ** Evaluation *)
Definition wf_nodes (ns : list node) : Prop :=
  forall i n, nth_error ns i = Some n -> forall c, In c (children n) -> c < i.
Definition wf (t : tree) : Prop := wf_nodes (nodes t).

Lemma eval_node_ext : forall s v v' n,
  (forall c, In c (children n) -> v c = v' c) -> eval_node s v n = eval_node s v' n.
Proof.
  intros s v v' n H. destruct n as [| |a|a|x|o l]; simpl; auto.
  - apply H; simpl; auto.
  - f_equal. apply H; simpl; auto.
  - simpl in H. destruct o.
    + induction l as [|c l IH]; simpl; auto. rewrite (H c) by (left; auto).
      rewrite IH; auto. intros; apply H; right; auto.
    + induction l as [|c l IH]; simpl; auto. rewrite (H c) by (left; auto).
      rewrite IH; auto. intros; apply H; right; auto.
Qed.

Lemma eval_list_length : forall s ns acc, length (eval_list s ns acc) = length acc + length ns.
Proof.
  induction ns as [|n ns IH]; intros acc; simpl; [lia|].
  rewrite IH, app_length. simpl. lia.
Qed.

Lemma eval_list_prefix : forall s ns acc i, i < length acc ->
  nth i (eval_list s ns acc) false = nth i acc false.
Proof.
  induction ns as [|n ns IH]; intros acc i Hi; simpl; auto.
  rewrite IH by (rewrite app_length; simpl; lia).
  apply app_nth1; auto.
Qed.

Lemma eval_list_app : forall s a b acc,
  eval_list s (a ++ b) acc = eval_list s b (eval_list s a acc).
Proof. induction a as [|n a IH]; intros; simpl; auto. Qed.

Definition vals (s : nat -> bool) (ns : list node) : nat -> bool :=
  fun i => nth i (eval_list s ns []) false.

Lemma eval_vals : forall t s i, eval t s i = vals s (nodes t) i.
Proof. reflexivity. Qed.

Lemma vals_app_lt : forall s a b i, i < length a -> vals s (a ++ b) i = vals s a i.
Proof.
  intros. unfold vals. rewrite eval_list_app.
  apply eval_list_prefix. rewrite eval_list_length. simpl. lia.
Qed.

Lemma vals_snoc : forall s a n, vals s (a ++ [n]) (length a) = eval_node s (vals s a) n.
Proof.
  intros. unfold vals. rewrite eval_list_app. simpl.
  rewrite app_nth2; rewrite eval_list_length; simpl; [|lia].
  replace (length a - length a) with 0 by lia. reflexivity.
Qed.

Lemma vals_ge : forall s a i, length a <= i -> vals s a i = false.
Proof.
  intros. unfold vals. apply nth_overflow. rewrite eval_list_length. simpl. lia.
Qed.

Lemma wf_nodes_app : forall a b, wf_nodes (a ++ b) -> wf_nodes a.
Proof.
  intros a b H i n Hn c Hc. apply (H i n); auto.
  rewrite nth_error_app1; auto. apply nth_error_Some. congruence.
Qed.

(** the defining equation of [eval] on a topologically sorted node list *)
Lemma vals_unfold : forall s ns i n, wf_nodes ns -> nth_error ns i = Some n ->
  vals s ns i = eval_node s (vals s ns) n.
Proof.
  intros s ns i n Hwf Hn.
  destruct (nth_error_split ns i Hn) as [a [b [Hns Hlen]]]. subst ns.
  replace (a ++ n :: b) with ((a ++ [n]) ++ b) in * by (rewrite <- app_assoc; reflexivity).
  rewrite vals_app_lt by (rewrite app_length; simpl; lia).
  subst i. rewrite vals_snoc.
  apply eval_node_ext. intros c Hc.
  assert (c < length a) by (apply (Hwf (length a) n); auto).
  rewrite vals_app_lt by (rewrite app_length; simpl; lia).
  rewrite vals_app_lt by lia. reflexivity.
Qed.

(** [eval] is the only function satisfying the equation *)
Lemma vals_unique : forall s ns f, wf_nodes ns ->
  (forall i n, nth_error ns i = Some n -> f i = eval_node s f n) ->
  forall i, i < length ns -> f i = vals s ns i.
Proof.
  intros s ns f Hwf Hf i. induction i as [i IH] using lt_wf_ind. intros Hi.
  destruct (nth_error ns i) as [n|] eqn:Hn; [|apply nth_error_None in Hn; lia].
  rewrite (Hf i n Hn), (vals_unfold s ns i n Hwf Hn).
  apply eval_node_ext. intros c Hc.
  assert (c < i) by (apply (Hwf i n); auto). apply IH; lia.
Qed.

(** ** Invariants of the tree *)
Definition base (t : tree) : Prop :=
  nth_error (nodes t) 0 = Some NTrue /\ nth_error (nodes t) 1 = Some (NNegated 0).

Definition ids_ok (t : tree) : Prop :=
  forall n i, In (n, i) (ids t) -> i < size t /\ forall c, In c (children n) -> c < size t.

Definition inv (t : tree) : Prop := wf t /\ base t /\ ids_ok t.

(** the hash-cons table is sound under assignment [s]: every recorded
    representation evaluates like the id it maps to *)
Definition ids_sound (t : tree) (s : nat -> bool) : Prop :=
  forall n i, In (n, i) (ids t) -> eval_node s (eval t s) n = eval t s i.

Lemma eval_unfold : forall t s i n, wf t -> nth_error (nodes t) i = Some n ->
  eval t s i = eval_node s (eval t s) n.
Proof. intros. apply vals_unfold; auto. Qed.

Lemma eval_true : forall t s, wf t -> base t -> eval t s 0 = true.
Proof. intros t s Hwf [H0 _]. rewrite (eval_unfold t s 0 NTrue); auto. Qed.

Lemma eval_false : forall t s, wf t -> base t -> eval t s 1 = false.
Proof.
  intros t s Hwf [H0 H1]. rewrite (eval_unfold t s 1 (NNegated 0)); auto.
  simpl. rewrite (eval_unfold t s 0 NTrue); auto.
Qed.

Lemma base_size : forall t, base t -> 2 <= size t.
Proof.
  intros t [_ H1]. unfold size.
  assert (1 < length (nodes t)) by (apply nth_error_Some; congruence). lia.
Qed.

Lemma get_node_ok : forall t i n, get_node t i = Ok n -> nth_error (nodes t) i = Some n.
Proof. unfold get_node. intros t i n H. destruct (nth_error (nodes t) i); congruence. Qed.

Lemma get_node_lt : forall t i n, get_node t i = Ok n -> i < size t.
Proof. intros. apply get_node_ok in H. apply nth_error_Some. congruence. Qed.

Lemma alias_target_some : forall t d a, alias_target t d = Ok (Some a) ->
  nth_error (nodes t) d = Some (NAliased a).
Proof.
  unfold alias_target. intros t d a H. inv_ok. apply get_node_ok in Hm.
  destruct a0; try discriminate. injection H as ->. auto.
Qed.

Lemma alias_target_lt : forall t d r, alias_target t d = Ok r -> d < size t.
Proof. unfold alias_target. intros. inv_ok. eapply get_node_lt; eauto. Qed.

(** ** sort + unique *)
Lemma insert_uniq_In : forall x y l, In x (insert_uniq y l) <-> x = y \/ In x l.
Proof.
  induction l as [|z l IH]; simpl.
  - intuition.
  - destruct (y <? z) eqn:E1; simpl; [intuition|].
    destruct (y =? z) eqn:E2; simpl.
    + apply Nat.eqb_eq in E2. subst. intuition.
    + rewrite IH. intuition.
Qed.

Lemma sort_uniq_In : forall x l, In x (sort_uniq l) <-> In x l.
Proof.
  induction l as [|y l IH]; simpl; [tauto|].
  rewrite insert_uniq_In, IH. intuition.
Qed.

Lemma forallb_same : forall (v : nat -> bool) l l',
  (forall x, In x l <-> In x l') -> forallb v l = forallb v l'.
Proof.
  intros v l l' H. apply eq_true_iff_eq. rewrite !forallb_forall.
  split; intros G x Hx; apply G; apply H; auto.
Qed.

Lemma existsb_same : forall (v : nat -> bool) l l',
  (forall x, In x l <-> In x l') -> existsb v l = existsb v l'.
Proof.
  intros v l l' H. apply eq_true_iff_eq. rewrite !existsb_exists.
  split; intros [x [Hx Hv]]; exists x; split; auto; apply H; auto.
Qed.

(** value of a join *)
Definition joinv (o : op) (v : nat -> bool) (l : list nat) : bool :=
  match o with OpAnd => forallb v l | OpOr => existsb v l end.
Definition opb (o : op) (a b : bool) : bool :=
  match o with OpAnd => a && b | OpOr => a || b end.
Definition cst_of (o : op) := match o with OpAnd => false_id | OpOr => true_id end.
Definition ign_of (o : op) := match o with OpAnd => true_id | OpOr => false_id end.
Definition unit_of (o : op) := match o with OpAnd => true | OpOr => false end.

Lemma joinv_app : forall o v a b, joinv o v (a ++ b) = opb o (joinv o v a) (joinv o v b).
Proof. intros [] v a b; simpl; [apply forallb_app | apply existsb_app]. Qed.

Lemma joinv_same : forall o v l l', (forall x, In x l <-> In x l') -> joinv o v l = joinv o v l'.
Proof. intros [] v l l' H; simpl; [apply forallb_same | apply existsb_same]; auto. Qed.

Lemma eval_node_join : forall s v o l, eval_node s v (NJoined o l) = joinv o v l.
Proof. intros s v [] l; reflexivity. Qed.

(** ** NodeSimplifier is sound *)
Section Simplifier.
Variable t : tree.
Variable s : nat -> bool.
Hypothesis Hwf : wf t.
Hypothesis Hbase : base t.
Let v := eval t s.

Lemma alias_value : forall d a, nth_error (nodes t) d = Some (NAliased a) -> v d = v a /\ a < d.
Proof.
  intros d a H. split.
  - unfold v. rewrite (eval_unfold t s d _ Hwf H). reflexivity.
  - apply (Hwf d _ H). simpl; auto.
Qed.

Lemma join_daughters_sound : forall o l acc r,
  join_daughters t (cst_of o) (ign_of o) l acc = Ok r ->
  match r with
  | None => joinv o v l = negb (unit_of o)
  | Some l1 => joinv o v l1 = opb o (joinv o v (rev acc)) (joinv o v l)
  end.
Proof.
  intros o. induction l as [|d l IH]; intros acc r H; simpl in H.
  - injection H as <-. destruct o; simpl; [rewrite andb_true_r | rewrite orb_false_r]; auto.
  - inv_ok. rename a into at_.
    set (d' := match at_ with Some x => x | None => d end) in *.
    assert (Hd : v d = v d').
    { destruct at_ as [x|]; subst d'; auto.
      apply alias_target_some in Hm. apply alias_value in Hm. tauto. }
    destruct (d' =? cst_of o) eqn:E1.
    { injection H as <-. apply Nat.eqb_eq in E1.
      destruct o; simpl in *; rewrite Hd, E1; unfold v.
      - rewrite eval_false; auto.
      - rewrite eval_true; auto. }
    destruct (d' =? ign_of o) eqn:E2.
    { apply Nat.eqb_eq in E2. apply IH in H. destruct r as [l1|].
      - rewrite H. destruct o; simpl in *; rewrite Hd, E2; unfold v.
        + rewrite eval_true; auto.
        + rewrite eval_false; auto.
      - destruct o; simpl in *; rewrite Hd, E2; unfold v.
        + rewrite eval_true; auto.
        + rewrite eval_false; auto. }
    apply IH in H. destruct r as [l1|].
    + rewrite H. simpl rev. rewrite joinv_app.
      destruct o; simpl; rewrite Hd.
      * rewrite andb_true_r, andb_assoc. reflexivity.
      * rewrite orb_false_r, orb_assoc. reflexivity.
    + destruct o; simpl in *; rewrite H.
      * apply andb_false_r.
      * apply orb_true_r.
Qed.

Lemma join_daughters_children : forall m cst ign l acc l1,
  join_daughters t cst ign l acc = Ok (Some l1) ->
  (forall c, In c l -> c < m) -> (forall c, In c acc -> c < m) ->
  forall c, In c l1 -> c < m.
Proof.
  intros m cst ign. induction l as [|d l IH]; intros acc l1 H Hl Hacc c Hc; simpl in H.
  - injection H as <-. apply Hacc. apply in_rev. auto.
  - inv_ok. rename a into at_.
    set (d' := match at_ with Some x => x | None => d end) in *.
    assert (Hd : d' < m).
    { assert (d < m) by (apply Hl; left; auto).
      destruct at_ as [x|]; subst d'; auto.
      apply alias_target_some in Hm. apply alias_value in Hm. lia. }
    destruct (d' =? cst); [discriminate|].
    destruct (d' =? ign).
    + eapply IH; eauto. intros; apply Hl; right; auto.
    + eapply (IH (d' :: acc)); eauto.
      * intros; apply Hl; right; auto.
      * intros c0 [<-|H0]; auto.
Qed.

Theorem simplify_node_value : forall n r,
  simplify_node t n = Ok r ->
  match r with
  | None => True
  | Some n' => eval_node s v n' = eval_node s v n
  end.
Proof.
  intros n r H. destruct n as [| |a|a|x|o l]; simpl in H; try (injection H as <-; exact I).
  - inv_ok. subst r. destruct a0 as [b|]; auto.
    apply alias_target_some in Hm. apply alias_value in Hm. simpl. symmetry; tauto.
  - inv_ok. subst r. apply get_node_ok in Hm.
    pose proof (eval_unfold t s a _ Hwf Hm) as E. fold v in E.
    destruct a0; auto; simpl in *; rewrite E; auto.
    rewrite negb_involutive. auto.
  - inv_ok. rename a into r1.
    pose proof (join_daughters_sound o l [] r1) as J.
    assert (Hc : (match o with OpAnd => false_id | OpOr => true_id end) = cst_of o) by (destruct o; auto).
    assert (Hi : (match o with OpAnd => true_id | OpOr => false_id end) = ign_of o) by (destruct o; auto).
    rewrite Hc, Hi in Hm. specialize (J Hm).
    destruct r1 as [l1|].
    + simpl in J. assert (J' : joinv o v l1 = joinv o v l).
      { rewrite J. destruct o; simpl; auto. }
      assert (JS : joinv o v (sort_uniq l1) = joinv o v l).
      { rewrite <- J'. apply joinv_same. intros; apply sort_uniq_In. }
      destruct (sort_uniq l1) as [|x [|y l2]]; injection H as <-.
      * rewrite eval_node_join, <- JS. rewrite Hi. destruct o; simpl; unfold v.
        -- apply eval_true; auto.
        -- apply eval_false; auto.
      * rewrite eval_node_join, <- JS. destruct o; simpl.
        -- rewrite andb_true_r; auto.
        -- rewrite orb_false_r; auto.
      * rewrite !eval_node_join. auto.
    + injection H as <-. rewrite eval_node_join, J, Hc. destruct o; simpl; unfold v.
      * apply eval_false; auto.
      * apply eval_true; auto.
Qed.

Theorem simplify_node_children : forall m n r,
  simplify_node t n = Ok r -> 2 <= m ->
  (forall c, In c (children n) -> c < m) ->
  match r with
  | None => True
  | Some n' => forall c, In c (children n') -> c < m
  end.
Proof.
  intros m n r H Hm2 Hn. destruct n as [| |a|a|x|o l]; simpl in H; try (injection H as <-; exact I).
  - inv_ok. subst r. destruct a0 as [b|]; auto.
    apply alias_target_some in Hm. apply alias_value in Hm.
    intros c [<-|[]]. assert (a < m) by (apply Hn; simpl; auto). lia.
  - inv_ok. subst r. apply get_node_ok in Hm.
    assert (Ha : a < m) by (apply Hn; simpl; auto).
    destruct a0; auto; simpl; try tauto.
    + intros c [<-|[]]. assert (a0 < a) by (apply (Hwf a _ Hm); simpl; auto). lia.
    + intros c [<-|[]]. assert (a0 < a) by (apply (Hwf a _ Hm); simpl; auto). lia.
  - inv_ok. rename a into r1. destruct r1 as [l1|].
    + assert (B : forall c, In c (sort_uniq l1) -> c < m).
      { intros c Hc. rewrite sort_uniq_In in Hc.
        eapply join_daughters_children; eauto. simpl; tauto. }
      destruct (sort_uniq l1) as [|x [|y l2]]; injection H as <-; simpl.
      * intros c [<-|[]]. destruct o; unfold true_id, false_id; lia.
      * intros c [<-|[]]. apply B. left; auto.
      * intros c Hc. apply B. auto.
    + injection H as <-. simpl. intros c [<-|[]]. destruct o; unfold true_id, false_id; lia.
Qed.

End Simplifier.

(** ** CsgTree::insert *)
Lemma ids_find_In : forall n m i, ids_find n m = Some i -> In (n, i) m.
Proof.
  induction m as [|[k w] m IH]; simpl; intros i H; [discriminate|].
  destruct (node_eqb n k) eqn:E.
  - apply node_eqb_eq in E. injection H as <-. subst. left; auto.
  - right; auto.
Qed.

Lemma valid_children : forall m n, user_node_valid m n = true ->
  (forall a, n <> NAliased a) -> forall c, In c (children n) -> c < m.
Proof.
  intros m n H Hna c Hc. destruct n as [| |a|a|x|o l]; simpl in *; try tauto.
  - exfalso. eapply Hna; eauto.
  - destruct Hc as [<-|[]]. apply Nat.ltb_lt; auto.
  - rewrite forallb_forall in H. apply Nat.ltb_lt. apply H; auto.
Qed.

Lemma wf_snoc : forall ns n, wf_nodes ns -> (forall c, In c (children n) -> c < length ns) ->
  wf_nodes (ns ++ [n]).
Proof.
  intros ns n Hwf Hn i k Hk c Hc.
  destruct (Nat.lt_ge_cases i (length ns)) as [Hi|Hi].
  - rewrite nth_error_app1 in Hk by auto. eapply Hwf; eauto.
  - rewrite nth_error_app2 in Hk by auto.
    destruct (i - length ns) as [|j] eqn:E; simpl in Hk.
    + injection Hk as <-. apply Hn in Hc. lia.
    + destruct j; discriminate.
Qed.

Lemma eval_node_agree : forall s v v' n m,
  (forall c, c < m -> v c = v' c) -> (forall c, In c (children n) -> c < m) ->
  eval_node s v n = eval_node s v' n.
Proof. intros. apply eval_node_ext. intros c Hc. auto. Qed.

Definition is_prefix_tree (t t' : tree) : Prop :=
  exists extra, nodes t' = nodes t ++ extra.

Ltac ins_case H Hids :=
  match type of H with
  | match ids_find ?N ?M with _ => _ end = _ =>
      let Ef := fresh "Ef" in let j := fresh "j" in
      destruct (ids_find N M) as [j|] eqn:Ef;
      [ left; injection H as <- <- <-; apply ids_find_In in Ef;
        split; [reflexivity | split; [exact (proj1 (Hids _ _ Ef)) | intros s Hs; symmetry; apply (Hs _ _ Ef)]]
      | right; injection H as <- <- <-; auto ]
  end.

Theorem insert_sound : forall t n t' i b,
  inv t -> insert t n = Ok (t', i, b) ->
  inv t' /\ is_prefix_tree t t' /\ i < size t' /\ volumes t' = volumes t /\
  forall s, ids_sound t s ->
    ids_sound t' s /\
    (forall k, k < size t -> eval t' s k = eval t s k) /\
    eval t' s i = eval_node s (eval t s) n.
Proof.
  intros t n t' i b [Hwf [Hbase Hids]] H. unfold insert in H. inv_ok.
  rename a0 into r. clear a.
  pose proof (base_size t Hbase) as Hsz.
  (* children of the given node are below size *)
  assert (Hcn : forall c, In c (children n) -> c < size t).
  { destruct n as [| |a|a|x|o l]; try (apply valid_children; auto; congruence).
    simpl in Hm0. inv_ok. apply alias_target_lt in Hm1. simpl. intros c [<-|[]]; auto. }
  set (n' := match r with Some x => x | None => n end) in *.
  assert (Hval : forall s, eval_node s (eval t s) n' = eval_node s (eval t s) n).
  { intros s. pose proof (simplify_node_value t s Hwf Hbase n r Hm0) as V.
    subst n'. destruct r; auto. }
  assert (Hcn' : forall c, In c (children n') -> c < size t).
  { pose proof (simplify_node_children t (fun _ => true) Hwf (size t) n r Hm0 Hsz Hcn) as C.
    subst n'. destruct r; auto. }
  (* the three outcomes *)
  assert (Hcase :
    (t' = t /\ i < size t /\ forall s, ids_sound t s -> eval t s i = eval_node s (eval t s) n') \/
    (ids_find n' (ids t) = None /\ i = size t /\
     t' = mkTree (nodes t ++ [n']) (ids t ++ [(n', size t)]) (volumes t))).
  { subst n'. destruct r as [x|]; cbv beta iota in *.
    - destruct x as [| |a|a|x'|o l]; try ins_case H Hids.
      (* simplified to an alias *)
      left. injection H as <- <- <-. split; auto. split.
      + apply Hcn'. simpl; auto.
      + intros s _. reflexivity.
    - ins_case H Hids. }
  destruct Hcase as [[-> [Hi Hv]]|[Hnf [-> ->]]].
  - split; [exact (conj Hwf (conj Hbase Hids))|]. split; [exists []; rewrite app_nil_r; auto|].
    split; auto. split; auto. intros s Hs. split; auto. split; auto.
    rewrite Hv, Hval; auto.
  - assert (Hwf' : wf_nodes (nodes t ++ [n'])) by (apply wf_snoc; auto).
    split; [|split; [exists [n']; auto|split; [unfold size; simpl; rewrite app_length; simpl; lia|split; auto]]].
    + split; [exact Hwf'|]. split.
      * destruct Hbase as [B0 B1]. unfold base; cbn [nodes].
        rewrite !nth_error_app1 by (unfold size in Hsz; lia). auto.
      * intros k j Hin. simpl in Hin. unfold size; simpl. rewrite app_length; simpl.
        apply in_app_or in Hin. destruct Hin as [Hin|[Hin|[]]].
        -- destruct (Hids _ _ Hin) as [A B]. unfold size in *. split; [lia|].
           intros c Hc. specialize (B c Hc). lia.
        -- injection Hin as <- <-. unfold size in *. split; [lia|].
           intros c Hc. specialize (Hcn' c Hc). lia.
    + intros s Hs.
      assert (Hold : forall k, k < size t ->
                eval (mkTree (nodes t ++ [n']) (ids t ++ [(n', size t)]) (volumes t)) s k = eval t s k).
      { intros k Hk. unfold eval; simpl. apply vals_app_lt; auto. }
      assert (Hnew : eval (mkTree (nodes t ++ [n']) (ids t ++ [(n', size t)]) (volumes t)) s (size t)
                     = eval_node s (eval t s) n').
      { unfold eval at 1; simpl. unfold size. apply vals_snoc. }
      split; [|split; auto; rewrite Hnew; auto].
      intros k j Hin. simpl in Hin. apply in_app_or in Hin. destruct Hin as [Hin|[Hin|[]]].
      * destruct (Hids _ _ Hin) as [A B]. rewrite Hold by auto.
        rewrite <- (Hs _ _ Hin). apply eval_node_agree with (m := size t); auto.
      * injection Hin as <- <-. rewrite Hnew.
        apply eval_node_agree with (m := size t); auto.
Qed.

(** ** CsgTree::exchange *)
Lemma set_nth_length : forall {A} (l : list A) i x, length (set_nth l i x) = length l.
Proof. induction l as [|y l IH]; intros [|i] x; simpl; auto. Qed.

Lemma set_nth_eq : forall {A} (l : list A) i x, i < length l -> nth_error (set_nth l i x) i = Some x.
Proof.
  induction l as [|y l IH]; intros [|i] x H; simpl in *; try lia; auto.
  apply IH. lia.
Qed.

Lemma set_nth_neq : forall {A} (l : list A) i k x, k <> i -> nth_error (set_nth l i x) k = nth_error l k.
Proof.
  induction l as [|y l IH]; intros [|i] [|k] x H; simpl; auto; try lia.
Qed.

Lemma set_nth_cases : forall {A} (l : list A) i k x y,
  nth_error (set_nth l i x) k = Some y -> (k = i /\ y = x) \/ (k <> i /\ nth_error l k = Some y).
Proof.
  intros A l i k x y H. destruct (Nat.eq_dec k i) as [->|Hne].
  - left. split; auto.
    assert (i < length l).
    { rewrite <- (set_nth_length l i x). apply nth_error_Some. congruence. }
    rewrite set_nth_eq in H by auto. congruence.
  - right. rewrite set_nth_neq in H by auto. auto.
Qed.

(** a tree with the same number of nodes, all of whose nodes satisfy the
    evaluation equation for the OLD value function, has the old values *)
Lemma same_values : forall s ns ns' ,
  length ns' = length ns -> wf_nodes ns' ->
  (forall k n, nth_error ns' k = Some n -> vals s ns k = eval_node s (vals s ns) n) ->
  forall k, vals s ns' k = vals s ns k.
Proof.
  intros s ns ns' Hlen Hwf Heq k.
  destruct (Nat.lt_ge_cases k (length ns')) as [Hk|Hk].
  - symmetry. apply vals_unique; auto.
  - rewrite !vals_ge; auto; lia.
Qed.

Lemma ids_set_In : forall n v m k j, In (k, j) (ids_set n v m) -> In (k, j) m \/ (k = n /\ j = v).
Proof.
  induction m as [|[k0 w] m IH]; simpl; intros k j H; [tauto|].
  destruct (node_eqb n k0) eqn:E.
  - apply node_eqb_eq in E. subst. destruct H as [H|H].
    + injection H as <- <-. auto.
    + auto.
  - destruct H as [H|H]; auto. apply IH in H. tauto.
Qed.

Lemma exchange_chk : forall t i n r, exchange true t i n = Ok r -> exchange false t i n = Ok r.
Proof.
  unfold exchange. intros t i n r H.
  destruct (expect (false_id <? i)); simpl in *; try discriminate.
  destruct (expect (user_node_valid i n)); simpl in *; try discriminate.
  destruct (simplify_node t n) as [r0| | |]; simpl in *; try discriminate.
  destruct (get_node t i) as [old| | |]; simpl in *; try discriminate.
  destruct (match r0 with Some x => x | None => n end); auto;
  destruct (ids_find _ (ids t)) as [j|]; auto;
  destruct (j =? i); auto; destruct (i <? j); auto;
  destruct (get_node t j) as [hi| | |]; simpl in *; try discriminate;
  destruct (children_ltb i hi); simpl in *; try discriminate; auto.
Qed.

Definition exchange_result (chk : bool) (t : tree) (i : nat) (t' : tree) (n1 : node) : Prop :=
    ( (* direct replacement (alias result, or representation not yet known) *)
      (nodes t' = set_nth (nodes t) i n1 /\ (ids t' = ids t \/ ids t' = ids t ++ [(n1, i)]))
      \/ (* unchanged *)
      (t' = t /\ In (n1, i) (ids t))
      \/ (* alias to a lower equivalent node *)
      (exists j, j < i /\ In (n1, j) (ids t) /\ nodes t' = set_nth (nodes t) i (NAliased j) /\ ids t' = ids t)
      \/ (* swap with a higher equivalent node *)
      (exists j hi, i < j /\ In (n1, j) (ids t) /\ nth_error (nodes t) j = Some hi /\
         (chk = true -> forall c, In c (children hi) -> c < i) /\
         nodes t' = set_nth (set_nth (nodes t) i hi) j (NAliased i) /\
         ids t' = ids_set n1 i (ids t)) )
    /\ volumes t' = volumes t.

Section Exchange.
Variable chk : bool.
Variable t : tree.
Variable i : nat.
Variable n : node.
Variable t' : tree.
Variable old : node.
Hypothesis Hinv : inv t.
Hypothesis Hex : exchange chk t i n = Ok (t', old).
Hypothesis Hchildren : forall c, In c (children n) -> c < i.

(** shape of the result *)
Lemma exchange_shape :
  exists n1, 1 < i /\ i < size t /\
    (forall s, eval_node s (eval t s) n1 = eval_node s (eval t s) n) /\
    (forall c, In c (children n1) -> c < i) /\
    exchange_result chk t i t' n1.
Proof.
  destruct Hinv as [Hwf [Hbase Hids]].
  pose proof Hex as G0. unfold exchange in G0. inv_ok. rename a1 into r. rename a2 into old0.
  apply Nat.ltb_lt in Hm. unfold false_id in Hm.
  pose proof (get_node_lt _ _ _ Hm2) as Hi.
  set (n1 := match r with Some x => x | None => n end) in *.
  exists n1. split; auto. split; auto.
  assert (Hv : forall s, eval_node s (eval t s) n1 = eval_node s (eval t s) n).
  { intros s. pose proof (simplify_node_value t s Hwf Hbase n r Hm1). subst n1. destruct r; auto. }
  assert (Hc : forall c, In c (children n1) -> c < i).
  { pose proof (simplify_node_children t (fun _ => true) Hwf i n r Hm1 ltac:(lia) Hchildren).
    subst n1. destruct r; auto. }
  split; auto. split; auto.
  assert (Hgen : forall (Hna : forall a, n1 <> NAliased a),
     match ids_find n1 (ids t) with
     | None => Ok (mkTree (set_nth (nodes t) i n1) (ids t ++ [(n1, i)]) (volumes t), old0)
     | Some j =>
         if j =? i then Ok (t, old0)
         else if i <? j then
           hi <- get_node t j ;;
           _ <- expect (negb chk || children_ltb i hi) ;;
           Ok (mkTree (set_nth (set_nth (nodes t) i hi) j (NAliased i)) (ids_set n1 i (ids t)) (volumes t), old0)
         else Ok (set_node t i (NAliased j), old0)
     end = Ok (t', old) -> exchange_result chk t i t' n1).
  2:{ destruct n1 as [| |a9|a9|x9|o9 l9] eqn:En1;
      try (apply Hgen in G0; [exact G0 | congruence]).
      injection G0 as <- <-. split; auto. }
  intros Hna G.
  destruct (ids_find n1 (ids t)) as [j|] eqn:Ef.
  - apply ids_find_In in Ef. destruct (j =? i) eqn:Eji.
    + apply Nat.eqb_eq in Eji. subst j. injection G as <- <-. split; auto.
    + apply Nat.eqb_neq in Eji. destruct (i <? j) eqn:Eij.
      * apply Nat.ltb_lt in Eij. inv_ok. subst t'. split; auto.
        right. right. right.
        match goal with Hg : get_node t j = Ok ?h |- _ => exists j, h; apply get_node_ok in Hg end.
        match goal with He : negb chk || children_ltb i _ = true |- _ => rename He into Hck end.
        repeat split; auto.
        intros -> c Hcc. simpl in Hck. unfold children_ltb in Hck.
        rewrite forallb_forall in Hck. apply Nat.ltb_lt. auto.
      * apply Nat.ltb_ge in Eij. injection G as <- <-. split; auto.
        right. right. left. exists j. repeat split; auto. lia.
  - injection G as <- <-. split; auto.
Qed.

(** topological order is kept in every branch except possibly the swap *)
Lemma exchange_inv : chk = true -> inv t'.
Proof.
  intros Hchk. destruct exchange_shape as [n1 [H1 [Hi [Hv [Hc [Hshape Hvol]]]]]].
  destruct Hinv as [Hwf [Hbase Hids]]. unfold size in *.
  assert (Hset : forall nd, (forall c, In c (children nd) -> c < i) ->
                 wf_nodes (set_nth (nodes t) i nd)).
  { intros nd Hnd k m Hk c Hcm. apply set_nth_cases in Hk. destruct Hk as [[-> ->]|[Hne Hk]]; auto.
    eapply Hwf; eauto. }
  assert (Hbase_set : forall ns, length ns = length (nodes t) ->
            nth_error ns 0 = nth_error (nodes t) 0 -> nth_error ns 1 = nth_error (nodes t) 1 ->
            forall t2, nodes t2 = ns -> base t2).
  { intros ns _ E0 E1 t2 <-. destruct Hbase. split; congruence. }
  destruct Hshape as [[Hn Hid]|[[-> Hin]|[[j [Hj [Hin [Hn Hid]]]]|[j [hi [Hj [Hin [Hhi [Hck [Hn Hid]]]]]]]]]].
  - split; [unfold wf; rewrite Hn; auto|]. split.
    + apply (Hbase_set (nodes t')); auto; rewrite Hn; [apply set_nth_length| |];
        apply set_nth_neq; lia.
    + intros m k Hin. unfold size. rewrite Hn, set_nth_length.
      destruct Hid as [Hid|Hid]; rewrite Hid in Hin.
      * apply Hids; auto.
      * apply in_app_or in Hin. destruct Hin as [Hin|[Hin|[]]]; [apply Hids; auto|].
        injection Hin as <- <-. split; auto. intros c Hcc. apply Hc in Hcc. lia.
  - exact (conj Hwf (conj Hbase Hids)).
  - split; [unfold wf; rewrite Hn; apply Hset; simpl; intros c [<-|[]]; auto|]. split.
    + apply (Hbase_set (nodes t')); auto; rewrite Hn; [apply set_nth_length| |];
        apply set_nth_neq; lia.
    + intros m k Hin'. unfold size. rewrite Hn, set_nth_length. rewrite Hid in Hin'. apply Hids; auto.
  - split.
    + unfold wf. rewrite Hn. intros k m Hk c Hcm.
      apply set_nth_cases in Hk. destruct Hk as [[-> ->]|[Hne Hk]].
      * simpl in Hcm. destruct Hcm as [<-|[]]. auto.
      * apply (Hset hi (Hck Hchk) k m Hk c Hcm).
    + split.
      * apply (Hbase_set (nodes t')); auto; rewrite Hn; rewrite ?set_nth_length; auto;
          rewrite !set_nth_neq by lia; auto.
      * intros m k Hin'. unfold size. rewrite Hn, !set_nth_length. rewrite Hid in Hin'.
        apply ids_set_In in Hin'. destruct Hin' as [Hin'|[-> ->]]; [apply Hids; auto|].
        split; auto. apply (Hids _ _ Hin).
Qed.

(** values are kept for every assignment under which the exchange is
    justified, provided the result is still topologically sorted *)
Lemma exchange_values : forall s,
  wf t' -> ids_sound t s -> eval_node s (eval t s) n = eval t s i ->
  size t' = size t /\ (forall k, eval t' s k = eval t s k) /\ ids_sound t' s.
Proof.
  intros s Hwf' Hs Hpre.
  destruct exchange_shape as [n1 [H1 [Hi [Hv [Hc [Hshape Hvol]]]]]].
  destruct Hinv as [Hwf [Hbase Hids]].
  assert (Hn1 : eval_node s (eval t s) n1 = eval t s i) by (rewrite Hv; auto).
  assert (Hold : forall k m, nth_error (nodes t) k = Some m -> eval t s k = eval_node s (eval t s) m).
  { intros. apply eval_unfold; auto. }
  assert (Hfinish : length (nodes t') = length (nodes t) ->
            (forall k m, nth_error (nodes t') k = Some m -> eval t s k = eval_node s (eval t s) m) ->
            (forall m k, In (m, k) (ids t') -> In (m, k) (ids t) \/ (m = n1 /\ k = i)) ->
            size t' = size t /\ (forall k, eval t' s k = eval t s k) /\ ids_sound t' s).
  { intros Hlen Heq Hidin.
    assert (Hsame : forall k, eval t' s k = eval t s k).
    { intros k. apply same_values; auto. }
    split; [exact Hlen|]. split; auto.
    intros m k Hin. rewrite Hsame.
    rewrite (eval_node_ext s (eval t' s) (eval t s)) by (intros; apply Hsame).
    destruct (Hidin _ _ Hin) as [Hin'|[-> ->]]; auto. }
  destruct Hshape as [[Hn Hid]|[[-> Hin]|[[j [Hj [Hin [Hn Hid]]]]|[j [hi [Hj [Hin [Hhi [Hck [Hn Hid]]]]]]]]]].
  - apply Hfinish.
    + rewrite Hn. apply set_nth_length.
    + intros k m Hk. rewrite Hn in Hk. apply set_nth_cases in Hk.
      destruct Hk as [[-> ->]|[Hne Hk]]; auto.
    + intros m k Hin. destruct Hid as [Hid|Hid]; rewrite Hid in Hin; auto.
      apply in_app_or in Hin. destruct Hin as [Hin|[Hin|[]]]; auto.
      injection Hin as <- <-. auto.
  - split; auto.
  - apply Hfinish.
    + rewrite Hn. apply set_nth_length.
    + intros k m Hk. rewrite Hn in Hk. apply set_nth_cases in Hk.
      destruct Hk as [[-> ->]|[Hne Hk]]; auto.
      simpl. rewrite <- (Hs _ _ Hin). auto.
    + intros m k Hin'. rewrite Hid in Hin'. auto.
  - apply Hfinish.
    + rewrite Hn. rewrite !set_nth_length. auto.
    + intros k m Hk. rewrite Hn in Hk. apply set_nth_cases in Hk.
      destruct Hk as [[-> ->]|[Hne Hk]].
      * simpl. rewrite <- (Hs _ _ Hin). auto.
      * apply set_nth_cases in Hk. destruct Hk as [[-> ->]|[Hne' Hk]]; auto.
        rewrite <- (Hold j hi Hhi). rewrite <- (Hs _ _ Hin). auto.
    + intros m k Hin'. rewrite Hid in Hin'. apply ids_set_In in Hin'. auto.
Qed.

End Exchange.

(** [exchange] packaged: with the topological check on, invariants and values are kept *)
Theorem exchange_sound : forall t i n t' old,
  inv t -> exchange true t i n = Ok (t', old) ->
  (forall c, In c (children n) -> c < i) ->
  inv t' /\ size t' = size t /\ volumes t' = volumes t /\
  exchange false t i n = Ok (t', old) /\
  forall s, ids_sound t s -> eval_node s (eval t s) n = eval t s i ->
    ids_sound t' s /\ forall k, eval t' s k = eval t s k.
Proof.
  intros t i n t' old Hinv Hex Hc.
  pose proof (exchange_inv true t i n t' old Hinv Hex Hc eq_refl) as Hinv'.
  destruct (exchange_shape true t i n t' old Hinv Hex Hc) as [n1 [_ [_ [_ [_ [Hshape Hvol]]]]]].
  assert (Hsz : size t' = size t).
  { unfold size.
    destruct Hshape as [[Hn _]|[[-> _]|[[j [_ [_ [Hn _]]]]|[j [hi [_ [_ [_ [_ [Hn _]]]]]]]]]]; auto;
      rewrite Hn, ?set_nth_length; auto. }
  split; auto. split; auto. split; auto. split; [apply exchange_chk; auto|].
  intros s Hs Hpre.
  destruct (exchange_values true t i n t' old Hinv Hex Hc s (proj1 Hinv') Hs Hpre) as [_ [A B]].
  auto.
Qed.

(** ** CsgTree::simplify(NodeId) *)
Theorem simplify_one_sound : forall t i t' r,
  inv t -> simplify_one true t i = Ok (t', r) ->
  inv t' /\ size t' = size t /\ volumes t' = volumes t /\
  simplify_one false t i = Ok (t', r) /\
  forall s, ids_sound t s -> ids_sound t' s /\ forall k, eval t' s k = eval t s k.
Proof.
  intros t i t' r Hinv H. unfold simplify_one in H. inv_ok.
  destruct a0 as [t1 old]. inv_ok. subst t1.
  pose proof (get_node_ok _ _ _ Hm) as Hn.
  assert (Hc : forall c, In c (children a) -> c < i) by (apply (proj1 Hinv i a Hn)).
  destruct (exchange_sound t i a t' old Hinv Hm0 Hc) as [I [S [V [F Hs]]]].
  split; auto. split; auto. split; auto. split.
  - unfold simplify_one. rewrite Hm. cbn [bind]. rewrite F. cbn [bind]. rewrite Hm1. cbn [bind].
    congruence.
  - intros s Hids. apply Hs; auto. symmetry. apply eval_unfold; auto. apply Hinv.
Qed.

(** ** Boolean checkers for the invariants (used for concrete witnesses) *)
Fixpoint wf_from (i : nat) (ns : list node) : bool :=
  match ns with
  | [] => true
  | n :: r => children_ltb i n && wf_from (S i) r
  end.

Lemma wf_from_sound : forall ns i, wf_from i ns = true ->
  forall k n, nth_error ns k = Some n -> forall c, In c (children n) -> c < i + k.
Proof.
  induction ns as [|m ns IH]; intros i H k n Hk c Hc; [destruct k; discriminate|].
  simpl in H. apply andb_true_iff in H. destruct H as [H1 H2].
  destruct k as [|k]; simpl in Hk.
  - injection Hk as <-. unfold children_ltb in H1. rewrite forallb_forall in H1.
    specialize (H1 c Hc). apply Nat.ltb_lt in H1. lia.
  - specialize (IH (S i) H2 k n Hk c Hc). lia.
Qed.

Definition inv_b (t : tree) : bool :=
  wf_from 0 (nodes t)
  && match nodes t with NTrue :: NNegated 0 :: _ => true | _ => false end
  && forallb (fun p => (snd p <? size t) && children_ltb (size t) (fst p)) (ids t).

Lemma inv_b_sound : forall t, inv_b t = true -> inv t.
Proof.
  intros t H. unfold inv_b in H. apply andb_true_iff in H. destruct H as [H H3].
  apply andb_true_iff in H. destruct H as [H1 H2].
  split; [|split].
  - intros k n Hk c Hc. apply (wf_from_sound _ 0 H1 k n Hk c Hc).
  - destruct (nodes t) as [|[] [|[] l]] eqn:E; try discriminate.
    destruct a; try discriminate. unfold base. rewrite E. auto.
  - intros n i Hin. rewrite forallb_forall in H3. specialize (H3 _ Hin). simpl in H3.
    apply andb_true_iff in H3. destruct H3 as [A B]. apply Nat.ltb_lt in A. split; auto.
    intros c Hc. unfold children_ltb in B. rewrite forallb_forall in B. apply Nat.ltb_lt. auto.
Qed.

Definition ids_sound_b (t : tree) (s : nat -> bool) : bool :=
  forallb (fun p => Bool.eqb (eval_node s (eval t s) (fst p)) (eval t s (snd p))) (ids t).

Lemma ids_sound_b_sound : forall t s, ids_sound_b t s = true -> ids_sound t s.
Proof.
  intros t s H n i Hin. unfold ids_sound_b in H. rewrite forallb_forall in H.
  specialize (H _ Hin). simpl in H. apply eqb_prop in H. auto.
Qed.

