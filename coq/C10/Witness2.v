(** * C10: satisfiability examples for the round-3 theorems (all by [vm_compute]) *)
From Coq Require Import List Arith Bool NArith ZArith Lia.
From Celer Require Import C10.Csg C10.CsgProofs C10.Logic C10.LogicProofs C10.DeMorgan C10.Run
  C10.Witness C10.InfixProofs C10.DeMorganNJ C10.Sense C10.SenseProofs.
Import ListNotations.

(** ** infix: [any{ all{+0, -1}, +2, all{+0, +2} }] -- nested groups, a negated face *)
Definition ix_ops : list opc :=
  [OInsert (NSurface 0); OInsert (NSurface 1); OInsert (NNegated 3);
   OInsert (NJoined OpAnd [2; 4]);          (* 5 *)
   OInsert (NSurface 2);                    (* 6 *)
   OInsert (NJoined OpAnd [2; 6]);          (* 7 *)
   OInsert (NJoined OpOr [5; 6; 7])].       (* 8 *)
Definition ix_tree : tree :=
  match tree_after empty_tree ix_ops with Ok t => t | _ => empty_tree end.

Example ex_ix_wf : wf ix_tree.
Proof. apply inv_b_sound. vm_compute. reflexivity. Qed.

Example ex_build_infix :
  build_infix (S (size ix_tree)) ix_tree 8 =
  Ok [TOpen; TOpen; TFace 0; TAnd; TNot; TFace 1; TClose; TOr; TFace 2; TOr;
      TOpen; TFace 0; TAnd; TFace 2; TClose; TClose].
Proof. vm_compute. reflexivity. Qed.

(** the evaluator really short-circuits on it (sense 0 true, 1 false: the
    first group is true, the rest of the outer group is skipped) and really
    evaluates the rest (all false) *)
Example ex_infix_eval :
  forall l, build_infix (S (size ix_tree)) ix_tree 8 = Ok l ->
  infix_evaluate l (fun f => f =? 0) = Ok true /\ infix_evaluate l (fun _ => false) = Ok false.
Proof. intros l H. vm_compute in H. injection H as <-. split; vm_compute; reflexivity. Qed.

(** a top-level sequence without the outer parentheses is in [iseq] *)
Example ex_iseq : forall s, iseq s OpOr [TFace 0; TOr; TNot; TFace 1; TOr; TTrue]
                                   (opb OpOr (s 0) (opb OpOr (negb (s 1)) true)).
Proof.
  intros s. apply (is_cons s OpOr [TFace 0]); [constructor|].
  apply (is_cons s OpOr [TNot; TFace 1]); [constructor|]. apply is_one. constructor.
Qed.

(** ** De Morgan: the input [ex_tree] (node 6 = not{all{+0, -1}}, a volume) has a
    negated join, the simplifier runs to completion on it *)
Example ex_demorgan_input_has_negated_join : ~ no_negated_join ex_tree.
Proof.
  intros [_ H]. destruct (H 6 5 eq_refl) as [_ G]. apply (G OpAnd [2; 4]). reflexivity.
Qed.

Example ex_demorgan_output : exists t' tr,
  demorgan_full ex_tree = Ok (t', tr) /\
  nodes t' = [NTrue; NNegated 0; NSurface 0; NNegated 2; NSurface 1; NJoined OpOr [3; 4]] /\
  volumes t' = [5].
Proof. eexists. eexists. split; [vm_compute; reflexivity|]. split; reflexivity. Qed.

(** ** SenseEvaluator on [ix_tree]: hypotheses satisfiable, short circuit taken *)
Example ex_sense_hyp : joins_nonempty ix_tree.
Proof.
  assert (E : nodes ix_tree = [NTrue; NNegated 0; NSurface 0; NSurface 1; NNegated 3;
                               NJoined OpAnd [2; 4]; NSurface 2; NJoined OpAnd [2; 6];
                               NJoined OpOr [5; 6; 7]]) by (vm_compute; reflexivity).
  intros i o. rewrite E. do 9 (destruct i as [|i]; [simpl; discriminate|]). destruct i; discriminate.
Qed.

Example ex_sense_eval :
  sense_eval_bool ix_tree (fun f => f =? 0) 8 = Ok true /\
  sense_eval_bool ix_tree (fun _ => false) 8 = Ok false.
Proof. split; vm_compute; reflexivity. Qed.

(** ** infix string of [ex_tree] node 6 = not{all{+0, -1}}: "!all(+0, -1)" *)
Example ex_infix_string :
  build_infix_string (S (size ex_tree)) ex_tree 6 = Ok [SBang; SAll; SPlus 0; SSep; SMinus 1; SClose] /\
  infix_string_value (fun x => x =? 0) [SBang; SAll; SPlus 0; SSep; SMinus 1; SClose] = Some false.
Proof. split; vm_compute; reflexivity. Qed.
