(** * C10: refutation witness R3 -- [replace_and_simplify] ALONE (no user-level
    [exchange]) loses the topological order.

    The tree is built by [insert] / [insert_volume] only; a first
    [replace_and_simplify(5, True)] replaces the join 5 = any{2,3} by a constant
    (final "replace nonliterals" loop) but leaves its hash-cons entry
    [any{2,3} -> 5]; the second [replace_and_simplify(7, False)] then
      - aliases 8 = any{2,3,7} to node 5 (itself an alias of [true]: a chain),
      - simplifies 9 = all{4,6,8} to all{4,5,6} (one-step alias resolution),
      - finds that representation recorded for the HIGHER node 11, whose current
        definition is the alias [->{10}] (it was simplified to all{4,6} = node 10
        during the first call), and
      - [exchange]'s swap-to-lower branch moves that definition down:
        [9: ->{10}] -- a forward reference.
    Replayed on the real code by props/C10/run.py (corpus "@R3"). *)
From Coq Require Import List Arith Bool Lia.
From Celer Require Import C10.Csg C10.CsgProofs C10.Logic C10.DeMorgan C10.Run C10.Witness.
Import ListNotations.

Definition r3_ops : list opc :=
  [OInsert (NSurface 0); OInsert (NSurface 1); OInsert (NSurface 2);
   OInsert (NJoined OpOr [2; 3]);                  (* 5 *)
   OInsert (NSurface 3); OInsert (NSurface 4);     (* 6, 7 *)
   OInsert (NJoined OpOr [2; 3; 7]);               (* 8 *)
   OInsert (NJoined OpAnd [4; 6; 8]);              (* 9 *)
   OInsert (NJoined OpAnd [4; 6]);                 (* 10 *)
   OInsert (NJoined OpAnd [4; 5; 6]);              (* 11 *)
   OVolume 9;
   OReplace 5 true].
Definition r3_tree : tree :=
  match tree_after empty_tree r3_ops with Ok t => t | _ => empty_tree end.

(** only insert / insert_volume / replace_and_simplify are used *)
Definition production_op (o : opc) : bool :=
  match o with OInsert _ | OVolume _ | OReplace _ _ => true | _ => false end.

Lemma replace_topo_refuted_w :
  exists t t' unk,
    forallb production_op r3_ops = true /\
    tree_after empty_tree r3_ops = Ok t /\
    inv t /\
    (exists s, ids_sound t s /\ eval t s 7 = false) /\
    replace_and_simplify false (rs_fuel t) t 7 false = Ok (t', unk) /\
    nth_error (nodes t') 9 = Some (NAliased 10) /\
    ~ wf t' /\
    replace_and_simplify true (rs_fuel t) t 7 false = Assert.
Proof.
  exists r3_tree. eexists. eexists.
  split; [reflexivity|].
  split; [vm_compute; reflexivity|].
  split; [apply inv_b_sound; vm_compute; reflexivity|].
  split.
  { exists (fun x => x =? 0). split; [apply ids_sound_b_sound; vm_compute; reflexivity|].
    vm_compute; reflexivity. }
  split; [vm_compute; reflexivity|].
  split; [vm_compute; reflexivity|].
  split; [|vm_compute; reflexivity].
  intros Hwf. specialize (Hwf 9 (NAliased 10) eq_refl 10). simpl in Hwf.
  assert (10 < 9) by (apply Hwf; auto). lia.
Qed.
