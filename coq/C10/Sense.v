(** * C10: executable model of orangeinp/detail/SenseEvaluator.{hh,cc}
    (recursive evaluation of a CSG node at a point, with short circuit) and a
    reference parser/evaluator for the infix STRING of InfixStringBuilder.
    No proofs in this file. *)
From Coq Require Import List Arith Bool.
From Celer Require Import C10.Csg C10.Logic.
Import ListNotations.

(** [SignedSense] : inside = -1, on = 0, outside = 1 *)
Inductive ssense := SIn | SOn | SOut.

(** [flip_sense] : negate the underlying integer *)
Definition flip_ssense (x : ssense) : ssense :=
  match x with SIn => SOut | SOn => SOn | SOut => SIn end.

Definition ssense_eqb (a b : ssense) : bool :=
  match a, b with SIn, SIn | SOn, SOn | SOut, SOut => true | _, _ => false end.

(** the loop of [operator()(Joined const&)]: [result] starts value-initialised
    ([SignedSense{}] = 0 = on); stop at the first daughter whose sense is not [maybe] *)
Fixpoint sense_join (f : nat -> res ssense) (maybe : ssense) (ds : list nat) (result : ssense)
  : res ssense :=
  match ds with
  | [] => Ok result
  | d :: r =>
      x <- f d ;;
      if negb (ssense_eqb x maybe) then Ok x else sense_join f maybe r x
  end.

(** [SenseEvaluator::operator()(NodeId)]; [sf x] = flip_sense(surfaces_[x].calc_sense(pos)),
    [Assert] when [x >= surfaces_.size()] (CELER_EXPECT) *)
Fixpoint sense_eval (fuel : nat) (t : tree) (sf : nat -> res ssense) (n : nat) : res ssense :=
  match fuel with
  | 0 => Fuel
  | S fuel' =>
      nd <- get_node t n ;;
      match nd with
      | NTrue => Ok SIn
      | NFalse => Ok SOut
      | NSurface x => sf x
      | NAliased a => sense_eval fuel' t sf a
      | NNegated a => x <- sense_eval fuel' t sf a ;; Ok (flip_ssense x)
      | NJoined o ds =>
          sense_join (sense_eval fuel' t sf)
                     (match o with OpAnd => SIn | OpOr => SOut end) ds SOn
      end
  end.

(** the check's use: a point off every surface; [true] = inside *)
Definition ssense_of_bool (b : bool) : ssense := if b then SIn else SOut.
Definition sense_eval_bool (t : tree) (s : nat -> bool) (n : nat) : res bool :=
  _ <- expect (n <? size t) ;;
  x <- sense_eval (S (size t)) t (fun k => Ok (ssense_of_bool (s k))) n ;;
  Ok (ssense_eqb x SIn).

(** ** Reference semantics of the infix string (tokens of InfixStringBuilder):
    expr ::= T | F | +n | -n | ! expr | all( expr {, expr} ) | any( expr {, expr} ) *)
Definition opb_ (o : op) (a b : bool) : bool :=
  match o with OpAnd => a && b | OpOr => a || b end.

Fixpoint sargs (p : list stok -> option (bool * list stok)) (o : op) (fuel : nat)
         (l : list stok) (acc : bool) : option (bool * list stok) :=
  match fuel with
  | 0 => None
  | S k =>
      match p l with
      | Some (b, SSep :: r) => sargs p o k r (opb_ o acc b)
      | Some (b, SClose :: r) => Some (opb_ o acc b, r)
      | _ => None
      end
  end.

Fixpoint sparse (s : nat -> bool) (fuel : nat) (l : list stok) : option (bool * list stok) :=
  match fuel with
  | 0 => None
  | S f =>
      match l with
      | ST :: r => Some (true, r)
      | SF :: r => Some (false, r)
      | SPlus x :: r => Some (s x, r)
      | SMinus x :: r => Some (negb (s x), r)
      | SBang :: r => match sparse s f r with Some (b, r') => Some (negb b, r') | None => None end
      | SAll :: r => sargs (sparse s f) OpAnd f r true
      | SAny :: r => sargs (sparse s f) OpOr f r false
      | _ => None
      end
  end.

(** value of a complete string *)
Definition infix_string_value (s : nat -> bool) (l : list stok) : option bool :=
  match sparse s (S (length l)) l with
  | Some (b, []) => Some b
  | _ => None
  end.
