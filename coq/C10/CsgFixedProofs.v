(** * C10: soundness of CsgTree::exchange (as repaired in /repo d70f3c2, model
    CsgFixed.v) and of replace_and_simplify / simplify built on it: the
    theorems hold for the functions themselves -- no extra check, no
    hypothesis "the check passes" (compare ReplaceProofs.v, which is about
    the code BEFORE the repair). *)
From Coq Require Import List Arith Bool Lia.
From Celer Require Import C10.Csg C10.CsgProofs C10.ReplaceProofs C10.CsgFixed.
Import ListNotations.

(** the repaired function either behaves like the checked model function, or
    takes the new branch *)
Lemma exchange_fx_cases : forall t i n t' old,
  exchange_fx t i n = Ok (t', old) ->
  exchange true t i n = Ok (t', old) \/
  exists r0 j hi,
    let n1 := match r0 with Some x => x | None => n end in
    simplify_node t n = Ok r0 /\ 1 < i /\ i < j /\
    In (n1, j) (ids t) /\ nth_error (nodes t) j = Some hi /\ nth_error (nodes t) i = Some old /\
    t' = mkTree (set_nth (set_nth (nodes t) i n1) j (NAliased i)) (ids_set n1 i (ids t)) (volumes t).
Proof.
  intros t i n t' old H. unfold exchange_fx in H. unfold exchange.
  destruct (expect (false_id <? i)) eqn:E1; simpl in *; try discriminate.
  destruct (expect (user_node_valid i n)) eqn:E2; simpl in *; try discriminate.
  destruct (simplify_node t n) as [r0| | |] eqn:E3; simpl in *; try discriminate.
  destruct (get_node t i) as [old0| | |] eqn:E4; simpl in *; try discriminate.
  apply expect_ok in E1. apply Nat.ltb_lt in E1. unfold false_id in E1.
  set (n1 := match r0 with Some x => x | None => n end) in *.
  assert (G : forall (Hna : forall a, n1 <> NAliased a),
    match ids_find n1 (ids t) with
    | Some j =>
        if j =? i then Ok (t, old0)
        else if i <? j
          then hi <- get_node t j;;
               (if children_ltb i hi
                then Ok ({| nodes := set_nth (set_nth (nodes t) i hi) j (NAliased i);
                            ids := ids_set n1 i (ids t); volumes := volumes t |}, old0)
                else Ok ({| nodes := set_nth (set_nth (nodes t) i n1) j (NAliased i);
                            ids := ids_set n1 i (ids t); volumes := volumes t |}, old0))
          else Ok (set_node t i (NAliased j), old0)
    | None => Ok ({| nodes := set_nth (nodes t) i n1; ids := ids t ++ [(n1, i)]; volumes := volumes t |}, old0)
    end = Ok (t', old) ->
    match ids_find n1 (ids t) with
    | Some j =>
        if j =? i then Ok (t, old0)
        else if i <? j
          then hi <- get_node t j;;
               _ <- expect (negb true || children_ltb i hi);;
               Ok ({| nodes := set_nth (set_nth (nodes t) i hi) j (NAliased i);
                      ids := ids_set n1 i (ids t); volumes := volumes t |}, old0)
          else Ok (set_node t i (NAliased j), old0)
    | None => Ok ({| nodes := set_nth (nodes t) i n1; ids := ids t ++ [(n1, i)]; volumes := volumes t |}, old0)
    end = Ok (t', old) \/
    exists r1 j hi,
      Ok r0 = Ok r1 /\ 1 < i /\ i < j /\
      In (match r1 with Some x => x | None => n end, j) (ids t) /\
      nth_error (nodes t) j = Some hi /\ nth_error (nodes t) i = Some old /\
      t' = mkTree (set_nth (set_nth (nodes t) i (match r1 with Some x => x | None => n end)) j (NAliased i))
                  (ids_set (match r1 with Some x => x | None => n end) i (ids t)) (volumes t)).
  { intros Hna G. destruct (ids_find n1 (ids t)) as [j|] eqn:Ef; auto.
    destruct (j =? i); auto. destruct (i <? j) eqn:Eij; auto.
    destruct (get_node t j) as [hi| | |] eqn:Ej; simpl in *; try discriminate.
    destruct (children_ltb i hi) eqn:Ec; simpl; auto.
    right. exists r0, j, hi. injection G as <- <-.
    apply Nat.ltb_lt in Eij. apply ids_find_In in Ef. apply get_node_ok in Ej. apply get_node_ok in E4.
    repeat split; auto. }
  destruct n1 as [| |a9|a9|x9|o9 l9] eqn:En1; try (apply G; [congruence|exact H]).
  left. exact H.
Qed.

Theorem exchange_fx_sound : forall t i n t' old,
  inv t -> exchange_fx t i n = Ok (t', old) ->
  (forall c, In c (children n) -> c < i) ->
  inv t' /\ size t' = size t /\ volumes t' = volumes t /\
  forall s, ids_sound t s -> eval_node s (eval t s) n = eval t s i ->
    ids_sound t' s /\ forall k, eval t' s k = eval t s k.
Proof.
  intros t i n t' old Hinv H Hc.
  destruct (exchange_fx_cases _ _ _ _ _ H) as [H1|[r0 [j [hi [Hs [Hi [Hij [Hin [Hhi [Hold ->]]]]]]]]]].
  { destruct (exchange_sound t i n t' old Hinv H1 Hc) as [A [B [C [_ D]]]]. auto. }
  destruct Hinv as [Hwf [Hbase Hids]].
  set (n1 := match r0 with Some x => x | None => n end) in *.
  assert (Hc1 : forall c, In c (children n1) -> c < i).
  { pose proof (simplify_node_children t (fun _ => true) Hwf i n r0 Hs ltac:(lia) Hc).
    subst n1. destruct r0; auto. }
  assert (Hj : j < size t) by (apply nth_error_Some; congruence).
  assert (Hisz : i < size t) by lia.
  set (ns := set_nth (set_nth (nodes t) i n1) j (NAliased i)).
  assert (Hns : forall k m, nth_error ns k = Some m ->
            (k = j /\ m = NAliased i) \/ (k <> j /\ k = i /\ m = n1) \/
            (k <> j /\ k <> i /\ nth_error (nodes t) k = Some m)).
  { intros k m Hk. subst ns. apply set_nth_cases in Hk. destruct Hk as [[-> ->]|[Hne Hk]]; auto.
    apply set_nth_cases in Hk. destruct Hk as [[-> ->]|[Hne' Hk]]; auto. }
  assert (Hlen : length ns = length (nodes t)) by (subst ns; rewrite !set_nth_length; auto).
  assert (Hwf' : wf_nodes ns).
  { intros k m Hk c Hcm. apply Hns in Hk.
    destruct Hk as [[-> ->]|[[_ [-> ->]]|[_ [_ Hk]]]].
    - simpl in Hcm. destruct Hcm as [<-|[]]. auto.
    - auto.
    - eapply Hwf; eauto. }
  split; [|split; [exact Hlen|split; [reflexivity|]]].
  - split; [exact Hwf'|]. split.
    + destruct Hbase as [B0 B1]. unfold base; cbn [nodes]. subst ns.
      rewrite !set_nth_neq by lia. auto.
    + intros m k Hk. cbn [ids] in Hk. unfold size; cbn [nodes]. rewrite Hlen.
      apply ids_set_In in Hk. destruct Hk as [Hk|[-> ->]]; [apply Hids; auto|].
      split; auto. apply (Hids _ _ Hin).
  - intros s Hsd Hpre.
    assert (Hn1 : eval_node s (eval t s) n1 = eval t s i).
    { rewrite <- Hpre. pose proof (simplify_node_value t s Hwf Hbase n r0 Hs) as V.
      subst n1. destruct r0; auto. }
    assert (Hsame : forall k, vals s ns k = vals s (nodes t) k).
    { apply same_values; auto. intros k m Hk. apply Hns in Hk.
      destruct Hk as [[-> ->]|[[_ [-> ->]]|[_ [_ Hk]]]].
      - simpl. change (vals s (nodes t)) with (eval t s). rewrite <- Hn1. symmetry. apply (Hsd _ _ Hin).
      - change (vals s (nodes t)) with (eval t s). auto.
      - apply vals_unfold; auto. }
    split; [|exact Hsame].
    intros m k Hk. cbn [ids] in Hk. unfold eval at 1 2; cbn [nodes].
    change (eval_node s (vals s ns) m = vals s ns k).
    rewrite Hsame. rewrite (eval_node_ext s (vals s ns) (vals s (nodes t))) by (intros; apply Hsame).
    apply ids_set_In in Hk. destruct Hk as [Hk|[-> ->]]; [apply (Hsd _ _ Hk)|exact Hn1].
Qed.

(** ** CsgTree::simplify(NodeId) with the repaired exchange *)
Theorem simplify_one_fx_sound : forall t i t' r,
  inv t -> simplify_one_fx t i = Ok (t', r) ->
  inv t' /\ size t' = size t /\ volumes t' = volumes t /\
  forall s, ids_sound t s -> ids_sound t' s /\ forall k, eval t' s k = eval t s k.
Proof.
  intros t i t' r Hinv H. unfold simplify_one_fx in H. inv_ok.
  destruct a0 as [t1 old]. inv_ok. subst t1.
  pose proof (get_node_ok _ _ _ Hm) as Hn.
  assert (Hc : forall c, In c (children a) -> c < i) by (apply (proj1 Hinv i a Hn)).
  destruct (exchange_fx_sound t i a t' old Hinv Hm0 Hc) as [I [S [V Hs]]].
  split; auto. split; auto. split; auto.
  intros s Hids. apply Hs; auto. symmetry. apply eval_unfold; auto. apply Hinv.
Qed.

Lemma const_children : forall rv n c, In c (children (const_node rv)) -> c < n.
Proof. intros rv n c. unfold const_node. destruct (repl_eqb rv KnownTrue); simpl; tauto. Qed.

Section ReplaceFx.
Variable s : nat -> bool.
Variable f : nat -> bool.
Variable N : nat.
Notation good := (good s f N).

Lemma good_exchange_const_fx : forall t n rv t' old,
  good t -> 1 < n -> r_ok rv (f n) -> is_known rv = true ->
  exchange_fx t n (const_node rv) = Ok (t', old) -> good t'.
Proof.
  intros t n rv t' old [Hinv [Hs [Hf Hsz]]] Hn Hr Hk H.
  destruct (exchange_fx_sound t n _ t' old Hinv H (const_children rv n)) as [I [S [V Hv]]].
  assert (Hpre : eval_node s (eval t s) (const_node rv) = eval t s n).
  { rewrite Hf. unfold const_node. destruct Hr as [Ht Hfa].
    destruct (repl_eqb rv KnownTrue) eqn:E.
    - apply repl_eqb_eq in E. simpl. symmetry; auto.
    - unfold is_known in Hk. rewrite E in Hk. simpl in Hk. apply repl_eqb_eq in Hk.
      simpl. symmetry; auto. }
  destruct (Hv s Hs Hpre) as [A B].
  split; auto. split; auto. split; [intros; rewrite B; auto|lia].
Qed.

Lemma good_simplify_one_fx : forall t n t' r,
  good t -> simplify_one_fx t n = Ok (t', r) -> good t'.
Proof.
  intros t n t' r [Hinv [Hs [Hf Hsz]]] H.
  destruct (simplify_one_fx_sound t n t' r Hinv H) as [I [S [V Hv]]].
  destruct (Hv s Hs) as [A B].
  split; auto. split; auto. split; [intros; rewrite B; auto|lia].
Qed.

Lemma sweep_fwd_fx_ok : forall st k t n mx sp t' mx' sp',
  good t -> st_ok st f -> 1 < n ->
  sweep_fwd_fx st t n k mx sp = Ok (t', mx', sp') -> good t'.
Proof.
  intros st. induction k as [|k IH]; intros t n mx sp t' mx' sp' Hg Hst Hn H; simpl in H.
  - injection H as <- <- <-. auto.
  - destruct (nth_error st n) as [rv|] eqn:En; [|discriminate]. inv_ok.
    destruct (is_known rv && is_surface a) eqn:Ek.
    + inv_ok. destruct a0 as [t1 old]. apply andb_true_iff in Ek. destruct Ek as [Ek _].
      refine (IH t1 (S n) _ _ _ _ _ _ Hst _ H); [|lia].
      eapply good_exchange_const_fx; eauto.
    + inv_ok. destruct a0 as [t1 [o|]]; (refine (IH t1 (S n) _ _ _ _ _ _ Hst _ H); [|lia];
        eapply good_simplify_one_fx; eauto).
Qed.

Lemma rs_loop_fx_ok : forall fuel t st mx t' st',
  good t -> st_ok st f -> rs_loop_fx fuel t st mx = Ok (t', st') ->
  good t' /\ st_ok st' f.
Proof.
  induction fuel as [|fuel IH]; intros t st mx t' st' Hg Hst H; simpl in H; [discriminate|].
  inv_ok. destruct a as [st1 upd]. inv_ok. destruct a as [[t1 mx1] sp].
  assert (Hst1 : st_ok st1 f) by (eapply sweep_back_ok; eauto).
  assert (Hg1 : good t1) by (eapply sweep_fwd_fx_ok; [exact Hg|exact Hst1| |exact Hm0]; unfold false_id; lia).
  destruct sp.
  - eapply IH; eauto.
  - injection H as <- <-. auto.
Qed.

Lemma rs_final_fx_ok : forall st k t n unk t' unk',
  good t -> st_ok st f -> 1 < n ->
  rs_final_fx st t n k unk = Ok (t', unk') -> good t'.
Proof.
  intros st. induction k as [|k IH]; intros t n unk t' unk' Hg Hst Hn H; simpl in H.
  - injection H as <- <-. auto.
  - destruct (nth_error st n) as [rs|] eqn:En; [|discriminate]. inv_ok.
    destruct (is_surface a).
    + refine (IH t (S n) _ _ _ Hg Hst _ H). lia.
    + destruct (is_known rs) eqn:Ek.
      * inv_ok. destruct a0 as [t1 old]. refine (IH t1 (S n) _ _ _ _ Hst _ H); [|lia].
        eapply good_exchange_const_fx; eauto.
      * inv_ok. destruct a0 as [t1 o]. refine (IH t1 (S n) _ _ _ _ Hst _ H); [|lia].
        eapply good_simplify_one_fx; eauto.
Qed.

End ReplaceFx.

(** structural facts (no assignment needed) *)
Lemma sweep_fwd_fx_inv : forall st k t n mx sp t' mx' sp', inv t -> 1 < n ->
  sweep_fwd_fx st t n k mx sp = Ok (t', mx', sp') -> inv t' /\ size t' = size t.
Proof.
  intros st. induction k as [|k IH]; intros t n mx sp t' mx' sp' Hinv Hn H; simpl in H.
  - injection H as <- <- <-. auto.
  - destruct (nth_error st n) as [rv|]; [|discriminate]. inv_ok.
    destruct (is_known rv && is_surface a).
    + inv_ok. destruct a0 as [t1 old].
      destruct (exchange_fx_sound t n _ t1 old Hinv Hm0 (const_children rv n)) as [I [Sz _]].
      destruct (IH t1 (S n) _ _ _ _ _ I ltac:(lia) H). split; auto. lia.
    + inv_ok. destruct a0 as [t1 o].
      destruct (simplify_one_fx_sound t n t1 o Hinv Hm0) as [I [Sz _]].
      destruct o; destruct (IH t1 (S n) _ _ _ _ _ I ltac:(lia) H); split; auto; lia.
Qed.

Lemma rs_loop_fx_inv : forall fuel t st mx t' st', inv t -> rs_loop_fx fuel t st mx = Ok (t', st') ->
  inv t' /\ size t' = size t.
Proof.
  induction fuel as [|fuel IH]; intros t st mx t' st' Hinv H; simpl in H; [discriminate|].
  inv_ok. destruct a as [st1 upd]. inv_ok. destruct a as [[t1 mx1] sp].
  assert (H2 : 1 < S false_id) by (unfold false_id; lia).
  destruct (sweep_fwd_fx_inv _ _ _ _ _ _ _ _ _ Hinv H2 Hm0) as [I1 S1].
  destruct sp.
  - destruct (IH _ _ _ _ _ I1 H). split; auto. lia.
  - injection H as <- <-. auto.
Qed.

Lemma rs_final_fx_inv : forall st k t n unk t' unk', inv t -> 1 < n ->
  rs_final_fx st t n k unk = Ok (t', unk') -> inv t' /\ size t' = size t.
Proof.
  intros st. induction k as [|k IH]; intros t n unk t' unk' Hinv Hn H; simpl in H.
  - injection H as <- <-. auto.
  - destruct (nth_error st n) as [rs|]; [|discriminate]. inv_ok.
    destruct (is_surface a).
    + refine (IH t (S n) _ _ _ Hinv _ H). lia.
    + destruct (is_known rs).
      * inv_ok. destruct a0 as [t1 old].
        destruct (exchange_fx_sound t n _ t1 old Hinv Hm0 (const_children rs n)) as [I [Sz _]].
        destruct (IH t1 (S n) _ _ _ I ltac:(lia) H). split; auto. lia.
      * inv_ok. destruct a0 as [t1 o].
        destruct (simplify_one_fx_sound t n t1 o Hinv Hm0) as [I [Sz _]].
        destruct (IH t1 (S n) _ _ _ I ltac:(lia) H). split; auto. lia.
Qed.

(** [replace_and_simplify] with the repaired exchange: sound as it is *)
Theorem replace_and_simplify_fx_sound : forall fuel t key value t' unk,
  inv t -> replace_and_simplify_fx fuel t key value = Ok (t', unk) ->
  inv t' /\ size t' = size t /\
  forall s, ids_sound t s -> eval t s key = value ->
    ids_sound t' s /\ forall k, eval t' s k = eval t s k.
Proof.
  intros fuel t key value t' unk Hinv H.
  unfold replace_and_simplify_fx in H. inv_ok. destruct a0 as [t1 st]. apply Nat.ltb_lt in Hm.
  set (st3 := set_nth (set_nth (set_nth (repeat Unvisited (size t)) true_id KnownTrue) false_id KnownFalse)
                key (if value then KnownTrue else KnownFalse)) in *.
  assert (Hst3 : forall s, eval t s key = value -> st_ok st3 (eval t s)).
  { intros s Hkey k r Hk. subst st3. destruct Hinv as [Hwf [Hbase _]].
    apply set_nth_cases in Hk. destruct Hk as [[-> ->]|[Hne Hk]].
    - rewrite Hkey. destruct value; split; auto; discriminate.
    - apply set_nth_cases in Hk. destruct Hk as [[-> ->]|[Hne1 Hk]].
      + split; [discriminate|]. intros _. apply eval_false; auto.
      + apply set_nth_cases in Hk. destruct Hk as [[-> ->]|[Hne0 Hk]].
        * split; [|discriminate]. intros _. apply eval_true; auto.
        * apply nth_error_repeat_some in Hk. subst. apply r_ok_unvisited. }
  assert (H2 : 1 < S false_id) by (unfold false_id; lia).
  destruct (rs_loop_fx_inv _ _ _ _ _ _ Hinv Hm0) as [I1 S1].
  destruct (rs_final_fx_inv _ _ _ _ _ _ _ I1 H2 H) as [I2 S2].
  split; auto. split; [lia|].
  intros s Hs Hkey.
  assert (G0 : good s (eval t s) (size t) t) by (split; [exact Hinv|split; [exact Hs|split; [intros; reflexivity|reflexivity]]]).
  destruct (rs_loop_fx_ok s (eval t s) (size t) fuel t st3 key t1 st G0 (Hst3 s Hkey) Hm0) as [G1 St1].
  destruct (rs_final_fx_ok s (eval t s) (size t) _ _ _ _ _ _ _ G1 St1 H2 H) as [_ [A [B _]]].
  auto.
Qed.

(** ** simplify_up / simplify with the repaired exchange *)
Lemma simplify_up_loop_fx_sound : forall k t n res t' res',
  inv t -> simplify_up_loop_fx t n k res = Ok (t', res') ->
  inv t' /\ size t' = size t /\ volumes t' = volumes t /\
  forall s, ids_sound t s -> ids_sound t' s /\ forall j, eval t' s j = eval t s j.
Proof.
  induction k as [|k IH]; intros t n res t' res' Hinv H; simpl in H.
  - injection H as <- <-.
    split; [auto|split; [auto|split; [auto|intros s Hs; split; auto]]].
  - inv_ok. destruct a as [t1 sp].
    destruct (simplify_one_fx_sound t n t1 sp Hinv Hm) as [I [Sz [V Hv]]].
    destruct (IH _ _ _ _ _ I H) as [I2 [Sz2 [V2 Hv2]]].
    split; auto. split; [lia|]. split; [congruence|].
    intros s Hs. destruct (Hv s Hs) as [A B]. destruct (Hv2 s A) as [A2 B2].
    split; auto. intros j. rewrite B2. auto.
Qed.

Lemma simplify_loop_fx_sound : forall fuel t start t',
  inv t -> simplify_loop_fx fuel t start = Ok t' ->
  inv t' /\ size t' = size t /\ volumes t' = volumes t /\
  forall s, ids_sound t s -> ids_sound t' s /\ forall j, eval t' s j = eval t s j.
Proof.
  induction fuel as [|fuel IH]; intros t start t' Hinv H; simpl in H; [discriminate|].
  inv_ok. destruct a as [t1 next]. unfold simplify_up_fx in Hm. inv_ok.
  destruct (simplify_up_loop_fx_sound _ _ _ _ _ _ Hinv Hm) as [I [Sz [V Hv]]].
  destruct next as [s'|].
  - inv_ok.
    destruct (IH _ _ _ I H) as [I2 [Sz2 [V2 Hv2]]].
    split; auto. split; [lia|]. split; [congruence|].
    intros s Hs. destruct (Hv s Hs) as [A B]. destruct (Hv2 s A) as [A2 B2].
    split; auto. intros j. rewrite B2. auto.
  - injection H as <-. auto.
Qed.

Theorem simplify_tree_fx_sound : forall t start t',
  inv t -> simplify_tree_fx t start = Ok t' ->
  inv t' /\ size t' = size t /\ volumes t' = volumes t /\
  forall s, ids_sound t s -> ids_sound t' s /\ forall j, eval t' s j = eval t s j.
Proof.
  intros t start t' Hinv H. unfold simplify_tree_fx in *. inv_ok.
  eapply simplify_loop_fx_sound; eauto.
Qed.

(** the repaired function = the function before the repair wherever the
    latter passed the extra topological check of the old model *)
Lemma exchange_fx_agrees : forall t i n r,
  exchange true t i n = Ok r -> exchange_fx t i n = Ok r.
Proof.
  intros t i n r H. unfold exchange in H. unfold exchange_fx.
  destruct (expect (false_id <? i)); simpl in *; try discriminate.
  destruct (expect (user_node_valid i n)); simpl in *; try discriminate.
  destruct (simplify_node t n) as [r0| | |]; simpl in *; try discriminate.
  destruct (get_node t i) as [old| | |]; simpl in *; try discriminate.
  destruct (match r0 with Some x => x | None => n end); auto;
  destruct (ids_find _ (ids t)) as [j|]; auto;
  destruct (j =? i); auto; destruct (i <? j); auto;
  destruct (get_node t j) as [hi| | |]; simpl in *; try discriminate;
  destruct (children_ltb i hi); simpl in *; try discriminate; auto.
Qed.
