(** * C10: executable model of orangeinp/detail/DeMorganSimplifier.cc
    ([transform_negated_joins]). No proofs in this file.

    The parents matrix ([Matrix2D] over [vector<bool>]) is a list of rows of
    booleans; the bit vectors are [list bool]; the translation table is a list of records
    with optional ids (invalid id = [None]). *)
From Coq Require Import List Arith Bool Lia.
From Celer Require Import C10.Csg.
Import ListNotations.

Record matching := mkMatch {
  unmodified : option nat;
  simplified_to : option nat;
  opposite_join : option nat;
  new_negation : option nat }.

Definition no_match : matching := mkMatch None None None None.

(** [MatchingNodes::equivalent_node] *)
Definition equivalent_node (m : matching) : option nat :=
  match simplified_to m with
  | Some x => Some x
  | None => unmodified m
  end.

Record dm_state := mkDm {
  new_negated : list bool;
  negated_join : list bool;
  parents : list (list bool) }.

Definition is_volume_index := 0.
Definition has_parents_index := 1.
Definition first_node_id := 2.

(** [Matrix2D::operator[]] (read); CELER_EXPECT(row < extent && col < extent) *)
Definition par_get (ext : nat) (ps : list (list bool)) (row col : nat) : res bool :=
  _ <- expect ((row <? ext) && (col <? ext)) ;;
  match nth_error ps row with
  | Some r => match nth_error r col with Some b => Ok b | None => Assert end
  | None => Assert
  end.

Definition par_set (ext : nat) (ps : list (list bool)) (row col : nat) : res (list (list bool)) :=
  _ <- expect ((row <? ext) && (col <? ext)) ;;
  match nth_error ps row with
  | Some r => Ok (set_nth ps row (set_nth r col true))
  | None => Assert
  end.

(** [vector<bool>] element access *)
Definition bit_get (l : list bool) (i : nat) : res bool :=
  match nth_error l i with Some b => Ok b | None => Assert end.
Definition bit_set (l : list bool) (i : nat) : res (list bool) :=
  _ <- expect (i <? length l) ;; Ok (set_nth l i true).

Definition tr_get (tr : list matching) (i : nat) : res matching :=
  match nth_error tr i with Some m => Ok m | None => Assert end.

(** [dealias] *)
Fixpoint dealias_loop (fuel : nat) (t : tree) (i : nat) : res nat :=
  match fuel with
  | 0 => Fuel
  | S fuel' =>
      n <- get_node t i ;;
      match n with
      | NAliased a => _ <- expect (a <? size t) ;; dealias_loop fuel' t a
      | _ => Ok i
      end
  end.
Definition dealias (t : tree) (i : nat) : res nat :=
  _ <- expect (i <? size t) ;;
  dealias_loop (S (size t)) t i.

Definition target_node (t : tree) (i : nat) : res node :=
  d <- dealias t i ;; get_node t d.

Definition is_joined (n : node) : bool := match n with NJoined _ _ => true | _ => false end.
Definition is_negated (n : node) : bool := match n with NNegated _ => true | _ => false end.

(** [add_negation_for_operands]: note [std::get<Joined>(tree_[node_id])] is
    applied to the node itself, not to its dealiased target: a bad variant
    access throws. *)
Fixpoint add_negation_for_operands (fuel : nat) (t : tree) (st : dm_state) (node_id : nat)
  : res dm_state :=
  match fuel with
  | 0 => Fuel
  | S fuel' =>
      n <- get_node t node_id ;;
      match n with
      | NJoined _ operands =>
          (fix each (ops : list nat) (st : dm_state) : res dm_state :=
             match ops with
             | [] => Ok st
             | o :: r =>
                 tn <- target_node t o ;;
                 if is_joined tn then
                   nj <- bit_set (negated_join st) o ;;
                   st' <- add_negation_for_operands fuel' t
                            (mkDm (new_negated st) nj (parents st)) o ;;
                   each r st'
                 else if negb (is_negated tn) then
                   nn <- bit_set (new_negated st) o ;;
                   each r (mkDm nn (negated_join st) (parents st))
                 else each r st
             end) operands st
      | _ => Throw
      end
  end.

(** [find_join_negations] *)
Fixpoint fjn_loop (t : tree) (st : dm_state) (node_id k : nat) : res dm_state :=
  match k with
  | 0 => Ok st
  | S k' =>
      let ext := size t in
      n <- target_node t node_id ;;
      st' <-
        match n with
        | NNegated c =>
            p1 <- par_set ext (parents st) c node_id ;;
            p2 <- par_set ext p1 c has_parents_index ;;
            let st1 := mkDm (new_negated st) (negated_join st) p2 in
            tc <- target_node t c ;;
            if is_joined tc then
              nj <- bit_set (negated_join st1) c ;;
              add_negation_for_operands (S (size t)) t (mkDm (new_negated st1) nj (parents st1)) c
            else Ok st1
        | NJoined _ ds =>
            (fix each (ds : list nat) (ps : list (list bool)) : res dm_state :=
               match ds with
               | [] => Ok (mkDm (new_negated st) (negated_join st) ps)
               | d :: r =>
                   p1 <- par_set ext ps d node_id ;;
                   p2 <- par_set ext p1 d has_parents_index ;;
                   each r p2
               end) ds (parents st)
        | _ => Ok st
        end ;;
      fjn_loop t st' (S node_id) k'
  end.

Fixpoint fjn_volumes (t : tree) (vs : list nat) (ps : list (list bool)) : res (list (list bool)) :=
  match vs with
  | [] => Ok ps
  | v :: r => p <- par_set (size t) ps v is_volume_index ;; fjn_volumes t r p
  end.

Definition find_join_negations (t : tree) : res dm_state :=
  let n := size t in
  st <- fjn_loop t (mkDm (repeat false n) (repeat false n) (repeat (repeat false n) n)) 0 n ;;
  ps <- fjn_volumes t (volumes t) (parents st) ;;
  Ok (mkDm (new_negated st) (negated_join st) ps).

(** [has_negated_join_parent] lambda *)
Fixpoint has_negated_join_parent (t : tree) (st : dm_state) (n : nat) (p k : nat) : res bool :=
  match k with
  | 0 => Ok false
  | S k' =>
      b <- par_get (size t) (parents st) n p ;;
      nj <- bit_get (negated_join st) p ;;
      if b && nj then Ok true else has_negated_join_parent t st n (S p) k'
  end.

(** [should_insert_join] *)
Fixpoint should_insert_join (fuel : nat) (t : tree) (st : dm_state) (node_id : nat) : res bool :=
  match fuel with
  | 0 => Fuel
  | S fuel' =>
      tn <- target_node t node_id ;;
      _ <- expect (is_joined tn) ;;
      isvol <- par_get (size t) (parents st) node_id is_volume_index ;;
      haspar <- par_get (size t) (parents st) node_id has_parents_index ;;
      if isvol || negb haspar then Ok true
      else
        (fix each (p k : nat) : res bool :=
           match k with
           | 0 => Ok false
           | S k' =>
               isp <- par_get (size t) (parents st) node_id p ;;
               if negb isp then each (S p) k'
               else
                 d <- target_node t p ;;
                 c1 <- (if is_joined d then should_insert_join fuel' t st p else Ok false) ;;
                 if c1 then Ok true
                 else
                   c2 <- (if is_negated d
                          then has_negated_join_parent t st p first_node_id (size t - first_node_id)
                          else Ok false) ;;
                   if c2 then Ok true else each (S p) k'
           end) first_node_id (size t - first_node_id)
  end.

(** [build_negated_node] *)
Fixpoint bnn_operands (t : tree) (tr : list matching) (ns : list nat) : res (list nat) :=
  match ns with
  | [] => Ok []
  | n :: r =>
      tn <- target_node t n ;;
      x <- match tn with
           | NNegated c =>
               m <- tr_get tr c ;;
               match unmodified m with Some u => Ok u | None => Assert end
           | _ =>
               m <- tr_get tr n ;;
               match new_negation m, opposite_join m with
               | Some u, _ => Ok u
               | None, Some u => Ok u
               | None, None => Assert
               end
           end ;;
      xs <- bnn_operands t tr r ;;
      Ok (x :: xs)
  end.

Definition build_negated_node (t : tree) (tr : list matching) (o : op) (ns : list nat) : res node :=
  ops <- bnn_operands t tr ns ;;
  Ok (NJoined (match o with OpAnd => OpOr | OpOr => OpAnd end) ops).

Definition tr_set (tr : list matching) (i : nat) (m : matching) : list matching := set_nth tr i m.

(** [process_negated_joined_nodes] : (insert unmodified?, result tree, translation) *)
Definition process_negated_joined_nodes (t : tree) (st : dm_state) (tr : list matching)
           (node_id : nat) (result : tree) : res (bool * tree * list matching) :=
  tn <- target_node t node_id ;;
  match tn with
  | NNegated c =>
      tc <- target_node t c ;;
      if is_joined tc then
        mc <- tr_get tr c ;;
        match opposite_join mc with
        | None => Assert
        | Some oj =>
            m <- tr_get tr node_id ;;
            Ok (false, result,
                tr_set tr node_id (mkMatch (unmodified m) (Some oj) (opposite_join m) (new_negation m)))
        end
      else
        isvol <- par_get (size t) (parents st) node_id is_volume_index ;;
        haspar <- par_get (size t) (parents st) node_id has_parents_index ;;
        if isvol || negb haspar then Ok (true, result, tr)
        else
          b <- (fix each (p k : nat) : res bool :=
                  match k with
                  | 0 => Ok false
                  | S k' =>
                      isp <- par_get (size t) (parents st) node_id p ;;
                      if negb isp then each (S p) k'
                      else
                        d <- target_node t p ;;
                        _ <- expect (negb (is_negated d)) ;;
                        c1 <- (if is_joined d then should_insert_join (S (size t)) t st p
                               else Ok false) ;;
                        if c1 then Ok true else each (S p) k'
                  end) first_node_id (size t - first_node_id) ;;
          Ok (b, result, tr)
  | NJoined o ds =>
      nj <- bit_get (negated_join st) node_id ;;
      '(result', tr') <-
        (if nj then
           nn <- build_negated_node t tr o ds ;;
           '(r', new_id, _) <- insert result nn ;;
           m <- tr_get tr node_id ;;
           Ok (r', tr_set tr node_id
                     (mkMatch (unmodified m) (simplified_to m) (Some new_id) (new_negation m)))
         else Ok (result, tr)) ;;
      b <- should_insert_join (S (size t)) t st node_id ;;
      Ok (b, result', tr')
  | _ => Ok (true, result, tr)
  end.

(** the body of the main loop of [build_simplified_tree] after
    [process_negated_joined_nodes] said "insert" *)
Definition translate_node (tr : list matching) (n : node) : res node :=
  match n with
  | NAliased _ => Assert
  | NNegated c =>
      m <- tr_get tr c ;;
      match unmodified m with Some u => Ok (NNegated u) | None => Assert end
  | NJoined o ds =>
      ds' <- (fix each (ds : list nat) : res (list nat) :=
                match ds with
                | [] => Ok []
                | d :: r =>
                    m <- tr_get tr d ;;
                    match equivalent_node m with
                    | None => Assert
                    | Some e => es <- each r ;; Ok (e :: es)
                    end
                end) ds ;;
      Ok (NJoined o ds')
  | _ => Ok n
  end.

Fixpoint bst_loop (t : tree) (st : dm_state) (tr : list matching) (result : tree)
         (node_id k : nat) : res (tree * list matching) :=
  match k with
  | 0 => Ok (result, tr)
  | S k' =>
      '(ins, result1, tr1) <- process_negated_joined_nodes t st tr node_id result ;;
      if negb ins then bst_loop t st tr1 result1 (S node_id) k'
      else
        tn <- target_node t node_id ;;
        new_node <- translate_node tr1 tn ;;
        '(result2, new_id, _) <- insert result1 new_node ;;
        m <- tr_get tr1 node_id ;;
        _ <- expect (match unmodified m with None => true | Some _ => false end) ;;
        let m1 := mkMatch (Some new_id) (simplified_to m) (opposite_join m) (new_negation m) in
        let tr2 := tr_set tr1 node_id m1 in
        nn <- bit_get (new_negated st) node_id ;;
        if nn then
          _ <- expect (negb (is_negated tn) && negb (is_joined tn)
                       && match new_negation m1 with None => true | Some _ => false end) ;;
          '(result3, neg_id, _) <- insert result2 (NNegated new_id) ;;
          let m2 := mkMatch (unmodified m1) (simplified_to m1) (opposite_join m1) (Some neg_id) in
          bst_loop t st (tr_set tr2 node_id m2) result3 (S node_id) k'
        else bst_loop t st tr2 result2 (S node_id) k'
  end.

Fixpoint bst_volumes (tr : list matching) (vs : list nat) (result : tree) : res tree :=
  match vs with
  | [] => Ok result
  | v :: r =>
      m <- tr_get tr v ;;
      match equivalent_node m with
      | None => Assert
      | Some e => result' <- insert_volume result e ;; bst_volumes tr r result'
      end
  end.

(** [DeMorganSimplifier{tree}()] = [transform_negated_joins(tree)];
    also returns the translation table (not observable in the C++ API, used
    by the theorems) *)
Definition demorgan_full (t : tree) : res (tree * list matching) :=
  st <- find_join_negations t ;;
  '(result, tr) <- bst_loop t st (repeat no_match (size t)) empty_tree 0 (size t) ;;
  result' <- bst_volumes tr (volumes t) result ;;
  Ok (result', tr).

Definition transform_negated_joins (t : tree) : res tree :=
  '(r, _) <- demorgan_full t ;; Ok r.
