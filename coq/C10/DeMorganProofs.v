(** * C10: transform_negated_joins keeps the boolean function of every volume *)
From Coq Require Import List Arith Bool Lia.
From Celer Require Import C10.Csg C10.CsgProofs C10.DeMorgan.
Import ListNotations.

Lemma empty_inv : inv empty_tree.
Proof. apply inv_b_sound. vm_compute. reflexivity. Qed.

Lemma empty_ids_sound : forall s, ids_sound empty_tree s.
Proof.
  intros s n i Hin. simpl in Hin.
  destruct Hin as [H|[H|[H|[H|[]]]]]; injection H as <- <-; reflexivity.
Qed.

Definition dual (o : op) : op := match o with OpAnd => OpOr | OpOr => OpAnd end.

Lemma demorgan_law : forall o (g h : nat -> bool) xs ds,
  Forall2 (fun x d => g x = negb (h d)) xs ds ->
  joinv (dual o) g xs = negb (joinv o h ds).
Proof.
  intros o g h xs ds F. induction F as [|x d xs ds Hx F IH]; destruct o; simpl in *; auto;
    rewrite Hx, IH.
  - rewrite negb_andb. reflexivity.
  - rewrite negb_orb. reflexivity.
Qed.

Ltac oksubst :=
  repeat match goal with
  | H : Ok _ = Ok _ |- _ => injection H; clear H; intros
  | H : (_, _) = (_, _) |- _ => injection H; clear H; intros
  end;
  repeat match goal with H : ?a = ?b |- _ => is_var b; subst b end.

Ltac mok :=
  (split; [|split; [|split]]);
  cbn [unmodified simplified_to opposite_join new_negation];
  intros ? Hu; auto; try (injection Hu as <-).

Section DM.
Variable t : tree.
Hypothesis Hwf : wf t.
Variable s : nat -> bool.
Let f := eval t s.

Lemma dealias_loop_value : forall fuel i d, dealias_loop fuel t i = Ok d ->
  f d = f i /\ exists nd, nth_error (nodes t) d = Some nd /\ forall a, nd <> NAliased a.
Proof.
  induction fuel as [|fuel IH]; intros i d H; simpl in H; [discriminate|].
  inv_ok. pose proof (get_node_ok _ _ _ Hm) as Hn.
  destruct a as [| |b|b|x|o l]; try (injection H as <-; split; [reflexivity|eexists; split; [eauto|congruence]]).
  inv_ok. destruct (IH _ _ H) as [E R]. split; auto.
  rewrite E. unfold f. rewrite (eval_unfold t s i _ Hwf Hn). reflexivity.
Qed.

Lemma target_node_value : forall i nd, target_node t i = Ok nd ->
  f i = eval_node s f nd /\ forall a, nd <> NAliased a.
Proof.
  unfold target_node, dealias. intros i nd H. inv_ok.
  destruct (dealias_loop_value _ _ _ Hm) as [E [nd' [Hn Hna]]].
  apply get_node_ok in H. rewrite Hn in H. injection H as ->.
  split; auto. rewrite <- E. unfold f. apply eval_unfold; auto.
Qed.

(** the translation table is sound w.r.t. the tree being built *)
Definition m_ok (r : tree) (k : nat) (m : matching) : Prop :=
  (forall u, unmodified m = Some u -> u < size r /\ eval r s u = f k) /\
  (forall u, simplified_to m = Some u -> u < size r /\ eval r s u = f k) /\
  (forall u, opposite_join m = Some u -> u < size r /\ eval r s u = negb (f k)) /\
  (forall u, new_negation m = Some u -> u < size r /\ eval r s u = negb (f k)).

Definition tr_ok (r : tree) (tr : list matching) : Prop :=
  forall k m, nth_error tr k = Some m -> m_ok r k m.

Definition rgood (r : tree) : Prop := inv r /\ ids_sound r s.

Definition extends (r r' : tree) : Prop :=
  size r <= size r' /\ forall k, k < size r -> eval r' s k = eval r s k.

Lemma tr_ok_extends : forall r r' tr, extends r r' -> tr_ok r tr -> tr_ok r' tr.
Proof.
  intros r r' tr [Hsz Hv] H k m Hk. destruct (H k m Hk) as [A [B [C D]]].
  split; [|split; [|split]]; intros u Hu.
  - destruct (A u Hu). split; [lia|rewrite Hv; auto].
  - destruct (B u Hu). split; [lia|rewrite Hv; auto].
  - destruct (C u Hu). split; [lia|rewrite Hv; auto].
  - destruct (D u Hu). split; [lia|rewrite Hv; auto].
Qed.

Lemma insert_step : forall r n r' i b,
  rgood r -> insert r n = Ok (r', i, b) ->
  rgood r' /\ extends r r' /\ i < size r' /\ eval r' s i = eval_node s (eval r s) n.
Proof.
  intros r n r' i b [Hinv Hs] H.
  destruct (insert_sound r n r' i b Hinv H) as [I [[extra P] [Hi [_ Hv]]]].
  destruct (Hv s Hs) as [A [B C]].
  split; [split; auto|]. split; [|split; auto].
  split; auto. unfold size. rewrite P, app_length. lia.
Qed.

Lemma tr_set_ok : forall r tr k m, tr_ok r tr -> m_ok r k m -> tr_ok r (tr_set tr k m).
Proof.
  intros r tr k m H Hm j mj Hj. unfold tr_set in Hj. apply set_nth_cases in Hj.
  destruct Hj as [[-> ->]|[_ Hj]]; auto.
Qed.

Lemma tr_get_ok : forall r tr k m, tr_ok r tr -> tr_get tr k = Ok m -> m_ok r k m.
Proof.
  unfold tr_get. intros r tr k m H G. destruct (nth_error tr k) eqn:E; [|discriminate].
  injection G as <-. auto.
Qed.

Lemma bnn_operands_ok : forall r tr, tr_ok r tr -> forall ns xs,
  bnn_operands t tr ns = Ok xs -> Forall2 (fun x d => eval r s x = negb (f d)) xs ns.
Proof.
  intros r tr Htr. induction ns as [|n ns IH]; intros xs H; simpl in H.
  - injection H as <-. constructor.
  - inv_ok. subst xs. constructor; [|apply IH; auto].
    destruct (target_node_value _ _ Hm) as [E _].
    destruct a as [| |c|c|x|o l];
      try (inv_ok; pose proof (tr_get_ok r tr _ _ Htr Hm2) as [_ [_ [C D]]];
           destruct (new_negation a) as [u|] eqn:En;
           [injection Hm0 as <-; apply D; auto
           |destruct (opposite_join a) as [u|] eqn:Eo; [injection Hm0 as <-; apply C; auto|discriminate]]).
    inv_ok. pose proof (tr_get_ok r tr _ _ Htr Hm2) as [A _].
    destruct (unmodified a) as [u|] eqn:Eu; [|discriminate]. injection Hm0 as <-.
    destruct (A u eq_refl) as [_ V]. rewrite V, E. simpl. rewrite negb_involutive. reflexivity.
Qed.

Lemma translate_node_ok : forall r tr k tn n',
  tr_ok r tr -> f k = eval_node s f tn -> translate_node tr tn = Ok n' ->
  eval_node s (eval r s) n' = f k.
Proof.
  intros r tr k tn n' Htr E H. destruct tn as [| |c|c|x|o ds]; simpl in H; try discriminate;
    try (injection H as <-; rewrite E; reflexivity).
  - inv_ok. pose proof (tr_get_ok r tr _ _ Htr Hm) as [A _].
    destruct (unmodified a) as [u|] eqn:Eu; [|discriminate]. injection H as <-.
    destruct (A u eq_refl) as [_ V]. simpl. rewrite V, E. reflexivity.
  - inv_ok. subst n'. rewrite E, !eval_node_join. clear E.
    revert a Hm. induction ds as [|d ds IH]; intros xs Hm.
    + injection Hm as <-. reflexivity.
    + inv_ok. pose proof (tr_get_ok r tr _ _ Htr Hm0) as [A [B _]].
      destruct (equivalent_node a) as [e|] eqn:Ee; [|discriminate]. inv_ok. subst xs.
      assert (V : eval r s e = f d).
      { unfold equivalent_node in Ee. destruct (simplified_to a) as [u|] eqn:Es.
        - injection Ee as <-. apply B; auto.
        - apply A; auto. }
      specialize (IH _ Hm1). destruct o; simpl in *; rewrite V, IH; reflexivity.
Qed.

Lemma process_ok : forall st tr node_id r b r' tr',
  rgood r -> tr_ok r tr -> node_id < length tr ->
  process_negated_joined_nodes t st tr node_id r = Ok (b, r', tr') ->
  rgood r' /\ tr_ok r' tr' /\ length tr' = length tr.
Proof.
  intros st tr node_id r b r' tr' Hg Htr Hlt H. unfold process_negated_joined_nodes in H. inv_ok.
  destruct (target_node_value _ _ Hm) as [E _].
  destruct a as [| |c|c|x|o ds]; try (oksubst; auto).
  - (* negated *)
    inv_ok. destruct (target_node_value _ _ Hm0) as [Ec _].
    destruct (is_joined a).
    + inv_ok. pose proof (tr_get_ok r tr _ _ Htr Hm1) as [_ [_ [C _]]].
      destruct (opposite_join a0) as [oj|] eqn:Eo; [|discriminate]. inv_ok.
      oksubst. split; auto. split; [|unfold tr_set; apply set_nth_length].
      pose proof (tr_get_ok r tr _ _ Htr Hm2) as [A1 [B1 [C1 D1]]].
      apply tr_set_ok; auto. mok.
      destruct (C oj eq_refl) as [L V]. split; auto.
      rewrite V, E. reflexivity.
    + inv_ok. destruct (a0 || negb a1).
      * oksubst. auto.
      * inv_ok. oksubst. auto.
  - (* joined *)
    inv_ok. destruct a0 as [r1 tr1]. inv_ok. oksubst.
    destruct a.
    + apply bind_ok in Hm1. destruct Hm1 as [nn [Hnn Hm1]].
      apply bind_ok in Hm1. destruct Hm1 as [[[r2 new_id] ins] [Hins Hm1]].
      apply bind_ok in Hm1. destruct Hm1 as [m [Hget Hm1]].
      injection Hm1 as <- <-.
      unfold build_negated_node in Hnn. apply bind_ok in Hnn. destruct Hnn as [ops [Hops Hnn]].
      injection Hnn as <-.
      destruct (insert_step _ _ _ _ _ Hg Hins) as [G2 [X2 [L2 V2]]].
      split; auto. split; [|unfold tr_set; apply set_nth_length].
      apply tr_set_ok; [eapply tr_ok_extends; eauto|].
      assert (M : m_ok r2 node_id m).
      { apply (tr_ok_extends _ _ _ X2 Htr). unfold tr_get in Hget.
        destruct (nth_error tr node_id); [injection Hget as <-; auto|discriminate]. }
      destruct M as [A1 [B1 [C1 D1]]].
      mok. split; auto.
      rewrite V2, eval_node_join.
      change (match o with OpAnd => OpOr | OpOr => OpAnd end) with (dual o).
      rewrite (demorgan_law o (eval r s) f ops ds).
      * rewrite E, eval_node_join. reflexivity.
      * eapply bnn_operands_ok; eauto.
    + injection Hm1 as <- <-. auto.
Qed.

Lemma bst_loop_ok : forall st k tr r node_id r' tr',
  rgood r -> tr_ok r tr -> node_id + k <= length tr ->
  bst_loop t st tr r node_id k = Ok (r', tr') ->
  rgood r' /\ tr_ok r' tr'.
Proof.
  intros st. induction k as [|k IH]; intros tr r node_id r' tr' Hg Htr Hlen H; simpl in H.
  - injection H as <- <-. auto.
  - apply bind_ok in H. destruct H as [[[ins r1] tr1] [Hp H]].
    assert (Hlt : node_id < length tr) by lia.
    destruct (process_ok _ _ _ _ _ _ _ Hg Htr Hlt Hp) as [G1 [T1 L1]].
    destruct (negb ins).
    + eapply IH; [exact G1|exact T1| |exact H]. lia.
    + apply bind_ok in H. destruct H as [tn [Htn H]].
      apply bind_ok in H. destruct H as [new_node [Hnew H]].
      apply bind_ok in H. destruct H as [[[r2 new_id] b2] [Hins H]].
      apply bind_ok in H. destruct H as [m [Hget H]].
      apply bind_ok in H. destruct H as [u0 [_ H]].
      destruct (target_node_value _ _ Htn) as [E _].
      pose proof (translate_node_ok r1 tr1 node_id tn new_node T1 E Hnew) as V.
      destruct (insert_step _ _ _ _ _ G1 Hins) as [G2 [X2 [L2 V2]]].
      pose proof (tr_ok_extends _ _ _ X2 T1) as T2.
      pose proof (tr_get_ok _ _ _ _ T2 Hget) as [A1 [B1 [C1 D1]]].
      set (m1 := mkMatch (Some new_id) (simplified_to m) (opposite_join m) (new_negation m)) in *.
      assert (M1 : m_ok r2 node_id m1).
      { subst m1. mok. split; auto. rewrite V2; auto. }
      assert (T3 : tr_ok r2 (tr_set tr1 node_id m1)) by (apply tr_set_ok; auto).
      apply bind_ok in H. destruct H as [nn [Hnn H]].
      destruct nn.
      * apply bind_ok in H. destruct H as [u1 [_ H]].
        apply bind_ok in H. destruct H as [[[r3 neg_id] b3] [Hins3 H]].
        destruct (insert_step _ _ _ _ _ G2 Hins3) as [G3 [X3 [L3 V3]]].
        eapply IH; [exact G3| | |exact H].
        -- apply tr_set_ok; [eapply tr_ok_extends; eauto|].
           destruct (tr_ok_extends _ _ _ X3 T3 node_id m1) as [A3 [B3 [C3 D3]]].
           { unfold tr_set. apply set_nth_eq. lia. }
           mok. split; auto.
           rewrite V3. simpl. rewrite V2, V. reflexivity.
        -- unfold tr_set. rewrite !set_nth_length. lia.
      * eapply IH; [exact G2|exact T3| |exact H]. unfold tr_set. rewrite set_nth_length. lia.
Qed.

Lemma bst_volumes_ok : forall tr vs r r',
  tr_ok r tr -> bst_volumes tr vs r = Ok r' ->
  nodes r' = nodes r /\ exists es, volumes r' = volumes r ++ es /\
    Forall2 (fun e v => eval r s e = f v) es vs.
Proof.
  intros tr. induction vs as [|v vs IH]; intros r r' Htr H; simpl in H.
  - injection H as <-. split; auto. exists []. rewrite app_nil_r. split; auto.
  - inv_ok. pose proof (tr_get_ok _ _ _ _ Htr Hm) as [A [B _]].
    destruct (equivalent_node a) as [e|] eqn:Ee; [|discriminate]. inv_ok.
    unfold insert_volume in Hm0. inv_ok. subst a0.
    assert (V : eval r s e = f v).
    { unfold equivalent_node in Ee. destruct (simplified_to a) as [u|] eqn:Es.
      - injection Ee as <-. apply B; auto.
      - apply A; auto. }
    set (r1 := mkTree (nodes r) (ids r) (volumes r ++ [e])) in *.
    assert (Htr1 : tr_ok r1 tr) by (exact Htr).
    destruct (IH r1 r' Htr1 H) as [N [es [Ev F]]].
    split; auto. exists (e :: es). split.
    + rewrite Ev. simpl. rewrite <- app_assoc. reflexivity.
    + constructor; auto.
Qed.

End DM.

Lemma insert_volumes : forall ra n rb i b, insert ra n = Ok (rb, i, b) -> volumes rb = volumes ra.
Proof.
  intros ra n rb i b H. unfold insert in H.
  apply bind_ok in H. destruct H as [u0 [_ H]].
  apply bind_ok in H. destruct H as [r0 [_ H]].
  destruct r0 as [x3|]; [destruct x3|];
    try (destruct (ids_find _ (ids ra))); injection H as <- _ _; reflexivity.
Qed.

Lemma process_volumes : forall t st tr nid r0 b r1 tr1,
  process_negated_joined_nodes t st tr nid r0 = Ok (b, r1, tr1) -> volumes r1 = volumes r0.
Proof.
  intros t st tr nid r0 b r1 tr1 H. unfold process_negated_joined_nodes in H.
  apply bind_ok in H. destruct H as [tn [_ H]].
  destruct tn as [| |c|c|x|o ds]; try (injection H as _ <- _; reflexivity).
  - apply bind_ok in H. destruct H as [tc [_ H]]. destruct (is_joined tc).
    + apply bind_ok in H. destruct H as [mc [_ H]].
      destruct (opposite_join mc); [|discriminate].
      apply bind_ok in H. destruct H as [m [_ H]]. injection H as _ <- _; reflexivity.
    + apply bind_ok in H. destruct H as [iv [_ H]].
      apply bind_ok in H. destruct H as [hp [_ H]].
      destruct (iv || negb hp); [injection H as _ <- _; reflexivity|].
      apply bind_ok in H. destruct H as [bb [_ H]]. injection H as _ <- _; reflexivity.
  - apply bind_ok in H. destruct H as [nj [_ H]].
    apply bind_ok in H. destruct H as [[r2 tr2] [H1 H]].
    apply bind_ok in H. destruct H as [bb [_ H]]. injection H as _ <- _.
    destruct nj.
    + apply bind_ok in H1. destruct H1 as [nn [_ H1]].
      apply bind_ok in H1. destruct H1 as [[[r3 nid3] b3] [Hi H1]].
      apply bind_ok in H1. destruct H1 as [m [_ H1]]. injection H1 as <- _.
      eapply insert_volumes; eauto.
    + injection H1 as <- _. reflexivity.
Qed.

Lemma bst_loop_volumes : forall t st k tr r0 nid r1 tr1,
  bst_loop t st tr r0 nid k = Ok (r1, tr1) -> volumes r1 = volumes r0.
Proof.
  intros t st. induction k as [|k IH]; intros tr r0 nid r1 tr1 H; simpl in H.
  - injection H as <- _. reflexivity.
  - apply bind_ok in H. destruct H as [[[ins r2] tr2] [Hp H]].
    apply process_volumes in Hp.
    destruct (negb ins).
    + apply IH in H. congruence.
    + apply bind_ok in H. destruct H as [tn [_ H]].
      apply bind_ok in H. destruct H as [new_node [_ H]].
      apply bind_ok in H. destruct H as [[[r3 new_id] b3] [Hins H]].
      apply bind_ok in H. destruct H as [m [_ H]].
      apply bind_ok in H. destruct H as [u0 [_ H]].
      apply bind_ok in H. destruct H as [nn [_ H]].
      apply insert_volumes in Hins.
      destruct nn.
      * apply bind_ok in H. destruct H as [u1 [_ H]].
        apply bind_ok in H. destruct H as [[[r4 neg_id] b4] [Hins4 H]].
        apply insert_volumes in Hins4. apply IH in H. congruence.
      * apply IH in H. congruence.
Qed.

Lemma bst_volumes_ids : forall tr vs r r', bst_volumes tr vs r = Ok r' -> ids r' = ids r.
Proof.
  intros tr. induction vs as [|v vs IH]; intros r r' H; simpl in H.
  - injection H as <-. reflexivity.
  - apply bind_ok in H. destruct H as [m [_ H]].
    destruct (equivalent_node m); [|discriminate].
    apply bind_ok in H. destruct H as [r1 [H1 H]].
    unfold insert_volume in H1. apply bind_ok in H1. destruct H1 as [u0 [_ H1]].
    injection H1 as <-. apply IH in H. simpl in H. exact H.
Qed.

(** [demorgan_sound] (equivalence part): every volume of the output tree has
    the boolean function of the corresponding input volume, for EVERY sense
    assignment, whatever [should_insert_join] decides; the output tree
    satisfies the tree invariants. *)
Theorem demorgan_sound_equiv : forall t t' tr,
  wf t -> demorgan_full t = Ok (t', tr) ->
  inv t' /\
  forall s, Forall2 (fun v' v => eval t' s v' = eval t s v) (volumes t') (volumes t).
Proof.
  intros t t' tr Hwf H. unfold demorgan_full in H.
  apply bind_ok in H. destruct H as [st [_ H]].
  apply bind_ok in H. destruct H as [[r tr0] [Hloop H]].
  apply bind_ok in H. destruct H as [r2 [Hvol H]].
  injection H as <- <-.
  assert (T0 : forall s, tr_ok t s empty_tree (repeat no_match (size t))).
  { intros s k m Hk. apply nth_error_In, repeat_spec in Hk. subst m. mok; discriminate. }
  assert (G0 : forall s, rgood s empty_tree) by (intros s; split; [apply empty_inv|apply empty_ids_sound]).
  assert (L0 : 0 + size t <= length (repeat no_match (size t))) by (rewrite repeat_length; lia).
  pose proof (bst_loop_volumes _ _ _ _ _ _ _ _ Hloop) as Vr. simpl in Vr.
  pose proof (bst_volumes_ids _ _ _ _ Hvol) as Hids.
  split.
  - destruct (bst_loop_ok t Hwf (fun _ => true) _ _ _ _ _ _ _ (G0 _) (T0 _) L0 Hloop) as [[I _] T].
    destruct (bst_volumes_ok t (fun _ => true) _ _ _ _ T Hvol) as [N _].
    destruct I as [W [B Ids]]. split; [unfold wf; rewrite N; auto|]. split.
    + unfold base. rewrite N. auto.
    + intros n i Hin. unfold size. rewrite N. rewrite Hids in Hin. apply Ids; auto.
  - intros s.
    destruct (bst_loop_ok t Hwf s _ _ _ _ _ _ _ (G0 s) (T0 s) L0 Hloop) as [G T].
    destruct (bst_volumes_ok t s _ _ _ _ T Hvol) as [N [es [Ev F]]].
    rewrite Ev, Vr. simpl.
    assert (Ee : forall k, eval r2 s k = eval r s k) by (intros k; unfold eval; rewrite N; auto).
    clear -F Ee. induction F; constructor; auto. rewrite Ee. auto.
Qed.
