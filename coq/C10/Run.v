(** * C10: entry points for the correspondence check.
    An op sequence is interpreted against the model; the C++ harness
    (props/C10/harness/csg.cc) interprets the same sequence against liborange
    and both print one record per op. No proofs here. *)
From Coq Require Import List Arith Bool NArith ZArith.
From Celer Require Import C10.Csg C10.Logic C10.DeMorgan C10.Sense.
Import ListNotations.

Inductive opc :=
| OInsert (n : node)                       (* CsgTree::insert(Node) *)
| OVolume (n : nat)                        (* insert_volume *)
| OExchange (i : nat) (n : node)           (* CsgTree::exchange *)
| OSimplifyOne (i : nat)                   (* CsgTree::simplify(NodeId) *)
| OReplace (key : nat) (v : bool)          (* replace_and_simplify *)
| OSimplify (start : nat)                  (* simplify *)
| OSimplifyUp (start : nat)                (* simplify_up *)
| ODeMorgan                                (* tree := transform_negated_joins(tree) *)
| OPostfix (n : nat) (mapping : option (list nat)) (sigmas : list (list bool))
| OInfixString (n : nat)
| OFlag (n : nat)
| OEval (n : nat) (sigmas : list (list bool))     (* SenseEvaluator *)
| OInfix (n : nat) (sigmas : list (list bool)).   (* model-side infix logic builder *)

Inductive outp :=
| PIns (id : nat) (inserted : bool)
| PVol
| PNode (n : node)
| POptNode (n : option node)
| PNats (l : list nat)
| PUnit
| POptNat (o : option nat)
| PPostfix (faces : list nat) (lgc : list tok) (depth : option Z) (evals : list bool)
| PInfixStr (l : list stok)
| PFlag (b : bool)
| PEvals (l : list bool)
| PInfix (l : list tok) (evals : list bool)
| PTree (t : tree)
| PErr (k : nat).

Definition sigma_of (l : list bool) : nat -> bool := fun s => nth s l false.

(** senses of the faces of a postfix expression under a surface assignment *)
Definition face_values (mapping : option (list nat)) (faces : list nat) (sg : list bool) : list bool :=
  map (fun f => match mapping with
                | None => sigma_of sg f
                | Some m => sigma_of sg (nth f m 0)
                end) faces.

Definition run_op (W : nat) (chk : bool) (t : tree) (o : opc) : res (tree * list outp) :=
  match o with
  | OInsert n =>
      '(t', i, b) <- insert t n ;; Ok (t', [PIns i b; PTree t'])
  | OVolume n =>
      t' <- insert_volume t n ;; Ok (t', [PVol; PTree t'])
  | OExchange i n =>
      '(t', old) <- exchange chk t i n ;; Ok (t', [PNode old; PTree t'])
  | OSimplifyOne i =>
      '(t', old) <- simplify_one chk t i ;; Ok (t', [POptNode old; PTree t'])
  | OReplace k v =>
      '(t', unk) <- replace_and_simplify chk (rs_fuel t) t k v ;; Ok (t', [PNats unk; PTree t'])
  | OSimplify s =>
      t' <- simplify_tree chk t s ;; Ok (t', [PUnit; PTree t'])
  | OSimplifyUp s =>
      '(t', r) <- simplify_up chk t s ;; Ok (t', [POptNat r; PTree t'])
  | ODeMorgan =>
      t' <- transform_negated_joins t ;; Ok (t', [PUnit; PTree t'])
  | OPostfix n mapping sigmas =>
      '(faces, lgc) <- build_postfix (S (size t)) t mapping n ;;
      d <- calc_max_depth lgc ;;
      evals <- match d with
               | Some dz =>
                   if (dz <=? Z.of_nat W)%Z then
                     mapM (fun sg => logic_evaluate W lgc (face_values mapping faces sg)) sigmas
                   else Ok []
               | None => Ok []
               end ;;
      Ok (t, [PPostfix faces lgc d evals])
  | OInfixString n =>
      l <- build_infix_string (S (size t)) t n ;; Ok (t, [PInfixStr l])
  | OFlag n =>
      _ <- expect (n <? size t) ;;
      b <- flag_internal (S (size t)) t n ;; Ok (t, [PFlag b])
  | OEval n sigmas =>
      (* SenseEvaluator at a point off every surface (model: Sense.v) *)
      _ <- expect (n <? size t) ;;
      evals <- mapM (fun sg => sense_eval_bool t (sigma_of sg) n) sigmas ;;
      Ok (t, [PEvals evals])
  | OInfix n sigmas =>
      l <- build_infix (S (size t)) t n ;;
      evals <- mapM (fun sg => infix_evaluate l (sigma_of sg)) sigmas ;;
      Ok (t, [PInfix l evals])
  end.

Definition err_code {A} (r : res A) : nat :=
  match r with Ok _ => 0 | Throw => 1 | Assert => 2 | Fuel => 3 end.

Fixpoint run_ops (W : nat) (chk : bool) (t : tree) (ops : list opc) : list outp :=
  match ops with
  | [] => []
  | o :: r =>
      match run_op W chk t o with
      | Ok (t', outs) => outs ++ run_ops W chk t' r
      | e => [PErr (err_code e)]
      end
  end.

Definition run_seq (W : nat) (chk : bool) (ops : list opc) : list outp := run_ops W chk empty_tree ops.

(** token-vector entry points (second harness mode) *)
Definition run_postfix_tokens (W : nat) (l : list tok) (values : list bool) : res bool :=
  logic_evaluate W l values.
Definition run_infix_tokens (l : list tok) (values : list bool) : res bool :=
  infix_evaluate l (fun f => nth f values false).
Definition run_max_depth (l : list tok) : res (option Z) := calc_max_depth l.
