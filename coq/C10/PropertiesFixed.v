(** * C10 property theorems for the CANDIDATE REPAIR of CsgTree::exchange
    (patch /tmp/bwt/C10fix.patch; model coq/C10/CsgFixed.v).  To replace
    C10_exchange_sound / C10_exchange_topo_refuted /
    C10_replace_and_simplify_sound / C10_replace_and_simplify_topo_refuted /
    C10_simplify_sound in Properties_C10.v once the repair is committed.
    NOT reachable from Properties_C10.v. Same shape: exact + Print Assumptions. *)
From Coq Require Import List Arith Bool NArith ZArith Lia.
From Celer Require Import C10.Csg C10.Logic C10.DeMorgan C10.Run C10.CsgProofs C10.ReplaceProofs
  C10.Witness C10.Witness3 C10.CsgFixed C10.RunFixed C10.CsgFixedProofs.
Import ListNotations.

(** exchange: no extra check, no "the check passes" hypothesis *)
Theorem C10fx_exchange_sound : forall t i n t' old,
  inv t -> exchange_fx t i n = Ok (t', old) ->
  (forall c, In c (children n) -> c < i) ->
  inv t' /\ size t' = size t /\ volumes t' = volumes t /\
  forall s, ids_sound t s -> eval_node s (eval t s) n = eval t s i ->
    ids_sound t' s /\ forall k, eval t' s k = eval t s k.
Proof. exact exchange_fx_sound. Qed.
Print Assumptions C10fx_exchange_sound.

Theorem C10fx_replace_and_simplify_sound : forall fuel t key value t' unk,
  inv t -> replace_and_simplify_fx fuel t key value = Ok (t', unk) ->
  inv t' /\ size t' = size t /\
  forall s, ids_sound t s -> eval t s key = value ->
    ids_sound t' s /\ forall k, eval t' s k = eval t s k.
Proof. exact replace_and_simplify_fx_sound. Qed.
Print Assumptions C10fx_replace_and_simplify_sound.

Theorem C10fx_simplify_sound : forall t start t',
  inv t -> simplify_tree_fx t start = Ok t' ->
  inv t' /\ size t' = size t /\ volumes t' = volumes t /\
  forall s, ids_sound t s -> ids_sound t' s /\ forall j, eval t' s j = eval t s j.
Proof. exact simplify_tree_fx_sound. Qed.
Print Assumptions C10fx_simplify_sound.

(** where the repaired function differs from the unrepaired one: only where
    the checked model function stops *)
Theorem C10fx_exchange_agrees : forall t i n r,
  exchange true t i n = Ok r -> exchange_fx t i n = Ok r.
Proof.
  intros t i n r H. unfold exchange in H. unfold exchange_fx.
  destruct (expect (false_id <? i)); simpl in *; try discriminate.
  destruct (expect (user_node_valid i n)); simpl in *; try discriminate.
  destruct (simplify_node t n) as [r0| | |]; simpl in *; try discriminate.
  destruct (get_node t i) as [old| | |]; simpl in *; try discriminate.
  destruct (match r0 with Some x => x | None => n end); auto;
  destruct (ids_find _ (ids t)) as [j|]; auto;
  destruct (j =? i); auto; destruct (i <? j); auto;
  destruct (get_node t j) as [hi| | |]; simpl in *; try discriminate;
  destruct (children_ltb i hi); simpl in *; try discriminate; auto.
Qed.
Print Assumptions C10fx_exchange_agrees.

(** the former refutation witnesses keep the invariants with the repair *)
Fixpoint tree_after_fx (t : tree) (ops : list opc) : res tree :=
  match ops with
  | [] => Ok t
  | o :: r => match run_op_fx 64 t o with Ok (t', _) => tree_after_fx t' r | _ => Assert end
  end.

Example ex_fx_r1 : exists t, tree_after_fx empty_tree (r1_ops ++ [OExchange 4 (NJoined OpAnd [2; 3])]) = Ok t /\ inv t.
Proof. eexists. split; [vm_compute; reflexivity|apply inv_b_sound; vm_compute; reflexivity]. Qed.

Example ex_fx_r3 : exists t, tree_after_fx empty_tree (r3_ops ++ [OReplace 7 false]) = Ok t /\ inv t
  /\ nth_error (nodes t) 9 = Some (NJoined OpAnd [4; 6]) /\ nth_error (nodes t) 11 = Some (NAliased 9).
Proof.
  eexists. split; [vm_compute; reflexivity|]. split; [apply inv_b_sound; vm_compute; reflexivity|].
  split; reflexivity.
Qed.
