(** * C10: replace_and_simplify / simplify are sound (CsgTreeUtils.cc, NodeReplacer.hh) *)
From Coq Require Import List Arith Bool Lia.
From Celer Require Import C10.Csg C10.CsgProofs.
Import ListNotations.

(** ** the extra topological check never changes a successful result *)
Lemma simplify_one_chk : forall t i r, simplify_one true t i = Ok r -> simplify_one false t i = Ok r.
Proof.
  unfold simplify_one. intros t i r H. inv_ok. rewrite Hm. cbn [bind].
  rewrite (exchange_chk _ _ _ _ Hm0). cbn [bind]. exact H.
Qed.

Lemma sweep_fwd_chk : forall st k t n mx sp r,
  sweep_fwd true st t n k mx sp = Ok r -> sweep_fwd false st t n k mx sp = Ok r.
Proof.
  induction k as [|k IH]; intros t n mx sp r H; simpl in *; auto.
  destruct (nth_error st n) as [rv|]; [|discriminate].
  inv_ok. rewrite Hm. cbn [bind].
  destruct (is_known rv && is_surface a).
  - inv_ok. rewrite (exchange_chk _ _ _ _ Hm0). cbn [bind]. destruct a0. auto.
  - inv_ok. rewrite (simplify_one_chk _ _ _ Hm0). cbn [bind]. destruct a0 as [t1 [o|]]; auto.
Qed.

Lemma rs_loop_chk : forall fuel t st mx r,
  rs_loop true fuel t st mx = Ok r -> rs_loop false fuel t st mx = Ok r.
Proof.
  induction fuel as [|fuel IH]; intros t st mx r H; simpl in *; auto.
  inv_ok. rewrite Hm. cbn [bind]. destruct a as [st1 upd]. inv_ok.
  rewrite (sweep_fwd_chk _ _ _ _ _ _ _ Hm0). cbn [bind].
  destruct a as [[t1 mx1] sp]. destruct sp; auto.
Qed.

Lemma rs_final_chk : forall st k t n unk r,
  rs_final true st t n k unk = Ok r -> rs_final false st t n k unk = Ok r.
Proof.
  induction k as [|k IH]; intros t n unk r H; simpl in *; auto.
  destruct (nth_error st n) as [rs|]; [|discriminate].
  inv_ok. rewrite Hm. cbn [bind].
  destruct (is_surface a); auto.
  destruct (is_known rs).
  - inv_ok. rewrite (exchange_chk _ _ _ _ Hm0). cbn [bind]. destruct a0. auto.
  - inv_ok. rewrite (simplify_one_chk _ _ _ Hm0). cbn [bind]. destruct a0. auto.
Qed.

Theorem replace_and_simplify_chk : forall fuel t key value r,
  replace_and_simplify true fuel t key value = Ok r ->
  replace_and_simplify false fuel t key value = Ok r.
Proof.
  unfold replace_and_simplify. intros fuel t key value r H. inv_ok.
  rewrite Hm. cbn [bind]. rewrite (rs_loop_chk _ _ _ _ _ Hm0). cbn [bind].
  destruct a0. apply rs_final_chk; auto.
Qed.

(** ** soundness of the replacement states *)
Definition r_ok (r : repl) (b : bool) : Prop :=
  (r = KnownTrue -> b = true) /\ (r = KnownFalse -> b = false).

Definition st_ok (st : list repl) (f : nat -> bool) : Prop :=
  forall k r, nth_error st k = Some r -> r_ok r (f k).

Lemma repl_eqb_eq : forall a b, repl_eqb a b = true <-> a = b.
Proof. intros [] []; unfold repl_eqb; simpl; split; intros; try discriminate; auto. Qed.

Lemma nr_update_ok : forall st f n r st' u,
  st_ok st f -> r_ok r (f n) -> nr_update st n r = Ok (st', u) -> st_ok st' f.
Proof.
  unfold nr_update. intros st f n r st' u Hst Hr H.
  destruct (nth_error st n) as [dest|] eqn:En; [|discriminate].
  destruct ((repl_eqb dest KnownTrue && repl_eqb r KnownFalse) || (repl_eqb dest KnownFalse && repl_eqb r KnownTrue)); [discriminate|].
  destruct (repl_rank dest <? repl_rank r).
  - injection H as <- <-. intros k r0 Hk. apply set_nth_cases in Hk.
    destruct Hk as [[-> ->]|[_ Hk]]; auto.
  - injection H as <- <-. auto.
Qed.

Lemma nr_join_ok : forall f r l st upd st' u,
  st_ok st f -> (forall d, In d l -> r_ok r (f d)) ->
  nr_join st r l upd = Ok (st', u) -> st_ok st' f.
Proof.
  intros f r. induction l as [|d l IH]; intros st upd st' u Hst Hr H; simpl in H.
  - injection H as <- <-. auto.
  - inv_ok. destruct a as [st1 u1]. eapply IH; [| |exact H].
    + eapply nr_update_ok; eauto. apply Hr. left; auto.
    + intros. apply Hr. right; auto.
Qed.

Lemma r_ok_unknown : forall b, r_ok Unknown b.
Proof. split; discriminate. Qed.
Lemma r_ok_unvisited : forall b, r_ok Unvisited b.
Proof. split; discriminate. Qed.

Lemma node_replacer_ok : forall s st f n nd st' u,
  st_ok st f -> f n = eval_node s f nd ->
  node_replacer st n nd = Ok (st', u) -> st_ok st' f.
Proof.
  unfold node_replacer. intros s st f n nd st' u Hst Hn H.
  destruct (nth_error st n) as [r|] eqn:En; [|discriminate].
  pose proof (Hst n r En) as [Ht Hf].
  destruct nd as [| |a|a|x|o l]; simpl in Hn.
  - inv_ok. subst. auto.
  - inv_ok. subst. auto.
  - apply (nr_update_ok st f a r st' u Hst); [|exact H]. rewrite <- Hn. split; auto.
  - apply (nr_update_ok st f a (repl_negate r) st' u Hst); [|exact H]. split; intros E.
    + destruct r; try discriminate. rewrite Hf in Hn by auto. destruct (f a); auto; discriminate.
    + destruct r; try discriminate. rewrite Ht in Hn by auto. destruct (f a); auto; discriminate.
  - injection H as <- <-. auto.
  - eapply nr_join_ok; eauto. intros d Hd.
    destruct r; simpl; try apply r_ok_unknown; try apply r_ok_unvisited.
    + (* known false *)
      destruct o; simpl; try apply r_ok_unknown.
      split; [discriminate|]. intros _. rewrite Hf in Hn by auto.
      symmetry in Hn. destruct (f d) eqn:Ed; auto.
      assert (existsb f l = true) by (apply existsb_exists; eauto). congruence.
    + (* known true *)
      destruct o; simpl; try apply r_ok_unknown.
      split; [|discriminate]. intros _. rewrite Ht in Hn by auto.
      symmetry in Hn. rewrite forallb_forall in Hn. auto.
Qed.

Section Replace.
Variable s : nat -> bool.
Variable f : nat -> bool.      (* the values before the operation *)
Variable N : nat.

Definition good (t : tree) : Prop :=
  inv t /\ ids_sound t s /\ (forall k, eval t s k = f k) /\ size t = N.

Lemma good_node_eq : forall t n nd, good t -> get_node t n = Ok nd -> f n = eval_node s f nd.
Proof.
  intros t n nd [Hinv [_ [Hf _]]] H. apply get_node_ok in H.
  rewrite <- Hf. rewrite (eval_unfold t s n nd (proj1 Hinv) H).
  apply eval_node_ext. intros; apply Hf.
Qed.

Lemma sweep_back_ok : forall t k st n upd st' u,
  good t -> st_ok st f -> sweep_back t st n k upd = Ok (st', u) -> st_ok st' f.
Proof.
  intros t. induction k as [|k IH]; intros st n upd st' u Hg Hst H; simpl in H.
  - injection H as <- <-. auto.
  - inv_ok. destruct a0 as [st1 u1]. eapply IH; [exact Hg| |exact H].
    eapply node_replacer_ok; eauto. eapply good_node_eq; eauto.
Qed.

Lemma good_exchange_const : forall t n rv t' old,
  good t -> 1 < n -> r_ok rv (f n) -> is_known rv = true ->
  exchange true t n (const_node rv) = Ok (t', old) -> good t'.
Proof.
  intros t n rv t' old [Hinv [Hs [Hf Hsz]]] Hn Hr Hk H.
  assert (Hc : forall c, In c (children (const_node rv)) -> c < n).
  { unfold const_node. destruct (repl_eqb rv KnownTrue); simpl; tauto. }
  destruct (exchange_sound t n _ t' old Hinv H Hc) as [I [S [V [_ Hv]]]].
  assert (Hpre : eval_node s (eval t s) (const_node rv) = eval t s n).
  { rewrite Hf. unfold const_node. destruct Hr as [Ht Hfa].
    destruct (repl_eqb rv KnownTrue) eqn:E.
    - apply repl_eqb_eq in E. simpl. symmetry; auto.
    - unfold is_known in Hk. rewrite E in Hk. simpl in Hk. apply repl_eqb_eq in Hk.
      simpl. symmetry; auto. }
  destruct (Hv s Hs Hpre) as [A B].
  split; auto. split; auto. split; [intros; rewrite B; auto|lia].
Qed.

Lemma good_simplify_one : forall t n t' r,
  good t -> simplify_one true t n = Ok (t', r) -> good t'.
Proof.
  intros t n t' r [Hinv [Hs [Hf Hsz]]] H.
  destruct (simplify_one_sound t n t' r Hinv H) as [I [S [V [_ Hv]]]].
  destruct (Hv s Hs) as [A B].
  split; auto. split; auto. split; [intros; rewrite B; auto|lia].
Qed.

Lemma sweep_fwd_ok : forall st k t n mx sp t' mx' sp',
  good t -> st_ok st f -> 1 < n ->
  sweep_fwd true st t n k mx sp = Ok (t', mx', sp') -> good t'.
Proof.
  intros st. induction k as [|k IH]; intros t n mx sp t' mx' sp' Hg Hst Hn H; simpl in H.
  - injection H as <- <- <-. auto.
  - destruct (nth_error st n) as [rv|] eqn:En; [|discriminate]. inv_ok.
    destruct (is_known rv && is_surface a) eqn:Ek.
    + inv_ok. destruct a0 as [t1 old]. apply andb_true_iff in Ek. destruct Ek as [Ek _].
      refine (IH t1 (S n) _ _ _ _ _ _ Hst _ H); [|lia].
      eapply good_exchange_const; eauto.
    + inv_ok. destruct a0 as [t1 [o|]]; (refine (IH t1 (S n) _ _ _ _ _ _ Hst _ H); [|lia];
        eapply good_simplify_one; eauto).
Qed.

Lemma rs_loop_ok : forall fuel t st mx t' st',
  good t -> st_ok st f -> rs_loop true fuel t st mx = Ok (t', st') ->
  good t' /\ st_ok st' f.
Proof.
  induction fuel as [|fuel IH]; intros t st mx t' st' Hg Hst H; simpl in H; [discriminate|].
  inv_ok. destruct a as [st1 upd]. inv_ok. destruct a as [[t1 mx1] sp].
  assert (Hst1 : st_ok st1 f) by (eapply sweep_back_ok; eauto).
  assert (Hg1 : good t1) by (eapply sweep_fwd_ok; [exact Hg|exact Hst1| |exact Hm0]; unfold false_id; lia).
  destruct sp.
  - eapply IH; eauto.
  - injection H as <- <-. auto.
Qed.

Lemma rs_final_ok : forall st k t n unk t' unk',
  good t -> st_ok st f -> 1 < n ->
  rs_final true st t n k unk = Ok (t', unk') -> good t'.
Proof.
  intros st. induction k as [|k IH]; intros t n unk t' unk' Hg Hst Hn H; simpl in H.
  - injection H as <- <-. auto.
  - destruct (nth_error st n) as [rs|] eqn:En; [|discriminate]. inv_ok.
    destruct (is_surface a).
    + refine (IH t (S n) _ _ _ Hg Hst _ H). lia.
    + destruct (is_known rs) eqn:Ek.
      * inv_ok. destruct a0 as [t1 old]. refine (IH t1 (S n) _ _ _ _ Hst _ H); [|lia].
        eapply good_exchange_const; eauto.
      * inv_ok. destruct a0 as [t1 o]. refine (IH t1 (S n) _ _ _ _ Hst _ H); [|lia].
        eapply good_simplify_one; eauto.
Qed.

End Replace.

Lemma nth_error_repeat_some : forall {A} (x : A) n k r, nth_error (repeat x n) k = Some r -> r = x.
Proof.
  intros A x n k r H. apply nth_error_In in H. apply repeat_spec in H. auto.
Qed.

(** [replace_and_simplify_sound]: for every sense assignment that is
    consistent with the earlier replacements (hash-cons table sound) and with
    the new one ([eval key = value]), every node keeps its value, the table
    stays sound, the tree keeps its size, order and invariants. *)
Theorem replace_and_simplify_sound : forall fuel t key value t' unk,
  inv t -> replace_and_simplify true fuel t key value = Ok (t', unk) ->
  inv t' /\ size t' = size t /\
  replace_and_simplify false fuel t key value = Ok (t', unk) /\
  forall s, ids_sound t s -> eval t s key = value ->
    ids_sound t' s /\ forall k, eval t' s k = eval t s k.
Proof.
  intros fuel t key value t' unk Hinv H.
  pose proof (replace_and_simplify_chk _ _ _ _ _ H) as Hchk.
  unfold replace_and_simplify in H. inv_ok. destruct a0 as [t1 st]. apply Nat.ltb_lt in Hm.
  set (st3 := set_nth (set_nth (set_nth (repeat Unvisited (size t)) true_id KnownTrue) false_id KnownFalse)
                key (if value then KnownTrue else KnownFalse)) in *.
  assert (Hst3 : forall s, eval t s key = value -> st_ok st3 (eval t s)).
  { intros s Hkey k r Hk. subst st3. destruct Hinv as [Hwf [Hbase _]].
    apply set_nth_cases in Hk. destruct Hk as [[-> ->]|[Hne Hk]].
    - rewrite Hkey. destruct value; split; auto; discriminate.
    - apply set_nth_cases in Hk. destruct Hk as [[-> ->]|[Hne1 Hk]].
      + split; [discriminate|]. intros _. apply eval_false; auto.
      + apply set_nth_cases in Hk. destruct Hk as [[-> ->]|[Hne0 Hk]].
        * split; [|discriminate]. intros _. apply eval_true; auto.
        * apply nth_error_repeat_some in Hk. subst. apply r_ok_unvisited. }
  (* structure (independent of s): use the trivial "good" with any consistent s?  the
     invariants and size do not depend on s, but our lemmas are stated per s; we get
     them from an arbitrary assignment when one exists, and directly otherwise *)
  assert (Hper : forall s, ids_sound t s -> eval t s key = value ->
            good s (eval t s) (size t) t' /\ True).
  { intros s Hs Hkey.
    assert (G0 : good s (eval t s) (size t) t) by (split; [exact Hinv|split; [exact Hs|split; [intros; reflexivity|reflexivity]]]).
    destruct (rs_loop_ok s (eval t s) (size t) fuel t st3 key t1 st G0 (Hst3 s Hkey) Hm0) as [G1 S1].
    split; auto.
    eapply rs_final_ok; [exact G1|exact S1| |exact H]. unfold false_id; lia. }
  (* invariants without reference to an assignment *)
  assert (Hstruct : inv t' /\ size t' = size t).
  { (* run the same argument with the degenerate value function: structural facts only *)
    clear Hper Hst3.
    assert (Hloop : forall fuel t st mx t' st', inv t -> rs_loop true fuel t st mx = Ok (t', st') ->
               inv t' /\ size t' = size t).
    { clear. induction fuel as [|fuel IH]; intros t st mx t' st' Hinv H; simpl in H; [discriminate|].
      inv_ok. destruct a as [st1 upd]. inv_ok. destruct a as [[t1 mx1] sp].
      assert (Hf : forall k t n mx sp t' mx' sp', inv t -> 1 < n ->
                 sweep_fwd true st1 t n k mx sp = Ok (t', mx', sp') -> inv t' /\ size t' = size t).
      { clear. induction k as [|k IH]; intros t n mx sp t' mx' sp' Hinv Hn H; simpl in H.
        - injection H as <- <- <-. auto.
        - destruct (nth_error st1 n) as [rv|]; [|discriminate]. inv_ok.
          destruct (is_known rv && is_surface a).
          + inv_ok. destruct a0 as [t1 old].
            assert (Hc : forall c, In c (children (const_node rv)) -> c < n).
            { unfold const_node. destruct (repl_eqb rv KnownTrue); simpl; tauto. }
            destruct (exchange_sound t n _ t1 old Hinv Hm0 Hc) as [I [Sz _]].
            destruct (IH t1 (S n) _ _ _ _ _ I ltac:(lia) H). split; auto. lia.
          + inv_ok. destruct a0 as [t1 o].
            destruct (simplify_one_sound t n t1 o Hinv Hm0) as [I [Sz _]].
            destruct o; destruct (IH t1 (S n) _ _ _ _ _ I ltac:(lia) H); split; auto; lia. }
      assert (H2 : 1 < S false_id) by (unfold false_id; lia).
      destruct (Hf _ _ _ _ _ _ _ _ Hinv H2 Hm0) as [I1 S1].
      destruct sp.
      - destruct (IH _ _ _ _ _ I1 H). split; auto. lia.
      - injection H as <- <-. auto. }
    assert (Hfin : forall st k t n unk t' unk', inv t -> 1 < n ->
               rs_final true st t n k unk = Ok (t', unk') -> inv t' /\ size t' = size t).
    { clear. intros st. induction k as [|k IH]; intros t n unk t' unk' Hinv Hn H; simpl in H.
      - injection H as <- <-. auto.
      - destruct (nth_error st n) as [rs|]; [|discriminate]. inv_ok.
        destruct (is_surface a).
        + refine (IH t (S n) _ _ _ Hinv _ H). lia.
        + destruct (is_known rs).
          * inv_ok. destruct a0 as [t1 old].
            assert (Hc : forall c, In c (children (const_node rs)) -> c < n).
            { unfold const_node. destruct (repl_eqb rs KnownTrue); simpl; tauto. }
            destruct (exchange_sound t n _ t1 old Hinv Hm0 Hc) as [I [Sz _]].
            destruct (IH t1 (S n) _ _ _ I ltac:(lia) H). split; auto. lia.
          * inv_ok. destruct a0 as [t1 o].
            destruct (simplify_one_sound t n t1 o Hinv Hm0) as [I [Sz _]].
            destruct (IH t1 (S n) _ _ _ I ltac:(lia) H). split; auto. lia. }
    destruct (Hloop _ _ _ _ _ _ Hinv Hm0) as [I1 S1].
    assert (H2 : 1 < S false_id) by (unfold false_id; lia).
    destruct (Hfin _ _ _ _ _ _ _ I1 H2 H) as [I2 S2].
    split; auto. lia. }
  destruct Hstruct as [I Sz]. split; auto. split; auto. split; auto.
  intros s Hs Hkey. destruct (Hper s Hs Hkey) as [[_ [A [B _]]] _]. auto.
Qed.

(** ** simplify_up / simplify *)
Lemma simplify_up_loop_sound : forall k t n res t' res',
  inv t -> simplify_up_loop true t n k res = Ok (t', res') ->
  inv t' /\ size t' = size t /\ volumes t' = volumes t /\
  simplify_up_loop false t n k res = Ok (t', res') /\
  forall s, ids_sound t s -> ids_sound t' s /\ forall j, eval t' s j = eval t s j.
Proof.
  induction k as [|k IH]; intros t n res t' res' Hinv H; simpl in H.
  - injection H as <- <-.
    split; [auto|split; [auto|split; [auto|split; [auto|intros s Hs; split; auto]]]].
  - inv_ok. destruct a as [t1 sp].
    destruct (simplify_one_sound t n t1 sp Hinv Hm) as [I [Sz [V [F Hv]]]].
    destruct (IH _ _ _ _ _ I H) as [I2 [Sz2 [V2 [F2 Hv2]]]].
    split; auto. split; [lia|]. split; [congruence|]. split.
    + simpl. rewrite F. cbn [bind]. exact F2.
    + intros s Hs. destruct (Hv s Hs) as [A B]. destruct (Hv2 s A) as [A2 B2].
      split; auto. intros j. rewrite B2. auto.
Qed.

Lemma simplify_loop_sound : forall fuel t start t',
  inv t -> simplify_loop true fuel t start = Ok t' ->
  inv t' /\ size t' = size t /\ volumes t' = volumes t /\
  simplify_loop false fuel t start = Ok t' /\
  forall s, ids_sound t s -> ids_sound t' s /\ forall j, eval t' s j = eval t s j.
Proof.
  induction fuel as [|fuel IH]; intros t start t' Hinv H; simpl in H; [discriminate|].
  inv_ok. destruct a as [t1 next]. pose proof Hm as Hup. unfold simplify_up in Hm. inv_ok.
  destruct (simplify_up_loop_sound _ _ _ _ _ _ Hinv Hm) as [I [Sz [V [F Hv]]]].
  assert (Fup : simplify_up false t start = Ok (t1, next)).
  { unfold simplify_up. rewrite Hm0. cbn [bind]. exact F. }
  simpl. rewrite Fup. cbn [bind].
  destruct next as [s'|].
  - inv_ok. rewrite Hm1. cbn [bind].
    destruct (IH _ _ _ I H) as [I2 [Sz2 [V2 [F2 Hv2]]]].
    split; auto. split; [lia|]. split; [congruence|]. split; auto.
    intros s Hs. destruct (Hv s Hs) as [A B]. destruct (Hv2 s A) as [A2 B2].
    split; auto. intros j. rewrite B2. auto.
  - injection H as <-. split; auto.
Qed.

(** [simplify(tree, start)] keeps every node's value (for every assignment
    under which the hash-cons table is sound), the size and the order *)
Theorem simplify_tree_sound : forall t start t',
  inv t -> simplify_tree true t start = Ok t' ->
  inv t' /\ size t' = size t /\ volumes t' = volumes t /\
  simplify_tree false t start = Ok t' /\
  forall s, ids_sound t s -> ids_sound t' s /\ forall j, eval t' s j = eval t s j.
Proof.
  intros t start t' Hinv H. unfold simplify_tree in *. inv_ok. rewrite Hm. cbn [bind].
  apply simplify_loop_sound; auto.
Qed.
