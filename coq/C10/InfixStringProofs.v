(** * C10: the infix STRING of InfixStringBuilder parses back to the node's value *)
From Coq Require Import List Arith Bool Lia.
From Celer Require Import C10.Csg C10.CsgProofs C10.Logic C10.LogicProofs C10.Sense.
Import ListNotations.

Lemma opb_opb_ : forall o a b, opb_ o a b = opb o a b.
Proof. intros [] a b; reflexivity. Qed.

Section IS.
Variable t : tree.
Variable s : nat -> bool.
Hypothesis Hwf : wf t.
Let v := eval t s.

(** [l] is a complete expression of value [b]: the parser consumes exactly [l] *)
Definition parses (l : list stok) (b : bool) : Prop :=
  forall rest pf, length l < pf -> sparse s pf (l ++ rest) = Some (b, rest).

(** argument lists: [l0 , l1 , ... ] *)
Fixpoint join_args (ls : list (list stok)) : list stok :=
  match ls with
  | [] => []
  | [l] => l
  | l :: r => l ++ SSep :: join_args r
  end.

Lemma join_args_cons : forall l l1 ls, join_args (l :: l1 :: ls) = l ++ SSep :: join_args (l1 :: ls).
Proof. reflexivity. Qed.
Lemma join_args_one : forall l, join_args [l] = l.
Proof. reflexivity. Qed.

Lemma sargs_ok : forall o p ls bs,
  Forall2 (fun l b => forall rest, p (l ++ rest) = Some (b, rest)) ls bs -> ls <> [] ->
  forall k acc rest, length ls <= k ->
  sargs p o k (join_args ls ++ SClose :: rest) acc
  = Some (fold_left (fun a b => opb o a b) bs acc, rest).
Proof.
  intros o p ls bs F. induction F as [|l b ls bs Hl F IH]; intros Hne k acc rest Hk; [congruence|].
  destruct k as [|k]; [simpl in Hk; lia|].
  destruct ls as [|l1 ls].
  - inversion F; subst. rewrite join_args_one. cbn [sargs]. rewrite Hl. rewrite opb_opb_. reflexivity.
  - rewrite join_args_cons. cbn [sargs]. rewrite <- app_assoc. cbn [app]. rewrite Hl. rewrite opb_opb_.
    cbn [fold_left]. apply IH; [discriminate|]. cbn [length] in *. lia.
Qed.

Lemma join_args_length : forall ls, length ls <= S (length (join_args ls)).
Proof.
  induction ls as [|l ls IH]; [simpl; lia|]. destruct ls as [|l1 ls]; [simpl; lia|].
  rewrite join_args_cons, app_length. cbn [length] in *. lia.
Qed.

Lemma join_args_ge : forall ls l, In l ls -> length l <= length (join_args ls).
Proof.
  induction ls as [|l0 ls IH]; intros l Hin; [destruct Hin|].
  destruct ls as [|l1 ls].
  - destruct Hin as [<-|[]]. rewrite join_args_one. lia.
  - rewrite join_args_cons, app_length. cbn [length]. destruct Hin as [<-|Hin]; [lia|].
    specialize (IH l Hin). lia.
Qed.

Lemma join_args_snoc : forall ls l, ls <> [] -> join_args (ls ++ [l]) = join_args ls ++ SSep :: l.
Proof.
  induction ls as [|l0 ls IH]; intros l Hne; [congruence|].
  destruct ls as [|l1 ls].
  - reflexivity.
  - change ((l0 :: l1 :: ls) ++ [l]) with (l0 :: l1 :: (ls ++ [l])).
    rewrite !join_args_cons. change (l1 :: ls ++ [l]) with ((l1 :: ls) ++ [l]).
    rewrite IH by discriminate. rewrite <- app_assoc. reflexivity.
Qed.

Theorem infix_string_impl_sound : forall fuel n negated l ng,
  infix_string_impl fuel t n negated = Ok (l, ng) ->
  ng = false /\ parses l (xorb negated (v n)).
Proof.
  induction fuel as [|fuel IH]; intros n negated l ng H; simpl in H; [discriminate|].
  inv_ok. apply get_node_ok in Hm.
  pose proof (eval_unfold t s n a Hwf Hm) as E. fold v in E.
  destruct a as [| |b|b|x|o ds]; try discriminate.
  - injection H as <- <-. split; auto. intros rest pf Hpf. destruct pf; [simpl in Hpf; lia|].
    rewrite E. destruct negated; simpl; reflexivity.
  - rewrite E. simpl. apply IH; auto.
  - inv_ok. destruct a as [la nga]. inv_ok. subst.
    destruct (IH _ _ _ _ Hm0) as [-> P]. split; auto.
    rewrite E. simpl. intros rest pf Hpf. destruct negated; simpl.
    + destruct pf; [simpl in Hpf; lia|]. cbn [sparse app]. rewrite P by (simpl in Hpf; lia).
      destruct (v b); reflexivity.
    + rewrite P by auto. destruct (v b); reflexivity.
  - injection H as <- <-. split; auto. intros rest pf Hpf. destruct pf; [simpl in Hpf; lia|].
    rewrite E. destruct negated; simpl; destruct (s x); reflexivity.
  - inv_ok. destruct ds as [|d0 r]; [discriminate|]. inv_ok.
    destruct a0 as [l0 ng0]. inv_ok. destruct a0 as [l1 ng1]. inv_ok. subst.
    destruct (IH _ _ _ _ Hm1) as [-> P0]. rewrite xorb_false_l in P0.
    set (head := (if negated then [SBang] else []) ++ [match o with OpAnd => SAll | OpOr => SAny end]) in *.
    (* the loop over the remaining daughters *)
    assert (Hrest : forall rr ls ds0 acc ngi lr ngr,
      (fix rest (r : list nat) (acc : list stok) (ng : bool) {struct r} : res (list stok * bool) :=
         match r with
         | [] => Ok (acc, ng)
         | d :: r' => ' (l, ng') <- infix_string_impl fuel t d ng;; rest r' (acc ++ [SSep] ++ l) ng'
         end) rr acc ngi = Ok (lr, ngr) ->
      ngi = false -> ls <> [] -> acc = head ++ join_args ls ->
      Forall2 (fun l d => parses l (v d)) ls ds0 ->
      ngr = false /\ exists ls', ls' <> [] /\ lr = head ++ join_args ls' /\
        Forall2 (fun l d => parses l (v d)) ls' (ds0 ++ rr)).
    { induction rr as [|d rr IHr]; intros ls ds0 acc ngi lr ngr Hr Hng Hne Hacc F.
      - injection Hr as <- <-. split; auto. exists ls. rewrite app_nil_r. auto.
      - apply bind_ok in Hr. destruct Hr as [[ld ngd] [Hd Hr]]. subst ngi.
        destruct (IH _ _ _ _ Hd) as [-> Pd]. rewrite xorb_false_l in Pd.
        destruct (IHr (ls ++ [ld]) (ds0 ++ [d]) _ _ _ _ Hr eq_refl) as [A [ls' [B [C D]]]].
        + destruct ls; discriminate.
        + subst acc. rewrite join_args_snoc by auto. rewrite <- app_assoc. reflexivity.
        + apply Forall2_app; auto.
        + split; auto. exists ls'. rewrite <- app_assoc in D. auto. }
    destruct (Hrest r [l0] [d0] (head ++ l0) false l1 ng Hm2 eq_refl) as [-> [ls [Hne [-> F]]]];
      [discriminate|reflexivity|constructor; [exact P0|constructor]|].
    split; auto. simpl in F.
    (* value *)
    assert (Hval : fold_left (fun a b => opb o a b) (map v (d0 :: r)) (unit_of o) = v n).
    { rewrite E, eval_node_join. clear. generalize (d0 :: r) as l. intros l.
      assert (G : forall ll acc, fold_left (fun a b => opb o a b) (map v ll) acc = opb o acc (joinv o v ll)).
      { induction ll as [|d ll IHl]; intros acc; simpl.
        - destruct o; destruct acc; reflexivity.
        - rewrite IHl. rewrite opb_assoc. f_equal. destruct o; reflexivity. }
      rewrite G. destruct o; reflexivity. }
    intros rest pf Hpf.
    assert (Hlen : length ((head ++ join_args ls) ++ [SClose]) = length head + length (join_args ls) + 1).
    { rewrite !app_length. simpl. lia. }
    rewrite Hlen in Hpf.
    (* parse of  all( args )  with fuel f *)
    assert (Hgroup : forall f, length (join_args ls) + 1 < f ->
      sparse s f ((match o with OpAnd => SAll | OpOr => SAny end) :: join_args ls ++ SClose :: rest)
      = Some (v n, rest)).
    { intros f Hf. destruct f as [|f]; [lia|].
      assert (F2 : Forall2 (fun l b => forall rest0, sparse s f (l ++ rest0) = Some (b, rest0)) ls (map v (d0 :: r))).
      { clear -F Hf. revert F. generalize (d0 :: r) as dl. intros dl F.
        assert (Hall : forall l, In l ls -> length l < f).
        { intros l Hin. pose proof (join_args_ge ls l Hin). lia. }
        clear Hf. induction F as [|l d ls0 dl0 Hl F IHF]; simpl; constructor.
        - intros rest0. apply Hl. apply Hall. left; auto.
        - apply IHF. intros; apply Hall; right; auto. }
      pose proof (join_args_length ls) as Hcnt.
      destruct o; cbn [sparse].
      + rewrite (sargs_ok OpAnd _ _ _ F2 Hne) by lia. rewrite <- Hval. reflexivity.
      + rewrite (sargs_ok OpOr _ _ _ F2 Hne) by lia. rewrite <- Hval. reflexivity. }
    subst head. destruct negated; cbn [app length] in *.
    + destruct pf as [|pf]; [lia|]. rewrite <- !app_assoc. cbn [app sparse].
      rewrite Hgroup by lia. simpl. destruct (v n); reflexivity.
    + rewrite <- !app_assoc. cbn [app]. rewrite Hgroup by lia. simpl. destruct (v n); reflexivity.
Qed.

(** InfixStringBuilder: the string of node [n] is a complete expression whose
    value under [s] is the node's value *)
Theorem build_infix_string_sound : forall fuel n l,
  build_infix_string fuel t n = Ok l -> infix_string_value s l = Some (eval t s n).
Proof.
  intros fuel n l H. unfold build_infix_string in H. inv_ok. destruct a0 as [l0 ng]. inv_ok. subst l0.
  destruct (infix_string_impl_sound _ _ _ _ _ Hm0) as [_ P].
  unfold infix_string_value. specialize (P [] (S (length l))). rewrite app_nil_r in P.
  rewrite P by lia. rewrite xorb_false_l. reflexivity.
Qed.

End IS.
