(** * C10: a volume not flagged "internal surfaces" is a conjunction of literals *)
From Coq Require Import List Arith Bool Lia.
From Celer Require Import C10.Csg C10.CsgProofs C10.Logic.
Import ListNotations.

(** surfaces reachable from a node (= the faces of its logic expression) *)
Fixpoint surfs (fuel : nat) (t : tree) (n : nat) : list nat :=
  match fuel with
  | 0 => []
  | S f =>
      match nth_error (nodes t) n with
      | Some (NSurface x) => [x]
      | Some (NAliased a) | Some (NNegated a) => surfs f t a
      | Some (NJoined _ ds) => flat_map (surfs f t) ds
      | _ => []
      end
  end.

(** flip the sense of one surface *)
Definition flip (x : nat) (s : nat -> bool) : nat -> bool :=
  fun y => if y =? x then negb (s y) else s y.

(** the precondition under which the flagger's [Negated] case is exact: no
    negation whose operand is an (unsimplified) alias *)
Definition no_neg_alias (t : tree) : Prop :=
  forall n a b, nth_error (nodes t) n = Some (NNegated a) ->
                nth_error (nodes t) a <> Some (NAliased b).

Inductive lit (t : tree) : nat -> Prop :=
| lit_true : forall n, nth_error (nodes t) n = Some NTrue -> lit t n
| lit_surf : forall n x, nth_error (nodes t) n = Some (NSurface x) -> lit t n
| lit_neg : forall n a, nth_error (nodes t) n = Some (NNegated a) -> lit t a -> lit t n.

Section Flag.
Variable t : tree.
Hypothesis Hwf : wf t.

Lemma lit_flips : forall n, lit t n -> forall fuel s x, In x (surfs fuel t n) ->
  eval t (flip x s) n = negb (eval t s n).
Proof.
  induction 1 as [n Hn|n y Hn|n a Hn Ha IH]; intros fuel s x Hx;
    (destruct fuel as [|fuel]; [simpl in Hx; tauto|]); simpl in Hx; rewrite Hn in Hx; simpl in Hx.
  - tauto.
  - destruct Hx as [<-|[]]. rewrite !(eval_unfold t _ n _ Hwf Hn). simpl.
    unfold flip. rewrite Nat.eqb_refl. reflexivity.
  - rewrite !(eval_unfold t _ n _ Hwf Hn). simpl. f_equal. eapply IH; eauto.
Qed.

Lemma flag_any_false : forall f ds, flag_any f ds = Ok false -> forall d, In d ds -> f d = Ok false.
Proof.
  induction ds as [|d0 ds IH]; simpl; intros H d Hd; [tauto|].
  inv_ok. destruct a; [discriminate|]. destruct Hd as [<-|Hd]; auto.
Qed.

Hypothesis Hnna : no_neg_alias t.

Lemma flag_neg_lit : forall fuel n a,
  flag_internal fuel t n = Ok false -> nth_error (nodes t) n = Some (NNegated a) -> lit t n.
Proof.
  induction fuel as [|fuel IH]; intros n a H Hn; simpl in H; [discriminate|].
  unfold get_node in H. rewrite Hn in H. cbn [bind] in H.
  destruct (nth_error (nodes t) a) as [c|] eqn:Ea; cbn [bind] in H; [|discriminate].
  apply lit_neg with a; auto.
  destruct c as [| |b|b|x|o l].
  - apply lit_true; auto.
  - destruct fuel; simpl in H; [discriminate|]. unfold get_node in H. rewrite Ea in H. discriminate.
  - exfalso. eapply Hnna; eauto.
  - eapply IH; eauto.
  - eapply lit_surf; eauto.
  - discriminate.
Qed.

(** [flag_simple_sound] *)
Theorem flag_simple_sound_gen : forall fuel n,
  flag_internal fuel t n = Ok false ->
  forall s x, In x (surfs fuel t n) -> eval t s n = true -> eval t (flip x s) n = false.
Proof.
  induction fuel as [|fuel IH]; intros n H s x Hx Hv; [simpl in Hx; tauto|].
  pose proof H as H0. simpl in H. simpl in Hx. unfold get_node in H.
  destruct (nth_error (nodes t) n) as [nd|] eqn:Hn; cbn [bind] in H; [|discriminate].
  assert (E1 : eval t (flip x s) n = eval_node (flip x s) (eval t (flip x s)) nd) by (apply eval_unfold; auto).
  assert (E2 : eval t s n = eval_node s (eval t s) nd) by (apply eval_unfold; auto).
  rewrite E1. rewrite E2 in Hv. clear E1 E2.
  destruct nd as [| |a|a|y|o ds].
  - destruct Hx.
  - discriminate.
  - cbn [eval_node] in *. eapply IH; eauto.
  - pose proof (flag_neg_lit _ _ _ H0 Hn) as L.
    assert (Hx' : In x (surfs (S fuel) t n)) by (simpl; rewrite Hn; auto).
    pose proof (lit_flips n L (S fuel) s x Hx') as F.
    rewrite (eval_unfold t (flip x s) n _ Hwf Hn), (eval_unfold t s n _ Hwf Hn) in F.
    rewrite F, Hv. reflexivity.
  - destruct Hx as [<-|[]]. cbn [eval_node] in *.
    unfold flip. rewrite Nat.eqb_refl, Hv. reflexivity.
  - inv_ok. destruct o; [|discriminate].
    cbn [eval_node] in *.
    apply in_flat_map in Hx. destruct Hx as [d [Hd Hxd]].
    rewrite forallb_forall in Hv.
    pose proof (flag_any_false _ _ H d Hd) as Fd.
    pose proof (IH d Fd s x Hxd (Hv d Hd)) as E.
    apply not_true_is_false. intros C. rewrite forallb_forall in C.
    rewrite (C d Hd) in E. discriminate.
Qed.

End Flag.
