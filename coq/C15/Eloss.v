(** * C15 model, part 2: TsaiUrbanDistribution and the energy-loss fluctuation
    distributions (celeritas/em/distribution/*.hh) over an explicit stream.
    Executable over any [Num]; no proofs here. *)
From Coq Require Import ZArith List Bool.
From Celer Require Import Base.Num Base.Stream Base.Vec3 C15.Samplers.
Import ListNotations.
Local Open Scope num_scope.

Section Eloss.
  Context {T : Type} `{Num T}.
  Notation M := (M T).

  (** ** TsaiUrbanDistribution(energy, mass): umax = 2 (1 + E/m);
      do { uu = -log(u1 u2); u = uu * (u3 < 0.25 ? 1.6 : 1.6/3) } while (u > umax);
      return 1 - 2 (u/umax)^2 *)
  Definition tsai_umax (energy mass : T) : T := n2 * (n1 + energy / mass).
  Fixpoint tsai_urban_loop (fuel : nat) (umax : T) : M T :=
    match fuel with
    | O => fail
    | S f =>
        u1 <- draw ;; u2 <- draw ;;
        let uu := - nlog (u1 * u2) in
        b <- bernoulli (nQ 1 4) ;;
        let u := uu * (if b then nQ 16 10 else nQ 16 10 / nofZ 3) in
        if umax <? u then tsai_urban_loop f umax
        else ret (n1 - n2 * nsq (u / umax))
    end.
  Definition tsai_urban (energy mass : T) : M T :=
    fun s => tsai_urban_loop (length s) (tsai_umax energy mass) s.

  (** ** EnergyLossGaussianDistribution(mean, stddev): resample the (stateful)
      normal until 0 < x <= 2 mean *)
  Fixpoint eloss_gauss_loop (fuel : nat) (mean sd : T) (st : option T) : M (T * option T) :=
    match fuel with
    | O => fail
    | S f =>
        '(x, st') <- normal_step mean sd st ;;
        if orb (x <=? n0) (n2 * mean <? x) then eloss_gauss_loop f mean sd st'
        else ret (x, st')
    end.
  Definition eloss_gauss (mean sd : T) (st : option T) : M (T * option T) :=
    fun s => eloss_gauss_loop (S (length s)) mean sd st s.
  (** two successive samples from one distribution object (spare kept) *)
  Definition eloss_gauss2 (mean sd : T) : M (T * T) :=
    '(x1, st) <- eloss_gauss mean sd None ;;
    '(x2, _) <- eloss_gauss mean sd st ;; ret (x1, x2).

  (** ** EnergyLossGammaDistribution(mean, var): k = mean^2/var; Gamma(k, mean/k) *)
  Definition eloss_gamma (mean var : T) : M T :=
    let k := nsq mean / var in gamma k (mean / k).

  (** ** EnergyLossHelper: choice of the fluctuation model.
      0 none, 1 gamma, 2 gaussian, 3 urban *)
  Definition eloss_model (mean_loss max_energy max_transfer mass_ratio bohr_var : T) : nat :=
    let e0 := nQ 1 100000 in
    if mean_loss <? e0 then 0%nat
    else if max_energy <=? e0 then 0%nat
    else if orb (orb (n1 <=? mass_ratio) (mean_loss <? nofZ 10 * max_energy))
                (n2 * max_energy <? max_transfer) then 3%nat
    else if n2 * n2 * bohr_var <=? nsq mean_loss then 2%nat
    else 1%nat.

  (** ** EnergyLossUrbanDistribution: sampling from the state computed by the
      constructor *)
  Record urban_state := Urban {
    ub_max_energy : T; ub_scaling : T; ub_be0 : T; ub_be1 : T;
    ub_xs0 : T; ub_xs1 : T; ub_xs_ion : T }.

  Definition fast_urban (mean sd : T) : M T :=
    if sd <=? n2 * n2 * mean then ('(x, _) <- eloss_gauss mean sd None ;; ret x)
    else uniform n0 (n2 * mean).

  (** one excitation level: (result, mean, variance) accumulators *)
  Definition urban_exc_level (xs be : T) (acc : T * T * T) : M (T * T * T) :=
    let '(res, mean, var) := acc in
    if nofZ 8 <? xs then ret (res, mean + xs * be, var + xs * nsq be)
    else if n0 <? xs then
      n <- poisson true xs ;;
      if (0 <? n)%Z then
        f <- uniform (nofZ (n - 1)) (nofZ (n + 1)) ;; ret (res + f * be, mean, var)
      else ret acc
    else ret acc.
  Definition urban_excitation (u : urban_state) : M T :=
    a1 <- urban_exc_level (ub_xs0 u) (ub_be0 u) (n0, n0, n0) ;;
    '(res, mean, var) <- urban_exc_level (ub_xs1 u) (ub_be1 u) a1 ;;
    if n0 <? var then (x <- fast_urban mean (nsqrt var) ;; ret (res + x)) else ret res.

  Fixpoint urban_ion_sum (n : nat) (a b alpha_e0 : T) (acc : T) : M T :=
    match n with
    | O => ret acc
    | S m => f <- uniform a b ;; urban_ion_sum m a b alpha_e0 (acc + alpha_e0 / f)
    end.
  Definition urban_ionization (u : urban_state) : M T :=
    let e0 := nQ 1 100000 in
    let ratio := ub_max_energy u / e0 in
    let xs := ub_xs_ion u in
    let fast := nofZ 8 <? xs in
    let alpha := if fast then (xs + nofZ 8) * ratio / (nofZ 8 * ratio + xs) else n1 in
    let mlc := alpha * nlog alpha / (alpha - n1) in
    let ncoll := if fast then xs * ratio * (alpha - n1) / ((ratio - n1) * alpha) else n0 in
    r1 <- (if fast then fast_urban (ncoll * mlc * e0) (e0 * nsqrt (xs * (alpha - nsq mlc)))
           else ret n0) ;;
    if andb (n0 <? xs) (alpha <? ratio) then
      n <- poisson true (xs - ncoll) ;;
      urban_ion_sum (Z.to_nat n) (alpha / ratio) n1 (alpha * e0) r1
    else ret r1.
  Definition eloss_urban (u : urban_state) : M T :=
    a <- urban_excitation u ;; b <- urban_ionization u ;; ret (ub_scaling u * (a + b)).

  (** ** EnergyLossUrbanDistribution constructor: width correction, excitation
      cross sections (two-level / single-level / none), ionisation cross section.
      Material inputs: UrbanFluctuationParameters (binding energies E_i, their
      logs, oscillator strengths f_i), mean excitation energy I and log I.
      Returns the state and the excitation branch taken:
      0 = none (max_energy <= I), 1 = none (w <= log I), 2 = single level
      (log I < w <= log E_2), 3 = two levels (w > log E_2) *)
  Record urban_mat := UrbanMat {
    um_I : T; um_logI : T; um_be0 : T; um_be1 : T; um_lbe0 : T; um_lbe1 : T; um_f0 : T; um_f1 : T }.
  Definition urban_rate : T := nQ 56 100.
  Definition urban_e0 : T := nQ 1 100000.
  Definition urban_construct (m : urban_mat) (unscaled_mean max_energy two_mebsgs beta_sq : T)
      : urban_state * nat :=
    let scaling := nhalf * nmin (nQ 1 1000 / max_energy) n1 + n1 in
    let mean := unscaled_mean / scaling in
    let w := nlog two_mebsgs - beta_sq in
    let w0 := um_logI m in
    let branch :=
      if um_I m <? max_energy then
        if w0 <? w then (if um_lbe1 m <? w then 3%nat else 2%nat) else 1%nat
      else 0%nat in
    let '(xs0, xs1) :=
      match branch with
      | 3%nat =>
          let c := mean * (n1 - urban_rate) / (w - w0) in
          (c * um_f0 m * (w - um_lbe0 m) / um_be0 m, c * um_f1 m * (w - um_lbe1 m) / um_be1 m)
      | 2%nat => (mean * (n1 - urban_rate) / um_be0 m, n0)
      | _ => (n0, n0)
      end in
    let sc :=
      match branch with
      | 3%nat | 2%nat =>
          if xs0 <? nofZ 42 then nhalf + (n2 * n2 - nhalf) * nsqrt (xs0 / nofZ 42) else n2 * n2
      | _ => n1
      end in
    let '(be0', xs0') :=
      match branch with
      | 3%nat | 2%nat => (um_be0 m * sc, xs0 / sc)
      | _ => (um_be0 m, xs0)
      end in
    let xs_ion0 := mean * (max_energy - urban_e0)
                   / (max_energy * urban_e0 * nlog (max_energy / urban_e0)) in
    let xs_ion := if n0 <? xs0' + xs1 then xs_ion0 * urban_rate else xs_ion0 in
    (Urban max_energy scaling be0' (um_be1 m) xs0' xs1 xs_ion, branch).

  (** mean energy lost per ionising collision when sampled over the whole
      interval (alpha = 1): E = e0 / U(e0/Emax, 1) *)
  Definition urban_ion_mean (max_energy : T) : T :=
    urban_e0 * max_energy * nlog (max_energy / urban_e0) / (max_energy - urban_e0).
  (** first moment implied by the constructor's parameters *)
  Definition urban_params_first_moment (u : urban_state) : T :=
    ub_scaling u * (ub_xs0 u * ub_be0 u + ub_xs1 u * ub_be1 u
                    + ub_xs_ion u * urban_ion_mean (ub_max_energy u)).
End Eloss.
