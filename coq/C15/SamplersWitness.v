(** * C15 witnesses evaluated on the float instance (vm_compute). *)
From Coq Require Import ZArith List Floats.
From Celer Require Import Base.Num Base.NumF Base.Stream C15.Samplers.
Import ListNotations.

(** The code as originally pinned (no clamp) returns a huge count for a
    negative Gaussian sample: a concrete stream (floats, as executed). *)
Lemma poisson_unclamped_refuted :
  exists (s : list float) k r,
    poisson (T:=float) false 16.5%float s = Some (k, r) /\ (k >= 4294967290)%Z.
Proof.
  exists [0.75%float; 0x1.4f8b588e368f1p-17%float].
  eexists; eexists; split; [vm_compute; reflexivity|vm_compute; discriminate].
Qed.

(** ... while the repaired code returns 0 on the same stream *)
Lemma poisson_clamped_witness :
  exists r, poisson (T:=float) true 16.5%float [0.75%float; 0x1.4f8b588e368f1p-17%float] = Some (0%Z, r).
Proof. eexists; vm_compute; reflexivity. Qed.

