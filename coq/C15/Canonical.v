(** * C15 model, part 3: the generic-engine path of
    celeritas/random/distribution/GenerateCanonical.hh.

    [GenerateCanonical<Generator, double>::operator()] is
    [std::generate_canonical<double, 53>(rng)]; with libstdc++ that is

      b = min(53, bits); r = max - min + 1; log2r = floor(log2 r);
      m = max(1, (b + log2r - 1) / log2r);
      sum = 0; tmp = 1;
      repeat m times: sum += double(rng() - min) * tmp; tmp *= r;
      ret = sum / tmp;  if (ret >= 1) ret = nextafter(1, 0);

    for an engine producing w-bit words (r = 2^w, min = 0).  All quantities
    are integers below 2^(w m) scaled by a power of two, so the binary64
    arithmetic is modelled exactly in Z: [rnd53] is round-to-nearest-even to 53
    significant bits; multiplications/divisions by powers of two are exact.
    The result is the pair (N, K) standing for the double N / 2^K.
    No proofs here. *)
From Coq Require Import ZArith List Bool.
Import ListNotations.
Local Open Scope Z_scope.

(** round a non-negative integer to 53 significant bits, ties to even *)
Definition rnd53 (n : Z) : Z :=
  if n <? 2 ^ 53 then n
  else
    let e := Z.log2 n - 52 in
    let q := n / 2 ^ e in
    let r := n mod 2 ^ e in
    let half := 2 ^ (e - 1) in
    if r <? half then q * 2 ^ e
    else if half <? r then (q + 1) * 2 ^ e
    else if Z.even q then q * 2 ^ e else (q + 1) * 2 ^ e.

(** number of engine calls: m = max(1, (53 + w - 1) / w) *)
Definition canon_calls (w : Z) : Z := Z.max 1 ((53 + w - 1) / w).

(** the accumulation loop: [k] calls left, sum and tmp = 2^(w i) so far *)
Fixpoint canon_loop (w : Z) (k : nat) (sum tmp : Z) (xs : list Z) : option (Z * Z * list Z) :=
  match k with
  | O => Some (sum, tmp, xs)
  | S k' =>
      match xs with
      | [] => None
      | x :: r => canon_loop w k' (rnd53 (sum + rnd53 x * tmp)) (tmp * 2 ^ w) r
      end
  end.

(** result (N, K, rest): the double N / 2^K.  [clamp] = the [ret >= 1] repair
    of libstdc++ (true is the code as it is) *)
Definition canonical_generic (clamp : bool) (w : Z) (xs : list Z) : option (Z * Z * list Z) :=
  match canon_loop w (Z.to_nat (canon_calls w)) 0 1 xs with
  | None => None
  | Some (sum, tmp, rest) =>
      let K := Z.log2 tmp in
      let N := if andb clamp (tmp <=? sum) then tmp - 2 ^ (K - 53) else sum in
      Some (N, K, rest)
  end.

(** entry point for the correspondence check: (N, K, words consumed) *)
Definition run_canonical (w : Z) (xs : list Z) : option (Z * Z * Z) :=
  match canonical_generic true w xs with
  | Some (n, k, r) => Some (n, k, Z.of_nat (length xs - length r))
  | None => None
  end.
