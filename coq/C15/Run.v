(** * C15: uniform entry points for the correspondence check (float instance).
    Every sampler is normalised to [stream -> option (values, draws consumed)]. *)
From Coq Require Import ZArith List Floats.
From Celer Require Import Base.Num Base.NumF Base.FloatFun Base.Stream Base.Vec3 C15.Samplers.
Import ListNotations.

Definition fin {A} (f : A -> list float) (s : list float) (r : option (A * list float))
  : option (list float * nat) :=
  match r with None => None | Some (a, s') => Some (f a, (length s - length s')%nat) end.
Definition ofb (b : bool) : float := if b then 1%float else 0%float.
Definition ofv (v : vec3 float) := [vx v; vy v; vz v].

Definition run_uniform a b s := fin (fun x => [x]) s (uniform (T:=float) a b s).
Definition run_exponential l s := fin (fun x => [x]) s (exponential (T:=float) l s).
Definition run_bernoulli p s := fin (fun x => [ofb x]) s (bernoulli (T:=float) p s).
Definition run_bernoulli2 a b s := fin (fun x => [ofb x]) s (bernoulli2 (T:=float) a b s).
Definition run_rejection f m s := fin (fun x => [ofb x]) s (rejection (T:=float) f m s).
Definition run_reciprocal a b s := fin (fun x => [x]) s (reciprocal (T:=float) a b s).
Definition run_invsquare a b s := fin (fun x => [x]) s (inverse_square (T:=float) a b s).
Definition run_radial r s := fin (fun x => [x]) s (radial (T:=float) r s).
Definition run_isotropic s := fin ofv s (isotropic (T:=float) s).
Definition run_box lo hi s := fin ofv s (uniform_box (T:=float) lo hi s).
Definition run_normal2 m sd s := fin (fun p => [fst p; snd p]) s (normal2 (T:=float) m sd s).
Definition run_poisson clamp l s := fin (fun k => [fofZ k]) s (poisson (T:=float) clamp l s).
Definition run_selector ws tot s := fin (fun i => [fofZ (Z.of_nat i)]) s (selector (T:=float) ws tot s).
Definition run_gamma a b s := fin (fun x => [x]) s (gamma (T:=float) a b s).
