(** * C15: uniform entry points for the correspondence check (float instance).
    Every sampler is normalised to [stream -> option (values, draws consumed)]. *)
From Coq Require Import ZArith List Floats.
From Celer Require Import Base.Num Base.NumF Base.FloatFun Base.Stream Base.Vec3 C15.Samplers C15.Eloss C15.ElossDelta.
Import ListNotations.

Definition fin {A} (f : A -> list float) (s : list float) (r : option (A * list float))
  : option (list float * nat) :=
  match r with None => None | Some (a, s') => Some (f a, (length s - length s')%nat) end.
Definition ofb (b : bool) : float := if b then 1%float else 0%float.
Definition ofv (v : vec3 float) := [vx v; vy v; vz v].

Definition run_uniform a b s := fin (fun x => [x]) s (uniform (T:=float) a b s).
Definition run_exponential l s := fin (fun x => [x]) s (exponential (T:=float) l s).
Definition run_bernoulli p s := fin (fun x => [ofb x]) s (bernoulli (T:=float) p s).
Definition run_bernoulli2 a b s := fin (fun x => [ofb x]) s (bernoulli2 (T:=float) a b s).
Definition run_rejection f m s := fin (fun x => [ofb x]) s (rejection (T:=float) f m s).
Definition run_reciprocal a b s := fin (fun x => [x]) s (reciprocal (T:=float) a b s).
Definition run_invsquare a b s := fin (fun x => [x]) s (inverse_square (T:=float) a b s).
Definition run_radial r s := fin (fun x => [x]) s (radial (T:=float) r s).
Definition run_isotropic s := fin ofv s (isotropic (T:=float) s).
Definition run_box lo hi s := fin ofv s (uniform_box (T:=float) lo hi s).
Definition run_normal2 m sd s := fin (fun p => [fst p; snd p]) s (normal2 (T:=float) m sd s).
Definition run_poisson clamp l s := fin (fun k => [fofZ k]) s (poisson (T:=float) clamp l s).
Definition run_selector ws tot s := fin (fun i => [fofZ (Z.of_nat i)]) s (selector (T:=float) ws tot s).
Definition run_gamma a b s := fin (fun x => [x]) s (gamma (T:=float) a b s).

(** part 2: Tsai-Urban and energy-loss fluctuation distributions *)
Definition run_tsaiurban e m s := fin (fun x => [x]) s (tsai_urban (T:=float) e m s).
Definition run_elgauss mean sd s := fin (fun p => [fst p; snd p]) s (eloss_gauss2 (T:=float) mean sd s).
Definition run_elgamma mean var s := fin (fun x => [x]) s (eloss_gamma (T:=float) mean var s).
Definition run_elgauss1 mean var s :=
  fin (fun p => [fst p]) s (eloss_gauss (T:=float) mean (PrimFloat.sqrt var) None s).
Definition run_elmodel (ml me mt mr bv : float) := eloss_model ml me mt mr bv.
Definition run_elurban (me sc b0 b1 x0 x1 xi : float) s :=
  fin (fun x => [x]) s (eloss_urban (T:=float) (Urban me sc b0 b1 x0 x1 xi) s).

(** Urban constructor: state (7 values) + branch id *)
Definition run_elurban_ctor (i li b0 b1 l0 l1 f0 f1 mean me tmb bsq : float) :=
  let '(u, br) := urban_construct (T:=float) (UrbanMat i li b0 b1 l0 l1 f0 f1) mean me tmb bsq in
  ([ub_max_energy u; ub_scaling u; ub_be0 u; ub_be1 u; ub_xs0 u; ub_xs1 u; ub_xs_ion u], br).

(** EnergyLossDeltaDistribution *)
Definition run_eldelta (mean : float) s := fin (fun x => [x]) s (eloss_delta (T:=float) mean s).
