(** * C15 proofs, part 3 (instance R): supports and termination of the
    Tsai-Urban and energy-loss fluctuation samplers. *)
From Coq Require Import Reals ZArith List Bool Lra Lia.
From Celer Require Import Base.Num Base.NumR Base.Stream Base.Vec3
  C15.Samplers C15.SamplersProofs C15.SamplersLaws C15.Eloss.
Import ListNotations.
Local Open Scope R_scope.

Ltac numR2 := numR; unfold n2 in *; numR.

Lemma ln_le_0' u : u <= 1 -> ln u <= 0.
Proof.
  intros Hu. destruct (Rlt_dec 0 u) as [Hpos|Hneg].
  - destruct Hu as [Hlt| ->]; [left; rewrite <- ln_1; apply ln_increasing; lra|rewrite ln_1; lra].
  - unfold ln. destruct (Rlt_dec 0 u); [contradiction|lra].
Qed.

(** ** Tsai-Urban: cos(theta) in [-1, 1] *)
Lemma tsai_urban_loop_support umax : 0 < umax -> forall fuel s x s', Forall canonical s ->
  tsai_urban_loop (T:=R) fuel umax s = Some (x, s') -> -1 <= x <= 1.
Proof.
  intros Hum. induction fuel as [|f IH]; intros s x s' Hs Hrun; [discriminate|].
  cbn [tsai_urban_loop] in Hrun. unfold bind, draw in Hrun.
  destruct s as [|u1 [|u2 [|u3 r]]]; try discriminate.
  inversion Hs as [|? ? [H10 H11] Hs1]; subst. inversion Hs1 as [|? ? [H20 H21] Hs2]; subst.
  inversion Hs2 as [|? ? _ Hs3]; subst.
  unfold ret in Hrun. numR2. rewrite bernoulli_run in Hrun.
  set (fac := if Rltb u3 (1 / 4) then 16 / 10 else 16 / 10 / 3) in *.
  assert (Hfac : 0 < fac) by (unfold fac; destruct (Rltb u3 (1 / 4)); lra).
  assert (Huu : 0 <= - ln (u1 * u2)).
  { assert (u1 * u2 <= 1) by nra. pose proof (ln_le_0' _ H). lra. }
  destruct (Rltb_spec umax (- ln (u1 * u2) * fac)) as [Hgt|Hle].
  - apply (IH _ _ _ Hs3 Hrun).
  - inversion Hrun; subst.
    set (q := - ln (u1 * u2) * fac / umax).
    assert (Hq : 0 <= q <= 1).
    { unfold q. split.
      - apply Rmult_le_pos; [nra|]. left. apply Rinv_0_lt_compat. exact Hum.
      - apply Rmult_le_reg_r with umax; [exact Hum|].
        replace (- ln (u1 * u2) * fac / umax * umax) with (- ln (u1 * u2) * fac) by (field; lra). lra. }
    split; nra.
Qed.

Lemma tsai_urban_support e m s x s' : 0 < m -> 0 <= e -> Forall canonical s ->
  tsai_urban (T:=R) e m s = Some (x, s') -> -1 <= x <= 1.
Proof.
  intros Hm He Hs Hrun. unfold tsai_urban in Hrun.
  apply (tsai_urban_loop_support (tsai_umax e m)) with (fuel := length s) (s := s) (s' := s'); try assumption.
  unfold tsai_umax. numR2. assert (0 <= e / m) by (apply Rmult_le_pos; [lra|left; apply Rinv_0_lt_compat; lra]). lra.
Qed.

(** termination on a high draw: u1 u2 >= exp(-umax / 1.6) ends the loop there *)
Lemma tsai_urban_terminates_on_high_draw umax f u1 u2 u3 s :
  0 < umax -> exp (- (umax / (16 / 10))) <= u1 * u2 <= 1 ->
  exists x, tsai_urban_loop (T:=R) (S f) umax (u1 :: u2 :: u3 :: s) = Some (x, s).
Proof.
  intros Hum [Hlo Hhi]. cbn [tsai_urban_loop]. unfold bind, draw, ret. numR2. rewrite bernoulli_run.
  set (fac := if Rltb u3 (1 / 4) then 16 / 10 else 16 / 10 / 3) in *.
  assert (Hfac : 0 < fac <= 16 / 10) by (unfold fac; destruct (Rltb u3 (1 / 4)); lra).
  assert (Hpos : 0 < u1 * u2) by (eapply Rlt_le_trans; [apply exp_pos|exact Hlo]).
  assert (Hln : - (umax / (16 / 10)) <= ln (u1 * u2)).
  { rewrite <- (ln_exp (- (umax / (16 / 10)))).
    destruct Hlo as [Hlt|Heq]; [left; apply ln_increasing; [apply exp_pos|exact Hlt]|rewrite Heq; lra]. }
  pose proof (ln_le_0' _ Hhi) as Hln0.
  replace (Rltb umax (- ln (u1 * u2) * fac)) with false.
  - eexists; reflexivity.
  - symmetry. apply Rltb_false.
    apply Rle_trans with (umax / (16 / 10) * (16 / 10)); [|right; field].
    apply Rmult_le_compat; lra.
Qed.

(** ** Gaussian energy loss: 0 < x <= 2 mean *)
Lemma eloss_gauss_loop_support mean sd : forall fuel st s x st' s',
  eloss_gauss_loop (T:=R) fuel mean sd st s = Some ((x, st'), s') -> 0 < x <= 2 * mean.
Proof.
  induction fuel as [|f IH]; intros st s x st' s' Hrun; [discriminate|].
  cbn [eloss_gauss_loop] in Hrun. unfold bind in Hrun.
  destruct (normal_step mean sd st s) as [[[x0 st0] s0]|]; [|discriminate].
  numR2. destruct (Rleb_spec x0 0) as [Hle|Hgt]; cbn [orb] in Hrun.
  - apply (IH _ _ _ _ _ Hrun).
  - destruct (Rltb_spec (2 * mean) x0) as [Hbig|Hok].
    + apply (IH _ _ _ _ _ Hrun).
    + unfold ret in Hrun. inversion Hrun; subst. lra.
Qed.
Lemma eloss_gauss_support mean sd st s x st' s' :
  eloss_gauss (T:=R) mean sd st s = Some ((x, st'), s') -> 0 < x <= 2 * mean.
Proof. apply eloss_gauss_loop_support. Qed.

(** termination: a fresh pair of draws with |sin| small enough is accepted --
    in particular u1 = 0 or 1/2 (sample = mean) ends the loop when mean > 0 *)
Lemma eloss_gauss_terminates_at_mean mean sd f u2 s : 0 < mean ->
  exists st', eloss_gauss_loop (T:=R) (S f) mean sd None (0 :: u2 :: s) = Some ((mean, st'), s).
Proof.
  intros Hm. cbn [eloss_gauss_loop]. unfold bind. rewrite normal_run.
  replace (twopi * 0) with 0 by (unfold twopi; numR2; ring). rewrite sin_0.
  replace (sqrt (-2 * ln u2) * 0 * sd + mean) with mean by ring. numR2.
  replace (Rleb mean 0) with false by (symmetry; apply Rleb_false; lra).
  replace (Rltb (2 * mean) mean) with false by (symmetry; apply Rltb_false; lra).
  cbn [orb]. eexists; reflexivity.
Qed.

(** ** Gamma energy loss: positive *)
Lemma eloss_gamma_support mean var s x s' : 0 < mean -> 0 < var ->
  Forall (fun u => 0 < u < 1) s -> eloss_gamma (T:=R) mean var s = Some (x, s') -> 0 < x.
Proof.
  intros Hm Hv Hs Hrun. unfold eloss_gamma in Hrun. numR2.
  assert (Hk : 0 < mean * mean / var) by (apply Rdiv_lt_0_compat; nra).
  apply (gamma_support (mean * mean / var) (mean / (mean * mean / var)) s x s'); try assumption.
  apply Rdiv_lt_0_compat; assumption.
Qed.

(** ** Model selection: the helper picks Urban for thin layers / electrons,
    else Gaussian iff mean^2 >= 4 Bohr variance, else gamma *)
Lemma eloss_model_cases ml me mt mr bv :
  let m := eloss_model (T:=R) ml me mt mr bv in
  (m = 0%nat <-> (ml < 1 / 100000 \/ me <= 1 / 100000)) /\
  (m = 2%nat -> 4 * bv <= ml * ml /\ mr < 1 /\ 10 * me <= ml /\ mt <= 2 * me) /\
  (m = 1%nat -> ml * ml < 4 * bv /\ mr < 1 /\ 10 * me <= ml /\ mt <= 2 * me).
Proof.
  cbv zeta. unfold eloss_model. numR2.
  destruct (Rltb_spec ml (1 / 100000)); [split; [split; [intros _; left; assumption|reflexivity]|split; discriminate]|].
  destruct (Rleb_spec me (1 / 100000)); [split; [split; [intros _; right; assumption|reflexivity]|split; discriminate]|].
  destruct (Rleb_spec 1 mr); cbn [orb];
    [split; [split; [discriminate|intros [?|?]; lra]|split; discriminate]|].
  destruct (Rltb_spec ml (10 * me)); cbn [orb];
    [split; [split; [discriminate|intros [?|?]; lra]|split; discriminate]|].
  destruct (Rltb_spec (2 * me) mt); cbn [orb];
    [split; [split; [discriminate|intros [?|?]; lra]|split; discriminate]|].
  destruct (Rleb_spec (2 * 2 * bv) (ml * ml)).
  - split; [split; [discriminate|intros [?|?]; lra]|]. split; [intros _; repeat split; lra|discriminate].
  - split; [split; [discriminate|intros [?|?]; lra]|]. split; [discriminate|intros _; repeat split; lra].
Qed.

(** ** Urban constructor: the first moments implied by its parameters add up to
    the requested mean energy loss, in every excitation branch.
    Sum_i Sigma_i E_i (excitation, Poisson means times level energies) +
    Sigma_ion * <E_ion> (ionisation) = mean / scaling, and the sampler multiplies
    by [scaling].  Hypotheses on the material data are those FluctuationParams
    establishes: f_0 + f_1 = 1, f_i >= 0, f_0 ln E_0 + f_1 ln E_1 = ln I, E_0 <= E_1. *)
Lemma urban_scaling_pos (Emax : R) : 0 < Emax ->
  1 <= nhalf * nmin (nQ 1 1000 / Emax) n1 + n1.
Proof.
  intros HE. numR2. assert (0 < 1 / 1000 / Emax) by (apply Rdiv_lt_0_compat; lra).
  destruct (Rltb 1 (1 / 1000 / Emax)); lra.
Qed.

Lemma urban_sc_pos (x : R) : 0 <= x ->
  0 < (if Rltb x 42 then 1 / 2 + (2 * 2 - 1 / 2) * sqrt (x / 42) else 2 * 2).
Proof.
  intros Hx. destruct (Rltb x 42); [|lra].
  pose proof (sqrt_pos (x / 42)). lra.
Qed.

Lemma urban_params_mean (m : urban_mat (T:=R)) unscaled Emax tmb bsq :
  0 < unscaled -> 1 / 100000 < Emax ->
  0 < um_be0 m -> 0 < um_be1 m -> um_f0 m + um_f1 m = 1 -> 0 <= um_f0 m -> 0 <= um_f1 m ->
  um_f0 m * um_lbe0 m + um_f1 m * um_lbe1 m = um_logI m -> um_lbe0 m <= um_lbe1 m ->
  urban_params_first_moment (fst (urban_construct m unscaled Emax tmb bsq)) = unscaled.
Proof.
  intros Hun HE Hb0 Hb1 Hf Hf0 Hf1 HI Hle.
  pose proof (urban_scaling_pos Emax ltac:(lra)) as Hsc.
  unfold urban_construct.
  set (scaling := nhalf * nmin (nQ 1 1000 / Emax) n1 + n1) in *.
  set (mean := unscaled / scaling).
  assert (Hmean : 0 < mean) by (unfold mean; apply Rdiv_lt_0_compat; lra).
  set (w0 := um_logI m) in *.
  assert (HL : 0 < ln (Emax / (1 / 100000))).
  { rewrite <- ln_1. apply ln_increasing; [lra|].
    apply Rmult_lt_reg_r with (1 / 100000); [lra|].
    replace (Emax / (1 / 100000) * (1 / 100000)) with Emax by field. lra. }
  (* ionisation part *)
  assert (Hion : mean * (Emax - 1 / 100000) / (Emax * (1 / 100000) * ln (Emax / (1 / 100000)))
                 * (1 / 100000 * Emax * ln (Emax / (1 / 100000)) / (Emax - 1 / 100000)) = mean).
  { field. repeat split; lra. }
  assert (Hfin : forall xs0 be0 xs1 exc,
            xs0 * be0 + xs1 * um_be1 m = exc ->
            (0 < xs0 + xs1 -> exc = mean * (1 - 56 / 100)) -> (xs0 + xs1 <= 0 -> exc = 0) ->
            urban_params_first_moment
              (Urban Emax scaling be0 (um_be1 m) xs0 xs1
                 (if nltb n0 (nadd xs0 xs1)
                  then mean * (Emax - urban_e0) / (Emax * urban_e0 * nlog (Emax / urban_e0)) * urban_rate
                  else mean * (Emax - urban_e0) / (Emax * urban_e0 * nlog (Emax / urban_e0)))) = unscaled).
  { intros xs0 be0 xs1 exc Hexc Hp Hz. unfold urban_params_first_moment, urban_ion_mean, urban_e0, urban_rate.
    cbn [ub_scaling ub_xs0 ub_be0 ub_xs1 ub_be1 ub_xs_ion ub_max_energy]. numR2. rewrite Hexc.
    destruct (Rltb_spec 0 (xs0 + xs1)) as [Hpos|Hnp].
    - rewrite (Hp Hpos).
      replace (mean * (Emax - 1 / 100000) / (Emax * (1 / 100000) * ln (Emax / (1 / 100000))) * (56 / 100)
               * (1 / 100000 * Emax * ln (Emax / (1 / 100000)) / (Emax - 1 / 100000)))
        with (56 / 100 * (mean * (Emax - 1 / 100000) / (Emax * (1 / 100000) * ln (Emax / (1 / 100000)))
               * (1 / 100000 * Emax * ln (Emax / (1 / 100000)) / (Emax - 1 / 100000)))) by ring.
      rewrite Hion. unfold mean. field. lra.
    - rewrite (Hz ltac:(lra)). rewrite Hion. unfold mean. field. lra. }
  numR2. fold scaling. fold mean. set (w := ln tmb - bsq) in *.
  destruct (Rltb_spec (um_I m) Emax) as [HbI|HbI].
  2:{ cbv beta iota zeta. cbn [fst]. apply (Hfin 0 (um_be0 m) 0 0); [ring|intros; lra|reflexivity]. }
  destruct (Rltb_spec w0 w) as [Hw|Hw].
  2:{ cbv beta iota zeta. cbn [fst]. apply (Hfin 0 (um_be0 m) 0 0); [ring|intros; lra|reflexivity]. }
  destruct (Rltb_spec (um_lbe1 m) w) as [Hw1|Hw1]; cbv beta iota zeta; cbn [fst].
  - (* two levels *)
    set (c := mean * (1 - 56 / 100) / (w - w0)).
    assert (Hc : 0 < c) by (unfold c; apply Rdiv_lt_0_compat; [nra|lra]).
    set (xs0 := c * um_f0 m * (w - um_lbe0 m) / um_be0 m).
    set (xs1 := c * um_f1 m * (w - um_lbe1 m) / um_be1 m).
    assert (Hx0 : 0 <= xs0).
    { unfold xs0. apply Rmult_le_pos; [|left; apply Rinv_0_lt_compat; exact Hb0].
      apply Rmult_le_pos; [nra|lra]. }
    assert (Hx1 : 0 <= xs1).
    { unfold xs1. apply Rmult_le_pos; [|left; apply Rinv_0_lt_compat; exact Hb1].
      apply Rmult_le_pos; [nra|lra]. }
    pose proof (urban_sc_pos xs0 Hx0) as Hscp.
    set (sc := if Rltb xs0 42 then 1 / 2 + (2 * 2 - 1 / 2) * sqrt (xs0 / 42) else 2 * 2) in *.
    assert (Hexc : xs0 / sc * (um_be0 m * sc) + xs1 * um_be1 m = mean * (1 - 56 / 100)).
    { replace (xs0 / sc * (um_be0 m * sc)) with (xs0 * um_be0 m) by (field; lra).
      unfold xs0, xs1.
      replace (c * um_f0 m * (w - um_lbe0 m) / um_be0 m * um_be0 m + c * um_f1 m * (w - um_lbe1 m) / um_be1 m * um_be1 m)
        with (c * ((um_f0 m + um_f1 m) * w - (um_f0 m * um_lbe0 m + um_f1 m * um_lbe1 m))) by (field; lra).
      rewrite Hf, HI. unfold c. fold w0. field. lra. }
    apply (Hfin (xs0 / sc) (um_be0 m * sc) xs1 _ Hexc); [reflexivity|].
    intros Hnp. exfalso.
    assert (Hx0' : 0 <= xs0 / sc) by (apply Rmult_le_pos; [exact Hx0|left; apply Rinv_0_lt_compat; exact Hscp]).
    assert (Hz0 : xs0 = 0).
    { assert (xs0 / sc = 0) by lra. apply Rmult_eq_reg_r with (/ sc); [|apply Rinv_neq_0_compat; lra].
      unfold Rdiv in H. rewrite H. ring. }
    assert (Hz1 : xs1 = 0) by lra.
    assert (Hp0 : um_f0 m = 0).
    { unfold xs0 in Hz0. destruct (Req_dec (um_f0 m) 0) as [E|NE]; [exact E|exfalso].
      assert (0 < c * um_f0 m * (w - um_lbe0 m) / um_be0 m); [|lra].
      apply Rdiv_lt_0_compat; [|exact Hb0]. apply Rmult_lt_0_compat; [apply Rmult_lt_0_compat; lra|lra]. }
    assert (Hp1 : um_f1 m = 0).
    { unfold xs1 in Hz1. destruct (Req_dec (um_f1 m) 0) as [E|NE]; [exact E|exfalso].
      assert (0 < c * um_f1 m * (w - um_lbe1 m) / um_be1 m); [|lra].
      apply Rdiv_lt_0_compat; [|exact Hb1]. apply Rmult_lt_0_compat; [apply Rmult_lt_0_compat; lra|lra]. }
    lra.
  - (* single level *)
    set (xs0 := mean * (1 - 56 / 100) / um_be0 m).
    assert (Hx0 : 0 < xs0) by (unfold xs0; apply Rdiv_lt_0_compat; [nra|exact Hb0]).
    pose proof (urban_sc_pos xs0 ltac:(lra)) as Hscp.
    set (sc := if Rltb xs0 42 then 1 / 2 + (2 * 2 - 1 / 2) * sqrt (xs0 / 42) else 2 * 2) in *.
    assert (Hexc : xs0 / sc * (um_be0 m * sc) + 0 * um_be1 m = mean * (1 - 56 / 100)).
    { unfold xs0. field. lra. }
    apply (Hfin (xs0 / sc) (um_be0 m * sc) 0 _ Hexc); [reflexivity|].
    intros Hnp. exfalso.
    assert (0 < xs0 / sc) by (apply Rdiv_lt_0_compat; assumption). lra.
Qed.

(** ** Gamma / Gaussian models: the law's mean is the requested mean.
    Gamma(k, theta) has mean k theta and variance k theta^2; the Gaussian model
    accepts exactly a window symmetric about the mean, so truncation keeps it. *)
Lemma eloss_gamma_params_mean (mean var : R) : 0 < mean -> 0 < var ->
  let k := mean * mean / var in let theta := mean / k in
  k * theta = mean /\ k * (theta * theta) = var /\ 0 < k /\ 0 < theta.
Proof.
  intros Hm Hv. cbv zeta.
  assert (Hk : 0 < mean * mean / var) by (apply Rdiv_lt_0_compat; nra).
  split; [field; lra|]. split; [field; lra|]. split; [exact Hk|apply Rdiv_lt_0_compat; assumption].
Qed.

Lemma eloss_gauss_window_symmetric (mean x : R) :
  (0 < x < 2 * mean) <-> (0 < 2 * mean - x < 2 * mean).
Proof. split; intros [H1 H2]; split; lra. Qed.
