(** * C15 proofs, part 3 (instance R): supports and termination of the
    Tsai-Urban and energy-loss fluctuation samplers. *)
From Coq Require Import Reals ZArith List Bool Lra Lia.
From Celer Require Import Base.Num Base.NumR Base.Stream Base.Vec3
  C15.Samplers C15.SamplersProofs C15.SamplersLaws C15.Eloss.
Import ListNotations.
Local Open Scope R_scope.

Ltac numR2 := numR; unfold n2 in *; numR.

Lemma ln_le_0' u : u <= 1 -> ln u <= 0.
Proof.
  intros Hu. destruct (Rlt_dec 0 u) as [Hpos|Hneg].
  - destruct Hu as [Hlt| ->]; [left; rewrite <- ln_1; apply ln_increasing; lra|rewrite ln_1; lra].
  - unfold ln. destruct (Rlt_dec 0 u); [contradiction|lra].
Qed.

(** ** Tsai-Urban: cos(theta) in [-1, 1] *)
Lemma tsai_urban_loop_support umax : 0 < umax -> forall fuel s x s', Forall canonical s ->
  tsai_urban_loop (T:=R) fuel umax s = Some (x, s') -> -1 <= x <= 1.
Proof.
  intros Hum. induction fuel as [|f IH]; intros s x s' Hs Hrun; [discriminate|].
  cbn [tsai_urban_loop] in Hrun. unfold bind, draw in Hrun.
  destruct s as [|u1 [|u2 [|u3 r]]]; try discriminate.
  inversion Hs as [|? ? [H10 H11] Hs1]; subst. inversion Hs1 as [|? ? [H20 H21] Hs2]; subst.
  inversion Hs2 as [|? ? _ Hs3]; subst.
  unfold ret in Hrun. numR2. rewrite bernoulli_run in Hrun.
  set (fac := if Rltb u3 (1 / 4) then 16 / 10 else 16 / 10 / 3) in *.
  assert (Hfac : 0 < fac) by (unfold fac; destruct (Rltb u3 (1 / 4)); lra).
  assert (Huu : 0 <= - ln (u1 * u2)).
  { assert (u1 * u2 <= 1) by nra. pose proof (ln_le_0' _ H). lra. }
  destruct (Rltb_spec umax (- ln (u1 * u2) * fac)) as [Hgt|Hle].
  - apply (IH _ _ _ Hs3 Hrun).
  - inversion Hrun; subst.
    set (q := - ln (u1 * u2) * fac / umax).
    assert (Hq : 0 <= q <= 1).
    { unfold q. split.
      - apply Rmult_le_pos; [nra|]. left. apply Rinv_0_lt_compat. exact Hum.
      - apply Rmult_le_reg_r with umax; [exact Hum|].
        replace (- ln (u1 * u2) * fac / umax * umax) with (- ln (u1 * u2) * fac) by (field; lra). lra. }
    split; nra.
Qed.

Lemma tsai_urban_support e m s x s' : 0 < m -> 0 <= e -> Forall canonical s ->
  tsai_urban (T:=R) e m s = Some (x, s') -> -1 <= x <= 1.
Proof.
  intros Hm He Hs Hrun. unfold tsai_urban in Hrun.
  apply (tsai_urban_loop_support (tsai_umax e m)) with (fuel := length s) (s := s) (s' := s'); try assumption.
  unfold tsai_umax. numR2. assert (0 <= e / m) by (apply Rmult_le_pos; [lra|left; apply Rinv_0_lt_compat; lra]). lra.
Qed.

(** termination on a high draw: u1 u2 >= exp(-umax / 1.6) ends the loop there *)
Lemma tsai_urban_terminates_on_high_draw umax f u1 u2 u3 s :
  0 < umax -> exp (- (umax / (16 / 10))) <= u1 * u2 <= 1 ->
  exists x, tsai_urban_loop (T:=R) (S f) umax (u1 :: u2 :: u3 :: s) = Some (x, s).
Proof.
  intros Hum [Hlo Hhi]. cbn [tsai_urban_loop]. unfold bind, draw, ret. numR2. rewrite bernoulli_run.
  set (fac := if Rltb u3 (1 / 4) then 16 / 10 else 16 / 10 / 3) in *.
  assert (Hfac : 0 < fac <= 16 / 10) by (unfold fac; destruct (Rltb u3 (1 / 4)); lra).
  assert (Hpos : 0 < u1 * u2) by (eapply Rlt_le_trans; [apply exp_pos|exact Hlo]).
  assert (Hln : - (umax / (16 / 10)) <= ln (u1 * u2)).
  { rewrite <- (ln_exp (- (umax / (16 / 10)))).
    destruct Hlo as [Hlt|Heq]; [left; apply ln_increasing; [apply exp_pos|exact Hlt]|rewrite Heq; lra]. }
  pose proof (ln_le_0' _ Hhi) as Hln0.
  replace (Rltb umax (- ln (u1 * u2) * fac)) with false.
  - eexists; reflexivity.
  - symmetry. apply Rltb_false.
    apply Rle_trans with (umax / (16 / 10) * (16 / 10)); [|right; field].
    apply Rmult_le_compat; lra.
Qed.

(** ** Gaussian energy loss: 0 < x <= 2 mean *)
Lemma eloss_gauss_loop_support mean sd : forall fuel st s x st' s',
  eloss_gauss_loop (T:=R) fuel mean sd st s = Some ((x, st'), s') -> 0 < x <= 2 * mean.
Proof.
  induction fuel as [|f IH]; intros st s x st' s' Hrun; [discriminate|].
  cbn [eloss_gauss_loop] in Hrun. unfold bind in Hrun.
  destruct (normal_step mean sd st s) as [[[x0 st0] s0]|]; [|discriminate].
  numR2. destruct (Rleb_spec x0 0) as [Hle|Hgt]; cbn [orb] in Hrun.
  - apply (IH _ _ _ _ _ Hrun).
  - destruct (Rltb_spec (2 * mean) x0) as [Hbig|Hok].
    + apply (IH _ _ _ _ _ Hrun).
    + unfold ret in Hrun. inversion Hrun; subst. lra.
Qed.
Lemma eloss_gauss_support mean sd st s x st' s' :
  eloss_gauss (T:=R) mean sd st s = Some ((x, st'), s') -> 0 < x <= 2 * mean.
Proof. apply eloss_gauss_loop_support. Qed.

(** termination: a fresh pair of draws with |sin| small enough is accepted --
    in particular u1 = 0 or 1/2 (sample = mean) ends the loop when mean > 0 *)
Lemma eloss_gauss_terminates_at_mean mean sd f u2 s : 0 < mean ->
  exists st', eloss_gauss_loop (T:=R) (S f) mean sd None (0 :: u2 :: s) = Some ((mean, st'), s).
Proof.
  intros Hm. cbn [eloss_gauss_loop]. unfold bind. rewrite normal_run.
  replace (twopi * 0) with 0 by (unfold twopi; numR2; ring). rewrite sin_0.
  replace (sqrt (-2 * ln u2) * 0 * sd + mean) with mean by ring. numR2.
  replace (Rleb mean 0) with false by (symmetry; apply Rleb_false; lra).
  replace (Rltb (2 * mean) mean) with false by (symmetry; apply Rltb_false; lra).
  cbn [orb]. eexists; reflexivity.
Qed.

(** ** Gamma energy loss: positive *)
Lemma eloss_gamma_support mean var s x s' : 0 < mean -> 0 < var ->
  Forall (fun u => 0 < u < 1) s -> eloss_gamma (T:=R) mean var s = Some (x, s') -> 0 < x.
Proof.
  intros Hm Hv Hs Hrun. unfold eloss_gamma in Hrun. numR2.
  assert (Hk : 0 < mean * mean / var) by (apply Rdiv_lt_0_compat; nra).
  apply (gamma_support (mean * mean / var) (mean / (mean * mean / var)) s x s'); try assumption.
  apply Rdiv_lt_0_compat; assumption.
Qed.

(** ** Model selection: the helper picks Urban for thin layers / electrons,
    else Gaussian iff mean^2 >= 4 Bohr variance, else gamma *)
Lemma eloss_model_cases ml me mt mr bv :
  let m := eloss_model (T:=R) ml me mt mr bv in
  (m = 0%nat <-> (ml < 1 / 100000 \/ me <= 1 / 100000)) /\
  (m = 2%nat -> 4 * bv <= ml * ml /\ mr < 1 /\ 10 * me <= ml /\ mt <= 2 * me) /\
  (m = 1%nat -> ml * ml < 4 * bv /\ mr < 1 /\ 10 * me <= ml /\ mt <= 2 * me).
Proof.
  cbv zeta. unfold eloss_model. numR2.
  destruct (Rltb_spec ml (1 / 100000)); [split; [split; [intros _; left; assumption|reflexivity]|split; discriminate]|].
  destruct (Rleb_spec me (1 / 100000)); [split; [split; [intros _; right; assumption|reflexivity]|split; discriminate]|].
  destruct (Rleb_spec 1 mr); cbn [orb];
    [split; [split; [discriminate|intros [?|?]; lra]|split; discriminate]|].
  destruct (Rltb_spec ml (10 * me)); cbn [orb];
    [split; [split; [discriminate|intros [?|?]; lra]|split; discriminate]|].
  destruct (Rltb_spec (2 * me) mt); cbn [orb];
    [split; [split; [discriminate|intros [?|?]; lra]|split; discriminate]|].
  destruct (Rleb_spec (2 * 2 * bv) (ml * ml)).
  - split; [split; [discriminate|intros [?|?]; lra]|]. split; [intros _; repeat split; lra|discriminate].
  - split; [split; [discriminate|intros [?|?]; lra]|]. split; [discriminate|intros _; repeat split; lra].
Qed.
