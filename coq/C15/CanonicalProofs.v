(** * C15 proofs, part 6: the generic [GenerateCanonical] path
    ([std::generate_canonical<double, 53>] for 32-bit and 64-bit engines)
    returns a double in [0, 1), with the bits-per-call arithmetic as coded. *)
From Coq Require Import ZArith List Bool Lia.
From Celer Require Import C15.Canonical.
Import ListNotations.
Local Open Scope Z_scope.

Lemma rnd53_exact n : n < 2 ^ 53 -> rnd53 n = n.
Proof. intros H. unfold rnd53. destruct (Z.ltb_spec n (2 ^ 53)); [reflexivity|lia]. Qed.

Section Rnd.
  Variable n : Z.
  Hypothesis Hb : 2 ^ 53 <= n.
  Let e := Z.log2 n - 52.
  Let q := n / 2 ^ e.
  Let r := n mod 2 ^ e.

  Lemma rnd_l53 : 53 <= Z.log2 n.
  Proof.
    replace 53 with (Z.log2 (2 ^ 53)) at 1 by (apply Z.log2_pow2; lia).
    apply Z.log2_le_mono. exact Hb.
  Qed.
  Lemma rnd_npos : 0 < n.
  Proof. assert (0 < 2 ^ 53) by (apply Z.pow_pos_nonneg; lia). lia. Qed.
  Lemma rnd_e1 : 1 <= e.
  Proof. pose proof rnd_l53. unfold e. lia. Qed.
  Lemma rnd_pe : 0 < 2 ^ e.
  Proof. pose proof rnd_e1. apply Z.pow_pos_nonneg; lia. Qed.
  Lemma rnd_half : 0 < 2 ^ (e - 1).
  Proof. pose proof rnd_e1. apply Z.pow_pos_nonneg; lia. Qed.
  Lemma rnd_decomp : n = 2 ^ e * q + r /\ 0 <= r < 2 ^ e.
  Proof.
    pose proof rnd_pe. split; [apply Z.div_mod; lia|apply Z.mod_pos_bound; lia].
  Qed.
  Lemma rnd_q_bounds : 2 ^ 52 <= q < 2 ^ 53.
  Proof.
    pose proof rnd_pe as Hpe. pose proof rnd_e1 as He. pose proof rnd_l53 as Hl.
    destruct (Z.log2_spec n rnd_npos) as [Hlo Hhi].
    unfold q. split.
    - apply Z.div_le_lower_bound; [exact Hpe|]. rewrite <- Z.pow_add_r by lia.
      replace (e + 52) with (Z.log2 n) by (unfold e; lia). exact Hlo.
    - apply Z.div_lt_upper_bound; [exact Hpe|]. rewrite <- Z.pow_add_r by lia.
      replace (e + 53) with (Z.succ (Z.log2 n)) by (unfold e; lia). exact Hhi.
  Qed.
  Lemma rnd53_unfold : rnd53 n =
    if r <? 2 ^ (e - 1) then q * 2 ^ e
    else if 2 ^ (e - 1) <? r then (q + 1) * 2 ^ e
    else if Z.even q then q * 2 ^ e else (q + 1) * 2 ^ e.
  Proof. unfold rnd53. destruct (Z.ltb_spec n (2 ^ 53)); [lia|reflexivity]. Qed.
End Rnd.

Lemma rnd53_nonneg n : 0 <= n -> 0 <= rnd53 n.
Proof.
  intros Hn. destruct (Z_lt_le_dec n (2 ^ 53)) as [Hs|Hb]; [rewrite rnd53_exact by exact Hs; exact Hn|].
  rewrite (rnd53_unfold n Hb). pose proof (rnd_pe n Hb) as Hpe. pose proof (rnd_q_bounds n Hb) as [Hq _].
  assert (0 < 2 ^ 52) by (apply Z.pow_pos_nonneg; lia).
  repeat match goal with |- context [if ?c then _ else _] => destruct c end; apply Z.mul_nonneg_nonneg; lia.
Qed.

(** rounding never crosses a power of two from below: n <= 2^K -> rnd53 n <= 2^K *)
Lemma rnd53_le_pow n K : 0 <= n <= 2 ^ K -> 53 <= K -> rnd53 n <= 2 ^ K.
Proof.
  intros [Hn0 HnK] HK.
  destruct (Z_lt_le_dec n (2 ^ 53)) as [Hs|Hb]; [rewrite rnd53_exact by exact Hs; exact HnK|].
  rewrite (rnd53_unfold n Hb).
  pose proof (rnd_pe n Hb) as Hpe. pose proof (rnd_half n Hb) as Hhalf. pose proof (rnd_e1 n Hb) as He.
  pose proof (rnd_decomp n Hb) as [Hdec Hr]. pose proof (rnd_q_bounds n Hb) as [Hq0 Hq].
  pose proof (rnd_npos n Hb) as Hnpos.
  set (e := Z.log2 n - 52) in *. set (q := n / 2 ^ e) in *. set (r := n mod 2 ^ e) in *.
  destruct (Z.ltb_spec r (2 ^ (e - 1))) as [Hlow|Hhigh].
  - (* rounded down: q 2^e = n - r <= n *) lia.
  - (* r >= half > 0, so n is not 2^K and n < 2^K *)
    assert (HeK : e <= K).
    { assert (Z.log2 n <= K).
      { replace K with (Z.log2 (2 ^ K)) by (apply Z.log2_pow2; lia). apply Z.log2_le_mono. exact HnK. }
      unfold e. lia. }
    assert (Hnlt : n < 2 ^ K).
    { destruct (Z.eq_dec n (2 ^ K)) as [Heq|Hne]; [exfalso|lia].
      assert (Hr0 : r = 0).
      { unfold r. rewrite Heq. replace K with ((K - e) + e) by lia. rewrite Z.pow_add_r by lia.
        apply Z.mod_mul. lia. }
      lia. }
    assert (Hlog : Z.log2 n < K) by (apply Z.log2_lt_pow2; assumption).
    assert (Hup : (q + 1) * 2 ^ e <= 2 ^ K).
    { apply Z.le_trans with (2 ^ 53 * 2 ^ e); [apply Z.mul_le_mono_nonneg_r; lia|].
      rewrite <- Z.pow_add_r by lia. apply Z.pow_le_mono_r; [lia|]. unfold e. lia. }
    assert (q * 2 ^ e <= (q + 1) * 2 ^ e) by (apply Z.mul_le_mono_nonneg_r; lia).
    repeat match goal with |- context [if ?c then _ else _] => destruct c end; lia.
Qed.

(** ** 32-bit engines (e.g. std::mt19937): two calls, low word first *)
Lemma canon_calls_32 : Z.to_nat (canon_calls 32) = 2%nat.
Proof. reflexivity. Qed.
Lemma canon_calls_64 : Z.to_nat (canon_calls 64) = 1%nat.
Proof. reflexivity. Qed.

Lemma pow2_32_lt_53 x : x < 2 ^ 32 -> x < 2 ^ 53.
Proof. intros H. assert (2 ^ 32 < 2 ^ 53) by (apply Z.pow_lt_mono_r; lia). lia. Qed.

Lemma canonical_generic_32 x0 x1 rest : 0 <= x0 < 2 ^ 32 -> 0 <= x1 < 2 ^ 32 ->
  exists N, canonical_generic true 32 (x0 :: x1 :: rest) = Some (N, 64, rest) /\
    0 <= N < 2 ^ 64 /\
    let s := rnd53 (x0 + x1 * 2 ^ 32) in
    (s < 2 ^ 64 /\ N = s) \/ (s = 2 ^ 64 /\ N = 2 ^ 64 - 2 ^ 11).
Proof.
  intros [H00 H01] [H10 H11].
  unfold canonical_generic. rewrite canon_calls_32. cbn [canon_loop].
  rewrite (rnd53_exact x0) by (apply pow2_32_lt_53; exact H01).
  rewrite (rnd53_exact x1) by (apply pow2_32_lt_53; exact H11).
  replace (0 + x0 * 1) with x0 by lia. rewrite (rnd53_exact x0) by (apply pow2_32_lt_53; exact H01).
  replace (1 * 2 ^ 32 * 2 ^ 32) with (2 ^ 64) by reflexivity.
  replace (1 * 2 ^ 32) with (2 ^ 32) by reflexivity.
  replace (Z.log2 (2 ^ 64)) with 64 by reflexivity.
  set (s := rnd53 (x0 + x1 * 2 ^ 32)).
  assert (Hexact : 0 <= x0 + x1 * 2 ^ 32 <= 2 ^ 64).
  { change (2 ^ 64) with (2 ^ 32 * 2 ^ 32). assert (0 < 2 ^ 32) by reflexivity. nia. }
  assert (Hs : 0 <= s <= 2 ^ 64).
  { split; [apply rnd53_nonneg; lia|apply rnd53_le_pow; lia]. }
  cbn [andb]. destruct (Z.leb_spec (2 ^ 64) s) as [Hge|Hlt].
  - eexists; split; [reflexivity|]. replace (64 - 53) with 11 by reflexivity.
    split; [split; [vm_compute; discriminate|vm_compute; reflexivity]|]. right. split; [lia|reflexivity].
  - exists s. split; [reflexivity|]. split; [lia|]. left. split; [exact Hlt|reflexivity].
Qed.

(** ** 64-bit engines (e.g. std::mt19937_64): one call; the conversion of the
    64-bit word to double rounds, possibly up to 2^64 *)
Lemma canonical_generic_64 x rest : 0 <= x < 2 ^ 64 ->
  exists N, canonical_generic true 64 (x :: rest) = Some (N, 64, rest) /\
    0 <= N < 2 ^ 64 /\
    let s := rnd53 (rnd53 x) in
    (s < 2 ^ 64 /\ N = s) \/ (s = 2 ^ 64 /\ N = 2 ^ 64 - 2 ^ 11).
Proof.
  intros [H0 H1].
  unfold canonical_generic. rewrite canon_calls_64. cbn [canon_loop].
  replace (1 * 2 ^ 64) with (2 ^ 64) by reflexivity.
  replace (Z.log2 (2 ^ 64)) with 64 by reflexivity.
  assert (Hx : 0 <= rnd53 x <= 2 ^ 64).
  { split; [apply rnd53_nonneg; lia|apply rnd53_le_pow; lia]. }
  replace (0 + rnd53 x * 1) with (rnd53 x) by lia.
  set (s := rnd53 (rnd53 x)).
  assert (Hs : 0 <= s <= 2 ^ 64).
  { split; [apply rnd53_nonneg; lia|apply rnd53_le_pow; lia]. }
  cbn [andb]. destruct (Z.leb_spec (2 ^ 64) s) as [Hge|Hlt].
  - eexists; split; [reflexivity|]. replace (64 - 53) with 11 by reflexivity.
    split; [split; [vm_compute; discriminate|vm_compute; reflexivity]|]. cbv zeta. fold s. right. split; [lia|reflexivity].
  - exists s. split; [reflexivity|]. split; [lia|]. cbv zeta. fold s. left. split; [exact Hlt|reflexivity].
Qed.

(** the [ret >= 1] repair is needed: without it both engines can return exactly
    1.0 (N = 2^K), outside [0, 1) *)
Lemma canonical_unclamped_reaches_one :
  canonical_generic false 64 [2 ^ 64 - 1] = Some (2 ^ 64, 64, []) /\
  canonical_generic false 32 [2 ^ 32 - 1; 2 ^ 32 - 1] = Some (2 ^ 64, 64, []) /\
  canonical_generic true 64 [2 ^ 64 - 1] = Some (2 ^ 64 - 2 ^ 11, 64, []) /\
  canonical_generic true 32 [2 ^ 32 - 1; 2 ^ 32 - 1] = Some (2 ^ 64 - 2 ^ 11, 64, []).
Proof. repeat split; vm_compute; reflexivity. Qed.

(** non-vacuity / sanity: a mid-range word pair is returned unrounded *)
Example canonical_generic_32_example :
  canonical_generic true 32 [5; 3] = Some (5 + 3 * 2 ^ 32, 64, []).
Proof. vm_compute. reflexivity. Qed.
Example canonical_generic_64_example :
  canonical_generic true 64 [2 ^ 63 + 1] = Some (2 ^ 63, 64, []).
Proof. vm_compute. reflexivity. Qed.
