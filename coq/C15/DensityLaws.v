(** * C15 proofs, part 5b (instance R): density-level statements about the
    rejection / composite samplers -- the strongest statements about their
    *law* that are expressible over R without measure theory.

    (a) rejection / Bernoulli: the acceptance function is a probability and is
        proportional to the target density;
    (b) Marsaglia-Tsang gamma: the squeeze never accepts a point that the exact
        test rejects (so the accepted set is exactly the exact-test set), and the
        alpha < 1 boost identity X_alpha = X_(alpha+1) u^(1/alpha);
    (c) Poisson direct method: prod_(i<=k) u_i > e^-lambda >= prod_(i<=k+1) u_i;
    (d) Box-Muller: the spare is the companion deviate of the same (r, theta);
    (e) Tsai-Urban: the branch conditions as coded.
    The step from these pointwise statements to "the output has density f"
    (push-forward of Lebesgue measure on [0,1)^N) remains prose: see NOTES.md. *)
From Coq Require Import Reals ZArith List Bool Lra Lia.
From Celer Require Import Base.Num Base.NumR Base.Stream Base.Vec3
  C15.Samplers C15.SamplersProofs C15.SamplersLaws C15.Eloss C15.ElossProofs C15.SqueezeAnalysis.
Import ListNotations.
Local Open Scope R_scope.

(** ** (a) RejectionSampler / BernoulliDistribution *)

(** accept (= not reject) iff u <= f/fmax; with 0 <= f <= fmax the acceptance
    function f/fmax is a probability; the set of accepted canonical u is the
    interval [0, f/fmax] cut at 1, of length f/fmax *)
Lemma rejection_accept_probability f fmax u s : 0 < fmax -> 0 <= f <= fmax ->
  exists b, rejection (T:=R) f fmax (u :: s) = Some (b, s) /\
    (b = false <-> u <= f / fmax) /\ 0 <= f / fmax <= 1.
Proof.
  intros Hm [Hf0 Hf1]. destruct (rejection_iff f fmax u s Hm) as (b & Hrun & Hb).
  exists b. split; [exact Hrun|]. split.
  - split; intros H.
    + apply Rnot_lt_le. intros Hlt. apply Hb in Hlt. congruence.
    + destruct b; [|reflexivity]. assert (f / fmax < u) by (apply Hb; reflexivity). lra.
  - assert (Hinv : 0 < / fmax) by (apply Rinv_0_lt_compat; lra). unfold Rdiv. split; [nra|].
    apply Rmult_le_reg_r with fmax; [lra|]. rewrite Rmult_assoc, Rinv_l by lra. lra.
Qed.
Example rejection_accept_probability_nonvacuous :
  exists b, rejection (T:=R) 1 2 (1 / 4 :: []) = Some (b, []) /\ (b = false <-> 1 / 4 <= 1 / 2) /\ 0 <= 1 / 2 <= 1.
Proof. apply (rejection_accept_probability 1 2 (1 / 4) []); lra. Qed.

(** proportionality to the target density: acceptance probabilities of two
    candidate points are in the ratio of the densities, whatever fmax *)
Lemma rejection_accept_proportional f1 f2 fmax : 0 < fmax -> 0 < f2 ->
  (f1 / fmax) / (f2 / fmax) = f1 / f2.
Proof. intros Hm H2. field. split; lra. Qed.

(** Bernoulli(p): true on the u-interval [0, p), of length p when 0 <= p <= 1 *)
Lemma bernoulli_accept_interval p u s : 0 <= p <= 1 -> canonical u ->
  exists b, bernoulli (T:=R) p (u :: s) = Some (b, s) /\ (b = true <-> 0 <= u < p) /\ (b = false <-> p <= u < 1).
Proof.
  intros Hp [Hu0 Hu1]. exists (Rltb u p). split; [apply bernoulli_run|].
  destruct (Rltb_spec u p) as [Hlt|Hge]; split; split; intros H; try reflexivity; try discriminate; lra.
Qed.
(** two-argument constructor: p = scale_true / (scale_true + scale_false) is a probability *)
Lemma bernoulli2_probability st sf u s : 0 <= st -> 0 <= sf -> 0 < st + sf ->
  exists b, bernoulli2 (T:=R) st sf (u :: s) = Some (b, s) /\ (b = true <-> u < st / (st + sf)) /\
    0 <= st / (st + sf) <= 1.
Proof.
  intros H1 H2 H3. exists (Rltb u (st / (st + sf))). split; [reflexivity|]. split; [apply Rltb_true|].
  assert (Hinv : 0 < / (st + sf)) by (apply Rinv_0_lt_compat; lra). unfold Rdiv. split; [nra|].
  apply Rmult_le_reg_r with (st + sf); [lra|]. rewrite Rmult_assoc, Rinv_l by lra. lra.
Qed.

(** ** (b) Marsaglia-Tsang *)

(** squeeze soundness, at the sampler's own parameters: for every alpha > 0,
    with alpha' = alpha or alpha + 1 as coded, d = alpha' - 1/3, c = 1/sqrt(9 d),
    every z with v = 1 + c z > 0 and every u > 0 that passes the squeeze passes
    the exact logarithmic test *)
Definition mt_alpha_p (alpha : R) : R := if Rltb alpha 1 then alpha + 1 else alpha.
Lemma mt_alpha_p_ge1 alpha : 0 < alpha -> 1 <= mt_alpha_p alpha.
Proof. intros Ha. unfold mt_alpha_p. destruct (Rltb_spec alpha 1); lra. Qed.

Lemma squeeze_implies_exact_d d z u : 2 / 3 <= d ->
  let c := rsqrt (T:=R) (9 * d) in
  let v := 1 + c * z in
  0 < v -> 0 < u -> u <= 1 - 331 / 10000 * (z * z * (z * z)) ->
  ln u <= 1 / 2 * (z * z) + d * (1 - v * v * v + ln (v * v * v)).
Proof.
  intros Hd c v Hv Hu Hsq.
  pose proof (squeeze_below_exact d z Hd) as H. cbv zeta in H.
  unfold c, v, rsqrt in *. numR.
  specialize (H Hv ltac:(lra)).
  apply Rle_trans with (ln (1 - 331 / 10000 * (z * z * (z * z)))); [|exact H].
  destruct Hsq as [Hlt|Heq]; [left; apply ln_increasing; lra|rewrite Heq; lra].
Qed.

Lemma gamma_squeeze_sound alpha z u : 0 < alpha ->
  let d := mt_alpha_p alpha - 1 / 3 in
  let c := rsqrt (T:=R) (9 * d) in
  let v := 1 + c * z in
  0 < v -> 0 < u -> u <= 1 - 331 / 10000 * (z * z * (z * z)) ->
  ln u <= 1 / 2 * (z * z) + d * (1 - v * v * v + ln (v * v * v)).
Proof.
  intros Ha d c v. apply squeeze_implies_exact_d.
  pose proof (mt_alpha_p_ge1 alpha Ha). unfold d. lra.
Qed.
(** the hypotheses are satisfiable, and the constant is nearly tight at alpha = 1 *)
Example gamma_squeeze_sound_nonvacuous :
  let d := mt_alpha_p 1 - 1 / 3 in let c := rsqrt (T:=R) (9 * d) in
  0 < 1 + c * 1 /\ 0 < 1 / 2 /\ 1 / 2 <= 1 - 331 / 10000 * (1 * 1 * (1 * 1)).
Proof.
  cbv zeta. unfold mt_alpha_p. replace (Rltb 1 1) with false by (symmetry; apply Rltb_false; lra).
  unfold rsqrt. numR. split; [|lra].
  assert (0 < sqrt (9 * (1 - 1 / 3))) by (apply sqrt_lt_R0; lra).
  assert (0 < 1 / sqrt (9 * (1 - 1 / 3))) by (apply Rdiv_lt_0_compat; lra). lra.
Qed.

(** the accepted triple: as [gamma_outer_spec] but remembering that u is a
    member of the stream *)
Lemma gamma_outer_spec_in d c : forall fuel st s x s',
  gamma_outer (T:=R) fuel d c st s = Some (x, s') ->
  exists z v u, In u s /\ v = 1 + c * z /\ 0 < v /\ x = d * (v * v * v) /\
    (u <= 1 - 331 / 10000 * (z * z * (z * z))
     \/ ln u <= 1 / 2 * (z * z) + d * (1 - v * v * v + ln (v * v * v))).
Proof.
  induction fuel as [|f IH]; intros st s x s' Hrun; [discriminate|].
  cbn [gamma_outer] in Hrun. unfold bind at 1 in Hrun.
  destruct (gamma_inner (S f) c st s) as [[[[z v] st0] s0]|] eqn:Ei; [|discriminate].
  destruct (gamma_inner_spec _ _ _ _ _ _ _ _ Ei) as [Hv Hvpos].
  destruct (gamma_inner_suffix _ _ _ _ _ _ Ei) as [p1 Hp1].
  unfold bind, draw in Hrun. destruct s0 as [|u r]; [discriminate|].
  numR. unfold n2 in *. numR.
  destruct (Rltb_spec (1 - 331 / 10000 * (z * z * (z * z))) u) as [Hsq|Hsq];
  destruct (Rltb_spec (1 / 2 * (z * z) + d * (1 - v * v * v + ln (v * v * v))) (ln u)) as [Hex|Hex];
    cbn [andb] in Hrun.
  1: { destruct (IH _ _ _ _ Hrun) as (z' & v' & u' & Hin & Hrest).
       exists z', v', u'. split; [|exact Hrest]. rewrite Hp1. apply in_or_app. right. right. exact Hin. }
  all: unfold ret in Hrun; inversion Hrun; subst x s'; exists z, v, u;
    (split; [rewrite Hp1; apply in_or_app; right; left; reflexivity|]);
    (split; [exact Hv|split; [exact Hvpos|split; [reflexivity|]]]); lra.
Qed.

(** ** the accepted set is the exact-test set: every value returned by the
    sampler's rejection loop comes from a triple (z, v, u) satisfying the exact
    Marsaglia-Tsang condition ln u <= z^2/2 + d (1 - v^3 + ln v^3); the squeeze
    is only a shortcut *)
Lemma gamma_accept_exact alpha fuel st s x s' : 0 < alpha ->
  let d := mt_alpha_p alpha - 1 / 3 in
  let c := rsqrt (T:=R) (9 * d) in
  Forall (fun u => 0 < u) s ->
  gamma_outer (T:=R) fuel d c st s = Some (x, s') ->
  exists z v u, In u s /\ v = 1 + c * z /\ 0 < v /\ x = d * (v * v * v) /\
    ln u <= 1 / 2 * (z * z) + d * (1 - v * v * v + ln (v * v * v)).
Proof.
  intros Ha d c Hs Hrun.
  destruct (gamma_outer_spec_in d c fuel st s x s' Hrun) as (z & v & u & Hin & Hv & Hvpos & Hx & Hacc).
  exists z, v, u. split; [exact Hin|]. split; [exact Hv|]. split; [exact Hvpos|]. split; [exact Hx|].
  destruct Hacc as [Hsq|Hex]; [|exact Hex].
  assert (Hu : 0 < u) by (rewrite Forall_forall in Hs; apply Hs; exact Hin).
  rewrite Hv in *. apply (gamma_squeeze_sound alpha z u Ha); assumption.
Qed.

(** alpha < 1 boost identity: the sample is the alpha+1 sample from the same
    stream times u^(1/alpha), u the next draw: (x / y)^alpha = u *)
Lemma gamma_boost_identity alpha beta s x s' : 0 < alpha < 1 -> 0 < beta ->
  Forall (fun u => 0 < u < 1) s ->
  gamma (T:=R) alpha beta s = Some (x, s') ->
  exists y u, gamma (T:=R) (alpha + 1) beta s = Some (y, u :: s') /\ 0 < y /\ 0 < u < 1 /\
    x = y * Rpower u (1 / alpha) /\ Rpower (x / y) alpha = u /\ 0 < x < y.
Proof.
  intros [Ha0 Ha1] Hb Hs Hrun.
  assert (Hy : forall y t, gamma (T:=R) (alpha + 1) beta s = Some (y, t) -> 0 < y).
  { intros y t Hg. apply (gamma_support (alpha + 1) beta s y t); [lra|exact Hb|exact Hs|exact Hg]. }
  unfold gamma in *. numR.
  replace (Rltb alpha 1) with true in Hrun by (symmetry; apply Rltb_true; lra).
  replace (Rltb (alpha + 1) 1) with false in Hy |- * by (symmetry; apply Rltb_false; lra).
  replace (Reqb (alpha + 1) (alpha + 1)) with true in Hy |- * by (symmetry; apply Reqb_true; reflexivity).
  replace (Reqb alpha (alpha + 1)) with false in Hrun.
  2:{ symmetry. destruct (Reqb alpha (alpha + 1)) eqn:E; [|reflexivity]. apply Reqb_true in E. lra. }
  unfold bind at 1 in Hrun. unfold bind at 1. unfold bind at 1 in Hy.
  destruct (gamma_outer (length s) (alpha + 1 - 1 / 3) (rsqrt (9 * (alpha + 1 - 1 / 3))) None s)
    as [[dv s0]|] eqn:Eo; [|discriminate].
  unfold bind, draw in Hrun. destruct s0 as [|w r]; [discriminate|].
  unfold ret in Hrun. inversion Hrun; subst x s'. numR.
  exists (dv * beta), w. split; [reflexivity|].
  assert (Hyp : 0 < dv * beta) by (apply (Hy _ (w :: r)); reflexivity).
  assert (Hw : 0 < w < 1).
  { assert (Hin : In w s).
    { destruct (gamma_outer_suffix _ _ _ _ _ _ _ Eo) as [pre ->]. apply in_or_app. right. left. reflexivity. }
    rewrite Forall_forall in Hs. apply (Hs w Hin). }
  split; [exact Hyp|]. split; [exact Hw|].
  assert (Hpow : Rpow w (1 / alpha) = Rpower w (1 / alpha)).
  { unfold Rpow. destruct (Req_EM_T (1 / alpha) 0) as [E0|_].
    - exfalso. assert (0 < 1 / alpha) by (apply Rdiv_lt_0_compat; lra). lra.
    - destruct (Rlt_dec 0 w); [reflexivity|lra]. }
  rewrite Hpow. split; [reflexivity|].
  assert (Hpp : 0 < Rpower w (1 / alpha)) by (unfold Rpower; apply exp_pos).
  split.
  - assert (Hdv : 0 < dv) by nra.
    replace (dv * beta * Rpower w (1 / alpha) / (dv * beta)) with (Rpower w (1 / alpha)) by (field; split; lra).
    rewrite Rpower_mult. replace (1 / alpha * alpha) with 1 by (field; lra). apply Rpower_1. lra.
  - assert (Hlt1 : Rpower w (1 / alpha) < 1).
    { unfold Rpower. apply Rlt_le_trans with (exp 0); [|rewrite exp_0; lra]. apply exp_increasing.
      assert (ln w < 0) by (rewrite <- ln_1; apply ln_increasing; lra).
      assert (0 < 1 / alpha) by (apply Rdiv_lt_0_compat; lra). nra. }
    split; nra.
Qed.

(** ** (c) Poisson direct method: inverse CDF through exponential inter-arrivals *)
Lemma prod_first_scale p : forall us m, prod_first p us m = p * prod_first 1 us m.
Proof.
  intros us. revert p. induction us as [|u r IH]; intros p m; [destruct m; cbn [prod_first]; ring|].
  destruct m as [|m]; [cbn [prod_first]; ring|]. cbn [prod_first].
  rewrite (IH (p * u)), (IH (1 * u)). ring.
Qed.

(** [uprod s m] = u_1 ... u_m *)
Definition uprod (s : list R) (m : nat) : R := prod_first 1 s m.

Lemma poisson_direct_interarrival lambda s k s' : 0 < lambda <= 16 ->
  poisson (T:=R) true lambda s = Some (k, s') ->
  (0 <= k)%Z /\ length s = (Z.to_nat k + 1 + length s')%nat /\
  (forall j, (j <= Z.to_nat k)%nat -> exp (- lambda) < uprod s j) /\
  uprod s (Z.to_nat k + 1) <= exp (- lambda).
Proof.
  intros [Hl0 Hl] Hrun.
  destruct (poisson_direct_spec lambda s k s' Hl Hrun) as (m & Hm1 & Hk & Hlen & Hstop & Hbef).
  assert (Hkm : Z.to_nat k = (m - 1)%nat) by lia.
  assert (Hexp : exp lambda * exp (- lambda) = 1).
  { rewrite <- exp_plus. replace (lambda + - lambda) with 0 by ring. apply exp_0. }
  pose proof (exp_pos lambda) as Hep. pose proof (exp_pos (- lambda)) as Hen.
  split; [lia|]. split; [lia|]. split.
  - intros j Hj. unfold uprod. destruct j as [|j].
    + cbn [prod_first]. rewrite <- exp_0. apply exp_increasing. lra.
    + specialize (Hbef (S j) ltac:(lia)). rewrite prod_first_scale in Hbef.
      apply Rmult_lt_reg_l with (exp lambda); [exact Hep|]. rewrite Hexp. exact Hbef.
  - unfold uprod. replace (Z.to_nat k + 1)%nat with m by lia.
    rewrite prod_first_scale in Hstop.
    apply Rmult_le_reg_l with (exp lambda); [exact Hep|]. rewrite Hexp. exact Hstop.
Qed.
Example poisson_direct_interarrival_nonvacuous :
  poisson (T:=R) true 1 (1 / 2 :: 1 / 2 :: []) = Some (1%Z, []).
Proof.
  unfold poisson. numR. replace (Rleb 1 16) with true by (symmetry; apply Rleb_true; lra).
  cbn [length poisson_direct]. unfold bind, draw. numR.
  pose proof (exp_ineq1 1 ltac:(lra)) as H1. pose proof exp_le_3 as He3.
  replace (Rltb 1 (exp 1 * (1 / 2))) with true by (symmetry; apply Rltb_true; lra).
  replace (Rltb 1 (exp 1 * (1 / 2) * (1 / 2))) with false by (symmetry; apply Rltb_false; lra).
  reflexivity.
Qed.

(** ** (d) Box-Muller: two successive samples from a fresh distribution use
    exactly two uniforms; the second one (the spare) is the companion deviate
    r cos(theta) of the first one r sin(theta), with r^2 = -2 ln u2, theta = 2 pi u1 *)
Lemma normal_spare_companion mean sd u1 u2 s : 0 < u2 <= 1 ->
  exists x1 x2, normal2 (T:=R) mean sd (u1 :: u2 :: s) = Some ((x1, x2), s) /\
    let r := sqrt (-2 * ln u2) in let theta := twopi * u1 in
    x1 = mean + sd * (r * sin theta) /\ x2 = mean + sd * (r * cos theta) /\
    (x1 - mean) * (x1 - mean) + (x2 - mean) * (x2 - mean) = sd * sd * (-2 * ln u2).
Proof.
  intros Hu. destruct (normal_box_muller mean sd u1 u2 s Hu) as (x & z2 & Hrun & Hx & Hz & Hrr & Hcirc & _).
  cbv zeta in *. exists x, (z2 * sd + mean). split.
  - unfold normal2. unfold bind at 1. rewrite Hrun. unfold bind. rewrite normal_spare_run. reflexivity.
  - split; [exact Hx|]. split; [rewrite Hz; ring|].
    rewrite Hx, Hz. rewrite Hz in Hcirc. set (r := sqrt (-2 * ln u2)) in *.
    rewrite <- Hcirc. ring.
Qed.

(** ** (e) Tsai-Urban: the value returned comes from three consecutive draws
    with the branch conditions as coded: u = -ln(u1 u2) a with a = 1.6 (prob.
    1/4, u3 < 1/4) or 1.6/3 (prob. 3/4), accepted iff u <= umax, cos = 1 - 2 (u/umax)^2 *)
Lemma tsai_urban_branches umax : forall fuel s x s',
  tsai_urban_loop (T:=R) fuel umax s = Some (x, s') ->
  exists pre u1 u2 u3, s = pre ++ u1 :: u2 :: u3 :: s' /\
    let a := if Rltb u3 (1 / 4) then 16 / 10 else 16 / 10 / 3 in
    let u := - ln (u1 * u2) * a in
    u <= umax /\ x = 1 - 2 * (u / umax * (u / umax)).
Proof.
  induction fuel as [|f IH]; intros s x s' Hrun; [discriminate|].
  cbn [tsai_urban_loop] in Hrun. unfold bind, draw in Hrun.
  destruct s as [|u1 [|u2 [|u3 r]]]; try discriminate.
  unfold ret in Hrun. numR2. rewrite bernoulli_run in Hrun.
  destruct (Rltb_spec umax (- ln (u1 * u2) * (if Rltb u3 (1 / 4) then 16 / 10 else 16 / 10 / 3))) as [Hgt|Hle].
  - destruct (IH _ _ _ Hrun) as (pre & a & b & c & -> & Hrest).
    exists (u1 :: u2 :: u3 :: pre), a, b, c. split; [reflexivity|exact Hrest].
  - inversion Hrun; subst. exists [], u1, u2, u3. split; [reflexivity|]. cbv zeta. split; [apply Rnot_lt_le; exact Hle|reflexivity].
Qed.

(** ** Isotropic (IsotropicDistribution + ArrayUtils.hh from_spherical): cos(theta)
    and phi are the quantile functions of U(-1, 1) and U(0, 2 pi) evaluated at u1, u2,
    and the vector is their spherical-coordinate image *)
Lemma twopi_pos : 0 < twopi (T:=R).
Proof. unfold twopi, npi. numR. lra. Qed.
Lemma isotropic_quantile u1 u2 s : canonical u1 -> canonical u2 ->
  exists v, isotropic (T:=R) (u1 :: u2 :: s) = Some (v, s) /\
    let c := 2 * u1 - 1 in let phi := twopi * u2 in
    (vz v + 1) / 2 = u1 /\ -1 <= vz v < 1 /\ 0 <= phi < twopi /\ phi / twopi = u2 /\
    vx v = sqrt (1 - c * c) * cos phi /\ vy v = sqrt (1 - c * c) * sin phi /\ vz v = c /\
    dot v v = 1.
Proof.
  intros [H1 H1'] [H2 H2']. pose proof twopi_pos as Htp.
  eexists; split; [reflexivity|]. cbv zeta.
  unfold from_spherical; cbn [vx vy vz]. numR.
  replace (twopi - 0) with (twopi (T:=R)) by ring.
  assert (Hc : (1 - - (1)) * u1 + - (1) = 2 * u1 - 1) by ring. rewrite !Hc.
  replace (twopi * u2 + 0) with (twopi * u2) by ring.
  split; [field|]. split; [lra|]. split; [nra|]. split; [field; lra|].
  split; [reflexivity|]. split; [reflexivity|]. split; [reflexivity|].
  pose proof (from_spherical_unit (2 * u1 - 1) (twopi * u2) ltac:(lra)) as Hu.
  unfold from_spherical in Hu. numR. exact Hu.
Qed.
