(** * C15 model, part 4: EnergyLossDeltaDistribution (celeritas/em/distribution/
    EnergyLossDeltaDistribution.hh): returns the mean energy loss, never touches the
    generator.  No proofs here. *)
From Coq Require Import List.
From Celer Require Import Base.Num Base.Stream.

Section Delta.
  Context {T : Type} `{Num T}.
  Definition eloss_delta (mean : T) : M T T := ret mean.
End Delta.
