(** * C15 proofs, part 7 (instance R): support of EnergyLossUrbanDistribution.

    For every state the constructor produces (binding energies >= 0, scaling >= 0,
    max_energy > e0 = 1e-5 MeV) and every canonical stream on which the sampler
    returns, the sampled energy loss is >= 0 -- in every branch as coded:
    excitation levels (fast Gaussian / Poisson / none), ionisation (fast part +
    Poisson number of 1/E^2 collisions), [sample_fast_urban] (truncated Gaussian
    or uniform).  Also the Delta ("none") model. *)
From Coq Require Import Reals ZArith List Bool Lra Lia.
From Celer Require Import Base.Num Base.NumR Base.Stream Base.Vec3
  C15.Samplers C15.SamplersProofs C15.SamplersLaws C15.Eloss C15.ElossProofs C15.ElossDelta.
Import ListNotations.
Local Open Scope R_scope.

Definition suffix_of (s s' : list R) : Prop := exists pre, s = pre ++ s'.
Lemma suffix_refl s : suffix_of s s.
Proof. exists []. reflexivity. Qed.
Lemma suffix_trans a b c : suffix_of a b -> suffix_of b c -> suffix_of a c.
Proof. intros [p ->] [q ->]. exists (p ++ q). rewrite app_assoc. reflexivity. Qed.
Lemma suffix_cons u s : suffix_of (u :: s) s.
Proof. exists [u]. reflexivity. Qed.
Lemma suffix_Forall (P : R -> Prop) s s' : suffix_of s s' -> Forall P s -> Forall P s'.
Proof. intros [p ->] H. apply Forall_app in H. tauto. Qed.

Lemma bind_inv {A B} (m : M R A) (f : A -> M R B) s r :
  bind m f s = Some r -> exists a s1, m s = Some (a, s1) /\ f a s1 = Some r.
Proof. unfold bind. destruct (m s) as [[a s1]|]; [intros H; exists a, s1; auto|discriminate]. Qed.

Lemma uniform_inv a b s x s' : uniform (T:=R) a b s = Some (x, s') ->
  exists u, s = u :: s' /\ x = (b - a) * u + a.
Proof.
  destruct s as [|u r]; [unfold uniform, bind, draw; discriminate|].
  rewrite uniform_run. intros E; inversion E; subst. eauto.
Qed.

Lemma poisson_suffix l s k s' : poisson (T:=R) true l s = Some (k, s') -> suffix_of s s'.
Proof.
  unfold poisson. destruct (nleb l (nofZ 16)).
  - intros H. destruct (poisson_direct_spec_gen _ _ _ _ _ _ H) as (m & _ & _ & _ & Hskip & _).
    exists (firstn m s). rewrite Hskip. symmetry. apply firstn_skipn.
  - intros H. apply bind_inv in H. destruct H as ([x st] & s1 & Hn & Hr).
    apply normal_step_suffix in Hn. cbv beta iota zeta in Hr. unfold ret in Hr. inversion Hr; subst. exact Hn.
Qed.

Lemma eloss_gauss_loop_suffix mean sd : forall fuel st s r s',
  eloss_gauss_loop (T:=R) fuel mean sd st s = Some (r, s') -> suffix_of s s'.
Proof.
  induction fuel as [|f IH]; intros st s r s' H; [discriminate|].
  cbn [eloss_gauss_loop] in H. apply bind_inv in H. destruct H as ([x st1] & s1 & Hn & Hr).
  apply normal_step_suffix in Hn. cbv beta iota in Hr.
  match type of Hr with context [if ?c then _ else _] => destruct c end.
  - apply (suffix_trans _ s1); [exact Hn|]. apply (IH _ _ _ _ Hr).
  - unfold ret in Hr. inversion Hr; subst. exact Hn.
Qed.

(** sample_fast_urban: truncated Gaussian (0 < x <= 2 mean) or uniform on [0, 2 mean) *)
Lemma fast_urban_nonneg mean sd s x s' : 0 <= mean -> Forall canonical s ->
  fast_urban (T:=R) mean sd s = Some (x, s') -> 0 <= x <= 2 * mean /\ suffix_of s s'.
Proof.
  intros Hm Hs H. unfold fast_urban in H.
  match type of H with context [if ?c then _ else _] => destruct c end.
  - apply bind_inv in H. destruct H as ([y st] & s1 & Hg & Hr). cbv beta iota in Hr.
    unfold ret in Hr. inversion Hr; subst.
    split; [pose proof (eloss_gauss_support _ _ _ _ _ _ _ Hg); lra|].
    unfold eloss_gauss in Hg. apply (eloss_gauss_loop_suffix _ _ _ _ _ _ _ Hg).
  - apply uniform_inv in H. destruct H as (u & -> & ->). inversion Hs as [|? ? [Hu0 Hu1] _]; subst.
    numR2. split; [nra|apply suffix_cons].
Qed.

(** one excitation level: the accumulators stay non-negative *)
Lemma exc_level_nonneg xs be res mean var s res' mean' var' s' :
  0 <= be -> 0 <= res -> 0 <= mean -> 0 <= var -> Forall canonical s ->
  urban_exc_level (T:=R) xs be (res, mean, var) s = Some ((res', mean', var'), s') ->
  res <= res' /\ 0 <= mean' /\ 0 <= var' /\ suffix_of s s'.
Proof.
  intros Hbe Hr Hm Hv Hs H. unfold urban_exc_level in H. cbv beta iota in H. numR2.
  destruct (Rltb_spec 8 xs) as [H8|H8].
  - unfold ret in H. inversion H; subst. repeat split; try nra. apply suffix_refl.
  - destruct (Rltb_spec 0 xs) as [H0|H0].
    + apply bind_inv in H. destruct H as (n & s1 & Hp & Hk). pose proof (poisson_suffix _ _ _ _ Hp) as Hsuf.
      destruct (Z.ltb_spec 0 n) as [Hn|Hn].
      * apply bind_inv in Hk. destruct Hk as (f & s2 & Hu & Hret).
        apply uniform_inv in Hu. destruct Hu as (u & -> & ->).
        unfold ret in Hret. inversion Hret; subst.
        pose proof (suffix_Forall _ _ _ Hsuf Hs) as Hs1. inversion Hs1 as [|? ? [Hu0 Hu1] _]; subst.
        assert (Hn1 : 0 <= IZR (n - 1)) by (apply IZR_le; lia).
        assert (Hd : IZR (n + 1) - IZR (n - 1) = 2) by (rewrite <- minus_IZR; apply f_equal; lia).
        rewrite Hd. repeat split; try lra; [nra|].
        apply (suffix_trans _ (u :: s')); [exact Hsuf|apply suffix_cons].
      * unfold ret in Hk. inversion Hk; subst. repeat split; try lra. exact Hsuf.
    + unfold ret in H. inversion H; subst. repeat split; try lra. apply suffix_refl.
Qed.

Lemma urban_excitation_nonneg (u : urban_state (T:=R)) s x s' :
  0 <= ub_be0 u -> 0 <= ub_be1 u -> Forall canonical s ->
  urban_excitation u s = Some (x, s') -> 0 <= x /\ suffix_of s s'.
Proof.
  intros H0 H1 Hs H. unfold urban_excitation in H. numR.
  apply bind_inv in H. destruct H as ([[r1 m1] v1] & s1 & Ha & H).
  destruct (exc_level_nonneg _ _ _ _ _ _ _ _ _ _ H0 (Rle_refl 0) (Rle_refl 0) (Rle_refl 0) Hs Ha)
    as (Hr1 & Hm1 & Hv1 & Hsuf1).
  apply bind_inv in H. destruct H as ([[r2 m2] v2] & s2 & Hb & H). cbv beta iota in H.
  pose proof (suffix_Forall _ _ _ Hsuf1 Hs) as Hs1.
  destruct (exc_level_nonneg _ _ _ _ _ _ _ _ _ _ H1 Hr1 Hm1 Hv1 Hs1 Hb) as (Hr2 & Hm2 & Hv2 & Hsuf2).
  pose proof (suffix_Forall _ _ _ Hsuf2 Hs1) as Hs2.
  match type of H with context [if ?c then _ else _] => destruct c end.
  - apply bind_inv in H. destruct H as (y & s3 & Hf & Hr). unfold ret in Hr. inversion Hr; subst.
    destruct (fast_urban_nonneg _ _ _ _ _ Hm2 Hs2 Hf) as [Hy Hsuf3]. split; [lra|].
    eapply suffix_trans; [exact Hsuf1|]. eapply suffix_trans; [exact Hsuf2|exact Hsuf3].
  - unfold ret in H. inversion H; subst. split; [lra|]. eapply suffix_trans; eassumption.
Qed.

(** ionising collisions: each adds alpha e0 / U(alpha/ratio, 1) > 0 *)
Lemma urban_ion_sum_ge : forall n a b c acc s x s', 0 < a -> a <= b -> 0 <= c -> Forall canonical s ->
  urban_ion_sum (T:=R) n a b c acc s = Some (x, s') -> acc <= x /\ suffix_of s s'.
Proof.
  induction n as [|n IH]; intros a b c acc s x s' Ha Hab Hc Hs H.
  - cbn [urban_ion_sum] in H. unfold ret in H. inversion H; subst. split; [lra|apply suffix_refl].
  - cbn [urban_ion_sum] in H. apply bind_inv in H. destruct H as (f & s1 & Hu & H).
    apply uniform_inv in Hu. destruct Hu as (u & -> & ->). inversion Hs as [|? ? [Hu0 Hu1] Hs1]; subst.
    destruct (IH _ _ _ _ _ _ _ Ha Hab Hc Hs1 H) as [Hge Hsuf]. numR.
    assert (Hf : 0 < (b - a) * u + a) by nra.
    assert (0 <= c / ((b - a) * u + a)) by (apply Rmult_le_pos; [lra|left; apply Rinv_0_lt_compat; lra]).
    split; [lra|]. eapply suffix_trans; [apply suffix_cons|exact Hsuf].
Qed.

(** the shape of sample_ionization_loss, abstracted from the formulas for alpha, mean, ... *)
Lemma ion_core (alpha ratio e0 mean sd xs lam : R) (fast : bool) s x s' :
  0 < alpha -> 0 < ratio -> 0 <= e0 -> (fast = true -> 0 <= mean) -> Forall canonical s ->
  (r1 <- (if fast then fast_urban mean sd else ret 0) ;;
   if andb (Rltb 0 xs) (Rltb alpha ratio) then
     n <- poisson (T:=R) true lam ;; urban_ion_sum (Z.to_nat n) (alpha / ratio) 1 (alpha * e0) r1
   else ret r1) s = Some (x, s') -> 0 <= x /\ suffix_of s s'.
Proof.
  intros Ha Hr He Hmean Hs H.
  apply bind_inv in H. destruct H as (r1 & s1 & H1 & H).
  assert (Hr1 : 0 <= r1 /\ suffix_of s s1).
  { destruct fast.
    - destruct (fast_urban_nonneg _ _ _ _ _ (Hmean eq_refl) Hs H1) as [Hx Hsuf]. split; [lra|exact Hsuf].
    - unfold ret in H1. inversion H1; subst. split; [lra|apply suffix_refl]. }
  destruct Hr1 as [Hr1 Hsuf1]. pose proof (suffix_Forall _ _ _ Hsuf1 Hs) as Hs1.
  destruct (Rltb_spec 0 xs) as [Hxs|Hxs]; destruct (Rltb_spec alpha ratio) as [Hlt|Hge]; cbn [andb] in H.
  1: { apply bind_inv in H. destruct H as (n & s2 & Hp & H).
       pose proof (poisson_suffix _ _ _ _ Hp) as Hsuf2. pose proof (suffix_Forall _ _ _ Hsuf2 Hs1) as Hs2.
       assert (Hq : 0 < alpha / ratio) by (apply Rdiv_lt_0_compat; lra).
       assert (Hq1 : alpha / ratio <= 1).
       { apply Rmult_le_reg_r with ratio; [lra|]. replace (alpha / ratio * ratio) with alpha by (field; lra). lra. }
       assert (Hc : 0 <= alpha * e0) by (apply Rmult_le_pos; lra).
       destruct (urban_ion_sum_ge _ _ _ _ _ _ _ _ Hq Hq1 Hc Hs2 H) as [Hge' Hsuf3].
       split; [lra|]. eapply suffix_trans; [exact Hsuf1|]. eapply suffix_trans; [exact Hsuf2|exact Hsuf3]. }
  all: unfold ret in H; inversion H; subst; split; [lra|exact Hsuf1].
Qed.

Lemma urban_ionization_nonneg (u : urban_state (T:=R)) s x s' :
  1 / 100000 < ub_max_energy u -> Forall canonical s ->
  urban_ionization u s = Some (x, s') -> 0 <= x /\ suffix_of s s'.
Proof.
  intros HE Hs H. unfold urban_ionization in H. cbv zeta in H. numR2.
  set (ratio := ub_max_energy u / (1 / 100000)) in *.
  set (xs := ub_xs_ion u) in *.
  assert (Hratio : 1 < ratio).
  { unfold ratio. apply Rmult_lt_reg_r with (1 / 100000); [lra|].
    replace (ub_max_energy u / (1 / 100000) * (1 / 100000)) with (ub_max_energy u) by field. lra. }
  refine (ion_core _ ratio (1 / 100000) _ _ xs _ (Rltb 8 xs) s x s' _ ltac:(lra) ltac:(lra) _ Hs H).
  - destruct (Rltb_spec 8 xs) as [H8|H8]; [|lra].
    apply Rdiv_lt_0_compat; nra.
  - intros Hfast. apply Rltb_true in Hfast.
    replace (Rltb 8 xs) with true by (symmetry; apply Rltb_true; exact Hfast).
    set (alpha := (xs + 8) * ratio / (8 * ratio + xs)).
    assert (HD : 0 < 8 * ratio + xs) by lra.
    assert (Ham1 : alpha - 1 = xs * (ratio - 1) / (8 * ratio + xs)) by (unfold alpha; field; lra).
    assert (Hapos : 0 < alpha - 1) by (rewrite Ham1; apply Rdiv_lt_0_compat; nra).
    assert (Hln : 0 < ln alpha) by (rewrite <- ln_1; apply ln_increasing; lra).
    assert (Hmlc : 0 < alpha * ln alpha / (alpha - 1)) by (apply Rdiv_lt_0_compat; nra).
    assert (Hnc : 0 < xs * ratio * (alpha - 1) / ((ratio - 1) * alpha)).
    { apply Rdiv_lt_0_compat; [|nra]. apply Rmult_lt_0_compat; [nra|exact Hapos]. }
    apply Rmult_le_pos; [apply Rmult_le_pos; lra|lra].
Qed.

(** ** the sampler: scaling * (excitation + ionisation) >= 0 *)
Lemma eloss_urban_nonneg (u : urban_state (T:=R)) s x s' :
  0 <= ub_scaling u -> 0 <= ub_be0 u -> 0 <= ub_be1 u -> 1 / 100000 < ub_max_energy u ->
  Forall canonical s -> eloss_urban u s = Some (x, s') -> 0 <= x.
Proof.
  intros Hsc H0 H1 HE Hs H. unfold eloss_urban in H.
  apply bind_inv in H. destruct H as (a & s1 & Ha & H).
  destruct (urban_excitation_nonneg u s a s1 H0 H1 Hs Ha) as [Hapos Hsuf].
  apply bind_inv in H. destruct H as (b & s2 & Hb & H).
  destruct (urban_ionization_nonneg u s1 b s2 HE (suffix_Forall _ _ _ Hsuf Hs) Hb) as [Hbpos _].
  unfold ret in H. inversion H; subst. numR. nra.
Qed.

(** the constructor establishes the state facts used above, in every branch *)
Lemma urban_construct_state_ok (m : urban_mat (T:=R)) mean Emax tmb bsq :
  0 < Emax -> 0 <= um_be0 m -> 0 <= um_be1 m ->
  let st := fst (urban_construct m mean Emax tmb bsq) in
  1 <= ub_scaling st /\ 0 <= ub_be0 st /\ 0 <= ub_be1 st /\ ub_max_energy st = Emax.
Proof.
  intros HE Hb0 Hb1. cbv zeta. unfold urban_construct.
  pose proof (urban_scaling_pos Emax HE) as Hsc.
  destruct (nltb (um_I m) Emax); [destruct (nltb (um_logI m) _); [destruct (nltb (um_lbe1 m) _)|]|];
    cbv beta iota zeta; cbn [fst ub_scaling ub_be0 ub_be1 ub_max_energy];
    (split; [exact Hsc|]); (split; [|split; [exact Hb1|reflexivity]]); try exact Hb0;
    (apply Rmult_le_pos; [exact Hb0|]); numR2;
    match goal with |- 0 <= (if ?c then _ else _) => destruct c end; try lra;
    match goal with |- context [sqrt ?t] => pose proof (sqrt_pos t) end; lra.
Qed.

(** every parameter set the constructor accepts (max_energy > e0; binding energies of the
    material >= 0), every canonical stream: the sampled Urban energy loss is >= 0 *)
Lemma eloss_urban_support (m : urban_mat (T:=R)) mean Emax tmb bsq s x s' :
  1 / 100000 < Emax -> 0 <= um_be0 m -> 0 <= um_be1 m -> Forall canonical s ->
  eloss_urban (fst (urban_construct m mean Emax tmb bsq)) s = Some (x, s') -> 0 <= x.
Proof.
  intros HE Hb0 Hb1 Hs H.
  destruct (urban_construct_state_ok m mean Emax tmb bsq ltac:(lra) Hb0 Hb1) as (Hsc & H0 & H1 & Hmax).
  apply (eloss_urban_nonneg (fst (urban_construct m mean Emax tmb bsq)) s x s');
    [lra|exact H0|exact H1|rewrite Hmax; exact HE|exact Hs|exact H].
Qed.

(** EnergyLossDeltaDistribution ("none"): the mean loss, no draw *)
Lemma eloss_delta_spec (mean : R) s : eloss_delta (T:=R) mean s = Some (mean, s).
Proof. reflexivity. Qed.
