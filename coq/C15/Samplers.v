(** * C15 model: sampling distributions over an explicit uniform stream.

    One definition per C++ class in src/celeritas/random/distribution/ and
    src/celeritas/random/Selector.hh; same operations in the same order.
    Executable over any [Num]; no proofs here. *)
From Coq Require Import ZArith List Bool.
From Celer Require Import Base.Num Base.Stream Base.Vec3.
Import ListNotations.
Local Open Scope num_scope.

Section Samplers.
  Context {T : Type} `{Num T}.
  Notation M := (M T).

  (** UniformRealDistribution(a,b): delta = b - a; fma(delta, u, a) *)
  Definition uniform (a b : T) : M T :=
    u <- draw ;; ret (nfma (b - a) u a).

  (** ExponentialDistribution(lambda): log(u) * (-1/lambda) *)
  Definition exponential (lambda : T) : M T :=
    u <- draw ;; ret (nlog u * (- n1 / lambda)).

  (** BernoulliDistribution(p): u < p *)
  Definition bernoulli (p : T) : M bool :=
    u <- draw ;; ret (u <? p).
  Definition bernoulli2 (st sf : T) : M bool := bernoulli (st / (st + sf)).

  (** RejectionSampler(f, fmax): true = reject *)
  Definition rejection (f fmax : T) : M bool :=
    u <- draw ;; ret (f <? fmax * u).

  (** ReciprocalDistribution(a,b): a * exp(log((1/a) b) * u) *)
  Definition reciprocal (a b : T) : M T :=
    u <- draw ;; ret (a * nexp (nlog ((n1 / a) * b) * u)).

  (** InverseSquareDistribution(a,b): (a b) / uniform(a,b) *)
  Definition inverse_square (a b : T) : M T :=
    d <- uniform a b ;; ret ((a * b) / d).

  (** RadialDistribution(R): cbrt(u) * R *)
  Definition radial (r : T) : M T :=
    u <- draw ;; ret (ncbrt u * r).

  Definition npi : T := nQ 3141592653589793238 1000000000000000000.
  Definition twopi : T := n2 * npi.

  (** IsotropicDistribution: costheta ~ U(-1,1), phi ~ U(0, 2 pi) *)
  Definition isotropic : M (vec3 T) :=
    c <- uniform (- n1) n1 ;; p <- uniform n0 twopi ;; ret (from_spherical c p).

  Definition uniform_box (lo hi : vec3 T) : M (vec3 T) :=
    x <- uniform (vx lo) (vx hi) ;; y <- uniform (vy lo) (vy hi) ;;
    z <- uniform (vz lo) (vz hi) ;; ret (V3 x y z).

  (** NormalDistribution state: (spare, has_spare).  Returns sample and new
      state.  theta = 2 pi u1; r = sqrt(-2 log u2). *)
  Definition normal_step (mean sd : T) (st : option T) : M (T * option T) :=
    match st with
    | Some sp => ret (nfma sp sd mean, None)
    | None =>
        u1 <- draw ;; u2 <- draw ;;
        let theta := twopi * u1 in
        let r := nsqrt ((- n2) * nlog u2) in
        ret (nfma (r * nsin theta) sd mean, Some (r * ncos theta))
    end.
  (** two successive samples from a fresh distribution *)
  Definition normal2 (mean sd : T) : M (T * T) :=
    '(x1, st) <- normal_step mean sd None ;;
    '(x2, _) <- normal_step mean sd st ;; ret (x1, x2).

  (** double -> unsigned int conversion as compiled on x86-64: truncate
      toward zero, then reduce mod 2^32 (a negative value wraps; this is
      the behaviour C15's support theorem is about) *)
  Definition truncZ (x : T) : Z :=
    if x <? n0 then (- nfloorZ (nneg x))%Z else nfloorZ x.
  Definition to_uint32 (x : T) : Z := (truncZ x mod 4294967296)%Z.

  (** PoissonDistribution(lambda): direct method for lambda <= 16 (fuelled by
      the stream), else rounded normal.  [clamp] is true when the Gaussian
      branch clamps a negative sample at zero before the conversion (the
      repaired code); false is the code as originally pinned. *)
  Fixpoint poisson_direct (fuel : nat) (k : Z) (p : T) : M Z :=
    match fuel with
    | O => fail
    | S f =>
        u <- draw ;;
        let k' := (k + 1)%Z in
        let p' := p * u in
        if n1 <? p' then poisson_direct f k' p' else ret (k' - 1)%Z
    end.
  Definition poisson (clamp : bool) (lambda : T) : M Z :=
    fun s =>
    if lambda <=? nofZ 16 then poisson_direct (length s) 0%Z (nexp lambda) s
    else ('(x, _) <- normal_step lambda (nsqrt lambda) None ;;
          let y := x + nhalf in
          ret (to_uint32 (if clamp then nmax y n0 else y))) s.

  (** Selector(eval, size, total): accum = -total u; first i < size-1 with
      accum + w0 + ... + wi > 0, else size-1 *)
  Fixpoint selector_loop (ws : list T) (i : nat) (accum : T) : nat :=
    match ws with
    | [] => i                        (* not reached for non-empty input *)
    | [_] => i                       (* last element: returned unconditionally *)
    | w :: r => let a := accum + w in if n0 <? a then i else selector_loop r (S i) a
    end.
  Definition selector (ws : list T) (total : T) : M nat :=
    u <- draw ;; ret (selector_loop ws 0 ((- total) * u)).

  (** GammaDistribution(alpha, beta) (Marsaglia-Tsang); the embedded normal
      sampler keeps its spare across iterations *)
  Definition rsqrt (x : T) : T := n1 / nsqrt x.
  Fixpoint gamma_inner (fuel : nat) (c : T) (st : option T) : M (T * T * option T) :=
    match fuel with
    | O => fail
    | S f =>
        '(z, st') <- normal_step n0 n1 st ;;
        let v := n1 + c * z in
        if v <=? n0 then gamma_inner f c st' else ret (z, v, st')
    end.
  Fixpoint gamma_outer (fuel : nat) (d c : T) (st : option T) : M T :=
    match fuel with
    | O => fail
    | S f =>
        '(z, v, st') <- gamma_inner (S f) c st ;;
        let v3 := v * v * v in
        u <- draw ;;
        let z2 := z * z in
        if andb (n1 - nQ 331 10000 * (z2 * z2) <? u)
                (nhalf * z2 + d * (n1 - v3 + nlog v3) <? nlog u)
        then gamma_outer f d c st' else ret (d * v3)
    end.
  Definition gamma (alpha beta : T) : M T :=
    fun s =>
    let alpha_p := if alpha <? n1 then alpha + n1 else alpha in
    let d := alpha_p - n1 / nofZ 3 in
    let c := rsqrt (nofZ 9 * d) in
    ('(dv) <- gamma_outer (length s) d c None ;;
     let r := dv * beta in
     if alpha =? alpha_p then ret r
     else (u <- draw ;; ret (r * npow u (n1 / alpha)))) s.
End Samplers.
