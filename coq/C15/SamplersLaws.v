(** * C15 proofs, part 2 (instance R): quantile identities (exact laws of the
    inverse-CDF samplers), selector intervals, Box-Muller identity, Poisson
    direct-method specification, gamma support, termination lemmas. *)
From Coq Require Import Reals ZArith List Bool Lra Lia.
From Celer Require Import Base.Num Base.NumR Base.Stream Base.Vec3 C15.Samplers C15.SamplersProofs.
Import ListNotations.
Local Open Scope R_scope.

(** ** Radial: x = cbrt(u) R;  CDF (x/R)^3 *)
Lemma Rcbrt_pos u : 0 < u -> Rcbrt u = Rpower u (/ 3).
Proof. intros Hu. unfold Rcbrt. destruct (Rlt_dec 0 u); [reflexivity|contradiction]. Qed.
Lemma Rcbrt_0 : Rcbrt 0 = 0.
Proof. unfold Rcbrt. destruct (Rlt_dec 0 0); [lra|]. destruct (Rlt_dec 0 0); [lra|reflexivity]. Qed.
Lemma Rcbrt_cube u : 0 <= u -> Rcbrt u * Rcbrt u * Rcbrt u = u.
Proof.
  intros [Hu|<-]; [|rewrite Rcbrt_0; ring].
  rewrite Rcbrt_pos by exact Hu. rewrite <- !Rpower_plus.
  replace (/ 3 + / 3 + / 3) with 1 by field. apply Rpower_1. exact Hu.
Qed.
Lemma Rcbrt_range u : 0 <= u < 1 -> 0 <= Rcbrt u < 1.
Proof.
  intros [[Hu|<-] Hu1]; [|rewrite Rcbrt_0; lra].
  rewrite Rcbrt_pos by exact Hu. unfold Rpower. split; [left; apply exp_pos|].
  rewrite <- exp_0. apply exp_increasing.
  assert (ln u < 0) by (rewrite <- ln_1; apply ln_increasing; lra). nra.
Qed.

Lemma radial_run r u s : radial (T:=R) r (u :: s) = Some (Rcbrt u * r, s).
Proof. reflexivity. Qed.

Lemma radial_support r u s : 0 <= r -> canonical u ->
  exists x, radial (T:=R) r (u :: s) = Some (x, s) /\ 0 <= x <= r /\ (0 < r -> x < r).
Proof.
  intros Hr Hu. eexists; split; [apply radial_run|].
  pose proof (Rcbrt_range u Hu) as [H0 H1]. split; [split|intros Hpos]; nra.
Qed.

(** F(x) = (x/R)^3 = u: the sampled radius has the volume-uniform law *)
Lemma radial_quantile r u s : 0 < r -> 0 <= u ->
  exists x, radial (T:=R) r (u :: s) = Some (x, s) /\ (x / r) * (x / r) * (x / r) = u.
Proof.
  intros Hr Hu. eexists; split; [apply radial_run|].
  replace (Rcbrt u * r / r) with (Rcbrt u) by (field; lra). apply Rcbrt_cube. exact Hu.
Qed.

(** ** Reciprocal: F(x) = ln(x/a) / ln(b/a) = u *)
Lemma reciprocal_quantile a b u s : 0 < a -> a < b ->
  exists x, reciprocal (T:=R) a b (u :: s) = Some (x, s) /\ ln (x / a) / ln (b / a) = u.
Proof.
  intros Ha Hab. eexists; split; [reflexivity|]. numR.
  replace (1 / a * b) with (b / a) by (field; lra).
  assert (Hq : 1 < b / a).
  { apply Rmult_lt_reg_r with a; [lra|]. replace (b / a * a) with b by (field; lra). lra. }
  assert (Hl : 0 < ln (b / a)) by (rewrite <- ln_1; apply ln_increasing; lra).
  replace (a * exp (ln (b / a) * u) / a) with (exp (ln (b / a) * u)) by (field; lra).
  rewrite ln_exp. field. lra.
Qed.

(** ** Uniform box *)
Lemma uniform_box_support (lo hi : vec3 R) u1 u2 u3 s :
  vx lo <= vx hi -> vy lo <= vy hi -> vz lo <= vz hi ->
  canonical u1 -> canonical u2 -> canonical u3 ->
  exists v, uniform_box lo hi (u1 :: u2 :: u3 :: s) = Some (v, s) /\
    vx lo <= vx v <= vx hi /\ vy lo <= vy v <= vy hi /\ vz lo <= vz v <= vz hi.
Proof.
  intros Hx Hy Hz [H1 H1'] [H2 H2'] [H3 H3']. eexists; split; [reflexivity|].
  cbn [vx vy vz]. numR. repeat split; nra.
Qed.

(** ** Selector: index i is returned iff total*u lies in the i-th
    cumulative-weight interval *)
Fixpoint cum (ws : list R) (k : nat) {struct k} : R :=
  match k, ws with
  | S k', w :: r => w + cum r k'
  | _, _ => 0
  end.

Lemma selector_loop_spec : forall (ws : list R) (i : nat) (acc : R), ws <> [] ->
  let r := selector_loop ws i acc in
  (i <= r < i + length ws)%nat /\
  (forall j, (i <= j < r)%nat -> acc + cum ws (S (j - i)) <= 0) /\
  ((r < i + length ws - 1)%nat -> 0 < acc + cum ws (S (r - i))).
Proof.
  induction ws as [|w rest IH]; intros i acc Hne; [congruence|].
  destruct rest as [|w2 r2].
  - cbn [selector_loop length]. split; [lia|]. split; [intros j Hj; lia|intros Hlt; lia].
  - rewrite selector_loop_cons2. numR. cbv zeta.
    destruct (Rltb_spec 0 (acc + w)) as [Hpos|Hnp].
    + split; [cbn [length]; lia|]. split; [intros j Hj; lia|].
      intros _. replace (i - i)%nat with 0%nat by lia. cbn [cum]. lra.
    + specialize (IH (S i) (acc + w) ltac:(discriminate)). cbv zeta in IH.
      destruct IH as (Hb & Hlow & Hup).
      set (r := selector_loop (w2 :: r2) (S i) (acc + w)) in *.
      split; [cbn [length] in *; lia|]. split.
      * intros j Hj. destruct (Nat.eq_dec j i) as [->|Hne'].
        -- replace (i - i)%nat with 0%nat by lia. cbn [cum]. lra.
        -- specialize (Hlow j ltac:(lia)).
           replace (S (j - i)) with (S (S (j - S i))) by lia.
           replace (S (j - S i)) with (S (j - S i)) in Hlow by reflexivity.
           change (cum (w :: w2 :: r2) (S (S (j - S i)))) with (w + cum (w2 :: r2) (S (j - S i))). lra.
      * intros Hlt. cbn [length] in *.
        specialize (Hup ltac:(lia)).
        replace (S (r - i)) with (S (S (r - S i))) by lia.
        change (cum (w :: w2 :: r2) (S (S (r - S i)))) with (w + cum (w2 :: r2) (S (r - S i))). lra.
Qed.

Lemma selector_spec ws total u s : ws <> [] ->
  exists i, selector (T:=R) ws total (u :: s) = Some (i, s) /\ (i < length ws)%nat /\
    (forall j, (j < i)%nat -> cum ws (S j) <= total * u) /\
    ((i < length ws - 1)%nat -> total * u < cum ws (S i)).
Proof.
  intros Hne. eexists; split; [reflexivity|].
  pose proof (selector_loop_spec ws 0 (nmul (nneg total) u) Hne) as Hs. cbv zeta in Hs.
  destruct Hs as (Hb & Hlow & Hup). numR.
  set (r := selector_loop ws 0 (- total * u)) in *.
  split; [lia|]. split.
  - intros j Hj. specialize (Hlow j ltac:(lia)). replace (j - 0)%nat with j in Hlow by lia. lra.
  - intros Hlt. specialize (Hup ltac:(lia)). replace (r - 0)%nat with r in Hup by lia. lra.
Qed.

Lemma cum_mono (ws : list R) : Forall (fun w => 0 <= w) ws -> forall k, cum ws k <= cum ws (S k).
Proof.
  induction ws as [|w r IH]; intros Hall k; [destruct k; cbn; lra|].
  inversion Hall as [|? ? Hw Hr]; subst. destruct k as [|k]; [cbn [cum]; destruct r; cbn; lra|].
  change (cum (w :: r) (S k)) with (w + cum r k).
  change (cum (w :: r) (S (S k))) with (w + cum r (S k)). specialize (IH Hr k). lra.
Qed.
Lemma cum_mono_le (ws : list R) : Forall (fun w => 0 <= w) ws -> forall j k, (j <= k)%nat -> cum ws j <= cum ws k.
Proof.
  intros Hall j k Hjk. induction Hjk as [|k Hle IH]; [lra|].
  pose proof (cum_mono ws Hall k). lra.
Qed.

(** with non-negative weights summing to [total] > 0 and canonical u, the
    returned index i satisfies  cum_i / total <= u < cum_{i+1} / total,
    an interval of length w_i / total: P(i) = w_i / sum w for uniform u *)
Lemma selector_quantile ws total u s :
  ws <> [] -> Forall (fun w => 0 <= w) ws -> total = cum ws (length ws) -> 0 < total -> canonical u ->
  exists i, selector (T:=R) ws total (u :: s) = Some (i, s) /\ (i < length ws)%nat /\
    cum ws i / total <= u < cum ws (S i) / total.
Proof.
  intros Hne Hall Htot Hpos [Hu0 Hu1].
  destruct (selector_spec ws total u s Hne) as (i & Hrun & Hi & Hlow & Hup).
  exists i. split; [exact Hrun|]. split; [exact Hi|]. split.
  - apply Rmult_le_reg_r with total; [exact Hpos|].
    replace (cum ws i / total * total) with (cum ws i) by (field; lra).
    destruct i as [|i']; [destruct ws; cbn [cum]; nra|].
    specialize (Hlow i' ltac:(lia)). lra.
  - apply Rmult_lt_reg_r with total; [exact Hpos|].
    replace (cum ws (S i) / total * total) with (cum ws (S i)) by (field; lra).
    destruct (Nat.eq_dec i (length ws - 1)) as [Hlast|Hnl].
    + replace (S i) with (length ws) by lia. rewrite <- Htot. nra.
    + specialize (Hup ltac:(lia)). lra.
Qed.

(** conversely the interval determines the index: the intervals are disjoint *)
Lemma selector_interval_unique ws total u i j :
  Forall (fun w => 0 <= w) ws -> 0 < total ->
  cum ws i / total <= u < cum ws (S i) / total ->
  cum ws j / total <= u < cum ws (S j) / total -> i = j.
Proof.
  intros Hall Hpos [Hi0 Hi1] [Hj0 Hj1].
  assert (Hmul : forall a, a / total * total = a) by (intros a; field; lra).
  destruct (lt_eq_lt_dec i j) as [[Hlt|Heq]|Hgt]; [exfalso|exact Heq|exfalso].
  - pose proof (cum_mono_le ws Hall (S i) j ltac:(lia)) as Hm.
    apply Rmult_lt_compat_r with (r := total) in Hi1; [|exact Hpos].
    apply Rmult_le_compat_r with (r := total) in Hj0; [|lra]. rewrite Hmul in *. lra.
  - pose proof (cum_mono_le ws Hall (S j) i ltac:(lia)) as Hm.
    apply Rmult_lt_compat_r with (r := total) in Hj1; [|exact Hpos].
    apply Rmult_le_compat_r with (r := total) in Hi0; [|lra]. rewrite Hmul in *. lra.
Qed.

(** ** Normal (Box-Muller): the pair (z1, z2) of standard deviates lies on the
    circle of radius r with r^2 = -2 ln u2 at angle 2 pi u1 -- the exact
    Box-Muller transform; in particular exp(-(z1^2 + z2^2)/2) = u2 (the radial
    law) and |x - mean| <= sd r is finite for u2 > 0 *)
Lemma normal_run mean sd u1 u2 s :
  normal_step (T:=R) mean sd None (u1 :: u2 :: s) =
  Some ((sqrt (-2 * ln u2) * sin (twopi * u1) * sd + mean, Some (sqrt (-2 * ln u2) * cos (twopi * u1))), s).
Proof. reflexivity. Qed.

Lemma normal_box_muller mean sd u1 u2 s : 0 < u2 <= 1 ->
  exists x z2, normal_step (T:=R) mean sd None (u1 :: u2 :: s) = Some ((x, Some z2), s) /\
    let r := sqrt (-2 * ln u2) in
    x = mean + sd * (r * sin (twopi * u1)) /\ z2 = r * cos (twopi * u1) /\
    r * r = -2 * ln u2 /\
    (r * sin (twopi * u1)) * (r * sin (twopi * u1)) + z2 * z2 = -2 * ln u2 /\
    exp (- ((r * sin (twopi * u1)) * (r * sin (twopi * u1)) + z2 * z2) / 2) = u2.
Proof.
  intros [Hu0 Hu1]. eexists; eexists; split; [apply normal_run|]. cbv zeta.
  assert (Hln : ln u2 <= 0).
  { destruct Hu1 as [Hlt| ->]; [left; rewrite <- ln_1; apply ln_increasing; lra|rewrite ln_1; lra]. }
  assert (Hr : 0 <= -2 * ln u2) by lra.
  pose proof (sqrt_sqrt _ Hr) as Hss.
  set (r := sqrt (-2 * ln u2)) in *.
  pose proof (sin2_cos2 (twopi * u1)) as Htrig. unfold Rsqr in Htrig.
  assert (Hcirc : r * sin (twopi * u1) * (r * sin (twopi * u1)) + r * cos (twopi * u1) * (r * cos (twopi * u1))
                  = -2 * ln u2).
  { replace (r * sin (twopi * u1) * (r * sin (twopi * u1)) + r * cos (twopi * u1) * (r * cos (twopi * u1)))
      with (r * r * (sin (twopi * u1) * sin (twopi * u1) + cos (twopi * u1) * cos (twopi * u1))) by ring.
    rewrite Htrig, Hss. ring. }
  split; [ring|]. split; [reflexivity|]. split; [exact Hss|]. split; [exact Hcirc|].
  rewrite Hcirc. replace (- (-2 * ln u2) / 2) with (ln u2) by field. apply exp_ln. exact Hu0.
Qed.

Lemma normal_support_finite mean sd u1 u2 s : 0 <= sd -> 0 < u2 <= 1 ->
  exists x st, normal_step (T:=R) mean sd None (u1 :: u2 :: s) = Some ((x, st), s) /\
    Rabs (x - mean) <= sd * sqrt (-2 * ln u2).
Proof.
  intros Hsd Hu. destruct (normal_box_muller mean sd u1 u2 s Hu) as (x & z2 & Hrun & Hx & _).
  cbv zeta in Hx. exists x, (Some z2). split; [exact Hrun|].
  rewrite Hx. replace (mean + sd * (sqrt (-2 * ln u2) * sin (twopi * u1)) - mean)
    with (sd * sqrt (-2 * ln u2) * sin (twopi * u1)) by ring.
  pose proof (sqrt_pos (-2 * ln u2)) as Hsp.
  rewrite Rabs_mult. rewrite (Rabs_right (sd * sqrt (-2 * ln u2))) by (apply Rle_ge; nra).
  pose proof (SIN_bound (twopi * u1)) as [Hs1 Hs2].
  assert (Rabs (sin (twopi * u1)) <= 1) by (apply Rabs_le; lra).
  assert (0 <= sd * sqrt (-2 * ln u2)) by nra. nra.
Qed.

(** the spare is used without drawing *)
Lemma normal_spare_run mean sd z s : normal_step (T:=R) mean sd (Some z) s = Some ((z * sd + mean, None), s).
Proof. reflexivity. Qed.

(** ** Poisson, direct method: returns k = (number of draws) - 1 where the
    number of draws m is the least m >= 1 with e^lambda u_1 ... u_m <= 1,
    i.e. the least k with prod_{j <= k+1} u_j <= e^-lambda *)
Fixpoint prod_first (p : R) (us : list R) (m : nat) {struct m} : R :=
  match m, us with
  | S m', u :: r => prod_first (p * u) r m'
  | _, _ => p
  end.

Lemma poisson_direct_spec_gen : forall fuel k p s n s',
  poisson_direct (T:=R) fuel k p s = Some (n, s') ->
  exists m, (1 <= m)%nat /\ n = (k + Z.of_nat m - 1)%Z /\ length s = (m + length s')%nat /\
    s' = skipn m s /\
    prod_first p s m <= 1 /\ forall j, (1 <= j < m)%nat -> 1 < prod_first p s j.
Proof.
  induction fuel as [|f IH]; intros k p s n s' Hrun; [discriminate|].
  cbn [poisson_direct] in Hrun. destruct s as [|u r]; [discriminate|].
  unfold bind, draw in Hrun. numR.
  destruct (Rltb_spec 1 (p * u)) as [Hgt|Hle].
  - destruct (IH _ _ _ _ _ Hrun) as (m & Hm1 & Hn & Hlen & Hskip & Hstop & Hbefore).
    exists (S m). split; [lia|]. split; [lia|]. split; [cbn [length]; lia|].
    split; [exact Hskip|]. split; [exact Hstop|].
    intros j Hj. destruct j as [|j]; [lia|]. cbn [prod_first].
    destruct j as [|j]; [cbn [prod_first]; exact Hgt|]. apply Hbefore. lia.
  - unfold ret in Hrun. inversion Hrun; subst.
    exists 1%nat. split; [lia|]. split; [lia|]. split; [cbn [length]; lia|].
    split; [reflexivity|]. split; [cbn [prod_first]; lra|intros j Hj; lia].
Qed.

Lemma poisson_direct_spec lambda s k s' : lambda <= 16 ->
  poisson (T:=R) true lambda s = Some (k, s') ->
  exists m, (1 <= m)%nat /\ k = (Z.of_nat m - 1)%Z /\ length s = (m + length s')%nat /\
    prod_first (exp lambda) s m <= 1 /\ forall j, (1 <= j < m)%nat -> 1 < prod_first (exp lambda) s j.
Proof.
  intros Hl Hrun. unfold poisson in Hrun. numR.
  replace (Rleb lambda 16) with true in Hrun by (symmetry; apply Rleb_true; exact Hl).
  destruct (poisson_direct_spec_gen _ _ _ _ _ _ Hrun) as (m & H1 & Hn & Hlen & _ & Hstop & Hbef).
  exists m. split; [exact H1|]. split; [lia|]. split; [exact Hlen|]. split; [exact Hstop|exact Hbef].
Qed.

(** the count is never negative and is bounded by the stream consumed *)
Lemma poisson_direct_nonneg lambda s k s' : lambda <= 16 ->
  poisson (T:=R) true lambda s = Some (k, s') -> (0 <= k < Z.of_nat (length s))%Z.
Proof.
  intros Hl Hrun. destruct (poisson_direct_spec _ _ _ _ Hl Hrun) as (m & H1 & -> & Hlen & _). lia.
Qed.

(** termination: the loop stops at (or before) the first draw <= e^-lambda *)
Lemma prod_first_le p : 0 <= p -> forall us m, Forall canonical us -> prod_first p us m <= p.
Proof.
  intros Hp us. revert p Hp. induction us as [|u r IH]; intros p Hp m Hall; [destruct m; cbn; lra|].
  destruct m as [|m]; [cbn; lra|]. cbn [prod_first].
  inversion Hall as [|? ? [Hu0 Hu1] Hr]; subst.
  apply Rle_trans with (p * u); [apply IH; [nra|exact Hr]|nra].
Qed.

Lemma poisson_terminates_on_low_draw lambda pre u post :
  0 <= lambda <= 16 -> Forall canonical pre -> canonical u -> u <= exp (- lambda) ->
  exists k s', poisson (T:=R) true lambda (pre ++ u :: post) = Some (k, s') /\
    (0 <= k <= Z.of_nat (length pre))%Z.
Proof.
  intros [Hl0 Hl] Hpre [Hu0 Hu1] Hlow. unfold poisson. numR.
  replace (Rleb lambda 16) with true by (symmetry; apply Rleb_true; exact Hl).
  rewrite app_length. cbn [length].
  assert (Hgen : forall pre p (k : Z) fuel, Forall canonical pre -> 0 <= p <= exp lambda ->
            (length pre < fuel)%nat ->
            exists n s', poisson_direct (T:=R) fuel k p (pre ++ u :: post) = Some (n, s') /\
              (k <= n <= k + Z.of_nat (length pre))%Z).
  { clear Hpre pre. induction pre as [|a r IH]; intros p k fuel Hall Hp Hfuel.
    - destruct fuel as [|f]; [cbn in Hfuel; lia|]. cbn [app poisson_direct]. unfold bind, draw. numR.
      replace (Rltb 1 (p * u)) with false.
      2:{ symmetry. apply Rltb_false. apply Rle_trans with (exp lambda * exp (- lambda)).
          - apply Rmult_le_compat; lra.
          - rewrite <- exp_plus. replace (lambda + - lambda) with 0 by ring. rewrite exp_0. lra. }
      eexists; eexists; split; [reflexivity|]. cbn [length]. lia.
    - destruct fuel as [|f]; [cbn in Hfuel; lia|].
      inversion Hall as [|? ? [Ha0 Ha1] Hr]; subst.
      cbn [app poisson_direct]. unfold bind, draw. numR.
      destruct (Rltb_spec 1 (p * a)) as [Hgt|Hle].
      + destruct (IH (p * a) (k + 1)%Z f Hr ltac:(split; nra) ltac:(cbn [length] in Hfuel; lia))
          as (n & s' & Hrun & Hn).
        exists n, s'. split; [exact Hrun|]. cbn [length]. lia.
      + eexists; eexists; split; [reflexivity|]. cbn [length]. lia. }
  destruct (Hgen pre (exp lambda) 0%Z (length pre + S (length post))%nat Hpre
              ltac:(split; [left; apply exp_pos|lra]) ltac:(lia)) as (n & s' & Hrun & Hn).
  exists n, s'. split; [exact Hrun|]. lia.
Qed.

(** ** Gamma (Marsaglia-Tsang): when it returns, the value is positive and the
    accepted (z, v, u) passed the squeeze or the exact log test *)
Lemma gamma_inner_spec c : forall fuel st s z v st' s',
  gamma_inner (T:=R) fuel c st s = Some ((z, v, st'), s') -> v = 1 + c * z /\ 0 < v.
Proof.
  induction fuel as [|f IH]; intros st s z v st' s' Hrun; [discriminate|].
  cbn [gamma_inner] in Hrun. unfold bind in Hrun.
  destruct (normal_step n0 n1 st s) as [[[z0 st0] s0]|] eqn:En; [|discriminate].
  numR. destruct (Rleb_spec (1 + c * z0) 0) as [Hle|Hgt].
  - apply (IH _ _ _ _ _ _ Hrun).
  - unfold ret in Hrun. inversion Hrun; subst. split; [reflexivity|lra].
Qed.

Lemma gamma_outer_spec d c : forall fuel st s x s',
  gamma_outer (T:=R) fuel d c st s = Some (x, s') ->
  exists z v u, v = 1 + c * z /\ 0 < v /\ x = d * (v * v * v) /\
    (u <= 1 - 331 / 10000 * (z * z * (z * z))
     \/ ln u <= 1 / 2 * (z * z) + d * (1 - v * v * v + ln (v * v * v))).
Proof.
  induction fuel as [|f IH]; intros st s x s' Hrun; [discriminate|].
  cbn [gamma_outer] in Hrun. unfold bind at 1 in Hrun.
  destruct (gamma_inner (S f) c st s) as [[[[z v] st0] s0]|] eqn:Ei; [|discriminate].
  destruct (gamma_inner_spec _ _ _ _ _ _ _ _ Ei) as [Hv Hvpos].
  unfold bind, draw in Hrun. destruct s0 as [|u r]; [discriminate|].
  numR. unfold n2 in *. numR.
  destruct (Rltb_spec (1 - 331 / 10000 * (z * z * (z * z))) u) as [Hsq|Hsq];
  destruct (Rltb_spec (1 / 2 * (z * z) + d * (1 - v * v * v + ln (v * v * v))) (ln u)) as [Hex|Hex];
    cbn [andb] in Hrun.
  1: apply (IH _ _ _ _ Hrun).
  all: unfold ret in Hrun; inversion Hrun; subst x s'; exists z, v, u;
    (split; [exact Hv|split; [exact Hvpos|split; [reflexivity|]]]); lra.
Qed.

(** every sampler returns a suffix of its input stream *)
Lemma normal_step_suffix (m sd : R) st t r t' :
  normal_step (T:=R) m sd st t = Some (r, t') -> exists pre, t = pre ++ t'.
Proof.
  intros E. destruct st as [sp|]; cbn [normal_step] in E.
  - unfold ret in E. inversion E; subst. exists []. reflexivity.
  - unfold bind, draw in E. destruct t as [|a [|b t0]]; try discriminate.
    unfold ret in E. inversion E; subst. exists [a; b]. reflexivity.
Qed.
Lemma gamma_inner_suffix : forall fuel cc st t r t',
  gamma_inner (T:=R) fuel cc st t = Some (r, t') -> exists pre, t = pre ++ t'.
Proof.
  induction fuel as [|f IHf]; intros cc st t r t' E; [discriminate|].
  cbn [gamma_inner] in E. unfold bind in E.
  destruct (normal_step n0 n1 st t) as [[[z0 st0] t1]|] eqn:En; [|discriminate].
  destruct (normal_step_suffix _ _ _ _ _ _ En) as [p1 ->].
  destruct (nleb _ _).
  - destruct (IHf _ _ _ _ _ E) as [p2 ->]. exists (p1 ++ p2). rewrite app_assoc. reflexivity.
  - unfold ret in E. inversion E; subst. exists p1. reflexivity.
Qed.
Lemma gamma_outer_suffix : forall fuel dd cc st t x t',
  gamma_outer (T:=R) fuel dd cc st t = Some (x, t') -> exists pre, t = pre ++ t'.
Proof.
  induction fuel as [|f IHf]; intros dd cc st t x t' E; [discriminate|].
  cbn [gamma_outer] in E. unfold bind at 1 in E.
  destruct (gamma_inner (S f) cc st t) as [[[[z0 v0] st0] t1]|] eqn:Ei; [|discriminate].
  destruct (gamma_inner_suffix _ _ _ _ _ _ Ei) as [p1 ->].
  unfold bind, draw in E. destruct t1 as [|u0 r0]; [discriminate|].
  destruct (andb _ _).
  - destruct (IHf _ _ _ _ _ _ E) as [p2 ->]. exists (p1 ++ u0 :: p2).
    rewrite <- app_assoc. reflexivity.
  - unfold ret in E. inversion E; subst. exists (p1 ++ [u0]). rewrite <- app_assoc. reflexivity.
Qed.

Lemma gamma_support alpha beta s x s' : 0 < alpha -> 0 < beta ->
  Forall (fun u => 0 < u < 1) s ->
  gamma (T:=R) alpha beta s = Some (x, s') -> 0 < x.
Proof.
  intros Ha Hb Hs Hrun. unfold gamma in Hrun. unfold bind at 1 in Hrun.
  set (alpha_p := if nltb alpha n1 then nadd alpha n1 else alpha) in *.
  destruct (gamma_outer (length s) _ _ None s) as [[dv s0]|] eqn:Eo; [|discriminate].
  assert (Hap : 1 <= alpha_p).
  { unfold alpha_p. numR. destruct (Rltb_spec alpha 1); lra. }
  destruct (gamma_outer_spec _ _ _ _ _ _ _ Eo) as (z & v & u & Hv & Hvpos & Hdv & _).
  assert (Hd : 0 < alpha_p - 1 / 3) by lra.
  assert (Hdvpos : 0 < dv).
  { rewrite Hdv. numR. apply Rmult_lt_0_compat; [exact Hd|].
    apply Rmult_lt_0_compat; [apply Rmult_lt_0_compat|]; exact Hvpos. }
  numR. destruct (Reqb alpha alpha_p).
  - unfold ret in Hrun. inversion Hrun; subst. apply Rmult_lt_0_compat; assumption.
  - unfold bind, draw in Hrun. destruct s0 as [|w r]; [discriminate|].
    unfold ret in Hrun. inversion Hrun; subst.
    (* the boost draw w comes from the same stream: 0 < w *)
    assert (Hw : 0 < w).
    { assert (Hin : In w s).
      { destruct (gamma_outer_suffix _ _ _ _ _ _ _ Eo) as [pre ->]. apply in_or_app. right. left. reflexivity. }
      rewrite Forall_forall in Hs. apply (Hs w Hin). }
    apply Rmult_lt_0_compat; [apply Rmult_lt_0_compat; assumption|].
    unfold Rpow. destruct (Req_EM_T (1 / alpha) 0) as [E0|_]; [lra|].
    destruct (Rlt_dec 0 w); [unfold Rpower; apply exp_pos|contradiction].
Qed.

(** for alpha >= 1 (including exactly 1: the exponential law) there is no boost:
    d = alpha - 1/3 and the result is d v^3 beta with no further draw *)
Lemma gamma_no_boost_from_one alpha beta s : 1 <= alpha ->
  gamma (T:=R) alpha beta s =
  match gamma_outer (length s) (alpha - 1 / 3) (rsqrt (9 * (alpha - 1 / 3))) None s with
  | Some (dv, s') => Some (dv * beta, s')
  | None => None
  end.
Proof.
  intros Ha. unfold gamma. numR.
  replace (Rltb alpha 1) with false by (symmetry; apply Rltb_false; lra).
  unfold bind. numR.
  destruct (gamma_outer (length s) (alpha - 1 / 3) (rsqrt (9 * (alpha - 1 / 3))) None s) as [[dv s']|]; [|reflexivity].
  replace (Reqb alpha alpha) with true by (symmetry; apply Reqb_true; reflexivity). reflexivity.
Qed.
