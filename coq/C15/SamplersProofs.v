(** * C15 proofs (instance R): supports, draw counts, quantile identities. *)
From Coq Require Import Reals ZArith List Bool Lra Lia.
From Celer Require Import Base.Num Base.NumR Base.Stream Base.Vec3 C15.Samplers.
Import ListNotations.
Local Open Scope R_scope.

Definition canonical (u : R) : Prop := 0 <= u < 1.

(** ** Uniform *)
Lemma uniform_run a b u s : uniform (T:=R) a b (u :: s) = Some ((b - a) * u + a, s).
Proof. reflexivity. Qed.

Lemma uniform_support a b u s : a <= b -> canonical u ->
  exists x, uniform (T:=R) a b (u :: s) = Some (x, s) /\ a <= x <= b /\ (a < b -> x < b).
Proof.
  intros Hab [Hu0 Hu1]. eexists; split; [apply uniform_run|].
  split; [split|intros Hlt]; nra.
Qed.

Lemma uniform_quantile a b u s : a < b ->
  exists x, uniform (T:=R) a b (u :: s) = Some (x, s) /\ (x - a) / (b - a) = u.
Proof. intros Hab. eexists; split; [apply uniform_run|]. field. lra. Qed.

(** ** Exponential *)
Lemma exponential_run l u s : exponential (T:=R) l (u :: s) = Some (ln u * (- 1 / l), s).
Proof. reflexivity. Qed.

Lemma exponential_support l u s : 0 < l -> 0 < u < 1 ->
  exists x, exponential (T:=R) l (u :: s) = Some (x, s) /\ 0 < x.
Proof.
  intros Hl [Hu0 Hu1]. eexists; split; [apply exponential_run|].
  assert (Hln : ln u < 0). { rewrite <- ln_1. apply ln_increasing; lra. }
  assert (Hinv : 0 < / l) by (apply Rinv_0_lt_compat; lra).
  unfold Rdiv. nra.
Qed.

(** survival function: exp(-lambda x) = u, i.e. CDF(x) = 1 - u *)
Lemma exponential_quantile l u s : 0 < l -> 0 < u ->
  exists x, exponential (T:=R) l (u :: s) = Some (x, s) /\ exp (- l * x) = u.
Proof.
  intros Hl Hu. eexists; split; [apply exponential_run|].
  replace (- l * (ln u * (- 1 / l))) with (ln u) by (field; lra).
  apply exp_ln; assumption.
Qed.

(** ** Bernoulli / rejection *)
Lemma bernoulli_run p u s : bernoulli (T:=R) p (u :: s) = Some (Rltb u p, s).
Proof. reflexivity. Qed.
Lemma bernoulli_true_iff p u s b : bernoulli (T:=R) p (u :: s) = Some (b, s) -> (b = true <-> u < p).
Proof. rewrite bernoulli_run. intros E; inversion E; subst. apply Rltb_true. Qed.
Lemma bernoulli_never p u s : p = 0 -> canonical u -> bernoulli (T:=R) p (u :: s) = Some (false, s).
Proof. intros -> [Hu _]. rewrite bernoulli_run. f_equal. f_equal. apply Rltb_false. lra. Qed.
Lemma bernoulli_always p u s : p = 1 -> canonical u -> bernoulli (T:=R) p (u :: s) = Some (true, s).
Proof. intros -> [_ Hu]. rewrite bernoulli_run. f_equal. f_equal. apply Rltb_true. lra. Qed.

(** P(accept) = f/fmax: the sampler rejects iff u > f/fmax *)
Lemma rejection_iff f fmax u s : 0 < fmax ->
  exists b, rejection (T:=R) f fmax (u :: s) = Some (b, s) /\ (b = true <-> f / fmax < u).
Proof.
  intros Hf. eexists; split; [reflexivity|]. numR. rewrite Rltb_true.
  split; intros Hlt.
  - apply Rmult_lt_reg_l with fmax; [lra|]. replace (fmax * (f / fmax)) with f by (field; lra). lra.
  - apply Rmult_lt_compat_l with (r := fmax) in Hlt; [|lra].
    replace (fmax * (f / fmax)) with f in Hlt by (field; lra). lra.
Qed.

(** ** Inverse square *)
Lemma inverse_square_run a b u s :
  inverse_square (T:=R) a b (u :: s) = Some (a * b / ((b - a) * u + a), s).
Proof. reflexivity. Qed.

Lemma inverse_square_support a b u s : 0 < a -> a <= b -> canonical u ->
  exists x, inverse_square (T:=R) a b (u :: s) = Some (x, s) /\ a <= x <= b.
Proof.
  intros Ha Hab [Hu0 Hu1]. eexists; split; [apply inverse_square_run|].
  set (d := (b - a) * u + a).
  assert (Hd : a <= d <= b) by (unfold d; split; nra).
  assert (Hd0 : 0 < d) by lra.
  split.
  - apply Rmult_le_reg_r with d; [lra|]. replace (a * b / d * d) with (a * b) by (field; lra). nra.
  - apply Rmult_le_reg_r with d; [lra|]. replace (a * b / d * d) with (a * b) by (field; lra). nra.
Qed.

(** CDF F(x) = (1 - a/x) b/(b-a); F(sample) = 1 - u *)
Lemma inverse_square_quantile a b u s : 0 < a -> a < b -> canonical u ->
  exists x, inverse_square (T:=R) a b (u :: s) = Some (x, s) /\ (1 - a / x) * b / (b - a) = 1 - u.
Proof.
  intros Ha Hab [Hu0 Hu1]. eexists; split; [apply inverse_square_run|].
  assert (0 < (b - a) * u + a) by nra.
  field. repeat split; try lra.
Qed.

(** ** Reciprocal *)
Lemma exp_le x y : x <= y -> exp x <= exp y.
Proof. intros [Hlt| ->]; [left; apply exp_increasing; exact Hlt|right; reflexivity]. Qed.
Lemma ln_nonneg x : 1 <= x -> 0 <= ln x.
Proof. intros [Hlt|<-]; [left; rewrite <- ln_1; apply ln_increasing; lra|rewrite ln_1; lra]. Qed.

Lemma reciprocal_support a b u s : 0 < a -> a <= b -> canonical u ->
  exists x, reciprocal (T:=R) a b (u :: s) = Some (x, s) /\ a <= x <= b.
Proof.
  intros Ha Hab [Hu0 Hu1]. eexists; split; [reflexivity|]. numR.
  assert (Hr : 1 <= 1 / a * b).
  { apply Rmult_le_reg_l with a; [lra|]. replace (a * (1 / a * b)) with b by (field; lra). lra. }
  pose proof (ln_nonneg _ Hr) as Hl.
  set (q := 1 / a * b) in *.
  assert (H1 : exp 0 <= exp (ln q * u)) by (apply exp_le; nra).
  assert (H2 : exp (ln q * u) <= exp (ln q)) by (apply exp_le; nra).
  rewrite exp_0 in H1. rewrite exp_ln in H2 by lra.
  split; [nra|].
  apply Rle_trans with (a * q); [nra|]. right. unfold q. field. lra.
Qed.

(** ** Selector: the returned index is always valid *)
Lemma selector_loop_cons2 (w w2 : R) r2 i acc :
  selector_loop (w :: w2 :: r2) i acc =
  if nltb n0 (nadd acc w) then i else selector_loop (w2 :: r2) (S i) (nadd acc w).
Proof. reflexivity. Qed.

Lemma selector_loop_bound (ws : list R) : forall i acc, ws <> [] ->
  (i <= selector_loop ws i acc < i + length ws)%nat.
Proof.
  induction ws as [|w r IH]; intros i acc Hne; [congruence|].
  destruct r as [|w2 r2].
  - cbn [selector_loop length]. lia.
  - rewrite selector_loop_cons2.
    destruct (nltb n0 (nadd acc w)); [cbn [length]; lia|].
    specialize (IH (S i) (nadd acc w) ltac:(discriminate)).
    cbn [length] in *. lia.
Qed.

Lemma selector_index_valid ws total u s : ws <> [] ->
  exists i, selector (T:=R) ws total (u :: s) = Some (i, s) /\ (i < length ws)%nat.
Proof.
  intros Hne. eexists; split; [reflexivity|].
  pose proof (selector_loop_bound ws 0 (nmul (nneg total) u) Hne). lia.
Qed.

(** ** Isotropic: unit vector *)
Lemma from_spherical_unit (c p : R) : -1 <= c <= 1 ->
  dot (from_spherical c p) (from_spherical c p) = 1.
Proof.
  intros Hc. unfold dot, from_spherical; cbn [vx vy vz]. numR.
  assert (Hs : 0 <= 1 - c * c) by nra.
  pose proof (sqrt_sqrt _ Hs) as Hss.
  pose proof (sin2_cos2 p) as Htrig. unfold Rsqr in Htrig.
  set (q := sqrt (1 - c * c)) in *.
  replace (c * c + (q * sin p * (q * sin p) + (q * cos p * (q * cos p) + 0)))
    with (c * c + q * q * (sin p * sin p + cos p * cos p)) by ring.
  rewrite Htrig, Hss. ring.
Qed.

Lemma isotropic_unit u1 u2 s : canonical u1 -> canonical u2 ->
  exists v, isotropic (T:=R) (u1 :: u2 :: s) = Some (v, s) /\ dot v v = 1.
Proof.
  intros [H1 H1'] [H2 H2']. eexists; split; [reflexivity|].
  apply from_spherical_unit. numR. split; nra.
Qed.

(** ** Poisson, Gaussian branch *)
(** With the clamp, the value converted to unsigned is non-negative, hence the
    conversion is the mathematical floor and lies in the result type's range
    whenever the sample does. *)
Lemma truncZ_nonneg (y : R) : 0 <= y -> truncZ y = Int_part y /\ (0 <= Int_part y)%Z.
Proof.
  intros Hy. unfold truncZ. numR.
  replace (Rltb y 0) with false by (symmetry; apply Rltb_false; lra).
  split; [reflexivity|].
  destruct (base_Int_part y) as [Hb1 Hb2].
  apply le_IZR. apply Rnot_lt_le; intros Hneg.
  assert (IZR (Int_part y) <= -1).
  { replace (-1) with (IZR (-1)) by reflexivity. apply IZR_le.
    apply lt_IZR in Hneg. lia. }
  lra.
Qed.

Lemma poisson_gauss_support lambda u1 u2 s :
  16 < lambda -> forall x st,
  normal_step (T:=R) lambda (sqrt lambda) None (u1 :: u2 :: s) = Some ((x, st), s) ->
  x + 1 / 2 < 4294967296 ->
  exists k, poisson (T:=R) true lambda (u1 :: u2 :: s) = Some (k, s)
            /\ (0 <= k < 4294967296)%Z /\ k = Int_part (Rmax (x + 1/2) 0).
Proof.
  intros Hl x st Hrun Hub.
  unfold poisson. numR.
  replace (Rleb lambda 16) with false by (symmetry; apply Rleb_false; lra).
  unfold bind. numR. rewrite Hrun. cbn [ret].
  set (y := if Rltb (x + 1 / 2) 0 then 0 else x + 1 / 2).
  assert (Hy : y = Rmax (x + 1 / 2) 0).
  { unfold y. destruct (Rltb_spec (x + 1 / 2) 0); unfold Rmax; destruct (Rle_dec _ _); lra. }
  assert (Hy0 : 0 <= y) by (rewrite Hy; apply Rmax_r).
  destruct (truncZ_nonneg y Hy0) as [Ht Hip].
  assert (Hlt : (Int_part y < 4294967296)%Z).
  { apply lt_IZR. destruct (base_Int_part y) as [Hb _].
    apply Rle_lt_trans with y; [exact Hb|].
    rewrite Hy. unfold Rmax; destruct (Rle_dec _ _); lra. }
  eexists; split; [reflexivity|].
  unfold to_uint32. fold y. rewrite Ht.
  rewrite Z.mod_small by lia. rewrite <- Hy. split; [lia|reflexivity].
Qed.

(** ** Draw counts of the inverse-CDF samplers are exact *)
Lemma draws_exact a b l p (v : vec3 R) u1 u2 u3 s :
  consumed (u1 :: s) (uniform (T:=R) a b (u1 :: s)) = Some 1%nat /\
  consumed (u1 :: s) (exponential (T:=R) l (u1 :: s)) = Some 1%nat /\
  consumed (u1 :: s) (bernoulli (T:=R) p (u1 :: s)) = Some 1%nat /\
  consumed (u1 :: s) (reciprocal (T:=R) a b (u1 :: s)) = Some 1%nat /\
  consumed (u1 :: s) (inverse_square (T:=R) a b (u1 :: s)) = Some 1%nat /\
  consumed (u1 :: s) (radial (T:=R) a (u1 :: s)) = Some 1%nat /\
  consumed (u1 :: u2 :: s) (isotropic (T:=R) (u1 :: u2 :: s)) = Some 2%nat /\
  consumed (u1 :: u2 :: u3 :: s) (uniform_box (T:=R) v v (u1 :: u2 :: u3 :: s)) = Some 3%nat.
Proof.
  repeat split; cbn [consumed uniform exponential bernoulli reciprocal inverse_square radial
    isotropic uniform_box bind ret draw length]; f_equal; lia.
Qed.
