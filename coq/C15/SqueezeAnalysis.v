(** * C15 proofs, part 5a: the real analysis behind the Marsaglia-Tsang squeeze.

    Pure statements about [ln] over R (no sampler here):
    - fourth-order bounds of [ln (1 + t)] on both sides of 0 (by the mean-value theorem),
    - [ln (1 - l^2 w) <= l ln (1 - w)] for l >= 1 (Bernoulli, in logarithmic form),
    - the one-dimensional inequality at d = 2/3 (alpha = 1, where the constant
      0.0331 is tight to 2e-3), closed on its hard part by interval arithmetic,
    - [squeeze_below_exact]: for every d >= 2/3 and every z with v = 1 + z / sqrt (9 d) > 0,
      ln (1 - 0.0331 z^4) <= z^2/2 + d (1 - v^3 + ln v^3). *)
From Coq Require Import Reals Lra Lia Psatz.
From Coquelicot Require Import Coquelicot.
From Interval Require Import Tactic.
Local Open Scope R_scope.

Lemma nondecr_from_deriv (f df : R -> R) (a b : R) :
  a <= b ->
  (forall x, a <= x <= b -> is_derive f x (df x)) ->
  (forall x, a <= x <= b -> 0 <= df x) -> f a <= f b.
Proof.
  intros Hab Hd Hpos.
  destruct (MVT_gen f a b df) as (c & Hc & Heq).
  - cbv zeta. intros x Hx. apply Hd. rewrite Rmin_left, Rmax_right in Hx by lra. lra.
  - cbv zeta. intros x Hx. rewrite Rmin_left, Rmax_right in Hx by lra.
    apply derivable_continuous_pt. exists (df x). apply is_derive_Reals. apply Hd. lra.
  - cbv zeta in Hc. rewrite Rmin_left, Rmax_right in Hc by lra. specialize (Hpos c Hc). nra.
Qed.

Lemma ln_le_minus_one x : 0 < x -> ln x <= x - 1.
Proof.
  intros Hx. pose proof (exp_ineq1_le (ln x)) as H. rewrite exp_ln in H by exact Hx. lra.
Qed.

(** t - t^2/2 + t^3/3 - t^4/4 <= ln (1 + t) for t >= 0 *)
Lemma ln_lower4 t : 0 <= t -> t - t * t / 2 + t * t * t / 3 - t * t * t * t / 4 <= ln (1 + t).
Proof.
  intros Ht.
  pose (f := fun x => ln (1 + x) - (x - x * x / 2 + x * x * x / 3 - x * x * x * x / 4)).
  pose (df := fun x => x * x * x * x / (1 + x)).
  assert (H : f 0 <= f t).
  { apply (nondecr_from_deriv f df 0 t Ht).
    - intros x Hx. unfold f, df. auto_derive; [lra|]. field. lra.
    - intros x Hx. unfold df. apply Rmult_le_pos; [nra|]. left. apply Rinv_0_lt_compat. lra. }
  unfold f in H. replace (1 + 0) with 1 in H by ring. rewrite ln_1 in H. lra.
Qed.

(** - ln (1 - s) <= s + s^2/2 + s^3/3 + s^4 / (4 (1 - s)) for 0 <= s < 1 *)
Lemma ln_upper_neg s : 0 <= s < 1 ->
  - ln (1 - s) <= s + s * s / 2 + s * s * s / 3 + s * s * s * s / (4 * (1 - s)).
Proof.
  intros [Hs0 Hs1].
  pose (f := fun x => x + x * x / 2 + x * x * x / 3 + x * x * x * x / (4 * (1 - x)) + ln (1 - x)).
  pose (df := fun x => x * x * x * x / (4 * ((1 - x) * (1 - x)))).
  assert (H : f 0 <= f s).
  { apply (nondecr_from_deriv f df 0 s Hs0).
    - intros x Hx. unfold f, df. auto_derive; [repeat split; lra|]. field. lra.
    - intros x Hx. unfold df. apply Rmult_le_pos; [nra|]. left. apply Rinv_0_lt_compat. nra. }
  unfold f in H. replace (1 - 0) with 1 in H by ring. rewrite ln_1 in H. lra.
Qed.

(** Bernoulli's inequality in logarithmic form *)
Lemma bernoulli_ln w l : 0 <= w -> 1 <= l -> l * l * w < 1 ->
  ln (1 - l * l * w) <= l * ln (1 - w).
Proof.
  intros Hw Hl Hlt.
  assert (Hlw0 : 0 <= l * w) by (apply Rmult_le_pos; lra).
  assert (Hlw : l * w <= l * l * w).
  { replace (l * l * w) with (l * (l * w)) by ring. replace (l * w) with (1 * (l * w)) at 1 by ring.
    apply Rmult_le_compat_r; lra. }
  assert (Hw1 : w <= l * w) by nra.
  set (a := 1 - w). set (b := 1 - l * w).
  assert (Ha : 0 < a) by (unfold a; lra).
  assert (Hb : 0 < b) by (unfold b; lra).
  assert (H1 : ln (1 - l * l * w) <= ln b).
  { destruct (Req_dec (1 - l * l * w) b) as [->|Hne]; [lra|].
    left. apply ln_increasing; unfold b in *; lra. }
  assert (H2 : ln b <= ln a + (b - a) / a).
  { assert (Hba : 0 < b * / a) by (apply Rmult_lt_0_compat; [lra|apply Rinv_0_lt_compat; lra]).
    pose proof (ln_le_minus_one (b * / a) Hba) as H.
    rewrite ln_mult in H; [|lra|apply Rinv_0_lt_compat; lra]. rewrite ln_Rinv in H by lra.
    replace ((b - a) / a) with (b * / a - 1) by (field; lra). lra. }
  assert (H3 : - (w / a) <= ln a).
  { pose proof (ln_le_minus_one (/ a) ltac:(apply Rinv_0_lt_compat; lra)) as H.
    rewrite ln_Rinv in H by lra.
    replace (w / a) with (/ a - 1) by (unfold a; field; lra). lra. }
  assert (H4 : (b - a) / a = - ((l - 1) * (w / a))) by (unfold a, b; field; lra).
  rewrite H4 in H2.
  assert (0 <= l - 1) by lra.
  nra.
Qed.

(** ** The one-dimensional inequality at d = 2/3.
    G t = (z^2/2 + d (1 - v^3 + ln v^3)) / d  with t = z / sqrt (9 d), v = 1 + t. *)
Definition G (t : R) : R := 3 * ln (1 + t) - 3 * t + 3 * t * t / 2 - t * t * t.

Lemma one_d_pos t : 0 <= t -> 11916 / 10000 * (t * t * t * t) < 1 ->
  ln (1 - 11916 / 10000 * (t * t * t * t)) <= 2 / 3 * G t.
Proof.
  intros Ht Hw. pose proof (ln_lower4 t Ht) as Hl.
  pose proof (ln_le_minus_one (1 - 11916 / 10000 * (t * t * t * t)) ltac:(lra)) as H1.
  unfold G. assert (0 <= t * t * t * t) by nra. nra.
Qed.

Definition Gneg (s : R) : R := 3 * ln (1 - s) + 3 * s + 3 * s * s / 2 + s * s * s.

Lemma one_d_neg_small s : 0 <= s <= 55 / 100 ->
  ln (1 - 11916 / 10000 * (s * s * s * s)) <= 2 / 3 * Gneg s.
Proof.
  intros [Hs0 Hs1].
  assert (Hx4 : 0 <= s * s * s * s) by nra.
  assert (Hx4' : s * s * s * s <= 55 / 100 * (55 / 100) * (55 / 100) * (55 / 100)).
  { assert (s * s <= 55 / 100 * (55 / 100)) by nra. assert (0 <= s * s) by nra. nra. }
  pose proof (ln_upper_neg s ltac:(lra)) as Hup. unfold Rdiv in Hup.
  assert (Hq : s * s * s * s * / (4 * (1 - s)) <= s * s * s * s * (100 / 180)).
  { apply Rmult_le_compat_l; [exact Hx4|].
    replace (100 / 180) with (/ (180 / 100)) by field. apply Rinv_le_contravar; lra. }
  pose proof (ln_le_minus_one (1 - 11916 / 10000 * (s * s * s * s)) ltac:(lra)) as H1.
  unfold Gneg. lra.
Qed.

Lemma one_d_neg_mid s : 55 / 100 <= s <= 957 / 1000 ->
  ln (1 - 11916 / 10000 * (s * s * s * s)) <= 2 / 3 * Gneg s.
Proof.
  intros Hs. unfold Gneg.
  cut (0 <= 2 / 3 * (3 * ln (1 - s) + 3 * s + 3 * s * s / 2 + s * s * s)
            - ln (1 - 11916 / 10000 * (s * s * s * s))); [lra|].
  interval with (i_bisect s, i_taylor s, i_degree 8, i_prec 60, i_depth 40).
Qed.

Lemma one_d_neg_tail s : 957 / 1000 <= s -> 11916 / 10000 * (s * s * s * s) < 1 ->
  ln (1 - 11916 / 10000 * (s * s * s * s)) <= 2 / 3 * Gneg s.
Proof.
  intros Hs Hw.
  assert (Hs1 : s <= 958 / 1000).
  { destruct (Rle_dec s (958 / 1000)) as [H|H]; [exact H|exfalso].
    assert (958 / 1000 * (958 / 1000) <= s * s) by nra.
    assert (958 / 1000 * (958 / 1000) * (958 / 1000 * (958 / 1000)) <= s * s * (s * s)) by nra. nra. }
  assert (Hs4 : 957 / 1000 * (957 / 1000) * (957 / 1000 * (957 / 1000)) <= s * s * s * s).
  { assert (957 / 1000 * (957 / 1000) <= s * s) by nra. nra. }
  apply Rle_trans with (-7).
  - apply Rle_trans with (ln (1 - 11916 / 10000 * (957 / 1000 * (957 / 1000) * (957 / 1000 * (957 / 1000))))).
    + destruct (Req_dec (1 - 11916 / 10000 * (s * s * s * s))
                  (1 - 11916 / 10000 * (957 / 1000 * (957 / 1000) * (957 / 1000 * (957 / 1000))))) as [->|Hne]; [lra|].
      left. apply ln_increasing; lra.
    + interval.
  - unfold Gneg. interval.
Qed.

Lemma Gneg_G s : G (- s) = Gneg s.
Proof. unfold G, Gneg. replace (1 + - s) with (1 - s) by ring. field. Qed.

Lemma one_d t : -1 < t -> 11916 / 10000 * (t * t * t * t) < 1 ->
  ln (1 - 11916 / 10000 * (t * t * t * t)) <= 2 / 3 * G t.
Proof.
  intros Ht Hw. destruct (Rle_dec 0 t) as [Hpos|Hneg]; [apply one_d_pos; assumption|].
  set (s := - t). assert (Hs : 0 < s < 1) by (unfold s; lra).
  replace t with (- s) by (unfold s; ring). rewrite Gneg_G.
  replace (- s * - s * - s * - s) with (s * s * s * s) by ring.
  assert (Hw' : 11916 / 10000 * (s * s * s * s) < 1).
  { replace (s * s * s * s) with (t * t * t * t) by (unfold s; ring). exact Hw. }
  destruct (Rle_dec s (55 / 100)); [apply one_d_neg_small; lra|].
  destruct (Rle_dec s (957 / 1000)); [apply one_d_neg_mid; lra|].
  apply one_d_neg_tail; lra.
Qed.

(** ** Squeeze below the exact bound, for every d >= 2/3 (alpha' >= 1) *)
Lemma squeeze_below_exact d z : 2 / 3 <= d ->
  let c := 1 / sqrt (9 * d) in
  let v := 1 + c * z in
  0 < v -> 0 < 1 - 331 / 10000 * (z * z * (z * z)) ->
  ln (1 - 331 / 10000 * (z * z * (z * z))) <= 1 / 2 * (z * z) + d * (1 - v * v * v + ln (v * v * v)).
Proof.
  intros Hd c v Hv Hsq.
  assert (H9d : 0 < 9 * d) by lra.
  pose proof (sqrt_lt_R0 _ H9d) as Hr. pose proof (sqrt_sqrt (9 * d) ltac:(lra)) as Hrr.
  set (r := sqrt (9 * d)) in *.
  set (t := c * z). assert (Hvt : v = 1 + t) by reflexivity.
  assert (Hzz : z * z = 9 * d * (t * t)).
  { rewrite <- Hrr. unfold t, c. field. lra. }
  rewrite Hvt in *. clearbody t. clear Hvt v.
  rewrite !Hzz in *.
  rewrite (ln_mult ((1 + t) * (1 + t)) (1 + t)) by nra.
  rewrite (ln_mult (1 + t) (1 + t)) by lra.
  set (l := 3 * d / 2). set (w := 11916 / 10000 * (t * t * t * t)).
  assert (Hl : 1 <= l) by (unfold l; lra).
  assert (Heq : 331 / 10000 * (9 * d * (t * t) * (9 * d * (t * t))) = l * l * w)
    by (unfold l, w; field).
  rewrite Heq in *.
  assert (Hw0 : 0 <= w) by (unfold w; nra).
  assert (Hllw : l * l * w < 1) by lra.
  assert (Hw1 : w < 1) by nra.
  pose proof (bernoulli_ln w l Hw0 Hl Hllw) as HB.
  pose proof (one_d t ltac:(lra) Hw1) as H1. fold w in H1.
  replace (1 / 2 * (9 * d * (t * t)) + d * (1 - (1 + t) * (1 + t) * (1 + t) + (ln (1 + t) + ln (1 + t) + ln (1 + t))))
    with (l * (2 / 3 * G t)) by (unfold l, G; field).
  apply Rle_trans with (l * ln (1 - w)); [exact HB|].
  apply Rmult_le_compat_l; lra.
Qed.
