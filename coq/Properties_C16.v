(** * C16 property theorems — statements only; proofs live in C16/AllocatorProofs.v
    (and C02/TrackInitProofs.v for the shared capacity theorems). *)
From Coq Require Import List Arith Bool.
From Celer Require Import C16.Allocator C16.AllocatorProofs C16.Examples.
From Celer Require Import C02.TrackInit C02.InvA C02.InvB C02.TrackInitProofs.
Import ListNotations.

Theorem C16_alloc_fail_noop : forall a n,
  a_size a <= a_cap a -> a_cap a < a_size a + n -> alloc a n = (a, None).
Proof. exact alloc_fail_noop. Qed.
Print Assumptions C16_alloc_fail_noop.

Theorem C16_alloc_ok_disjoint : forall cap ops,
  let tr := arun (ainit cap) ops in
  let rs := live_ranges [] tr ops in
  let fin := last (map fst tr) (ainit cap) in
  a_size fin <= cap /\ a_cap fin = cap /\
  (forall s n, In (s, n) rs -> 0 < n /\ s + n <= a_size fin) /\
  (forall i j s1 n1 s2 n2, i <> j -> nth_error rs i = Some (s1, n1) -> nth_error rs j = Some (s2, n2) ->
      s1 + n1 <= s2 \/ s2 + n2 <= s1).
Proof. exact alloc_ok_disjoint. Qed.
Print Assumptions C16_alloc_ok_disjoint.

Theorem C16_failed_interaction_preserves_track :
  forall (E D : Type) (failure_action : nat) (add_dep : E -> E -> E)
         (t : @track E D) (i : @interaction E D),
  i_action i = IFailed ->
  let t' := apply_interaction failure_action add_dep t i in
  t_energy t' = t_energy t /\ t_dir t' = t_dir t /\ t_status t' = t_status t /\
  t_secs t' = t_secs t /\ t_dep t' = t_dep t /\
  t_step_limit t' = Some (0, failure_action).
Proof. intros E D. exact (@failed_interaction_preserves_track E D). Qed.
Print Assumptions C16_failed_interaction_preserves_track.

Theorem C16_starved_interaction_noop :
  forall (E D : Type) (failure_action : nat) (add_dep : E -> E -> E)
         (a : astate) n (t : @track E D) (i : @interaction E D),
  0 < n -> a_size a <= a_cap a -> a_cap a < a_size a + n ->
  let '(a', i') := interact_with_alloc a n i in
  let t' := apply_interaction failure_action add_dep t i' in
  a' = a /\ t_energy t' = t_energy t /\ t_dir t' = t_dir t /\ t_status t' = t_status t /\
  t_secs t' = t_secs t /\ t_dep t' = t_dep t.
Proof. intros E D. exact (@starved_interaction_noop E D). Qed.
Print Assumptions C16_starved_interaction_noop.

(** shared with C02: the track-initialisation machine (coq/C02/TrackInit.v) *)
Theorem C16_capacity_checked_first : forall cfg s,
  (forall ps s', insert_primaries cfg s ps = Err s' ->
     capacity cfg < length ps + c_init (cnt s) /\ s' = set_ph Failed s) /\
  (forall ps, ph s = Ready -> forallb (fun p => p_ev p <? n_events cfg) ps = true ->
     capacity cfg < length ps + c_init (cnt s) -> insert_primaries cfg s ps = Err (set_ph Failed s)) /\
  (forall s', extend_from_secondaries cfg s = Err s' ->
     slots s' = slots s /\ stack s' = stack s /\ parents s' = parents s /\ next_id s' = next_id s /\
     capacity cfg < c_init (cnt s')) /\
  (forall s', extend_from_secondaries cfg s = Ok s' -> c_init (cnt s') <= capacity cfg).
Proof. exact capacity_checked_first. Qed.
Print Assumptions C16_capacity_checked_first.

(** shared with C02: the track-initialisation machine (coq/C02/TrackInit.v) *)
Theorem C16_reset_then_run_ok : forall cfg ops s s1 ops' s2,
  exec cfg (init_state cfg) ops = Some s ->
  reset cfg s = Ok s1 ->
  exec cfg s1 ops' = Some s2 ->
  (stack s1 = [] /\ vac s1 = seq 0 (n_slots cfg) /\ cnt s1 = cnt (init_state cfg) /\ ph s1 = Ready /\
   Forall (fun sl => sst sl = Inactive) (slots s1)) /\
  InvA cfg s2 /\ InvB cfg s2.
Proof. exact reset_then_run_ok. Qed.
Print Assumptions C16_reset_then_run_ok.
