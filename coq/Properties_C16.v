(** * C16 property theorems — statements only; proofs live in C16/AllocatorProofs.v
    (and C02/TrackInitProofs.v for the shared capacity theorems). *)
From Coq Require Import List Arith Bool.
From Celer Require Import C16.Allocator C16.AllocatorProofs C16.Examples C16.StepStack C16.StepStackProofs C16.StepExamples.
From Celer Require Import C02.TrackInit C02.InvA C02.InvB C02.TrackInitProofs C02.Refine C02.ResetRefine.
Import ListNotations.

Theorem C16_alloc_fail_noop : forall a n,
  a_size a <= a_cap a -> a_cap a < a_size a + n -> alloc a n = (a, None).
Proof. exact alloc_fail_noop. Qed.
Print Assumptions C16_alloc_fail_noop.

Theorem C16_alloc_ok_disjoint : forall cap ops,
  let tr := arun (ainit cap) ops in
  let rs := live_ranges [] tr ops in
  let fin := last (map fst tr) (ainit cap) in
  a_size fin <= cap /\ a_cap fin = cap /\
  (forall s n, In (s, n) rs -> 0 < n /\ s + n <= a_size fin) /\
  (forall i j s1 n1 s2 n2, i <> j -> nth_error rs i = Some (s1, n1) -> nth_error rs j = Some (s2, n2) ->
      s1 + n1 <= s2 \/ s2 + n2 <= s1).
Proof. exact alloc_ok_disjoint. Qed.
Print Assumptions C16_alloc_ok_disjoint.

Theorem C16_failed_interaction_preserves_track :
  forall (E D : Type) (failure_action : nat) (add_dep : E -> E -> E)
         (t : @track E D) (i : @interaction E D),
  i_action i = IFailed ->
  let t' := apply_interaction failure_action add_dep t i in
  t_energy t' = t_energy t /\ t_dir t' = t_dir t /\ t_status t' = t_status t /\
  t_secs t' = t_secs t /\ t_dep t' = t_dep t /\
  t_step_limit t' = Some (0, failure_action).
Proof. intros E D. exact (@failed_interaction_preserves_track E D). Qed.
Print Assumptions C16_failed_interaction_preserves_track.

Theorem C16_starved_interaction_noop :
  forall (E D : Type) (failure_action : nat) (add_dep : E -> E -> E)
         (a : astate) n (t : @track E D) (i : @interaction E D),
  0 < n -> a_size a <= a_cap a -> a_cap a < a_size a + n ->
  let '(a', i') := interact_with_alloc a n i in
  let t' := apply_interaction failure_action add_dep t i' in
  a' = a /\ t_energy t' = t_energy t /\ t_dir t' = t_dir t /\ t_status t' = t_status t /\
  t_secs t' = t_secs t /\ t_dep t' = t_dep t.
Proof. intros E D. exact (@starved_interaction_noop E D). Qed.
Print Assumptions C16_starved_interaction_noop.

(** shared with C02: the track-initialisation machine (coq/C02/TrackInit.v) *)
Theorem C16_capacity_checked_first : forall cfg s,
  (forall ps s', insert_primaries cfg s ps = Err s' ->
     capacity cfg < length ps + c_init (cnt s) /\ s' = set_ph Failed s) /\
  (forall ps, ph s = Ready -> forallb (fun p => p_ev p <? n_events cfg) ps = true ->
     capacity cfg < length ps + c_init (cnt s) -> insert_primaries cfg s ps = Err (set_ph Failed s)) /\
  (forall s', extend_from_secondaries cfg s = Err s' ->
     slots s' = slots s /\ stack s' = stack s /\ parents s' = parents s /\ next_id s' = next_id s /\
     capacity cfg < c_init (cnt s')) /\
  (forall s', extend_from_secondaries cfg s = Ok s' -> c_init (cnt s') <= capacity cfg).
Proof. exact capacity_checked_first. Qed.
Print Assumptions C16_capacity_checked_first.

(** shared with C02: the track-initialisation machine (coq/C02/TrackInit.v) *)
Theorem C16_reset_then_run_ok : forall cfg ops s s1 ops' s2,
  exec cfg (init_state cfg) ops = Some s ->
  reset cfg s = Ok s1 ->
  exec cfg s1 ops' = Some s2 ->
  (stack s1 = [] /\ vac s1 = seq 0 (n_slots cfg) /\ cnt s1 = cnt (init_state cfg) /\ ph s1 = Ready /\
   Forall (fun sl => sst sl = Inactive) (slots s1)) /\
  InvA cfg s2 /\ InvB cfg s2.
Proof. exact reset_then_run_ok. Qed.
Print Assumptions C16_reset_then_run_ok.

(** the capacity rule of the secondary stack (PhysicsData.hh resize,
    PhysicsParams.cc): factor p/q must be positive (RuntimeError otherwise);
    capacity = floor(slots * p / q); it is 0 exactly when slots * p < q *)
Theorem C16_secondary_capacity_floor : forall slots p q,
  0 < q ->
  (secondary_capacity slots p q = None <-> p = 0) /\
  (forall c, secondary_capacity slots p q = Some c ->
     0 < p /\ q * c <= slots * p < q * (c + 1) /\ (c = 0 <-> slots * p < q)).
Proof. exact secondary_capacity_floor. Qed.
Print Assumptions C16_secondary_capacity_floor.

(** the per-step clear (PreStepExecutor thread 0) makes the allocations of
    different steps independent: whatever earlier steps left in the stack
    ([a], any size, even an overflowed one) and in the slots' spans, the
    allocator size, the failure flags and the spans of the slots taking part
    in a step are those of the same step on any other stack of that capacity,
    e.g. a freshly resized one *)
Theorem C16_step_independent : forall rs a a' sps sps',
  rs <> [] -> a_cap a = a_cap a' -> length sps = length rs -> length sps' = length rs ->
  let r := step_stack a sps rs in
  let r' := step_stack a' sps' rs in
  a_size (fst (fst r)) = a_size (fst (fst r')) /\ snd r = snd r' /\
  live_spans rs (snd (fst r)) = live_spans rs (snd (fst r')).
Proof. exact step_independent. Qed.
Print Assumptions C16_step_independent.

(** within a step (for ANY previous stack contents): size <= capacity, capacity
    unchanged, the spans of the participating slots tile [0, size) in slot order
    with the requested lengths and intact items, a failure only for an active
    slot that asked for secondaries *)
Theorem C16_step_spans_ok : forall rs a sps,
  rs <> [] -> length sps = length rs ->
  let r := step_stack a sps rs in
  a_size (fst (fst r)) <= a_cap a /\ a_cap (fst (fst r)) = a_cap a /\
  spans_ok 0 (snd (fst r)) rs (a_size (fst (fst r))) (a_store (fst (fst r))) /\
  Forall2 (fun (f : bool) q => f = true -> r_kind q = SActive /\ 0 < r_count q) (snd r) rs.
Proof. exact step_spans_ok. Qed.
Print Assumptions C16_step_spans_ok.

(** ... hence pairwise disjoint and inside [lo, hi) *)
Theorem C16_spans_ok_disjoint : forall sps rs lo hi st i j oi ci oj cj,
  spans_ok lo sps rs hi st -> i < j ->
  r_kind (nth i rs (mkReq SInactive 0 0)) <> SInactive -> r_kind (nth j rs (mkReq SInactive 0 0)) <> SInactive ->
  nth i sps None = Some (oi, ci) -> nth j sps None = Some (oj, cj) ->
  lo <= oi /\ oi + ci <= oj /\ oj + cj <= hi.
Proof. exact spans_ok_disjoint. Qed.
Print Assumptions C16_spans_ok_disjoint.

(** reset_then_run_ok as a refinement (coq/C02/Refine.v, ResetRefine.v): from
    ANY reachable state (in particular right after a capacity error), after
    [reset] every continuation that follows the Stepper protocol
    ([stepper_protocol]: initialize-tracks .. extend-from-secondaries only after
    the primaries action has run since the reset) yields op by op the same
    result kinds and observably equal states ([state_rel false]: stack,
    vacancies, counters, track counters, statuses, tracks of occupied slots,
    secondaries at extend-from-secondaries) as on the freshly constructed state
    with the same track counters; stale slot data and the stale parents array
    are never observed.  With zeroed counters that state is [init_state]. *)
Theorem C16_reset_refines_fresh : forall cfg ops s s1 ops',
  exec cfg (init_state cfg) ops = Some s -> reset cfg s = Ok s1 ->
  stepper_protocol false ops' = true ->
  state_rel false s1 (fresh_with cfg (next_id s)) /\
  Forall2 res_obs (run cfg s1 ops') (run cfg (fresh_with cfg (next_id s)) ops') /\
  fresh_with cfg (repeat 0 (n_events cfg)) = init_state cfg.
Proof. exact reset_refines_fresh. Qed.
Print Assumptions C16_reset_refines_fresh.
