(** * C08 property theorems — statements only; proofs live in
    C08/PropagatorProofs.v, C08/DriverProofs.v, C08/HelixProofs.v.
    Each theorem is closed by [exact] and followed by [Print Assumptions]. *)
From Coq Require Import Reals ZArith List.
From Coquelicot Require Import Coquelicot.
From Celer Require Import Base.Num Base.NumR Base.Vec3
  C08.PropagatorModel C08.PropagatorProofs C08.DriverModel C08.DriverProofs C08.Helix C08.HelixProofs.
Local Open Scope R_scope.

(** [prop_contracts] (C08/PropagatorProofs.v) = valid options, step > 0, the
    driver's contract (0 < substep.step <= remaining, 0 < |chord| <= substep.step,
    non-zero momentum) and the geometry's contract (0 <= distance <= limit,
    positive off a boundary; move_internal clears / move_to_boundary sets the
    on-boundary state, set_dir and find_next_step keep it).
    [post] (ibid.) = 0 < distance <= step; looping <-> (substep budget spent and
    distance < step); returned flag = geometry's on-boundary state; the direction
    written is a unit vector; and by outcome: looping / boundary (move_to_boundary
    issued, ODE position = geometry position) / full step (distance = step,
    geometry moved internally to the ODE position) / bumped (started on a
    boundary, no progress, distance = min(bump, step)). *)
Theorem C08_propagate_post :
  forall D G advance g_pos g_on_boundary g_set_dir g_find_next g_move_internal g_move_to_boundary o step,
  prop_contracts D G advance g_on_boundary g_set_dir g_find_next g_move_internal g_move_to_boundary o step ->
  forall fuel d g st r, 0 < norm (o_mom st) ->
    propagate D G advance g_pos g_on_boundary g_set_dir g_find_next g_move_internal
      g_move_to_boundary o step fuel d g st = Some r ->
    post D G g_pos g_on_boundary g_set_dir g_move_internal g_move_to_boundary o step g r.
Proof. exact propagate_post. Qed.
Print Assumptions C08_propagate_post.

(** the loop runs at most max_substeps*(K+1) + K + H + 1 times where
    step <= K*delta_intersection and step <= minimum_substep * 2^H *)
Theorem C08_propagate_terminates :
  forall D G advance g_pos g_on_boundary g_set_dir g_find_next g_move_internal g_move_to_boundary o step,
  prop_contracts D G advance g_on_boundary g_set_dir g_find_next g_move_internal g_move_to_boundary o step ->
  forall (K H fuel : nat) d g st,
    step <= INR K * dint o -> step <= minsub o * 2 ^ H ->
    (max_substeps o * (K + 1) + K + H < fuel)%nat ->
    propagate D G advance g_pos g_on_boundary g_set_dir g_find_next g_move_internal
      g_move_to_boundary o step fuel d g st <> None.
Proof. exact propagate_terminates. Qed.
Print Assumptions C08_propagate_terminates.

(** the propagator writes only a direction: the unit vector of the ODE momentum *)
Theorem C08_momentum_magnitude_invariant :
  forall D G advance g_pos g_on_boundary g_set_dir g_find_next g_move_internal g_move_to_boundary
         o step fuel d g st (r : presult (T:=R) D G),
  propagate D G advance g_pos g_on_boundary g_set_dir g_find_next g_move_internal
    g_move_to_boundary o step fuel d g st = Some r ->
  r_dir r = make_unit_vector (o_mom (r_state r)) /\
  exists g', r_g r = g_set_dir g' (r_dir r)
             \/ r_g r = g_move_internal (g_set_dir g' (r_dir r)) (o_pos (r_state r)).
Proof. exact propagate_dir. Qed.
Print Assumptions C08_momentum_magnitude_invariant.

(** ... and the analytic stepper conserves |p| exactly *)
Theorem C08_helix_momentum_invariant : forall coeffi bz step beg,
  0 < norm (o_mom beg) ->
  norm (o_mom (s_end (zhelix_step coeffi bz step beg))) = norm (o_mom beg) /\
  norm (o_mom (s_mid (zhelix_step coeffi bz step beg))) = norm (o_mom beg).
Proof. exact zhelix_momentum_invariant. Qed.
Print Assumptions C08_helix_momentum_invariant.

(** the closed form [ex_*] solves x' = u, u' = kappa (u_y, -u_x, 0) with the
    given initial values *)
Theorem C08_helix_closed_form_solves_ode : forall kappa p0 u0, kappa <> 0 -> forall s,
  is_derive (ex_x kappa p0 u0) s (ex_ux kappa u0 s) /\ is_derive (ex_y kappa p0 u0) s (ex_uy kappa u0 s)
  /\ is_derive (ex_z p0 u0) s (vz u0)
  /\ is_derive (ex_ux kappa u0) s (kappa * ex_uy kappa u0 s)
  /\ is_derive (ex_uy kappa u0) s (- kappa * ex_ux kappa u0 s)
  /\ ex_x kappa p0 u0 0 = vx p0 /\ ex_y kappa p0 u0 0 = vy p0 /\ ex_z p0 u0 0 = vz p0
  /\ ex_ux kappa u0 0 = vx u0 /\ ex_uy kappa u0 0 = vy u0.
Proof. exact exact_solves_ode. Qed.
Print Assumptions C08_helix_closed_form_solves_ode.

(** with the gyration centre on the z axis and positive helicity the stepper's
    end state is that solution, for every step length *)
Theorem C08_helix_endpoint_exact : forall kappa step radius beg rhs,
  kappa <> 0 -> radius = - / kappa ->
  vx (o_pos beg) = - vy (o_pos rhs) / kappa -> vy (o_pos beg) = vx (o_pos rhs) / kappa ->
  let e := zhelix_move step radius false beg rhs in
  vx (o_pos e) = ex_x kappa (o_pos beg) (o_pos rhs) step /\
  vy (o_pos e) = ex_y kappa (o_pos beg) (o_pos rhs) step /\
  vz (o_pos e) = ex_z (o_pos beg) (o_pos rhs) step /\
  vx (o_mom e) = ex_ux kappa (o_pos rhs) step * norm (o_mom beg) /\
  vy (o_mom e) = ex_uy kappa (o_pos rhs) step * norm (o_mom beg) /\
  vz (o_mom e) = vz (o_pos rhs) * norm (o_mom beg).
Proof. exact zhelix_move_exact. Qed.
Print Assumptions C08_helix_endpoint_exact.

(** independence of subdivision: helix(s1 + s2) = helix s2 . helix s1 *)
Theorem C08_helix_compose : forall s1 s2 radius neg beg rhs rhs',
  radius <> 0 -> norm (o_pos rhs) = 1 ->
  o_pos rhs' = V3 (vx (rotz (del_phi s1 radius neg) (o_pos rhs)))
                  (vy (rotz (del_phi s1 radius neg) (o_pos rhs))) (vz (o_pos rhs)) ->
  zhelix_move s2 radius neg (zhelix_move s1 radius neg beg rhs) rhs'
  = zhelix_move (s1 + s2) radius neg beg rhs.
Proof. exact zhelix_move_compose. Qed.
Print Assumptions C08_helix_compose.

(** without the on-axis hypothesis the stepper is wrong: from the origin it
    never moves in x,y (finding F-C08-1a) *)
Theorem C08_helix_endpoint_offaxis_refuted :
  exists (kappa step radius : R) (beg rhs : ode R),
    kappa <> 0 /\ radius = - / kappa /\ norm (o_pos rhs) = 1 /\ 0 < step /\
    vx (o_pos (zhelix_move step radius false beg rhs)) = vx (o_pos beg) /\
    vy (o_pos (zhelix_move step radius false beg rhs)) = vy (o_pos beg) /\
    ex_y kappa (o_pos beg) (o_pos rhs) step <> vy (o_pos beg).
Proof. exact zhelix_offaxis_refuted. Qed.
Print Assumptions C08_helix_endpoint_offaxis_refuted.

(** with negative helicity z runs backwards (finding F-C08-1b) *)
Theorem C08_helix_negative_helicity_refuted :
  exists (step radius : R) (beg rhs : ode R),
    0 < radius /\ 0 < step /\ 0 < vz (o_pos rhs) /\
    vz (o_pos (zhelix_move step radius true beg rhs)) < vz (o_pos beg).
Proof. exact zhelix_negative_helicity_z_refuted. Qed.
Print Assumptions C08_helix_negative_helicity_refuted.

(** find_next_chord: the trial only shrinks, by at most 1/2 per trial; when the
    search succeeds the returned state passed the sagitta test at the returned
    length; when the max_nsteps budget runs out the returned length is SHORTER
    than the length the returned state was integrated over (finding F-C08-4).
    Partial: the bound holds for chords accepted by a successful search only. *)
Theorem C08_chord_sagitta_bounded_partial :
  forall (S : Type) (stepper : S -> R -> ode R -> S * sres R) (o : dopts R),
  0 < delta_chord o -> forall s step st, 0 < step ->
  let cs := snd (find_next_chord S stepper o s step st) in
  0 < fc_step cs <= step
  /\ step * (/ 2) ^ (Datatypes.S (pred (max_nsteps o))) <= fc_step cs
  /\ fc_state cs = s_end (fc_last cs)
  /\ (fc_ok cs = true ->
        fc_tried cs = fc_step cs /\
        distance_chord (o_pos st) (o_pos (s_mid (fc_last cs))) (o_pos (s_end (fc_last cs)))
          <= delta_chord o + dchord_tol)
  /\ (fc_ok cs = false -> fc_step cs < fc_tried cs)
  /\ exists s0, fc_last cs = snd (stepper s0 (fc_tried cs) st).
Proof. intros S stepper o Hd s step st Hs. exact (fnc_spec S stepper o Hd (pred (max_nsteps o)) s step st Hs). Qed.
Print Assumptions C08_chord_sagitta_bounded_partial.

(** FieldDriver::advance returns 0 < step <= requested for every stepper, and
    keeps its cached chord estimate positive *)
Theorem C08_driver_step_in_range :
  forall (S : Type) (stepper : S -> R -> ode R -> S * sres R) (o : dopts R),
  0 < minimum_step o -> 0 < delta_chord o -> 0 < max_stepping_decrease o < 1 ->
  forall (mc : option R) s step st, 0 < step -> (forall c, mc = Some c -> 0 < c) ->
  let res := advance S stepper o mc s step st in
  0 < d_step (snd res) <= step /\ (forall c, fst (fst res) = Some c -> 0 < c).
Proof. exact advance_range. Qed.
Print Assumptions C08_driver_step_in_range.
