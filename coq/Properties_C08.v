From Coq Require Import Reals Lra.
From Celer Require Import Base.Num Base.NumR C08.PropagatorModel.
Theorem C08_placeholder : (1 + 1 = 2)%R.
Proof. lra. Qed.
Print Assumptions C08_placeholder.
