(** * C08 property theorems — statements only; proofs live in
    C08/PropagatorProofs.v, C08/DriverProofs.v, C08/HelixProofs.v.
    Each theorem is closed by [exact] and followed by [Print Assumptions]. *)
From Coq Require Import Reals ZArith List.
From Coquelicot Require Import Coquelicot.
From Celer Require Import Base.Num Base.NumR Base.Vec3
  C08.PropagatorModel C08.PropagatorProofs C08.DriverModel C08.DriverProofs C08.Helix C08.HelixProofs
  C08.HelixGeneralProofs C08.ControllerProofs C08.HistoryProofs C08.ApplierModel C08.ApplierProofs C08.RZMap C08.RZMapProofs C08.StepperBase Generated.C08_steppers C08.Steppers C08.StepperProofs.
Import ListNotations.
Local Open Scope R_scope.

(** [prop_contracts] (C08/PropagatorProofs.v) = valid options, step > 0, the
    driver's contract (0 < substep.step <= remaining, 0 < |chord| <= substep.step,
    non-zero momentum) and the geometry's contract (0 <= distance <= limit,
    positive off a boundary; move_internal clears / move_to_boundary sets the
    on-boundary state, set_dir and find_next_step keep it).
    [post] (ibid.) = 0 < distance <= step; looping <-> (substep budget spent and
    distance < step); returned flag = geometry's on-boundary state; the direction
    written is a unit vector; and by outcome: looping / boundary (move_to_boundary
    issued, ODE position = geometry position) / full step (distance = step,
    geometry moved internally to the ODE position) / bumped (started on a
    boundary, no progress, distance = min(bump, step)). *)
Theorem C08_propagate_post :
  forall D G advance g_pos g_on_boundary g_set_dir g_find_next g_move_internal g_move_to_boundary o step,
  prop_contracts D G advance g_on_boundary g_set_dir g_find_next g_move_internal g_move_to_boundary o step ->
  forall fuel d g st r, 0 < norm (o_mom st) ->
    propagate D G advance g_pos g_on_boundary g_set_dir g_find_next g_move_internal
      g_move_to_boundary o step fuel d g st = Some r ->
    post D G g_pos g_on_boundary g_set_dir g_move_internal g_move_to_boundary o step g r.
Proof. exact propagate_post. Qed.
Print Assumptions C08_propagate_post.

(** the loop runs at most max_substeps*(K+1) + K + H + 1 times where
    step <= K*delta_intersection and step <= minimum_substep * 2^H *)
Theorem C08_propagate_terminates :
  forall D G advance g_pos g_on_boundary g_set_dir g_find_next g_move_internal g_move_to_boundary o step,
  prop_contracts D G advance g_on_boundary g_set_dir g_find_next g_move_internal g_move_to_boundary o step ->
  forall (K H fuel : nat) d g st,
    step <= INR K * dint o -> step <= minsub o * 2 ^ H ->
    (max_substeps o * (K + 1) + K + H < fuel)%nat ->
    propagate D G advance g_pos g_on_boundary g_set_dir g_find_next g_move_internal
      g_move_to_boundary o step fuel d g st <> None.
Proof. exact propagate_terminates. Qed.
Print Assumptions C08_propagate_terminates.

(** the propagator writes only a direction: the unit vector of the ODE momentum *)
Theorem C08_momentum_magnitude_invariant :
  forall D G advance g_pos g_on_boundary g_set_dir g_find_next g_move_internal g_move_to_boundary
         o step fuel d g st (r : presult (T:=R) D G),
  propagate D G advance g_pos g_on_boundary g_set_dir g_find_next g_move_internal
    g_move_to_boundary o step fuel d g st = Some r ->
  r_dir r = make_unit_vector (o_mom (r_state r)) /\
  exists g', r_g r = g_set_dir g' (r_dir r)
             \/ r_g r = g_move_internal (g_set_dir g' (r_dir r)) (o_pos (r_state r)).
Proof. exact propagate_dir. Qed.
Print Assumptions C08_momentum_magnitude_invariant.

(** ... and the analytic stepper conserves |p| exactly *)
Theorem C08_helix_momentum_invariant : forall coeffi bz step beg,
  0 < norm (o_mom beg) ->
  norm (o_mom (s_end (zhelix_step coeffi bz step beg))) = norm (o_mom beg) /\
  norm (o_mom (s_mid (zhelix_step coeffi bz step beg))) = norm (o_mom beg).
Proof. exact zhelix_momentum_invariant. Qed.
Print Assumptions C08_helix_momentum_invariant.

(** the closed form [ex_*] solves x' = u, u' = kappa (u_y, -u_x, 0) with the
    given initial values *)
Theorem C08_helix_closed_form_solves_ode : forall kappa p0 u0, kappa <> 0 -> forall s,
  is_derive (ex_x kappa p0 u0) s (ex_ux kappa u0 s) /\ is_derive (ex_y kappa p0 u0) s (ex_uy kappa u0 s)
  /\ is_derive (ex_z p0 u0) s (vz u0)
  /\ is_derive (ex_ux kappa u0) s (kappa * ex_uy kappa u0 s)
  /\ is_derive (ex_uy kappa u0) s (- kappa * ex_ux kappa u0 s)
  /\ ex_x kappa p0 u0 0 = vx p0 /\ ex_y kappa p0 u0 0 = vy p0 /\ ex_z p0 u0 0 = vz p0
  /\ ex_ux kappa u0 0 = vx u0 /\ ex_uy kappa u0 0 = vy u0.
Proof. exact exact_solves_ode. Qed.
Print Assumptions C08_helix_closed_form_solves_ode.

(** with the gyration centre on the z axis and positive helicity the stepper's
    end state is that solution, for every step length *)
Theorem C08_helix_endpoint_exact : forall kappa step radius beg rhs,
  kappa <> 0 -> radius = - / kappa ->
  vx (o_pos beg) = - vy (o_pos rhs) / kappa -> vy (o_pos beg) = vx (o_pos rhs) / kappa ->
  let e := zhelix_move step radius false beg rhs in
  vx (o_pos e) = ex_x kappa (o_pos beg) (o_pos rhs) step /\
  vy (o_pos e) = ex_y kappa (o_pos beg) (o_pos rhs) step /\
  vz (o_pos e) = ex_z (o_pos beg) (o_pos rhs) step /\
  vx (o_mom e) = ex_ux kappa (o_pos rhs) step * norm (o_mom beg) /\
  vy (o_mom e) = ex_uy kappa (o_pos rhs) step * norm (o_mom beg) /\
  vz (o_mom e) = vz (o_pos rhs) * norm (o_mom beg).
Proof. exact zhelix_move_exact. Qed.
Print Assumptions C08_helix_endpoint_exact.

(** independence of subdivision: helix(s1 + s2) = helix s2 . helix s1 *)
Theorem C08_helix_compose : forall s1 s2 radius neg beg rhs rhs',
  radius <> 0 -> norm (o_pos rhs) = 1 ->
  o_pos rhs' = V3 (vx (rotz (del_phi s1 radius neg) (o_pos rhs)))
                  (vy (rotz (del_phi s1 radius neg) (o_pos rhs))) (vz (o_pos rhs)) ->
  zhelix_move s2 radius neg (zhelix_move s1 radius neg beg rhs) rhs'
  = zhelix_move (s1 + s2) radius neg beg rhs.
Proof. exact zhelix_move_compose. Qed.
Print Assumptions C08_helix_compose.

(** without the on-axis hypothesis the stepper is wrong: from the origin it
    never moves in x,y (finding F-C08-1a) *)
Theorem C08_helix_endpoint_offaxis_refuted :
  exists (kappa step radius : R) (beg rhs : ode R),
    kappa <> 0 /\ radius = - / kappa /\ norm (o_pos rhs) = 1 /\ 0 < step /\
    vx (o_pos (zhelix_move step radius false beg rhs)) = vx (o_pos beg) /\
    vy (o_pos (zhelix_move step radius false beg rhs)) = vy (o_pos beg) /\
    ex_y kappa (o_pos beg) (o_pos rhs) step <> vy (o_pos beg).
Proof. exact zhelix_offaxis_refuted. Qed.
Print Assumptions C08_helix_endpoint_offaxis_refuted.

(** with negative helicity z runs backwards (finding F-C08-1b) *)
Theorem C08_helix_negative_helicity_refuted :
  exists (step radius : R) (beg rhs : ode R),
    0 < radius /\ 0 < step /\ 0 < vz (o_pos rhs) /\
    vz (o_pos (zhelix_move step radius true beg rhs)) < vz (o_pos beg).
Proof. exact zhelix_negative_helicity_z_refuted. Qed.
Print Assumptions C08_helix_negative_helicity_refuted.

(** find_next_chord: the trial only shrinks, by at most 1/2 per trial; when the
    search succeeds the returned state passed the sagitta test at the returned
    length; when the max_nsteps budget runs out the returned length is SHORTER
    than the length the returned state was integrated over (finding F-C08-4).
    Partial: the bound holds for chords accepted by a successful search only. *)
Theorem C08_chord_sagitta_bounded_partial :
  forall (S : Type) (stepper : S -> R -> ode R -> S * sres R) (o : dopts R),
  0 < delta_chord o -> forall s step st, 0 < step ->
  let cs := snd (find_next_chord S stepper o s step st) in
  0 < fc_step cs <= step
  /\ step * (/ 2) ^ (Datatypes.S (pred (max_nsteps o))) <= fc_step cs
  /\ fc_state cs = s_end (fc_last cs)
  /\ (fc_ok cs = true ->
        fc_tried cs = fc_step cs /\
        distance_chord (o_pos st) (o_pos (s_mid (fc_last cs))) (o_pos (s_end (fc_last cs)))
          <= delta_chord o + dchord_tol)
  /\ (fc_ok cs = false -> fc_step cs < fc_tried cs)
  /\ exists s0, fc_last cs = snd (stepper s0 (fc_tried cs) st).
Proof. intros S stepper o Hd s step st Hs. exact (fnc_spec S stepper o Hd (pred (max_nsteps o)) s step st Hs). Qed.
Print Assumptions C08_chord_sagitta_bounded_partial.

(** FieldDriver::advance returns 0 < step <= requested for every stepper, and
    keeps its cached chord estimate positive *)
Theorem C08_driver_step_in_range :
  forall (S : Type) (stepper : S -> R -> ode R -> S * sres R) (o : dopts R),
  0 < minimum_step o -> 0 < delta_chord o -> 0 < max_stepping_decrease o < 1 ->
  forall (mc : option R) s step st, 0 < step -> (forall c, mc = Some c -> 0 < c) ->
  let res := advance S stepper o mc s step st in
  0 < d_step (snd res) <= step /\ (forall c, fst (fst res) = Some c -> 0 < c).
Proof. exact advance_range. Qed.
Print Assumptions C08_driver_step_in_range.

(** ** the numerical integrators (models regenerated from RungeKuttaStepper.hh /
    DormandPrinceStepper.hh by translators/steppers.py; MagFieldEquation in
    C08/Helix.v + C08/Steppers.v) *)

(** MagFieldEquation: dp/ds is orthogonal to p (so |p| is conserved to first
    order) and to B, for every field functor, coefficient and state; dx/ds is
    the unit direction *)
Theorem C08_lorentz_force_orthogonal :
  forall (coeffi : R) (field : vec3 R -> vec3 R) (y : ode R),
  dot (o_mom (mfe_rhs coeffi field y)) (o_mom y) = 0
  /\ dot (o_mom (mfe_rhs coeffi field y)) (field (o_pos y)) = 0
  /\ (0 < norm (o_mom y) -> norm (o_pos (mfe_rhs coeffi field y)) = 1).
Proof. exact mfe_force_orthogonal. Qed.
Print Assumptions C08_lorentz_force_orthogonal.

(** the Lorentz coefficient has the sign of the charge and is odd in it *)
Theorem C08_lorentz_coefficient_charge_sign :
  forall e_native mevc_native q : R, 0 < e_native -> 0 < mevc_native ->
  (0 < q -> 0 < mfe_coeffi e_native mevc_native q) /\
  (q < 0 -> mfe_coeffi e_native mevc_native q < 0) /\
  (q = 0 -> mfe_coeffi e_native mevc_native q = 0) /\
  mfe_coeffi e_native mevc_native (- q) = - mfe_coeffi e_native mevc_native q.
Proof. exact mfe_coeffi_sign. Qed.
Print Assumptions C08_lorentz_coefficient_charge_sign.

(** RungeKuttaStepper::do_step is the classical 4th-order formula *)
Theorem C08_rk4_classical_formula :
  forall (rhs : ode R -> ode R) (h : R) (y k1 : ode R),
  let k2 := rhs (oadd y (oscale (h / 2) k1)) in
  let k3 := rhs (oadd y (oscale (h / 2) k2)) in
  let k4 := rhs (oadd y (oscale h k3)) in
  rk_do_step rhs h y k1
  = oadd y (oscale (h / 6) (oadd (oadd k1 (oscale 2 k2)) (oadd (oscale 2 k3) k4))).
Proof. exact rk_do_step_classical. Qed.
Print Assumptions C08_rk4_classical_formula.

(** step doubling: mid = one half step, err = (two half steps) - (one full
    step), end = two half steps + err/15 *)
Theorem C08_rk4_step_doubling_error :
  forall (rhs : ode R -> ode R) (h : R) (y : ode R),
  let y_half := rk_do_step rhs (h / 2) y (rhs y) in
  let y2 := rk_do_step rhs (h / 2) y_half (rhs y_half) in
  let y1 := rk_do_step rhs h y (rhs y) in
  s_mid (rk_step rhs h y) = y_half /\
  s_err (rk_step rhs h y) = osub y2 y1 /\
  s_end (rk_step rhs h y) = oadd y2 (oscale (/ 15) (osub y2 y1)).
Proof. exact rk_step_doubling. Qed.
Print Assumptions C08_rk4_step_doubling_error.

(** a right-hand side that is constant on an invariant [Q] of the straight line:
    both steppers return the exact end and mid states and a zero error estimate *)
Theorem C08_steppers_exact_for_constant_rhs :
  forall (rhs : ode R -> ode R) (Q : ode R -> Prop) (k : ode R),
  (forall y, Q y -> rhs y = k) -> (forall a y, Q y -> Q (oadd y (oscale a k))) ->
  forall h y, Q y ->
  (s_mid (rk_step rhs h y) = oadd y (oscale (h / 2) k) /\
   s_end (rk_step rhs h y) = oadd y (oscale h k) /\ s_err (rk_step rhs h y) = ozero) /\
  (s_mid (dp_step rhs h y) = oadd y (oscale (h / 2) k) /\
   s_end (dp_step rhs h y) = oadd y (oscale h k) /\ s_err (dp_step rhs h y) = ozero).
Proof.
  intros rhs Q k Hc Hl h y Hy.
  exact (conj (rk_step_const rhs Q k Hc Hl h y Hy) (dp_step_const rhs Q k Hc Hl h y Hy)).
Qed.
Print Assumptions C08_steppers_exact_for_constant_rhs.

(** zero curvature (neutral particle or zero field): exact straight line, zero error *)
Theorem C08_steppers_straight_line_zero_curvature :
  forall (coeffi : R) (field : vec3 R -> vec3 R) (h : R) (y : ode R),
  (coeffi = 0 \/ forall p, field p = V3 0 0 0) ->
  let k := Ode (vscale (1 / norm (o_mom y)) (o_mom y)) (V3 0 0 0) in
  (s_mid (rk4_mag coeffi field h y) = oadd y (oscale (h / 2) k) /\
   s_end (rk4_mag coeffi field h y) = oadd y (oscale h k) /\
   s_err (rk4_mag coeffi field h y) = ozero) /\
  (s_mid (dp_mag coeffi field h y) = oadd y (oscale (h / 2) k) /\
   s_end (dp_mag coeffi field h y) = oadd y (oscale h k) /\
   s_err (dp_mag coeffi field h y) = ozero).
Proof. exact mag_steppers_straight_line. Qed.
Print Assumptions C08_steppers_straight_line_zero_curvature.

(** DormandPrinceStepper computes the explicit Runge-Kutta scheme of the tableau
    (dpA, dpb, dpd, dpw) built from its literal constants *)
Theorem C08_dormand_prince_is_tableau :
  forall (rhs : ode R -> ode R) (h : R) (y : ode R),
  let ks := erk_stages rhs h y dpA [] in
  length ks = 7%nat /\
  s_end (dp_step rhs h y) = lincomb h dpb ks y /\
  s_err (dp_step rhs h y) = lincomb h dpd ks ozero /\
  s_mid (dp_step rhs h y) = lincomb h dpw ks y.
Proof. exact dp_step_is_tableau. Qed.
Print Assumptions C08_dormand_prince_is_tableau.

(** tableau consistency: every row sums to its node c = (0,1/5,3/10,4/5,8/9,1,1);
    the error weights sum to zero *)
Theorem C08_dormand_prince_tableau_consistent :
  nodes dpA = [0; 1 / 5; 3 / 10; 4 / 5; 8 / 9; 1; 1] /\ lsum dpd = 0.
Proof. exact (conj dp_row_sums dp_error_weights). Qed.
Print Assumptions C08_dormand_prince_tableau_consistent.

(** the end state satisfies all 17 rooted-tree order conditions up to order 5,
    the embedded solution (end - err) the 8 conditions up to order 4, the mid
    point the 4 conditions up to order 3 at theta = 1/2 *)
Theorem C08_dormand_prince_order_conditions :
  (order1 dpA dpb 1 /\ order2 dpA dpb 1 /\ order3 dpA dpb 1 /\ order4 dpA dpb 1 /\ order5 dpA dpb 1) /\
  (order1 dpA dpbhat 1 /\ order2 dpA dpbhat 1 /\ order3 dpA dpbhat 1 /\ order4 dpA dpbhat 1) /\
  (order1 dpA dpw (1 / 2) /\ order2 dpA dpw (1 / 2) /\ order3 dpA dpw (1 / 2)).
Proof. exact (conj dp_order5 (conj dp_embedded_order4 dp_midpoint_order3)). Qed.
Print Assumptions C08_dormand_prince_order_conditions.

(** ** ZHelixStepper::operator() for a GENERAL start state and both helicities,
    as the code computes radius and helicity from the right-hand side: the end
    momentum is always the exact one; the x,y end position is the exact one plus
    (Rz(-kappa s) - I) applied to the gyration centre; z is exact for kappa < 0
    and 2 s u_z behind for kappa > 0 (kappa = coeffi*Bz/|p|).  [vy mom <> 0] is
    the condition under which the code's helicity expression is not 0/0. *)
Theorem C08_helix_general :
  forall (c bz : R) (beg : ode R),
  0 < norm (o_mom beg) -> 0 < vx (o_mom beg) * vx (o_mom beg) + vy (o_mom beg) * vy (o_mom beg) ->
  c * bz <> 0 -> forall s, vy (o_mom beg) <> 0 ->
  let kappa := c * bz / norm (o_mom beg) in
  let u := o_pos (lorentz_rhs c (V3 0 0 bz) beg) in
  let e := s_end (zhelix_step c bz s beg) in
  let th := - (kappa * s) in
  vx (o_mom e) = ex_ux kappa u s * norm (o_mom beg) /\
  vy (o_mom e) = ex_uy kappa u s * norm (o_mom beg) /\
  vz (o_mom e) = vz u * norm (o_mom beg) /\
  vx (o_pos e) = ex_x kappa (o_pos beg) u s
                 + (vx (rotz th (gyro_centre c bz beg)) - vx (gyro_centre c bz beg)) /\
  vy (o_pos e) = ex_y kappa (o_pos beg) u s
                 + (vy (rotz th (gyro_centre c bz beg)) - vy (gyro_centre c bz beg)) /\
  vz (o_pos e) = ex_z (o_pos beg) u s - (if Rltb 0 kappa then 2 * s * vz u else 0).
Proof. exact zhelix_step_general. Qed.
Print Assumptions C08_helix_general.

(** hence the end position is exact iff (the rotation is trivial or the gyration
    centre is on the z axis) and (kappa < 0 or nothing moves along z) *)
Theorem C08_helix_endpoint_exact_iff :
  forall (c bz : R) (beg : ode R),
  0 < norm (o_mom beg) -> 0 < vx (o_mom beg) * vx (o_mom beg) + vy (o_mom beg) * vy (o_mom beg) ->
  c * bz <> 0 -> forall s, vy (o_mom beg) <> 0 ->
  let kappa := c * bz / norm (o_mom beg) in
  let u := o_pos (lorentz_rhs c (V3 0 0 bz) beg) in
  let e := s_end (zhelix_step c bz s beg) in
  (vx (o_pos e) = ex_x kappa (o_pos beg) u s /\ vy (o_pos e) = ex_y kappa (o_pos beg) u s
   /\ vz (o_pos e) = ex_z (o_pos beg) u s)
  <-> ((cos (kappa * s) = 1 \/ (vx (gyro_centre c bz beg) = 0 /\ vy (gyro_centre c bz beg) = 0))
       /\ (0 < kappa -> s * vz u = 0)).
Proof. exact zhelix_step_exact_iff. Qed.
Print Assumptions C08_helix_endpoint_exact_iff.

(** the defect of finding F-C08-1, exactly: squared x,y distance from the helix
    = 2 (1 - cos(kappa s)) |centre|^2; z defect = -2 s u_z when kappa > 0 *)
Theorem C08_helix_defect_exact :
  forall (c bz : R) (beg : ode R) (s : R),
  0 < norm (o_mom beg) -> 0 < vx (o_mom beg) * vx (o_mom beg) + vy (o_mom beg) * vy (o_mom beg) ->
  c * bz <> 0 -> vy (o_mom beg) <> 0 ->
  let kappa := c * bz / norm (o_mom beg) in
  let u := o_pos (lorentz_rhs c (V3 0 0 bz) beg) in
  let e := s_end (zhelix_step c bz s beg) in
  let C := gyro_centre c bz beg in
  (vx (o_pos e) - ex_x kappa (o_pos beg) u s) ^ 2 + (vy (o_pos e) - ex_y kappa (o_pos beg) u s) ^ 2
    = 2 * (1 - cos (kappa * s)) * (vx C ^ 2 + vy C ^ 2)
  /\ (0 < kappa -> vz (o_pos e) - ex_z (o_pos beg) u s = - (2 * s * vz u))
  /\ (kappa < 0 -> vz (o_pos e) = ex_z (o_pos beg) u s).
Proof. exact zhelix_defect_exact. Qed.
Print Assumptions C08_helix_defect_exact.

(** ** the step-size controller stays within the factors coded in the options
    (safety in (0,1), pgrow < 0, pshrink < 0, max_stepping_decrease in (0,1),
    max_stepping_increase > 1: FieldDriverOptions validation).
    new_step_scale: a rejected trial (err_sq > 1) gives 0 < scale < safety, an
    accepted one (0 <= err_sq <= 1) gives scale >= safety.
    one_good_step: step * max_stepping_decrease^max_nsteps <= end.step <= step;
    proposed <= max_stepping_increase * end.step; on success the returned state
    was integrated over exactly end.step with err_sq <= 1 and
    proposed >= safety * end.step; on budget exhaustion proposed <= safety * end.step *)
Theorem C08_step_controller_bounds :
  forall (S : Type) (stepper : S -> R -> ode R -> S * sres R) (o : dopts R),
  0 < safety o < 1 -> pgrow o < 0 -> pshrink o < 0 -> 0 < max_stepping_decrease o < 1 ->
  1 < max_stepping_increase o ->
  (forall e, 1 < e -> 0 < new_step_scale o e < safety o) /\
  (forall e, 0 <= e <= 1 -> safety o <= new_step_scale o e) /\
  forall s step st, 0 < step ->
    let ig := snd (one_good_step S stepper o s step st) in
    step * max_stepping_decrease o ^ (Datatypes.S (pred (max_nsteps o))) <= ig_step ig <= step
    /\ ig_proposed ig <= ig_step ig * max_stepping_increase o
    /\ (ig_ok ig = true -> exists s0 r, r = snd (stepper s0 (ig_step ig) st) /\ ig_state ig = s_end r
          /\ err_sq_of o r (ig_step ig) (o_mom st) <= 1
          /\ (0 <= err_sq_of o r (ig_step ig) (o_mom st) -> ig_step ig * safety o <= ig_proposed ig))
    /\ (ig_ok ig = false -> ig_proposed ig <= ig_step ig * safety o).
Proof.
  intros S stepper o H1 H2 H3 H4 H5.
  exact (conj (nss_reject o H1 H3) (conj (nss_accept o H1 H2)
          (fun s step st Hs => ogs_bounds S stepper o H1 H2 H3 H4 H5 (pred (max_nsteps o)) s step st Hs))).
Qed.
Print Assumptions C08_step_controller_bounds.

(** the UNCONDITIONAL sagitta bound is false (finding F-C08-4): for every trial
    budget max_nsteps >= 1 and otherwise default options there is a stepper for
    which find_next_chord returns a chord whose sagitta exceeds
    delta_chord + dchord_tol *)
Theorem C08_chord_sagitta_bounded_refuted : forall n : nat, (1 <= n)%nat ->
  exists (o : dopts R) (step : R) (st : ode R),
    max_nsteps o = n /\ 0 < minimum_step o /\ 0 < delta_chord o /\ 0 < epsilon_step o
    /\ 0 < max_stepping_decrease o < 1 /\ 0 < step /\
    let cs := snd (find_next_chord unit bad_stepper o tt step st) in
    0 < fc_step cs <= step /\ fc_state cs = s_end (fc_last cs) /\
    delta_chord o + dchord_tol
      < distance_chord (o_pos st) (o_pos (s_mid (fc_last cs))) (o_pos (fc_state cs)).
Proof. exact chord_sagitta_bounded_refuted. Qed.
Print Assumptions C08_chord_sagitta_bounded_refuted.

(** ** the propagator as a state machine across calls: for every history of
    propagate(step) calls on ONE FieldPropagator object (driver state, geometry
    state and the private ODE state threaded from call to call), after EVERY call
    the internal position equals the geometry's position and the geometry's
    direction is the unit vector of the internal momentum (which stays non-zero).
    Hypotheses: the per-call contracts and the geometry's get/set contract. *)
Theorem C08_propagator_state_synced :
  forall (D G : Type) (advance : D -> R -> ode R -> D * dres R) (g_pos g_dir : G -> vec3 R)
         (g_on_boundary : G -> bool) (g_set_dir : G -> vec3 R -> G) (g_find_next : G -> R -> G * lin R)
         (g_move_internal : G -> vec3 R -> G) (g_move_to_boundary : G -> G) (o : popts R),
  (forall g p, g_pos (g_move_internal g p) = p) ->
  (forall g d, g_pos (g_set_dir g d) = g_pos g) ->
  (forall g d, g_dir (g_set_dir g d) = d) ->
  (forall g p, g_dir (g_move_internal g p) = g_dir g) ->
  forall steps fuel d g st rs,
  List.Forall (fun step => prop_contracts D G advance g_on_boundary g_set_dir g_find_next g_move_internal
                        g_move_to_boundary o step) steps ->
  0 < norm (o_mom st) ->
  run_history D G advance g_pos g_on_boundary g_set_dir g_find_next g_move_internal g_move_to_boundary
    o fuel d g st steps = Some rs ->
  List.Forall (fun r => synced G g_pos g_dir (r_g r) (r_state r) /\ 0 < norm (o_mom (r_state r))) rs.
Proof. exact propagator_state_synced. Qed.
Print Assumptions C08_propagator_state_synced.

(** ** PropagationApplier: how the propagation result is applied to the track.
    [propagator_post step p onb] = what C08_propagate_post gives about the
    propagator's result: 0 < distance <= step, looping -> not boundary, boundary
    flag = the geometry's on-boundary state.  A stopped track is left alone. *)
Theorem C08_applier_stopped_untouched :
  forall (can_loop stable : bool) (energy : R) (thr : lthreshold R) (p : propagation R) (s : simst R),
  s_step s = 0 -> apply_propagation can_loop p stable energy thr s = (s, 0%nat).
Proof. exact apply_stopped. Qed.
Print Assumptions C08_applier_stopped_untouched.

Theorem C08_applier_post :
  forall (can_loop stable : bool) (energy : R) (thr : lthreshold R) (p : propagation R) (s : simst R) (onb : bool),
  0 < s_step s -> propagator_post (s_step s) p onb ->
  let s' := fst (apply_propagation can_loop p stable energy thr s) in
  snd (apply_propagation can_loop p stable energy thr s) = 1%nat
  /\ 0 < s_step s' <= s_step s
  /\ s_step s' = p_dist p
  /\ (p_boundary p = true -> s_action s' = ABoundary /\ onb = true)
  /\ (s_action s <> ABoundary -> s_action s' = ABoundary -> p_boundary p = true)
  /\ (can_loop = true -> p_looping p = true ->
        s_nloop s' = S (s_nloop s)
        /\ (s_action s' = ATrackingCut <-> (stable = true /\ is_looping thr (S (s_nloop s)) energy = true))
        /\ (s_action s' = ATrackingCut \/ s_action s' = APropLimit))
  /\ (can_loop = true -> p_looping p = false -> s_nloop s' = 0%nat)
  /\ (can_loop = false -> s_nloop s' = s_nloop s)
  /\ (andb can_loop (p_looping p) = false -> p_boundary p = false -> p_dist p = s_step s ->
        s_action s' = s_action s)
  /\ (andb can_loop (p_looping p) = false -> p_boundary p = false -> p_dist p < s_step s ->
        s_action s' = APropLimit).
Proof. exact apply_post. Qed.
Print Assumptions C08_applier_post.

(** over any run of consecutive looping applications on one slot the counter
    counts them, a stable track is handed to the tracking cut exactly when the
    count reaches the threshold of its current energy (C01: the tracking cut
    deposits the energy), hence no later than max(max_subthreshold_steps, max_steps) *)
Theorem C08_applier_looping_run :
  forall (stable : bool) (thr : lthreshold R) (calls : list (acall R)) (n : nat),
  List.Forall looping_call calls ->
  let rs := apply_many stable thr n calls in
  length rs = length calls /\
  forall k r c, nth_error rs k = Some r -> nth_error calls k = Some c ->
    s_nloop (fst r) = (n + S k)%nat /\
    (s_action (fst r) = ATrackingCut <->
       (stable = true /\ is_looping thr (n + S k) (a_energy c) = true)).
Proof. exact looping_run_counts. Qed.
Print Assumptions C08_applier_looping_run.

Theorem C08_applier_looping_stable_track_killed :
  forall (thr : lthreshold R) (calls : list (acall R)) (n k : nat) r c,
  List.Forall looping_call calls ->
  nth_error (apply_many true thr n calls) k = Some r -> nth_error calls k = Some c ->
  (Nat.max (max_subthreshold_steps thr) (max_steps thr) <= n + S k)%nat ->
  s_action (fst r) = ATrackingCut.
Proof. exact looping_stable_track_killed. Qed.
Print Assumptions C08_applier_looping_stable_track_killed.

(** ** RZMapField::operator(): inside cell (iz, ir) of the map B_z is the linear
    interpolant in z of the two nodes at the lower r index and the radial
    component the linear interpolant in r of the two nodes at the lower z index
    (the code is NOT bilinear); fractions are in [0,1), so every component lies
    between its two neighbouring node values and equals the node value on a
    node; outside the map the field is zero *)
Theorem C08_rzmap_in_cell :
  forall (gz gr : ugrid R) (fmap : Z -> R * R) (x y z : R) (iz ir : Z),
  0 < ug_delta gz -> 0 < ug_delta gr -> (iz + 1 < ug_size gz)%Z -> (ir + 1 < ug_size gr)%Z ->
  let r := sqrt (x * x + y * y) in
  ug_at gz iz <= z < ug_at gz (iz + 1) -> ug_at gr ir <= r < ug_at gr (ir + 1) ->
  ug_front gz <= z <= ug_back gz -> ug_front gr <= r <= ug_back gr -> 0 < r ->
  let fz := (z - ug_at gz iz) / ug_delta gz in
  let fr := (r - ug_at gr ir) / ug_delta gr in
  let bz_lo := fst (fmap (rz_id gr iz ir)) in
  let bz_hi := fst (fmap (rz_id gr (iz + 1) ir)) in
  let br_lo := snd (fmap (rz_id gr iz ir)) in
  let br_hi := snd (fmap (rz_id gr iz (ir + 1))) in
  rzmap_field gz gr fmap (V3 x y z)
    = V3 (lerp br_lo br_hi fr / r * x) (lerp br_lo br_hi fr / r * y) (lerp bz_lo bz_hi fz)
  /\ 0 <= fz < 1 /\ 0 <= fr < 1
  /\ Rmin bz_lo bz_hi <= lerp bz_lo bz_hi fz <= Rmax bz_lo bz_hi
  /\ Rmin br_lo br_hi <= lerp br_lo br_hi fr <= Rmax br_lo br_hi
  /\ (z = ug_at gz iz -> lerp bz_lo bz_hi fz = bz_lo)
  /\ (r = ug_at gr ir -> lerp br_lo br_hi fr = br_lo).
Proof. exact rzmap_in_cell. Qed.
Print Assumptions C08_rzmap_in_cell.

Theorem C08_rzmap_outside_zero :
  forall (gz gr : ugrid R) (fmap : Z -> R * R) (x y z : R),
  (z < ug_front gz \/ ug_back gz < z \/ ug_back gr < sqrt (x * x + y * y)) ->
  rzmap_field gz gr fmap (V3 x y z) = V3 0 0 0.
Proof. exact rzmap_outside. Qed.
Print Assumptions C08_rzmap_outside_zero.

(** continuity across cells is FALSE: B_z jumps across r grid lines (finding F-C08-6) *)
Theorem C08_rzmap_continuity_refuted :
  exists (gz gr : ugrid R) (fmap : Z -> R * R),
    0 < ug_delta gz /\ 0 < ug_delta gr /\
    forall eps, 0 < eps -> exists r1 r2, 0 < r1 < r2 /\ r2 - r1 < eps /\
      vz (rzmap_field gz gr fmap (V3 r2 0 0)) - vz (rzmap_field gz gr fmap (V3 r1 0 0)) = 1.
Proof. exact rzmap_continuity_refuted. Qed.
Print Assumptions C08_rzmap_continuity_refuted.
