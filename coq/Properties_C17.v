(** * C17 property theorems — statements only; proofs live in C17/GatherProofs.v.
    Model: C17/Gather.v (F = the real type, only copied / added; ids are Z, -1 = null).
    Each theorem is closed by [exact] and followed by [Print Assumptions]. *)
From Coq Require Import List ZArith Bool.
From Celer Require Import C17.Gather C17.GatherProofs C17.GatherWitness.
From Celer Require Import C17.Loop C17.LoopProofs C17.LoopProofs2 C17.LoopWitness.
From Celer Require Import C17.Multi C17.MultiProofs C17.MultiWitness C17.FloatWitness.
From Celer Require Import C17.Copy C17.CopyProofs.
Import ListNotations.
Local Open Scope Z_scope.

(** After one stepping-loop iteration, what the callbacks may read (valid rows,
    restricted to the selected fields) is exactly one record per active slot
    passing the detector and non-zero-deposit filters, in slot order, each
    selected field equal to the track state at its step point — whatever the
    gathered state contained before. *)
Theorem C17_gather_exact : forall (F : Type) (fzero : F) (is_zero : F -> bool)
    (p : params) (pres : list (slot_pre F)) (posts : list (slot_post F)) (rows : list (row F)),
  length pres = length rows -> length posts = length rows ->
  Forall2 consistent pres posts ->
  map (mask_snd fzero p) (delivered p (collector_step is_zero p pres posts rows))
  = expected fzero is_zero p pres posts.
Proof. exact gather_exact. Qed.
Print Assumptions C17_gather_exact.

Theorem C17_active_slot_exactly_once : forall (F : Type) (fzero : F) (is_zero : F -> bool)
    (p : params) pres posts (rows : list (row F)) (i : nat) ab,
  length pres = length rows -> length posts = length rows ->
  Forall2 consistent pres posts ->
  nth_error (combine pres posts) i = Some ab ->
  step_active ab = true -> keep is_zero p ab = true ->
  count_occ Nat.eq_dec (map fst (delivered p (collector_step is_zero p pres posts rows))) i = 1%nat.
Proof. exact active_slot_exactly_once. Qed.
Print Assumptions C17_active_slot_exactly_once.

Theorem C17_inactive_slot_never : forall (F : Type) (fzero : F) (is_zero : F -> bool)
    (p : params) pres posts (rows : list (row F)) (i : nat) ab,
  length pres = length rows -> length posts = length rows ->
  Forall2 consistent pres posts ->
  nth_error (combine pres posts) i = Some ab ->
  step_active ab = false ->
  ~ In i (map fst (delivered p (collector_step is_zero p pres posts rows))).
Proof. exact inactive_slot_never. Qed.
Print Assumptions C17_inactive_slot_never.

(** Every registered callback is run on the same view (the gathered state). *)
Theorem C17_all_callbacks_same_view : forall (F A : Type)
    (cbs : list (list (row F) -> A -> A)) (view : list (row F)) (accs : list A) i cb acc,
  nth_error cbs i = Some cb -> nth_error accs i = Some acc ->
  nth_error (deliver cbs view accs) i = Some (cb view acc).
Proof. exact all_callbacks_same_view. Qed.
Print Assumptions C17_all_callbacks_same_view.

(** Over an arbitrary stepping sequence the delivered stream is the sequence of
    the steps that happened and pass the filters. *)
Theorem C17_stream_exact : forall (F : Type) (fzero : F) (is_zero : F -> bool)
    (p : params) (steps : list (step F)) (rows0 : list (row F)),
  Forall (wf_step (length rows0)) steps ->
  map (mask fzero p) (stream p (run_views is_zero p steps rows0))
  = flat_map (expected_rows fzero is_zero p) steps.
Proof. exact stream_exact. Qed.
Print Assumptions C17_stream_exact.

Theorem C17_calo_is_sum_of_delivered : forall (F : Type) (fzero : F) (fadd : F -> F -> F)
    (is_zero : F -> bool) (p : params) (steps : list (step F)) (rows0 : list (row F)) (d : Z),
  has_det p = true ->
  Forall (wf_step (length rows0)) steps ->
  calo_run fadd (run_views is_zero p steps rows0) (tally0 fzero) d
  = fold_left fadd
      (map (@r_edep F) (filter (det_is d) (stream p (run_views is_zero p steps rows0)))) fzero.
Proof. exact calo_is_sum_of_delivered. Qed.
Print Assumptions C17_calo_is_sum_of_delivered.

Theorem C17_calo_is_sum_of_steps : forall (F : Type) (fzero : F) (fadd : F -> F -> F)
    (is_zero : F -> bool) (p : params) (steps : list (step F)) (rows0 : list (row F)) (d : Z),
  has_det p = true -> s_edep (p_sel p) = true ->
  Forall (wf_step (length rows0)) steps ->
  calo_run fadd (run_views is_zero p steps rows0) (tally0 fzero) d
  = fold_left fadd
      (map (@r_edep F) (filter (det_is d) (flat_map (expected_rows fzero is_zero p) steps))) fzero.
Proof. exact calo_is_sum_of_steps. Qed.
Print Assumptions C17_calo_is_sum_of_steps.

(** The current code (ActionDiagnostic at [user_post], run on every iteration):
    holds for EVERY number of track slots. *)
Theorem C17_action_counts_are_counts : forall (F : Type) (fzero : F) (is_zero : F -> bool)
    (p : params) (steps : list (step F)) (rows0 : list (row F)) (i j : Z),
  has_det p = false -> s_particle (p_sel p) = true -> s_action (p_sel p) = true ->
  Forall (wf_step (length rows0)) steps -> Forall no_errored steps ->
  action_run false steps counts0 i j
  = countb (rec_is i j) (stream p (run_views is_zero p steps rows0)).
Proof. exact action_counts_are_counts. Qed.
Print Assumptions C17_action_counts_are_counts.

(** The old variant (diagnostic at order [post], subject to the host
    ActionSequence's single-slot shortcut) needed more than one track slot ... *)
Theorem C17_action_counts_are_counts_multi_slot : forall (F : Type) (fzero : F) (is_zero : F -> bool)
    (p : params) (steps : list (step F)) (rows0 : list (row F)) (i j : Z),
  has_det p = false -> s_particle (p_sel p) = true -> s_action (p_sel p) = true ->
  length rows0 <> 1%nat ->
  Forall (wf_step (length rows0)) steps -> Forall no_errored steps ->
  action_run true steps counts0 i j
  = countb (rec_is i j) (stream p (run_views is_zero p steps rows0)).
Proof. intros F fzero is_zero p steps rows0 i j Hd Hp Ha Hn. apply (action_counts_are_counts_gen F fzero is_zero true); auto. Qed.
Print Assumptions C17_action_counts_are_counts_multi_slot.

(** ... and with ONE track slot it missed delivered steps (reproduced on the real
    Stepper before repo commit d1fcf6b; see props/C17/NOTES.md, finding 1). *)
Theorem C17_action_counts_single_slot_refuted :
  exists (p : params) (steps : list (step Z)) (rows0 : list (row Z)) (i j : Z),
    has_det p = false /\ s_particle (p_sel p) = true /\ s_action (p_sel p) = true /\
    length rows0 = 1%nat /\
    Forall (wf_step (length rows0)) steps /\ Forall (@no_errored Z) steps /\
    action_run true steps counts0 i j
    <> countb (rec_is i j) (stream p (run_views (Z.eqb 0) p steps rows0)).
Proof. exact action_counts_single_slot_refuted. Qed.
Print Assumptions C17_action_counts_single_slot_refuted.

Theorem C17_step_diagnostic_counts : forall (F : Type) (nb : Z) (steps : list (step F)) (i j : Z),
  stepdiag_run nb steps counts0 i j = countb (sd_is nb i j) (flat_map snd steps).
Proof. exact step_diagnostic_counts. Qed.
Print Assumptions C17_step_diagnostic_counts.

(** Composition with the stepping loop's step counter (model C17/Loop.v:
    SimTrackView initialisation resets num_steps, TrackUpdater increments it once
    per along-step; slots are re-used by queued tracks and by secondaries).  For
    ANY run (any number of slots, any history of initialisations / kills / slot
    re-use, any payload) that starts with vacant slots and uses each
    (event, track, particle) id once, with an unfiltered collector that selects
    event and particle ids: the step counter a killed track carries at its death
    is the number of post-step records delivered for it ... *)
Theorem C17_num_steps_equals_delivered : forall (F : Type) (fzero : F) (is_zero : F -> bool)
    (p : params) (nslots : nat) (h : list (list (linput F))) (rows0 : list (row F)) (b : slot_post F),
  has_det p = false -> s_event (p_sel p) = true -> s_particle (p_sel p) = true ->
  length rows0 = nslots ->
  Forall (fun inp => length inp = nslots) h ->
  NoDup (all_inits h) ->
  let steps := fst (loop_run (repeat None nslots) h) in
  In b (flat_map snd steps) -> b_status b = Killed ->
  b_nsteps b
  = Z.of_nat (cnt (post_key b) (map row_key (stream p (run_views is_zero p steps rows0)))).
Proof. exact num_steps_equals_delivered. Qed.
Print Assumptions C17_num_steps_equals_delivered.

(** ... hence, for a complete run (every slot vacant at the end), StepDiagnostic's
    (particle, bin) histogram is the histogram of the number of delivered records
    per track (last bin = overflow). *)
Theorem C17_step_diagnostic_equals_delivered : forall (F : Type) (fzero : F) (is_zero : F -> bool)
    (p : params) (nslots : nat) (h : list (list (linput F))) (rows0 : list (row F)) (nb i j : Z),
  has_det p = false -> s_event (p_sel p) = true -> s_particle (p_sel p) = true ->
  length rows0 = nslots ->
  Forall (fun inp => length inp = nslots) h ->
  NoDup (all_inits h) ->
  let steps := fst (loop_run (repeat None nslots) h) in
  Forall (fun st => st = None) (snd (loop_run (repeat None nslots) h)) ->
  stepdiag_run nb steps counts0 i j
  = hist_delivered nb (stream p (run_views is_zero p steps rows0)) i j.
Proof. exact step_diagnostic_equals_delivered. Qed.
Print Assumptions C17_step_diagnostic_equals_delivered.

(** The delivered [track_step_count] itself: in every such run (collector also
    selecting track_step_count) each delivered record carries the number of records
    delivered for its track up to and including it. *)
Theorem C17_track_step_count_is_running_count : forall (F : Type) (fzero : F) (is_zero : F -> bool)
    (p : params) (nslots : nat) (h : list (list (linput F))) (rows0 : list (row F))
    (S1 : list (row F)) (r : row F) (S2 : list (row F)),
  has_det p = false -> s_event (p_sel p) = true -> s_particle (p_sel p) = true ->
  s_nsteps (p_sel p) = true ->
  length rows0 = nslots ->
  Forall (fun inp => length inp = nslots) h ->
  NoDup (all_inits h) ->
  let steps := fst (loop_run (repeat None nslots) h) in
  stream p (run_views is_zero p steps rows0) = S1 ++ r :: S2 ->
  r_nsteps r = Z.of_nat (cnt (row_key r) (map row_key (S1 ++ [r]))).
Proof. exact track_step_count_is_running_count. Qed.
Print Assumptions C17_track_step_count_is_running_count.

(** Adding a filter only removes records. *)
Theorem C17_filters_monotone : forall (F : Type) (fzero : F) (is_zero : F -> bool)
    (p p' : params) (pres : list (slot_pre F)) (posts : list (slot_post F)) (i : nat) (r' : row F),
  p_sel p = p_sel p' -> stricter is_zero p p' ->
  In (i, r') (expected fzero is_zero p' pres posts) ->
  exists r, In (i, r) (expected fzero is_zero p pres posts) /\ clear_det r = clear_det r'.
Proof. exact filters_monotone. Qed.
Print Assumptions C17_filters_monotone.

Theorem C17_no_detectors_is_weakest : forall (F : Type) (is_zero : F -> bool) (p p' : params),
  has_det p = false -> stricter is_zero p p'.
Proof. exact stricter_no_detectors. Qed.
Print Assumptions C17_no_detectors_is_weakest.

Theorem C17_nonzero_flag_is_stricter : forall (F : Type) (is_zero : F -> bool) sel det nz,
  stricter is_zero {| p_sel := sel; p_detector := det; p_nonzero := nz |}
                   {| p_sel := sel; p_detector := det; p_nonzero := true |}.
Proof. exact stricter_add_nonzero. Qed.
Print Assumptions C17_nonzero_flag_is_stricter.

Theorem C17_fewer_volumes_is_stricter : forall (F : Type) (is_zero : F -> bool) sel det det' nz,
  det <> [] -> det' <> [] ->
  (forall vol d, det_lookup {| p_sel := sel; p_detector := det'; p_nonzero := nz |} vol = Some d ->
                 is_some (det_lookup {| p_sel := sel; p_detector := det; p_nonzero := nz |} vol) = true) ->
  stricter is_zero {| p_sel := sel; p_detector := det; p_nonzero := nz |}
                   {| p_sel := sel; p_detector := det'; p_nonzero := nz |}.
Proof. exact stricter_fewer_volumes. Qed.
Print Assumptions C17_fewer_volumes_is_stricter.

(** DetectorSteps copy: order kept, exactly the rows without detector dropped. *)
Theorem C17_detector_steps_compaction : forall (F : Type) (p : params) (rows : list (row F)),
  let kept := filter (@det_valid F) rows in
  let s := p_sel p in
  let o := copy_steps p rows in
  Forall (fun r => is_some (r_det r) = true) kept /\
  o_detector o = map (@r_det F) kept /\ o_track o = map (@r_track F) kept /\
  o_event o = opt_map (s_event s) (@r_event F) kept /\
  o_parent o = opt_map (s_parent s) (@r_parent F) kept /\
  o_nsteps o = opt_map (s_nsteps s) (@r_nsteps F) kept /\
  o_steplen o = opt_map (s_steplen s) (@r_steplen F) kept /\
  o_particle o = opt_map (s_particle s) (@r_particle F) kept /\
  o_edep o = opt_map (s_edep s) (@r_edep F) kept /\
  o_time (o_pre o) = opt_map (s_time (s_pre s)) (fun r => t_time (r_pre r)) kept /\
  o_pos (o_pre o) = opt_map (s_pos (s_pre s)) (fun r => t_pos (r_pre r)) kept /\
  o_dir (o_pre o) = opt_map (s_dir (s_pre s)) (fun r => t_dir (r_pre r)) kept /\
  o_energy (o_pre o) = opt_map (s_energy (s_pre s)) (fun r => t_energy (r_pre r)) kept /\
  o_time (o_post o) = opt_map (s_time (s_post s)) (fun r => t_time (r_post r)) kept /\
  o_pos (o_post o) = opt_map (s_pos (s_post s)) (fun r => t_pos (r_post r)) kept /\
  o_dir (o_post o) = opt_map (s_dir (s_post s)) (fun r => t_dir (r_post r)) kept /\
  o_energy (o_post o) = opt_map (s_energy (s_post s)) (fun r => t_energy (r_post r)) kept.
Proof. exact detector_steps_compaction. Qed.
Print Assumptions C17_detector_steps_compaction.

(** ** Several step interfaces registered at once (StepParams.cc, StepGatherAction.cc) *)

(** For ANY list of interfaces accepted by the StepParams constructor: callback
    [k] is run exactly once on the one shared view; within its OWN selection it
    reads exactly one record per active slot passing the combined filters, each
    selected field equal to the track state at its step point; and every active
    step passing the filters it declared itself is delivered exactly once. *)
Theorem C17_all_callbacks_same_view_full : forall (F : Type) (fzero : F) (is_zero : F -> bool)
    (A : Type) (nvol : nat) (fs : list iface) (p : params)
    (cbs : list (list (row F) -> A -> A)) (accs : list A)
    (pres : list (slot_pre F)) (posts : list (slot_post F)) (rows : list (row F))
    (k : nat) (f : iface) (cb : list (row F) -> A -> A) (acc : A),
  step_params_build nvol fs = inr p ->
  nth_error fs k = Some f -> nth_error cbs k = Some cb -> nth_error accs k = Some acc ->
  length pres = length rows -> length posts = length rows -> Forall2 consistent pres posts ->
  let view := collector_step is_zero p pres posts rows in
  nth_error (deliver cbs view accs) k = Some (cb view acc) /\
  map (mask_snd fzero (with_sel p (f_sel f))) (delivered p view)
  = map (fun iab => (fst iab, mask fzero (with_sel p (f_sel f)) (ideal p (snd iab))))
        (filter (fun iab => step_active (snd iab) && keep is_zero p (snd iab))
                (indexed (combine pres posts))) /\
  (forall (pf : params) (i : nat) (ab : slot_pre F * slot_post F),
     step_params_build nvol [f] = inr pf ->
     (forall v d, In (v, d) (f_det f) -> 0 <= v < Z.of_nat nvol) ->
     nth_error (combine pres posts) i = Some ab ->
     step_active ab = true -> keep is_zero pf ab = true ->
     count_occ Nat.eq_dec (map fst (delivered p view)) i = 1%nat).
Proof. exact all_callbacks_same_view_full. Qed.
Print Assumptions C17_all_callbacks_same_view_full.

(** StepParams: the combined selection is the union of the interfaces' selections. *)
Theorem C17_step_params_selection_union : forall (nvol : nat) (fs : list iface) (p : params),
  step_params_build nvol fs = inr p ->
  p_sel p = fold_left sel_union (map f_sel fs) sel_none /\
  (forall f, In f fs -> sel_le (f_sel f) (p_sel p)) /\
  (forall f, In f fs -> sel_any (f_sel f) = true).
Proof. exact step_params_selection_union. Qed.
Print Assumptions C17_step_params_selection_union.

(** StepParams: interfaces with and without detectors cannot be mixed ... *)
Theorem C17_step_params_mixed_rejected : forall (nvol : nat) (fs : list iface) (f g : iface),
  In f fs -> In g fs -> f_det f = [] -> f_det g <> [] ->
  exists e, step_params_build nvol fs = inl e.
Proof. exact step_params_mixed_rejected. Qed.
Print Assumptions C17_step_params_mixed_rejected.

(** ... so has_detectors() is consistent with every interface. *)
Theorem C17_step_params_has_detectors : forall (nvol : nat) (fs : list iface) (p : params),
  step_params_build nvol fs = inr p -> (0 < nvol)%nat ->
  (has_det p = true -> forall f, In f fs -> f_det f <> []) /\
  (has_det p = false -> forall f, In f fs -> f_det f = []).
Proof. exact step_params_has_detectors. Qed.
Print Assumptions C17_step_params_has_detectors.

(** StepParams: the detector array is the union of the interfaces' volume maps. *)
Theorem C17_step_params_detector_union : forall (nvol : nat) (fs : list iface) (p : params) (vol d : Z),
  step_params_build nvol fs = inr p -> 0 <= vol < Z.of_nat nvol ->
  (det_lookup p vol = Some d <-> exists f, In f fs /\ In (vol, d) (f_det f)).
Proof. exact step_params_detector_union. Qed.
Print Assumptions C17_step_params_detector_union.

(** StepParams: zero-deposit steps are dropped iff detectors are used and ALL interfaces ask for it. *)
Theorem C17_step_params_nonzero : forall (nvol : nat) (fs : list iface) (p : params),
  step_params_build nvol fs = inr p ->
  (p_nonzero p = true <->
   (exists f, In f fs /\ f_det f <> []) /\ forall f, In f fs -> f_nonzero f = true).
Proof. exact step_params_nonzero. Qed.
Print Assumptions C17_step_params_nonzero.

(** ** Several streams: per-stream tallies merged at output *)

(** SimpleCalo, any addition (binary64 included): merged tally = in-order sum over
    the streams of the in-order per-stream sums of the delivered deposits. *)
Theorem C17_calo_total_exact : forall (F : Type) (fzero : F) (fadd : F -> F -> F)
    (n : nat) (calls : list (nat * list (row F))) (d : Z),
  calo_total fzero fadd n calls d
  = fold_left fadd
      (map (fun s => fold_left fadd (edeps d (concat (stream_calls calls s))) fzero) (seq 0 n))
      fzero.
Proof. exact calo_total_exact. Qed.
Print Assumptions C17_calo_total_exact.

(** With an associative-commutative addition (the reals) the merged tally is the
    sum over the union of all streams' delivered records, whatever the stream
    assignment ... *)
Theorem C17_calo_total_is_sum_of_all : forall (F : Type) (fzero : F) (fadd : F -> F -> F),
  (forall x y z, fadd (fadd x y) z = fadd x (fadd y z)) ->
  (forall x y, fadd x y = fadd y x) ->
  (forall x, fadd fzero x = x) ->
  forall (n : nat) (calls : list (nat * list (row F))) (d : Z),
  Forall (fun c => (fst c < n)%nat) calls ->
  calo_total fzero fadd n calls d
  = fold_left fadd (edeps d (concat (map snd calls))) fzero.
Proof. exact calo_total_is_sum_of_all. Qed.
Print Assumptions C17_calo_total_is_sum_of_all.

Theorem C17_calo_total_assignment_independent : forall (F : Type) (fzero : F) (fadd : F -> F -> F),
  (forall x y z, fadd (fadd x y) z = fadd x (fadd y z)) ->
  (forall x y, fadd x y = fadd y x) ->
  (forall x, fadd fzero x = x) ->
  forall (n n' : nat) (calls calls' : list (nat * list (row F))) (d : Z),
  Forall (fun c => (fst c < n)%nat) calls -> Forall (fun c => (fst c < n')%nat) calls' ->
  Permutation.Permutation (concat (map snd calls)) (concat (map snd calls')) ->
  calo_total fzero fadd n calls d = calo_total fzero fadd n' calls' d.
Proof. exact calo_total_assignment_independent. Qed.
Print Assumptions C17_calo_total_assignment_independent.

(** ... but NOT with binary64 addition: same records, two stream assignments,
    different totals (1e16 + 1 + 1). *)
Theorem C17_calo_total_float_assignment_refuted :
  exists (calls calls' : list (nat * list (row PrimFloat.float))) (d : Z),
    Forall (fun c => (fst c < 2)%nat) calls /\ Forall (fun c => (fst c < 2)%nat) calls' /\
    concat (map snd calls) = concat (map snd calls') /\
    PrimFloat.eqb (calo_total PrimFloat.zero PrimFloat.add 2 calls d)
                  (calo_total PrimFloat.zero PrimFloat.add 2 calls' d) = false.
Proof. exact calo_total_float_depends_on_assignment. Qed.
Print Assumptions C17_calo_total_float_assignment_refuted.

(** ActionDiagnostic / StepDiagnostic: merged counters = counts over the union of
    all streams' steps, whatever the stream assignment (exact). *)
Theorem C17_action_total_is_count_of_all : forall (F : Type) (n : nat)
    (calls : list (nat * list (slot_post F))) (i j : Z),
  Forall (fun c => (fst c < n)%nat) calls ->
  counts_total (@action_accum F) n calls i j = countb (act_is i j) (concat (map snd calls)).
Proof. exact action_total_is_count_of_all. Qed.
Print Assumptions C17_action_total_is_count_of_all.

Theorem C17_stepdiag_total_is_count_of_all : forall (F : Type) (nb : Z) (n : nat)
    (calls : list (nat * list (slot_post F))) (i j : Z),
  Forall (fun c => (fst c < n)%nat) calls ->
  counts_total (stepdiag_accum nb) n calls i j = countb (sd_is nb i j) (concat (map snd calls)).
Proof. exact stepdiag_total_is_count_of_all. Qed.
Print Assumptions C17_stepdiag_total_is_count_of_all.

(** ** DetectorSteps: array sizes, and the copy is exactly the delivered records *)
Theorem C17_detector_steps_sizes : forall (F : Type) (p : params) (rows : list (row F)),
  let n := length (filter (@det_valid F) rows) in
  let s := p_sel p in
  let o := copy_steps p rows in
  length (o_detector o) = n /\ length (o_track o) = n /\
  length (o_event o) = (if s_event s then n else 0%nat) /\
  length (o_parent o) = (if s_parent s then n else 0%nat) /\
  length (o_nsteps o) = (if s_nsteps s then n else 0%nat) /\
  length (o_steplen o) = (if s_steplen s then n else 0%nat) /\
  length (o_particle o) = (if s_particle s then n else 0%nat) /\
  length (o_edep o) = (if s_edep s then n else 0%nat).
Proof. exact detector_steps_sizes. Qed.
Print Assumptions C17_detector_steps_sizes.

Theorem C17_detector_steps_are_delivered : forall (F : Type) (is_zero : F -> bool)
    (p : params) (pres : list (slot_pre F)) (posts : list (slot_post F)) (rows : list (row F)),
  has_det p = true ->
  length pres = length rows -> length posts = length rows -> Forall2 consistent pres posts ->
  filter (@det_valid F) (collector_step is_zero p pres posts rows)
  = map snd (delivered p (collector_step is_zero p pres posts rows)).
Proof. exact detector_steps_are_delivered. Qed.
Print Assumptions C17_detector_steps_are_delivered.

(** ** DetectorSteps with a REUSED output object (HitProcessor usage) *)

(** copy_steps as a function of (previous content of the output, state): the
    result depends on the state only — for EVERY previous content, also when no
    slot has a valid detector now. *)
Theorem C17_detector_steps_overwrites : forall (F : Type) (fzero : F)
    (prev : det_output F) (p : params) (rows : list (row F)),
  copy_steps_into fzero prev p rows = copy_steps p rows.
Proof. exact detector_steps_overwrites. Qed.
Print Assumptions C17_detector_steps_overwrites.

(** hence a callback doing [copy_steps(&steps_, state); if (steps_) score(steps_)]
    scores exactly the rows with a valid detector, each once, nothing when there is none. *)
Theorem C17_scored_hits_exact : forall (F : Type) (fzero : F)
    (prev : det_output F) (p : params) (rows : list (row F)),
  scored_hits (copy_steps_into fzero prev p rows)
  = map (fun r => (r_det r, r_track r)) (filter (@det_valid F) rows).
Proof. exact scored_hits_exact. Qed.
Print Assumptions C17_scored_hits_exact.

(** the variant that returns early when no slot has a detector does not have this property *)
Theorem C17_copy_steps_early_return_refuted :
  exists (prev : det_output Z) (p : params) (rows : list (row Z)),
    copy_steps_into_early 0 prev p rows <> copy_steps p rows /\
    scored_hits (copy_steps_into_early 0 prev p rows) <> [] /\ filter (@det_valid Z) rows = [].
Proof. exact copy_steps_early_return_refuted. Qed.
Print Assumptions C17_copy_steps_early_return_refuted.
