(** * C17 property theorems — statements only; proofs live in C17/GatherProofs.v.
    Model: C17/Gather.v (F = the real type, only copied / added; ids are Z, -1 = null).
    Each theorem is closed by [exact] and followed by [Print Assumptions]. *)
From Coq Require Import List ZArith Bool.
From Celer Require Import C17.Gather C17.GatherProofs C17.GatherWitness.
Import ListNotations.
Local Open Scope Z_scope.

(** After one stepping-loop iteration, what the callbacks may read (valid rows,
    restricted to the selected fields) is exactly one record per active slot
    passing the detector and non-zero-deposit filters, in slot order, each
    selected field equal to the track state at its step point — whatever the
    gathered state contained before. *)
Theorem C17_gather_exact : forall (F : Type) (fzero : F) (is_zero : F -> bool)
    (p : params) (pres : list (slot_pre F)) (posts : list (slot_post F)) (rows : list (row F)),
  length pres = length rows -> length posts = length rows ->
  Forall2 consistent pres posts ->
  map (mask_snd fzero p) (delivered p (collector_step is_zero p pres posts rows))
  = expected fzero is_zero p pres posts.
Proof. exact gather_exact. Qed.
Print Assumptions C17_gather_exact.

Theorem C17_active_slot_exactly_once : forall (F : Type) (fzero : F) (is_zero : F -> bool)
    (p : params) pres posts (rows : list (row F)) (i : nat) ab,
  length pres = length rows -> length posts = length rows ->
  Forall2 consistent pres posts ->
  nth_error (combine pres posts) i = Some ab ->
  step_active ab = true -> keep is_zero p ab = true ->
  count_occ Nat.eq_dec (map fst (delivered p (collector_step is_zero p pres posts rows))) i = 1%nat.
Proof. exact active_slot_exactly_once. Qed.
Print Assumptions C17_active_slot_exactly_once.

Theorem C17_inactive_slot_never : forall (F : Type) (fzero : F) (is_zero : F -> bool)
    (p : params) pres posts (rows : list (row F)) (i : nat) ab,
  length pres = length rows -> length posts = length rows ->
  Forall2 consistent pres posts ->
  nth_error (combine pres posts) i = Some ab ->
  step_active ab = false ->
  ~ In i (map fst (delivered p (collector_step is_zero p pres posts rows))).
Proof. exact inactive_slot_never. Qed.
Print Assumptions C17_inactive_slot_never.

(** Every registered callback is run on the same view (the gathered state). *)
Theorem C17_all_callbacks_same_view : forall (F A : Type)
    (cbs : list (list (row F) -> A -> A)) (view : list (row F)) (accs : list A) i cb acc,
  nth_error cbs i = Some cb -> nth_error accs i = Some acc ->
  nth_error (deliver cbs view accs) i = Some (cb view acc).
Proof. exact all_callbacks_same_view. Qed.
Print Assumptions C17_all_callbacks_same_view.

(** Over an arbitrary stepping sequence the delivered stream is the sequence of
    the steps that happened and pass the filters. *)
Theorem C17_stream_exact : forall (F : Type) (fzero : F) (is_zero : F -> bool)
    (p : params) (steps : list (step F)) (rows0 : list (row F)),
  Forall (wf_step (length rows0)) steps ->
  map (mask fzero p) (stream p (run_views is_zero p steps rows0))
  = flat_map (expected_rows fzero is_zero p) steps.
Proof. exact stream_exact. Qed.
Print Assumptions C17_stream_exact.

Theorem C17_calo_is_sum_of_delivered : forall (F : Type) (fzero : F) (fadd : F -> F -> F)
    (is_zero : F -> bool) (p : params) (steps : list (step F)) (rows0 : list (row F)) (d : Z),
  has_det p = true ->
  Forall (wf_step (length rows0)) steps ->
  calo_run fadd (run_views is_zero p steps rows0) (tally0 fzero) d
  = fold_left fadd
      (map (@r_edep F) (filter (det_is d) (stream p (run_views is_zero p steps rows0)))) fzero.
Proof. exact calo_is_sum_of_delivered. Qed.
Print Assumptions C17_calo_is_sum_of_delivered.

Theorem C17_calo_is_sum_of_steps : forall (F : Type) (fzero : F) (fadd : F -> F -> F)
    (is_zero : F -> bool) (p : params) (steps : list (step F)) (rows0 : list (row F)) (d : Z),
  has_det p = true -> s_edep (p_sel p) = true ->
  Forall (wf_step (length rows0)) steps ->
  calo_run fadd (run_views is_zero p steps rows0) (tally0 fzero) d
  = fold_left fadd
      (map (@r_edep F) (filter (det_is d) (flat_map (expected_rows fzero is_zero p) steps))) fzero.
Proof. exact calo_is_sum_of_steps. Qed.
Print Assumptions C17_calo_is_sum_of_steps.

(** The current code (ActionDiagnostic at [user_post], run on every iteration):
    holds for EVERY number of track slots. *)
Theorem C17_action_counts_are_counts : forall (F : Type) (fzero : F) (is_zero : F -> bool)
    (p : params) (steps : list (step F)) (rows0 : list (row F)) (i j : Z),
  has_det p = false -> s_particle (p_sel p) = true -> s_action (p_sel p) = true ->
  Forall (wf_step (length rows0)) steps -> Forall no_errored steps ->
  action_run false steps counts0 i j
  = countb (rec_is i j) (stream p (run_views is_zero p steps rows0)).
Proof. exact action_counts_are_counts. Qed.
Print Assumptions C17_action_counts_are_counts.

(** The old variant (diagnostic at order [post], subject to the host
    ActionSequence's single-slot shortcut) needed more than one track slot ... *)
Theorem C17_action_counts_are_counts_multi_slot : forall (F : Type) (fzero : F) (is_zero : F -> bool)
    (p : params) (steps : list (step F)) (rows0 : list (row F)) (i j : Z),
  has_det p = false -> s_particle (p_sel p) = true -> s_action (p_sel p) = true ->
  length rows0 <> 1%nat ->
  Forall (wf_step (length rows0)) steps -> Forall no_errored steps ->
  action_run true steps counts0 i j
  = countb (rec_is i j) (stream p (run_views is_zero p steps rows0)).
Proof. intros F fzero is_zero p steps rows0 i j Hd Hp Ha Hn. apply (action_counts_are_counts_gen F fzero is_zero true); auto. Qed.
Print Assumptions C17_action_counts_are_counts_multi_slot.

(** ... and with ONE track slot it missed delivered steps (reproduced on the real
    Stepper before repo commit d1fcf6b; see props/C17/NOTES.md, finding 1). *)
Theorem C17_action_counts_single_slot_refuted :
  exists (p : params) (steps : list (step Z)) (rows0 : list (row Z)) (i j : Z),
    has_det p = false /\ s_particle (p_sel p) = true /\ s_action (p_sel p) = true /\
    length rows0 = 1%nat /\
    Forall (wf_step (length rows0)) steps /\ Forall (@no_errored Z) steps /\
    action_run true steps counts0 i j
    <> countb (rec_is i j) (stream p (run_views (Z.eqb 0) p steps rows0)).
Proof. exact action_counts_single_slot_refuted. Qed.
Print Assumptions C17_action_counts_single_slot_refuted.

Theorem C17_step_diagnostic_counts : forall (F : Type) (nb : Z) (steps : list (step F)) (i j : Z),
  stepdiag_run nb steps counts0 i j = countb (sd_is nb i j) (flat_map snd steps).
Proof. exact step_diagnostic_counts. Qed.
Print Assumptions C17_step_diagnostic_counts.

(** Adding a filter only removes records. *)
Theorem C17_filters_monotone : forall (F : Type) (fzero : F) (is_zero : F -> bool)
    (p p' : params) (pres : list (slot_pre F)) (posts : list (slot_post F)) (i : nat) (r' : row F),
  p_sel p = p_sel p' -> stricter is_zero p p' ->
  In (i, r') (expected fzero is_zero p' pres posts) ->
  exists r, In (i, r) (expected fzero is_zero p pres posts) /\ clear_det r = clear_det r'.
Proof. exact filters_monotone. Qed.
Print Assumptions C17_filters_monotone.

Theorem C17_no_detectors_is_weakest : forall (F : Type) (is_zero : F -> bool) (p p' : params),
  has_det p = false -> stricter is_zero p p'.
Proof. exact stricter_no_detectors. Qed.
Print Assumptions C17_no_detectors_is_weakest.

Theorem C17_nonzero_flag_is_stricter : forall (F : Type) (is_zero : F -> bool) sel det nz,
  stricter is_zero {| p_sel := sel; p_detector := det; p_nonzero := nz |}
                   {| p_sel := sel; p_detector := det; p_nonzero := true |}.
Proof. exact stricter_add_nonzero. Qed.
Print Assumptions C17_nonzero_flag_is_stricter.

Theorem C17_fewer_volumes_is_stricter : forall (F : Type) (is_zero : F -> bool) sel det det' nz,
  det <> [] -> det' <> [] ->
  (forall vol d, det_lookup {| p_sel := sel; p_detector := det'; p_nonzero := nz |} vol = Some d ->
                 is_some (det_lookup {| p_sel := sel; p_detector := det; p_nonzero := nz |} vol) = true) ->
  stricter is_zero {| p_sel := sel; p_detector := det; p_nonzero := nz |}
                   {| p_sel := sel; p_detector := det'; p_nonzero := nz |}.
Proof. exact stricter_fewer_volumes. Qed.
Print Assumptions C17_fewer_volumes_is_stricter.

(** DetectorSteps copy: order kept, exactly the rows without detector dropped. *)
Theorem C17_detector_steps_compaction : forall (F : Type) (p : params) (rows : list (row F)),
  let kept := filter (@det_valid F) rows in
  let s := p_sel p in
  let o := copy_steps p rows in
  Forall (fun r => is_some (r_det r) = true) kept /\
  o_detector o = map (@r_det F) kept /\ o_track o = map (@r_track F) kept /\
  o_event o = opt_map (s_event s) (@r_event F) kept /\
  o_parent o = opt_map (s_parent s) (@r_parent F) kept /\
  o_nsteps o = opt_map (s_nsteps s) (@r_nsteps F) kept /\
  o_steplen o = opt_map (s_steplen s) (@r_steplen F) kept /\
  o_particle o = opt_map (s_particle s) (@r_particle F) kept /\
  o_edep o = opt_map (s_edep s) (@r_edep F) kept /\
  o_time (o_pre o) = opt_map (s_time (s_pre s)) (fun r => t_time (r_pre r)) kept /\
  o_pos (o_pre o) = opt_map (s_pos (s_pre s)) (fun r => t_pos (r_pre r)) kept /\
  o_dir (o_pre o) = opt_map (s_dir (s_pre s)) (fun r => t_dir (r_pre r)) kept /\
  o_energy (o_pre o) = opt_map (s_energy (s_pre s)) (fun r => t_energy (r_pre r)) kept /\
  o_time (o_post o) = opt_map (s_time (s_post s)) (fun r => t_time (r_post r)) kept /\
  o_pos (o_post o) = opt_map (s_pos (s_post s)) (fun r => t_pos (r_post r)) kept /\
  o_dir (o_post o) = opt_map (s_dir (s_post s)) (fun r => t_dir (r_post r)) kept /\
  o_energy (o_post o) = opt_map (s_energy (s_post s)) (fun r => t_energy (r_post r)) kept.
Proof. exact detector_steps_compaction. Qed.
Print Assumptions C17_detector_steps_compaction.
