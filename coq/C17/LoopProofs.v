(** * C17 — the step counter of the stepping loop vs the delivered stream.
    Proofs about coq/C17/Loop.v composed with the gather model. *)
From Coq Require Import List ZArith Bool Lia Permutation.
From Celer Require Import C17.Gather C17.GatherProofs C17.Loop.
Import ListNotations.
Local Open Scope Z_scope.

(** ** Counting keys *)

Definition key_eq_dec : forall k k' : key, {k = k'} + {k <> k'}.
Proof. repeat decide equality. Defined.

Definition cnt (k : key) (l : list key) : nat := count_occ key_eq_dec l k.

Definition rkey (r : lrec) : key := fst (fst r).
Definition rn (r : lrec) : Z := snd (fst r).
Definition rkilled (r : lrec) : bool := snd r.

Definition c_all (k : key) (acc : list lrec) : nat := cnt k (map rkey acc).
Definition c_dead (k : key) (acc : list lrec) : nat := cnt k (map rkey (filter rkilled acc)).
Definition live_keys (live : list trk) : list key := map k_key live.

Lemma cnt_app : forall k l1 l2, cnt k (l1 ++ l2) = (cnt k l1 + cnt k l2)%nat.
Proof. intros. unfold cnt. apply count_occ_app. Qed.

Lemma cnt_cons : forall k x l, cnt k (x :: l) = ((if key_eq_dec x k then 1 else 0) + cnt k l)%nat.
Proof. intros. unfold cnt. simpl. destruct (key_eq_dec x k); reflexivity. Qed.

Lemma cnt_nil : forall k, cnt k [] = 0%nat.
Proof. reflexivity. Qed.

Lemma cnt_in : forall k l, In k l -> (cnt k l >= 1)%nat.
Proof. intros k l H. unfold cnt. apply (count_occ_In key_eq_dec) in H. lia. Qed.

Lemma cnt_pos_in : forall k l, (cnt k l >= 1)%nat -> In k l.
Proof. intros k l H. unfold cnt in H. apply (count_occ_In key_eq_dec). lia. Qed.

Lemma c_all_snoc : forall k acc r,
  c_all k (acc ++ [r]) = (c_all k acc + (if key_eq_dec (rkey r) k then 1 else 0))%nat.
Proof. intros. unfold c_all. rewrite map_app, cnt_app. simpl map. rewrite cnt_cons, cnt_nil. lia. Qed.

Lemma c_dead_snoc : forall k acc r,
  c_dead k (acc ++ [r])
  = (c_dead k acc + (if rkilled r then (if key_eq_dec (rkey r) k then 1 else 0) else 0))%nat.
Proof.
  intros. unfold c_dead. rewrite filter_app, map_app, cnt_app. simpl filter.
  destruct (rkilled r); simpl map; rewrite ?cnt_cons, cnt_nil; lia.
Qed.

Lemma rkey_triple : forall k n b, rkey (k, n, b) = k.
Proof. reflexivity. Qed.

Lemma live_keys_mid : forall k A t B,
  cnt k (live_keys (A ++ t :: B))
  = (cnt k (live_keys A) + (if key_eq_dec (k_key t) k then 1 else 0) + cnt k (live_keys B))%nat.
Proof. intros. unfold live_keys. rewrite map_app, cnt_app. simpl map. rewrite cnt_cons. lia. Qed.

Lemma live_keys_app : forall k A B,
  cnt k (live_keys (A ++ B)) = (cnt k (live_keys A) + cnt k (live_keys B))%nat.
Proof. intros. unfold live_keys. rewrite map_app, cnt_app. reflexivity. Qed.

Lemma live_in : forall t l, In t l -> (cnt (k_key t) (live_keys l) >= 1)%nat.
Proof. intros t l H. apply cnt_in. unfold live_keys. apply in_map. exact H. Qed.

Lemma dead_in : forall r acc, In r acc -> rkilled r = true -> (c_dead (rkey r) acc >= 1)%nat.
Proof.
  intros r acc H Hk. unfold c_dead. apply cnt_in. apply in_map. apply filter_In. tauto.
Qed.

(** ** The invariant: every key is either still to be initialised, or live in
    exactly one slot, or dead exactly once; a live track's counter is the number
    of records seen for it; a dead track's last record carries that number. *)
Record Inv (live : list trk) (acc : list lrec) (fut : list key) : Prop := {
  inv_a : forall t, In t live -> Z.of_nat (c_all (k_key t) acc) = k_nsteps t;
  inv_b : forall k, (cnt k (live_keys live) + cnt k fut + c_dead k acc <= 1)%nat;
  inv_c : forall k, (c_all k acc > 0)%nat -> (cnt k (live_keys live) + c_dead k acc >= 1)%nat;
  inv_e : forall r, In r acc -> rkilled r = true -> rn r = Z.of_nat (c_all (rkey r) acc) }.

Lemma inv_weaken : forall live acc fut fut',
  (forall k, (cnt k fut' <= cnt k fut)%nat) -> Inv live acc fut -> Inv live acc fut'.
Proof.
  intros live acc fut fut' Hle [Ha Hb Hc He]. constructor; auto.
  intros k. specialize (Hb k). specialize (Hle k). lia.
Qed.

(* initialisation of a vacant slot (at [start] or, with a secondary, at [end]) *)
Lemma inv_init : forall A B acc k fut,
  Inv (A ++ B) acc (k :: fut) -> Inv (A ++ sim_init k :: B) acc fut.
Proof.
  intros A B acc k fut [Ha Hb Hc He]. constructor.
  - intros t Hin. apply in_app_or in Hin. destruct Hin as [Hin|[Hin|Hin]].
    + apply Ha. apply in_or_app. auto.
    + subst t. cbn [sim_init k_key k_nsteps].
      destruct (c_all k acc) eqn:E; [reflexivity|].
      assert (G : (c_all k acc > 0)%nat) by lia. apply Hc in G.
      specialize (Hb k). rewrite cnt_cons in Hb. destruct (key_eq_dec k k); [|congruence]. lia.
    + apply Ha. apply in_or_app. auto.
  - intros k'. specialize (Hb k'). rewrite cnt_cons in Hb. rewrite live_keys_mid.
    rewrite live_keys_app in Hb. cbn [sim_init k_key]. lia.
  - intros k' G. specialize (Hc k' G). rewrite live_keys_mid. rewrite live_keys_app in Hc. lia.
  - exact He.
Qed.

(* the other live tracks and the dead ones have keys different from a live track's *)
Lemma inv_other_live : forall A t B acc fut t2,
  Inv (A ++ t :: B) acc fut -> In t2 (A ++ B) -> k_key t <> k_key t2.
Proof.
  intros A t B acc fut t2 [_ Hb _ _] Hin E.
  specialize (Hb (k_key t)). rewrite live_keys_mid in Hb.
  destruct (key_eq_dec (k_key t) (k_key t)); [|congruence].
  apply in_app_or in Hin. destruct Hin as [Hin|Hin]; apply live_in in Hin; rewrite <- E in Hin; lia.
Qed.

Lemma inv_dead_other : forall A t B acc fut r,
  Inv (A ++ t :: B) acc fut -> In r acc -> rkilled r = true -> k_key t <> rkey r.
Proof.
  intros A t B acc fut r [_ Hb _ _] Hin Hk E.
  specialize (Hb (k_key t)). rewrite live_keys_mid in Hb.
  destruct (key_eq_dec (k_key t) (k_key t)); [|congruence].
  pose proof (dead_in r acc Hin Hk) as G. rewrite <- E in G. lia.
Qed.

(* one along-step of a live track that survives the iteration *)
Lemma inv_step_alive : forall A t B acc fut,
  Inv (A ++ t :: B) acc fut ->
  Inv (A ++ sim_increment t :: B)
      (acc ++ [(k_key t, k_nsteps t + 1, false)]) fut.
Proof.
  intros A t B acc fut I. pose proof I as [Ha Hb Hc He]. constructor.
  - intros t2 Hin. rewrite c_all_snoc. cbn [rkey fst].
    apply in_app_or in Hin. destruct Hin as [Hin|[Hin|Hin]].
    + assert (Hne : k_key t <> k_key t2) by (eapply inv_other_live; [exact I|apply in_or_app; auto]).
      destruct (key_eq_dec (k_key t) (k_key t2)); [contradiction|].
      rewrite Nat.add_0_r. apply Ha. apply in_or_app. auto.
    + subst t2. cbn [sim_increment k_key k_nsteps].
      destruct (key_eq_dec (k_key t) (k_key t)); [|congruence].
      rewrite Nat2Z.inj_add, (Ha t) by (apply in_or_app; simpl; auto). reflexivity.
    + assert (Hne : k_key t <> k_key t2) by (eapply inv_other_live; [exact I|apply in_or_app; auto]).
      destruct (key_eq_dec (k_key t) (k_key t2)); [contradiction|].
      rewrite Nat.add_0_r. apply Ha. apply in_or_app. simpl. auto.
  - intros k. specialize (Hb k). rewrite live_keys_mid in *. rewrite c_dead_snoc.
    cbn [rkilled snd sim_increment k_key]. lia.
  - intros k G. rewrite c_all_snoc in G. rewrite c_dead_snoc. cbn [rkilled rkey fst snd] in *.
    rewrite live_keys_mid in *. cbn [sim_increment k_key].
    destruct (key_eq_dec (k_key t) k); [lia|].
    assert (G' : (c_all k acc > 0)%nat) by lia. specialize (Hc k G'). rewrite live_keys_mid in Hc.
    destruct (key_eq_dec (k_key t) k); [contradiction|]. lia.
  - intros r Hin Hk. apply in_app_or in Hin. destruct Hin as [Hin|[Hin|[]]].
    + rewrite c_all_snoc, rkey_triple.
      assert (Hne : k_key t <> rkey r) by (eapply inv_dead_other; eauto).
      destruct (key_eq_dec (k_key t) (rkey r)); [contradiction|]. rewrite Nat.add_0_r. apply He; auto.
    + subst r. discriminate.
Qed.

(* one along-step of a live track that is killed in the iteration *)
Lemma inv_step_killed : forall A t B acc fut,
  Inv (A ++ t :: B) acc fut ->
  Inv (A ++ B) (acc ++ [(k_key t, k_nsteps t + 1, true)]) fut.
Proof.
  intros A t B acc fut I. pose proof I as [Ha Hb Hc He]. constructor.
  - intros t2 Hin. rewrite c_all_snoc. cbn [rkey fst].
    assert (Hne : k_key t <> k_key t2) by (eapply inv_other_live; [exact I|exact Hin]).
    destruct (key_eq_dec (k_key t) (k_key t2)); [contradiction|]. rewrite Nat.add_0_r.
    apply Ha. apply in_app_or in Hin. apply in_or_app. simpl. tauto.
  - intros k. specialize (Hb k). rewrite live_keys_mid in Hb. rewrite live_keys_app, c_dead_snoc.
    cbn [rkilled rkey fst snd]. lia.
  - intros k G. rewrite c_all_snoc in G. rewrite c_dead_snoc, live_keys_app. cbn [rkilled rkey fst snd] in *.
    destruct (key_eq_dec (k_key t) k); [lia|].
    assert (G' : (c_all k acc > 0)%nat) by lia. specialize (Hc k G'). rewrite live_keys_mid in Hc.
    destruct (key_eq_dec (k_key t) k); [contradiction|]. lia.
  - intros r Hin Hk. apply in_app_or in Hin. destruct Hin as [Hin|[Hin|[]]].
    + rewrite c_all_snoc, rkey_triple.
      assert (Hne : k_key t <> rkey r) by (eapply inv_dead_other; eauto).
      destruct (key_eq_dec (k_key t) (rkey r)); [contradiction|]. rewrite Nat.add_0_r. apply He; auto.
    + subst r. rewrite c_all_snoc. cbn [rn rkey fst snd].
      destruct (key_eq_dec (k_key t) (k_key t)); [|congruence].
      rewrite Nat2Z.inj_add, (Ha t) by (apply in_or_app; simpl; auto). reflexivity.
Qed.

(** ** One slot, one iteration *)

Definition core_inits (i : core_in) : list key :=
  let '(oinit, _, osec) := i in olist oinit ++ olist osec.

Lemma cnt_le_app_r : forall k l1 l2, (cnt k l2 <= cnt k (l1 ++ l2))%nat.
Proof. intros. rewrite cnt_app. lia. Qed.

Lemma slot_inv_occupied : forall A B t (kill : bool) osec acc fut,
  Inv (A ++ t :: B) acc (olist osec ++ fut) ->
  Inv (A ++ olist (if kill then option_map sim_init osec else Some (sim_increment t)) ++ B)
      (acc ++ [(k_key t, k_nsteps t + 1, kill)]) fut.
Proof.
  intros A B t kill osec acc fut I. destruct kill.
  - apply inv_step_killed in I. destruct osec as [k2|]; cbn [option_map olist app] in *.
    + apply inv_init. exact I.
    + exact I.
  - apply inv_step_alive in I. cbn [olist app].
    eapply inv_weaken; [|exact I]. intros k. apply cnt_le_app_r.
Qed.

Lemma slot_inv : forall A B st i acc fut,
  Inv (A ++ olist st ++ B) acc (core_inits i ++ fut) ->
  Inv (A ++ olist (fst (core_slot st i)) ++ B) (acc ++ olist (snd (core_slot st i))) fut.
Proof.
  intros A B st [[oinit kill] osec] acc fut I. unfold core_slot, core_inits in *.
  destruct st as [t|].
  - (* occupied: initialize_tracks does not touch the slot *)
    cbn [olist fst snd app sim_increment k_key k_nsteps] in *.
    apply (slot_inv_occupied A B t kill osec acc fut).
    eapply inv_weaken; [|exact I]. intros k. rewrite <- app_assoc. apply cnt_le_app_r.
  - destruct oinit as [k0|]; cbn [option_map olist fst snd app] in *.
    + apply inv_init in I.
      exact (slot_inv_occupied A B (sim_init k0) kill osec acc fut I).
    + rewrite app_nil_r. eapply inv_weaken; [|exact I]. intros k. apply cnt_le_app_r.
Qed.

(** ** One iteration over all slots, then a whole run (core, without payload) *)

Fixpoint core_iter (sigma : list (option trk)) (inp : list core_in)
    : list (option trk) * list lrec :=
  match sigma, inp with
  | st :: sigma', i :: inp' =>
      let r := core_slot st i in
      let rest := core_iter sigma' inp' in
      (fst r :: fst rest, olist (snd r) ++ snd rest)
  | _, _ => ([], [])
  end.

Fixpoint core_run (sigma : list (option trk)) (h : list (list core_in))
    : list lrec * list (option trk) :=
  match h with
  | [] => ([], sigma)
  | inp :: h' =>
      let r := core_iter sigma inp in
      let rest := core_run (fst r) h' in
      (snd r ++ fst rest, snd rest)
  end.

Definition lives (sigma : list (option trk)) : list trk := flat_map olist sigma.

Lemma core_iter_length : forall sigma inp, length inp = length sigma ->
  length (fst (core_iter sigma inp)) = length sigma.
Proof.
  induction sigma as [|st sigma IH]; intros [|i inp] Hl; simpl in *; try discriminate; auto.
Qed.

Lemma iter_inv : forall sigma inp A acc fut, length inp = length sigma ->
  Inv (A ++ lives sigma) acc (flat_map core_inits inp ++ fut) ->
  Inv (A ++ lives (fst (core_iter sigma inp))) (acc ++ snd (core_iter sigma inp)) fut.
Proof.
  induction sigma as [|st sigma IH]; intros [|i inp] A acc fut Hl I; simpl in Hl; try discriminate.
  - simpl in *. rewrite !app_nil_r in *. exact I.
  - cbn [core_iter fst snd lives flat_map] in *. fold (lives sigma) in I.
    fold (lives (fst (core_iter sigma inp))).
    rewrite <- app_assoc in I.
    apply slot_inv in I.
    rewrite (app_assoc A), (app_assoc acc).
    apply IH; [lia|]. rewrite <- app_assoc. exact I.
Qed.

Lemma run_inv : forall h sigma acc nslots,
  length sigma = nslots -> Forall (fun inp => length inp = nslots) h ->
  Inv (lives sigma) acc (flat_map (flat_map core_inits) h) ->
  Inv (lives (snd (core_run sigma h))) (acc ++ fst (core_run sigma h)) [].
Proof.
  induction h as [|inp h IH]; intros sigma acc nslots Hs Hh I.
  - simpl in *. rewrite app_nil_r. exact I.
  - inversion Hh as [|? ? Hi Hrest]; subst. cbn [core_run fst snd flat_map] in *.
    rewrite app_assoc. apply (IH _ _ (length sigma)).
    + apply core_iter_length. exact Hi.
    + exact Hrest.
    + apply (iter_inv sigma inp [] acc); [exact Hi|exact I].
Qed.

Lemma lives_vacant : forall n, lives (repeat None n) = [].
Proof. induction n; simpl; auto. Qed.

Lemma inv_start : forall fut, NoDup fut -> Inv [] [] fut.
Proof.
  intros fut Hnd. constructor.
  - intros t [].
  - intros k. cbn. rewrite (NoDup_count_occ key_eq_dec) in Hnd. specialize (Hnd k).
    unfold cnt. unfold c_dead. simpl. lia.
  - intros k H. unfold c_all in H. simpl in H. lia.
  - intros r [].
Qed.

(** the loop facts, for a run that starts with all slots vacant and unique track ids *)
Theorem core_run_facts : forall nslots h,
  Forall (fun inp => length inp = nslots) h ->
  NoDup (flat_map (flat_map core_inits) h) ->
  let R := fst (core_run (repeat None nslots) h) in
  let final := snd (core_run (repeat None nslots) h) in
  (* a killed track's step counter is the number of records of that track *)
  (forall r, In r R -> rkilled r = true -> rn r = Z.of_nat (c_all (rkey r) R)) /\
  (* a track dies at most once *)
  NoDup (map rkey (filter rkilled R)) /\
  (* if every slot is vacant at the end, every track that took a step has died *)
  (lives final = [] -> forall k, In k (map rkey R) -> In k (map rkey (filter rkilled R))).
Proof.
  intros nslots h Hh Hnd R final.
  assert (I : Inv (lives final) R []).
  { pose proof (run_inv h (repeat None nslots) [] nslots (repeat_length _ _) Hh) as G.
    rewrite lives_vacant in G. apply G. apply inv_start. exact Hnd. }
  destruct I as [Ha Hb Hc He]. repeat split.
  - exact He.
  - apply (NoDup_count_occ key_eq_dec). intros k. specialize (Hb k). unfold c_dead, cnt in Hb. lia.
  - intros Hfin k Hin. apply cnt_in in Hin. rewrite Hfin in Hc.
    assert (G : (c_all k R > 0)%nat) by (unfold c_all; lia). apply Hc in G. cbn in G.
    apply cnt_pos_in. unfold c_dead in G. lia.
Qed.

(** ** Histogram of step counts *)

Lemma countb_perm : forall A (g : A -> bool) l1 l2, Permutation l1 l2 -> countb g l1 = countb g l2.
Proof.
  intros A g l1 l2 H. induction H.
  - reflexivity.
  - rewrite !countb_cons, IHPermutation. reflexivity.
  - rewrite !countb_cons. lia.
  - congruence.
Qed.

(* bin of the StepDiagnostic histogram for a track with key [k] that took [n] steps *)
Definition in_bin (nb i j : Z) (k : key) (n : Z) : bool :=
  (kparticle k =? i) && (Z.min n (nb - 1) =? j).

(* histogram of "number of records per track" of a list of track keys *)
Definition hist_keys (nb : Z) (ks : list key) (i j : Z) : Z :=
  countb (fun k => in_bin nb i j k (Z.of_nat (cnt k ks))) (nodup key_eq_dec ks).

Lemma killed_hist : forall nb i j (R : list lrec),
  (forall r, In r R -> rkilled r = true -> rn r = Z.of_nat (c_all (rkey r) R)) ->
  NoDup (map rkey (filter rkilled R)) ->
  (forall k, In k (map rkey R) -> In k (map rkey (filter rkilled R))) ->
  countb (fun r => rkilled r && in_bin nb i j (rkey r) (rn r)) R
  = hist_keys nb (map rkey R) i j.
Proof.
  intros nb i j R H1 H2 H3. unfold hist_keys.
  rewrite <- countb_filter.
  rewrite (countb_ext_in _ _ (fun r => in_bin nb i j (rkey r) (Z.of_nat (c_all (rkey r) R)))).
  2:{ intros r Hin. apply filter_In in Hin. destruct Hin as [Hin Hk]. rewrite (H1 r Hin Hk). reflexivity. }
  rewrite <- (countb_map _ _ rkey (fun k => in_bin nb i j k (Z.of_nat (c_all k R)))).
  apply countb_perm. apply NoDup_Permutation; [exact H2|apply NoDup_nodup|].
  intros k. rewrite nodup_In. split.
  - intros Hin. apply in_map_iff in Hin. destruct Hin as (r & Hr & Hin). apply filter_In in Hin.
    apply in_map_iff. exists r. tauto.
  - apply H3.
Qed.

(** ** The concrete loop (with payload) projects onto the core *)
Section Concrete.
Variable F : Type.
Variable fzero : F.
Variable is_zero : F -> bool.

Definition post_key (b : slot_post F) : key := (b_event b, b_track b, b_particle b).
Definition post_rec (b : slot_post F) : lrec := (post_key b, b_nsteps b, is_killed (b_status b)).
Definition post_active_b (b : slot_post F) : bool := negb (is_inactive (b_status b)).

Definition recs_of_posts (posts : list (slot_post F)) : list lrec :=
  map post_rec (filter post_active_b posts).

Lemma post_rec_active : forall r b, post_rec (post_active r b) = r /\ post_active_b (post_active r b) = true.
Proof.
  intros [[[[e t] p] n] kill] b. unfold post_rec, post_key, post_active, post_active_b. cbn.
  destruct kill; split; reflexivity.
Qed.

Lemma loop_iter_core : forall sigma (inp : list (linput F)),
  fst (loop_iter sigma inp) = fst (core_iter sigma (map (@i_core F) inp)) /\
  recs_of_posts (map snd (snd (loop_iter sigma inp))) = snd (core_iter sigma (map (@i_core F) inp)).
Proof.
  induction sigma as [|st sigma IH]; intros [|i inp]; try (split; reflexivity).
  destruct (IH inp) as [IH1 IH2]. cbn [loop_iter core_iter map fst snd]. split.
  - unfold loop_slot at 1. cbn [fst]. rewrite IH1. reflexivity.
  - unfold recs_of_posts in *. unfold loop_slot at 1. cbn [snd filter].
    destruct (snd (core_slot st (i_core i))) as [r|]; cbn [snd olist app].
    + destruct (post_rec_active r (i_post i)) as [E1 E2]. rewrite E2. cbn [map]. rewrite E1, IH2. reflexivity.
    + unfold post_active_b at 1, post_inactive at 1. cbn. exact IH2.
Qed.

Lemma loop_iter_length : forall sigma (inp : list (linput F)), length inp = length sigma ->
  length (snd (loop_iter sigma inp)) = length sigma /\ length (fst (loop_iter sigma inp)) = length sigma.
Proof.
  induction sigma as [|st sigma IH]; intros [|i inp] Hl; simpl in *; try discriminate; auto.
  destruct (IH inp) as [H1 H2]; [lia|]. rewrite H1, H2. auto.
Qed.

Lemma loop_run_core : forall h sigma,
  recs_of_posts (flat_map snd (fst (loop_run sigma h)))
  = fst (core_run sigma (map (map (@i_core F)) h)) /\
  snd (loop_run sigma h) = snd (core_run sigma (map (map (@i_core F)) h)).
Proof.
  induction h as [|inp h IH]; intros sigma; [split; reflexivity|].
  cbn [loop_run core_run map fst snd flat_map].
  destruct (loop_iter_core sigma inp) as [E1 E2]. destruct (IH (fst (loop_iter sigma inp))) as [E3 E4].
  rewrite <- E1. split.
  - unfold recs_of_posts in *. rewrite filter_app, map_app. cbn [iter_step snd]. rewrite E2, E3. reflexivity.
  - exact E4.
Qed.

Lemma all_inits_core : forall (h : list (list (linput F))),
  all_inits h = flat_map (flat_map core_inits) (map (map (@i_core F)) h).
Proof.
  intros h. unfold all_inits. induction h as [|inp h IH]; [reflexivity|].
  cbn [flat_map map]. rewrite IH. f_equal.
  induction inp as [|i inp IH2]; [reflexivity|]. cbn [flat_map map]. rewrite IH2. reflexivity.
Qed.

(** the steps produced by the loop model satisfy the hypothesis of the gather theorems *)
Lemma loop_iter_consistent : forall sigma (inp : list (linput F)),
  Forall2 consistent (map fst (snd (loop_iter sigma inp))) (map snd (snd (loop_iter sigma inp))).
Proof.
  induction sigma as [|st sigma IH]; intros [|i inp]; try constructor.
  - unfold loop_slot. cbn [snd]. destruct (snd (core_slot st (i_core i))) as [[[k n] kill]|]; cbn [fst snd].
    + unfold consistent. cbn. destruct kill; reflexivity.
    + reflexivity.
  - apply IH.
Qed.

Lemma loop_run_wf : forall h sigma nslots,
  length sigma = nslots -> Forall (fun inp => length inp = nslots) h ->
  Forall (@wf_step F nslots) (fst (loop_run sigma h)).
Proof.
  induction h as [|inp h IH]; intros sigma nslots Hs Hh; [constructor|].
  inversion Hh as [|? ? Hi Hrest]; subst. cbn [loop_run fst].
  destruct (loop_iter_length sigma inp Hi) as [L1 L2]. constructor.
  - unfold wf_step, iter_step. cbn [fst snd]. rewrite !map_length. repeat split; auto.
    apply loop_iter_consistent.
  - apply IH; auto.
Qed.

Lemma loop_run_no_errored : forall h sigma, Forall (@no_errored F) (fst (loop_run sigma h)).
Proof.
  induction h as [|inp h IH]; intros sigma; [constructor|]. cbn [loop_run fst]. constructor; [|apply IH].
  unfold no_errored, iter_step. cbn [snd]. clear IH. revert inp.
  induction sigma as [|st sigma IH]; intros [|i inp]; try constructor.
  - unfold loop_slot. cbn [snd]. destruct (snd (core_slot st (i_core i))) as [[[k n] kill]|]; cbn.
    + destruct kill; discriminate.
    + discriminate.
  - apply IH.
Qed.

(** ** StepDiagnostic on loop-generated steps *)

Lemma loop_status : forall h sigma (b : slot_post F), In b (flat_map snd (fst (loop_run sigma h))) ->
  b_status b = Inactive \/ b_status b = Alive \/ b_status b = Killed.
Proof.
  induction h as [|inp h IH]; intros sigma b Hin; [destruct Hin|].
  cbn [loop_run fst flat_map] in Hin. apply in_app_or in Hin. destruct Hin as [Hin|Hin]; [|eapply IH; eauto].
  unfold iter_step in Hin. cbn [snd] in Hin. clear IH. revert inp Hin.
  induction sigma as [|st sigma IH]; intros [|i inp] Hin; try (destruct Hin; fail).
  cbn [loop_iter snd map] in Hin. destruct Hin as [Hin|Hin].
  - subst b. unfold loop_slot. cbn [snd]. destruct (snd (core_slot st (i_core i))) as [[[k n] kill]|]; cbn.
    + destruct kill; auto.
    + auto.
  - eapply IH; eauto.
Qed.

Lemma stepdiag_is_killed_hist : forall nb i j (posts : list (slot_post F)),
  (forall b, In b posts -> b_status b = Inactive \/ b_status b = Alive \/ b_status b = Killed) ->
  countb (sd_is nb i j) posts
  = countb (fun r => rkilled r && in_bin nb i j (rkey r) (rn r)) (recs_of_posts posts).
Proof.
  intros nb i j posts Hst. unfold recs_of_posts. rewrite countb_map, countb_filter.
  apply countb_ext_in. intros b Hin. specialize (Hst b Hin).
  unfold sd_is, post_active_b, post_rec, post_key, in_bin, stepdiag_bin, rkilled, rkey, rn, kparticle. cbn.
  destruct Hst as [E|[E|E]]; rewrite E; reflexivity.
Qed.

(** ** The delivered stream, seen through (event, track, particle) *)

Definition row_key (r : row F) : key :=
  (r_event r, match r_track r with Some t => t | None => -1 end, r_particle r).

(* number of delivered records per track, histogrammed like StepDiagnostic *)
Definition hist_delivered (nb : Z) (recs : list (row F)) (i j : Z) : Z :=
  hist_keys nb (map row_key recs) i j.

Lemma map_snd_filter_combine : forall A B (g : B -> bool) (la : list A) (lb : list B),
  length la = length lb ->
  map snd (filter (fun ab => g (snd ab)) (combine la lb)) = filter g lb.
Proof.
  intros A B g la. induction la as [|a la IH]; intros [|b lb] Hl; simpl in Hl; try discriminate; auto.
  cbn [combine filter snd]. destruct (g b); cbn [map snd]; rewrite IH by lia; reflexivity.
Qed.

Lemma stream_keys : forall p (steps : list (step F)) rows0,
  has_det p = false -> s_event (p_sel p) = true -> s_particle (p_sel p) = true ->
  Forall (wf_step (length rows0)) steps ->
  map row_key (stream p (run_views is_zero p steps rows0))
  = map rkey (recs_of_posts (flat_map snd steps)).
Proof.
  intros p steps rows0 Hd He Hp Hwf.
  assert (Hm : map row_key (stream p (run_views is_zero p steps rows0))
               = map row_key (map (mask fzero p) (stream p (run_views is_zero p steps rows0)))).
  { rewrite map_map. apply map_ext. intros r. unfold row_key, mask. cbn. rewrite He, Hp. reflexivity. }
  rewrite Hm, (stream_exact F fzero is_zero p steps rows0 Hwf). clear Hm.
  unfold recs_of_posts. induction steps as [|st steps IH]; [reflexivity|].
  inversion Hwf as [|? ? Hst Hrest]; subst. destruct Hst as (H1 & H2 & Hc).
  cbn [flat_map]. rewrite filter_app, !map_app, IH by assumption. f_equal.
  rewrite expected_rows_unfold, !map_map.
  rewrite <- (map_snd_filter_combine _ _ post_active_b (fst st) (snd st)) by lia.
  rewrite map_map.
  assert (Hf : forall l : list (slot_pre F * slot_post F),
             filter (fun ab => step_active ab && keep is_zero p ab) l
             = filter (fun ab => post_active_b (snd ab)) l).
  { intros l. apply filter_ext. intros [a b]. unfold step_active, keep, keep_det, keep_nonzero, post_active_b.
    cbn. rewrite Hd. cbn. rewrite andb_true_r. reflexivity. }
  rewrite Hf. apply map_ext. intros [a b].
  unfold row_key, mask, ideal, rkey, post_rec, post_key. cbn. rewrite He, Hp. reflexivity.
Qed.

(** *** num_steps = number of delivered records.  For every track killed
    during the run, the step counter read by StepDiagnostic at its death equals
    the number of post-step records delivered for (event, track, particle). *)
Theorem num_steps_equals_delivered : forall p nslots (h : list (list (linput F))) rows0 b,
  has_det p = false -> s_event (p_sel p) = true -> s_particle (p_sel p) = true ->
  length rows0 = nslots ->
  Forall (fun inp => length inp = nslots) h ->
  NoDup (all_inits h) ->
  let steps := fst (loop_run (repeat None nslots) h) in
  In b (flat_map snd steps) -> b_status b = Killed ->
  b_nsteps b
  = Z.of_nat (cnt (post_key b) (map row_key (stream p (run_views is_zero p steps rows0)))).
Proof.
  intros p nslots h rows0 b Hd He Hp Hl Hh Hnd steps Hin Hk.
  assert (Hwf : Forall (wf_step (length rows0)) steps).
  { rewrite Hl. apply loop_run_wf; [apply repeat_length|exact Hh]. }
  rewrite (stream_keys p steps rows0 Hd He Hp Hwf).
  destruct (loop_run_core h (repeat None nslots)) as [E1 E2]. fold steps in E1. rewrite E1.
  assert (Hh' : Forall (fun inp => length inp = nslots) (map (map (@i_core F)) h)).
  { rewrite Forall_map. eapply Forall_impl; [|exact Hh]. intros inp. rewrite map_length. auto. }
  rewrite all_inits_core in Hnd.
  destruct (core_run_facts nslots _ Hh' Hnd) as (C1 & _ & _).
  assert (Hr : In (post_rec b) (fst (core_run (repeat None nslots) (map (map (@i_core F)) h)))).
  { rewrite <- E1. unfold recs_of_posts. apply in_map. apply filter_In. split; [exact Hin|].
    unfold post_active_b. rewrite Hk. reflexivity. }
  specialize (C1 _ Hr). unfold rkilled, rn, rkey, post_rec in C1. cbn in C1. rewrite Hk in C1.
  exact (C1 eq_refl).
Qed.

(** *** step_diagnostic_equals_delivered: for a complete run (all tracks
    dead at the end) StepDiagnostic's histogram is the histogram of the number
    of delivered records per track. *)
Theorem step_diagnostic_equals_delivered : forall p nslots (h : list (list (linput F))) rows0 nb i j,
  has_det p = false -> s_event (p_sel p) = true -> s_particle (p_sel p) = true ->
  length rows0 = nslots ->
  Forall (fun inp => length inp = nslots) h ->
  NoDup (all_inits h) ->
  let steps := fst (loop_run (repeat None nslots) h) in
  Forall (fun st => st = None) (snd (loop_run (repeat None nslots) h)) ->
  stepdiag_run nb steps counts0 i j
  = hist_delivered nb (stream p (run_views is_zero p steps rows0)) i j.
Proof.
  intros p nslots h rows0 nb i j Hd He Hp Hl Hh Hnd steps Hfin.
  assert (Hwf : Forall (wf_step (length rows0)) steps).
  { rewrite Hl. apply loop_run_wf; [apply repeat_length|exact Hh]. }
  rewrite step_diagnostic_counts. unfold hist_delivered.
  rewrite (stream_keys p steps rows0 Hd He Hp Hwf).
  rewrite stepdiag_is_killed_hist by (intros b Hb; eapply loop_status; exact Hb).
  destruct (loop_run_core h (repeat None nslots)) as [E1 E2]. fold steps in E1. rewrite E1.
  assert (Hh' : Forall (fun inp => length inp = nslots) (map (map (@i_core F)) h)).
  { rewrite Forall_map. eapply Forall_impl; [|exact Hh]. intros inp. rewrite map_length. auto. }
  rewrite all_inits_core in Hnd.
  destruct (core_run_facts nslots _ Hh' Hnd) as (C1 & C2 & C3).
  apply killed_hist; auto. apply C3. rewrite <- E2.
  clear -Hfin. induction Hfin as [|st l Hst _ IH]; [reflexivity|]. subst st. exact IH.
Qed.

End Concrete.
Arguments post_key {F}.
Arguments post_rec {F}.
Arguments row_key {F}.
Arguments hist_delivered {F}.
Arguments recs_of_posts {F}.
