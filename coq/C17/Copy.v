(** * C17 — copy_steps into a REUSED DetectorStepOutput (executable model).

    Mirrors src/celeritas/user/DetectorSteps.cc with the output object as an
    input: [copy_steps_into prev p rows] is what [copy_steps(&output, state)]
    leaves in [output] when it contained [prev] before the call
      count_num_valid             [count_num_valid]
      assign_field                [assign_field_into]: not in use -> dst->clear();
                                  else dst->resize(size) ([vresize]: truncate or pad with
                                  value-initialised entries) and [*iter++ = src[tid]] over the
                                  slots with a valid detector ([overwrite])
    ([Gather.copy_steps] is the same routine on a fresh output.)  NO proofs here. *)
From Coq Require Import List ZArith Bool.
From Celer Require Import C17.Gather.
Import ListNotations.
Local Open Scope Z_scope.
Set Implicit Arguments.

(* std::vector<T>::resize(n) *)
Definition vresize {A} (d : A) (n : nat) (l : list A) : list A :=
  firstn n l ++ repeat d (n - length l).

(* auto iter = dst->begin(); for (...) *iter++ = v; *)
Fixpoint overwrite {A} (dst vals : list A) : list A :=
  match dst, vals with
  | _ :: dst', v :: vals' => v :: overwrite dst' vals'
  | _, [] => dst
  | [], _ :: _ => []
  end.

Section Copy.
Variable F : Type.
Variable fzero : F.

Definition count_num_valid (rows : list (row F)) : nat :=
  fold_left (fun n r => if det_valid r then S n else n) rows 0%nat.

Definition assign_field_into {A} (d : A) (size : nat) (in_use : bool) (f : row F -> A)
    (rows : list (row F)) (dst : list A) : list A :=
  if in_use
  then overwrite (vresize d size dst) (assign_field true f rows)
  else [].

Definition copy_point_into (size : nat) (s : psel) (f : row F -> point F) (rows : list (row F))
    (prev : det_point_output F) : det_point_output F :=
  {| o_time := assign_field_into fzero size (s_time s) (fun r => t_time (f r)) rows (o_time prev);
     o_pos := assign_field_into (vzero fzero) size (s_pos s) (fun r => t_pos (f r)) rows (o_pos prev);
     o_dir := assign_field_into (vzero fzero) size (s_dir s) (fun r => t_dir (f r)) rows (o_dir prev);
     o_energy := assign_field_into fzero size (s_energy s) (fun r => t_energy (f r)) rows (o_energy prev) |}.

Definition copy_steps_into (prev : det_output F) (p : params) (rows : list (row F)) : det_output F :=
  let s := p_sel p in
  let size := count_num_valid rows in
  {| o_detector := assign_field_into None size true (@r_det F) rows (o_detector prev);
     o_track := assign_field_into None size true (@r_track F) rows (o_track prev);
     o_pre := copy_point_into size (s_pre s) (@r_pre F) rows (o_pre prev);
     o_post := copy_point_into size (s_post s) (@r_post F) rows (o_post prev);
     o_event := assign_field_into (-1) size (s_event s) (@r_event F) rows (o_event prev);
     o_parent := assign_field_into (-1) size (s_parent s) (@r_parent F) rows (o_parent prev);
     o_nsteps := assign_field_into 0 size (s_nsteps s) (@r_nsteps F) rows (o_nsteps prev);
     o_steplen := assign_field_into fzero size (s_steplen s) (@r_steplen F) rows (o_steplen prev);
     o_particle := assign_field_into (-1) size (s_particle s) (@r_particle F) rows (o_particle prev);
     o_edep := assign_field_into fzero size (s_edep s) (@r_edep F) rows (o_edep prev) |}.

(* a default-constructed DetectorStepOutput *)
Definition det_point_output0 : det_point_output F :=
  {| o_time := []; o_pos := []; o_dir := []; o_energy := [] |}.
Definition det_output0 : det_output F :=
  {| o_detector := []; o_track := []; o_pre := det_point_output0; o_post := det_point_output0;
     o_event := []; o_parent := []; o_nsteps := []; o_steplen := []; o_particle := []; o_edep := [] |}.

(* DetectorStepOutput::size / operator bool, and what a HitProcessor-style callback scores:
   copy_steps(&steps_, state); if (steps_) score(steps_) *)
Definition det_output_size (o : det_output F) : nat := length (o_detector o).
Definition scored_hits (o : det_output F) : list (option Z * option Z) :=
  match o_detector o with
  | [] => []
  | _ => combine (o_detector o) (o_track o)
  end.

(* the seeded variant (NOT the code): return early when no slot has a detector *)
Definition copy_steps_into_early (prev : det_output F) (p : params) (rows : list (row F)) : det_output F :=
  match count_num_valid rows with
  | O => prev
  | _ => copy_steps_into prev p rows
  end.

End Copy.
