(** * C17 — concrete witnesses: the hypotheses of the theorems are satisfiable
    and the conclusions are not vacuous (F := Z, "is zero" := (0 =?)). *)
From Coq Require Import List ZArith Bool.
From Celer Require Import C17.Gather C17.GatherProofs.
Import ListNotations.
Local Open Scope Z_scope.

Definition w_inactive_pre : slot_pre Z :=
  {| a_status := Inactive; a_time := 0; a_pos := (0, 0, 0); a_dir := (0, 0, 0);
     a_outside := false; a_vol := -1; a_energy := 0 |}.
Definition w_inactive_post : slot_post Z :=
  {| b_status := Inactive; b_track := -1; b_event := -1; b_parent := -1; b_nsteps := 0;
     b_action := -1; b_steplen := 0; b_time := 0; b_pos := (0, 0, 0); b_dir := (0, 0, 0);
     b_outside := false; b_vol := -1; b_particle := -1; b_energy := 0; b_edep := 0 |}.
(* a killed track with zero deposit in volume 2 *)
Definition w_pre2 : slot_pre Z :=
  {| a_status := Alive; a_time := 0; a_pos := (7, 0, 0); a_dir := (1, 0, 0);
     a_outside := false; a_vol := 2; a_energy := 4 |}.
Definition w_post2 : slot_post Z :=
  {| b_status := Killed; b_track := 1; b_event := 0; b_parent := 0; b_nsteps := 3;
     b_action := 7; b_steplen := 2; b_time := 2; b_pos := (9, 0, 0); b_dir := (1, 0, 0);
     b_outside := false; b_vol := 2; b_particle := 1; b_energy := 0; b_edep := 0 |}.

(* detector map: volume 1 -> detector 0, volume 2 -> detector 1; non-zero filter on *)
Definition w_pdet : params :=
  {| p_sel := zsel_all; p_detector := [None; Some 0; Some 1]; p_nonzero := true |}.

Definition w_pres : list (slot_pre Z) := [zpre; w_inactive_pre; w_pre2].
Definition w_posts : list (slot_post Z) := [zpost; w_inactive_post; w_post2].
Definition w_rows : list (row Z) := [row0 0; row0 0; row0 0].
Definition w_steps : list (step Z) := [(w_pres, w_posts); (w_pres, w_posts)].

Example w_consistent : Forall2 consistent w_pres w_posts.
Proof. repeat constructor. Qed.

Example w_wf : Forall (wf_step (length w_rows)) w_steps.
Proof. repeat constructor. Qed.

Example w_no_errored : Forall (@no_errored Z) w_steps.
Proof. repeat constructor; discriminate. Qed.

(* unfiltered: slots 0 and 2 are delivered, slot 1 (inactive) is not *)
Example w_delivered_unfiltered :
  map fst (delivered zp (collector_step (Z.eqb 0) zp w_pres w_posts w_rows)) = [0%nat; 2%nat].
Proof. vm_compute. reflexivity. Qed.

(* detector map + non-zero filter: the zero-deposit step in slot 2 is dropped *)
Example w_delivered_filtered :
  map fst (delivered w_pdet (collector_step (Z.eqb 0) w_pdet w_pres w_posts w_rows)) = [0%nat].
Proof. vm_compute. reflexivity. Qed.

Example w_calo :
  tally_list 2 (calo_run Z.add (run_views (Z.eqb 0) w_pdet w_steps w_rows) (tally0 0)) = [2; 0].
Proof. vm_compute. reflexivity. Qed.

Example w_action_counts :
  action_run false w_steps counts0 0 5 = 2 /\ action_run false w_steps counts0 1 7 = 2.
Proof. vm_compute. split; reflexivity. Qed.

Example w_stepdiag : stepdiag_run 4 w_steps counts0 1 3 = 2.
Proof. vm_compute. reflexivity. Qed.

Example w_stricter : stricter (Z.eqb 0) zp w_pdet.
Proof. apply stricter_no_detectors. reflexivity. Qed.

Example w_copy_steps :
  o_track (copy_steps w_pdet (collector_step (Z.eqb 0) w_pdet w_pres w_posts w_rows)) = [Some 0].
Proof. vm_compute. reflexivity. Qed.
