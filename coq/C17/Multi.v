(** * C17 — several step interfaces, several streams (executable model).

    Mirrors
      src/celeritas/user/StepData.hh           StepPointSelection / StepSelection
                                               [operator|=] ([psel_union], [sel_union]) and
                                               [operator bool] ([sel_any])
      src/celeritas/user/detail/StepParams.cc  constructor: loop over the callbacks
                                               ([build_step], [build_loop], [step_params_build]);
                                               the three CELER_VALIDATEs are the error values
      src/corecel/data/StreamStore.hh          per-stream states, [accumulate_over_streams]
                                               ([stream_views], [merge_tally], [merge_counts])
      src/celeritas/user/SimpleCalo.cc         process_steps (state of [state.stream_id]),
                                               calc_total_energy_deposition ([calo_total])
      src/celeritas/user/ActionDiagnostic.cc / StepDiagnostic.cc
                                               step (state of [state.stream_id()]),
                                               calc_actions / calc_steps ([counts_total])
    NO proofs in this file (see MultiProofs.v). *)
From Coq Require Import List ZArith Bool.
From Celer Require Import C17.Gather.
Import ListNotations.
Local Open Scope Z_scope.
Set Implicit Arguments.

(** ** Selections *)

(* StepPointSelection::operator|= *)
Definition psel_union (a b : psel) : psel :=
  {| s_time := s_time a || s_time b; s_pos := s_pos a || s_pos b; s_dir := s_dir a || s_dir b;
     s_vol := s_vol a || s_vol b; s_energy := s_energy a || s_energy b |}.

(* StepSelection::operator|= *)
Definition sel_union (a b : selection) : selection :=
  {| s_pre := psel_union (s_pre a) (s_pre b); s_post := psel_union (s_post a) (s_post b);
     s_event := s_event a || s_event b; s_parent := s_parent a || s_parent b;
     s_nsteps := s_nsteps a || s_nsteps b; s_action := s_action a || s_action b;
     s_steplen := s_steplen a || s_steplen b; s_particle := s_particle a || s_particle b;
     s_edep := s_edep a || s_edep b |}.

(* value-initialised StepSelection *)
Definition psel_none : psel :=
  {| s_time := false; s_pos := false; s_dir := false; s_vol := false; s_energy := false |}.
Definition sel_none : selection :=
  {| s_pre := psel_none; s_post := psel_none; s_event := false; s_parent := false;
     s_nsteps := false; s_action := false; s_steplen := false; s_particle := false;
     s_edep := false |}.

(* StepSelection::operator bool *)
Definition sel_any (s : selection) : bool :=
  psel_any (s_pre s) || psel_any (s_post s) || s_event s || s_parent s || s_nsteps s
  || s_action s || s_steplen s || s_particle s || s_edep s.

(** ** StepInterface: selection() and filters() *)

Record iface := {
  f_sel : selection;
  f_det : list (Z * Z);     (* Filters::detectors, a std::map volume -> detector (unique keys) *)
  f_nonzero : bool }.       (* Filters::nonzero_energy_deposition *)

Inductive build_error :=
| ErrNoData              (* "step interface doesn't collect any data" *)
| ErrDuplicateVolume     (* "multiple step interfaces map single volume to a detector" *)
| ErrMixedDetectors.     (* "inconsistent step callbacks: mixing those with detectors and those without" *)

Inductive has_detectors := HdUnknown | HdNone | HdAll.

Definition hd_eqb (a b : has_detectors) : bool :=
  match a, b with
  | HdUnknown, HdUnknown | HdNone, HdNone | HdAll, HdAll => true
  | _, _ => false
  end.

(* std::map::find *)
Fixpoint map_find (m : list (Z * Z)) (v : Z) : option Z :=
  match m with
  | [] => None
  | (v', d) :: m' => if v' =? v then Some d else map_find m' v
  end.

(* detector_map.insert(kv) for every kv of one interface; None = an insert reported a clash *)
Fixpoint insert_all (kvs : list (Z * Z)) (m : list (Z * Z)) : option (list (Z * Z)) :=
  match kvs with
  | [] => Some m
  | (v, d) :: kvs' =>
      match map_find m v with
      | Some _ => None
      | None => insert_all kvs' ((v, d) :: m)
      end
  end.

(* the local variables of the constructor's loop *)
Record bacc := {
  c_sel : selection;
  c_map : list (Z * Z);
  c_nz : bool;
  c_hd : has_detectors }.

Definition bacc0 : bacc :=
  {| c_sel := sel_none; c_map := []; c_nz := true; c_hd := HdUnknown |}.

(* one pass through the body of "for (SPStepInterface const& sp_interface : callbacks)" *)
Definition build_step (a : bacc) (f : iface) : build_error + bacc :=
  if negb (sel_any (f_sel f)) then inl ErrNoData
  else
    let sel := sel_union (c_sel a) (f_sel f) in
    match insert_all (f_det f) (c_map a) with
    | None => inl ErrDuplicateVolume
    | Some m =>
        let nz := c_nz a && f_nonzero f in
        let this := match f_det f with [] => HdNone | _ => HdAll end in
        let hd := match c_hd a with HdUnknown => this | x => x end in
        if hd_eqb this hd
        then inr {| c_sel := sel; c_map := m; c_nz := nz; c_hd := hd |}
        else inl ErrMixedDetectors
    end.

Fixpoint build_loop (a : bacc) (fs : list iface) : build_error + bacc :=
  match fs with
  | [] => inr a
  | f :: fs' =>
      match build_step a f with
      | inl e => inl e
      | inr a' => build_loop a' fs'
      end
  end.

(* temp_det(geo.volumes().size(), DetectorId{}); temp_det[kv.first] = kv.second *)
Definition temp_det (nvol : nat) (m : list (Z * Z)) : list (option Z) :=
  map (fun v => map_find m (Z.of_nat v)) (seq 0 nvol).

(* StepParams::StepParams: the combined StepParamsData *)
Definition step_params_build (nvol : nat) (fs : list iface) : build_error + params :=
  match build_loop bacc0 fs with
  | inl e => inl e
  | inr a =>
      inr {| p_sel := c_sel a;
             p_detector := match c_map a with [] => [] | _ => temp_det nvol (c_map a) end;
             p_nonzero := match c_map a with [] => false | _ => c_nz a end |}
  end.

(* the same parameters with a callback's own selection: what that callback asked to read *)
Definition with_sel (p : params) (s : selection) : params :=
  {| p_sel := s; p_detector := p_detector p; p_nonzero := p_nonzero p |}.

(** ** Streams *)
Section Streams.
Variable F : Type.
Variable fzero : F.
Variable fadd : F -> F -> F.

(* the calls that reach the state of stream [s] (StreamStore::state(stream_id, size)), in order *)
Definition stream_calls {A} (calls : list (nat * A)) (s : nat) : list A :=
  map snd (filter (fun c => Nat.eqb (fst c) s) calls).

(* accumulate_over_streams: result starts at zero; for s = 0 .. n-1: result[i] += data_s[i] *)
Definition merge_tally (ts : list (tally F)) : tally F :=
  fold_left (fun acc t => fun d => fadd (acc d) (t d)) ts (tally0 fzero).
Definition merge_counts (cs : list counts) : counts :=
  fold_left (fun acc c => fun i j => acc i j + c i j) cs counts0.

(* SimpleCalo with [n] streams: process_steps calls tagged with their stream id *)
Definition calo_total (n : nat) (calls : list (nat * list (row F))) : tally F :=
  merge_tally (map (fun s => calo_run fadd (stream_calls calls s) (tally0 fzero)) (seq 0 n)).

(* ActionDiagnostic / StepDiagnostic with [n] streams; [accum] is the per-call executor sweep *)
Definition counts_run (accum : list (slot_post F) -> counts -> counts)
    (posts : list (list (slot_post F))) : counts :=
  fold_left (fun c ps => accum ps c) posts counts0.
Definition counts_total (accum : list (slot_post F) -> counts -> counts) (n : nat)
    (calls : list (nat * list (slot_post F))) : counts :=
  merge_counts (map (fun s => counts_run accum (stream_calls calls s)) (seq 0 n)).

End Streams.
