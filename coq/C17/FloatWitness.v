(** * C17 — binary64 witness: with floating-point addition the merged
    calorimeter tally DOES depend on which stream each step was processed on
    (same records, two stream assignments, different totals).  This is why
    [calo_total_assignment_independent] needs an associative-commutative
    addition, while [calo_total_exact] holds for any addition. *)
From Coq Require Import List ZArith Bool Floats.
From Celer Require Import C17.Gather C17.GatherProofs C17.Multi C17.MultiProofs.
Import ListNotations.

Definition frow (d : Z) (e : float) : row float :=
  {| r_track := Some 0%Z; r_det := Some d; r_event := 0%Z; r_parent := (-1)%Z; r_nsteps := 1%Z;
     r_action := 0%Z; r_steplen := 0%float; r_particle := 0%Z; r_edep := e;
     r_pre := point0 0%float; r_post := point0 0%float |}.

(* three delivered records for detector 0: 1e16, 1, 1 *)
Definition fv_big := [frow 0 1e16%float].
Definition fv_one := [frow 0 1%float].

Definition fcalls_a : list (nat * list (row float)) := [(0%nat, fv_big); (0%nat, fv_one); (1%nat, fv_one)].
Definition fcalls_b : list (nat * list (row float)) := [(0%nat, fv_big); (1%nat, fv_one); (1%nat, fv_one)].

Theorem calo_total_float_depends_on_assignment :
  exists (calls calls' : list (nat * list (row float))) (d : Z),
    Forall (fun c => (fst c < 2)%nat) calls /\ Forall (fun c => (fst c < 2)%nat) calls' /\
    concat (map snd calls) = concat (map snd calls') /\
    PrimFloat.eqb (calo_total 0%float PrimFloat.add 2 calls d)
                  (calo_total 0%float PrimFloat.add 2 calls' d) = false.
Proof.
  exists fcalls_a, fcalls_b, 0%Z.
  split; [repeat constructor|]. split; [repeat constructor|]. split; [reflexivity|].
  vm_compute. reflexivity.
Qed.

(* the two totals: 1e16 + 1 rounds back to 1e16, then + 1 again; versus 1e16 + (1 + 1) *)
Example calo_total_float_values :
  (@eq float (calo_total 0%float PrimFloat.add 2 fcalls_a 0%Z) (1e16)%float) /\
  (@eq float (calo_total 0%float PrimFloat.add 2 fcalls_b 0%Z) (10000000000000002)%float).
Proof. vm_compute. split; reflexivity. Qed.
