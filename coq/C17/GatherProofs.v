(** * C17 — proofs about the gather model (coq/C17/Gather.v). *)
From Coq Require Import List ZArith Bool Lia.
From Celer Require Import C17.Gather.
Import ListNotations.
Local Open Scope Z_scope.

Section Proofs.
Variable F : Type.
Variable fzero : F.
Variable is_zero : F -> bool.

Notation slot_pre := (slot_pre F).
Notation slot_post := (slot_post F).
Notation row := (row F).

(** A slot is occupied at the pre-step point iff it is at the post-step point
    (tracks are initialised before [pre] and vacated at [end]). *)
Definition consistent (a : slot_pre) (b : slot_post) : Prop :=
  is_inactive (a_status a) = is_inactive (b_status b).

(* one slot through both gather actions *)
Definition gather_slot (p : params) (a : slot_pre) (b : slot_post) (r : row) : row :=
  gather_post is_zero p b (if has_pre_action p then gather_pre p a r else r).

Fixpoint map3 {A B C D} (f : A -> B -> C -> D) (la : list A) (lb : list B) (lc : list C) : list D :=
  match la, lb, lc with
  | a :: la', b :: lb', c :: lc' => f a b c :: map3 f la' lb' lc'
  | _, _, _ => []
  end.

Lemma map2_length : forall A B C (f : A -> B -> C) la lb,
  length la = length lb -> length (map2 f la lb) = length lb.
Proof.
  induction la as [|a la IH]; destruct lb as [|b lb]; simpl; intros Hl; try discriminate; auto.
Qed.

Lemma collector_step_map3 : forall p pres posts rows,
  length pres = length rows -> length posts = length rows ->
  collector_step is_zero p pres posts rows = map3 (gather_slot p) pres posts rows.
Proof.
  intros p pres posts rows. unfold collector_step, gather_post_all, gather_pre_all, gather_slot.
  destruct (has_pre_action p).
  - revert posts rows. induction pres as [|a pres IH]; intros [|b posts] [|r rows] H1 H2;
      simpl in *; try discriminate; auto.
    f_equal. apply IH; lia.
  - revert posts rows. induction pres as [|a pres IH]; intros [|b posts] [|r rows] H1 H2;
      simpl in *; try discriminate; auto.
    f_equal. apply IH; lia.
Qed.

Lemma collector_step_length : forall p pres posts rows,
  length pres = length rows -> length posts = length rows ->
  length (collector_step is_zero p pres posts rows) = length rows.
Proof.
  intros p pres posts rows H1 H2. unfold collector_step, gather_post_all.
  rewrite map2_length.
  - destruct (has_pre_action p); auto. unfold gather_pre_all. apply map2_length; auto.
  - destruct (has_pre_action p); auto. unfold gather_pre_all. rewrite map2_length; auto.
Qed.

(** ** Per-slot facts *)

Lemma psel_any_false : forall s, psel_any s = false ->
  s_time s = false /\ s_pos s = false /\ s_dir s = false /\ s_vol s = false /\ s_energy s = false.
Proof.
  intros s H. unfold psel_any in H.
  repeat match goal with H : _ || _ = false |- _ => apply orb_false_elim in H; destruct H end.
  auto.
Qed.

Lemma no_pre_action : forall p, has_pre_action p = false ->
  has_det p = false /\ psel_any (s_pre (p_sel p)) = false.
Proof.
  intros p H. unfold has_pre_action in H. apply orb_false_elim in H. tauto.
Qed.

Lemma slot_valid : forall p a b r, consistent a b ->
  row_valid p (gather_slot p a b r) = step_active (a, b) && keep is_zero p (a, b).
Proof.
  intros p a b r Hc. unfold consistent in Hc.
  unfold gather_slot, gather_post, gather_pre, row_valid, step_active, keep, keep_det, keep_nonzero.
  simpl fst; simpl snd.
  destruct (is_inactive (b_status b)) eqn:Hb; rewrite Hc.
  - (* inactive *)
    destruct (has_pre_action p); destruct (has_det p); reflexivity.
  - destruct (has_pre_action p) eqn:Hpa.
    + destruct (has_det p) eqn:Hd; simpl.
      * destruct (det_lookup p (a_vol a)) as [d|] eqn:Hl; simpl.
        -- destruct (p_nonzero p); simpl; [destruct (is_zero (b_edep b))|]; reflexivity.
        -- reflexivity.
      * reflexivity.
    + destruct (no_pre_action p Hpa) as [Hd _]. rewrite Hd. reflexivity.
Qed.

Lemma pick_pick : forall A s (x old d : A), pick s (pick s x old) d = pick s x d.
Proof. intros A [|] x old d; reflexivity. Qed.

Lemma mask_point_write : forall s time pos dir vol energy old,
  mask_point fzero s (write_point s time pos dir vol energy old)
  = write_point s time pos dir vol energy (point0 fzero).
Proof.
  intros s time pos dir vol energy old. unfold mask_point, write_point. simpl.
  rewrite !pick_pick. reflexivity.
Qed.

Lemma mask_point_unselected : forall s t, psel_any s = false ->
  mask_point fzero s t = point0 fzero.
Proof.
  intros s t H. destruct (psel_any_false s H) as (H1 & H2 & H3 & H4 & H5).
  unfold mask_point, write_point. rewrite H1, H2, H3, H4, H5. reflexivity.
Qed.

Lemma slot_mask : forall p a b r, consistent a b ->
  step_active (a, b) && keep is_zero p (a, b) = true ->
  mask fzero p (gather_slot p a b r) = mask fzero p (ideal p (a, b)).
Proof.
  intros p a b r Hc Hk. unfold consistent in Hc.
  unfold step_active, keep, keep_det, keep_nonzero in Hk. simpl fst in Hk; simpl snd in Hk.
  destruct (is_inactive (b_status b)) eqn:Hb; [discriminate|]. simpl in Hk.
  unfold gather_slot, gather_post, gather_pre. rewrite Hb, Hc.
  destruct (has_pre_action p) eqn:Hpa.
  - destruct (has_det p) eqn:Hd; simpl in Hk |- *.
    + destruct (det_lookup p (a_vol a)) as [d|] eqn:Hl; [|discriminate]. simpl in Hk |- *.
      assert (Hz : p_nonzero p && is_zero (b_edep b) = false).
      { destruct (p_nonzero p && is_zero (b_edep b)); [discriminate|reflexivity]. }
      rewrite Hz. unfold mask, ideal, write_post, write_pre. simpl. rewrite Hd.
      rewrite !pick_pick, !mask_point_write. unfold mask_point. simpl. reflexivity.
    + unfold mask, ideal, write_post, write_pre. simpl. rewrite Hd.
      rewrite !pick_pick, !mask_point_write. unfold mask_point. simpl. reflexivity.
  - destruct (no_pre_action p Hpa) as [Hd Hs]. rewrite Hd. simpl.
    unfold mask, ideal, write_post. simpl. rewrite Hd.
    rewrite !pick_pick, !mask_point_write, !(mask_point_unselected _ _ Hs).
    unfold mask_point. simpl. reflexivity.
Qed.

(* with a detector map, a row with a detector id belongs to an active slot *)
Lemma slot_det_track : forall p a b r, has_det p = true -> consistent a b ->
  is_some (r_det (gather_slot p a b r)) = true ->
  is_some (r_track (gather_slot p a b r)) = true.
Proof.
  intros p a b r Hd Hc. unfold consistent in Hc.
  unfold gather_slot, gather_post, gather_pre, has_pre_action. rewrite Hd, orb_true_r, Hc.
  destruct (is_inactive (b_status b)); simpl.
  - discriminate.
  - destruct (det_lookup p (a_vol a)); simpl.
    + destruct (p_nonzero p && is_zero (b_edep b)); simpl; auto.
    + discriminate.
Qed.

(** ** Lists of slots *)

Lemma gather_exact_from : forall p pres posts rows n,
  length pres = length rows -> length posts = length rows ->
  Forall2 consistent pres posts ->
  map (mask_snd fzero p)
      (filter (fun ir => row_valid p (snd ir))
              (indexed_from n (map3 (gather_slot p) pres posts rows)))
  = map (fun iab => (fst iab, mask fzero p (ideal p (snd iab))))
        (filter (fun iab => step_active (snd iab) && keep is_zero p (snd iab))
                (indexed_from n (combine pres posts))).
Proof.
  intros p pres. induction pres as [|a pres IH]; intros posts rows n H1 H2 Hc.
  - reflexivity.
  - destruct posts as [|b posts]; [inversion Hc|]. destruct rows as [|r rows]; [discriminate|].
    inversion Hc as [|? ? ? ? Hab Hrest]; subst. simpl in H1, H2.
    cbn [map3 combine indexed_from filter snd].
    rewrite (slot_valid p a b r Hab).
    destruct (step_active (a, b) && keep is_zero p (a, b)) eqn:Hk.
    + cbn [map]. f_equal.
      * unfold mask_snd. cbn [fst snd]. f_equal. apply slot_mask; assumption.
      * apply IH; auto; lia.
    + apply IH; auto; lia.
Qed.

(** *** gather_exact: what the callbacks may read after one loop iteration is
    exactly one record per active slot that passes the declared filters, with
    every selected field equal to the track state at its step point. *)
Theorem gather_exact : forall p pres posts rows,
  length pres = length rows -> length posts = length rows ->
  Forall2 consistent pres posts ->
  map (mask_snd fzero p) (delivered p (collector_step is_zero p pres posts rows))
  = expected fzero is_zero p pres posts.
Proof.
  intros p pres posts rows H1 H2 Hc. unfold delivered, expected, indexed.
  rewrite collector_step_map3 by assumption. apply gather_exact_from; assumption.
Qed.

(** ** Index bookkeeping: exactly once / never *)

Lemma in_indexed_from : forall A (l : list A) n i x,
  In (i, x) (indexed_from n l) <-> (n <= i)%nat /\ nth_error l (i - n) = Some x.
Proof.
  induction l as [|y l IH]; intros n i x; simpl.
  - split; [tauto|]. intros [_ H]. destruct (i - n)%nat; discriminate.
  - rewrite IH. split.
    + intros [H|[H1 H2]].
      * inversion H; subst. split; [lia|]. replace (i - i)%nat with 0%nat by lia. reflexivity.
      * split; [lia|]. replace (i - n)%nat with (S (i - S n)) by lia. exact H2.
    + intros [H1 H2]. destruct (Nat.eq_dec i n) as [->|Hne].
      * left. replace (n - n)%nat with 0%nat in H2 by lia. simpl in H2. congruence.
      * right. split; [lia|]. replace (i - n)%nat with (S (i - S n)) in H2 by lia. exact H2.
Qed.

Lemma indexed_from_fst_lt : forall A (l : list A) n i,
  In i (map fst (indexed_from n l)) -> (n <= i)%nat.
Proof.
  induction l as [|y l IH]; intros n i; simpl; [tauto|].
  intros [H|H]; [lia|]. apply IH in H. lia.
Qed.

Lemma indexed_from_nodup : forall A (l : list A) n, NoDup (map fst (indexed_from n l)).
Proof.
  induction l as [|y l IH]; intros n; simpl; constructor; auto.
  intros H. apply indexed_from_fst_lt in H. lia.
Qed.

Lemma nodup_map_filter : forall A B (f : A -> B) g (l : list A),
  NoDup (map f l) -> NoDup (map f (filter g l)).
Proof.
  induction l as [|x l IH]; simpl; intros H; [constructor|].
  inversion H; subst. destruct (g x); simpl; auto. constructor; auto.
  intros Hin. apply in_map_iff in Hin. destruct Hin as (y & Hy & Hin).
  apply filter_In in Hin. destruct Hin as [Hin _]. apply H2. rewrite <- Hy. apply in_map. exact Hin.
Qed.

Theorem delivered_slots_nodup : forall p (rows : list row),
  NoDup (map fst (delivered p rows)).
Proof.
  intros p rows. unfold delivered, indexed. apply nodup_map_filter, indexed_from_nodup.
Qed.

Lemma map_fst_mask_snd : forall p (l : list (nat * row)),
  map fst (map (mask_snd fzero p) l) = map fst l.
Proof. intros p l. rewrite map_map. reflexivity. Qed.

(* the delivered slot numbers are those of the active slots passing the filters *)
Theorem gather_exact_slots : forall p pres posts rows,
  length pres = length rows -> length posts = length rows ->
  Forall2 consistent pres posts ->
  map fst (delivered p (collector_step is_zero p pres posts rows))
  = map fst (filter (fun iab => step_active (snd iab) && keep is_zero p (snd iab))
                    (indexed (combine pres posts))).
Proof.
  intros p pres posts rows H1 H2 Hc.
  rewrite <- (map_fst_mask_snd p), (gather_exact p pres posts rows H1 H2 Hc).
  unfold expected. rewrite map_map. reflexivity.
Qed.

Theorem delivered_slot_iff : forall p pres posts rows i,
  length pres = length rows -> length posts = length rows ->
  Forall2 consistent pres posts ->
  (In i (map fst (delivered p (collector_step is_zero p pres posts rows)))
   <-> exists ab, nth_error (combine pres posts) i = Some ab
                  /\ step_active ab = true /\ keep is_zero p ab = true).
Proof.
  intros p pres posts rows i H1 H2 Hc. rewrite gather_exact_slots by assumption.
  rewrite in_map_iff. split.
  - intros ([i' ab] & Hi & Hin). simpl in Hi. subst i'. apply filter_In in Hin.
    destruct Hin as [Hin Hk]. unfold indexed in Hin. apply in_indexed_from in Hin.
    destruct Hin as [_ Hn]. rewrite Nat.sub_0_r in Hn. simpl in Hk.
    apply andb_true_iff in Hk. exists ab. tauto.
  - intros (ab & Hn & Ha & Hk). exists (i, ab). split; [reflexivity|].
    apply filter_In. split.
    + unfold indexed. apply in_indexed_from. rewrite Nat.sub_0_r. split; [lia|assumption].
    + simpl. rewrite Ha, Hk. reflexivity.
Qed.

(* each active slot that passes the filters is delivered exactly once *)
Theorem active_slot_exactly_once : forall p pres posts rows i ab,
  length pres = length rows -> length posts = length rows ->
  Forall2 consistent pres posts ->
  nth_error (combine pres posts) i = Some ab ->
  step_active ab = true -> keep is_zero p ab = true ->
  count_occ Nat.eq_dec (map fst (delivered p (collector_step is_zero p pres posts rows))) i = 1%nat.
Proof.
  intros p pres posts rows i ab H1 H2 Hc Hn Ha Hk.
  apply NoDup_count_occ'; [apply delivered_slots_nodup|].
  apply delivered_slot_iff; auto. exists ab. tauto.
Qed.

(* inactive slots are never delivered *)
Theorem inactive_slot_never : forall p pres posts rows i ab,
  length pres = length rows -> length posts = length rows ->
  Forall2 consistent pres posts ->
  nth_error (combine pres posts) i = Some ab ->
  step_active ab = false ->
  ~ In i (map fst (delivered p (collector_step is_zero p pres posts rows))).
Proof.
  intros p pres posts rows i ab H1 H2 Hc Hn Ha Hin.
  apply delivered_slot_iff in Hin; auto. destruct Hin as (ab' & Hn' & Ha' & _).
  congruence.
Qed.


(** ** all_callbacks_same_view *)

Theorem all_callbacks_same_view : forall A (cbs : list (list row -> A -> A)) view accs i cb acc,
  nth_error cbs i = Some cb -> nth_error accs i = Some acc ->
  nth_error (deliver cbs view accs) i = Some (cb view acc).
Proof.
  intros A cbs view. unfold deliver. induction cbs as [|c cbs IH]; intros accs i cb acc H1 H2.
  - destruct i; discriminate.
  - destruct accs as [|a accs]; [destruct i; discriminate|].
    destruct i as [|i]; simpl in *.
    + congruence.
    + apply IH; assumption.
Qed.

(** ** Stepping sequences *)

Definition wf_step (n : nat) (st : step F) : Prop :=
  length (fst st) = n /\ length (snd st) = n /\ Forall2 consistent (fst st) (snd st).

Lemma map_snd_filter_indexed_from : forall A (g : A -> bool) (l : list A) n,
  map snd (filter (fun ix => g (snd ix)) (indexed_from n l)) = filter g l.
Proof.
  induction l as [|x l IH]; intros n; simpl; auto.
  destruct (g x); simpl; rewrite IH; reflexivity.
Qed.

Lemma delivered_rows : forall p (rows : list row),
  map snd (delivered p rows) = filter (row_valid p) rows.
Proof. intros. unfold delivered, indexed. apply map_snd_filter_indexed_from. Qed.

Lemma map_snd_mask_snd : forall p (l : list (nat * row)),
  map snd (map (mask_snd fzero p) l) = map (mask fzero p) (map snd l).
Proof. intros p l. rewrite !map_map. reflexivity. Qed.

(* the steps that happened in one iteration, without slot numbers *)
Definition expected_rows (p : params) (st : step F) : list row :=
  map snd (expected fzero is_zero p (fst st) (snd st)).

(** the complete delivered stream of a run is the sequence of the steps that
    happened (active slots passing the filters, iteration by iteration, slot
    order inside an iteration) *)
Theorem stream_exact : forall p steps rows0,
  Forall (wf_step (length rows0)) steps ->
  map (mask fzero p) (stream p (run_views is_zero p steps rows0))
  = flat_map (expected_rows p) steps.
Proof.
  intros p steps. induction steps as [|[pres posts] steps IH]; intros rows0 Hwf.
  - reflexivity.
  - inversion Hwf as [|? ? Hst Hrest]; subst. destruct Hst as (H1 & H2 & Hc). simpl in H1, H2, Hc.
    cbn [run_views]. unfold stream. cbn [flat_map]. rewrite map_app. f_equal.
    + unfold expected_rows. cbn [fst snd].
      rewrite <- (gather_exact p pres posts rows0 H1 H2 Hc). rewrite map_snd_mask_snd. reflexivity.
    + apply IH. rewrite collector_step_length; assumption.
Qed.

Definition det_inv (r : row) : Prop := is_some (r_det r) = true -> is_some (r_track r) = true.

Lemma map3_det_inv : forall p pres posts rows, has_det p = true ->
  Forall2 consistent pres posts ->
  Forall det_inv (map3 (gather_slot p) pres posts rows).
Proof.
  intros p pres. induction pres as [|a pres IH]; intros [|b posts] [|r rows] Hd Hc;
    simpl; try constructor.
  - inversion Hc; subst. unfold det_inv. apply slot_det_track; assumption.
  - inversion Hc; subst. apply IH; assumption.
Qed.

Lemma run_views_det_inv : forall p steps rows0, has_det p = true ->
  Forall (wf_step (length rows0)) steps ->
  Forall (Forall det_inv) (run_views is_zero p steps rows0).
Proof.
  intros p steps. induction steps as [|[pres posts] steps IH]; intros rows0 Hd Hwf.
  - constructor.
  - inversion Hwf as [|? ? Hst Hrest]; subst. destruct Hst as (H1 & H2 & Hc). simpl in H1, H2, Hc.
    cbn [run_views]. constructor.
    + rewrite collector_step_map3 by assumption. apply map3_det_inv; assumption.
    + apply IH; auto. rewrite collector_step_length; assumption.
Qed.

(** ** ActionDiagnostic / StepDiagnostic *)

Definition countb {A} (g : A -> bool) (l : list A) : Z := Z.of_nat (length (filter g l)).

Lemma countb_app : forall A (g : A -> bool) l1 l2, countb g (l1 ++ l2) = countb g l1 + countb g l2.
Proof. intros. unfold countb. rewrite filter_app, app_length. lia. Qed.

Lemma countb_cons : forall A (g : A -> bool) x l,
  countb g (x :: l) = (if g x then 1 else 0) + countb g l.
Proof. intros. unfold countb. simpl. destruct (g x); simpl length; lia. Qed.

Definition act_is (i j : Z) (b : slot_post) : bool :=
  is_track_valid (b_status b) && (b_particle b =? i) && (b_action b =? j).

Lemma action_accum_spec : forall posts c i j,
  action_accum posts c i j = c i j + countb (act_is i j) posts.
Proof.
  induction posts as [|b posts IH]; intros c i j.
  - unfold countb. simpl. lia.
  - unfold action_accum in *. cbn [fold_left]. rewrite IH, countb_cons.
    unfold action_slot, act_is, counts_incr.
    destruct (is_track_valid (b_status b)); cbn [andb]; [|lia].
    rewrite (Z.eqb_sym i (b_particle b)), (Z.eqb_sym j (b_action b)).
    destruct (b_particle b =? i); cbn [andb]; [|lia].
    destruct (b_action b =? j); cbn [andb]; lia.
Qed.

Definition sd_is (nb i j : Z) (b : slot_post) : bool :=
  is_track_valid (b_status b) && is_killed (b_status b)
  && (b_particle b =? i) && (stepdiag_bin nb b =? j).

Lemma stepdiag_accum_spec : forall nb posts c i j,
  stepdiag_accum nb posts c i j = c i j + countb (sd_is nb i j) posts.
Proof.
  intros nb. induction posts as [|b posts IH]; intros c i j.
  - unfold countb. simpl. lia.
  - unfold stepdiag_accum in *. cbn [fold_left]. rewrite IH, countb_cons.
    unfold stepdiag_slot, sd_is, counts_incr.
    destruct (is_track_valid (b_status b) && is_killed (b_status b)); cbn [andb]; [|lia].
    rewrite (Z.eqb_sym i (b_particle b)), (Z.eqb_sym j (stepdiag_bin nb b)).
    destruct (b_particle b =? i); cbn [andb]; [|lia].
    destruct (stepdiag_bin nb b =? j); cbn [andb]; lia.
Qed.

(** step_diagnostic_counts: over any stepping sequence the (particle, bin)
    counter is the number of tracks killed with that particle type whose step
    count falls in the bin (last bin = overflow). *)
Theorem step_diagnostic_counts : forall nb (steps : list (step F)) i j,
  stepdiag_run nb steps counts0 i j = countb (sd_is nb i j) (flat_map snd steps).
Proof.
  intros nb steps i j.
  assert (G : forall c, stepdiag_run nb steps c i j = c i j + countb (sd_is nb i j) (flat_map snd steps)).
  { induction steps as [|st steps IH]; intros c.
    - unfold countb. simpl. lia.
    - unfold stepdiag_run in *. cbn [fold_left flat_map]. rewrite IH, countb_app, stepdiag_accum_spec. lia. }
  rewrite G. unfold counts0. lia.
Qed.

Lemma action_run_spec : forall (steps : list (step F)) skip n c i j,
  skip = false \/ n <> 1%nat ->
  Forall (fun st => length (snd st) = n) steps ->
  action_run skip steps c i j = c i j + countb (act_is i j) (flat_map snd steps).
Proof.
  intros steps skip n c i j Hn. revert c. induction steps as [|st steps IH]; intros c Hl.
  - unfold countb. simpl. lia.
  - inversion Hl as [|? ? Hs Hrest]; subst. unfold action_run in *. cbn [fold_left flat_map].
    rewrite IH by assumption. rewrite countb_app. unfold action_step.
    assert (E : skip && Nat.eqb (length (snd st)) 1 = false).
    { destruct Hn as [->|Hn]; [reflexivity|].
      destruct (Nat.eqb_spec (length (snd st)) 1) as [E|E]; [contradiction|apply andb_false_r]. }
    rewrite E, action_accum_spec. lia.
Qed.

Lemma countb_map : forall A B (f : A -> B) (g : B -> bool) l,
  countb g (map f l) = countb (fun x => g (f x)) l.
Proof.
  intros. induction l as [|x l IH]; [reflexivity|].
  cbn [map]. rewrite !countb_cons, IH. reflexivity.
Qed.

Lemma countb_ext_in : forall A (g h : A -> bool) l,
  (forall x, In x l -> g x = h x) -> countb g l = countb h l.
Proof.
  intros A g h l. induction l as [|x l IH]; intros H; [reflexivity|].
  rewrite !countb_cons, IH, (H x) by (intros; try apply H; simpl; auto). reflexivity.
Qed.

Lemma countb_flat_map : forall A B (f : A -> list B) (g : B -> bool) l,
  countb g (flat_map f l) = fold_right (fun x acc => countb g (f x) + acc) 0 l.
Proof.
  intros. induction l as [|x l IH]; [reflexivity|].
  cbn [flat_map fold_right]. rewrite countb_app, IH. reflexivity.
Qed.

Lemma countb_filter : forall A (g h : A -> bool) l,
  countb g (filter h l) = countb (fun x => h x && g x) l.
Proof.
  intros. induction l as [|x l IH]; [reflexivity|].
  cbn [filter]. rewrite countb_cons. destruct (h x); simpl; [rewrite countb_cons|]; rewrite IH; reflexivity.
Qed.

Lemma countb_combine_snd : forall A B (g : B -> bool) (la : list A) (lb : list B),
  length la = length lb ->
  countb (fun ab => g (snd ab)) (combine la lb) = countb g lb.
Proof.
  intros A B g la. induction la as [|a la IH]; intros [|b lb] Hl; simpl in Hl; try discriminate.
  - reflexivity.
  - cbn [combine]. rewrite !countb_cons. cbn [snd]. rewrite IH by lia. reflexivity.
Qed.

Definition rec_is (i j : Z) (r : row) : bool := (r_particle r =? i) && (r_action r =? j).

Lemma expected_rows_unfold : forall p st,
  expected_rows p st
  = map (fun ab => mask fzero p (ideal p ab))
        (filter (fun ab => step_active ab && keep is_zero p ab) (combine (fst st) (snd st))).
Proof.
  intros p st. unfold expected_rows, expected, indexed. rewrite map_map. cbn [snd].
  rewrite <- (map_snd_filter_indexed_from _ (fun ab => step_active ab && keep is_zero p ab)
                (combine (fst st) (snd st)) 0).
  rewrite map_map. reflexivity.
Qed.

Definition no_errored (st : step F) : Prop :=
  Forall (fun b => b_status b <> Errored) (snd st).

(** action_counts_are_counts: with an unfiltered collector that selects the
    particle and action ids, the ActionDiagnostic counter of (particle, action)
    after any stepping sequence is the number of delivered step records with
    these ids.  [skip = false] is the current code (diagnostic at [user_post]):
    the statement holds for every slot count.  [skip = true] is the old variant
    (diagnostic at [post], hit by the host single-slot shortcut): it needs more
    than one track slot (see [action_counts_single_slot_refuted]). *)
Theorem action_counts_are_counts_gen : forall skip p steps rows0 i j,
  has_det p = false -> s_particle (p_sel p) = true -> s_action (p_sel p) = true ->
  skip = false \/ length rows0 <> 1%nat ->
  Forall (wf_step (length rows0)) steps -> Forall no_errored steps ->
  action_run skip steps counts0 i j
  = countb (rec_is i j) (stream p (run_views is_zero p steps rows0)).
Proof.
  intros skip p steps rows0 i j Hd Hsp Hsa Hn Hwf Hne.
  rewrite (action_run_spec steps skip (length rows0)); auto.
  2:{ eapply Forall_impl; [|exact Hwf]. intros st (_ & H & _). exact H. }
  unfold counts0. rewrite Z.add_0_l.
  assert (Hm : countb (rec_is i j) (stream p (run_views is_zero p steps rows0))
               = countb (rec_is i j) (map (mask fzero p) (stream p (run_views is_zero p steps rows0)))).
  { rewrite countb_map. apply countb_ext_in. intros r _. unfold rec_is, mask. simpl.
    rewrite Hsp, Hsa. reflexivity. }
  rewrite Hm, stream_exact by assumption.
  rewrite !countb_flat_map. clear Hm Hn.
  induction steps as [|st steps IH]; [reflexivity|].
  inversion Hwf as [|? ? Hst Hrest]; subst. inversion Hne as [|? ? Hst' Hrest']; subst.
  cbn [fold_right]. rewrite IH by assumption. f_equal.
  destruct Hst as (H1 & H2 & Hc).
  rewrite expected_rows_unfold, countb_map, countb_filter.
  rewrite <- (countb_combine_snd _ _ (act_is i j) (fst st) (snd st)) by lia.
  apply countb_ext_in. intros [a b] Hin. cbn [snd].
  assert (Hb : In b (snd st)) by (eapply in_combine_r; exact Hin).
  unfold no_errored in Hst'. rewrite Forall_forall in Hst'. specialize (Hst' b Hb).
  unfold step_active, keep, keep_det, keep_nonzero, act_is, rec_is, mask, ideal. simpl.
  rewrite Hd, Hsp, Hsa. simpl.
  destruct (b_status b); simpl; try reflexivity; try contradiction; rewrite ?andb_true_r; reflexivity.
Qed.

Theorem action_counts_are_counts : forall p steps rows0 i j,
  has_det p = false -> s_particle (p_sel p) = true -> s_action (p_sel p) = true ->
  Forall (wf_step (length rows0)) steps -> Forall no_errored steps ->
  action_run false steps counts0 i j
  = countb (rec_is i j) (stream p (run_views is_zero p steps rows0)).
Proof. intros. apply action_counts_are_counts_gen; auto. Qed.

(** ** filters_monotone *)

(* [p'] filters at least as much as [p] *)
Definition stricter (p p' : params) : Prop :=
  forall ab : slot_pre * slot_post, keep is_zero p' ab = true -> keep is_zero p ab = true.

Lemma stricter_no_detectors : forall p p', has_det p = false -> stricter p p'.
Proof.
  intros p p' Hd ab _. unfold keep, keep_det, keep_nonzero. rewrite Hd. reflexivity.
Qed.

Lemma stricter_add_nonzero : forall sel det nz,
  stricter {| p_sel := sel; p_detector := det; p_nonzero := nz |}
           {| p_sel := sel; p_detector := det; p_nonzero := true |}.
Proof.
  intros sel det nz [a b]. unfold keep, keep_det, keep_nonzero, has_det, det_lookup. simpl.
  destruct det as [|d det]; simpl; auto.
  destruct nz; simpl; auto.
  intros H. apply andb_true_iff in H. destruct H as [H _]. rewrite H. reflexivity.
Qed.

(* removing volumes from a (non-empty) detector map *)
Lemma stricter_fewer_volumes : forall sel det det' nz,
  det <> [] -> det' <> [] ->
  (forall vol d, det_lookup {| p_sel := sel; p_detector := det'; p_nonzero := nz |} vol = Some d ->
                 is_some (det_lookup {| p_sel := sel; p_detector := det; p_nonzero := nz |} vol) = true) ->
  stricter {| p_sel := sel; p_detector := det; p_nonzero := nz |}
           {| p_sel := sel; p_detector := det'; p_nonzero := nz |}.
Proof.
  intros sel det det' nz Hn Hn' Hsub [a b]. unfold keep, keep_det, keep_nonzero, has_det. simpl.
  destruct det as [|d0 det]; [contradiction|]. destruct det' as [|d0' det']; [contradiction|]. simpl.
  intros H. apply andb_true_iff in H. destruct H as [H1 H2]. rewrite H2, andb_true_r.
  destruct (det_lookup {| p_sel := sel; p_detector := d0' :: det'; p_nonzero := nz |} (a_vol a)) as [d|] eqn:E;
    [|discriminate].
  apply (Hsub _ _ E).
Qed.

Definition clear_det (r : row) : row := set_det None r.

Lemma mask_ideal_clear_det : forall p p' ab, p_sel p = p_sel p' ->
  clear_det (mask fzero p (ideal p ab)) = clear_det (mask fzero p' (ideal p' ab)).
Proof.
  intros p p' [a b] Hs. unfold clear_det, set_det, mask, ideal. simpl. rewrite Hs. reflexivity.
Qed.

(** filters_monotone: adding a filter only removes records — every record
    delivered under the stricter parameters is delivered, for the same slot and
    with the same field values (the detector id aside), under the weaker ones. *)
Theorem filters_monotone : forall p p' pres posts i r',
  p_sel p = p_sel p' -> stricter p p' ->
  In (i, r') (expected fzero is_zero p' pres posts) ->
  exists r, In (i, r) (expected fzero is_zero p pres posts) /\ clear_det r = clear_det r'.
Proof.
  intros p p' pres posts i r' Hs Hst Hin. unfold expected in *.
  apply in_map_iff in Hin. destruct Hin as ([i' ab] & Heq & Hin). cbn [fst snd] in Heq.
  inversion Heq; subst i' r'. clear Heq.
  apply filter_In in Hin. destruct Hin as [Hin Hk]. cbn [snd] in Hk.
  apply andb_true_iff in Hk. destruct Hk as [Ha Hk].
  exists (mask fzero p (ideal p ab)). split.
  - apply in_map_iff. exists (i, ab). split; [reflexivity|].
    apply filter_In. split; [exact Hin|]. cbn [snd]. rewrite Ha, (Hst ab Hk). reflexivity.
  - apply mask_ideal_clear_det. exact Hs.
Qed.

(** ** DetectorSteps: copy_steps *)

Lemma assign_field_spec : forall A (in_use : bool) (f : row -> A) rows,
  assign_field in_use f rows = if in_use then map f (filter (@det_valid F) rows) else [].
Proof.
  intros A in_use f rows. unfold assign_field. destruct in_use; [|reflexivity].
  induction rows as [|r rows IH]; [reflexivity|].
  cbn [fold_right filter]. destruct (det_valid r); cbn [map]; rewrite IH; reflexivity.
Qed.

Definition opt_map {A} (b : bool) (f : row -> A) (l : list row) : list A :=
  if b then map f l else [].

(** detector_steps_compaction: every output array of copy_steps is the
    projection of the same list [kept] = the rows with a valid detector id, in
    slot order (nothing else dropped, nothing reordered); unselected arrays are
    empty. *)
Theorem detector_steps_compaction : forall p rows,
  let kept := filter (@det_valid F) rows in
  let s := p_sel p in
  let o := copy_steps p rows in
  Forall (fun r => is_some (r_det r) = true) kept /\
  o_detector o = map (@r_det F) kept /\ o_track o = map (@r_track F) kept /\
  o_event o = opt_map (s_event s) (@r_event F) kept /\
  o_parent o = opt_map (s_parent s) (@r_parent F) kept /\
  o_nsteps o = opt_map (s_nsteps s) (@r_nsteps F) kept /\
  o_steplen o = opt_map (s_steplen s) (@r_steplen F) kept /\
  o_particle o = opt_map (s_particle s) (@r_particle F) kept /\
  o_edep o = opt_map (s_edep s) (@r_edep F) kept /\
  o_time (o_pre o) = opt_map (s_time (s_pre s)) (fun r => t_time (r_pre r)) kept /\
  o_pos (o_pre o) = opt_map (s_pos (s_pre s)) (fun r => t_pos (r_pre r)) kept /\
  o_dir (o_pre o) = opt_map (s_dir (s_pre s)) (fun r => t_dir (r_pre r)) kept /\
  o_energy (o_pre o) = opt_map (s_energy (s_pre s)) (fun r => t_energy (r_pre r)) kept /\
  o_time (o_post o) = opt_map (s_time (s_post s)) (fun r => t_time (r_post r)) kept /\
  o_pos (o_post o) = opt_map (s_pos (s_post s)) (fun r => t_pos (r_post r)) kept /\
  o_dir (o_post o) = opt_map (s_dir (s_post s)) (fun r => t_dir (r_post r)) kept /\
  o_energy (o_post o) = opt_map (s_energy (s_post s)) (fun r => t_energy (r_post r)) kept.
Proof.
  intros p rows kept s o. split.
  - apply Forall_forall. intros r Hr. apply filter_In in Hr. exact (proj2 Hr).
  - subst o kept s. unfold copy_steps, copy_point, opt_map. rewrite !assign_field_spec.
    repeat split; reflexivity.
Qed.

End Proofs.
Arguments consistent {F}.
Arguments wf_step {F}.
Arguments det_inv {F}.
Arguments no_errored {F}.
Arguments expected_rows {F}.
Arguments rec_is {F}.
Arguments stricter {F}.
Arguments clear_det {F}.
Arguments act_is {F}.
Arguments sd_is {F}.
Arguments opt_map {F A}.
Arguments countb {A}.

(** ** Calorimeter (needs the addition on [F]) *)
Section Calo.
Variable F : Type.
Variable fzero : F.
Variable fadd : F -> F -> F.
Variable is_zero : F -> bool.
Notation row := (row F).

Definition det_is (d : Z) (r : row) : bool :=
  match r_det r with Some d' => d' =? d | None => false end.

Lemma calo_accum_spec : forall (view : list row) t d,
  calo_accum fadd view t d = fold_left fadd (map (@r_edep F) (filter (det_is d) view)) (t d).
Proof.
  induction view as [|r view IH]; intros t d; [reflexivity|].
  unfold calo_accum in *. cbn [fold_left filter]. rewrite IH.
  unfold calo_slot, det_is, tally_add. destruct (r_det r) as [d'|]; [|reflexivity].
  rewrite (Z.eqb_sym d d'). destruct (d' =? d); reflexivity.
Qed.

Lemma calo_run_spec : forall (views : list (list row)) t d,
  calo_run fadd views t d = fold_left fadd (map (@r_edep F) (filter (det_is d) (concat views))) (t d).
Proof.
  induction views as [|v views IH]; intros t d; [reflexivity|].
  unfold calo_run in *. cbn [fold_left concat]. rewrite IH, calo_accum_spec.
  rewrite filter_app, map_app, fold_left_app. reflexivity.
Qed.

Lemma filter_filter_implied : forall A (g h : A -> bool) l,
  Forall (fun x => g x = true -> h x = true) l -> filter g (filter h l) = filter g l.
Proof.
  intros A g h l. induction l as [|x l IH]; intros H; [reflexivity|].
  inversion H as [|? ? Hx Hl]; subst. cbn [filter].
  destruct (h x) eqn:Eh; cbn [filter]; rewrite IH by assumption; [reflexivity|].
  destruct (g x) eqn:Eg; [|reflexivity]. specialize (Hx eq_refl). discriminate.
Qed.

Lemma stream_det_filter : forall p (views : list (list row)) d, has_det p = true ->
  Forall (Forall (@det_inv F)) views ->
  filter (det_is d) (stream p views) = filter (det_is d) (concat views).
Proof.
  intros p views d Hd. induction views as [|v views IH]; intros H; [reflexivity|].
  inversion H as [|? ? Hv Hrest]; subst. unfold stream in *. cbn [flat_map concat].
  rewrite !filter_app, IH by assumption. f_equal.
  rewrite delivered_rows. apply filter_filter_implied.
  eapply Forall_impl; [|exact Hv]. intros r Hinv Hdet. unfold row_valid. rewrite Hd. simpl.
  unfold det_is in Hdet. unfold det_inv in Hinv.
  destruct (r_det r); [|discriminate]. simpl in *. rewrite Hinv; reflexivity.
Qed.

(** calo_is_sum_of_delivered: after any stepping sequence the tally of
    detector [d] is the left fold of the addition over the deposits of the
    delivered records with that detector id, in delivery order. *)
Theorem calo_is_sum_of_delivered : forall p steps rows0 d,
  has_det p = true ->
  Forall (wf_step (length rows0)) steps ->
  calo_run fadd (run_views is_zero p steps rows0) (tally0 fzero) d
  = fold_left fadd
      (map (@r_edep F) (filter (det_is d) (stream p (run_views is_zero p steps rows0)))) fzero.
Proof.
  intros p steps rows0 d Hd Hwf. rewrite calo_run_spec. unfold tally0.
  rewrite (stream_det_filter p _ d Hd); [reflexivity|].
  apply run_views_det_inv; assumption.
Qed.

Lemma map_filter_mask : forall p (l : list row) d,
  has_det p = true -> s_edep (p_sel p) = true ->
  map (@r_edep F) (filter (det_is d) (map (mask fzero p) l)) = map (@r_edep F) (filter (det_is d) l).
Proof.
  intros p l d Hd Hs. induction l as [|r l IH]; [reflexivity|].
  cbn [map filter].
  assert (E : det_is d (mask fzero p r) = det_is d r).
  { unfold det_is, mask. simpl. rewrite Hd. reflexivity. }
  rewrite E. destruct (det_is d r); cbn [map]; rewrite IH; [|reflexivity].
  f_equal. unfold mask. simpl. rewrite Hs. reflexivity.
Qed.

(** ... and therefore the fold over the deposits of the steps that happened
    (ground truth) inside detector [d] that pass the declared filters. *)
Theorem calo_is_sum_of_steps : forall p steps rows0 d,
  has_det p = true -> s_edep (p_sel p) = true ->
  Forall (wf_step (length rows0)) steps ->
  calo_run fadd (run_views is_zero p steps rows0) (tally0 fzero) d
  = fold_left fadd
      (map (@r_edep F) (filter (det_is d) (flat_map (expected_rows fzero is_zero p) steps))) fzero.
Proof.
  intros p steps rows0 d Hd Hs Hwf.
  rewrite (calo_is_sum_of_delivered p steps rows0 d Hd Hwf).
  rewrite <- (stream_exact _ fzero is_zero p steps rows0 Hwf).
  rewrite map_filter_mask by assumption. reflexivity.
Qed.

End Calo.
Arguments det_is {F}.

(** ** The single-slot defect of the OLD ActionDiagnostic (order [post]; repaired in the repo) *)
Section Refuted.
Local Open Scope Z_scope.

Definition zsel_all : selection :=
  let a := {| s_time := true; s_pos := true; s_dir := true; s_vol := true; s_energy := true |} in
  {| s_pre := a; s_post := a; s_event := true; s_parent := true; s_nsteps := true;
     s_action := true; s_steplen := true; s_particle := true; s_edep := true |}.
Definition zp : params := {| p_sel := zsel_all; p_detector := []; p_nonzero := false |}.
Definition zpre : slot_pre Z :=
  {| a_status := Alive; a_time := 0; a_pos := (0, 0, 0); a_dir := (1, 0, 0);
     a_outside := false; a_vol := 1; a_energy := 10 |}.
Definition zpost : slot_post Z :=
  {| b_status := Alive; b_track := 0; b_event := 0; b_parent := -1; b_nsteps := 1;
     b_action := 5; b_steplen := 3; b_time := 1; b_pos := (3, 0, 0); b_dir := (1, 0, 0);
     b_outside := false; b_vol := 1; b_particle := 0; b_energy := 9; b_edep := 1 |}.
Definition zsteps : list (step Z) := [([zpre], [zpost])].

(* with ONE track slot the action diagnostic misses the step that was delivered *)
Theorem action_counts_single_slot_refuted :
  exists (p : params) (steps : list (step Z)) (rows0 : list (row Z)) (i j : Z),
    has_det p = false /\ s_particle (p_sel p) = true /\ s_action (p_sel p) = true /\
    length rows0 = 1%nat /\
    Forall (wf_step (length rows0)) steps /\ Forall (@no_errored Z) steps /\
    action_run true steps counts0 i j
    <> countb (rec_is i j) (stream p (run_views (Z.eqb 0) p steps rows0)).
Proof.
  exists zp, zsteps, [row0 0], 0, 5. repeat split; try reflexivity.
  - repeat constructor.
  - repeat constructor; discriminate.
  - vm_compute. discriminate.
Qed.

End Refuted.
