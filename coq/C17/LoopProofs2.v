(** * C17 — the delivered [track_step_count] is the running count of the
    records delivered for the track (loop model composed with the gather model). *)
From Coq Require Import List ZArith Bool Lia.
From Celer Require Import C17.Gather C17.GatherProofs C17.Loop C17.LoopProofs.
Import ListNotations.
Local Open Scope Z_scope.

(* every record carries the number of records of its track up to and including itself *)
Definition running (acc : list lrec) : Prop :=
  forall R1 r R2, acc = R1 ++ r :: R2 -> rn r = Z.of_nat (c_all (rkey r) (R1 ++ [r])).

Lemma running_nil : running [].
Proof. intros R1 r R2 E. destruct R1; discriminate. Qed.

Lemma running_snoc : forall acc k n b,
  Z.of_nat (c_all k acc) = n -> running acc -> running (acc ++ [(k, n + 1, b)]).
Proof.
  intros acc k n b Hc Hr R1 r R2 E.
  destruct (@exists_last _ (r :: R2)) as (l' & y & El); [discriminate|].
  destruct R2 as [|r2 R2].
  - apply app_inj_tail in E. destruct E as [-> <-].
    rewrite c_all_snoc. unfold rn, rkey. cbn [fst snd].
    destruct (key_eq_dec k k); [|congruence]. rewrite Nat2Z.inj_add, Hc. reflexivity.
  - destruct (@exists_last _ (r2 :: R2)) as (l2 & y2 & E2); [discriminate|].
    rewrite E2 in E. change (R1 ++ r :: l2 ++ [y2]) with (R1 ++ (r :: l2) ++ [y2]) in E.
    rewrite app_assoc in E. apply app_inj_tail in E. destruct E as [E _].
    apply (Hr R1 r l2). exact E.
Qed.

Lemma inv_count_live : forall A t B acc fut,
  Inv (A ++ t :: B) acc fut -> Z.of_nat (c_all (k_key t) acc) = k_nsteps t.
Proof. intros A t B acc fut [Ha _ _ _]. apply Ha. apply in_or_app. simpl. auto. Qed.

Lemma running_slot : forall A B st i acc fut,
  Inv (A ++ olist st ++ B) acc (core_inits i ++ fut) -> running acc ->
  running (acc ++ olist (snd (core_slot st i))).
Proof.
  intros A B st [[oinit kill] osec] acc fut I Hr. unfold core_slot, core_inits in *.
  destruct st as [t|].
  - cbn [olist fst snd app sim_increment k_key k_nsteps] in *.
    apply running_snoc; [|exact Hr]. eapply inv_count_live. exact I.
  - destruct oinit as [k0|]; cbn [option_map olist fst snd app] in *.
    + apply inv_init in I. cbn [sim_increment sim_init k_key k_nsteps].
      apply running_snoc; [|exact Hr]. apply (inv_count_live _ _ _ _ _ I).
    + rewrite app_nil_r. exact Hr.
Qed.

Lemma iter_running : forall sigma inp A acc fut, length inp = length sigma ->
  Inv (A ++ lives sigma) acc (flat_map core_inits inp ++ fut) -> running acc ->
  running (acc ++ snd (core_iter sigma inp)).
Proof.
  induction sigma as [|st sigma IH]; intros [|i inp] A acc fut Hl I Hr; simpl in Hl; try discriminate.
  - simpl. rewrite app_nil_r. exact Hr.
  - cbn [core_iter fst snd lives flat_map] in *. fold (lives sigma) in I.
    rewrite <- app_assoc in I.
    pose proof (running_slot _ _ _ _ _ _ I Hr) as Hr'.
    apply slot_inv in I.
    rewrite (app_assoc acc).
    apply (IH inp (A ++ olist (fst (core_slot st i))) _ fut); [lia| |exact Hr'].
    rewrite <- app_assoc. exact I.
Qed.

Lemma run_running : forall h sigma acc nslots,
  length sigma = nslots -> Forall (fun inp => length inp = nslots) h ->
  Inv (lives sigma) acc (flat_map (flat_map core_inits) h) -> running acc ->
  running (acc ++ fst (core_run sigma h)).
Proof.
  induction h as [|inp h IH]; intros sigma acc nslots Hs Hh I Hr.
  - simpl. rewrite app_nil_r. exact Hr.
  - inversion Hh as [|? ? Hi Hrest]; subst. cbn [core_run fst snd flat_map] in *.
    rewrite app_assoc. apply (IH _ _ (length sigma)).
    + apply core_iter_length. exact Hi.
    + exact Hrest.
    + apply (iter_inv sigma inp [] acc); [exact Hi|exact I].
    + apply (iter_running sigma inp [] acc _ Hi I Hr).
Qed.

Theorem core_run_running : forall nslots h,
  Forall (fun inp => length inp = nslots) h ->
  NoDup (flat_map (flat_map core_inits) h) ->
  running (fst (core_run (repeat None nslots) h)).
Proof.
  intros nslots h Hh Hnd.
  pose proof (run_running h (repeat None nslots) [] nslots (repeat_length _ _) Hh) as G.
  rewrite lives_vacant in G. apply G; [apply inv_start; exact Hnd|apply running_nil].
Qed.

Section Concrete2.
Variable F : Type.
Variable fzero : F.
Variable is_zero : F -> bool.

Lemma stream_keys_nsteps : forall p (steps : list (step F)) rows0,
  has_det p = false -> s_event (p_sel p) = true -> s_particle (p_sel p) = true ->
  s_nsteps (p_sel p) = true ->
  Forall (wf_step (length rows0)) steps ->
  map (fun r => (row_key r, r_nsteps r)) (stream p (run_views is_zero p steps rows0))
  = map (fun r => (rkey r, rn r)) (recs_of_posts (flat_map snd steps)).
Proof.
  intros p steps rows0 Hd He Hp Hn Hwf.
  assert (Hm : map (fun r => (row_key r, r_nsteps r)) (stream p (run_views is_zero p steps rows0))
               = map (fun r => (row_key r, r_nsteps r))
                     (map (mask fzero p) (stream p (run_views is_zero p steps rows0)))).
  { rewrite map_map. apply map_ext. intros r. unfold row_key, mask. cbn. rewrite He, Hp, Hn. reflexivity. }
  rewrite Hm, (stream_exact F fzero is_zero p steps rows0 Hwf). clear Hm.
  unfold recs_of_posts. induction steps as [|st steps IH]; [reflexivity|].
  inversion Hwf as [|? ? Hst Hrest]; subst. destruct Hst as (H1 & H2 & Hc).
  cbn [flat_map]. rewrite filter_app, !map_app, IH by assumption. f_equal.
  rewrite expected_rows_unfold, !map_map.
  rewrite <- (map_snd_filter_combine _ _ (@post_active_b F) (fst st) (snd st)) by lia.
  rewrite map_map.
  assert (Hf : forall l : list (slot_pre F * slot_post F),
             filter (fun ab => step_active ab && keep is_zero p ab) l
             = filter (fun ab => post_active_b F (snd ab)) l).
  { intros l. apply filter_ext. intros [a b]. unfold step_active, keep, keep_det, keep_nonzero, post_active_b.
    cbn. rewrite Hd. cbn. rewrite andb_true_r. reflexivity. }
  rewrite Hf. apply map_ext. intros [a b].
  unfold row_key, mask, ideal, rkey, rn, post_rec, post_key. cbn. rewrite He, Hp, Hn. reflexivity.
Qed.

(** *** The delivered step count is the running count.  In every run of the
    loop model (unique ids, unfiltered collector selecting event, particle and
    track_step_count), the [track_step_count] of each delivered record equals the
    number of records delivered for that track up to and including it. *)
Theorem track_step_count_is_running_count : forall p nslots (h : list (list (linput F))) rows0 S1 r S2,
  has_det p = false -> s_event (p_sel p) = true -> s_particle (p_sel p) = true ->
  s_nsteps (p_sel p) = true ->
  length rows0 = nslots ->
  Forall (fun inp => length inp = nslots) h ->
  NoDup (all_inits h) ->
  let steps := fst (loop_run (repeat None nslots) h) in
  stream p (run_views is_zero p steps rows0) = S1 ++ r :: S2 ->
  r_nsteps r = Z.of_nat (cnt (row_key r) (map row_key (S1 ++ [r]))).
Proof.
  intros p nslots h rows0 S1 r S2 Hd He Hp Hn Hl Hh Hnd steps Es.
  assert (Hwf : Forall (wf_step (length rows0)) steps).
  { rewrite Hl. apply loop_run_wf; [apply repeat_length|exact Hh]. }
  pose proof (stream_keys_nsteps p steps rows0 Hd He Hp Hn Hwf) as Hk.
  destruct (loop_run_core F h (repeat None nslots)) as [E1 _]. fold steps in E1. rewrite E1 in Hk.
  assert (Hh' : Forall (fun inp => length inp = nslots) (map (map (@i_core F)) h)).
  { rewrite Forall_map. eapply Forall_impl; [|exact Hh]. intros inp. rewrite map_length. auto. }
  rewrite all_inits_core in Hnd.
  pose proof (core_run_running nslots _ Hh' Hnd) as Hrun.
  rewrite Es in Hk. symmetry in Hk. rewrite map_app in Hk. apply map_eq_app in Hk.
  destruct Hk as (R1 & R2' & ER & EM1 & EM2). symmetry in EM2. cbn [map] in EM2.
  destruct R2' as [|r' R2]; [discriminate|]. cbn [map] in EM2. inversion EM2 as [[Ek Enn EM3]].
  specialize (Hrun R1 r' R2 ER). rewrite Enn, Hrun. f_equal.
  unfold c_all. rewrite !map_app. cbn [map]. rewrite Ek. f_equal. f_equal.
  assert (G : forall (l1 : list (row F)) (l2 : list lrec),
             map (fun r => (rkey r, rn r)) l2 = map (fun r => (row_key r, r_nsteps r)) l1 ->
             map rkey l2 = map row_key l1).
  { induction l1 as [|x l1 IHl]; intros [|y l2] E; try discriminate; [reflexivity|].
    cbn [map] in *. inversion E. f_equal; auto. }
  apply G. exact EM1.
Qed.

End Concrete2.
