(** * C17 — several step interfaces at once, several streams: proofs. *)
From Coq Require Import List ZArith Bool Lia Permutation.
From Celer Require Import C17.Gather C17.GatherProofs C17.Multi.
Import ListNotations.
Local Open Scope Z_scope.

(** ** Selections: a callback's selection is below the combined one *)

(* [a] selects nothing that [b] does not select *)
Definition sel_le (a b : selection) : Prop := sel_union a b = b.

Lemma orb_absorb_pick : forall A (sa sb : bool) (x d : A),
  sa || sb = sb -> pick sa (pick sb x d) d = pick sa x d.
Proof. intros A [|] [|] x d H; simpl in *; try reflexivity; discriminate. Qed.

Lemma sel_le_fields : forall a b, sel_le a b ->
  (s_time (s_pre a) || s_time (s_pre b) = s_time (s_pre b)) /\
  (s_pos (s_pre a) || s_pos (s_pre b) = s_pos (s_pre b)) /\
  (s_dir (s_pre a) || s_dir (s_pre b) = s_dir (s_pre b)) /\
  (s_vol (s_pre a) || s_vol (s_pre b) = s_vol (s_pre b)) /\
  (s_energy (s_pre a) || s_energy (s_pre b) = s_energy (s_pre b)) /\
  (s_time (s_post a) || s_time (s_post b) = s_time (s_post b)) /\
  (s_pos (s_post a) || s_pos (s_post b) = s_pos (s_post b)) /\
  (s_dir (s_post a) || s_dir (s_post b) = s_dir (s_post b)) /\
  (s_vol (s_post a) || s_vol (s_post b) = s_vol (s_post b)) /\
  (s_energy (s_post a) || s_energy (s_post b) = s_energy (s_post b)) /\
  (s_event a || s_event b = s_event b) /\ (s_parent a || s_parent b = s_parent b) /\
  (s_nsteps a || s_nsteps b = s_nsteps b) /\ (s_action a || s_action b = s_action b) /\
  (s_steplen a || s_steplen b = s_steplen b) /\ (s_particle a || s_particle b = s_particle b) /\
  (s_edep a || s_edep b = s_edep b).
Proof.
  intros a b H. unfold sel_le in H.
  repeat split.
  - exact (f_equal (fun s => s_time (s_pre s)) H).
  - exact (f_equal (fun s => s_pos (s_pre s)) H).
  - exact (f_equal (fun s => s_dir (s_pre s)) H).
  - exact (f_equal (fun s => s_vol (s_pre s)) H).
  - exact (f_equal (fun s => s_energy (s_pre s)) H).
  - exact (f_equal (fun s => s_time (s_post s)) H).
  - exact (f_equal (fun s => s_pos (s_post s)) H).
  - exact (f_equal (fun s => s_dir (s_post s)) H).
  - exact (f_equal (fun s => s_vol (s_post s)) H).
  - exact (f_equal (fun s => s_energy (s_post s)) H).
  - exact (f_equal s_event H).
  - exact (f_equal s_parent H).
  - exact (f_equal s_nsteps H).
  - exact (f_equal s_action H).
  - exact (f_equal s_steplen H).
  - exact (f_equal s_particle H).
  - exact (f_equal s_edep H).
Qed.

Lemma sel_le_refl : forall a, sel_le a a.
Proof.
  intros [[a1 a2 a3 a4 a5] [a6 a7 a8 a9 a10] a11 a12 a13 a14 a15 a16 a17].
  unfold sel_le, sel_union, psel_union. cbn. rewrite !orb_diag. reflexivity.
Qed.

Lemma sel_union_assoc : forall a b c, sel_union (sel_union a b) c = sel_union a (sel_union b c).
Proof.
  intros a b c. unfold sel_union, psel_union. cbn. rewrite !orb_assoc. reflexivity.
Qed.

Lemma sel_union_idem : forall a, sel_union a a = a.
Proof. exact sel_le_refl. Qed.

Lemma sel_union_comm : forall a b, sel_union a b = sel_union b a.
Proof.
  intros a b. unfold sel_union, psel_union. cbn.
  rewrite (orb_comm (s_time (s_pre a))), (orb_comm (s_pos (s_pre a))), (orb_comm (s_dir (s_pre a))),
    (orb_comm (s_vol (s_pre a))), (orb_comm (s_energy (s_pre a))),
    (orb_comm (s_time (s_post a))), (orb_comm (s_pos (s_post a))), (orb_comm (s_dir (s_post a))),
    (orb_comm (s_vol (s_post a))), (orb_comm (s_energy (s_post a))),
    (orb_comm (s_event a)), (orb_comm (s_parent a)), (orb_comm (s_nsteps a)), (orb_comm (s_action a)),
    (orb_comm (s_steplen a)), (orb_comm (s_particle a)), (orb_comm (s_edep a)).
  reflexivity.
Qed.

Lemma sel_le_union_l : forall a b, sel_le a (sel_union a b).
Proof. intros a b. unfold sel_le. rewrite <- sel_union_assoc, sel_union_idem. reflexivity. Qed.

Lemma sel_le_union_r : forall a b, sel_le b (sel_union a b).
Proof.
  intros a b. unfold sel_le. rewrite (sel_union_comm a b), <- sel_union_assoc, sel_union_idem. reflexivity.
Qed.

Lemma sel_le_trans : forall a b c, sel_le a b -> sel_le b c -> sel_le a c.
Proof.
  unfold sel_le. intros a b c H1 H2. rewrite <- H2, <- sel_union_assoc, H1. reflexivity.
Qed.

Section Restrict.
Variable F : Type.
Variable fzero : F.
Variable is_zero : F -> bool.
Notation row := (row F).

(** restricting to a smaller selection after restricting to the combined one
    is restricting to the smaller one *)
Lemma mask_sub : forall p s (r : row), sel_le s (p_sel p) ->
  mask fzero (with_sel p s) (mask fzero p r) = mask fzero (with_sel p s) r.
Proof.
  intros p s r Hle. apply sel_le_fields in Hle.
  destruct Hle as (H1&H2&H3&H4&H5&H6&H7&H8&H9&H10&H11&H12&H13&H14&H15&H16&H17).
  unfold mask, mask_point, write_point, with_sel, has_det. cbn.
  rewrite !orb_absorb_pick by assumption.
  destruct (p_detector p); reflexivity.
Qed.

(** *** Every callback reads, within its own selection, exactly the steps that
    happened: one record per active slot passing the combined filters, each
    selected field equal to the track state at its step point. *)
Theorem callback_restricted_view : forall p s pres posts (rows : list row),
  sel_le s (p_sel p) ->
  length pres = length rows -> length posts = length rows ->
  Forall2 consistent pres posts ->
  map (mask_snd fzero (with_sel p s)) (delivered p (collector_step is_zero p pres posts rows))
  = map (fun iab => (fst iab, mask fzero (with_sel p s) (ideal p (snd iab))))
        (filter (fun iab => step_active (snd iab) && keep is_zero p (snd iab))
                (indexed (combine pres posts))).
Proof.
  intros p s pres posts rows Hle H1 H2 Hc.
  assert (E : map (mask_snd fzero (with_sel p s)) (delivered p (collector_step is_zero p pres posts rows))
              = map (mask_snd fzero (with_sel p s))
                    (map (mask_snd fzero p) (delivered p (collector_step is_zero p pres posts rows)))).
  { rewrite map_map. apply map_ext. intros [i r]. unfold mask_snd. cbn [fst snd].
    rewrite mask_sub by assumption. reflexivity. }
  rewrite E, (gather_exact F fzero is_zero p pres posts rows H1 H2 Hc).
  unfold expected. rewrite map_map. apply map_ext. intros [i ab]. unfold mask_snd. cbn [fst snd].
  rewrite mask_sub by assumption. reflexivity.
Qed.

End Restrict.

(** ** StepParams: invariants of the constructor's loop *)

Lemma map_find_in : forall m v d, map_find m v = Some d -> In (v, d) m.
Proof.
  induction m as [|[v' d'] m IH]; intros v d H; simpl in *; [discriminate|].
  destruct (Z.eqb_spec v' v) as [->|Hne].
  - inversion H; subst. auto.
  - right. apply IH. exact H.
Qed.

Lemma map_find_none : forall m v, map_find m v = None -> ~ In v (map fst m).
Proof.
  induction m as [|[v' d'] m IH]; intros v H; simpl in *; [tauto|].
  destruct (Z.eqb_spec v' v) as [->|Hne]; [discriminate|].
  intros [E|Hin]; [contradiction|]. exact (IH v H Hin).
Qed.

Lemma in_map_find : forall m v d, NoDup (map fst m) -> In (v, d) m -> map_find m v = Some d.
Proof.
  induction m as [|[v' d'] m IH]; intros v d Hnd Hin; simpl in *; [tauto|].
  inversion Hnd as [|? ? Hnotin Hnd']; subst.
  destruct Hin as [E|Hin].
  - inversion E; subst. rewrite Z.eqb_refl. reflexivity.
  - destruct (Z.eqb_spec v' v) as [->|Hne].
    + exfalso. apply Hnotin. change v with (fst (v, d)). apply in_map. exact Hin.
    + apply IH; assumption.
Qed.

(* a successful insert_all adds exactly the new pairs and keeps the keys unique *)
Lemma insert_all_spec : forall kvs m m', insert_all kvs m = Some m' ->
  NoDup (map fst m) ->
  NoDup (map fst m') /\ (forall v d, In (v, d) m' <-> In (v, d) m \/ In (v, d) kvs).
Proof.
  induction kvs as [|[v d] kvs IH]; intros m m' H Hnd; simpl in H.
  - inversion H; subst. split; [assumption|]. intros; simpl; tauto.
  - destruct (map_find m v) eqn:E; [discriminate|].
    apply IH in H.
    + destruct H as [Hnd' Hin]. split; [assumption|]. intros v0 d0. rewrite Hin. simpl. tauto.
    + simpl. constructor; [|assumption]. apply map_find_none. exact E.
Qed.

Record Binv (done : list iface) (a : bacc) : Prop := {
  bi_sel : c_sel a = fold_left sel_union (map f_sel done) sel_none;
  bi_nodup : NoDup (map fst (c_map a));
  bi_map : forall v d, In (v, d) (c_map a) <-> exists f, In f done /\ In (v, d) (f_det f);
  bi_nz : c_nz a = forallb f_nonzero done;
  bi_hd : match c_hd a with
          | HdUnknown => done = []
          | HdNone => done <> [] /\ forall f, In f done -> f_det f = []
          | HdAll => done <> [] /\ forall f, In f done -> f_det f <> []
          end;
  bi_data : forall f, In f done -> sel_any (f_sel f) = true }.

Lemma binv0 : Binv [] bacc0.
Proof.
  constructor; cbn.
  - reflexivity.
  - constructor.
  - intros v d. split; [tauto|]. intros (f & [] & _).
  - reflexivity.
  - reflexivity.
  - intros f [].
Qed.

Lemma forallb_snoc : forall A (g : A -> bool) l x, forallb g (l ++ [x]) = forallb g l && g x.
Proof. intros. rewrite forallb_app. simpl. rewrite andb_true_r. reflexivity. Qed.

Lemma build_step_inv : forall done a f a', Binv done a -> build_step a f = inr a' -> Binv (done ++ [f]) a'.
Proof.
  intros done a f a' [Hs Hnd Hm Hnz Hhd Hdat] H. unfold build_step in H.
  destruct (sel_any (f_sel f)) eqn:Eany; cbn [negb] in H; [|discriminate].
  destruct (insert_all (f_det f) (c_map a)) as [m|] eqn:Eins; [|discriminate].
  destruct (insert_all_spec _ _ _ Eins Hnd) as [Hnd' Hin'].
  destruct (hd_eqb _ _) eqn:Ehd in H; [|discriminate].
  inversion H; subst a'; clear H. constructor; cbn [c_sel c_map c_nz c_hd].
  - rewrite map_app, fold_left_app, <- Hs. reflexivity.
  - exact Hnd'.
  - intros v d. rewrite Hin', Hm. split.
    + intros [(g & Hg & Hin)|Hin].
      * exists g. split; [apply in_or_app; auto|assumption].
      * exists f. split; [apply in_or_app; simpl; auto|assumption].
    + intros (g & Hg & Hin). apply in_app_or in Hg. destruct Hg as [Hg|[<-|[]]].
      * left. exists g. tauto.
      * right. exact Hin.
  - rewrite forallb_snoc, Hnz. reflexivity.
  - assert (Hne : done ++ [f] <> []) by (destruct done; discriminate).
    destruct (c_hd a); destruct (f_det f) eqn:Ef; cbn in Ehd; try discriminate.
    + subst done. split; [exact Hne|]. intros g [<-|[]]. exact Ef.
    + subst done. split; [exact Hne|]. intros g [<-|[]]. rewrite Ef. discriminate.
    + destruct Hhd as [_ Hall]. split; [exact Hne|]. intros g Hg. apply in_app_or in Hg.
      destruct Hg as [Hg|[<-|[]]]; auto.
    + destruct Hhd as [_ Hall]. split; [exact Hne|]. intros g Hg. apply in_app_or in Hg.
      destruct Hg as [Hg|[<-|[]]]; auto. rewrite Ef. discriminate.
  - intros g Hg. apply in_app_or in Hg. destruct Hg as [Hg|[<-|[]]]; auto.
Qed.

Lemma build_loop_inv : forall fs done a a', Binv done a -> build_loop a fs = inr a' -> Binv (done ++ fs) a'.
Proof.
  induction fs as [|f fs IH]; intros done a a' I H; simpl in H.
  - inversion H; subst. rewrite app_nil_r. exact I.
  - destruct (build_step a f) as [e|a1] eqn:E; [discriminate|].
    replace (done ++ f :: fs) with ((done ++ [f]) ++ fs) by (rewrite <- app_assoc; reflexivity).
    eapply IH; [|exact H]. eapply build_step_inv; eauto.
Qed.

Lemma build_ok : forall nvol fs p, step_params_build nvol fs = inr p ->
  exists a, Binv fs a /\
    p = {| p_sel := c_sel a;
           p_detector := match c_map a with [] => [] | _ => temp_det nvol (c_map a) end;
           p_nonzero := match c_map a with [] => false | _ => c_nz a end |}.
Proof.
  intros nvol fs p H. unfold step_params_build in H.
  destruct (build_loop bacc0 fs) as [e|a] eqn:E; [discriminate|].
  exists a. split; [|inversion H; reflexivity].
  exact (build_loop_inv fs [] bacc0 a binv0 E).
Qed.

Lemma fold_union_le_acc : forall l a, sel_le a (fold_left sel_union l a).
Proof.
  induction l as [|x l IH]; intros a; simpl; [apply sel_le_refl|].
  eapply sel_le_trans; [apply sel_le_union_l|apply IH].
Qed.

Lemma fold_union_le : forall l a s, In s l -> sel_le s (fold_left sel_union l a).
Proof.
  induction l as [|x l IH]; intros a s Hin; simpl in *; [tauto|].
  destruct Hin as [<-|Hin].
  - eapply sel_le_trans; [apply sel_le_union_r|apply fold_union_le_acc].
  - apply IH. exact Hin.
Qed.

(** *** The combined selection is the union of the callbacks' selections;
    each callback's own selection is inside it. *)
Theorem step_params_selection_union : forall nvol fs p,
  step_params_build nvol fs = inr p ->
  p_sel p = fold_left sel_union (map f_sel fs) sel_none /\
  (forall f, In f fs -> sel_le (f_sel f) (p_sel p)) /\
  (forall f, In f fs -> sel_any (f_sel f) = true).
Proof.
  intros nvol fs p H. destruct (build_ok _ _ _ H) as (a & I & ->). cbn [p_sel].
  destruct I as [Hs _ _ _ _ Hdat]. repeat split.
  - exact Hs.
  - intros f Hin. rewrite Hs. apply fold_union_le. apply in_map. exact Hin.
  - exact Hdat.
Qed.

(** *** Mixing callbacks with and without detectors is rejected. *)
Theorem step_params_mixed_rejected : forall nvol fs f g,
  In f fs -> In g fs -> f_det f = [] -> f_det g <> [] ->
  exists e, step_params_build nvol fs = inl e.
Proof.
  intros nvol fs f g Hf Hg Ef Eg.
  destruct (step_params_build nvol fs) as [e|p] eqn:E; [exists e; reflexivity|].
  exfalso. destruct (build_ok _ _ _ E) as (a & I & _). destruct I as [_ _ _ _ Hhd _].
  destruct (c_hd a).
  - subst fs. destruct Hf.
  - destruct Hhd as [_ Hall]. apply Eg. apply Hall. exact Hg.
  - destruct Hhd as [_ Hall]. exact (Hall f Hf Ef).
Qed.

(** *** has_detectors is consistent: with a successful construction either
    every callback has a detector map or none has. *)
Theorem step_params_has_detectors : forall nvol fs p,
  step_params_build nvol fs = inr p -> (0 < nvol)%nat ->
  (has_det p = true -> forall f, In f fs -> f_det f <> []) /\
  (has_det p = false -> forall f, In f fs -> f_det f = []).
Proof.
  intros nvol fs p H Hn. destruct (build_ok _ _ _ H) as (a & I & ->).
  destruct I as [_ _ Hm _ Hhd _]. unfold has_det. cbn [p_detector].
  assert (Htd : forall m, temp_det nvol m <> []).
  { intros m. unfold temp_det. destruct nvol; [lia|]. simpl. discriminate. }
  split.
  - intros Hd f Hf. destruct (c_map a) as [|[v d] m] eqn:Em; [discriminate|].
    destruct (c_hd a).
    + subst fs. destruct Hf.
    + exfalso. destruct Hhd as [_ Hall].
      destruct (proj1 (Hm v d) (or_introl eq_refl)) as (g & Hg & Hin). rewrite (Hall g Hg) in Hin. exact Hin.
    + destruct Hhd as [_ Hall]. apply Hall. exact Hf.
  - intros Hd f Hf. destruct (c_map a) as [|[v d] m] eqn:Em.
    + destruct (f_det f) as [|[v d] l] eqn:Ef; [reflexivity|]. exfalso.
      apply (proj2 (Hm v d)). exists f. split; [exact Hf|]. rewrite Ef. simpl. auto.
    + exfalso. specialize (Htd ((v, d) :: m)). destruct (temp_det nvol ((v, d) :: m)); [contradiction|discriminate].
Qed.

Lemma temp_det_lookup : forall nvol m (vol : Z), 0 <= vol < Z.of_nat nvol ->
  nth_error (temp_det nvol m) (Z.to_nat vol) = Some (map_find m vol).
Proof.
  intros nvol m vol Hr. unfold temp_det.
  rewrite nth_error_map. rewrite (nth_error_nth' _ 0%nat) by (rewrite seq_length; lia).
  rewrite seq_nth by lia. cbn. rewrite Z2Nat.id by lia. reflexivity.
Qed.

(** *** The combined detector map is the union of the callbacks' maps. *)
Theorem step_params_detector_union : forall nvol fs p vol d,
  step_params_build nvol fs = inr p -> 0 <= vol < Z.of_nat nvol ->
  (det_lookup p vol = Some d <-> exists f, In f fs /\ In (vol, d) (f_det f)).
Proof.
  intros nvol fs p vol d H Hr. destruct (build_ok _ _ _ H) as (a & I & ->).
  destruct I as [_ Hnd Hm _ _ _]. unfold det_lookup. cbn [p_detector].
  destruct (Z.ltb_spec vol 0) as [Hlt|_]; [lia|].
  rewrite <- Hm. destruct (c_map a) as [|kv m] eqn:Em.
  - destruct (Z.to_nat vol); cbn; split; intros; try discriminate; tauto.
  - rewrite <- Em in *. rewrite temp_det_lookup by exact Hr. split.
    + apply map_find_in.
    + apply in_map_find. exact Hnd.
Qed.

(** *** Zero-deposit steps are dropped only if detectors are in use and every
    callback asks for it. *)
Theorem step_params_nonzero : forall nvol fs p,
  step_params_build nvol fs = inr p ->
  (p_nonzero p = true <->
   (exists f, In f fs /\ f_det f <> []) /\ forall f, In f fs -> f_nonzero f = true).
Proof.
  intros nvol fs p H. destruct (build_ok _ _ _ H) as (a & I & ->).
  destruct I as [_ _ Hm Hnz _ _]. cbn [p_nonzero].
  destruct (c_map a) as [|[v d] m] eqn:Em.
  - split; [discriminate|]. intros [(f & Hf & Hne) _]. exfalso.
    destruct (f_det f) as [|[v d] l] eqn:Ef; [contradiction|].
    apply (proj2 (Hm v d)). exists f. rewrite Ef. simpl. auto.
  - rewrite Hnz, forallb_forall. split.
    + intros Hall. split; [|exact Hall].
      destruct (proj1 (Hm v d) (or_introl eq_refl)) as (g & Hg & Hin). exists g. split; [exact Hg|].
      intros E. rewrite E in Hin. exact Hin.
    + tauto.
Qed.

(** *** A callback's own declared filters are at least as strict as the
    combined ones: every step that passes the filters the callback declared is
    delivered (to it and to all the others). *)
Theorem own_filter_stricter : forall F (is_zero : F -> bool) nvol fs p f pf,
  step_params_build nvol fs = inr p -> In f fs ->
  step_params_build nvol [f] = inr pf ->
  (forall v d, In (v, d) (f_det f) -> 0 <= v < Z.of_nat nvol) ->
  stricter is_zero p pf.
Proof.
  intros F is_zero nvol fs p f pf H Hf Hown Hrange [a b] Hk.
  pose proof (step_params_nonzero _ _ _ H) as Hnzp.
  pose proof (step_params_nonzero _ _ _ Hown) as Hnzf.
  unfold keep, keep_det, keep_nonzero in *. cbn [fst snd] in *.
  destruct (has_det p) eqn:Hdp; cbn [negb orb andb]; [|reflexivity].
  apply andb_true_iff in Hk. destruct Hk as [Hk1 Hk2].
  (* the combined map is non-empty, so every callback has detectors *)
  assert (Hn : (0 < nvol)%nat).
  { destruct nvol; [|lia]. exfalso. destruct (build_ok _ _ _ H) as (a0 & _ & ->).
    unfold has_det in Hdp. cbn in Hdp. destruct (c_map a0); discriminate. }
  destruct (step_params_has_detectors _ _ _ H Hn) as [Hall _]. specialize (Hall Hdp f Hf).
  assert (Hdf : has_det pf = true).
  { destruct (has_det pf) eqn:E; [reflexivity|]. exfalso.
    destruct (step_params_has_detectors _ _ _ Hown Hn) as [_ Hnone].
    apply Hall. apply (Hnone E). simpl. auto. }
  rewrite Hdf in *. cbn [negb orb andb] in *.
  destruct (det_lookup pf (a_vol a)) as [d|] eqn:El; [|discriminate].
  assert (Hin : In (a_vol a, d) (f_det f) /\ 0 <= a_vol a < Z.of_nat nvol).
  { assert (Hr : 0 <= a_vol a < Z.of_nat nvol).
    { unfold det_lookup in El. destruct (Z.ltb_spec (a_vol a) 0); [discriminate|].
      destruct (nth_error (p_detector pf) (Z.to_nat (a_vol a))) eqn:En; [|discriminate].
      assert (Hlen : (Z.to_nat (a_vol a) < length (p_detector pf))%nat)
        by (apply nth_error_Some; congruence).
      destruct (build_ok _ _ _ Hown) as (a0 & _ & ->). cbn [p_detector] in Hlen.
      destruct (c_map a0); cbn in Hlen; [lia|]. unfold temp_det in Hlen.
      rewrite map_length, seq_length in Hlen. lia. }
    split; [|exact Hr].
    destruct (proj1 (step_params_detector_union nvol [f] pf (a_vol a) d Hown Hr) El) as (g & [<-|[]] & Hin).
    exact Hin. }
  destruct Hin as [Hin Hr].
  rewrite (proj2 (step_params_detector_union nvol fs p (a_vol a) d H Hr)) by (exists f; tauto).
  cbn [is_some andb].
  assert (Himp : p_nonzero p = true -> p_nonzero pf = true).
  { intros Enz. apply Hnzf. apply Hnzp in Enz. destruct Enz as [_ Hallnz]. split.
    - exists f. split; [simpl; auto|exact Hall].
    - intros g [<-|[]]. apply Hallnz. exact Hf. }
  clear Hnzp Hnzf.
  destruct (p_nonzero p); [|reflexivity]. cbn [andb].
  rewrite (Himp eq_refl) in Hk2. exact Hk2.
Qed.

(** ** Streams: merging per-stream tallies *)
Section Monoid.
Variable M : Type.
Variable op : M -> M -> M.
Variable e : M.
Hypothesis op_assoc : forall x y z, op (op x y) z = op x (op y z).
Hypothesis op_comm : forall x y, op x y = op y x.
Hypothesis op_e_l : forall x, op e x = x.

Definition msum (l : list M) : M := fold_left op l e.

Lemma fold_left_op : forall l x, fold_left op l x = op x (msum l).
Proof.
  unfold msum. induction l as [|y l IH]; intros x; simpl.
  - rewrite op_comm, op_e_l. reflexivity.
  - rewrite IH, (IH (op e y)), op_e_l, op_assoc. reflexivity.
Qed.

Lemma msum_cons : forall x l, msum (x :: l) = op x (msum l).
Proof. intros. unfold msum at 1. simpl. rewrite fold_left_op, op_e_l. reflexivity. Qed.

Lemma msum_app : forall l1 l2, msum (l1 ++ l2) = op (msum l1) (msum l2).
Proof. intros. unfold msum at 1. rewrite fold_left_app. apply fold_left_op. Qed.

Lemma msum_perm : forall l1 l2, Permutation l1 l2 -> msum l1 = msum l2.
Proof.
  intros l1 l2 H. induction H.
  - reflexivity.
  - rewrite !msum_cons, IHPermutation. reflexivity.
  - rewrite !msum_cons, <- !op_assoc, (op_comm y x). reflexivity.
  - congruence.
Qed.

Lemma msum_concat : forall ls, msum (concat ls) = msum (map msum ls).
Proof.
  induction ls as [|l ls IH]; [reflexivity|]. cbn [concat map]. rewrite msum_app, msum_cons, IH. reflexivity.
Qed.

(* one element added to the bucket [a] of a family of buckets indexed by seq *)
Lemma msum_bucket_add : forall (h : nat -> M) (a : nat) (y : M) len start,
  msum (map (fun s => if Nat.eqb a s then op y (h s) else h s) (seq start len))
  = if (start <=? a)%nat && (a <? start + len)%nat
    then op y (msum (map h (seq start len)))
    else msum (map h (seq start len)).
Proof.
  intros h a y len. induction len as [|len IH]; intros start.
  - cbn [seq map]. destruct (start <=? a)%nat eqn:E1; destruct (a <? start + 0)%nat eqn:E2;
      cbn [andb]; try reflexivity.
    apply Nat.leb_le in E1. apply Nat.ltb_lt in E2. lia.
  - cbn [seq map]. rewrite !msum_cons, IH.
    destruct (Nat.eqb_spec a start) as [->|Hne].
    + replace (S start <=? start)%nat with false by (symmetry; apply Nat.leb_gt; lia).
      replace (start <=? start)%nat with true by (symmetry; apply Nat.leb_le; lia).
      replace (start <? start + S len)%nat with true by (symmetry; apply Nat.ltb_lt; lia).
      cbn [andb]. rewrite op_assoc. reflexivity.
    + assert (Eb : (S start <=? a)%nat && (a <? S start + len)%nat
                   = (start <=? a)%nat && (a <? start + S len)%nat).
      { apply eq_true_iff_eq. rewrite !andb_true_iff, !Nat.leb_le, !Nat.ltb_lt. lia. }
      rewrite Eb. destruct ((start <=? a)%nat && (a <? start + S len)%nat); [|reflexivity].
      rewrite <- !op_assoc, (op_comm (h start) y). reflexivity.
Qed.

Lemma msum_all_e : forall A (l : list A), msum (map (fun _ => e) l) = e.
Proof. induction l as [|x l IH]; [reflexivity|]. cbn [map]. rewrite msum_cons, IH. apply op_e_l. Qed.

(** summing bucket by bucket (bucket = stream) is summing everything, whatever
    the assignment of the elements to the buckets *)
Lemma msum_buckets : forall A (g : A -> nat) (f : A -> M) (n : nat) (l : list A),
  Forall (fun x => (g x < n)%nat) l ->
  msum (map (fun s => msum (map f (filter (fun x => Nat.eqb (g x) s) l))) (seq 0 n))
  = msum (map f l).
Proof.
  intros A g f n l. induction l as [|x l IH]; intros Hl.
  - cbn. apply msum_all_e.
  - inversion Hl as [|? ? Hx Hrest]; subst. cbn [map]. rewrite msum_cons, <- (IH Hrest).
    pose proof (msum_bucket_add
                  (fun s => msum (map f (filter (fun x0 => Nat.eqb (g x0) s) l))) (g x) (f x) n 0) as B.
    replace ((0 <=? g x)%nat && (g x <? 0 + n)%nat) with true in B
      by (symmetry; apply andb_true_iff; split; [apply Nat.leb_le|apply Nat.ltb_lt]; lia).
    rewrite <- B. f_equal. apply map_ext. intros s. cbn [filter].
    destruct (Nat.eqb (g x) s); [cbn [map]; rewrite msum_cons|]; reflexivity.
Qed.

End Monoid.

Section StreamsCalo.
Variable F : Type.
Variable fzero : F.
Variable fadd : F -> F -> F.
Notation row := (row F).

Definition edeps (d : Z) (rows : list row) : list F := map (@r_edep F) (filter (det_is d) rows).

Lemma merge_tally_spec : forall (ts : list (tally F)) d,
  merge_tally fzero fadd ts d = fold_left fadd (map (fun t => t d) ts) fzero.
Proof.
  intros ts d. unfold merge_tally.
  assert (G : forall acc : tally F,
             fold_left (fun acc t => fun d => fadd (acc d) (t d)) ts acc d
             = fold_left fadd (map (fun t => t d) ts) (acc d)).
  { induction ts as [|t ts IH]; intros acc; [reflexivity|]. cbn [fold_left map]. rewrite IH. reflexivity. }
  rewrite G. reflexivity.
Qed.

(** exact, for ANY addition (binary64 included): the merged tally is the in-order
    sum over the streams of the in-order per-stream sums *)
Theorem calo_total_exact : forall n (calls : list (nat * list row)) d,
  calo_total fzero fadd n calls d
  = fold_left fadd
      (map (fun s => fold_left fadd (edeps d (concat (stream_calls calls s))) fzero) (seq 0 n))
      fzero.
Proof.
  intros n calls d. unfold calo_total. rewrite merge_tally_spec, map_map. f_equal.
  apply map_ext. intros s. rewrite calo_run_spec. reflexivity.
Qed.

Hypothesis fadd_assoc : forall x y z, fadd (fadd x y) z = fadd x (fadd y z).
Hypothesis fadd_comm : forall x y, fadd x y = fadd y x.
Hypothesis fadd_zero_l : forall x, fadd fzero x = x.

Lemma edeps_concat : forall d (views : list (list row)),
  edeps d (concat views) = concat (map (edeps d) views).
Proof.
  intros d views. unfold edeps. induction views as [|v views IH]; [reflexivity|].
  cbn [concat map]. rewrite filter_app, map_app, IH. reflexivity.
Qed.

Local Notation S := (msum F fadd fzero).

(** with an associative-commutative addition (the reals): the merged tally is
    the sum over the union of all streams' records, independent of which stream
    each process_steps call went to *)
Theorem calo_total_is_sum_of_all : forall n (calls : list (nat * list row)) d,
  Forall (fun c => (fst c < n)%nat) calls ->
  calo_total fzero fadd n calls d
  = fold_left fadd (edeps d (concat (map snd calls))) fzero.
Proof.
  intros n calls d Hs. rewrite calo_total_exact.
  assert (E1 : fold_left fadd (edeps d (concat (map snd calls))) fzero
               = S (map (fun c => S (edeps d (snd c))) calls)).
  { change (S (edeps d (concat (map snd calls))) = S (map (fun c => S (edeps d (snd c))) calls)).
    rewrite edeps_concat.
    rewrite (msum_concat F fadd fzero fadd_assoc fadd_comm fadd_zero_l), !map_map. reflexivity. }
  rewrite E1.
  rewrite <- (msum_buckets F fadd fzero fadd_assoc fadd_comm fadd_zero_l _ (@fst nat (list row))
                (fun c => S (edeps d (snd c))) n calls Hs).
  change (S (map (fun s => S (edeps d (concat (stream_calls calls s)))) (seq 0 n))
          = S (map (fun s => S (map (fun c => S (edeps d (snd c)))
                                   (filter (fun x => Nat.eqb (fst x) s) calls))) (seq 0 n))).
  f_equal. apply map_ext. intros s. rewrite edeps_concat.
  rewrite (msum_concat F fadd fzero fadd_assoc fadd_comm fadd_zero_l).
  unfold stream_calls. rewrite !map_map. reflexivity.
Qed.

Theorem calo_total_assignment_independent : forall n n' (calls calls' : list (nat * list row)) d,
  Forall (fun c => (fst c < n)%nat) calls -> Forall (fun c => (fst c < n')%nat) calls' ->
  Permutation (concat (map snd calls)) (concat (map snd calls')) ->
  calo_total fzero fadd n calls d = calo_total fzero fadd n' calls' d.
Proof.
  intros n n' calls calls' d H1 H2 Hp. rewrite !calo_total_is_sum_of_all by assumption.
  apply (msum_perm F fadd fzero fadd_assoc fadd_comm fadd_zero_l).
  unfold edeps. apply Permutation_map.
  clear -Hp. induction Hp; cbn [filter].
  - constructor.
  - destruct (det_is d x); [constructor|]; assumption.
  - destruct (det_is d x); destruct (det_is d y); first [apply perm_swap | apply Permutation_refl].
  - eapply Permutation_trans; eauto.
Qed.

End StreamsCalo.
Arguments edeps {F}.

Section StreamsCounts.
Variable F : Type.
Notation slot_post := (slot_post F).

Lemma merge_counts_spec : forall (cs : list counts) i j,
  merge_counts cs i j = fold_left Z.add (map (fun c => c i j) cs) 0.
Proof.
  intros cs i j. unfold merge_counts.
  assert (G : forall acc : counts,
             fold_left (fun acc c => fun i j => acc i j + c i j) cs acc i j
             = fold_left Z.add (map (fun c => c i j) cs) (acc i j)).
  { induction cs as [|c cs IH]; intros acc; [reflexivity|]. cbn [fold_left map]. rewrite IH. reflexivity. }
  rewrite G. reflexivity.
Qed.

Lemma Zadd_assoc' : forall x y z : Z, x + y + z = x + (y + z).
Proof. intros. lia. Qed.

Variable accum : list slot_post -> counts -> counts.
Variable pred : Z -> Z -> slot_post -> bool.
Hypothesis accum_spec : forall posts c i j, accum posts c i j = c i j + countb (pred i j) posts.

Lemma counts_run_spec : forall (posts : list (list slot_post)) i j,
  counts_run accum posts i j = countb (pred i j) (concat posts).
Proof.
  intros posts i j. unfold counts_run.
  assert (G : forall c, fold_left (fun c ps => accum ps c) posts c i j = c i j + countb (pred i j) (concat posts)).
  { induction posts as [|ps posts IH]; intros c; cbn [fold_left concat].
    - unfold countb. simpl. lia.
    - rewrite IH, accum_spec, countb_app. lia. }
  rewrite G. unfold counts0. lia.
Qed.

(** the merged counters are the counts over the union of all streams' calls,
    whatever the stream assignment (exact: integer addition) *)
Theorem counts_total_is_count_of_all : forall n (calls : list (nat * list slot_post)) i j,
  Forall (fun c => (fst c < n)%nat) calls ->
  counts_total accum n calls i j = countb (pred i j) (concat (map snd calls)).
Proof.
  intros n calls i j Hs. unfold counts_total. rewrite merge_counts_spec, map_map.
  change (fold_left Z.add ?l 0) with (msum Z Z.add 0 l).
  assert (Hc : forall ls : list (list slot_post),
             countb (pred i j) (concat ls) = msum Z Z.add 0 (map (countb (pred i j)) ls)).
  { induction ls as [|l ls IH]; [reflexivity|]. cbn [concat map].
    rewrite countb_app, (msum_cons Z Z.add 0 Zadd_assoc' Z.add_comm Z.add_0_l), IH. reflexivity. }
  rewrite Hc, map_map.
  rewrite <- (msum_buckets Z Z.add 0 Zadd_assoc' Z.add_comm Z.add_0_l _ (@fst nat (list slot_post))
                (fun c => countb (pred i j) (snd c)) n calls Hs).
  f_equal. apply map_ext. intros s. rewrite counts_run_spec, Hc. unfold stream_calls. rewrite !map_map. reflexivity.
Qed.

End StreamsCounts.

(** ** ActionDiagnostic / StepDiagnostic over several streams *)
Theorem action_total_is_count_of_all : forall F n (calls : list (nat * list (slot_post F))) i j,
  Forall (fun c => (fst c < n)%nat) calls ->
  counts_total (@action_accum F) n calls i j = countb (act_is i j) (concat (map snd calls)).
Proof.
  intros F n calls i j Hs.
  apply (counts_total_is_count_of_all F (@action_accum F) (@act_is F)); [|exact Hs].
  intros. apply action_accum_spec.
Qed.

Theorem stepdiag_total_is_count_of_all : forall F nb n (calls : list (nat * list (slot_post F))) i j,
  Forall (fun c => (fst c < n)%nat) calls ->
  counts_total (stepdiag_accum nb) n calls i j = countb (sd_is nb i j) (concat (map snd calls)).
Proof.
  intros F nb n calls i j Hs.
  apply (counts_total_is_count_of_all F (stepdiag_accum nb) (@sd_is F nb)); [|exact Hs].
  intros. apply stepdiag_accum_spec.
Qed.

(** ** Any number of callbacks with different selections and filters *)
Section ManyCallbacks.
Variable F : Type.
Variable fzero : F.
Variable is_zero : F -> bool.
Notation row := (row F).

(** *** all_callbacks_same_view, full strength.  For any list of registered
    step interfaces accepted by StepParams (combined parameters [p]) and any
    callbacks / accumulators: after one iteration callback [k] has been run
    exactly once, on the one shared view; what it can read of that view within
    ITS OWN selection is exactly one record per active slot passing the combined
    filters, each selected field equal to the track state at its step point;
    and every active step that passes the filters it declared itself is among
    the delivered ones. *)
Theorem all_callbacks_same_view_full : forall A nvol (fs : list iface) p
    (cbs : list (list row -> A -> A)) (accs : list A) pres posts (rows : list row)
    k f cb acc,
  step_params_build nvol fs = inr p ->
  nth_error fs k = Some f -> nth_error cbs k = Some cb -> nth_error accs k = Some acc ->
  length pres = length rows -> length posts = length rows -> Forall2 consistent pres posts ->
  let view := collector_step is_zero p pres posts rows in
  nth_error (deliver cbs view accs) k = Some (cb view acc) /\
  map (mask_snd fzero (with_sel p (f_sel f))) (delivered p view)
  = map (fun iab => (fst iab, mask fzero (with_sel p (f_sel f)) (ideal p (snd iab))))
        (filter (fun iab => step_active (snd iab) && keep is_zero p (snd iab))
                (indexed (combine pres posts))) /\
  (forall pf i ab,
     step_params_build nvol [f] = inr pf ->
     (forall v d, In (v, d) (f_det f) -> 0 <= v < Z.of_nat nvol) ->
     nth_error (combine pres posts) i = Some ab ->
     step_active ab = true -> keep is_zero pf ab = true ->
     count_occ Nat.eq_dec (map fst (delivered p view)) i = 1%nat).
Proof.
  intros A nvol fs p cbs accs pres posts rows k f cb acc Hb Hf Hcb Hacc H1 H2 Hc view.
  assert (Hin : In f fs) by (eapply nth_error_In; exact Hf).
  split; [|split].
  - apply all_callbacks_same_view; assumption.
  - apply callback_restricted_view; auto.
    destruct (step_params_selection_union _ _ _ Hb) as (_ & Hle & _). apply Hle. exact Hin.
  - intros pf i ab Hown Hrange Hn Ha Hk.
    apply (active_slot_exactly_once F fzero is_zero p pres posts rows i ab); auto.
    apply (own_filter_stricter F is_zero nvol fs p f pf Hb Hin Hown Hrange). exact Hk.
Qed.

(** ** DetectorSteps: sizes, and the copy is exactly the delivered records *)

Theorem detector_steps_sizes : forall p (rows : list row),
  let n := length (filter (@det_valid F) rows) in          (* count_num_valid *)
  let s := p_sel p in
  let o := copy_steps p rows in
  length (o_detector o) = n /\ length (o_track o) = n /\
  length (o_event o) = (if s_event s then n else 0%nat) /\
  length (o_parent o) = (if s_parent s then n else 0%nat) /\
  length (o_nsteps o) = (if s_nsteps s then n else 0%nat) /\
  length (o_steplen o) = (if s_steplen s then n else 0%nat) /\
  length (o_particle o) = (if s_particle s then n else 0%nat) /\
  length (o_edep o) = (if s_edep s then n else 0%nat).
Proof.
  intros p rows n s o.
  destruct (detector_steps_compaction F p rows) as (_ & E1 & E2 & E3 & E4 & E5 & E6 & E7 & E8 & _).
  subst o s n. rewrite E1, E2, E3, E4, E5, E6, E7, E8. unfold opt_map.
  repeat split; try apply map_length;
    match goal with |- context [if ?b then _ else _] => destruct b end; try apply map_length; reflexivity.
Qed.

(* with a detector map, the rows kept by copy_steps are the delivered records *)
Theorem detector_steps_are_delivered : forall p pres posts (rows : list row),
  has_det p = true ->
  length pres = length rows -> length posts = length rows -> Forall2 consistent pres posts ->
  filter (@det_valid F) (collector_step is_zero p pres posts rows)
  = map snd (delivered p (collector_step is_zero p pres posts rows)).
Proof.
  intros p pres posts rows Hd H1 H2 Hc. rewrite delivered_rows.
  rewrite collector_step_map3 by assumption.
  pose proof (map3_det_inv F is_zero p pres posts rows Hd Hc) as Hinv.
  induction Hinv as [|r l Hr _ IH]; [reflexivity|]. cbn [filter].
  unfold det_valid at 1, row_valid at 1. rewrite Hd. cbn [negb orb].
  unfold det_inv in Hr. destruct (is_some (r_det r)) eqn:E.
  - rewrite (Hr eq_refl). cbn [andb]. rewrite IH. reflexivity.
  - rewrite andb_false_r. exact IH.
Qed.

End ManyCallbacks.
