(** * C17 — executable model of step gathering and the user tallies.

    Mirrors (branch by branch)
      src/celeritas/user/detail/StepGatherExecutor.hh   (gather_pre / gather_post)
      src/celeritas/user/detail/StepGatherAction.cc     (collector_step, deliver)
      src/celeritas/user/DetectorSteps.cc               (copy_steps)
      src/celeritas/user/detail/SimpleCaloExecutor.hh   (calo_accum)
      src/celeritas/user/detail/ActionDiagnosticExecutor.hh (action_accum)
      src/celeritas/user/detail/StepDiagnosticExecutor.hh   (stepdiag_accum)

    Floating-point values are only copied (and, for the calorimeter, added in
    slot order), so the real type is abstract: [F] with [fzero], [fadd] and the
    test [is_zero] (C++ [== zero_quantity()]).  Ids are [Z]; the null
    OpaqueId is [-1].  NO proofs in this file (see GatherProofs.v). *)
From Coq Require Import List ZArith Bool.
Import ListNotations.
Local Open Scope Z_scope.
Set Implicit Arguments.

Inductive status := Inactive | Initializing | Alive | Errored | Killed.

Definition is_inactive (s : status) : bool :=
  match s with Inactive => true | _ => false end.
(* celeritas::is_track_valid *)
Definition is_track_valid (s : status) : bool :=
  match s with Inactive | Errored => false | _ => true end.
Definition is_killed (s : status) : bool :=
  match s with Killed => true | _ => false end.

Definition is_some {A} (o : option A) : bool :=
  match o with Some _ => true | None => false end.

Section Gather.
Variable F : Type.
Variable fzero : F.
Variable fadd : F -> F -> F.
Variable is_zero : F -> bool.

Definition vec : Type := (F * F * F)%type.
Definition vzero : vec := (fzero, fzero, fzero).

(** ** What the public track views report for one slot (ground truth) *)

(* at user_pre: SimTrackView, GeoTrackView, ParticleTrackView *)
Record slot_pre := {
  a_status : status;
  a_time : F;
  a_pos : vec;
  a_dir : vec;
  a_outside : bool;
  a_vol : Z;
  a_energy : F }.

(* at user_post: the same views plus PhysicsStepView *)
Record slot_post := {
  b_status : status;
  b_track : Z;
  b_event : Z;
  b_parent : Z;
  b_nsteps : Z;
  b_action : Z;
  b_steplen : F;
  b_time : F;
  b_pos : vec;
  b_dir : vec;
  b_outside : bool;
  b_vol : Z;
  b_particle : Z;
  b_energy : F;
  b_edep : F }.

(** ** Parameters (StepParamsData) *)

Record psel := {       (* StepPointSelection *)
  s_time : bool; s_pos : bool; s_dir : bool; s_vol : bool; s_energy : bool }.

Record selection := {  (* StepSelection *)
  s_pre : psel; s_post : psel;
  s_event : bool; s_parent : bool; s_nsteps : bool; s_action : bool;
  s_steplen : bool; s_particle : bool; s_edep : bool }.

Record params := {
  p_sel : selection;
  p_detector : list (option Z);   (* volume -> detector; [] = no detectors *)
  p_nonzero : bool }.

Definition has_det (p : params) : bool :=
  match p_detector p with [] => false | _ => true end.

(* params.detector[vol] *)
Definition det_lookup (p : params) (vol : Z) : option Z :=
  if vol <? 0 then None
  else match nth_error (p_detector p) (Z.to_nat vol) with
       | Some d => d
       | None => None
       end.

(** ** One row of the gathered state (StepStateDataImpl at one track slot) *)

Record point := {
  t_time : F; t_pos : vec; t_dir : vec; t_vol : Z; t_energy : F }.

Record row := {
  r_track : option Z;
  r_det : option Z;
  r_event : Z;
  r_parent : Z;
  r_nsteps : Z;
  r_action : Z;
  r_steplen : F;
  r_particle : Z;
  r_edep : F;
  r_pre : point;
  r_post : point }.

Definition point0 : point :=
  {| t_time := fzero; t_pos := vzero; t_dir := vzero; t_vol := -1; t_energy := fzero |}.

(* freshly resized (value-initialised) state *)
Definition row0 : row :=
  {| r_track := None; r_det := None; r_event := -1; r_parent := -1; r_nsteps := 0;
     r_action := -1; r_steplen := fzero; r_particle := -1; r_edep := fzero;
     r_pre := point0; r_post := point0 |}.

Definition set_det (d : option Z) (r : row) : row :=
  {| r_track := r_track r; r_det := d; r_event := r_event r; r_parent := r_parent r;
     r_nsteps := r_nsteps r; r_action := r_action r; r_steplen := r_steplen r;
     r_particle := r_particle r; r_edep := r_edep r; r_pre := r_pre r; r_post := r_post r |}.

Definition set_track (t : option Z) (r : row) : row :=
  {| r_track := t; r_det := r_det r; r_event := r_event r; r_parent := r_parent r;
     r_nsteps := r_nsteps r; r_action := r_action r; r_steplen := r_steplen r;
     r_particle := r_particle r; r_edep := r_edep r; r_pre := r_pre r; r_post := r_post r |}.

(* SGL_SET_IF_SELECTED *)
Definition pick {A} (sel : bool) (new old : A) : A := if sel then new else old.

Definition write_point (s : psel) (time : F) (pos dir : vec) (vol : Z) (energy : F)
    (old : point) : point :=
  {| t_time := pick (s_time s) time (t_time old);
     t_pos := pick (s_pos s) pos (t_pos old);
     t_dir := pick (s_dir s) dir (t_dir old);
     t_vol := pick (s_vol s) vol (t_vol old);
     t_energy := pick (s_energy s) energy (t_energy old) |}.

Definition write_pre (s : selection) (a : slot_pre) (r : row) : row :=
  {| r_track := r_track r; r_det := r_det r; r_event := r_event r; r_parent := r_parent r;
     r_nsteps := r_nsteps r; r_action := r_action r; r_steplen := r_steplen r;
     r_particle := r_particle r; r_edep := r_edep r;
     r_pre := write_point (s_pre s) (a_time a) (a_pos a) (a_dir a)
                (if a_outside a then -1 else a_vol a) (a_energy a) (r_pre r);
     r_post := r_post r |}.

Definition write_post (s : selection) (b : slot_post) (r : row) : row :=
  {| r_track := r_track r; r_det := r_det r;
     r_event := pick (s_event s) (b_event b) (r_event r);
     r_parent := pick (s_parent s) (b_parent b) (r_parent r);
     r_nsteps := pick (s_nsteps s) (b_nsteps b) (r_nsteps r);
     r_action := pick (s_action s) (b_action b) (r_action r);
     r_steplen := pick (s_steplen s) (b_steplen b) (r_steplen r);
     r_particle := pick (s_particle s) (b_particle b) (r_particle r);
     r_edep := pick (s_edep s) (b_edep b) (r_edep r);
     r_pre := r_pre r;
     r_post := write_point (s_post s) (b_time b) (b_pos b) (b_dir b)
                 (if b_outside b then -1 else b_vol b) (b_energy b) (r_post r) |}.

(** ** StepGatherExecutor<StepPoint::pre> *)
Definition gather_pre (p : params) (a : slot_pre) (r : row) : row :=
  if is_inactive (a_status a) then
    (* clear detector ID for inactive threads; no more data to be written *)
    if has_det p then set_det None r else r
  else
    let r1 := if has_det p then set_det (det_lookup p (a_vol a)) r else r in
    if has_det p && negb (is_some (r_det r1)) then
      r1   (* not in a sensitive detector: don't save any further data *)
    else
      write_pre (p_sel p) a r1.

(** ** StepGatherExecutor<StepPoint::post> *)
Definition gather_post (p : params) (b : slot_post) (r : row) : row :=
  let inactive := is_inactive (b_status b) in
  (* always save track ID to clear output from inactive slots *)
  let r1 := set_track (if inactive then None else Some (b_track b)) r in
  if inactive then r1
  else if has_det p && negb (is_some (r_det r1)) then r1
  else if has_det p && p_nonzero p && is_zero (b_edep b) then
    set_det None r1   (* clear detector ID and stop recording *)
  else write_post (p_sel p) b r1.

(** ** The two gather actions over all slots, then the callbacks *)

Fixpoint map2 {A B C} (f : A -> B -> C) (la : list A) (lb : list B) : list C :=
  match la, lb with
  | a :: la', b :: lb' => f a b :: map2 f la' lb'
  | _, _ => []
  end.

Definition gather_pre_all (p : params) (pres : list slot_pre) (rows : list row) : list row :=
  map2 (gather_pre p) pres rows.
Definition gather_post_all (p : params) (posts : list slot_post) (rows : list row) : list row :=
  map2 (gather_post p) posts rows.

(* StepCollector registers the pre action only if some pre-step data or a
   detector map is requested *)
Definition psel_any (s : psel) : bool :=
  s_time s || s_pos s || s_dir s || s_vol s || s_energy s.
Definition has_pre_action (p : params) : bool :=
  psel_any (s_pre (p_sel p)) || has_det p.

(* one stepping-loop iteration as seen by the collector *)
Definition collector_step (p : params) (pres : list slot_pre) (posts : list slot_post)
    (rows : list row) : list row :=
  gather_post_all p posts
    (if has_pre_action p then gather_pre_all p pres rows else rows).

(* StepGatherAction<post>::step: every registered callback is called with the
   same state reference; callbacks are state transformers on their own
   accumulator *)
Definition deliver {A} (cbs : list (list row -> A -> A)) (view : list row) (accs : list A)
    : list A :=
  map2 (fun cb acc => cb view acc) cbs accs.

(** ** Which rows are meaningful to a callback *)

Definition row_valid (p : params) (r : row) : bool :=
  is_some (r_track r) && (negb (has_det p) || is_some (r_det r)).

Fixpoint indexed_from {A} (n : nat) (l : list A) : list (nat * A) :=
  match l with
  | [] => []
  | x :: l' => (n, x) :: indexed_from (S n) l'
  end.
Definition indexed {A} (l : list A) := indexed_from 0 l.

(* delivered records: (slot index, row) of the valid rows, in slot order *)
Definition delivered (p : params) (rows : list row) : list (nat * row) :=
  filter (fun ir => row_valid p (snd ir)) (indexed rows).

(** ** Specification side: the steps that happened *)

(* detector filter and non-zero-deposit filter on one (pre, post) step *)
Definition keep_det (p : params) (a : slot_pre) : bool :=
  negb (has_det p) || is_some (det_lookup p (a_vol a)).
Definition keep_nonzero (p : params) (b : slot_post) : bool :=
  negb (has_det p && p_nonzero p && is_zero (b_edep b)).
Definition keep (p : params) (ab : slot_pre * slot_post) : bool :=
  keep_det p (fst ab) && keep_nonzero p (snd ab).

Definition step_active (ab : slot_pre * slot_post) : bool :=
  negb (is_inactive (b_status (snd ab))).

(* the record a step should produce when everything is selected *)
Definition ideal (p : params) (ab : slot_pre * slot_post) : row :=
  let (a, b) := ab in
  {| r_track := Some (b_track b);
     r_det := if has_det p then det_lookup p (a_vol a) else None;
     r_event := b_event b; r_parent := b_parent b; r_nsteps := b_nsteps b;
     r_action := b_action b; r_steplen := b_steplen b; r_particle := b_particle b;
     r_edep := b_edep b;
     r_pre := {| t_time := a_time a; t_pos := a_pos a; t_dir := a_dir a;
                 t_vol := if a_outside a then -1 else a_vol a; t_energy := a_energy a |};
     r_post := {| t_time := b_time b; t_pos := b_pos b; t_dir := b_dir b;
                  t_vol := if b_outside b then -1 else b_vol b; t_energy := b_energy b |} |}.

(* what a callback may look at: unselected arrays are empty *)
Definition mask_point (s : psel) (t : point) : point :=
  write_point s (t_time t) (t_pos t) (t_dir t) (t_vol t) (t_energy t) point0.

Definition mask (p : params) (r : row) : row :=
  let s := p_sel p in
  {| r_track := r_track r;
     r_det := if has_det p then r_det r else None;
     r_event := pick (s_event s) (r_event r) (-1);
     r_parent := pick (s_parent s) (r_parent r) (-1);
     r_nsteps := pick (s_nsteps s) (r_nsteps r) 0;
     r_action := pick (s_action s) (r_action r) (-1);
     r_steplen := pick (s_steplen s) (r_steplen r) fzero;
     r_particle := pick (s_particle s) (r_particle r) (-1);
     r_edep := pick (s_edep s) (r_edep r) fzero;
     r_pre := mask_point (s_pre s) (r_pre r);
     r_post := mask_point (s_post s) (r_post r) |}.

Definition mask_snd (p : params) (ir : nat * row) : nat * row := (fst ir, mask p (snd ir)).

(* the steps that must be delivered for one loop iteration *)
Definition expected (p : params) (pres : list slot_pre) (posts : list slot_post)
    : list (nat * row) :=
  map (fun iab => (fst iab, mask p (ideal p (snd iab))))
      (filter (fun iab => step_active (snd iab) && keep p (snd iab))
              (indexed (combine pres posts))).

(** ** Stepping sequences *)

Definition step := (list slot_pre * list slot_post)%type.

(* views handed to the callbacks, one per loop iteration *)
Fixpoint run_views (p : params) (steps : list step) (rows : list row) : list (list row) :=
  match steps with
  | [] => []
  | (pres, posts) :: rest =>
      let rows' := collector_step p pres posts rows in
      rows' :: run_views p rest rows'
  end.

(* the complete delivered stream: (iteration, slot, record) flattened in order *)
Definition stream (p : params) (views : list (list row)) : list row :=
  flat_map (fun v => map snd (delivered p v)) views.

(** ** DetectorSteps.cc : copy_steps (host) *)

Definition det_valid (r : row) : bool := is_some (r_det r).

(* assign_field: empty if the source array is not in use, else the entries of
   the slots with a valid detector in slot order *)
Definition assign_field {A} (in_use : bool) (f : row -> A) (rows : list row) : list A :=
  if in_use
  then fold_right (fun r acc => if det_valid r then f r :: acc else acc) [] rows
  else [].

Record det_point_output := {
  o_time : list F; o_pos : list vec; o_dir : list vec; o_energy : list F }.

Record det_output := {
  o_detector : list (option Z);
  o_track : list (option Z);
  o_pre : det_point_output;
  o_post : det_point_output;
  o_event : list Z;
  o_parent : list Z;
  o_nsteps : list Z;
  o_steplen : list F;
  o_particle : list Z;
  o_edep : list F }.

Definition copy_point (s : psel) (f : row -> point) (rows : list row) : det_point_output :=
  {| o_time := assign_field (s_time s) (fun r => t_time (f r)) rows;
     o_pos := assign_field (s_pos s) (fun r => t_pos (f r)) rows;
     o_dir := assign_field (s_dir s) (fun r => t_dir (f r)) rows;
     o_energy := assign_field (s_energy s) (fun r => t_energy (f r)) rows |}.

Definition copy_steps (p : params) (rows : list row) : det_output :=
  let s := p_sel p in
  {| o_detector := assign_field true r_det rows;
     o_track := assign_field true r_track rows;
     o_pre := copy_point (s_pre s) r_pre rows;
     o_post := copy_point (s_post s) r_post rows;
     o_event := assign_field (s_event s) r_event rows;
     o_parent := assign_field (s_parent s) r_parent rows;
     o_nsteps := assign_field (s_nsteps s) r_nsteps rows;
     o_steplen := assign_field (s_steplen s) r_steplen rows;
     o_particle := assign_field (s_particle s) r_particle rows;
     o_edep := assign_field (s_edep s) r_edep rows |}.

(** ** SimpleCalo: per-detector accumulation over the slots in order *)

Definition tally := Z -> F.
Definition tally0 : tally := fun _ => fzero.
Definition tally_add (t : tally) (d : Z) (x : F) : tally :=
  fun k => if k =? d then fadd (t k) x else t k.

(* SimpleCaloExecutor on one slot *)
Definition calo_slot (t : tally) (r : row) : tally :=
  match r_det r with
  | None => t          (* no energy deposition or inactive track *)
  | Some d => tally_add t d (r_edep r)
  end.

(* simple_calo_accum: one process_steps call *)
Definition calo_accum (view : list row) (t : tally) : tally := fold_left calo_slot view t.

Definition calo_run (views : list (list row)) (t : tally) : tally :=
  fold_left (fun t v => calo_accum v t) views t.

Definition tally_list (n : nat) (t : tally) : list F :=
  map (fun k => t (Z.of_nat k)) (seq 0 n).

(** ** ActionDiagnostic: (particle, action) counters at post-step *)

Definition counts := Z -> Z -> Z.    (* particle -> bin -> count *)
Definition counts0 : counts := fun _ _ => 0.
Definition counts_incr (c : counts) (i j : Z) : counts :=
  fun i' j' => if (i' =? i) && (j' =? j) then c i' j' + 1 else c i' j'.

(* make_active_track_executor(AppliesValid) + ActionDiagnosticExecutor *)
Definition action_slot (c : counts) (b : slot_post) : counts :=
  if is_track_valid (b_status b) then counts_incr c (b_particle b) (b_action b) else c.
Definition action_accum (posts : list slot_post) (c : counts) : counts :=
  fold_left action_slot posts c.
(* ActionSequence::step (host): with a single track slot every action of order
   [post] whose id is not the track's post-step action is skipped
   ([skip_post_action]).  ActionDiagnostic now has order [user_post] (repo commit
   d1fcf6b), so the shortcut does not apply to it: the faithful model of the
   current code is [skip_single = false].  [skip_single = true] is the OLD
   variant (order [post]): the diagnostic did not run at all with one slot. *)
Definition action_step (skip_single : bool) (posts : list slot_post) (c : counts) : counts :=
  if skip_single && Nat.eqb (length posts) 1 then c else action_accum posts c.
Definition action_run (skip_single : bool) (steps : list step) (c : counts) : counts :=
  fold_left (fun c st => action_step skip_single (snd st) c) steps c.

(** ** StepDiagnostic: steps per track, tallied when the track is killed *)

(* make_active_track_executor(AppliesValid) + StepDiagnosticExecutor;
   num_bins = max_step_bin + 2 *)
Definition stepdiag_bin (num_bins : Z) (b : slot_post) : Z :=
  Z.min (b_nsteps b) (num_bins - 1).
Definition stepdiag_slot (num_bins : Z) (c : counts) (b : slot_post) : counts :=
  if is_track_valid (b_status b) && is_killed (b_status b)
  then counts_incr c (b_particle b) (stepdiag_bin num_bins b) else c.
Definition stepdiag_accum (num_bins : Z) (posts : list slot_post) (c : counts) : counts :=
  fold_left (stepdiag_slot num_bins) posts c.
Definition stepdiag_run (num_bins : Z) (steps : list step) (c : counts) : counts :=
  fold_left (fun c st => stepdiag_accum num_bins (snd st) c) steps c.

Definition counts_table (np nb : nat) (c : counts) : list (list Z) :=
  map (fun i => map (fun j => c (Z.of_nat i) (Z.of_nat j)) (seq 0 nb)) (seq 0 np).

End Gather.
