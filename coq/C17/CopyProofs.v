(** * C17 — copy_steps overwrites a reused output completely. *)
From Coq Require Import List ZArith Bool Lia.
From Celer Require Import C17.Gather C17.GatherProofs C17.GatherWitness C17.Copy.
Import ListNotations.
Local Open Scope Z_scope.

Lemma vresize_length : forall A (d : A) n l, length (vresize d n l) = n.
Proof. intros. unfold vresize. rewrite app_length, firstn_length, repeat_length. lia. Qed.

Lemma overwrite_full : forall A (vals dst : list A), length dst = length vals -> overwrite dst vals = vals.
Proof.
  induction vals as [|v vals IH]; intros [|x dst] H; simpl in *; try discriminate; auto.
  f_equal. apply IH. lia.
Qed.

Section Proofs.
Variable F : Type.
Variable fzero : F.

Lemma count_num_valid_spec : forall rows : list (row F),
  count_num_valid rows = length (filter (@det_valid F) rows).
Proof.
  intros rows. unfold count_num_valid.
  assert (G : forall n, fold_left (fun n r => if det_valid r then S n else n) rows n
                        = (n + length (filter (@det_valid F) rows))%nat).
  { induction rows as [|r rows IH]; intros n; simpl; [lia|].
    rewrite IH. destruct (det_valid r); simpl; lia. }
  rewrite G. reflexivity.
Qed.

Lemma assign_field_into_spec : forall A (d : A) in_use (f : row F -> A) rows dst,
  assign_field_into d (count_num_valid rows) in_use f rows dst = assign_field in_use f rows.
Proof.
  intros A d in_use f rows dst. unfold assign_field_into. destruct in_use; [|reflexivity].
  apply overwrite_full. rewrite vresize_length, count_num_valid_spec, assign_field_spec, map_length.
  reflexivity.
Qed.

(** *** detector_steps_overwrites: whatever the output object contained before
    the call (any sizes, any values, also when no slot has a valid detector
    now), after [copy_steps] it is a function of the state alone. *)
Theorem detector_steps_overwrites : forall (prev : det_output F) p (rows : list (row F)),
  copy_steps_into fzero prev p rows = copy_steps p rows.
Proof.
  intros prev p rows. unfold copy_steps_into, copy_steps, copy_point_into, copy_point.
  rewrite !assign_field_into_spec. reflexivity.
Qed.

Corollary detector_steps_prev_irrelevant : forall (prev prev' : det_output F) p rows,
  copy_steps_into fzero prev p rows = copy_steps_into fzero prev' p rows.
Proof. intros. rewrite !detector_steps_overwrites. reflexivity. Qed.

(** what a HitProcessor-style callback with a reused buffer scores is exactly
    (detector, track) of the rows with a valid detector, in slot order: nothing
    when there is none *)
Theorem scored_hits_exact : forall (prev : det_output F) p (rows : list (row F)),
  scored_hits (copy_steps_into fzero prev p rows)
  = map (fun r => (r_det r, r_track r)) (filter (@det_valid F) rows).
Proof.
  intros prev p rows. rewrite detector_steps_overwrites. unfold scored_hits, copy_steps. cbn [o_detector o_track].
  rewrite !assign_field_spec.
  induction (filter (@det_valid F) rows) as [|r l IH]; [reflexivity|].
  cbn [map combine]. f_equal. destruct l; [reflexivity|]. exact IH.
Qed.

End Proofs.

(** the seeded early-return variant violates it: stale hits survive an iteration without hits *)
Theorem copy_steps_early_return_refuted :
  exists (prev : det_output Z) (p : params) (rows : list (row Z)),
    copy_steps_into_early 0 prev p rows <> copy_steps p rows /\
    scored_hits (copy_steps_into_early 0 prev p rows) <> [] /\ filter (@det_valid Z) rows = [].
Proof.
  exists (copy_steps w_pdet (collector_step (Z.eqb 0) w_pdet w_pres w_posts w_rows)), w_pdet, w_rows.
  vm_compute. repeat split; discriminate.
Qed.

(* non-vacuity: a non-empty previous content, then a state without hits / with one hit *)
Example w_overwrite_none :
  let prev := copy_steps w_pdet (collector_step (Z.eqb 0) w_pdet w_pres w_posts w_rows) in
  det_output_size prev = 1%nat /\ det_output_size (copy_steps_into 0 prev w_pdet w_rows) = 0%nat.
Proof. vm_compute. split; reflexivity. Qed.
