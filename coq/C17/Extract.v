(** Extraction of the executable C17 model to OCaml (ExtrOcamlBasic only). *)
From Coq Require Import Extraction ExtrOcamlBasic List ZArith.
From Celer Require Import C17.Gather.
Extraction Language OCaml.
Extraction "gather_model.ml"
  row0 collector_step gather_pre gather_post delivered expected mask row_valid
  copy_steps calo_accum calo_slot tally0 tally_list
  action_accum action_step stepdiag_accum counts0 counts_table has_det has_pre_action.
