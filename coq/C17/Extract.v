(** Extraction of the executable C17 model to OCaml (ExtrOcamlBasic only). *)
From Coq Require Import Extraction ExtrOcamlBasic List ZArith.
From Celer Require Import C17.Gather C17.Loop C17.Multi C17.Copy.
Extraction Language OCaml.
Extraction "gather_model.ml"
  row0 collector_step gather_pre gather_post delivered expected mask row_valid
  copy_steps calo_accum calo_slot tally0 tally_list
  action_accum action_step stepdiag_accum counts0 counts_table has_det has_pre_action
  core_slot sim_init sim_increment
  step_params_build calo_total counts_total sel_union sel_any
  copy_steps_into det_output0 scored_hits.
