(** * C17 — witnesses for the multi-callback / multi-stream theorems. *)
From Coq Require Import List ZArith Bool.
From Celer Require Import C17.Gather C17.GatherProofs C17.GatherWitness C17.Multi C17.MultiProofs.
Import ListNotations.
Local Open Scope Z_scope.

Definition sel_only_edep : selection :=
  {| s_pre := psel_none; s_post := psel_none; s_event := false; s_parent := false; s_nsteps := false;
     s_action := false; s_steplen := false; s_particle := false; s_edep := true |}.
Definition sel_only_prevol : selection :=
  {| s_pre := {| s_time := false; s_pos := false; s_dir := false; s_vol := true; s_energy := false |};
     s_post := psel_none; s_event := true; s_parent := false; s_nsteps := false;
     s_action := false; s_steplen := false; s_particle := false; s_edep := false |}.

(* a calorimeter-like interface on volume 1 and a recorder on volume 2 *)
Definition w_f1 : iface := {| f_sel := sel_only_edep; f_det := [(1, 0)]; f_nonzero := true |}.
Definition w_f2 : iface := {| f_sel := sel_only_prevol; f_det := [(2, 1)]; f_nonzero := false |}.
Definition w_f3 : iface := {| f_sel := sel_only_prevol; f_det := []; f_nonzero := false |}.
Definition w_f4 : iface := {| f_sel := sel_none; f_det := []; f_nonzero := false |}.

Definition w_pcomb : params :=
  {| p_sel := sel_union sel_only_edep sel_only_prevol;
     p_detector := [None; Some 0; Some 1]; p_nonzero := false |}.

Example w_build_ok : step_params_build 3 [w_f1; w_f2] = inr w_pcomb.
Proof. vm_compute. reflexivity. Qed.

Example w_build_mixed : step_params_build 3 [w_f1; w_f3] = inl ErrMixedDetectors
                        /\ step_params_build 3 [w_f3; w_f1] = inl ErrMixedDetectors.
Proof. vm_compute. split; reflexivity. Qed.

Example w_build_dup : step_params_build 3 [w_f1; w_f2; w_f1] = inl ErrDuplicateVolume.
Proof. vm_compute. reflexivity. Qed.

Example w_build_nodata : step_params_build 3 [w_f1; w_f4] = inl ErrNoData.
Proof. vm_compute. reflexivity. Qed.

Example w_sel_le : sel_le (f_sel w_f1) (p_sel w_pcomb) /\ sel_le (f_sel w_f2) (p_sel w_pcomb).
Proof. split; vm_compute; reflexivity. Qed.

(* the two callbacks see the same rows, each restricted to its own selection: the
   first only the deposit, the second only the event id and the pre-step volume *)
Example w_restricted :
  let view := collector_step (Z.eqb 0) w_pcomb w_pres w_posts w_rows in
  map (fun ir => r_edep (snd ir)) (map (mask_snd 0 (with_sel w_pcomb (f_sel w_f1))) (delivered w_pcomb view)) = [1; 0]
  /\ map (fun ir => (r_event (snd ir), t_vol (r_pre (snd ir)), r_edep (snd ir)))
         (map (mask_snd 0 (with_sel w_pcomb (f_sel w_f2))) (delivered w_pcomb view)) = [(0, 1, 0); (0, 2, 0)].
Proof. vm_compute. split; reflexivity. Qed.

(* own filter: w_f1 alone (non-zero filter on) keeps only slot 0; the combined
   parameters (w_f2 does not ask for the filter) deliver slots 0 and 2 *)
Example w_own_filter :
  step_params_build 3 [w_f1] = inr {| p_sel := sel_only_edep; p_detector := [None; Some 0; None]; p_nonzero := true |}.
Proof. vm_compute. reflexivity. Qed.

(** streams: three process_steps calls distributed over two streams in two ways *)
Definition w_view1 := collector_step (Z.eqb 0) w_pdet w_pres w_posts w_rows.
Definition w_calls_a : list (nat * list (row Z)) := [(0%nat, w_view1); (1%nat, w_view1); (0%nat, w_view1)].
Definition w_calls_b : list (nat * list (row Z)) := [(1%nat, w_view1); (1%nat, w_view1); (1%nat, w_view1)].

Example w_streams_bound : Forall (fun c => (fst c < 2)%nat) w_calls_a /\ Forall (fun c => (fst c < 2)%nat) w_calls_b.
Proof. split; repeat constructor. Qed.

Example w_calo_total :
  tally_list 2 (calo_total 0 Z.add 2 w_calls_a) = [3; 0] /\
  tally_list 2 (calo_total 0 Z.add 2 w_calls_b) = [3; 0].
Proof. vm_compute. split; reflexivity. Qed.

Definition w_pcalls : list (nat * list (slot_post Z)) := [(0%nat, w_posts); (1%nat, w_posts); (0%nat, w_posts)].
Example w_counts_total :
  counts_total (@action_accum Z) 2 w_pcalls 0 5 = 3 /\ counts_total (stepdiag_accum 4) 2 w_pcalls 1 3 = 3.
Proof. vm_compute. split; reflexivity. Qed.

Example w_detector_steps_are_delivered :
  filter (@det_valid Z) w_view1 = map snd (delivered w_pdet w_view1) /\ length (filter (@det_valid Z) w_view1) = 1%nat.
Proof. vm_compute. split; reflexivity. Qed.
