(** * C17 — witnesses for the loop theorems: a two-slot run with slot reuse
    (a secondary taking its parent's slot, a queued track filling a vacated
    slot) satisfies the hypotheses, and both sides of the equalities are
    non-trivial. *)
From Coq Require Import List ZArith Bool.
From Celer Require Import C17.Gather C17.GatherProofs C17.Loop C17.LoopProofs C17.LoopProofs2 C17.GatherWitness.
Import ListNotations.
Local Open Scope Z_scope.

Definition wi (init : option key) (kill : bool) (sec : option key) : linput Z :=
  {| i_init := init; i_kill := kill; i_secondary := sec; i_pre := zpre; i_post := zpost |}.

(* event 0: track 0 (particle 0) takes 2 steps, its secondary track 2 (particle 1)
   takes its slot and 1 step; track 1 takes 3 steps; then track 3 (event 1) fills
   slot 0 and takes 1 step *)
Definition w_hist : list (list (linput Z)) :=
  [ [wi (Some (0, 0, 0)) false None; wi (Some (0, 1, 0)) false None];
    [wi None true (Some (0, 2, 1));  wi None false None];
    [wi None true None;              wi None true None];
    [wi (Some (1, 3, 0)) true None;  wi None false None] ].

Definition w_sel_min : selection :=
  let n := {| s_time := false; s_pos := false; s_dir := false; s_vol := false; s_energy := false |} in
  {| s_pre := n; s_post := n; s_event := true; s_parent := false; s_nsteps := false;
     s_action := false; s_steplen := false; s_particle := true; s_edep := false |}.
Definition w_pmin : params := {| p_sel := w_sel_min; p_detector := []; p_nonzero := false |}.

Example w_hist_lengths : Forall (fun inp => length inp = 2%nat) w_hist.
Proof. repeat constructor. Qed.

Example w_hist_fresh : NoDup (all_inits w_hist).
Proof.
  vm_compute. repeat constructor; simpl; intuition discriminate.
Qed.

Example w_hist_complete :
  Forall (fun st => st = None) (snd (loop_run (repeat None 2) w_hist)).
Proof. vm_compute. repeat constructor. Qed.

Definition w_lsteps := fst (loop_run (repeat None 2) w_hist).

(* step counters at death: 2 (track 0), 1 (track 2), 3 (track 1), 1 (track 3) *)
Example w_nsteps_at_death :
  map (@b_nsteps Z) (filter (fun b => is_killed (b_status b)) (flat_map snd w_lsteps)) = [2; 1; 3; 1].
Proof. vm_compute. reflexivity. Qed.

Example w_delivered_counts :
  map (fun k => cnt k (map row_key (stream w_pmin (run_views (Z.eqb 0) w_pmin w_lsteps [row0 0; row0 0]))))
      [(0, 0, 0); (0, 2, 1); (0, 1, 0); (1, 3, 0)] = [2; 1; 3; 1]%nat.
Proof. vm_compute. reflexivity. Qed.

(* 3 bins (last = overflow): particle 0 -> one track with 1 step, two in the overflow bin *)
Example w_hist_sides :
  map (fun j => stepdiag_run 3 w_lsteps counts0 0 j) [0; 1; 2] = [0; 1; 2] /\
  map (fun j => hist_delivered 3 (stream w_pmin (run_views (Z.eqb 0) w_pmin w_lsteps [row0 0; row0 0])) 0 j)
      [0; 1; 2] = [0; 1; 2] /\
  stepdiag_run 3 w_lsteps counts0 1 1 = 1.
Proof. vm_compute. repeat split; reflexivity. Qed.

(* the delivered track_step_count values, in delivery order, for the same run
   (collector also selecting track_step_count): running counts per track *)
Definition w_sel_min_n : selection :=
  let n := {| s_time := false; s_pos := false; s_dir := false; s_vol := false; s_energy := false |} in
  {| s_pre := n; s_post := n; s_event := true; s_parent := false; s_nsteps := true;
     s_action := false; s_steplen := false; s_particle := true; s_edep := false |}.
Definition w_pmin_n : params := {| p_sel := w_sel_min_n; p_detector := []; p_nonzero := false |}.

Example w_running_counts :
  map (fun r => (row_key r, r_nsteps r))
      (stream w_pmin_n (run_views (Z.eqb 0) w_pmin_n w_lsteps [row0 0; row0 0]))
  = [((0, 0, 0), 1); ((0, 1, 0), 1); ((0, 0, 0), 2); ((0, 1, 0), 2);
     ((0, 2, 1), 1); ((0, 1, 0), 3); ((1, 3, 0), 1)].
Proof. vm_compute. reflexivity. Qed.
