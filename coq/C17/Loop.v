(** * C17 — executable model of the stepping loop's step counter, as far as the
    user-scoring observers can see it.

    Mirrors
      src/celeritas/track/SimTrackView.hh
          operator=(Initializer)       num_steps := 0              ([sim_init])
          increment_num_steps()        ++num_steps                 ([sim_increment])
      src/celeritas/global/alongstep/detail/TrackUpdater.hh
          called once per along-step for every non-errored active track
      the order of one ActionSequence iteration, per track slot:
          start   initialize_tracks fills a VACANT slot            ([i_init])
          pre / user_pre                                           (gather <pre>)
          along   TrackUpdater -> increment_num_steps
          post    interactions / tracking cut may kill the track   ([i_kill])
          user_post                                                (gather <post>, StepDiagnostic)
          end     a killed track's slot is vacated, or re-initialised in place
                  with its first secondary (ProcessSecondariesExecutor) ([i_secondary])

    A track is identified by [key] = (event id, track id, particle id).  Errored
    tracks (TrackStatus::errored, for which TrackUpdater returns early) are not
    part of this model: the loop theorems are about runs without errored tracks,
    like [no_errored] in GatherProofs.v.  NO proofs in this file. *)
From Coq Require Import List ZArith Bool.
From Celer Require Import C17.Gather.
Import ListNotations.
Local Open Scope Z_scope.
Set Implicit Arguments.

Definition key := (Z * Z * Z)%type.       (* event, track, particle *)
Definition kevent (k : key) : Z := fst (fst k).
Definition ktrack (k : key) : Z := snd (fst k).
Definition kparticle (k : key) : Z := snd k.

(* the part of SimStateData / ParticleStateData of one slot that matters here *)
Record trk := { k_key : key; k_nsteps : Z }.

(* SimTrackView::operator=(Initializer_t const&) *)
Definition sim_init (k : key) : trk := {| k_key := k; k_nsteps := 0 |}.
(* SimTrackView::increment_num_steps *)
Definition sim_increment (t : trk) : trk := {| k_key := k_key t; k_nsteps := k_nsteps t + 1 |}.

(* what happens to one slot in one iteration: (init at start, killed, secondary at end) *)
Definition core_in := (option key * bool * option key)%type.
(* what the observers at user_post see of an occupied slot: (key, num_steps, killed) *)
Definition lrec := (key * Z * bool)%type.

Definition core_slot (st : option trk) (i : core_in) : option trk * option lrec :=
  let '(oinit, kill, osec) := i in
  (* start: initialize_tracks only touches vacant slots *)
  let occ := match st with Some t => Some t | None => option_map sim_init oinit end in
  match occ with
  | None => (None, None)
  | Some t =>
      (* along-step: TrackUpdater *)
      let t' := sim_increment t in
      (* end: vacate / first secondary takes the parent's slot *)
      let st' := if kill then option_map sim_init osec else Some t' in
      (st', Some (k_key t', k_nsteps t', kill))
  end.

Section Loop.
Variable F : Type.

Record linput := {
  i_init : option key;
  i_kill : bool;
  i_secondary : option key;
  i_pre : slot_pre F;        (* payload: everything the loop model does not control *)
  i_post : slot_post F }.

Definition i_core (i : linput) : core_in := (i_init i, i_kill i, i_secondary i).

Definition pre_with_status (s : status) (a : slot_pre F) : slot_pre F :=
  {| a_status := s; a_time := a_time a; a_pos := a_pos a; a_dir := a_dir a;
     a_outside := a_outside a; a_vol := a_vol a; a_energy := a_energy a |}.

Definition post_inactive (b : slot_post F) : slot_post F :=
  {| b_status := Inactive; b_track := b_track b; b_event := b_event b; b_parent := b_parent b;
     b_nsteps := b_nsteps b; b_action := b_action b; b_steplen := b_steplen b; b_time := b_time b;
     b_pos := b_pos b; b_dir := b_dir b; b_outside := b_outside b; b_vol := b_vol b;
     b_particle := b_particle b; b_energy := b_energy b; b_edep := b_edep b |}.

Definition post_active (r : lrec) (b : slot_post F) : slot_post F :=
  let '(k, n, kill) := r in
  {| b_status := if kill then Killed else Alive;
     b_track := ktrack k; b_event := kevent k; b_parent := b_parent b;
     b_nsteps := n; b_action := b_action b; b_steplen := b_steplen b; b_time := b_time b;
     b_pos := b_pos b; b_dir := b_dir b; b_outside := b_outside b; b_vol := b_vol b;
     b_particle := kparticle k; b_energy := b_energy b; b_edep := b_edep b |}.

(* one slot, one iteration: new slot state and what user_pre / user_post observe *)
Definition loop_slot (st : option trk) (i : linput) : option trk * (slot_pre F * slot_post F) :=
  let r := core_slot st (i_core i) in
  (fst r,
   match snd r with
   | None => (pre_with_status Inactive (i_pre i), post_inactive (i_post i))
   | Some rec => (pre_with_status Alive (i_pre i), post_active rec (i_post i))
   end).

Fixpoint loop_iter (sigma : list (option trk)) (inp : list linput)
    : list (option trk) * list (slot_pre F * slot_post F) :=
  match sigma, inp with
  | st :: sigma', i :: inp' =>
      let r := loop_slot st i in
      let rest := loop_iter sigma' inp' in
      (fst r :: fst rest, snd r :: snd rest)
  | _, _ => ([], [])
  end.

Definition iter_step (abs : list (slot_pre F * slot_post F)) : step F :=
  (map fst abs, map snd abs).

(* a whole run: the (pre, post) observations of every iteration and the final slots *)
Fixpoint loop_run (sigma : list (option trk)) (h : list (list linput))
    : list (step F) * list (option trk) :=
  match h with
  | [] => ([], sigma)
  | inp :: h' =>
      let r := loop_iter sigma inp in
      let rest := loop_run (fst r) h' in
      (iter_step (snd r) :: fst rest, snd rest)
  end.

Definition olist {A} (o : option A) : list A := match o with Some x => [x] | None => [] end.

(* every track id handed to an initialisation during the run *)
Definition inits_of (i : linput) : list key := olist (i_init i) ++ olist (i_secondary i).
Definition all_inits (h : list (list linput)) : list key := flat_map (flat_map inits_of) h.

End Loop.
