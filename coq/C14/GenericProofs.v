(** * C14: GenericCalculator over R — knot exactness, betweenness, clamping,
    continuity on the whole line, monotone preservation, inverse *)
From Coq Require Import Reals ZArith List Lra Lia Bool Psatz.
From Celer Require Import Base.Num Base.NumR C18.Algorithms C18.Specs C18.ArrayLemmas
  C18.Grids C18.GridProofs C14.Calc C14.XsProofs C14.RangeProofs C14.Generic.
Import ListNotations.
Local Open Scope R_scope.

(** validity of a GenericGridRecord (operator bool + the constructor's
    CELER_EXPECTs; "sorted" is strict: a duplicated x makes the slope 0/0) *)
Definition generic_valid (g : ggrid R) : Prop :=
  increasing (gg_x g) /\ (2 <= length (gg_x g))%nat /\ length (gg_y g) = length (gg_x g).

(** ** general facts on increasing lists and NonuniformGrid::find *)
Lemma increasing_le : forall (l : list R) i j, increasing l -> (i <= j)%nat -> (j < length l)%nat ->
  get 0 l i <= get 0 l j.
Proof.
  intros l i j Hinc Hij Hj. destruct (Nat.eq_dec i j) as [->|]; [lra|].
  left. apply Hinc; lia.
Qed.

Lemma nu_find_unique_gen : forall (l : list R) v (i : nat), increasing l -> (i + 1 < length l)%nat ->
  get 0 l i <= v < get 0 l (i + 1) -> nu_find l v = i.
Proof.
  intros l v i Hinc Hi Hb.
  assert (Hr : get 0 l 0 <= v < get 0 l (length l - 1)).
  { split.
    - eapply Rle_trans; [|apply Hb]. apply increasing_le; auto; lia.
    - eapply Rlt_le_trans; [apply Hb|]. apply increasing_le; auto; lia. }
  destruct (nu_find_spec l v Hinc ltac:(lia) Hr) as (N1 & N2). cbn zeta in N1, N2.
  set (j := nu_find l v) in *.
  destruct (lt_eq_lt_dec j i) as [[Hlt|Heq]|Hgt]; [exfalso|exact Heq|exfalso].
  - pose proof (increasing_le l (j + 1) i Hinc ltac:(lia) ltac:(lia)). lra.
  - pose proof (increasing_le l (i + 1) j Hinc ltac:(lia) ltac:(lia)). lra.
Qed.

Lemma lin_interp_continuous : forall xl yl xr yr y : R, continuity_pt (lin_interp xl yl xr yr) y.
Proof.
  intros. apply derivable_continuous_pt.
  unfold lin_interp. numR. unfold derivable_pt. eexists.
  apply (derivable_pt_lim_plus (fun x => _ * (- xl + x)) (fun _ => yl) y).
  - apply derivable_pt_lim_scal. apply (derivable_pt_lim_plus (fun _ => - xl) id).
    + apply derivable_pt_lim_const.
    + apply derivable_pt_lim_id.
  - apply derivable_pt_lim_const.
Qed.

Lemma lin_strict : forall xl yl xr yr x x' : R, xl < xr -> yl < yr -> x < x' ->
  lin_interp xl yl xr yr x < lin_interp xl yl xr yr x'.
Proof.
  intros. rewrite !lin_interp_eq by assumption.
  assert ((x - xl) / (xr - xl) < (x' - xl) / (xr - xl)).
  { unfold Rdiv. apply Rmult_lt_compat_r; [apply Rinv_0_lt_compat|]; lra. }
  nra.
Qed.

Section GenericTable.
  Variable g : ggrid R.
  Hypothesis V : generic_valid g.
  Let n := length (gg_x g).
  Let X (i : nat) : R := get 0 (gg_x g) i.
  Let Y (i : nat) : R := get 0 (gg_y g) i.
  Let Hinc : increasing (gg_x g) := proj1 V.

  Lemma gn_ge_2 : (2 <= n)%nat.
  Proof. exact (proj1 (proj2 V)). Qed.

  Lemma X_lt : forall i j, (i < j)%nat -> (j < n)%nat -> X i < X j.
  Proof. intros. apply Hinc; assumption. Qed.

  Lemma X_le : forall i j, (i <= j)%nat -> (j < n)%nat -> X i <= X j.
  Proof. intros. apply increasing_le; assumption. Qed.

  (** the in-bin formula *)
  Definition generic_bin (i : nat) (x : R) : R :=
    lin_interp (X i) (Y i) (X (i + 1)) (Y (i + 1)) x.

  (** *** clamping: the end values are extended outward as constants *)
  Lemma generic_below : forall x, x <= X 0 -> generic_calc g x = Y 0.
  Proof.
    intros x Hx. unfold generic_calc. cbn zeta. numR. fold (X 0).
    destruct (Rleb_spec x (X 0)); [reflexivity|lra].
  Qed.

  Lemma generic_above : forall x, X (n - 1) <= x -> generic_calc g x = Y (n - 1).
  Proof.
    intros x Hx. unfold generic_calc. cbn zeta. numR. fold n. fold (X 0). fold (X (n - 1)).
    pose proof gn_ge_2 as Hn. pose proof (X_lt 0 (n - 1) ltac:(lia) ltac:(lia)).
    destruct (Rleb_spec x (X 0)); [lra|].
    destruct (Rleb_spec (X (n - 1)) x); [reflexivity|lra].
  Qed.

  Lemma generic_in_bin : forall x i, (i + 1 < n)%nat -> X i <= x < X (i + 1) -> X 0 < x ->
    generic_calc g x = generic_bin i x.
  Proof.
    intros x i Hi Hb H0. unfold generic_calc. cbn zeta. numR. fold n. fold (X 0). fold (X (n - 1)).
    pose proof (X_le (i + 1) (n - 1) ltac:(lia) ltac:(lia)).
    destruct (Rleb_spec x (X 0)); [lra|].
    destruct (Rleb_spec (X (n - 1)) x); [lra|].
    rewrite (nu_find_unique_gen (gg_x g) x i Hinc Hi Hb). reflexivity.
  Qed.

  (** on the CLOSED bin the lookup is the (continuous) bin formula *)
  Theorem generic_on_closed_bin : forall x i, (i + 1 < n)%nat -> X i <= x <= X (i + 1) ->
    generic_calc g x = generic_bin i x.
  Proof.
    intros x i Hi [H0 H1].
    pose proof (X_lt i (i + 1) ltac:(lia) Hi) as Hii.
    destruct H1 as [H1|H1].
    - destruct (Rle_lt_dec x (X 0)) as [Hx0|Hx0].
      + (* only possible for i = 0, x = X 0 *)
        assert (i = 0)%nat.
        { destruct i; [reflexivity|]. pose proof (X_lt 0 (S i) ltac:(lia) ltac:(lia)). lra. }
        subst i. assert (x = X 0) by lra. subst x.
        rewrite generic_below by lra. unfold generic_bin. rewrite lin_interp_left; auto.
      + apply generic_in_bin; auto.
    - subst x. unfold generic_bin. rewrite lin_interp_right by exact Hii.
      destruct (Nat.eq_dec (i + 1) (n - 1)) as [E|E].
      + rewrite generic_above by (rewrite E; lra). rewrite E. reflexivity.
      + rewrite (generic_in_bin (X (i + 1)) (i + 1)); try lia.
        * unfold generic_bin. apply lin_interp_left. apply X_lt; lia.
        * split; [lra|]. apply X_lt; lia.
        * apply X_lt; lia.
  Qed.

  (** *** knot exactness *)
  Theorem generic_at_knots : forall i, (i < n)%nat -> generic_calc g (X i) = generic_at g i.
  Proof.
    intros i Hi. change (generic_at g i) with (Y i). pose proof gn_ge_2 as Hn.
    destruct (Nat.eq_dec i (n - 1)) as [E|E].
    - subst i. apply generic_above. lra.
    - rewrite (generic_on_closed_bin (X i) i) by (first [lia | split; [lra|left; apply X_lt; lia]]).
      unfold generic_bin. apply lin_interp_left. apply X_lt; lia.
  Qed.

  (** every x is below, above, or in exactly one half-open bin *)
  Lemma generic_cases : forall x,
    x <= X 0 \/ X (n - 1) <= x \/
    exists i, (i + 1 < n)%nat /\ X i <= x < X (i + 1) /\ X 0 < x /\ nu_find (gg_x g) x = i.
  Proof.
    intros x. destruct (Rle_lt_dec x (X 0)) as [H0|H0]; [left; exact H0|].
    destruct (Rle_lt_dec (X (n - 1)) x) as [H1|H1]; [right; left; exact H1|].
    right; right. pose proof gn_ge_2 as Hn.
    destruct (nu_find_spec (gg_x g) x Hinc Hn) as (N1 & N2).
    { fold n. fold (X 0). fold (X (n - 1)). lra. }
    exists (nu_find (gg_x g) x). fold n in N1. auto.
  Qed.

  (** *** betweenness *)
  Theorem generic_between : forall x i, (i + 1 < n)%nat -> X i <= x <= X (i + 1) ->
    Rmin (generic_at g i) (generic_at g (i + 1)) <= generic_calc g x
      <= Rmax (generic_at g i) (generic_at g (i + 1)).
  Proof.
    intros x i Hi Hb. rewrite (generic_on_closed_bin x i Hi Hb). unfold generic_bin.
    apply lin_interp_between; [apply X_lt; lia|exact Hb].
  Qed.

  (** ... with the bin the calculator itself selects *)
  Theorem generic_between_found : forall x, X 0 <= x < X (n - 1) ->
    let i := nu_find (gg_x g) x in
    (i + 1 < n)%nat /\ X i <= x < X (i + 1) /\
    Rmin (generic_at g i) (generic_at g (i + 1)) <= generic_calc g x
      <= Rmax (generic_at g i) (generic_at g (i + 1)).
  Proof.
    intros x Hx. pose proof gn_ge_2 as Hn.
    destruct (nu_find_spec (gg_x g) x Hinc Hn Hx) as (N1 & N2). cbn zeta in *. fold n in N1.
    split; [exact N1|]. split; [exact N2|]. apply generic_between; [exact N1|].
    fold (X (nu_find (gg_x g) x)) in N2. fold (X (nu_find (gg_x g) x + 1)) in N2. lra.
  Qed.

  (** the result is always one of the end values or between two neighbouring
      tabulated values; in particular non-negative tables give non-negative
      lookups *)
  Theorem generic_nonneg : (forall i, (i < n)%nat -> 0 <= generic_at g i) ->
    forall x, 0 <= generic_calc g x.
  Proof.
    intros Hy x. pose proof gn_ge_2 as Hn.
    destruct (generic_cases x) as [A|[A|(i & Hi & Hb & H0 & _)]].
    - rewrite generic_below by exact A. apply (Hy 0%nat). lia.
    - rewrite generic_above by exact A. apply (Hy (n - 1)%nat). lia.
    - pose proof (generic_between x i Hi ltac:(lra)) as [B _].
      pose proof (Hy i ltac:(lia)). pose proof (Hy (i + 1)%nat ltac:(lia)).
      eapply Rle_trans; [|exact B]. apply Rmin_glb; assumption.
  Qed.

  (** *** continuity on the whole real line *)
  Theorem generic_continuous : forall x, continuity_pt (generic_calc g) x.
  Proof.
    intros x. pose proof gn_ge_2 as Hn.
    pose proof (X_lt 0 1 ltac:(lia) ltac:(lia)) as H01.
    pose proof (X_lt (n - 2) (n - 1) ltac:(lia) ltac:(lia)) as Hlast.
    assert (Cc : forall c y, continuity_pt (fun _ : R => c) y).
    { intros c y. apply derivable_continuous_pt. apply derivable_pt_const. }
    destruct (Rlt_le_dec x (X 0)) as [L0|L0].
    { (* strictly below the grid: locally constant *)
      apply (continuity_glue _ (fun _ => Y 0) (fun _ => Y 0) (x - 1) x (X 0)); try apply Cc; try lra;
        intros; apply generic_below; lra. }
    destruct L0 as [L0|L0].
    2:{ (* first grid point: constant on the left, bin 0 on the right *)
      subst x.
      apply (continuity_glue _ (fun _ => Y 0) (generic_bin 0) (X 0 - 1) (X 0) (X 1)); try apply Cc; try lra.
      - intros; apply generic_below; lra.
      - intros y Hy. apply generic_on_closed_bin; [lia|exact Hy].
      - apply lin_interp_continuous. }
    destruct (Rlt_le_dec (X (n - 1)) x) as [L1|L1].
    { apply (continuity_glue _ (fun _ => Y (n - 1)) (fun _ => Y (n - 1)) (X (n - 1)) x (x + 1)); try apply Cc; try lra;
        intros; apply generic_above; lra. }
    destruct L1 as [L1|L1].
    2:{ (* last grid point: bin n-2 on the left, constant on the right *)
      subst x.
      apply (continuity_glue _ (generic_bin (n - 2)) (fun _ => Y (n - 1)) (X (n - 2)) (X (n - 1)) (X (n - 1) + 1));
        try apply Cc; try lra.
      - intros y Hy. apply generic_on_closed_bin; [lia|]. replace (n - 2 + 1)%nat with (n - 1)%nat by lia. exact Hy.
      - intros; apply generic_above; lra.
      - apply lin_interp_continuous. }
    destruct (generic_cases x) as [A|[A|(i & Hi & Hb & H0 & _)]]; [lra|lra|].
    destruct Hb as [[Hb0|Hb0] Hb1].
    - (* strictly inside bin i *)
      apply (continuity_glue _ (generic_bin i) (generic_bin i) (X i) x (X (i + 1))); try apply lin_interp_continuous; try lra;
        intros y Hy; apply generic_on_closed_bin; auto; lra.
    - (* interior grid point i (i > 0): bins i-1 and i *)
      assert (Hi0 : (0 < i)%nat).
      { destruct i; [|lia]. exfalso. lra. }
      subst x.
      apply (continuity_glue _ (generic_bin (i - 1)) (generic_bin i) (X (i - 1)) (X i) (X (i + 1)));
        try apply lin_interp_continuous.
      + split; apply X_lt; lia.
      + intros y Hy. apply generic_on_closed_bin; [lia|]. replace (i - 1 + 1)%nat with i by lia. exact Hy.
      + intros y Hy. apply generic_on_closed_bin; auto.
  Qed.

  (** *** monotone preservation *)
  Section Monotone.
    Hypothesis Ymono : forall i j, (i <= j)%nat -> (j < n)%nat -> Y i <= Y j.

    Lemma generic_lower_bound : forall x i, (i < n)%nat -> X i <= x -> Y i <= generic_calc g x.
    Proof.
      intros x i Hi Hx. pose proof gn_ge_2 as Hn.
      destruct (generic_cases x) as [A|[A|(j & Hj & Hb & H0 & _)]].
      - assert (i = 0)%nat.
        { destruct i; [reflexivity|]. pose proof (X_lt 0 (S i) ltac:(lia) Hi). lra. }
        subst i. rewrite generic_below by exact A. lra.
      - rewrite generic_above by exact A. apply Ymono; lia.
      - assert (Hij : (i <= j)%nat).
        { destruct (le_lt_dec i j); [assumption|]. exfalso.
          pose proof (X_le (j + 1) i ltac:(lia) Hi). lra. }
        pose proof (generic_between x j Hj ltac:(lra)) as [B _].
        change (generic_at g j) with (Y j) in B. change (generic_at g (j + 1)) with (Y (j + 1)) in B.
        pose proof (Ymono j (j + 1) ltac:(lia) Hj) as Hjj. rewrite Rmin_left in B by exact Hjj.
        eapply Rle_trans; [apply (Ymono i j Hij); lia|exact B].
    Qed.

    Lemma generic_upper_bound : forall x i, (i < n)%nat -> x <= X i -> generic_calc g x <= Y i.
    Proof.
      intros x i Hi Hx. pose proof gn_ge_2 as Hn.
      destruct (generic_cases x) as [A|[A|(j & Hj & Hb & H0 & _)]].
      - rewrite generic_below by exact A. apply Ymono; lia.
      - assert (i = n - 1)%nat.
        { destruct (Nat.eq_dec i (n - 1)); [assumption|]. exfalso.
          pose proof (X_lt i (n - 1) ltac:(lia) ltac:(lia)). lra. }
        subst i. rewrite generic_above by exact A. lra.
      - destruct (le_lt_dec (j + 1) i) as [Hij|Hij].
        + pose proof (generic_between x j Hj ltac:(lra)) as [_ B].
          change (generic_at g j) with (Y j) in B. change (generic_at g (j + 1)) with (Y (j + 1)) in B.
          pose proof (Ymono j (j + 1) ltac:(lia) Hj) as Hjj. rewrite Rmax_right in B by exact Hjj.
          eapply Rle_trans; [exact B|apply (Ymono (j + 1)%nat i Hij Hi)].
        + (* x = X i = X j *)
          assert (i = j).
          { destruct (Nat.eq_dec i j); [assumption|]. exfalso.
            assert (Q1 : (i < j)%nat) by lia. assert (Q2 : (j < n)%nat) by lia.
            pose proof (X_lt i j Q1 Q2). lra. }
          subst i. assert (x = X j) by lra. subst x.
          rewrite (generic_at_knots j Hi). apply Rle_refl.
    Qed.

    Theorem generic_monotone : forall x1 x2, x1 <= x2 -> generic_calc g x1 <= generic_calc g x2.
    Proof.
      intros x1 x2 H12. pose proof gn_ge_2 as Hn.
      destruct (generic_cases x1) as [A|[A|(i & Hi & Hb & H0 & _)]].
      - rewrite (generic_below x1 A).
        destruct (Rle_lt_dec x2 (X 0)); [rewrite generic_below by assumption; lra|].
        apply generic_lower_bound; [lia|lra].
      - rewrite (generic_above x1 A), (generic_above x2) by lra. lra.
      - destruct (Rlt_le_dec x2 (X (i + 1))) as [S|S].
        + rewrite (generic_in_bin x1 i Hi Hb H0), (generic_in_bin x2 i Hi) by lra.
          unfold generic_bin. apply lin_mono; [apply X_lt; lia|apply Ymono; lia|exact H12].
        + eapply Rle_trans; [apply (generic_upper_bound x1 (i + 1)); [exact Hi|lra]|].
          apply generic_lower_bound; [exact Hi|exact S].
    Qed.
  End Monotone.

  (** strictly increasing values: strictly increasing lookup on the grid's
      range, and make_inverse()/from_inverse() is the inverse function there,
      composed with the clamp outside *)
  Section Strict.
    Hypothesis Yinc : increasing (gg_y g).

    Lemma Y_lt : forall i j, (i < j)%nat -> (j < n)%nat -> Y i < Y j.
    Proof. intros i j Hij Hj. apply Yinc; [exact Hij|]. rewrite (proj2 (proj2 V)). exact Hj. Qed.

    Lemma Y_le : forall i j, (i <= j)%nat -> (j < n)%nat -> Y i <= Y j.
    Proof.
      intros i j Hij Hj. destruct (Nat.eq_dec i j) as [->|]; [lra|]. left. apply Y_lt; [lia|exact Hj].
    Qed.

    Lemma generic_inverse_valid : generic_valid (generic_inverse g).
    Proof.
      unfold generic_valid, generic_inverse. cbn [gg_x gg_y].
      rewrite (proj2 (proj2 V)). split; [exact Yinc|]. split; [exact gn_ge_2|reflexivity].
    Qed.

    Theorem generic_strictly_monotone : forall x1 x2, X 0 <= x1 -> x1 < x2 -> x2 <= X (n - 1) ->
      generic_calc g x1 < generic_calc g x2.
    Proof.
      intros x1 x2 H1 H12 H2. pose proof gn_ge_2 as Hn.
      destruct (generic_cases x1) as [A|[A|(i & Hi & Hb & H0 & _)]].
      - assert (x1 = X 0) by lra. subst x1.
        rewrite (generic_on_closed_bin (X 0) 0) by (first [lia | split; [lra|left; apply X_lt; lia]]).
        destruct (Rlt_le_dec x2 (X (0 + 1))) as [S|S].
        + rewrite (generic_in_bin x2 0) by (first [lia | lra]).
          unfold generic_bin. apply lin_strict; [apply X_lt; lia|apply Y_lt; lia|exact H12].
        + unfold generic_bin. rewrite lin_interp_left by (apply X_lt; lia).
          eapply Rlt_le_trans; [apply (Y_lt 0 (0 + 1)); lia|].
          apply (generic_lower_bound Y_le); [lia|exact S].
      - lra.
      - destruct (Rlt_le_dec x2 (X (i + 1))) as [S|S].
        + rewrite (generic_in_bin x1 i Hi Hb H0), (generic_in_bin x2 i Hi) by lra.
          unfold generic_bin. apply lin_strict; [apply X_lt; lia|apply Y_lt; lia|exact H12].
        + rewrite (generic_in_bin x1 i Hi Hb H0).
          eapply Rlt_le_trans; [|apply (generic_lower_bound Y_le x2 (i + 1)); [exact Hi|exact S]].
          unfold generic_bin. apply lin_bounds; [apply X_lt; lia|apply Y_lt; lia|exact Hb].
    Qed.
  End Strict.
End GenericTable.

Theorem generic_clamping : forall g, generic_valid g -> forall x,
  (x <= get 0 (gg_x g) 0 -> generic_calc g x = generic_at g 0) /\
  (get 0 (gg_x g) (length (gg_x g) - 1) <= x -> generic_calc g x = generic_at g (length (gg_x g) - 1)).
Proof. intros g V x. split; [apply generic_below|apply (generic_above g V)]. Qed.

(** make_inverse / from_inverse: inverse of the lookup on [x_front, x_back],
    composed with the clamp outside it *)
Theorem generic_inverse_clamp : forall g, generic_valid g -> increasing (gg_y g) ->
  forall x,
  generic_calc (generic_inverse g) (generic_calc g x)
  = Rmax (get 0 (gg_x g) 0) (Rmin x (get 0 (gg_x g) (length (gg_x g) - 1))).
Proof.
  intros g V Yinc x. pose proof (generic_inverse_valid g V Yinc) as Vi.
  pose proof (gn_ge_2 g V) as Hn.
  assert (Hlen : length (gg_y g) = length (gg_x g)) by exact (proj2 (proj2 V)).
  pose proof (X_lt g V 0 (length (gg_x g) - 1) ltac:(lia) ltac:(lia)) as H0n.
  destruct (generic_cases g V x) as [A|[A|(i & Hi & Hb & H0 & _)]];
    set (n := length (gg_x g)) in *.
  - cbv beta in *. rewrite (generic_below g x A).
    pose proof (generic_at_knots (generic_inverse g) Vi 0) as K.
    cbv beta in K. unfold generic_at in K.
    change (gg_x (generic_inverse g)) with (gg_y g) in K. change (gg_y (generic_inverse g)) with (gg_x g) in K.
    rewrite Hlen in K. rewrite K by lia. rewrite Rmin_left by lra. rewrite Rmax_left by lra. reflexivity.
  - cbv beta in *. rewrite (generic_above g V x A). fold n.
    pose proof (generic_at_knots (generic_inverse g) Vi (n - 1)) as K.
    cbv beta in K. unfold generic_at in K.
    change (gg_x (generic_inverse g)) with (gg_y g) in K. change (gg_y (generic_inverse g)) with (gg_x g) in K.
    rewrite Hlen in K. rewrite K by lia. rewrite Rmin_right by lra. rewrite Rmax_right by lra. reflexivity.
  - cbv beta in *. rewrite Rmin_left by (pose proof (X_le g V (i + 1) (n - 1) ltac:(lia) ltac:(lia)); cbv beta in *; lra).
    rewrite Rmax_right by lra.
    rewrite (generic_in_bin g V x i Hi Hb H0).
    pose proof (X_lt g V i (i + 1) ltac:(lia) Hi) as Hxx.
    pose proof (Y_lt g V Yinc i (i + 1) ltac:(lia) Hi) as Hyy.
    rewrite (generic_on_closed_bin (generic_inverse g) Vi _ i).
    + unfold generic_bin. change (gg_x (generic_inverse g)) with (gg_y g).
      change (gg_y (generic_inverse g)) with (gg_x g). cbv beta. apply lin_inverse; assumption.
    + change (gg_x (generic_inverse g)) with (gg_y g). rewrite Hlen. exact Hi.
    + change (gg_x (generic_inverse g)) with (gg_y g). unfold generic_bin. cbv beta.
      pose proof (lin_bounds _ _ _ _ x Hxx Hyy Hb). lra.
Qed.

(** non-vacuity: a valid 3-point grid with increasing values, and the theorems
    applied to it *)
Example generic_valid_ex : generic_valid {| gg_x := [1; 2; 4]; gg_y := [3; 5; 6] |} /\
  increasing (gg_y {| gg_x := [1; 2; 4]; gg_y := [3; 5; 6] |}).
Proof.
  assert (I : forall a b c : R, a < b -> b < c -> increasing [a; b; c]).
  { intros a b c Hab Hbc i j Hij Hj. cbn in Hj. unfold get.
    destruct i as [|[|[|i]]]; destruct j as [|[|[|j]]]; cbn; try lia; lra. }
  split; [split; [|split]|]; cbn [gg_x gg_y]; try (apply I; lra); cbn; lia.
Qed.

Example generic_ex_value : generic_calc {| gg_x := [1; 2; 4]; gg_y := [3; 5; 6] |} 3 = 11 / 2.
Proof.
  destruct generic_valid_ex as [V _].
  rewrite (generic_on_closed_bin _ V 3 1%nat); [|cbn; lia|unfold get; cbn; lra].
  unfold generic_bin, get. cbn [gg_x gg_y nth Nat.add]. rewrite lin_interp_eq by lra. lra.
Qed.
