(** * C14: the mean energy loss is NOT monotone in the step across the
    linear/range switch (design suspicion F7 settled: refuted) *)
From Coq Require Import Reals ZArith List Lra Lia Bool.
From Celer Require Import Base.Num Base.NumR C18.Algorithms C18.Grids C14.Calc.
Import ListNotations.
Local Open Scope R_scope.

(** 2-knot tables on E in [1, e]: dE/dx = 1 everywhere, range 2 -> 4.
    At E = E_min = 1 the range table implies r(E) = 2 sqrt(E) below the table,
    i.e. dE/dr = 1 at E = 1: the two tables are consistent there. *)
Definition w_grid : ugrid R := ug_from_bounds 0 1 2.
Definition w_dedx : xsgrid R := {| xg_loge := w_grid; xg_prime := no_scaling; xg_vals := [1; 1] |}.
Definition w_range : xsgrid R := {| xg_loge := w_grid; xg_prime := no_scaling; xg_vals := [2; 4] |}.

Ltac decide_cmp :=
  repeat match goal with
  | |- context [Rleb ?a ?b] => destruct (Rleb_spec a b); try lra
  | |- context [Rltb ?a ?b] => destruct (Rltb_spec a b); try lra
  | |- context [Reqb ?a ?b] =>
      let E := fresh in destruct (Reqb ?a ?b) eqn:E;
      [apply Reqb_true in E; try lra | apply Reqb_false in E]
  end.

Lemma w_range_at_1 : range_calc w_range 1 = 2.
Proof.
  unfold range_calc, w_range, w_grid, ug_from_bounds. cbn [xg_loge xg_vals ug_front ug_back ug_size].
  numR. rewrite ln_1. decide_cmp. unfold xs_get; cbn.
  replace (1 / 2 * (0 - 0)) with 0 by lra. rewrite exp_0. lra.
Qed.

Lemma w_dedx_at_1 : xs_calc w_dedx 1 = 1.
Proof.
  unfold xs_calc, xs_extrap, w_dedx, w_grid, ug_from_bounds.
  cbn [xg_loge xg_vals xg_prime ug_front ug_back ug_size].
  numR. rewrite ln_1. destruct (Rleb_spec 0 0); [|lra]. reflexivity.
Qed.

Lemma w_loss_linear : forall s, 0 < s < 1 / 100 -> mean_loss w_dedx w_range (1/100) 1 2 s = s.
Proof.
  intros s Hs. unfold mean_loss. rewrite w_dedx_at_1. numR. decide_cmp.
Qed.

Lemma w_inv_range_below : forall r, 0 <= r < 2 -> inv_range_calc w_range r = (r / 2) * (r / 2).
Proof.
  intros r Hr. unfold inv_range_calc, w_range, w_grid, ug_from_bounds.
  cbn [xg_loge xg_vals ug_front ug_back ug_size]. numR. cbn [get nth].
  destruct (Rltb_spec r 2); [|lra]. rewrite exp_0. lra.
Qed.

Lemma w_loss_range : forall s, 1 / 100 <= s < 2 ->
  mean_loss w_dedx w_range (1/100) 1 2 s = 1 - ((2 - s) / 2) * ((2 - s) / 2).
Proof.
  intros s Hs. unfold mean_loss. rewrite w_dedx_at_1. numR.
  destruct (Rleb_spec (1 * (1 / 100)) (s * 1)); [|lra].
  destruct (Reqb s 2) eqn:E; [apply Reqb_true in E; lra|].
  rewrite w_inv_range_below by lra. reflexivity.
Qed.

(** a longer step loses LESS mean energy: 0.009975 at s = 0.01 vs 0.00999 at s = 0.00999 *)
Lemma mean_loss_monotone_refuted :
  exists (dedx rng : xsgrid R) (lll e range s1 s2 : R),
    (forall v, In v (xg_vals dedx) -> 0 < v) /\ (forall v, In v (xg_vals rng) -> 0 < v) /\
    0 < lll <= 1 /\ 0 < e /\ range_calc rng e = range /\
    0 < s1 < s2 /\ s2 <= range /\
    mean_loss dedx rng lll e range s2 < mean_loss dedx rng lll e range s1.
Proof.
  exists w_dedx, w_range, (1/100), 1, 2, (999/100000), (1/100).
  repeat split; try lra.
  - intros v [<-|[<-|[]]]; lra.
  - intros v [<-|[<-|[]]]; lra.
  - apply w_range_at_1.
  - rewrite (w_loss_linear (999/100000)) by lra. rewrite (w_loss_range (1/100)) by lra. lra.
Qed.
