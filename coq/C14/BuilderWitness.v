(** * C14: binary64 witness — without the soft_equal correction the builder
    stores prime_index one too low (Geant4's standard grid 100 eV..100 TeV,
    7 bins/decade = 85 points, prime energy at knot 79); the current code
    (with the correction) stores 79.  Floats only: no Reals here. *)
From Coq Require Import ZArith Floats.
From Celer Require Import Base.Num Base.NumF C18.Grids C14.Builder.

Lemma build_prime_uncorrected_refuted :
  exists (lmin le lmax : float) (n k : Z),
    build_prime_index_uncorrected lmin le lmax n = (k - 1)%Z /\
    build_prime_index 0x1.19799812dea11p-40%float 0x1.6849b86a12b9bp-47%float lmin le lmax n = k /\
    (* le is the logarithm of knot k to within a few ulp: |grid[k] - le| <= 2^-48 *)
    PrimFloat.ltb (PrimFloat.abs (PrimFloat.sub (ug_at (ug_from_bounds lmin lmax n) k) le)) 0x1p-48%float = true.
Proof.
  exists (-0x1.26bb1bbb55515p+3)%float, 0x1.0c6a66f852458p+4%float, 0x1.26bb1bbb55516p+4%float, 85%Z, 79%Z.
  repeat split; vm_compute; reflexivity.
Qed.
