(** * C14: non-vacuity of the positive monotonicity theorems: dE/dx = 1 on
    [1, e], range table {1, e} = its trapezoid integral (r_1 - r_0 = e - 1),
    particle at E = e with range e: all hypotheses of
    [mean_loss_monotone_consistent] hold, so the loss is monotone there. *)
From Coq Require Import Reals ZArith List Lra Lia Bool.
From Celer Require Import Base.Num Base.NumR C18.Algorithms C18.Grids C18.GridProofs
  C14.Calc C14.XsProofs C14.RangeProofs C14.LossProofs C14.LossWitness C14.LossExample C14.LossMonoProofs.
Import ListNotations.
Local Open Scope R_scope.

Definition c_range : xsgrid R := {| xg_loge := w_grid; xg_prime := no_scaling; xg_vals := [1; exp 1] |}.

Lemma e_gt_1 : 1 < exp 1.
Proof. pose proof (exp_ineq1 1 ltac:(lra)). lra. Qed.

Lemma w_at0 : ug_at w_grid 0 = 0.
Proof. unfold ug_at, w_grid, ug_from_bounds. cbn [ug_front ug_delta]. numR. lra. Qed.
Lemma w_at1 : ug_at w_grid 1 = 1.
Proof.
  unfold ug_at, w_grid, ug_from_bounds. cbn [ug_front ug_delta]. numR.
  change (2 - 1)%Z with 1%Z. lra.
Qed.

Lemma c_range_valid : range_valid c_range.
Proof.
  pose proof e_gt_1 as He. split; [|split].
  - unfold xs_valid. cbn [xg_loge xg_prime xg_vals c_range].
    split; [apply from_bounds_valid; [lia|lra]|]. split; [reflexivity|]. split; [left; reflexivity|].
    cbn. unfold no_scaling. lia.
  - unfold rv, xs_get. cbn. lra.
  - intros i j Hi Hij Hj. cbn in Hj. assert (i = 0%Z) by lia. assert (j = 1%Z) by lia. subst.
    unfold rv, xs_get, get. simpl. lra.
Qed.

Lemma w_dedx_at_e : xs_calc w_dedx (exp 1) = 1.
Proof.
  unfold xs_calc, xs_extrap, w_dedx, w_grid, ug_from_bounds.
  cbn [xg_loge xg_vals xg_prime ug_front ug_back ug_size].
  numR. rewrite ln_exp. destruct (Rleb_spec 1 0); [lra|]. destruct (Rleb_spec 1 1); [|lra].
  reflexivity.
Qed.

Lemma c_range_at_e : range_calc c_range (exp 1) = exp 1.
Proof.
  unfold range_calc, c_range, w_grid, ug_from_bounds. cbn [xg_loge xg_vals ug_front ug_back ug_size].
  numR. rewrite ln_exp. destruct (Rleb_spec 1 0); [lra|]. destruct (Rleb_spec 1 1); [|lra].
  reflexivity.
Qed.

Example loss_monotone_consistent_ex :
  loss_monotone w_dedx c_range (1 / 100) (exp 1) (exp 1).
Proof.
  destruct loss_hypotheses_ex as (Vd & Nd & _).
  pose proof e_gt_1 as He. pose proof c_range_valid as Vr.
  assert (Hk0 : knot c_range 0 = 1) by (unfold knot; cbn [xg_loge c_range]; rewrite w_at0; apply exp_0).
  assert (Hk1 : knot c_range 1 = exp 1) by (unfold knot; cbn [xg_loge c_range]; rewrite w_at1; reflexivity).
  apply (mean_loss_monotone_consistent w_dedx c_range Vd Nd Vr (1 / 100) (exp 1) (exp 1)); try lra.
  - rewrite c_range_at_e. lra.
  - split; [reflexivity|]. intros i I0 I1. cbn in I1. assert (i = 0%Z) by lia. subst i.
    change (0 + 1)%Z with 1%Z. rewrite Hk0, Hk1.
    unfold rv, xs_get, xs_at, w_dedx, c_range. cbn [xg_vals xg_prime xg_loge].
    unfold no_scaling. cbn. change (Pos.to_nat 1) with 1%nat. cbn. lra.
  - intros k K0 K1 _. cbn in K1. assert (k = 0%Z) by lia. subst k. rewrite w_dedx_at_e.
    unfold xs_at, xs_get, w_dedx. cbn [xg_vals xg_prime xg_loge]. unfold no_scaling. cbn.
    change (Pos.to_nat 1) with 1%nat. cbn. lra.
  - rewrite w_dedx_at_e. replace (rv c_range 0) with 1 by (unfold rv, xs_get; cbn; reflexivity).
    rewrite Rmin_right by lra.
    replace 1 with (rv c_range 0) at 3 by (unfold rv, xs_get; cbn; reflexivity).
    rewrite (inv_at_knot c_range Vr 0) by (cbn; lia). rewrite Hk0. lra.
Qed.
