(** * C14: XsCalculator over R *)
From Coq Require Import Reals ZArith List Lra Lia Bool Psatz.
From Celer Require Import Base.Num Base.NumR C18.Algorithms C18.Grids C18.GridProofs C14.Calc.
Import ListNotations.
Local Open Scope R_scope.

(** validity of an XsGridData (operator bool + from_bounds) *)
Definition xs_valid (g : xsgrid R) : Prop :=
  ug_valid (xg_loge g) /\ Z.of_nat (length (xg_vals g)) = ug_size (xg_loge g) /\
  (xg_prime g = no_scaling \/ (0 <= xg_prime g < ug_size (xg_loge g))%Z) /\
  (ug_size (xg_loge g) < no_scaling)%Z.

(** energy of knot i *)
Definition knot (g : xsgrid R) (i : Z) : R := exp (ug_at (xg_loge g) i).

Lemma knot_pos : forall g i, 0 < knot g i.
Proof. intros. apply exp_pos. Qed.

Lemma knot_mono : forall g i j, xs_valid g -> (i < j)%Z -> knot g i < knot g j.
Proof. intros g i j (Hv & _) Hij. apply exp_increasing. apply ug_at_mono; assumption. Qed.

(** find_bin_spec: the bin selected for E is the one whose knots bracket E *)
Lemma find_bin_spec : forall g E, xs_valid g -> knot g 0 <= E < knot g (ug_size (xg_loge g) - 1) ->
  let i := ug_find (xg_loge g) (ln E) in
  (0 <= i)%Z /\ (i + 1 < ug_size (xg_loge g))%Z /\ knot g i <= E < knot g (i + 1).
Proof.
  intros g E Hv [H0 H1]. pose proof Hv as (Hu & _).
  assert (HE : 0 < E) by (eapply Rlt_le_trans; [apply (knot_pos g 0)|exact H0]).
  assert (Hr : ug_front (xg_loge g) <= ln E < ug_back (xg_loge g)).
  { unfold knot in *. rewrite ug_at_first in H0. rewrite (ug_at_last _ Hu) in H1.
    split.
    - destruct H0 as [H0|H0]; [left; rewrite <- (ln_exp (ug_front _)); apply ln_increasing; [apply exp_pos|exact H0]
                              |right; rewrite <- H0; rewrite ln_exp; reflexivity].
    - rewrite <- (ln_exp (ug_back _)). apply ln_increasing; assumption. }
  destruct (ug_find_spec _ _ Hu Hr) as (F0 & F1 & F2). cbn zeta.
  split; [exact F0|]. split; [exact F1|]. unfold knot.
  set (i := ug_find (xg_loge g) (ln E)) in *.
  rewrite <- (exp_ln E HE) at 1 2. destruct F2 as [F2 F3]. split.
  - destruct F2 as [F2|F2]; [left; apply exp_increasing; exact F2|right; rewrite F2; reflexivity].
  - apply exp_increasing. exact F3.
Qed.

Lemma find_bin_unique : forall g E i, xs_valid g -> (0 <= i)%Z -> (i + 1 < ug_size (xg_loge g))%Z ->
  knot g i <= E < knot g (i + 1) -> ug_find (xg_loge g) (ln E) = i.
Proof.
  intros g E i Hv Hi0 Hi1 [H0 H1]. pose proof Hv as (Hu & _).
  assert (HE : 0 < E) by (eapply Rlt_le_trans; [apply (knot_pos g i)|exact H0]).
  assert (Hb : ug_at (xg_loge g) i <= ln E < ug_at (xg_loge g) (i + 1)).
  { unfold knot in *. split.
    - destruct H0 as [H0|H0]; [left; rewrite <- (ln_exp (ug_at _ i)); apply ln_increasing; [apply exp_pos|exact H0]
                              |right; rewrite <- H0; rewrite ln_exp; reflexivity].
    - rewrite <- (ln_exp (ug_at _ (i + 1))). apply ln_increasing; assumption. }
  apply ug_find_unique; auto. split.
  - eapply Rle_trans; [|apply Hb]. rewrite <- (ug_at_first (xg_loge g)).
    destruct (Z.eq_dec i 0) as [->|]; [lra|]. left. apply ug_at_mono; auto. lia.
  - eapply Rlt_le_trans; [apply Hb|]. rewrite <- (ug_at_last _ Hu).
    destruct (Z.eq_dec (i + 1) (ug_size (xg_loge g) - 1)) as [->|]; [lra|]. left. apply ug_at_mono; auto. lia.
Qed.

(** the in-bin formula of XsCalculator::operator() *)
Definition xs_bin (g : xsgrid R) (i : Z) (E : R) : R :=
  let upper_energy := knot g (i + 1) in
  let upper_xs0 := xs_get g (i + 1) in
  let upper_xs := if (i + 1 =? xg_prime g)%Z then upper_xs0 / upper_energy else upper_xs0 in
  let result := lin_interp (knot g i) (xs_get g i) upper_energy upper_xs E in
  if (xg_prime g <=? i)%Z then result / E else result.

Lemma xs_calc_in_bin : forall g E i, xs_valid g -> (0 <= i)%Z -> (i + 1 < ug_size (xg_loge g))%Z ->
  knot g i <= E < knot g (i + 1) -> knot g 0 < E ->
  xs_calc g E = xs_bin g i E.
Proof.
  intros g E i Hv Hi0 Hi1 Hb H0. pose proof Hv as (Hu & _).
  assert (HE : 0 < E) by (eapply Rlt_trans; [apply (knot_pos g 0)|exact H0]).
  unfold xs_calc. cbn zeta. numR.
  assert (Hl0 : ug_front (xg_loge g) < ln E).
  { rewrite <- (ln_exp (ug_front _)). apply ln_increasing; [apply exp_pos|].
    unfold knot in H0. rewrite ug_at_first in H0. exact H0. }
  assert (Hl1 : ln E < ug_back (xg_loge g)).
  { rewrite <- (ln_exp (ug_back _)). apply ln_increasing; [exact HE|].
    rewrite <- (ug_at_last _ Hu). eapply Rlt_le_trans; [apply Hb|].
    fold (knot g (i + 1)). fold (knot g (ug_size (xg_loge g) - 1)).
    destruct (Z.eq_dec (i + 1) (ug_size (xg_loge g) - 1)) as [->|]; [lra|]. left. apply knot_mono; auto. lia. }
  destruct (Rleb_spec (ln E) (ug_front (xg_loge g))); [lra|].
  destruct (Rleb_spec (ug_back (xg_loge g)) (ln E)); [lra|].
  rewrite (find_bin_unique g E i Hv Hi0 Hi1 Hb). reflexivity.
Qed.

(** ** xs_at_knots: the lookup reproduces the table at every knot *)
Theorem xs_at_knots : forall g i, xs_valid g -> (0 <= i < ug_size (xg_loge g))%Z ->
  xs_calc g (knot g i) = xs_at g i.
Proof.
  intros g i Hv Hi. pose proof Hv as (Hu & Hlen & Hpr & Hns).
  destruct (Z.eq_dec i 0) as [->|Hi0].
  - unfold xs_calc, xs_at, xs_extrap, knot. cbn zeta. numR. rewrite ln_exp, ug_at_first.
    destruct (Rleb_spec (ug_front (xg_loge g)) (ug_front (xg_loge g))); [reflexivity|lra].
  - destruct (Z.eq_dec i (ug_size (xg_loge g) - 1)) as [->|Hi1].
    + unfold xs_calc, xs_at, xs_extrap, knot. cbn zeta. numR. rewrite ln_exp, (ug_at_last _ Hu).
      destruct Hu as (Hs & Hfb & _).
      destruct (Rleb_spec (ug_back (xg_loge g)) (ug_front (xg_loge g))); [lra|].
      destruct (Rleb_spec (ug_back (xg_loge g)) (ug_back (xg_loge g))); [reflexivity|lra].
    + rewrite (xs_calc_in_bin g (knot g i) i Hv); try lia.
      * unfold xs_bin, xs_at. cbn zeta. rewrite lin_interp_left by (apply knot_mono; auto; lia).
        reflexivity.
      * split; [lra|apply knot_mono; auto; lia].
      * apply knot_mono; auto; lia.
Qed.

(** the value of the bin formula at its right end is the next knot's value *)
Lemma xs_bin_right : forall g i, xs_valid g -> (0 <= i)%Z -> (i + 1 < ug_size (xg_loge g))%Z ->
  xs_bin g i (knot g (i + 1)) = xs_at g (i + 1).
Proof.
  intros g i Hv Hi0 Hi1. destruct Hv as (Hu & Hlen & Hpr & Hns).
  unfold xs_bin, xs_at. cbn zeta. fold (knot g (i + 1)).
  rewrite lin_interp_right by (apply exp_increasing; apply ug_at_mono; auto; lia).
  pose proof (knot_pos g (i + 1)) as Hk.
  destruct (Z.eqb_spec (i + 1) (xg_prime g)) as [E|E].
  - destruct (Z.leb_spec (xg_prime g) i); [lia|].
    destruct (Z.leb_spec (xg_prime g) (i + 1)); [reflexivity|lia].
  - destruct (Z.leb_spec (xg_prime g) i); destruct (Z.leb_spec (xg_prime g) (i + 1)); try lia; reflexivity.
Qed.

(** ** xs_between_neighbours *)
Lemma ratio_between : forall e0 e1 v0 v1 E, 0 < e0 -> e0 < e1 -> e0 <= E <= e1 ->
  Rmin (v0 / e0) (v1 / e1) <= lin_interp e0 v0 e1 v1 E / E <= Rmax (v0 / e0) (v1 / e1).
Proof.
  intros e0 e1 v0 v1 E H0 H01 HE. rewrite lin_interp_eq by assumption.
  set (t := (E - e0) / (e1 - e0)).
  assert (Ht : 0 <= t <= 1).
  { unfold t. split; [apply Rle_mult_inv_pos; lra|].
    apply Rmult_le_reg_r with (e1 - e0); [lra|].
    replace ((E - e0) / (e1 - e0) * (e1 - e0)) with (E - e0) by (field; lra). lra. }
  assert (HEt : E = e0 * (1 - t) + e1 * t) by (unfold t; field; lra).
  set (p := v0 / e0). set (r := v1 / e1).
  assert (Hv0 : v0 = p * e0) by (unfold p; field; lra).
  assert (Hv1 : v1 = r * e1) by (unfold r; field; lra).
  assert (HEpos : 0 < E) by lra.
  clearbody p r t. subst v0 v1.
  assert (Ha : 0 <= e0 * (1 - t)) by nra.
  assert (Hb : 0 <= e1 * t) by nra.
  split.
  - apply Rmult_le_reg_r with E; [lra|].
    replace ((p * e0 + (r * e1 - p * e0) * t) / E * E) with (p * e0 + (r * e1 - p * e0) * t) by (field; lra).
    unfold Rmin. destruct (Rle_dec p r); rewrite HEt; nra.
  - apply Rmult_le_reg_r with E; [lra|].
    replace ((p * e0 + (r * e1 - p * e0) * t) / E * E) with (p * e0 + (r * e1 - p * e0) * t) by (field; lra).
    unfold Rmax. destruct (Rle_dec p r); rewrite HEt; nra.
Qed.

Lemma xs_bin_between : forall g i E, xs_valid g -> (0 <= i)%Z -> (i + 1 < ug_size (xg_loge g))%Z ->
  knot g i <= E <= knot g (i + 1) ->
  Rmin (xs_at g i) (xs_at g (i + 1)) <= xs_bin g i E <= Rmax (xs_at g i) (xs_at g (i + 1)).
Proof.
  intros g i E Hv Hi0 Hi1 HE. pose proof (knot_pos g i) as Hk0.
  pose proof (knot_mono g i (i + 1) Hv ltac:(lia)) as Hk01.
  unfold xs_bin, xs_at. cbn zeta. fold (knot g i). fold (knot g (i + 1)).
  destruct (Z.eqb_spec (i + 1) (xg_prime g)) as [Ep|Ep].
  - destruct (Z.leb_spec (xg_prime g) i); [lia|].
    destruct (Z.leb_spec (xg_prime g) (i + 1)); [|lia].
    apply lin_interp_between; assumption.
  - destruct (Z.leb_spec (xg_prime g) i); destruct (Z.leb_spec (xg_prime g) (i + 1)); try lia.
    + apply ratio_between; assumption.
    + apply lin_interp_between; assumption.
Qed.

Theorem xs_between_neighbours : forall g E, xs_valid g ->
  knot g 0 < E < knot g (ug_size (xg_loge g) - 1) ->
  let i := ug_find (xg_loge g) (ln E) in
  knot g i <= E < knot g (i + 1) /\
  Rmin (xs_at g i) (xs_at g (i + 1)) <= xs_calc g E <= Rmax (xs_at g i) (xs_at g (i + 1)).
Proof.
  intros g E Hv [H0 H1].
  destruct (find_bin_spec g E Hv ltac:(lra)) as (F0 & F1 & F2). cbn zeta.
  split; [exact F2|].
  rewrite (xs_calc_in_bin g E _ Hv F0 F1 F2 H0). apply xs_bin_between; auto. lra.
Qed.

(** ** xs_extrapolation: constant outside the table, or proportional to 1/E
    when the end knot is scaled *)
Theorem xs_extrapolation : forall g E, xs_valid g -> 0 < E ->
  (E <= knot g 0 ->
     xs_calc g E = if (xg_prime g <=? 0)%Z then xs_get g 0 / E else xs_get g 0) /\
  (knot g (ug_size (xg_loge g) - 1) <= E ->
     let n1 := (ug_size (xg_loge g) - 1)%Z in
     xs_calc g E = if (xg_prime g <=? n1)%Z then xs_get g n1 / E else xs_get g n1).
Proof.
  intros g E Hv HE. pose proof Hv as (Hu & _). split; intros H.
  - unfold xs_calc, xs_extrap. cbn zeta. numR.
    assert (ln E <= ug_front (xg_loge g)).
    { unfold knot in H. rewrite ug_at_first in H. rewrite <- (ln_exp (ug_front _)).
      destruct H as [H|H]; [left; apply ln_increasing; assumption|right; rewrite H; reflexivity]. }
    destruct (Rleb_spec (ln E) (ug_front (xg_loge g))); [reflexivity|lra].
  - unfold xs_calc, xs_extrap. cbn zeta. numR.
    assert (Hb : ug_back (xg_loge g) <= ln E).
    { unfold knot in H. rewrite (ug_at_last _ Hu) in H. rewrite <- (ln_exp (ug_back _)).
      destruct H as [H|H]; [left; apply ln_increasing; [apply exp_pos|assumption]|right; rewrite <- H; reflexivity]. }
    destruct Hu as (_ & Hfb & _).
    destruct (Rleb_spec (ln E) (ug_front (xg_loge g))); [lra|].
    destruct (Rleb_spec (ug_back (xg_loge g)) (ln E)); [reflexivity|lra].
Qed.

(** ** xs_nonneg *)
Definition vals_nonneg (g : xsgrid R) : Prop := forall i, 0 <= xs_get g i.

Lemma xs_at_nonneg : forall g i, vals_nonneg g -> 0 <= xs_at g i.
Proof.
  intros g i Hn. unfold xs_at. cbn zeta. numR. destruct (xg_prime g <=? i)%Z; [|apply Hn].
  apply Rle_mult_inv_pos; [apply Hn|apply exp_pos].
Qed.

Theorem xs_nonneg : forall g E, xs_valid g -> vals_nonneg g -> 0 < E -> 0 <= xs_calc g E.
Proof.
  intros g E Hv Hn HE.
  destruct (Rle_dec E (knot g 0)) as [H0|H0].
  - rewrite (proj1 (xs_extrapolation g E Hv HE) H0).
    destruct (xg_prime g <=? 0)%Z; [apply Rle_mult_inv_pos; [apply Hn|exact HE]|apply Hn].
  - destruct (Rle_dec (knot g (ug_size (xg_loge g) - 1)) E) as [H1|H1].
    + rewrite (proj2 (xs_extrapolation g E Hv HE) H1). cbn zeta.
      destruct (xg_prime g <=? _)%Z; [apply Rle_mult_inv_pos; [apply Hn|exact HE]|apply Hn].
    + destruct (xs_between_neighbours g E Hv ltac:(lra)) as (_ & Hb & _).
      eapply Rle_trans; [|exact Hb]. apply Rmin_glb; apply xs_at_nonneg; assumption.
Qed.

(** ** continuity across knots: on the CLOSED bin [E_i, E_i+1] the lookup is
    the bin formula (which is continuous: affine, or affine / E), so the left
    limit at every knot is the knot value, which is also the value of the next
    bin's formula there. *)
Theorem xs_calc_on_closed_bin : forall g E i, xs_valid g -> (0 <= i)%Z ->
  (i + 1 < ug_size (xg_loge g))%Z -> knot g i <= E <= knot g (i + 1) ->
  xs_calc g E = xs_bin g i E.
Proof.
  intros g E i Hv Hi0 Hi1 [H0 H1].
  destruct H1 as [H1|H1].
  - destruct H0 as [H0|H0].
    + apply xs_calc_in_bin; auto; [lra|]. eapply Rle_lt_trans; [|exact H0].
      destruct (Z.eq_dec i 0) as [->|]; [lra|]. left. apply knot_mono; auto. lia.
    + subst E. rewrite xs_at_knots by (auto; lia).
      unfold xs_bin, xs_at. cbn zeta. fold (knot g i). fold (knot g (i + 1)).
      rewrite lin_interp_left by (apply knot_mono; auto; lia). reflexivity.
  - subst E. rewrite xs_at_knots by (auto; lia). symmetry. apply xs_bin_right; auto.
Qed.

Lemma xs_bin_continuous : forall g i E, xs_valid g -> (0 <= i)%Z -> (i + 1 < ug_size (xg_loge g))%Z ->
  0 < E -> continuity_pt (xs_bin g i) E.
Proof.
  intros g i E Hv Hi0 Hi1 HE.
  pose proof (knot_mono g i (i + 1) Hv ltac:(lia)) as Hk.
  unfold xs_bin. cbn zeta.
  set (ux := if (i + 1 =? xg_prime g)%Z then _ else _).
  assert (Hlin : forall y, continuity_pt (lin_interp (knot g i) (xs_get g i) (knot g (i + 1)) ux) y).
  { intros y. apply derivable_continuous_pt.
    unfold lin_interp. numR. unfold derivable_pt. eexists. 
    apply (derivable_pt_lim_plus (fun x => _ * (- knot g i + x)) (fun _ => xs_get g i) y).
    - apply derivable_pt_lim_scal. apply (derivable_pt_lim_plus (fun _ => - knot g i) id).
      + apply derivable_pt_lim_const.
      + apply derivable_pt_lim_id.
    - apply derivable_pt_lim_const. }
  destruct (xg_prime g <=? i)%Z.
  - apply continuity_pt_div; [apply Hlin| |lra].
    apply derivable_continuous_pt. apply derivable_pt_id.
  - apply Hlin.
Qed.

(** gluing: two functions continuous at c that agree with f on either side *)
Lemma continuity_glue : forall f f1 f2 a c b, a < c < b ->
  (forall x, a <= x <= c -> f x = f1 x) -> (forall x, c <= x <= b -> f x = f2 x) ->
  continuity_pt f1 c -> continuity_pt f2 c -> continuity_pt f c.
Proof.
  intros f f1 f2 a c b Hac H1 H2 C1 C2 eps Heps.
  destruct (C1 eps Heps) as (d1 & Hd1 & K1). destruct (C2 eps Heps) as (d2 & Hd2 & K2).
  exists (Rmin (Rmin d1 d2) (Rmin (c - a) (b - c))). split.
  - repeat apply Rmin_pos; lra.
  - intros x [[_ Hne] Hd]. cbn in Hd, K1, K2. unfold R_dist in *.
    assert (Hx1 : Rabs (x - c) < d1) by (eapply Rlt_le_trans; [exact Hd|]; eapply Rle_trans; [apply Rmin_l|apply Rmin_l]).
    assert (Hx2 : Rabs (x - c) < d2) by (eapply Rlt_le_trans; [exact Hd|]; eapply Rle_trans; [apply Rmin_l|apply Rmin_r]).
    assert (Hxa : Rabs (x - c) < c - a) by (eapply Rlt_le_trans; [exact Hd|]; eapply Rle_trans; [apply Rmin_r|apply Rmin_l]).
    assert (Hxb : Rabs (x - c) < b - c) by (eapply Rlt_le_trans; [exact Hd|]; eapply Rle_trans; [apply Rmin_r|apply Rmin_r]).
    apply Rabs_def2 in Hxa, Hxb.
    destruct (Rle_dec x c) as [Hle|Hgt].
    + rewrite (H1 x) by lra. rewrite (H1 c) by lra.
      apply K1. split; [split; [exact I|exact Hne]|exact Hx1].
    + rewrite (H2 x) by lra. rewrite (H2 c) by lra.
      apply K2. split; [split; [exact I|exact Hne]|exact Hx2].
Qed.

(** xs_continuous: the lookup is continuous at every interior knot *)
Theorem xs_continuous : forall g i, xs_valid g -> (0 < i)%Z -> (i + 1 < ug_size (xg_loge g))%Z ->
  continuity_pt (xs_calc g) (knot g i).
Proof.
  intros g i Hv Hi0 Hi1.
  apply (continuity_glue (xs_calc g) (xs_bin g (i - 1)) (xs_bin g i) (knot g (i - 1)) (knot g i) (knot g (i + 1))).
  - split; apply knot_mono; auto; lia.
  - intros x Hx. apply xs_calc_on_closed_bin; auto; try lia.
    replace (i - 1 + 1)%Z with i by lia. exact Hx.
  - intros x Hx. apply xs_calc_on_closed_bin; auto; lia.
  - apply xs_bin_continuous; auto; try lia. apply knot_pos.
  - apply xs_bin_continuous; auto; try lia. apply knot_pos.
Qed.

(** non-vacuity: a valid 2-knot table *)
Example xs_valid_ex : xs_valid {| xg_loge := ug_from_bounds 0 1 2; xg_prime := 1; xg_vals := [1; 2] |}.
Proof.
  unfold xs_valid. cbn [xg_loge xg_prime xg_vals].
  split; [apply from_bounds_valid; [lia|lra]|].
  split; [reflexivity|]. split; [right; cbn; lia|]. cbn. unfold no_scaling. lia.
Qed.
