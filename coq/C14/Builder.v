(** * C14: executable model of ValueGridXsBuilder::build / ValueGridLogBuilder::build
    (celeritas/grid/ValueGridBuilder.cc): the prime (1/E-scaling) index is found
    with UniformGrid::find on the stored logarithms and corrected for roundoff
    with soft_equal.  The logarithms are inputs (the constructor takes them with
    std::log).  No proofs here. *)
From Coq Require Import List ZArith Bool.
From Celer Require Import Base.Num C18.Algorithms C18.Grids C14.Calc.
Import ListNotations.

Section Builder.
  Context {T : Type} `{Num T}.
  Local Open Scope num_scope.

  (** SoftEqual<double>()(a, b): |a - b| < fmax(abs, rel * fmax(|a|, |b|)) *)
  Definition soft_equal_tol (rel abs a b : T) : bool :=
    let r := rel * fmax (nabs a) (nabs b) in
    nabs (a - b) <? fmax abs r.

  (** the index computation of ValueGridXsBuilder::build *)
  Definition build_prime_index (rel abs log_emin log_eprime log_emax : T) (n : Z) : Z :=
    let grid := ug_from_bounds log_emin log_emax n in
    let prime_index := ug_find grid log_eprime in
    if soft_equal_tol rel abs (ug_at grid (prime_index + 1)) log_eprime
    then (prime_index + 1)%Z else prime_index.

  (** the same without the roundoff correction (what a seeded change did) *)
  Definition build_prime_index_uncorrected (log_emin log_eprime log_emax : T) (n : Z) : Z :=
    ug_find (ug_from_bounds log_emin log_emax n) log_eprime.

  Definition build_xs (rel abs log_emin log_eprime log_emax : T) (xs : list T) : xsgrid T :=
    {| xg_loge := ug_from_bounds log_emin log_emax (Z.of_nat (length xs));
       xg_prime := build_prime_index rel abs log_emin log_eprime log_emax (Z.of_nat (length xs));
       xg_vals := xs |}.

  Definition build_log (log_emin log_emax : T) (vals : list T) : xsgrid T :=
    {| xg_loge := ug_from_bounds log_emin log_emax (Z.of_nat (length vals));
       xg_prime := no_scaling; xg_vals := vals |}.
End Builder.
