(** * C14: ValueGridXsBuilder::from_scaled and ValueGridLogBuilder::from_geant /
    from_range over R: the built grid has the imported energies as knots and the
    calculators reproduce the imported values there *)
From Coq Require Import Reals ZArith List Lra Lia Bool Psatz.
From Celer Require Import Base.Num Base.NumR C18.Algorithms C18.Grids C18.GridProofs
  C14.Calc C14.Builder C14.MscProofs C14.XsProofs C14.BuilderProofs C14.Generic C14.GeantBuilderProofs.
Import ListNotations.
Local Open Scope R_scope.

Section OneTable.
  Variables rel abs a h : R.
  Variable n : nat.
  Variable vals : list R.
  Hypothesis Hrel : 0 <= rel.
  Hypothesis Habs : 0 < abs.
  Hypothesis Hh : 0 < h.
  Hypothesis Hn : (2 <= n)%nat.
  Hypothesis Hlen : length vals = n.
  Let es := geant_energies a h 0 n.
  Let N : Z := Z.of_nat n.
  Let grid := ug_from_bounds a (a + h * IZR (N - 1)) N.
  Hypothesis Hsize : (N < no_scaling)%Z.

  Lemma one_delta : ug_delta grid = h.
  Proof.
    unfold grid, ug_from_bounds. cbn [ug_delta]. numR.
    assert (IZR (N - 1) <> 0) by (apply not_0_IZR; unfold N; lia). field. assumption.
  Qed.

  Lemma one_at : forall i, ug_at grid i = a + h * IZR i.
  Proof. intros i. unfold ug_at. rewrite one_delta. unfold grid. cbn [ug_front ug_from_bounds]. numR. reflexivity. Qed.

  Lemma es_front : vfront es = exp a.
  Proof.
    unfold vfront, es. rewrite get_geant by lia. f_equal. change (Z.of_nat (0 + 0)) with 0%Z. ring.
  Qed.

  Lemma es_back : vback es = exp (a + h * IZR (N - 1)).
  Proof.
    unfold vback, es. rewrite geant_length, get_geant by lia.
    replace (Z.of_nat (0 + (n - 1))) with (N - 1)%Z by (unfold N; lia). reflexivity.
  Qed.

  Lemma grid_valid : ug_valid grid.
  Proof.
    unfold grid. apply from_bounds_valid; [unfold N; lia|].
    assert (0 < IZR (N - 1)) by (apply IZR_lt; unfold N; lia). nra.
  Qed.

  (** *** ValueGridLogBuilder::from_geant (and from_range, which only adds
      preconditions): no scaling, knots = energies, calc[i] = value_i *)
  Theorem log_from_geant_reproduces :
    let g := log_built_grid (log_from_geant es vals) in
    xs_valid g /\ xg_prime g = no_scaling /\ ug_size (xg_loge g) = N /\
    forall i, (i < n)%nat -> knot g (Z.of_nat i) = get 0 es i /\ xs_at g (Z.of_nat i) = get 0 vals i.
  Proof.
    cbn zeta. unfold log_from_geant, log_built_grid, build_log. rewrite es_front, es_back. numR.
    rewrite !ln_exp. rewrite Hlen. fold N. fold grid.
    split; [|split; [reflexivity|split; [reflexivity|]]].
    - unfold xs_valid. cbn [xg_loge xg_prime xg_vals]. split; [exact grid_valid|].
      split; [rewrite Hlen; reflexivity|]. split; [left; reflexivity|exact Hsize].
    - intros i Hi. unfold knot, xs_at. cbn [xg_loge xg_prime xg_vals]. rewrite one_at.
      unfold es. rewrite get_geant by exact Hi. split; [reflexivity|].
      destruct (no_scaling <=? Z.of_nat i)%Z eqn:E; [apply Z.leb_le in E; unfold N in Hsize; lia|].
      unfold xs_get. cbn [xg_vals]. rewrite Nat2Z.id. reflexivity.
  Qed.

  (** *** ValueGridXsBuilder::from_scaled: every point is 1/E-scaled *)
  Hypothesis Hsep : Rmax abs (rel * Rmax (Rabs (ug_at grid (0 + 1))) (Rabs (ug_at grid 0))) <= ug_delta grid.

  Theorem from_scaled_reproduces :
    exists g, xs_built_grid rel abs (from_scaled es vals) = Some g /\
      xs_valid g /\ xg_prime g = 0%Z /\ ug_size (xg_loge g) = N /\
      forall i, (i < n)%nat ->
        knot g (Z.of_nat i) = get 0 es i /\ xs_at g (Z.of_nat i) = get 0 vals i / get 0 es i.
  Proof.
    unfold from_scaled, xs_built_grid. rewrite es_front, es_back. numR. rewrite !ln_exp.
    eexists. split; [reflexivity|].
    assert (Hp : build_prime_index rel abs a a (a + h * IZR (N - 1)) N = 0%Z).
    { assert (E0 : a = ug_at grid 0) by (rewrite one_at; change (IZR 0) with 0; lra).
      rewrite E0 at 2.
      apply (build_prime_index_law rel abs a (a + h * IZR (N - 1)) N 0 Hrel Habs); try (unfold N; lia).
      - assert (0 < IZR (N - 1)) by (apply IZR_lt; unfold N; lia). nra.
      - exact Hsep. }
    unfold build_xs. cbn [xg_loge xg_prime xg_vals]. rewrite Hlen. fold N. fold grid. rewrite Hp.
    split; [|split; [reflexivity|split; [reflexivity|]]].
    - unfold xs_valid. cbn [xg_loge xg_prime xg_vals]. split; [exact grid_valid|].
      split; [rewrite Hlen; reflexivity|]. split; [right; unfold grid, N; cbn [ug_size ug_from_bounds]; lia|exact Hsize].
    - intros i Hi. unfold knot, xs_at. cbn [xg_loge xg_prime xg_vals]. rewrite one_at.
      unfold es. rewrite get_geant by exact Hi. split; [reflexivity|].
      destruct (0 <=? Z.of_nat i)%Z eqn:E; [|apply Z.leb_gt in E; lia].
      unfold xs_get. cbn [xg_vals]. rewrite Nat2Z.id. reflexivity.
  Qed.
End OneTable.
