(** * C14: RangeCalculator / InverseRangeCalculator — the round trip on the
    WHOLE positive axis: identity on the table and on the power-law part below
    it, the clamp above it *)
From Coq Require Import Reals ZArith List Lra Lia Bool Psatz.
From Celer Require Import Base.Num Base.NumR C18.Algorithms C18.Grids C18.GridProofs
  C14.Calc C14.XsProofs C14.RangeProofs.
Import ListNotations.
Local Open Scope R_scope.

Theorem range_inverse_clamp : forall g, range_valid g -> forall E, 0 < E ->
  inv_range_calc g (range_calc g E) = Rmin E (knot g (ug_size (xg_loge g) - 1)).
Proof.
  intros g V E HE. set (n := ug_size (xg_loge g)).
  destruct (Rle_lt_dec E (knot g (n - 1))) as [H|H].
  - rewrite Rmin_left by exact H. apply range_inverse_id; [exact V|]. fold n. lra.
  - rewrite Rmin_right by lra. rewrite (range_above g V E) by (fold n; lra).
    apply (inv_above g V). fold n. lra.
Qed.

Theorem inverse_range_clamp : forall g, range_valid g -> forall r, 0 < r ->
  range_calc g (inv_range_calc g r) = Rmin r (rv g (ug_size (xg_loge g) - 1)).
Proof.
  intros g V r Hr. set (n := ug_size (xg_loge g)).
  destruct (Rle_lt_dec r (rv g (n - 1))) as [H|H].
  - rewrite Rmin_left by exact H. apply inverse_range_id; [exact V|]. fold n. lra.
  - rewrite Rmin_right by lra. rewrite (inv_above g V r) by (fold n; lra).
    apply (range_above g V). fold n. lra.
Qed.

(** the pieces outside the table, as the headers document them *)
Theorem range_pieces : forall g, range_valid g -> forall E, 0 < E ->
  (E <= knot g 0 -> range_calc g E = rv g 0 * sqrt (E / knot g 0)) /\
  (knot g (ug_size (xg_loge g) - 1) <= E -> range_calc g E = rv g (ug_size (xg_loge g) - 1)).
Proof.
  intros g V E HE. split; intros H.
  - apply range_below; first [exact V | lra].
  - apply range_above; first [exact V | exact H].
Qed.

Theorem inverse_range_pieces : forall g, range_valid g -> forall r,
  (r < rv g 0 -> inv_range_calc g r = knot g 0 * ((r / rv g 0) * (r / rv g 0))) /\
  (rv g (ug_size (xg_loge g) - 1) <= r -> inv_range_calc g r = knot g (ug_size (xg_loge g) - 1)).
Proof.
  intros g V r. split; intros H.
  - apply inv_below; first [exact V | exact H].
  - apply inv_above; first [exact V | exact H].
Qed.

(** non-vacuity on the witness table {2, 4} on [1, e]: above the table the
    round trip clamps to E_max = e, below it is the identity through the
    power law *)
Example range_clamp_ex :
  let g := {| xg_loge := ug_from_bounds 0 1 2; xg_prime := no_scaling; xg_vals := [2; 4] |} in
  inv_range_calc g (range_calc g 100) = Rmin 100 (knot g 1) /\
  inv_range_calc g (range_calc g (1 / 4)) = 1 / 4.
Proof.
  cbn zeta. pose proof range_valid_ex as V. split.
  - apply (range_inverse_clamp _ V). lra.
  - rewrite (range_inverse_clamp _ V) by lra. apply Rmin_left.
    cbn [xg_loge ug_size ug_from_bounds]. change (2 - 1)%Z with 1%Z.
    left. eapply Rlt_trans; [|apply (knot_mono _ 0 1 (proj1 V)); lia].
    unfold knot. rewrite ug_at_first. cbn. rewrite exp_0. lra.
Qed.
