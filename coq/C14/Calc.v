(** * C14: executable model of celeritas/grid/{XsCalculator,RangeCalculator,
    InverseRangeCalculator}.hh, calc_mean_energy_loss (PhysicsStepUtils.hh) and
    celeritas/em/msc/detail/{MscStepToGeo,MscStepFromGeo}.hh, written once over
    [Num] (R: theorems, float: run against the C++).  The grid layer
    (UniformGrid, NonuniformGrid, LinearInterpolator) is C18/Grids.v.
    No proofs here. *)
From Coq Require Import List ZArith Bool.
From Celer Require Import Base.Num C18.Algorithms C18.Grids.
Import ListNotations.

Section Calc.
  Context {T : Type} `{Num T}.
  Local Open Scope num_scope.

  (** XsGridData: log-energy grid, prime index, values.  [no_scaling] is
      size_type(-1): no index is >= it. *)
  Definition no_scaling : Z := 4294967295.
  Record xsgrid := { xg_loge : ugrid T; xg_prime : Z; xg_vals : list T }.

  Definition xs_get (g : xsgrid) (i : Z) : T := get n0 (xg_vals g) (Z.to_nat i).

  (* calc_extrapolated *)
  Definition xs_extrap (g : xsgrid) (e : T) (idx : Z) : T :=
    let result := xs_get g idx in
    if (xg_prime g <=? idx)%Z then result / e else result.

  (** XsCalculator::operator()(Energy) *)
  Definition xs_calc (g : xsgrid) (e : T) : T :=
    let grid := xg_loge g in
    let loge := nlog e in
    if loge <=? ug_front grid then xs_extrap g e 0
    else if ug_back grid <=? loge then xs_extrap g e (ug_size grid - 1)
    else
      let lower_idx := ug_find grid loge in
      let upper_energy := nexp (ug_at grid (lower_idx + 1)) in
      let upper_xs0 := xs_get g (lower_idx + 1) in
      let upper_xs := if (lower_idx + 1 =? xg_prime g)%Z then upper_xs0 / upper_energy else upper_xs0 in
      let result := lin_interp (nexp (ug_at grid lower_idx)) (xs_get g lower_idx)
                               upper_energy upper_xs e in
      if (xg_prime g <=? lower_idx)%Z then result / e else result.

  (** XsCalculator::operator[](index) *)
  Definition xs_at (g : xsgrid) (i : Z) : T :=
    let energy := nexp (ug_at (xg_loge g) i) in
    let result := xs_get g i in
    if (xg_prime g <=? i)%Z then result / energy else result.

  (** RangeCalculator::operator()(Energy) (prime_index = no_scaling) *)
  Definition range_calc (g : xsgrid) (e : T) : T :=
    let grid := xg_loge g in
    let loge := nlog e in
    if loge <=? ug_front grid then
      xs_get g 0 * nexp (nhalf * (loge - ug_front grid))
    else if ug_back grid <=? loge then xs_get g (ug_size grid - 1)
    else
      let idx := ug_find grid loge in
      lin_interp (nexp (ug_at grid idx)) (xs_get g idx)
                 (nexp (ug_at grid (idx + 1))) (xs_get g (idx + 1)) e.

  (** InverseRangeCalculator::operator()(range) *)
  Definition inv_range_calc (g : xsgrid) (r : T) : T :=
    let grid := xg_loge g in
    let vals := xg_vals g in
    let r_front := get n0 vals 0 in
    let r_back := get n0 vals (length vals - 1) in
    if r <? r_front then
      (* ipow<2>(range / range_.front()) *)
      let q := r / r_front in nexp (ug_front grid) * (q * q)
    else if r_back <=? r then nexp (ug_back grid)
    else
      let idx := nu_find vals r in
      lin_interp (get n0 vals idx) (nexp (ug_at grid (Z.of_nat idx)))
                 (get n0 vals (idx + 1)) (nexp (ug_at grid (Z.of_nat idx + 1))) r.

  (** calc_mean_energy_loss(particle, physics, step): [range] is
      physics.dedx_range(), [lll] = scalars.linear_loss_limit *)
  Definition mean_loss (dedx rng : xsgrid) (lll e range step : T) : T :=
    let eloss := step * xs_calc dedx e in
    if e * lll <=? eloss then
      if step =? range then e
      else e - inv_range_calc rng (range - step)
    else eloss.

  (** celeritas::min / max on floating point are std::fmin / std::fmax: a NaN
      operand is ignored (over R the first test is always true) *)
  Definition fmin (a b : T) : T := if a =? a then (if b =? b then nmin a b else a) else b.
  Definition fmax (a b : T) : T := if a =? a then (if b =? b then nmax a b else a) else b.

  (** fastpow(a, b) = exp(b * log(a)); IEEE gives 0 for a = 0 < b (log 0 = -inf),
      which is spelled out here because ln 0 is arbitrary in R *)
  Definition fastpow (a b : T) : T :=
    if ((a =? n0) && (n0 <? b))%bool then n0 else nexp (b * nlog a).

  (** UrbanMscHelper::calc_msc_mfp *)
  Definition msc_mfp (mscxs : xsgrid) (e : T) : T :=
    let xsec := xs_calc mscxs e / (e * e) in n1 / xsec.

  (** MscStepToGeo::operator()(tstep) -> (step, alpha) *)
  Definition msc_to_geo (min_step dtrl small_alpha : T) (mscxs rng : xsgrid)
             (emass energy lambda range tstep : T) : T * T :=
    let '(step, alpha) :=
      if tstep <? min_step then (tstep, small_alpha)
      else if tstep <? range * dtrl then
        (- lambda * nexpm1 (- tstep / lambda), small_alpha)
      else
        let '(alpha, mfp_slope) :=
          if ((energy <? emass) || (tstep =? range))%bool then
            let alpha := n1 / range in
            (alpha, fmax (n1 - alpha * tstep) n0)
          else
            let rfinal := range - tstep in
            let endpoint_energy := inv_range_calc rng rfinal in
            let lambda1 := msc_mfp mscxs endpoint_energy in
            ((lambda - lambda1) / (lambda * tstep), lambda1 / lambda) in
        let w := n1 + n1 / (alpha * lambda) in
        ((n1 - fastpow mfp_slope w) / (alpha * w), alpha) in
    (fmin step tstep, alpha).

  (** MscStepFromGeo::operator()(gstep) *)
  Definition msc_from_geo (min_step small_alpha : T)
             (true_step alpha range lambda gstep : T) : T :=
    if gstep <? min_step then gstep
    else
      let tstep :=
        if alpha =? small_alpha then
          let t := - lambda * nlog1p (- gstep / lambda) in
          if t <? min_step then gstep else t
        else
          let w := n1 + n1 / (alpha * lambda) in
          let x := fmin (alpha * w * gstep) n1 in
          let temp := n1 - fastpow (n1 - x) (n1 / w) in
          let result := temp / alpha in
          fmin result range in
      nclamp tstep gstep true_step.
End Calc.

Arguments xsgrid T : clear implicits.
