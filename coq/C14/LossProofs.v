(** * C14: calc_mean_energy_loss over R *)
From Coq Require Import Reals ZArith List Lra Lia Bool Psatz.
From Celer Require Import Base.Num Base.NumR C18.Algorithms C18.Grids C18.GridProofs
  C14.Calc C14.XsProofs C14.RangeProofs.
Import ListNotations.
Local Open Scope R_scope.

Section Loss.
  Variables dedx rng : xsgrid R.
  Hypothesis Vd : xs_valid dedx.
  Hypothesis Nd : vals_nonneg dedx.
  Hypothesis Vr : range_valid rng.
  Variables lll E range : R.
  Hypothesis Hlll : 0 < lll <= 1.
  Hypothesis HE : 0 < E.
  (** the stored range is at most the tabulated range of the particle *)
  Hypothesis Hrange : 0 < range <= range_calc rng E.

  Let nr := ug_size (xg_loge rng).

  Lemma inv_of_range_le : inv_range_calc rng (range_calc rng E) <= E.
  Proof.
    destruct (Rle_dec E (knot rng (nr - 1))) as [H|H].
    - rewrite (range_inverse_id rng Vr E) by (fold nr; lra). lra.
    - rewrite (range_above rng Vr E) by (fold nr; lra).
      rewrite (inv_above rng Vr) by (fold nr; lra). fold nr. lra.
  Qed.

  Lemma inv_le_E : forall r, 0 <= r <= range -> 0 <= inv_range_calc rng r <= E.
  Proof.
    intros r Hr. split; [apply (inv_nonneg rng Vr); lra|].
    eapply Rle_trans; [apply (inverse_range_monotone rng Vr r (range_calc rng E)); lra|].
    apply inv_of_range_le.
  Qed.

  Lemma dedx_nonneg : 0 <= xs_calc dedx E.
  Proof. apply xs_nonneg; assumption. Qed.

  (** 0 <= loss <= E *)
  Theorem mean_loss_bounds : forall step, 0 < step <= range ->
    0 <= mean_loss dedx rng lll E range step <= E.
  Proof.
    intros step Hs. pose proof dedx_nonneg as Hd. unfold mean_loss. cbn zeta. numR.
    destruct (Rleb_spec (E * lll) (step * xs_calc dedx E)) as [Hb|Hb].
    - destruct (Reqb step range) eqn:Eq.
      + lra.
      + destruct (inv_le_E (range - step)) as [I0 I1]; [lra|]. lra.
    - split; [nra|]. nra.
  Qed.

  (** the full range costs the full energy (whenever the range branch is
      taken, which is the case for consistent tables: range * dE/dx >= lll * E) *)
  Theorem mean_loss_range_is_all : E * lll <= range * xs_calc dedx E ->
    mean_loss dedx rng lll E range range = E.
  Proof.
    intros Hb. unfold mean_loss. cbn zeta. numR.
    destruct (Rleb_spec (E * lll) (range * xs_calc dedx E)); [|lra].
    destruct (Reqb range range) eqn:Eq; [reflexivity|]. apply Reqb_false in Eq. lra.
  Qed.

  Definition linear_branch (step : R) : Prop := step * xs_calc dedx E < E * lll.

  (** within either branch the loss does not decrease with the step *)
  Theorem mean_loss_monotone_in_branch : forall s1 s2, 0 < s1 <= s2 -> s2 <= range ->
    (linear_branch s1 <-> linear_branch s2) ->
    mean_loss dedx rng lll E range s1 <= mean_loss dedx rng lll E range s2.
  Proof.
    intros s1 s2 Hs Hs2 Hsame. pose proof dedx_nonneg as Hd.
    pose proof (mean_loss_bounds s1 ltac:(lra)) as B1.
    pose proof (mean_loss_bounds s2 ltac:(lra)) as B2.
    unfold linear_branch in Hsame. unfold mean_loss in *. cbn zeta in *. numR.
    destruct (Rleb_spec (E * lll) (s1 * xs_calc dedx E)) as [H1|H1];
    destruct (Rleb_spec (E * lll) (s2 * xs_calc dedx E)) as [H2|H2].
    - destruct (Reqb s2 range) eqn:E2.
      + exact (proj2 B1).
      + apply Reqb_false in E2. destruct (Reqb s1 range) eqn:E1.
        * apply Reqb_true in E1. lra.
        * pose proof (inverse_range_monotone rng Vr (range - s2) (range - s1) ltac:(lra)). lra.
    - exfalso. assert (L : s2 * xs_calc dedx E < E * lll) by lra. apply Hsame in L. lra.
    - exfalso. assert (L : s1 * xs_calc dedx E < E * lll) by lra. apply Hsame in L. lra.
    - nra.
  Qed.

  (** across the switch monotonicity needs the tables to be consistent: the
      exact (range-based) loss of any step in the range branch is at least the
      linear threshold.  (Without it: C14_mean_loss_monotone_refuted.) *)
  Theorem mean_loss_monotone : 
    (forall s, 0 < s <= range -> ~ linear_branch s -> E * lll <= mean_loss dedx rng lll E range s) ->
    forall s1 s2, 0 < s1 <= s2 -> s2 <= range ->
    mean_loss dedx rng lll E range s1 <= mean_loss dedx rng lll E range s2.
  Proof.
    intros Hcons s1 s2 Hs Hs2. pose proof dedx_nonneg as Hd.
    destruct (Rlt_dec (s1 * xs_calc dedx E) (E * lll)) as [L1|L1];
    destruct (Rlt_dec (s2 * xs_calc dedx E) (E * lll)) as [L2|L2].
    - apply mean_loss_monotone_in_branch; auto. unfold linear_branch. tauto.
    - eapply Rle_trans; [|apply (Hcons s2); [lra|exact L2]].
      unfold mean_loss. cbn zeta. numR.
      destruct (Rleb_spec (E * lll) (s1 * xs_calc dedx E)); lra.
    - exfalso. apply L1. nra.
    - apply mean_loss_monotone_in_branch; auto. unfold linear_branch. tauto.
  Qed.
End Loss.
