(** * C14: executable model of celeritas/grid/GenericCalculator.hh (linear
    interpolation on a NONUNIFORM grid with the end values extended outward as
    constants; [from_inverse]/[make_inverse] swap x and y) and of
    ValueGridXsBuilder::from_geant / from_scaled / ValueGridLogBuilder::from_geant /
    from_range (celeritas/grid/ValueGridBuilder.cc): input validation and the
    concatenation of the lambda and lambda_prim tables.  Written over [Num];
    the grid layer (NonuniformGrid::find, LinearInterpolator) is C18/Grids.v.
    No proofs here. *)
From Coq Require Import List ZArith Bool.
From Celer Require Import Base.Num C18.Algorithms C18.Grids C14.Calc C14.Builder.
Import ListNotations.

Section Generic.
  Context {T : Type} `{Num T}.
  Local Open Scope num_scope.

  (** GenericGridRecord resolved against its backend storage: the x grid and
      the y values (same length, >= 2, x increasing: CELER_EXPECTs) *)
  Record ggrid := { gg_x : list T; gg_y : list T }.

  (** GenericCalculator::operator[](index) *)
  Definition generic_at (g : ggrid) (i : nat) : T := get n0 (gg_y g) i.

  (** GenericCalculator::operator()(x) *)
  Definition generic_calc (g : ggrid) (x : T) : T :=
    let xs := gg_x g in
    (* if (x <= x_grid_.front()) return ( *this)[0]; *)
    if x <=? get n0 xs 0 then generic_at g 0
    (* if (x >= x_grid_.back()) return ( *this)[x_grid_.size() - 1]; *)
    else if get n0 xs (length xs - 1) <=? x then generic_at g (length xs - 1)
    else
      let lower_idx := nu_find xs x in
      lin_interp (get n0 xs lower_idx) (generic_at g lower_idx)
                 (get n0 xs (lower_idx + 1)) (generic_at g (lower_idx + 1)) x.

  (** GenericCalculator::from_inverse(grid, storage) and make_inverse(): the
      private constructor called with the value range as the x grid *)
  Definition generic_inverse (g : ggrid) : ggrid := {| gg_x := gg_y g; gg_y := gg_x g |}.

  (** ** ValueGridBuilder.cc: anonymous-namespace helpers.  [front]/[back] of a
      span; the default SoftEqual tolerances are parameters [rel] [abs] *)
  Definition vfront (v : list T) : T := get n0 v 0.
  Definition vback (v : list T) : T := get n0 v (length v - 1).

  Definition is_contiguous_increasing (rel abs : T) (first second : list T) : bool :=
    (2 <=? length first)%nat && (2 <=? length second)%nat && (n0 <? vfront first)
    && (vfront first <? vback first)
    && soft_equal_tol rel abs (vfront second) (vback first)
    && (vfront second <? vback second).

  (* std::pow(vec.back() / vec.front(), double(1) / (vec.size() - 1)) *)
  Definition calc_log_delta (v : list T) : T :=
    npow (vback v / vfront v) (n1 / nofZ (Z.of_nat (length v) - 1)).

  (* for (auto i : range(vec.size() - 1)) if (!soft_equal(delta, vec[i+1] / vec[i])) return false; *)
  Fixpoint log_spacing_loop (rel abs delta : T) (v : list T) : bool :=
    match v with
    | a :: ((b :: _) as r) =>
        if soft_equal_tol rel abs delta (b / a) then log_spacing_loop rel abs delta r else false
    | _ => true
    end.
  Definition has_log_spacing (rel abs : T) (v : list T) : bool :=
    log_spacing_loop rel abs (calc_log_delta v) v.

  Definition is_nonnegative (v : list T) : bool := forallb (fun x => n0 <=? x) v.

  (* is_monotonic_increasing (corecel/grid/VectorUtils.cc): strictly *)
  Fixpoint is_monotonic_increasing (v : list T) : bool :=
    match v with
    | a :: ((b :: _) as r) => if a <? b then is_monotonic_increasing r else false
    | _ => true
    end.

  (** result of a factory: the arguments handed to the ValueGridXsBuilder /
      ValueGridLogBuilder constructor, or the RuntimeError of CELER_VALIDATE *)
  Inductive xs_built := XsThrow | XsArgs (emin eprime emax : T) (xs : list T).
  Inductive log_built := LogArgs (emin emax : T) (value : list T).

  (** the CELER_EXPECTs of from_geant (compiled out in this build: proof
      obligations of the caller, not guards) *)
  Definition from_geant_expects (rel abs : T) (lambda_energy lambda lambda_prim_energy lambda_prim : list T) : bool :=
    is_contiguous_increasing rel abs lambda_energy lambda_prim_energy
    && has_log_spacing rel abs lambda_energy && has_log_spacing rel abs lambda_prim_energy
    && (length lambda =? length lambda_energy)%nat
    && (length lambda_prim =? length lambda_prim_energy)%nat
    && soft_equal_tol rel abs (vback lambda) (vfront lambda_prim / vfront lambda_prim_energy)
    && is_nonnegative lambda && is_nonnegative lambda_prim.

  (** ValueGridXsBuilder::from_geant: the one surviving check (CELER_VALIDATE on
      the two spacings), then
        copy(lambda.begin(), lambda.end() - 1, xs.begin());
        copy(lambda_prim.begin(), lambda_prim.end(), dst);
      and the constructor call (lambda_energy.front(), lambda_prim_energy.front(),
      lambda_prim_energy.back(), xs) *)
  Definition from_geant (rel abs : T) (lambda_energy lambda lambda_prim_energy lambda_prim : list T) : xs_built :=
    let log_delta_lo := calc_log_delta lambda_energy in
    let log_delta_hi := calc_log_delta lambda_prim_energy in
    if soft_equal_tol rel abs log_delta_lo log_delta_hi then
      XsArgs (vfront lambda_energy) (vfront lambda_prim_energy) (vback lambda_prim_energy)
             (removelast lambda ++ lambda_prim)
    else XsThrow.

  (** ValueGridXsBuilder::from_scaled *)
  Definition from_scaled_expects (rel abs : T) (lambda_prim_energy lambda_prim : list T) : bool :=
    (length lambda_prim =? length lambda_prim_energy)%nat
    && has_log_spacing rel abs lambda_prim_energy && is_nonnegative lambda_prim.
  Definition from_scaled (lambda_prim_energy lambda_prim : list T) : xs_built :=
    XsArgs (vfront lambda_prim_energy) (vfront lambda_prim_energy) (vback lambda_prim_energy) lambda_prim.

  (** ValueGridLogBuilder::from_geant / from_range *)
  Definition log_from_geant_expects (rel abs : T) (energy value : list T) : bool :=
    negb (length energy =? 0)%nat && has_log_spacing rel abs energy
    && (length value =? length energy)%nat.
  Definition log_from_geant (energy value : list T) : log_built :=
    LogArgs (vfront energy) (vback energy) value.
  Definition log_from_range_expects (rel abs : T) (energy value : list T) : bool :=
    negb (length energy =? 0)%nat && is_monotonic_increasing value && (n0 <? vfront value)
    && log_from_geant_expects rel abs energy value.

  (** the CELER_EXPECTs of the ValueGridXsBuilder constructor except
      is_on_grid_point (fmod is not in [Num]) *)
  Definition xs_ctor_expects (emin eprime emax : T) (xs : list T) : bool :=
    (n0 <? emin) && (emin <=? eprime) && (eprime <? emax) && (2 <=? length xs)%nat
    && is_nonnegative xs.

  (** constructor (std::log of the three energies) + build(): the XsGridData *)
  Definition xs_built_grid (rel abs : T) (b : xs_built) : option (xsgrid T) :=
    match b with
    | XsThrow => None
    | XsArgs emin eprime emax xs => Some (build_xs rel abs (nlog emin) (nlog eprime) (nlog emax) xs)
    end.
  Definition log_built_grid (b : log_built) : xsgrid T :=
    match b with LogArgs emin emax value => build_log (nlog emin) (nlog emax) value end.
End Generic.

Arguments ggrid T : clear implicits.
Arguments xs_built T : clear implicits.
Arguments log_built T : clear implicits.
