(** * C14: calc_mean_energy_loss — when IS the mean loss monotone in the step?
    (i)   exact characterisation: monotone on (0, range] iff the range-based loss
          at the switch step s* = lll E / (dE/dx) is at least lll E;
    (ii)  chord condition on the inverse range curve;
    (iii) structural sufficient condition on the tables: every tabulated
          Delta E / Delta r below the range is at least dE/dx(E) (and the
          power-law part below the table is steep enough);
    (iv)  for a range table that is the trapezoid integral of 1/(dE/dx) on the
          same grid: dE/dx(E) not above the tabulated dE/dx of the bins below.
    The refutation (LossWitness.v) shows the hypotheses cannot be dropped. *)
From Coq Require Import Reals ZArith List Lra Lia Bool Psatz.
From Celer Require Import Base.Num Base.NumR C18.Algorithms C18.Grids C18.GridProofs
  C14.Calc C14.XsProofs C14.RangeProofs C14.LossProofs.
Import ListNotations.
Local Open Scope R_scope.

(** ** geometry of the inverse range curve: chords to a point R have slope >= D *)
Section InvChord.
  Variable g : xsgrid R.
  Hypothesis V : range_valid g.
  Let n := ug_size (xg_loge g).
  Variable D : R.
  Hypothesis HD : 0 <= D.

  Ltac foldn := repeat match goal with
    | H : context [ug_size (xg_loge g)] |- _ => progress fold n in H end; fold n.

  (** slope of segment i of the inverse range curve is at least D *)
  Definition seg_ok (i : Z) : Prop := D * (rv g (i + 1) - rv g i) <= knot g (i + 1) - knot g i.

  Lemma inv_on_closed_bin : forall r i, (0 <= i)%Z -> (i + 1 < n)%Z ->
    rv g i <= r <= rv g (i + 1) -> inv_range_calc g r = inv_bin g i r.
  Proof.
    intros r i I0 I1 [H0 [H1|H1]].
    - apply (inv_in_bin g V); auto.
    - subst r. pose proof (proj2 (proj2 V)) as Hinc.
      unfold inv_bin. rewrite lin_interp_right by (apply Hinc; lia).
      destruct (Z.eq_dec (i + 1) (n - 1)) as [E|E].
      + rewrite E. apply (inv_above g V). fold n. lra.
      + rewrite (inv_in_bin g V (rv g (i + 1)) (i + 1)); try lia.
        * unfold inv_bin. apply lin_interp_left. apply Hinc; lia.
        * split; [lra|]. apply Hinc; lia.
  Qed.

  Lemma inv_at_knot : forall i, (0 <= i < n)%Z -> inv_range_calc g (rv g i) = knot g i.
  Proof.
    intros i Hi. pose proof (proj2 (proj2 V)) as Hinc.
    destruct (Z.eq_dec i (n - 1)) as [E|E].
    - subst i. apply (inv_above g V). fold n. lra.
    - rewrite (inv_on_closed_bin (rv g i) i) by (first [lia | split; [lra|left; apply Hinc; lia]]).
      unfold inv_bin. apply lin_interp_left. apply Hinc; lia.
  Qed.

  Lemma seg_chord : forall i r1 r2, (0 <= i)%Z -> (i + 1 < n)%Z -> seg_ok i ->
    rv g i <= r1 -> r1 <= r2 -> r2 <= rv g (i + 1) ->
    D * (r2 - r1) <= inv_range_calc g r2 - inv_range_calc g r1.
  Proof.
    intros i r1 r2 I0 I1 Hs H1 H12 H2. pose proof (proj2 (proj2 V)) as Hinc.
    assert (Hr : rv g i < rv g (i + 1)) by (apply Hinc; lia).
    rewrite (inv_on_closed_bin r1 i), (inv_on_closed_bin r2 i) by (first [assumption | lra]).
    unfold inv_bin. rewrite !lin_interp_eq by exact Hr. unfold seg_ok in Hs.
    set (dr := rv g (i + 1) - rv g i) in *. set (dE := knot g (i + 1) - knot g i) in *.
    assert (Hdr : 0 < dr) by (unfold dr; lra).
    replace (knot g i + dE * ((r2 - rv g i) / dr) - (knot g i + dE * ((r1 - rv g i) / dr)))
      with (dE / dr * (r2 - r1)) by (field; lra).
    assert (Hsl : D <= dE / dr).
    { apply Rmult_le_reg_r with dr; [exact Hdr|].
      replace (dE / dr * dr) with dE by (field; lra). exact Hs. }
    nra.
  Qed.

  Lemma knots_chain : forall (d : nat) i, (0 <= i)%Z -> (i + Z.of_nat d < n)%Z ->
    (forall k, (i <= k < i + Z.of_nat d)%Z -> seg_ok k) ->
    D * (rv g (i + Z.of_nat d) - rv g i) <= knot g (i + Z.of_nat d) - knot g i.
  Proof.
    induction d as [|d IH]; intros i I0 I1 Hs.
    - replace (i + Z.of_nat 0)%Z with i by lia. lra.
    - assert (S1 : seg_ok (i + Z.of_nat d)) by (apply Hs; lia).
      assert (IHd := IH i I0 ltac:(lia) ltac:(intros k Hk; apply Hs; lia)).
      unfold seg_ok in S1.
      replace (i + Z.of_nat (S d))%Z with (i + Z.of_nat d + 1)%Z by lia. lra.
  Qed.

  (** from any r in the table part up to knot j *)
  Lemma chain_to_knot : forall j r, (0 <= j < n)%Z -> (forall k, (0 <= k < j)%Z -> seg_ok k) ->
    rv g 0 <= r <= rv g j -> D * (rv g j - r) <= knot g j - inv_range_calc g r.
  Proof.
    intros j r Hj Hs [H0 H1]. pose proof (proj2 (proj2 V)) as Hinc.
    destruct H1 as [H1|H1].
    2:{ subst r. rewrite inv_at_knot by exact Hj. lra. }
    destruct (range_cases g V r) as [A|[A|(i & I0 & I1 & Ib)]]; foldn.
    - lra.
    - pose proof (rv_le g V j (n - 1) ltac:(lia) ltac:(lia)). foldn. lra.
    - assert (Hij : (i + 1 <= j)%Z).
      { destruct (Z_le_gt_dec (i + 1) j); [assumption|]. exfalso.
        pose proof (rv_le g V j i ltac:(lia) ltac:(lia)). lra. }
      pose proof (seg_chord i r (rv g (i + 1)) I0 I1 ltac:(apply Hs; lia) ltac:(lra) ltac:(lra) ltac:(lra)) as S1.
      rewrite (inv_at_knot (i + 1)) in S1 by lia.
      pose proof (knots_chain (Z.to_nat (j - (i + 1))) (i + 1) ltac:(lia)) as S2.
      replace (i + 1 + Z.of_nat (Z.to_nat (j - (i + 1))))%Z with j in S2 by lia.
      specialize (S2 ltac:(lia) ltac:(intros k Hk; apply Hs; lia)). lra.
  Qed.

  (** the chord theorem: all segments that start below R have slope >= D, and
      the chord from the origin to min(R, r_0) (power-law part) has slope >= D *)
  Theorem inv_chord : forall Rr, 0 < Rr <= rv g (n - 1) ->
    (forall k, (0 <= k)%Z -> (k + 1 < n)%Z -> rv g k < Rr -> seg_ok k) ->
    D * Rmin Rr (rv g 0) <= inv_range_calc g (Rmin Rr (rv g 0)) ->
    forall r, 0 <= r <= Rr -> D * (Rr - r) <= inv_range_calc g Rr - inv_range_calc g r.
  Proof.
    intros Rr [HR0 HR1] Hs H0 r [Hr0 HrR].
    pose proof (proj2 (proj2 V)) as Hinc. pose proof (n_ge_2 g V) as Hn2. fold n in Hn2.
    pose proof (rv_pos g V 0 ltac:(fold n; lia)) as Hp0.
    pose proof (knot_pos g 0) as HE0.
    (* table part: rv 0 <= r <= Rr *)
    assert (Table : forall r', rv g 0 <= r' <= Rr -> D * (Rr - r') <= inv_range_calc g Rr - inv_range_calc g r').
    { intros r' [Ha Hb].
      destruct (range_cases g V Rr) as [A|[A|(j & J0 & J1 & Jb)]]; foldn.
      - lra.
      - assert (Rr = rv g (n - 1)) by lra. subst Rr. rewrite (inv_at_knot (n - 1)) by lia.
        apply chain_to_knot; [lia| |lra]. intros k Hk. apply Hs; try lia. apply Hinc; lia.
      - destruct (Rle_lt_dec (rv g j) r') as [Hj|Hj].
        + destruct (Req_dec r' Rr) as [->|Hne]; [lra|].
          apply (seg_chord j r' Rr J0 J1); try lra. apply Hs; auto. lra.
        + pose proof (chain_to_knot j r' ltac:(lia)) as C1.
          specialize (C1 ltac:(intros k Hk; apply Hs; try lia; eapply Rlt_le_trans; [apply Hinc; [lia|apply (proj2 Hk)|lia]|apply Jb])
                         ltac:(lra)).
          destruct (Req_dec (rv g j) Rr) as [E|Hne].
          * rewrite <- E. rewrite (inv_at_knot j) by lia. lra.
          * pose proof (seg_chord j (rv g j) Rr J0 J1 ltac:(apply Hs; auto; lra) ltac:(lra) ltac:(lra) ltac:(lra)) as S1.
            rewrite (inv_at_knot j) in S1 by lia. lra. }
    destruct (Rle_lt_dec (rv g 0) r) as [Ht|Hsub]; [apply Table; lra|].
    (* r below the table: inv r = E0 (r/r0)^2 *)
    rewrite (inv_below g r Hsub).
    set (q := r / rv g 0).
    assert (Hq : 0 <= q < 1).
    { unfold q. split; [apply Rle_mult_inv_pos; lra|].
      apply Rmult_lt_reg_r with (rv g 0); [lra|].
      replace (r / rv g 0 * rv g 0) with r by (field; lra). lra. }
    assert (Hrq : r = q * rv g 0) by (unfold q; field; lra).
    destruct (Rle_lt_dec (rv g 0) Rr) as [Hge|Hlt].
    - rewrite Rmin_right in H0 by exact Hge. rewrite (inv_at_knot 0) in H0 by lia.
      pose proof (Table (rv g 0) ltac:(lra)) as T0. rewrite (inv_at_knot 0) in T0 by lia.
      rewrite Hrq at 1.
      assert (A1 : D * rv g 0 * (1 - q) <= knot g 0 * (1 - q)) by (apply Rmult_le_compat_r; lra).
      assert (A2 : 0 <= knot g 0 * (1 - q) * q) by (apply Rmult_le_pos; [apply Rmult_le_pos; lra|lra]).
      nra.
    - rewrite Rmin_left in H0 by lra. rewrite (inv_below g Rr Hlt) in H0 |- *.
      set (Q := Rr / rv g 0) in *.
      assert (HQ : q <= Q < 1).
      { unfold Q, q. split.
        - unfold Rdiv. apply Rmult_le_compat_r; [left; apply Rinv_0_lt_compat; lra|lra].
        - apply Rmult_lt_reg_r with (rv g 0); [lra|].
          replace (Rr / rv g 0 * rv g 0) with Rr by (field; lra). lra. }
      assert (HRQ : Rr = Q * rv g 0) by (unfold Q; field; lra).
      assert (HQ0 : 0 < Q) by (unfold Q; apply Rdiv_lt_0_compat; lra).
      rewrite HRQ in H0 at 1. rewrite HRQ at 1. rewrite Hrq at 1.
      (* D Q r0 <= E0 Q^2  ==>  D r0 <= E0 Q *)
      assert (H1 : D * rv g 0 <= knot g 0 * Q).
      { apply Rmult_le_reg_r with Q; [exact HQ0|]. nra. }
      assert (H2 : D * rv g 0 * (Q - q) <= knot g 0 * (Q + q) * (Q - q)).
      { apply Rmult_le_compat_r; [lra|]. assert (0 <= knot g 0 * q) by (apply Rmult_le_pos; lra). nra. }
      nra.
  Qed.
End InvChord.

(** ** the mean loss *)
Section LossMono.
  Variables dedx rng : xsgrid R.
  Hypothesis Vd : xs_valid dedx.
  Hypothesis Nd : vals_nonneg dedx.
  Hypothesis Vr : range_valid rng.
  Variables lll E range : R.
  Hypothesis Hlll : 0 < lll <= 1.
  Hypothesis HE : 0 < E.
  Hypothesis Hrange : 0 < range <= range_calc rng E.

  Let D := xs_calc dedx E.
  Let loss := mean_loss dedx rng lll E range.
  Let nr := ug_size (xg_loge rng).

  Definition loss_monotone : Prop :=
    forall s1 s2, 0 < s1 <= s2 -> s2 <= range -> loss s1 <= loss s2.

  Lemma D_nonneg : 0 <= D.
  Proof. apply xs_nonneg; assumption. Qed.

  Lemma range_le_max : range <= rv rng (nr - 1).
  Proof.
    eapply Rle_trans; [apply Hrange|].
    destruct (Rle_lt_dec E (knot rng (nr - 1))) as [H|H].
    - apply (range_upper_bound rng Vr); [pose proof (n_ge_2 rng Vr) as Hn2; fold nr in Hn2; fold nr; lia|fold nr; lra].
    - rewrite (range_above rng Vr) by (fold nr; lra). fold nr. lra.
  Qed.

  (** (0) no switch inside (0, range]: everything is in the linear branch *)
  Theorem mean_loss_monotone_all_linear : range * D < E * lll -> loss_monotone.
  Proof.
    intros Hlin s1 s2 Hs Hs2. pose proof D_nonneg as HD.
    apply (mean_loss_monotone_in_branch dedx rng Vd Nd Vr lll E range Hlll HE Hrange); auto.
    unfold linear_branch. fold D. split; intros _; nra.
  Qed.

  (** (i) exact characterisation through the switch step *)
  Theorem mean_loss_monotone_iff_switch : 0 < D -> E * lll / D <= range ->
    (loss_monotone <-> E * lll <= loss (E * lll / D)).
  Proof.
    intros HD Hsw. set (sw := E * lll / D) in *.
    assert (Hsw0 : 0 < sw) by (unfold sw; apply Rdiv_lt_0_compat; nra).
    assert (HswD : sw * D = E * lll) by (unfold sw; field; lra).
    split.
    - intros Hm. destruct (Rle_lt_dec (E * lll) (loss sw)) as [|Hlt]; [assumption|exfalso].
      pose proof (mean_loss_bounds dedx rng Vd Nd Vr lll E range Hlll HE Hrange sw ltac:(lra)) as [B0 _].
      fold loss in B0.
      (* a linear-branch step just below the switch already loses more *)
      set (s1 := (loss sw / D + sw) / 2).
      assert (Hq : loss sw / D < sw).
      { apply Rmult_lt_reg_r with D; [exact HD|].
        replace (loss sw / D * D) with (loss sw) by (field; lra). lra. }
      assert (Hq0 : 0 <= loss sw / D) by (apply Rle_mult_inv_pos; lra).
      assert (Hs1 : 0 < s1 < sw) by (unfold s1; lra).
      specialize (Hm s1 sw ltac:(lra) ltac:(lra)).
      assert (L1 : loss s1 = s1 * D).
      { unfold loss, mean_loss. cbn zeta. fold D. numR.
        destruct (Rleb_spec (E * lll) (s1 * D)); [nra|reflexivity]. }
      rewrite L1 in Hm.
      assert (loss sw / D < s1) by (unfold s1; lra).
      assert (loss sw < s1 * D).
      { replace (loss sw) with (loss sw / D * D) by (field; lra). nra. }
      lra.
    - intros Hc s1 s2 Hs12 Hs2r. unfold loss.
      apply (mean_loss_monotone dedx rng Vd Nd Vr lll E range Hlll HE Hrange); auto.
      intros s Hs Hnl. unfold linear_branch in Hnl. fold D in Hnl. fold loss.
      eapply Rle_trans; [exact Hc|].
      apply (mean_loss_monotone_in_branch dedx rng Vd Nd Vr lll E range Hlll HE Hrange); try lra.
      + split; [lra|]. apply Rmult_le_reg_r with D; [exact HD|]. lra.
      + unfold linear_branch. fold D. split; intros; lra.
  Qed.

  (** (ii) chord condition: the inverse range curve loses at least D per unit
      range between any r and [range] *)
  Theorem mean_loss_monotone_chord :
    (forall r, 0 <= r < range ->
       D * (range - r) <= inv_range_calc rng range - inv_range_calc rng r) ->
    loss_monotone.
  Proof.
    intros Hch s1 s2 Hs12 Hs2r. unfold loss.
    apply (mean_loss_monotone dedx rng Vd Nd Vr lll E range Hlll HE Hrange); auto.
    intros s Hs Hnl. unfold linear_branch in Hnl. fold D in Hnl.
    unfold mean_loss. cbn zeta. fold D. numR.
    destruct (Rleb_spec (E * lll) (s * D)) as [_|]; [|lra].
    destruct (Reqb s range) eqn:Eq; [nra|]. apply Reqb_false in Eq.
    pose proof (Hch (range - s) ltac:(lra)) as C.
    pose proof (inv_le_E rng Vr E range HE Hrange range ltac:(lra)) as [_ I1].
    replace (range - (range - s)) with s in C by lra. lra.
  Qed.

  (** (iii) structural condition on the range table *)
  Theorem mean_loss_monotone_slopes :
    (forall k, (0 <= k)%Z -> (k + 1 < nr)%Z -> rv rng k < range -> seg_ok rng D k) ->
    D * Rmin range (rv rng 0) <= inv_range_calc rng (Rmin range (rv rng 0)) ->
    loss_monotone.
  Proof.
    intros Hs H0. apply mean_loss_monotone_chord. intros r Hr.
    pose proof range_le_max as Hmax.
    first [apply (inv_chord rng Vr D D_nonneg range) | apply (inv_chord rng Vr D range)];
      try exact Hs; try exact H0; try (split; [lra|exact Hmax]); lra.
  Qed.

  (** (iv) range table = trapezoid integral of 1/(dE/dx) over the same grid:
      Delta r_i = Delta E_i (1/d_i + 1/d_{i+1}) / 2.  Then every segment slope is
      the harmonic mean of d_i and d_{i+1}, so it suffices that dE/dx(E) is not
      above the tabulated stopping powers of the bins below the range. *)
  Definition range_trapezoid : Prop :=
    xg_loge dedx = xg_loge rng /\
    forall i, (0 <= i)%Z -> (i + 1 < nr)%Z ->
      rv rng (i + 1) - rv rng i
      = (knot rng (i + 1) - knot rng i) * (1 / xs_at dedx i + 1 / xs_at dedx (i + 1)) / 2.

  Theorem mean_loss_monotone_consistent : range_trapezoid ->
    (forall k, (0 <= k)%Z -> (k + 1 < nr)%Z -> rv rng k < range ->
       D <= xs_at dedx k /\ D <= xs_at dedx (k + 1)) ->
    D * Rmin range (rv rng 0) <= inv_range_calc rng (Rmin range (rv rng 0)) ->
    loss_monotone.
  Proof.
    intros [_ Htr] Hmin H0. apply mean_loss_monotone_slopes; [|exact H0].
    intros k K0 K1 Kr. unfold seg_ok. pose proof D_nonneg as HD.
    destruct HD as [HD|HD].
    2:{ rewrite <- HD. rewrite Rmult_0_l. left.
        pose proof (knot_mono rng k (k + 1) (proj1 Vr) ltac:(lia)). lra. }
    destruct (Hmin k K0 K1 Kr) as [Ha Hb]. rewrite (Htr k K0 K1).
    set (a := xs_at dedx k) in *. set (b := xs_at dedx (k + 1)) in *.
    set (dE := knot rng (k + 1) - knot rng k).
    assert (HdE : 0 < dE) by (unfold dE; pose proof (knot_mono rng k (k + 1) (proj1 Vr) ltac:(lia)); lra).
    assert (Ia : D * (1 / a) <= 1).
    { apply Rmult_le_reg_r with a; [lra|]. replace (D * (1 / a) * a) with D by (field; lra). lra. }
    assert (Ib : D * (1 / b) <= 1).
    { apply Rmult_le_reg_r with b; [lra|]. replace (D * (1 / b) * b) with D by (field; lra). lra. }
    replace (D * (dE * (1 / a + 1 / b) / 2)) with (dE * ((D * (1 / a) + D * (1 / b)) / 2)) by (field; lra).
    nra.
  Qed.
End LossMono.
