(** * C14: RangeCalculator / InverseRangeCalculator over R: monotone mutual inverses *)
From Coq Require Import Reals ZArith List Lra Lia Bool Psatz.
From Celer Require Import Base.Num Base.NumR C18.Algorithms C18.Specs C18.ArrayLemmas
  C18.Grids C18.GridProofs C14.Calc C14.XsProofs.
Import ListNotations.
Local Open Scope R_scope.

(** ** facts about one linear segment *)
Lemma lin_mono : forall xl yl xr yr x x' : R, xl < xr -> yl <= yr -> x <= x' ->
  lin_interp xl yl xr yr x <= lin_interp xl yl xr yr x'.
Proof.
  intros. rewrite !lin_interp_eq by assumption.
  assert ((x - xl) / (xr - xl) <= (x' - xl) / (xr - xl)).
  { unfold Rdiv. apply Rmult_le_compat_r; [left; apply Rinv_0_lt_compat|]; lra. }
  nra.
Qed.

Lemma lin_inverse : forall xl yl xr yr x : R, xl < xr -> yl < yr ->
  lin_interp yl xl yr xr (lin_interp xl yl xr yr x) = x.
Proof. intros. rewrite !lin_interp_eq by assumption. field. lra. Qed.

Lemma lin_bounds : forall xl yl xr yr x : R, xl < xr -> yl < yr -> xl <= x < xr ->
  yl <= lin_interp xl yl xr yr x < yr.
Proof.
  intros xl yl xr yr x Hx Hy Hb. rewrite lin_interp_eq by assumption.
  set (t := (x - xl) / (xr - xl)).
  assert (Ht : 0 <= t < 1).
  { unfold t. split; [apply Rle_mult_inv_pos; lra|].
    apply Rmult_lt_reg_r with (xr - xl); [lra|].
    replace ((x - xl) / (xr - xl) * (xr - xl)) with (x - xl) by (field; lra). lra. }
  split; nra.
Qed.

(** ** validity of a range table *)
Definition rv (g : xsgrid R) (i : Z) : R := xs_get g i.
Definition range_valid (g : xsgrid R) : Prop :=
  xs_valid g /\ 0 < rv g 0 /\
  (forall i j, (0 <= i)%Z -> (i < j)%Z -> (j < ug_size (xg_loge g))%Z -> rv g i < rv g j).

Section RangeTable.
  Variable g : xsgrid R.
  Hypothesis V : range_valid g.
  Let n := ug_size (xg_loge g).
  Let Hxs : xs_valid g := proj1 V.

  Lemma n_ge_2 : (2 <= n)%Z.
  Proof. exact (proj1 (proj1 Hxs)). Qed.

  Lemma len_vals : length (xg_vals g) = Z.to_nat n.
  Proof. pose proof (proj1 (proj2 Hxs)) as H. unfold n. rewrite <- H. lia. Qed.

  Lemma rv_get : forall k : nat, get 0 (xg_vals g) k = rv g (Z.of_nat k).
  Proof. intros. unfold rv, xs_get. rewrite Nat2Z.id. reflexivity. Qed.

  Lemma vals_increasing : increasing (xg_vals g).
  Proof.
    intros i j Hij Hj. rewrite !rv_get. pose proof (proj2 (proj2 V)) as Hinc.
    apply Hinc; try lia. rewrite len_vals in Hj. fold n. lia.
  Qed.

  Lemma rv_pos : forall i, (0 <= i < n)%Z -> 0 < rv g i.
  Proof.
    intros i Hi. pose proof (proj1 (proj2 V)) as H0; pose proof (proj2 (proj2 V)) as Hinc. destruct (Z.eq_dec i 0) as [->|]; [exact H0|].
    eapply Rlt_trans; [exact H0|]. apply Hinc; lia.
  Qed.

  Lemma rv_le : forall i j, (0 <= i <= j)%Z -> (j < n)%Z -> rv g i <= rv g j.
  Proof.
    intros i j Hij Hj. destruct (Z.eq_dec i j) as [->|]; [lra|]. left.
    pose proof (proj2 (proj2 V)) as Hinc. apply Hinc; lia.
  Qed.

  Lemma r_front_eq : get 0 (xg_vals g) 0 = rv g 0.
  Proof. apply (rv_get 0). Qed.
  Lemma r_back_eq : get 0 (xg_vals g) (length (xg_vals g) - 1) = rv g (n - 1).
  Proof. rewrite rv_get. f_equal. rewrite len_vals. pose proof n_ge_2. lia. Qed.

  Lemma knot0 : knot g 0 = exp (ug_front (xg_loge g)).
  Proof. unfold knot. rewrite ug_at_first. reflexivity. Qed.
  Lemma knot_last : knot g (n - 1) = exp (ug_back (xg_loge g)).
  Proof. unfold knot, n. rewrite ug_at_last; [reflexivity|apply Hxs]. Qed.

  (** *** the three pieces of RangeCalculator *)
  Lemma range_below : forall E, 0 < E <= knot g 0 ->
    range_calc g E = rv g 0 * sqrt (E / knot g 0).
  Proof.
    intros E [HE H0]. unfold range_calc. cbn zeta. numR. unfold n2. numR.
    assert (Hl : ln E <= ug_front (xg_loge g)).
    { rewrite knot0 in H0. rewrite <- (ln_exp (ug_front _)).
      destruct H0 as [H0|H0]; [left; apply ln_increasing; assumption|right; rewrite H0; reflexivity]. }
    destruct (Rleb_spec (ln E) (ug_front (xg_loge g))); [|lra].
    unfold rv. f_equal. rewrite knot0.
    assert (Hq : 0 < E / exp (ug_front (xg_loge g))) by (apply Rdiv_lt_0_compat; [lra|apply exp_pos]).
    apply (Rsqr_inj _ _ (Rlt_le _ _ (exp_pos _)) (sqrt_pos _)).
    rewrite Rsqr_sqrt by lra. unfold Rsqr. rewrite <- exp_plus.
    replace (1 / 2 * (ln E - ug_front (xg_loge g)) + 1 / 2 * (ln E - ug_front (xg_loge g)))
      with (ln E + - ug_front (xg_loge g)) by lra.
    rewrite exp_plus, exp_Ropp, exp_ln by lra. reflexivity.
  Qed.

  Lemma range_above : forall E, knot g (n - 1) <= E -> range_calc g E = rv g (n - 1).
  Proof.
    intros E H1. unfold range_calc. cbn zeta. numR.
    assert (HE : 0 < E) by (eapply Rlt_le_trans; [apply knot_pos|exact H1]).
    assert (Hb : ug_back (xg_loge g) <= ln E).
    { rewrite knot_last in H1. rewrite <- (ln_exp (ug_back _)).
      destruct H1 as [H1|H1]; [left; apply ln_increasing; [apply exp_pos|assumption]|right; rewrite <- H1; reflexivity]. }
    pose proof (proj1 (proj2 (proj1 Hxs))) as Hfb.
    destruct (Rleb_spec (ln E) (ug_front (xg_loge g))); [lra|].
    destruct (Rleb_spec (ug_back (xg_loge g)) (ln E)); [reflexivity|lra].
  Qed.

  Definition range_bin (i : Z) (E : R) : R :=
    lin_interp (knot g i) (rv g i) (knot g (i + 1)) (rv g (i + 1)) E.

  Lemma range_in_bin : forall E i, (0 <= i)%Z -> (i + 1 < n)%Z ->
    knot g i <= E < knot g (i + 1) -> knot g 0 < E -> range_calc g E = range_bin i E.
  Proof.
    intros E i Hi0 Hi1 Hb H0.
    assert (HE : 0 < E) by (eapply Rlt_trans; [apply (knot_pos g 0)|exact H0]).
    unfold range_calc. cbn zeta. numR.
    assert (Hl0 : ug_front (xg_loge g) < ln E).
    { rewrite <- (ln_exp (ug_front _)). apply ln_increasing; [apply exp_pos|]. rewrite <- knot0. exact H0. }
    assert (Hl1 : ln E < ug_back (xg_loge g)).
    { rewrite <- (ln_exp (ug_back _)). apply ln_increasing; [exact HE|]. rewrite <- knot_last.
      eapply Rlt_le_trans; [apply Hb|].
      destruct (Z.eq_dec (i + 1) (n - 1)) as [->|]; [lra|]. left. apply knot_mono; auto. lia. }
    destruct (Rleb_spec (ln E) (ug_front (xg_loge g))); [lra|].
    destruct (Rleb_spec (ug_back (xg_loge g)) (ln E)); [lra|].
    rewrite (find_bin_unique g E i Hxs Hi0 Hi1 Hb). reflexivity.
  Qed.

  (** the bin formula also holds at the left knot E_0 of bin 0 *)
  Lemma range_at_knot0 : range_calc g (knot g 0) = rv g 0.
  Proof.
    rewrite range_below by (split; [apply knot_pos|lra]).
    replace (knot g 0 / knot g 0) with 1 by (field; apply Rgt_not_eq, knot_pos).
    rewrite sqrt_1. lra.
  Qed.

  Lemma range_bin_bounds : forall E i, (0 <= i)%Z -> (i + 1 < n)%Z ->
    knot g i <= E < knot g (i + 1) -> rv g i <= range_bin i E < rv g (i + 1).
  Proof.
    intros E i Hi0 Hi1 Hb. unfold range_bin. apply lin_bounds; auto.
    - apply knot_mono; auto. lia.
    - pose proof (proj2 (proj2 V)) as Hinc. apply Hinc; lia.
  Qed.

  (** piece index of an energy: -1 below the table, i in a bin, n-1 above *)
  Lemma energy_cases : forall E, 0 < E ->
    E <= knot g 0 \/ knot g (n - 1) <= E \/
    exists i, (0 <= i)%Z /\ (i + 1 < n)%Z /\ knot g i <= E < knot g (i + 1) /\ knot g 0 < E.
  Proof.
    intros E HE. destruct (Rle_dec E (knot g 0)); [left; assumption|].
    destruct (Rle_dec (knot g (n - 1)) E); [right; left; assumption|].
    right; right. destruct (find_bin_spec g E Hxs) as (F0 & F1 & F2); [fold n; lra|].
    eexists. repeat split; try eassumption; try apply F2. lra.
  Qed.

  (** *** range_monotone *)
  Lemma range_lower_bound : forall E i, (0 <= i < n)%Z -> knot g i <= E -> rv g i <= range_calc g E.
  Proof.
    intros E i Hi HE.
    assert (HEpos : 0 < E) by (eapply Rlt_le_trans; [apply (knot_pos g i)|exact HE]).
    destruct (energy_cases E HEpos) as [H|[H|(j & J0 & J1 & Jb & J2)]].
    - assert (i = 0%Z).
      { destruct (Z.eq_dec i 0); [assumption|]. exfalso.
        pose proof (knot_mono g 0 i Hxs ltac:(lia)). lra. }
      subst i. assert (E = knot g 0) by lra. subst E. rewrite range_at_knot0. lra.
    - rewrite range_above by assumption. apply rv_le; lia.
    - rewrite (range_in_bin E j J0 J1 Jb J2).
      destruct (range_bin_bounds E j J0 J1 Jb) as [B _].
      eapply Rle_trans; [|exact B]. apply rv_le; [|lia].
      split; [lia|]. destruct (Z_le_gt_dec i j); [assumption|]. exfalso.
      assert (knot g (j + 1) <= knot g i).
      { destruct (Z.eq_dec (j + 1) i) as [->|]; [lra|]. left. apply knot_mono; auto. lia. }
      lra.
  Qed.

  Lemma range_upper_bound : forall E i, (0 <= i < n)%Z -> 0 < E <= knot g i -> range_calc g E <= rv g i.
  Proof.
    intros E i Hi [HEpos HE].
    destruct (energy_cases E HEpos) as [H|[H|(j & J0 & J1 & Jb & J2)]].
    - rewrite range_below by lra.
      assert (sqrt (E / knot g 0) <= 1).
      { rewrite <- sqrt_1. apply sqrt_le_1_alt.
        apply Rmult_le_reg_r with (knot g 0); [apply knot_pos|].
        replace (E / knot g 0 * knot g 0) with E by (field; apply Rgt_not_eq, knot_pos). lra. }
      pose proof (rv_pos 0 ltac:(pose proof n_ge_2; lia)).
      eapply Rle_trans; [|apply (rv_le 0 i); lia]. nra.
    - assert (i = (n - 1)%Z).
      { destruct (Z.eq_dec i (n - 1)); [assumption|]. exfalso.
        pose proof (knot_mono g i (n - 1) Hxs ltac:(lia)). lra. }
      subst i. rewrite range_above by assumption. lra.
    - rewrite (range_in_bin E j J0 J1 Jb J2).
      destruct (range_bin_bounds E j J0 J1 Jb) as [_ B].
      destruct (Z_le_gt_dec (j + 1) i) as [Hji|Hji].
      + eapply Rle_trans; [left; exact B|]. apply rv_le; lia.
      + assert (i = j).
        { destruct (Z.eq_dec i j); [assumption|]. exfalso.
          pose proof (knot_mono g i j Hxs ltac:(lia)). lra. }
        subst i. assert (E = knot g j) by lra. subst E. unfold range_bin.
        rewrite lin_interp_left by (apply knot_mono; auto; lia). lra.
  Qed.

  Theorem range_monotone : forall E1 E2, 0 < E1 <= E2 -> range_calc g E1 <= range_calc g E2.
  Proof.
    intros E1 E2 [H1 H12]. assert (H2 : 0 < E2) by lra.
    destruct (energy_cases E1 H1) as [A|[A|(i & I0 & I1 & Ib & I2)]].
    - destruct (Rle_dec E2 (knot g 0)) as [B|B].
      + rewrite !range_below by lra.
        pose proof (rv_pos 0 ltac:(pose proof n_ge_2; lia)).
        apply Rmult_le_compat_l; [lra|]. apply sqrt_le_1_alt.
        unfold Rdiv. apply Rmult_le_compat_r; [left; apply Rinv_0_lt_compat, knot_pos|lra].
      + eapply Rle_trans; [apply (range_upper_bound E1 0); [pose proof n_ge_2; lia|lra]|].
        apply range_lower_bound; [pose proof n_ge_2; lia|lra].
    - rewrite !range_above by lra. lra.
    - destruct (Rlt_dec E2 (knot g (i + 1))) as [B|B].
      + rewrite (range_in_bin E1 i I0 I1 Ib I2).
        rewrite (range_in_bin E2 i I0 I1 ltac:(lra) ltac:(lra)).
        apply lin_mono; [apply knot_mono; auto; lia| |lra].
        apply rv_le; lia.
      + rewrite (range_in_bin E1 i I0 I1 Ib I2).
        destruct (range_bin_bounds E1 i I0 I1 Ib) as [_ B1].
        eapply Rle_trans; [left; exact B1|]. apply range_lower_bound; [lia|lra].
  Qed.

  (** *** the pieces of InverseRangeCalculator *)
  Lemma inv_below : forall r, r < rv g 0 ->
    inv_range_calc g r = knot g 0 * ((r / rv g 0) * (r / rv g 0)).
  Proof.
    intros r Hr. unfold inv_range_calc. cbn zeta. numR. rewrite r_front_eq.
    destruct (Rltb_spec r (rv g 0)); [|lra]. rewrite knot0. reflexivity.
  Qed.

  Lemma inv_above : forall r, rv g (n - 1) <= r -> inv_range_calc g r = knot g (n - 1).
  Proof.
    intros r Hr. unfold inv_range_calc. cbn zeta. numR. rewrite r_front_eq, r_back_eq.
    pose proof (rv_le 0 (n - 1) ltac:(pose proof n_ge_2; lia) ltac:(lia)).
    destruct (Rltb_spec r (rv g 0)); [lra|].
    destruct (Rleb_spec (rv g (n - 1)) r); [|lra]. rewrite knot_last. reflexivity.
  Qed.

  Definition inv_bin (i : Z) (r : R) : R :=
    lin_interp (rv g i) (knot g i) (rv g (i + 1)) (knot g (i + 1)) r.

  Lemma nu_find_unique : forall r (i : nat), (i + 1 < length (xg_vals g))%nat ->
    get 0 (xg_vals g) i <= r < get 0 (xg_vals g) (i + 1) -> nu_find (xg_vals g) r = i.
  Proof.
    intros r i Hi Hb. pose proof vals_increasing as Hinc.
    assert (Hr : get 0 (xg_vals g) 0 <= r < get 0 (xg_vals g) (length (xg_vals g) - 1)).
    { split.
      - eapply Rle_trans; [|apply Hb]. destruct i; [lra|]. left. apply Hinc; lia.
      - eapply Rlt_le_trans; [apply Hb|].
        destruct (Nat.eq_dec (i + 1) (length (xg_vals g) - 1)) as [->|]; [lra|]. left. apply Hinc; lia. }
    destruct (nu_find_spec (xg_vals g) r Hinc ltac:(lia) Hr) as (N1 & N2).
    set (k := nu_find (xg_vals g) r) in *.
    destruct (lt_eq_lt_dec k i) as [[H|H]|H]; [|exact H|]; exfalso.
    - assert (get 0 (xg_vals g) (k + 1) <= get 0 (xg_vals g) i).
      { destruct (Nat.eq_dec (k + 1) i) as [->|]; [lra|left; apply Hinc; lia]. } lra.
    - assert (get 0 (xg_vals g) (i + 1) <= get 0 (xg_vals g) k).
      { destruct (Nat.eq_dec (i + 1) k) as [->|]; [lra|left; apply Hinc; lia]. } lra.
  Qed.

  Lemma inv_in_bin : forall r i, (0 <= i)%Z -> (i + 1 < n)%Z ->
    rv g i <= r < rv g (i + 1) -> inv_range_calc g r = inv_bin i r.
  Proof.
    intros r i Hi0 Hi1 Hb. unfold inv_range_calc. cbn zeta. numR. rewrite r_front_eq, r_back_eq.
    pose proof (rv_le 0 i ltac:(lia) ltac:(lia)).
    pose proof (rv_le (i + 1) (n - 1) ltac:(lia) ltac:(lia)).
    destruct (Rltb_spec r (rv g 0)); [lra|].
    destruct (Rleb_spec (rv g (n - 1)) r); [lra|].
    rewrite (nu_find_unique r (Z.to_nat i)).
    - rewrite !rv_get. unfold inv_bin, knot.
      replace (Z.of_nat (Z.to_nat i)) with i by lia.
      replace (Z.of_nat (Z.to_nat i + 1)) with (i + 1)%Z by lia. reflexivity.
    - rewrite len_vals. lia.
    - rewrite !rv_get. replace (Z.of_nat (Z.to_nat i)) with i by lia.
      replace (Z.of_nat (Z.to_nat i + 1)) with (i + 1)%Z by lia. exact Hb.
  Qed.

  Lemma inv_bin_bounds : forall r i, (0 <= i)%Z -> (i + 1 < n)%Z ->
    rv g i <= r < rv g (i + 1) -> knot g i <= inv_bin i r < knot g (i + 1).
  Proof.
    intros r i Hi0 Hi1 Hb. unfold inv_bin. apply lin_bounds; auto.
    - pose proof (proj2 (proj2 V)) as Hinc. apply Hinc; lia.
    - apply knot_mono; auto. lia.
  Qed.

  Lemma range_cases : forall r, r < rv g 0 \/ rv g (n - 1) <= r \/
    exists i, (0 <= i)%Z /\ (i + 1 < n)%Z /\ rv g i <= r < rv g (i + 1).
  Proof.
    intros r. destruct (Rlt_dec r (rv g 0)); [left; assumption|].
    destruct (Rle_dec (rv g (n - 1)) r); [right; left; assumption|]. right; right.
    assert (Hr : get 0 (xg_vals g) 0 <= r < get 0 (xg_vals g) (length (xg_vals g) - 1))
      by (rewrite r_front_eq, r_back_eq; lra).
    destruct (nu_find_spec (xg_vals g) r vals_increasing ltac:(rewrite len_vals; pose proof n_ge_2; lia) Hr)
      as (N1 & N2).
    exists (Z.of_nat (nu_find (xg_vals g) r)). rewrite len_vals in N1.
    split; [lia|]. split; [lia|]. rewrite !rv_get in N2.
    replace (Z.of_nat (nu_find (xg_vals g) r + 1)) with (Z.of_nat (nu_find (xg_vals g) r) + 1)%Z in N2 by lia.
    exact N2.
  Qed.

  (** *** mutual inverses *)
  Theorem range_inverse_id : forall E, 0 < E <= knot g (n - 1) ->
    inv_range_calc g (range_calc g E) = E.
  Proof.
    intros E [HE H1]. pose proof (rv_pos 0 ltac:(pose proof n_ge_2; lia)) as Hr0.
    destruct (energy_cases E HE) as [A|[A|(i & I0 & I1 & Ib & I2)]].
    - rewrite range_below by lra.
      assert (Hq : 0 < E / knot g 0) by (apply Rdiv_lt_0_compat; [lra|apply knot_pos]).
      destruct A as [A|A].
      + assert (Hs : sqrt (E / knot g 0) < 1).
        { rewrite <- sqrt_1. apply sqrt_lt_1_alt. split; [lra|].
          apply Rmult_lt_reg_r with (knot g 0); [apply knot_pos|].
          replace (E / knot g 0 * knot g 0) with E by (field; apply Rgt_not_eq, knot_pos). lra. }
        rewrite inv_below by nra.
        replace (rv g 0 * sqrt (E / knot g 0) / rv g 0) with (sqrt (E / knot g 0)) by (field; lra).
        rewrite sqrt_sqrt by lra. field. apply Rgt_not_eq, knot_pos.
      + subst E. replace (knot g 0 / knot g 0) with 1 by (field; apply Rgt_not_eq, knot_pos).
        rewrite sqrt_1, Rmult_1_r.
        pose proof n_ge_2 as Hn2. pose proof (proj2 (proj2 V)) as Hinc.
        assert (Hr01 : rv g 0 < rv g (0 + 1)) by (apply Hinc; lia).
        rewrite (inv_in_bin (rv g 0) 0 ltac:(lia) ltac:(lia) ltac:(lra)).
        unfold inv_bin. apply lin_interp_left. exact Hr01.
    - assert (E = knot g (n - 1)) by lra. subst E. rewrite range_above by lra.
      apply inv_above. lra.
    - rewrite (range_in_bin E i I0 I1 Ib I2).
      rewrite (inv_in_bin _ i I0 I1 (range_bin_bounds E i I0 I1 Ib)).
      unfold inv_bin, range_bin. apply lin_inverse.
      + apply knot_mono; auto. lia.
      + pose proof (proj2 (proj2 V)) as Hinc. apply Hinc; lia.
  Qed.

  Theorem inverse_range_id : forall r, 0 < r <= rv g (n - 1) ->
    range_calc g (inv_range_calc g r) = r.
  Proof.
    intros r [Hr H1]. pose proof (rv_pos 0 ltac:(pose proof n_ge_2; lia)) as Hr0.
    destruct (range_cases r) as [A|[A|(i & I0 & I1 & Ib)]].
    - rewrite inv_below by assumption.
      set (q := r / rv g 0). assert (Hq : 0 < q < 1).
      { unfold q. split; [apply Rdiv_lt_0_compat; lra|].
        apply Rmult_lt_reg_r with (rv g 0); [lra|].
        replace (r / rv g 0 * rv g 0) with r by (field; lra). lra. }
      pose proof (knot_pos g 0) as Hk.
      assert (Hqq : 0 < q * q < 1) by nra.
      rewrite range_below by (split; nra).
      replace (knot g 0 * (q * q) / knot g 0) with (q * q) by (field; lra).
      rewrite sqrt_square by lra. unfold q. field. lra.
    - assert (r = rv g (n - 1)) by lra. subst r. rewrite inv_above by lra.
      apply range_above. lra.
    - rewrite (inv_in_bin r i I0 I1 Ib).
      destruct (inv_bin_bounds r i I0 I1 Ib) as [B0 B1].
      destruct (Rle_lt_dec (inv_bin i r) (knot g 0)) as [C|C].
      + (* only possible at r = r_0, E = E_0 *)
        assert (i = 0%Z).
        { destruct (Z.eq_dec i 0); [assumption|]. exfalso.
          pose proof (knot_mono g 0 i Hxs ltac:(lia)). lra. }
        subst i. assert (Hk : inv_bin 0 r = knot g 0) by lra. rewrite Hk, range_at_knot0.
        (* inv_bin 0 r = E_0 forces r = r_0 *)
        unfold inv_bin in Hk. rewrite lin_interp_eq in Hk
          by (pose proof (proj2 (proj2 V)) as Hinc; apply Hinc; lia).
        pose proof (knot_mono g 0 (0 + 1) Hxs ltac:(lia)) as Hkk.
        assert (Hrr : rv g 0 < rv g (0 + 1)) by (pose proof (proj2 (proj2 V)) as Hinc; apply Hinc; lia).
        assert (Hz : (knot g (0 + 1) - knot g 0) * ((r - rv g 0) / (rv g (0 + 1) - rv g 0)) = 0) by lra.
        apply Rmult_integral in Hz. destruct Hz as [Hz|Hz]; [lra|].
        assert (r - rv g 0 = 0).
        { replace (r - rv g 0) with ((r - rv g 0) / (rv g (0 + 1) - rv g 0) * (rv g (0 + 1) - rv g 0)) by (field; lra).
          rewrite Hz. lra. }
        lra.
      + rewrite (range_in_bin _ i I0 I1 (conj B0 B1) C).
        unfold inv_bin, range_bin. apply lin_inverse.
        * pose proof (proj2 (proj2 V)) as Hinc. apply Hinc; lia.
        * apply knot_mono; auto. lia.
  Qed.

  (** *** inverse_range_monotone, bounds *)
  Lemma inv_nonneg : forall r, 0 <= r -> 0 <= inv_range_calc g r.
  Proof.
    intros r Hr. destruct (range_cases r) as [A|[A|(i & I0 & I1 & Ib)]].
    - rewrite inv_below by assumption. pose proof (knot_pos g 0).
      assert (0 <= r / rv g 0 * (r / rv g 0)) by (apply Rle_0_sqr). nra.
    - rewrite inv_above by assumption. left. apply knot_pos.
    - rewrite (inv_in_bin r i I0 I1 Ib). destruct (inv_bin_bounds r i I0 I1 Ib).
      pose proof (knot_pos g i). lra.
  Qed.

  Lemma inv_lower_bound : forall r i, (0 <= i < n)%Z -> rv g i <= r -> knot g i <= inv_range_calc g r.
  Proof.
    intros r i Hi Hr. destruct (range_cases r) as [A|[A|(j & J0 & J1 & Jb)]].
    - pose proof (rv_le 0 i ltac:(lia) ltac:(lia)). lra.
    - rewrite inv_above by assumption.
      destruct (Z.eq_dec i (n - 1)) as [->|]; [lra|]. left. apply knot_mono; auto. lia.
    - rewrite (inv_in_bin r j J0 J1 Jb). destruct (inv_bin_bounds r j J0 J1 Jb) as [B _].
      eapply Rle_trans; [|exact B].
      assert (i <= j)%Z.
      { destruct (Z_le_gt_dec i j); [assumption|]. exfalso.
        pose proof (rv_le (j + 1) i ltac:(lia) ltac:(lia)). lra. }
      destruct (Z.eq_dec i j) as [->|]; [lra|]. left. apply knot_mono; auto. lia.
  Qed.

  Lemma inv_upper_bound : forall r i, (0 <= i < n)%Z -> r <= rv g i -> 0 <= r -> inv_range_calc g r <= knot g i.
  Proof.
    intros r i Hi Hr Hr0. pose proof (rv_pos 0 ltac:(pose proof n_ge_2; lia)) as Hp.
    destruct (range_cases r) as [A|[A|(j & J0 & J1 & Jb)]].
    - rewrite inv_below by assumption.
      set (q := r / rv g 0). assert (Hq : 0 <= q < 1).
      { unfold q. split; [apply Rle_mult_inv_pos; lra|].
        apply Rmult_lt_reg_r with (rv g 0); [lra|].
        replace (r / rv g 0 * rv g 0) with r by (field; lra). lra. }
      pose proof (knot_pos g 0). assert (Hqq : 0 <= q * q <= 1) by nra.
      apply Rle_trans with (knot g 0); [nra|].
      destruct (Z.eq_dec i 0) as [->|]; [lra|]. left. apply knot_mono; auto. lia.
    - assert (i = (n - 1)%Z).
      { destruct (Z.eq_dec i (n - 1)); [assumption|]. exfalso.
        pose proof (proj2 (proj2 V)) as Hinc. pose proof (Hinc i (n - 1)%Z ltac:(lia) ltac:(lia) ltac:(lia)).
        fold (rv g i) in *. lra. }
      subst i. rewrite inv_above by assumption. lra.
    - rewrite (inv_in_bin r j J0 J1 Jb). destruct (inv_bin_bounds r j J0 J1 Jb) as [_ B].
      pose proof (proj2 (proj2 V)) as Hinc.
      destruct (Z_le_gt_dec (j + 1) i) as [Hji|Hji].
      + eapply Rle_trans; [left; exact B|].
        destruct (Z.eq_dec (j + 1) i) as [->|]; [lra|]. left. apply knot_mono; auto. lia.
      + assert (i = j).
        { destruct (Z.eq_dec i j); [assumption|]. exfalso.
          pose proof (Hinc i j ltac:(lia) ltac:(lia) ltac:(lia)) as Hlt. fold (rv g i) (rv g j) in Hlt. lra. }
        subst i. assert (r = rv g j) by lra. subst r. unfold inv_bin.
        rewrite lin_interp_left by (apply Hinc; lia). lra.
  Qed.

  Theorem inverse_range_monotone : forall r1 r2, 0 <= r1 <= r2 ->
    inv_range_calc g r1 <= inv_range_calc g r2.
  Proof.
    intros r1 r2 [H1 H12]. pose proof (rv_pos 0 ltac:(pose proof n_ge_2; lia)) as Hp.
    destruct (range_cases r1) as [A|[A|(i & I0 & I1 & Ib)]].
    - destruct (Rlt_dec r2 (rv g 0)) as [B|B].
      + rewrite !inv_below by assumption. pose proof (knot_pos g 0).
        assert (0 <= r1 / rv g 0 <= r2 / rv g 0).
        { split; [apply Rle_mult_inv_pos; lra|].
          unfold Rdiv. apply Rmult_le_compat_r; [left; apply Rinv_0_lt_compat; lra|lra]. }
        apply Rmult_le_compat_l; [lra|]. nra.
      + eapply Rle_trans; [apply (inv_upper_bound r1 0); [pose proof n_ge_2; lia|lra|lra]|].
        apply inv_lower_bound; [pose proof n_ge_2; lia|lra].
    - rewrite !inv_above by lra. lra.
    - destruct (Rlt_dec r2 (rv g (i + 1))) as [B|B].
      + rewrite (inv_in_bin r1 i I0 I1 Ib), (inv_in_bin r2 i I0 I1 ltac:(lra)).
        apply lin_mono; [pose proof (proj2 (proj2 V)) as Hinc; apply Hinc; lia| |lra].
        left. apply knot_mono; auto. lia.
      + rewrite (inv_in_bin r1 i I0 I1 Ib). destruct (inv_bin_bounds r1 i I0 I1 Ib) as [_ B1].
        eapply Rle_trans; [left; exact B1|]. apply inv_lower_bound; [lia|lra].
  Qed.
End RangeTable.

(** non-vacuity: the 2-knot range table of the witness *)
Example range_valid_ex : range_valid {| xg_loge := ug_from_bounds 0 1 2; xg_prime := no_scaling; xg_vals := [2; 4] |}.
Proof.
  split; [|split].
  - unfold xs_valid. cbn [xg_loge xg_prime xg_vals].
    split; [apply from_bounds_valid; [lia|lra]|]. split; [reflexivity|]. split; [left; reflexivity|].
    cbn. unfold no_scaling. lia.
  - unfold rv, xs_get. cbn. lra.
  - intros i j Hi Hij Hj. cbn in Hj. assert (i = 0%Z) by lia. assert (j = 1%Z) by lia. subst.
    unfold rv, xs_get, get. simpl. lra.
Qed.
