(** * C14: prime_index law of ValueGridXsBuilder::build *)
From Coq Require Import Reals ZArith List Lra Lia Bool.
From Celer Require Import Base.Num Base.NumR C18.Algorithms C18.Grids C18.GridProofs
  C14.Calc C14.Builder C14.MscProofs C14.XsProofs.
Import ListNotations.
Local Open Scope R_scope.

(** the correction step alone: whatever bin UniformGrid::find returned *)
Definition fix_prime (rel abs : R) (grid : ugrid R) (le : R) (bin : Z) : Z :=
  if soft_equal_tol rel abs (ug_at grid (bin + 1)) le then (bin + 1)%Z else bin.

Lemma build_prime_index_fix : forall rel abs lmin le lmax n,
  build_prime_index rel abs lmin le lmax n =
  fix_prime rel abs (ug_from_bounds lmin lmax n) le (ug_find (ug_from_bounds lmin lmax n) le).
Proof. reflexivity. Qed.

(** Roundoff in find can return k-1 instead of k; the correction repairs exactly
    that, provided soft_equal recognises grid point k and separates it from k+1 *)
Lemma fix_prime_law : forall rel abs grid le k bin,
  (bin = k \/ bin = (k - 1)%Z) ->
  soft_equal_tol rel abs (ug_at grid k) le = true ->
  soft_equal_tol rel abs (ug_at grid (k + 1)) le = false ->
  fix_prime rel abs grid le bin = k.
Proof.
  intros rel abs grid le k bin [-> | ->] Hk Hk1; unfold fix_prime.
  - rewrite Hk1. reflexivity.
  - replace (k - 1 + 1)%Z with k by lia. rewrite Hk. lia.
Qed.

Lemma soft_equal_R : forall rel abs a b : R,
  soft_equal_tol rel abs a b = Rltb (Rabs (a - b)) (Rmax abs (rel * Rmax (Rabs a) (Rabs b))).
Proof.
  intros. unfold soft_equal_tol. rewrite !fmax_R. numR. unfold nmax. numR.
  assert (Hm : forall x y : R, (if Rltb x y then y else x) = Rmax x y).
  { intros x y. unfold Rmax. destruct (Rltb_spec x y); destruct (Rle_dec x y); lra. }
  rewrite !Hm. reflexivity.
Qed.

(** prime_index law over R: if log(eprime) IS grid point k (0 <= k < n-1) and
    neighbouring grid points are further apart than the soft_equal tolerance,
    the stored prime index is k, i.e. E[prime_index] = eprime *)
Theorem build_prime_index_law : forall rel abs lmin lmax n k,
  0 <= rel -> 0 < abs -> (2 <= n)%Z -> lmin < lmax -> (0 <= k)%Z -> (k + 1 < n)%Z ->
  let grid := ug_from_bounds lmin lmax n in
  Rmax abs (rel * Rmax (Rabs (ug_at grid (k + 1))) (Rabs (ug_at grid k))) <= ug_delta grid ->
  build_prime_index rel abs lmin (ug_at grid k) lmax n = k /\
  knot (build_xs rel abs lmin (ug_at grid k) lmax (repeat 0 (Z.to_nat n)))
       (build_prime_index rel abs lmin (ug_at grid k) lmax n) = exp (ug_at grid k).
Proof.
  intros rel abs lmin lmax n k Hrel Habs Hn Hlt Hk0 Hk1 grid Hsep.
  assert (Hv : ug_valid grid) by (apply from_bounds_valid; assumption).
  assert (E : build_prime_index rel abs lmin (ug_at grid k) lmax n = k).
  { rewrite build_prime_index_fix. fold grid. rewrite (ug_find_at_node grid k Hv Hk0 Hk1).
    unfold fix_prime. rewrite soft_equal_R.
    assert (Hd : ug_at grid (k + 1) - ug_at grid k = ug_delta grid).
    { unfold ug_at. numR. rewrite plus_IZR. lra. }
    pose proof (ug_delta_pos grid Hv) as Hdp.
    rewrite Hd. rewrite (Rabs_pos_eq (ug_delta grid)) by lra.
    destruct (Rltb_spec (ug_delta grid) (Rmax abs (rel * Rmax (Rabs (ug_at grid (k + 1))) (Rabs (ug_at grid k))))); [lra|reflexivity]. }
  split; [exact E|]. rewrite E. unfold knot, build_xs. cbn [xg_loge].
  rewrite repeat_length. rewrite Z2Nat.id by lia. reflexivity.
Qed.

(** the separation hypothesis is satisfiable (grid 0..1 with 2 points, k = 0) *)
Example build_prime_ex : let grid := ug_from_bounds 0 1 2 in
  Rmax (1/100000000000000) (1/1000000000000 * Rmax (Rabs (ug_at grid (0 + 1))) (Rabs (ug_at grid 0)))
  <= ug_delta grid.
Proof.
  cbn zeta. unfold ug_at, ug_from_bounds. cbn [ug_front ug_delta ug_size ug_back]. numR.
  change (2 - 1)%Z with 1%Z. change (0 + 1)%Z with 1%Z.
  replace (0 + (1 - 0) / 1 * 1) with 1 by lra. replace (0 + (1 - 0) / 1 * 0) with 0 by lra.
  rewrite Rabs_R0, Rabs_R1. replace ((1 - 0) / 1) with 1 by lra.
  unfold Rmax. repeat destruct (Rle_dec _ _); lra.
Qed.
