(** * C14: MSC path conversions (instance R) *)
From Coq Require Import Reals ZArith List Lra Lia Bool.
From Celer Require Import Base.Num Base.NumR C18.Algorithms C18.Grids C14.Calc.
Import ListNotations.
Local Open Scope R_scope.

Lemma nmin_le_r : forall a b : R, nmin a b <= b.
Proof. intros a b. unfold nmin. numR. destruct (Rltb_spec b a); lra. Qed.
Lemma nmin_le_l : forall a b : R, nmin a b <= a.
Proof. intros a b. unfold nmin. numR. destruct (Rltb_spec b a); lra. Qed.

Lemma Reqb_refl : forall a : R, Reqb a a = true.
Proof. intros. apply Reqb_true. reflexivity. Qed.
Lemma fmin_R : forall a b : R, fmin a b = nmin a b.
Proof. intros. unfold fmin. numR. rewrite !Reqb_refl. reflexivity. Qed.
Lemma fmax_R : forall a b : R, fmax a b = nmax a b.
Proof. intros. unfold fmax. numR. rewrite !Reqb_refl. reflexivity. Qed.

(** converting a true path to a geometric path never lengthens it *)
Lemma msc_geo_le_true : forall min_step dtrl small mscxs rng emass energy lambda range tstep,
  fst (msc_to_geo (T:=R) min_step dtrl small mscxs rng emass energy lambda range tstep) <= tstep.
Proof.
  intros. unfold msc_to_geo.
  match goal with |- fst (let '(s, a) := ?X in _) <= _ => destruct X as [s a] end.
  cbn [fst]. rewrite fmin_R. apply nmin_le_r.
Qed.

(** converting back returns a value between the geometric and the original true path *)
Lemma msc_true_between : forall min_step small true_step alpha range lambda gstep,
  gstep <= true_step ->
  let t := msc_from_geo (T:=R) min_step small true_step alpha range lambda gstep in
  gstep <= t <= true_step.
Proof.
  intros min_step small true_step alpha range lambda gstep Hg. unfold msc_from_geo.
  cbn zeta. numR. destruct (Rltb_spec gstep min_step); [lra|].
  match goal with |- _ <= (if Rltb ?t _ then _ else _) <= _ => generalize t end.
  intros t. destruct (Rltb_spec t gstep); [lra|]. destruct (Rltb_spec true_step t); lra.
Qed.

(** the unclamped constant-cross-section formula z = lambda (1 - exp(-t/lambda))
    already satisfies 0 <= z <= t *)
Lemma msc_const_xs_le : forall lambda t, 0 < lambda -> 0 <= t ->
  0 <= - lambda * nexpm1 (T:=R) (- t / lambda) <= t.
Proof.
  intros lambda t Hl Ht. numR.
  pose proof (exp_ineq1_le (- t / lambda)) as H1.
  assert (H2 : exp (- t / lambda) <= 1).
  { rewrite <- exp_0. destruct (Req_dec t 0) as [->|Hne].
    - replace (- 0 / lambda) with 0 by (field; lra). lra.
    - left. apply exp_increasing. unfold Rdiv.
      assert (0 < t * / lambda) by (apply Rmult_lt_0_compat; [lra|apply Rinv_0_lt_compat; lra]). lra. }
  split; [nra|].
  assert (H3 : lambda * (1 + - t / lambda) <= lambda * exp (- t / lambda)) by (apply Rmult_le_compat_l; lra).
  replace (lambda * (1 + - t / lambda)) with (lambda - t) in H3 by (field; lra). lra.
Qed.

(** inverse pair on the constant-cross-section branch:
    t = -lambda ln(1 - z/lambda) inverts z = lambda (1 - exp(-t/lambda)) *)
Lemma msc_const_xs_inverse : forall lambda t, 0 < lambda -> 0 <= t ->
  let z := - lambda * nexpm1 (T:=R) (- t / lambda) in
  - lambda * nlog1p (T:=R) (- z / lambda) = t.
Proof.
  intros lambda t Hl Ht. cbn zeta. numR.
  replace (1 + - (- lambda * (exp (- t / lambda) - 1)) / lambda) with (exp (- t / lambda)) by (field; lra).
  rewrite ln_exp. field. lra.
Qed.

Example msc_ex : fst (msc_to_geo (T:=R) 1 1 0 (Build_xsgrid (T:=R) (Build_ugrid (T:=R) 2 0 1 1) 0 [1;1])
                        (Build_xsgrid (T:=R) (Build_ugrid (T:=R) 2 0 1 1) 0 [1;1]) 1 1 1 1 (1/2)) <= 1/2.
Proof. apply msc_geo_le_true. Qed.
