(** * C14: the hypotheses of the mean-loss theorems are satisfiable (the
    witness tables of LossWitness.v are valid tables) *)
From Coq Require Import Reals ZArith List Lra Lia.
From Celer Require Import Base.Num Base.NumR C18.Algorithms C18.Grids C18.GridProofs
  C14.Calc C14.XsProofs C14.RangeProofs C14.LossProofs C14.LossWitness.
Import ListNotations.
Local Open Scope R_scope.

Example loss_hypotheses_ex :
  xs_valid w_dedx /\ vals_nonneg w_dedx /\ range_valid w_range /\
  0 < 1 / 100 <= 1 /\ 0 < 2 <= range_calc w_range 1.
Proof.
  split; [|split; [|split; [|split]]].
  - unfold xs_valid, w_dedx, w_grid. cbn [xg_loge xg_prime xg_vals].
    split; [apply from_bounds_valid; [lia|lra]|]. split; [reflexivity|].
    split; [left; reflexivity|]. cbn. unfold no_scaling. lia.
  - intros i. unfold xs_get, w_dedx. cbn [xg_vals]. unfold get.
    destruct (Z.to_nat i) as [|[|[|k]]]; simpl; lra.
  - exact range_valid_ex.
  - lra.
  - rewrite w_range_at_1. lra.
Qed.

(** and the proved bounds apply to the witness: both losses are in [0, E] *)
Example loss_bounds_ex : 0 <= mean_loss w_dedx w_range (1/100) 1 2 (1/100) <= 1.
Proof.
  destruct loss_hypotheses_ex as (H1 & H2 & H3 & H4 & H5).
  apply (mean_loss_bounds w_dedx w_range H1 H2 H3 (1/100) 1 2 H4 ltac:(lra) H5). lra.
Qed.
