(** * C14: ValueGridXsBuilder::from_geant (ValueGridBuilder.cc) over R — the
    concatenation law and the end-to-end statement: for imported log-spaced
    lambda / lambda_prim tables the built XsGridData has the imported energies
    as knots, the prime index at the coincident point, and XsCalculator
    reproduces lambda below it and lambda_prim / E from it on *)
From Coq Require Import Reals ZArith List Lra Lia Bool Psatz.
From Celer Require Import Base.Num Base.NumR C18.Algorithms C18.Grids C18.GridProofs
  C14.Calc C14.Builder C14.MscProofs C14.XsProofs C14.BuilderProofs C14.Generic.
Import ListNotations.
Local Open Scope R_scope.

(** ** the concatenation (any element type) *)
Lemma removelast_length : forall (A : Type) (l : list A), length (removelast l) = (length l - 1)%nat.
Proof.
  induction l as [|a [|b r] IH]; [reflexivity|reflexivity|].
  change (removelast (a :: b :: r)) with (a :: removelast (b :: r)).
  cbn [length] in *. rewrite IH. lia.
Qed.

Lemma removelast_nth : forall (A : Type) (d : A) (l : list A) i, (i < length l - 1)%nat ->
  nth i (removelast l) d = nth i l d.
Proof.
  induction l as [|a [|b r] IH]; intros i Hi; [cbn in Hi; lia|cbn in Hi; lia|].
  change (removelast (a :: b :: r)) with (a :: removelast (b :: r)).
  destruct i; [reflexivity|]. cbn [nth]. apply IH. cbn [length] in *. lia.
Qed.

Theorem from_geant_concat : forall (l lp : list R), (1 <= length l)%nat ->
  let xs := removelast l ++ lp in
  length xs = (length l + length lp - 1)%nat /\
  (forall i, (i < length l - 1)%nat -> get 0 xs i = get 0 l i) /\
  (forall j, get 0 xs (length l - 1 + j) = get 0 lp j).
Proof.
  intros l lp Hl xs. unfold xs, get. split; [|split].
  - rewrite app_length, removelast_length. lia.
  - intros i Hi. rewrite app_nth1 by (rewrite removelast_length; exact Hi).
    apply removelast_nth. exact Hi.
  - intros j. rewrite app_nth2 by (rewrite removelast_length; lia).
    rewrite removelast_length. f_equal. lia.
Qed.

(** ** imported log-spaced energies: E_j = exp (a + h (k0 + j)), j < m *)
Definition geant_energies (a h : R) (k0 m : nat) : list R :=
  map (fun j => exp (a + h * IZR (Z.of_nat (k0 + j)))) (seq 0 m).

Lemma geant_length : forall a h k0 m, length (geant_energies a h k0 m) = m.
Proof. intros. unfold geant_energies. rewrite map_length, seq_length. reflexivity. Qed.

Lemma get_geant : forall a h k0 m j, (j < m)%nat ->
  get 0 (geant_energies a h k0 m) j = exp (a + h * IZR (Z.of_nat (k0 + j))).
Proof.
  intros a h k0 m j Hj. unfold get, geant_energies.
  set (f := fun j : nat => exp (a + h * IZR (Z.of_nat (k0 + j)))).
  rewrite (nth_indep _ 0 (f 0%nat)) by (rewrite map_length, seq_length; exact Hj).
  rewrite map_nth. rewrite seq_nth by exact Hj. reflexivity.
Qed.

Lemma calc_log_delta_geant : forall a h k0 m, (2 <= m)%nat ->
  calc_log_delta (geant_energies a h k0 m) = exp h.
Proof.
  intros a h k0 m Hm. unfold calc_log_delta, vback, vfront.
  rewrite geant_length, !get_geant by lia. numR. unfold Rpow.
  assert (Hz : IZR (Z.of_nat m - 1) <> 0) by (apply not_0_IZR; lia).
  destruct (Req_EM_T (1 / IZR (Z.of_nat m - 1)) 0) as [E|_].
  { exfalso. apply (Rmult_eq_compat_r (IZR (Z.of_nat m - 1))) in E.
    replace (1 / IZR (Z.of_nat m - 1) * IZR (Z.of_nat m - 1)) with 1 in E by (field; exact Hz). lra. }
  destruct (Rlt_dec 0 (exp (a + h * IZR (Z.of_nat (k0 + (m - 1)))) / exp (a + h * IZR (Z.of_nat (k0 + 0))))) as [_|N].
  2:{ exfalso. apply N. apply Rdiv_lt_0_compat; apply exp_pos. }
  unfold Rpower. f_equal. unfold Rdiv at 2. rewrite ln_mult by (try apply Rinv_0_lt_compat; apply exp_pos).
  rewrite ln_Rinv by apply exp_pos. rewrite !ln_exp.
  rewrite !Nat2Z.inj_add, !plus_IZR. rewrite Nat2Z.inj_sub by lia. rewrite !minus_IZR.
  change (IZR (Z.of_nat 0)) with 0. change (IZR (Z.of_nat 1)) with 1.
  rewrite minus_IZR in Hz. field. exact Hz.
Qed.

Lemma soft_equal_refl : forall rel abs a : R, 0 < abs -> soft_equal_tol rel abs a a = true.
Proof.
  intros rel abs a Habs. rewrite soft_equal_R. replace (a - a) with 0 by lra. rewrite Rabs_R0.
  apply Rltb_true. eapply Rlt_le_trans; [exact Habs|apply Rmax_l].
Qed.

(** ** end to end *)
Section FromGeant.
  Variables rel abs a h : R.
  Variables nl nu : nat.
  Variables lambda lambda_prim : list R.
  Hypothesis Hrel : 0 <= rel.
  Hypothesis Habs : 0 < abs.
  Hypothesis Hh : 0 < h.
  Hypothesis Hnl : (2 <= nl)%nat.
  Hypothesis Hnu : (2 <= nu)%nat.
  Hypothesis Hll : length lambda = nl.
  Hypothesis Hlp : length lambda_prim = nu.

  (** the two imported energy grids share the point E_{nl-1} *)
  Let le := geant_energies a h 0 nl.
  Let pe := geant_energies a h (nl - 1) nu.
  Let N : Z := Z.of_nat (nl + nu - 1).
  Let grid := ug_from_bounds a (a + h * IZR (N - 1)) N.
  Let k : Z := Z.of_nat (nl - 1).

  Hypothesis Hsize : (N < no_scaling)%Z.
  (** neighbouring log-energy points are further apart than soft_equal's tolerance
      (h ~ 0.33 for 7 bins per decade against 1e-12 |log E|) *)
  Hypothesis Hsep : Rmax abs (rel * Rmax (Rabs (ug_at grid (k + 1))) (Rabs (ug_at grid k))) <= ug_delta grid.

  Lemma grid_delta : ug_delta grid = h.
  Proof.
    unfold grid, ug_from_bounds. cbn [ug_delta]. numR.
    assert (IZR (N - 1) <> 0) by (apply not_0_IZR; unfold N; lia). field. assumption.
  Qed.

  Lemma grid_at : forall i, ug_at grid i = a + h * IZR i.
  Proof. intros i. unfold ug_at. rewrite grid_delta. unfold grid. cbn [ug_front ug_from_bounds]. numR. reflexivity. Qed.

  Lemma from_geant_args :
    from_geant rel abs le lambda pe lambda_prim
    = XsArgs (exp (ug_at grid 0)) (exp (ug_at grid k)) (exp (ug_at grid (N - 1)))
             (removelast lambda ++ lambda_prim).
  Proof.
    unfold from_geant. unfold le, pe. rewrite !calc_log_delta_geant by assumption.
    rewrite soft_equal_refl by exact Habs. unfold vfront, vback.
    rewrite !geant_length, !get_geant by lia. rewrite !grid_at. unfold k, N.
    replace (Z.of_nat (0 + 0)) with 0%Z by lia.
    replace (nl - 1 + 0)%nat with (nl - 1)%nat by lia.
    replace (Z.of_nat (nl - 1 + (nu - 1))) with (Z.of_nat (nl + nu - 1) - 1)%Z by lia. reflexivity.
  Qed.

  Definition geant_grid : xsgrid R :=
    build_xs rel abs (ug_at grid 0) (ug_at grid k) (ug_at grid (N - 1)) (removelast lambda ++ lambda_prim).

  Lemma from_geant_grid : xs_built_grid rel abs (from_geant rel abs le lambda pe lambda_prim) = Some geant_grid.
  Proof. rewrite from_geant_args. unfold xs_built_grid. numR. rewrite !ln_exp. reflexivity. Qed.

  Lemma concat_len : Z.of_nat (length (removelast lambda ++ lambda_prim)) = N.
  Proof.
    destruct (from_geant_concat lambda lambda_prim ltac:(lia)) as (L & _). cbn zeta in L.
    rewrite L, Hll, Hlp. reflexivity.
  Qed.

  Lemma geant_loge : xg_loge geant_grid = grid.
  Proof.
    unfold geant_grid, build_xs. cbn [xg_loge]. rewrite concat_len. unfold grid.
    rewrite !grid_at. f_equal. change (IZR 0) with 0. lra.
  Qed.

  Lemma geant_prime : xg_prime geant_grid = k.
  Proof.
    unfold geant_grid, build_xs. cbn [xg_prime]. rewrite concat_len.
    assert (E0 : ug_at grid 0 = a) by (rewrite grid_at; change (IZR 0) with 0; lra).
    assert (E1 : ug_at grid (N - 1) = a + h * IZR (N - 1)) by apply grid_at.
    rewrite E0, E1.
    apply (build_prime_index_law rel abs a (a + h * IZR (N - 1)) N k Hrel Habs); try (unfold N, k; lia).
    - assert (0 < IZR (N - 1)) by (apply IZR_lt; unfold N; lia). nra.
    - exact Hsep.
  Qed.

  Theorem from_geant_reproduces :
    exists g, xs_built_grid rel abs (from_geant rel abs le lambda pe lambda_prim) = Some g /\
      xs_valid g /\ ug_size (xg_loge g) = N /\ xg_prime g = k /\
      (forall i, (i < nl - 1)%nat ->
         knot g (Z.of_nat i) = get 0 le i /\ xs_at g (Z.of_nat i) = get 0 lambda i) /\
      (forall j, (j < nu)%nat ->
         knot g (k + Z.of_nat j) = get 0 pe j /\
         xs_at g (k + Z.of_nat j) = get 0 lambda_prim j / get 0 pe j).
  Proof.
    exists geant_grid. split; [exact from_geant_grid|].
    destruct (from_geant_concat lambda lambda_prim ltac:(lia)) as (L & C1 & C2). cbn zeta in L, C1, C2.
    assert (Hvalid : xs_valid geant_grid).
    { unfold xs_valid. rewrite geant_loge, geant_prime. split; [|split; [|split]].
      - unfold grid. apply from_bounds_valid; [unfold N; lia|].
        assert (0 < IZR (N - 1)) by (apply IZR_lt; unfold N; lia). nra.
      - unfold geant_grid, build_xs. cbn [xg_vals]. rewrite concat_len. reflexivity.
      - right. unfold grid, k, N. cbn [ug_size ug_from_bounds]. lia.
      - unfold grid. cbn [ug_size ug_from_bounds]. exact Hsize. }
    split; [exact Hvalid|]. split; [rewrite geant_loge; reflexivity|]. split; [exact geant_prime|].
    split.
    - intros i Hi. unfold knot, xs_at. rewrite geant_loge, geant_prime, grid_at.
      unfold le. rewrite get_geant by lia. split; [reflexivity|].
      destruct (k <=? Z.of_nat i)%Z eqn:E; [apply Z.leb_le in E; unfold k in E; lia|].
      unfold xs_get, geant_grid, build_xs. cbn [xg_vals]. rewrite Nat2Z.id.
      apply C1. rewrite Hll. exact Hi.
    - intros j Hj. unfold knot, xs_at. rewrite geant_loge, geant_prime, grid_at.
      unfold pe. rewrite get_geant by exact Hj.
      replace (k + Z.of_nat j)%Z with (Z.of_nat (nl - 1 + j)) by (unfold k; lia).
      split; [reflexivity|].
      destruct (k <=? Z.of_nat (nl - 1 + j))%Z eqn:E; [|apply Z.leb_gt in E; unfold k in E; lia].
      unfold xs_get, geant_grid, build_xs. cbn [xg_vals]. rewrite Nat2Z.id.
      rewrite <- Hll. numR. rewrite C2. reflexivity.
  Qed.
End FromGeant.

(** non-vacuity: lambda on {1, e}, lambda_prim on {e, e^2} (a = 0, h = 1) with
    the default soft_equal tolerances *)
Example from_geant_ex :
  let grid := ug_from_bounds 0 (0 + 1 * IZR (Z.of_nat (2 + 2 - 1) - 1)) (Z.of_nat (2 + 2 - 1)) in
  Rmax (1/100000000000000) (1/1000000000000 *
        Rmax (Rabs (ug_at grid (Z.of_nat (2 - 1) + 1))) (Rabs (ug_at grid (Z.of_nat (2 - 1)))))
  <= ug_delta grid.
Proof.
  cbn zeta. unfold ug_at, ug_from_bounds. cbn [ug_front ug_delta ug_size ug_back]. numR.
  change (Z.of_nat (2 + 2 - 1) - 1)%Z with 2%Z. change (Z.of_nat (2 - 1) + 1)%Z with 2%Z.
  change (Z.of_nat (2 - 1)) with 1%Z.
  replace ((0 + 1 * 2 - 0) / 2) with 1 by lra.
  replace (0 + 1 * 2) with 2 by lra. replace (0 + 1 * 1) with 1 by lra.
  rewrite Rabs_R1. rewrite (Rabs_pos_eq 2) by lra.
  unfold Rmax. repeat destruct (Rle_dec _ _); lra.
Qed.
