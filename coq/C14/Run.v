(** * C14: float entry points for the correspondence check (vm_compute) *)
From Coq Require Import List ZArith Floats.
From Celer Require Import Base.Num Base.NumF C18.Algorithms C18.Grids C14.Calc.
Import ListNotations.

Definition mk (vals : list float) (front back : float) (prime : Z) : xsgrid float :=
  {| xg_loge := ug_from_bounds front back (Z.of_nat (length vals));
     xg_prime := if (prime <? 0)%Z then no_scaling else prime;
     xg_vals := vals |}.

Definition run_xs vals front back prime (es : list float) : list float :=
  map (xs_calc (mk vals front back prime)) es.
Definition run_xsat vals front back prime (is : list Z) : list float :=
  map (xs_at (mk vals front back prime)) is.
Definition run_range vals front back prime (es : list float) : list float :=
  map (range_calc (mk vals front back prime)) es.
Definition run_invrange vals front back prime (rs : list float) : list float :=
  map (inv_range_calc (mk vals front back prime)) rs.
Definition run_eloss dv df db dp rv rf rb rp (lll e range : float) (steps : list float) : list float :=
  map (mean_loss (mk dv df db dp) (mk rv rf rb rp) lll e range) steps.
Definition run_togeo (min_step dtrl small : float) mv mf mb mp rv rf rb rp
           (emass energy lambda range : float) (ts : list float) : list (float * float) :=
  map (msc_to_geo min_step dtrl small (mk mv mf mb mp) (mk rv rf rb rp) emass energy lambda range) ts.
Definition run_fromgeo (min_step small true_step alpha range lambda : float) (gs : list float) : list float :=
  map (msc_from_geo min_step small true_step alpha range lambda) gs.
Definition run_msc_mfp mv mf mb mp (e : float) : float := msc_mfp (mk mv mf mb mp) e.

(** ValueGridXsBuilder::build: stored prime index (soft_equal tolerances 1e-12 / 1e-14) *)
From Celer Require Import C14.Builder.
Definition run_build_prime (lmin le lmax : float) (n : Z) : Z :=
  build_prime_index 0x1.19799812dea11p-40%float 0x1.6849b86a12b9bp-47%float lmin le lmax n.

(** MscStepToGeo followed by MscStepFromGeo on fractions of the geometric path
    (g, the float just below g, g/2, g/1000): per true step (g, alpha, [back values]) *)
Definition run_msc (min_step dtrl small : float) mv mf mb mp rv rf rb rp
           (emass energy lambda range : float) (ts : list float) : list (float * float * list float) :=
  map (fun t =>
         let '(g, a) := msc_to_geo min_step dtrl small (mk mv mf mb mp) (mk rv rf rb rp)
                                   emass energy lambda range t in
         (g, a, map (msc_from_geo min_step small t a range lambda)
                    [g; PrimFloat.next_down g; PrimFloat.mul g 0x1p-1%float; PrimFloat.mul g 0x1.0624dd2f1a9fcp-10%float])) ts.

(** GenericCalculator (operator(), from_inverse / make_inverse) *)
From Celer Require Import C14.Generic.
Definition run_generic (xs ys qs : list float) : list float :=
  map (generic_calc {| gg_x := xs; gg_y := ys |}) qs.
Definition run_generic_inv (xs ys qs : list float) : list float :=
  map (generic_calc (generic_inverse {| gg_x := xs; gg_y := ys |})) qs.

(** ValueGridXsBuilder::from_geant: (does not throw, constructor arguments, the
    CELER_EXPECTs hold); default SoftEqual tolerances 1e-12 / 1e-14 *)
Definition se_rel : float := 0x1.19799812dea11p-40%float.
Definition se_abs : float := 0x1.6849b86a12b9bp-47%float.
Definition run_from_geant (le l pe lp : list float) : option (float * float * float * list float) * bool :=
  (match from_geant se_rel se_abs le l pe lp with
   | XsThrow => None
   | XsArgs emin eprime emax xs => Some (emin, eprime, emax, xs)
   end, from_geant_expects se_rel se_abs le l pe lp).
