(** * C19 property theorems — statements only; proofs live in C19/*Proofs.v.
    Each theorem is closed by [exact] and followed by [Print Assumptions].

    Model: C19/Json.v (JSON trees, doubles as bit patterns, the text layer
    [wire]) and C19/OrangeCodec.v ([enc_*] = to_json, [dec_*] = from_json,
    [wfb_*] = the well-formedness checkers; [wf x := wfb_input x = true]). *)
From Coq Require Import ZArith List String Bool.
From Celer Require Import C19.Json C19.OrangeCodec Generated.C19_keys C19.KeysProofs
  C19.JsonProofs C19.LogicProofs C19.LeafProofs C19.CodecProofs C19.WireProofs C19.Examples
  C19.Reader C19.ReaderProofs C19.ReaderLogicProofs C19.ReaderWitness C19.ReaderWitnessProofs.
Import ListNotations.

(** ** Obligations regenerated from the source on every run *)
Theorem C19_keys_written_subset_read : keys_written_subset_read source_keys = true.
Proof. exact source_keys_written_subset_read. Qed.
Print Assumptions C19_keys_written_subset_read.

Theorem C19_model_keys_eq_source : keys_tables_agree model_keys source_keys = true.
Proof. exact model_keys_eq_source. Qed.
Print Assumptions C19_model_keys_eq_source.

Theorem C19_model_tables_eq_source :
  strs_eqb model_surface_names source_surface_names = true
  /\ nats_eqb model_surface_arity source_surface_arity = true
  /\ strs_eqb model_visit_cases source_visit_cases = true
  /\ String.eqb model_logic_chars source_logic_chars = true
  /\ strs_eqb model_logic_tokens source_logic_tokens = true
  /\ pairs_eqb model_logic_read source_logic_read = true
  /\ pairs_eqb model_zorder_write source_zorder_write = true
  /\ pairs_eqb model_zorder_read source_zorder_read = true
  /\ nats_eqb model_transform_sizes source_transform_sizes = true.
Proof. exact model_tables_eq_source. Qed.
Print Assumptions C19_model_tables_eq_source.

(** ** Codec round trips, struct by struct *)
Theorem C19_logic_string_roundtrip : forall l, forallb wfb_token l = true ->
  string_to_logic (logic_to_string l) = Some l.
Proof. exact logic_string_roundtrip. Qed.
Print Assumptions C19_logic_string_roundtrip.

Theorem C19_dec_enc_label : forall l, wfb_label l = true -> dec_label (enc_label l) = Some l.
Proof. exact dec_enc_label. Qed.
Print Assumptions C19_dec_enc_label.

Theorem C19_dec_enc_bbox : forall b, wfb_bbox b = true -> dec_bbox (enc_bbox b) = Some b.
Proof. exact dec_enc_bbox. Qed.
Print Assumptions C19_dec_enc_bbox.

Theorem C19_dec_enc_transform : forall t, dec_transform (enc_transform t) = Some t.
Proof. exact dec_enc_transform. Qed.
Print Assumptions C19_dec_enc_transform.

Theorem C19_dec_enc_tolerance : forall t, tol_valid t = true ->
  dec_tolerance (enc_tolerance t) = Some t.
Proof. exact dec_enc_tolerance. Qed.
Print Assumptions C19_dec_enc_tolerance.

Theorem C19_dec_enc_surfaces : forall ss, forallb wfb_surface ss = true ->
  dec_surfaces (enc_surfaces ss) = Some ss.
Proof. exact dec_enc_surfaces. Qed.
Print Assumptions C19_dec_enc_surfaces.

(** the involute type is written but cannot be read back (known finding) *)
Theorem C19_dec_enc_surfaces_involute_refuted : exists ss, dec_surfaces (enc_surfaces ss) = None.
Proof. exact dec_enc_surfaces_involute_refuted. Qed.
Print Assumptions C19_dec_enc_surfaces_involute_refuted.

(** a volume's own JSON carries everything but its label (written by the
    unit as "volume_labels") and its OBZ (dropped: wf requires it absent) *)
Theorem C19_dec_enc_volume : forall v, wfb_volume v = true ->
  dec_volume (enc_volume v) = Some (strip_volume v).
Proof. exact dec_enc_volume. Qed.
Print Assumptions C19_dec_enc_volume.

Theorem C19_dec_enc_unit : forall u, wfb_unit u = true -> dec_unit (enc_unit u) = Some u.
Proof. exact dec_enc_unit. Qed.
Print Assumptions C19_dec_enc_unit.

Theorem C19_dec_enc_rectarray : forall r, wfb_rectarray r = true ->
  exists j, enc_rectarray r = Some j /\ dec_rectarray j = Some r.
Proof. exact dec_enc_rectarray. Qed.
Print Assumptions C19_dec_enc_rectarray.

Theorem C19_enc_rectarray_error_iff : forall r,
  enc_rectarray r = None <-> exists d, In d (r_daughters r) /\ rect_daughter_translated_only d = false.
Proof. exact enc_rectarray_error_iff. Qed.
Print Assumptions C19_enc_rectarray_error_iff.

(** ** The whole input: in-memory tree, and through the JSON text *)
Theorem C19_dec_enc_orange_input_tree : forall x, wf x ->
  exists j, enc_input x = Some j /\ dec_input j = Some x.
Proof. exact dec_enc_orange_input_tree. Qed.
Print Assumptions C19_dec_enc_orange_input_tree.

Theorem C19_dec_enc_orange_input : forall x, wf x ->
  exists j, enc_input x = Some j /\ wire j = j /\ dec_input (wire j) = Some x.
Proof. exact dec_enc_orange_input. Qed.
Print Assumptions C19_dec_enc_orange_input.

(** [wf] holds of a non-trivial input (two units with all three transform
    kinds, every readable surface type, a rect array, non-default tolerance) *)
Theorem C19_wf_satisfiable : wf ex_input /\ List.length (oi_universes ex_input) = 3%nat.
Proof. exact (conj ex_input_wf eq_refl). Qed.
Print Assumptions C19_wf_satisfiable.

(** ** The reader side (C19/Reader.v): every document [nlohmann::json::parse]
    can return ([jwell]: finite, valid doubles) and [from_json] accepts decodes
    to an input that is well-formed EXACTLY when it is none of the listed
    exceptions ([rx_input]: empty logic string; digit runs evaluating to
    lopen/lclose/lend; a bbox with lower > upper; a null unit bbox; a label
    string with a dangling '@'). *)
Theorem C19_dec_input_wf_iff : forall j x, jwell j = true -> dec_input j = Some x ->
  wfb_input x = rx_input x.
Proof. exact dec_input_wf_iff. Qed.
Print Assumptions C19_dec_input_wf_iff.

Theorem C19_dec_produces_wf : forall j x, jwell j = true -> dec_input j = Some x ->
  rx_input x = true -> wf x.
Proof. exact dec_produces_wf. Qed.
Print Assumptions C19_dec_produces_wf.

(** the round trip holds for every accepted file, not only for writer output *)
Theorem C19_dec_enc_dec : forall j x, jwell j = true -> dec_input j = Some x -> rx_input x = true ->
  exists j', enc_input x = Some j' /\ wire j' = j' /\ dec_input (wire j') = Some x.
Proof. exact dec_enc_dec. Qed.
Print Assumptions C19_dec_enc_dec.

(** app/orange-update.cc (parse, from_json, to_json, dump): the tool succeeds,
    its output decodes to the same input and is a fixed point of the tool *)
Theorem C19_orange_update_fixed_point : forall j x, jwell j = true -> dec_input j = Some x ->
  rx_input x = true ->
  exists j1, update_file j = Some j1 /\ dec_input j1 = Some x /\ update_file j1 = Some j1.
Proof. exact update_fixed_point. Qed.
Print Assumptions C19_orange_update_fixed_point.

(** the only unreadable tokens the reader can return are lopen/lclose/lend *)
Theorem C19_string_to_logic_exceptions : forall s l, string_to_logic s = Some l ->
  forall t, In t l -> wfb_token t = false -> t = LOPEN \/ t = LCLOSE \/ t = LEND.
Proof. exact string_to_logic_exceptions. Qed.
Print Assumptions C19_string_to_logic_exceptions.

(** each exception is real (witness documents in C19/ReaderWitness.v, replayed
    on the real tool by the check): the tool rejects its own output ... *)
Theorem C19_update_second_pass_fails_refuted :
  forall d, In d [doc_empty_logic; doc_digits_lopen] ->
  jwell d = true /\ exists x j1, dec_input d = Some x /\ rx_input x = false
                                 /\ update_file d = Some j1 /\ update_file j1 = None.
Proof. exact exception_second_pass_fails. Qed.
Print Assumptions C19_update_second_pass_fails_refuted.

(** ... or the text is not yet a fixed point at the second pass ("a@@" -> "a@" -> "a") *)
Theorem C19_update_label_not_fixed_refuted :
  exists j1 j2, jwell doc_label_at_at = true /\ update_file doc_label_at_at = Some j1
    /\ update_file j1 = Some j2 /\ j2 <> j1 /\ update_file j2 = Some j2.
Proof. exact exception_label_not_fixed_at_second_pass. Qed.
Print Assumptions C19_update_label_not_fixed_refuted.

(** ** The oriented bounding zone is not serialised: the round trip returns
    [drop_obz x] (everything else survives), and that is a real loss *)
Theorem C19_dec_enc_orange_input_obz : forall x, wf (drop_obz x) ->
  exists j, enc_input x = Some j /\ wire j = j /\ dec_input (wire j) = Some (drop_obz x).
Proof. exact dec_enc_orange_input_obz. Qed.
Print Assumptions C19_dec_enc_orange_input_obz.

Theorem C19_obz_round_trip_refuted :
  exists x j, wf (drop_obz x) /\ has_obz x = true /\ enc_input x = Some j
              /\ dec_input (wire j) = Some (drop_obz x) /\ drop_obz x <> x.
Proof. exact obz_round_trip_refuted. Qed.
Print Assumptions C19_obz_round_trip_refuted.
