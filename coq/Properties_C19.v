(** * C19 property theorems — statements only; proofs live in C19/*Proofs.v.
    Each theorem is closed by [exact] and followed by [Print Assumptions].

    Model: C19/Json.v (JSON trees, doubles as bit patterns, the text layer
    [wire]) and C19/OrangeCodec.v ([enc_*] = to_json, [dec_*] = from_json,
    [wfb_*] = the well-formedness checkers; [wf x := wfb_input x = true]). *)
From Coq Require Import ZArith List String Bool.
From Celer Require Import C19.Json C19.OrangeCodec Generated.C19_keys C19.KeysProofs
  C19.JsonProofs C19.LogicProofs C19.LeafProofs C19.CodecProofs C19.WireProofs C19.Examples.
Import ListNotations.

(** ** Obligations regenerated from the source on every run *)
Theorem C19_keys_written_subset_read : keys_written_subset_read source_keys = true.
Proof. exact source_keys_written_subset_read. Qed.
Print Assumptions C19_keys_written_subset_read.

Theorem C19_model_keys_eq_source : keys_tables_agree model_keys source_keys = true.
Proof. exact model_keys_eq_source. Qed.
Print Assumptions C19_model_keys_eq_source.

Theorem C19_model_tables_eq_source :
  strs_eqb model_surface_names source_surface_names = true
  /\ nats_eqb model_surface_arity source_surface_arity = true
  /\ strs_eqb model_visit_cases source_visit_cases = true
  /\ String.eqb model_logic_chars source_logic_chars = true
  /\ strs_eqb model_logic_tokens source_logic_tokens = true
  /\ pairs_eqb model_logic_read source_logic_read = true
  /\ pairs_eqb model_zorder_write source_zorder_write = true
  /\ pairs_eqb model_zorder_read source_zorder_read = true
  /\ nats_eqb model_transform_sizes source_transform_sizes = true.
Proof. exact model_tables_eq_source. Qed.
Print Assumptions C19_model_tables_eq_source.

(** ** Codec round trips, struct by struct *)
Theorem C19_logic_string_roundtrip : forall l, forallb wfb_token l = true ->
  string_to_logic (logic_to_string l) = Some l.
Proof. exact logic_string_roundtrip. Qed.
Print Assumptions C19_logic_string_roundtrip.

Theorem C19_dec_enc_label : forall l, wfb_label l = true -> dec_label (enc_label l) = Some l.
Proof. exact dec_enc_label. Qed.
Print Assumptions C19_dec_enc_label.

Theorem C19_dec_enc_bbox : forall b, wfb_bbox b = true -> dec_bbox (enc_bbox b) = Some b.
Proof. exact dec_enc_bbox. Qed.
Print Assumptions C19_dec_enc_bbox.

Theorem C19_dec_enc_transform : forall t, dec_transform (enc_transform t) = Some t.
Proof. exact dec_enc_transform. Qed.
Print Assumptions C19_dec_enc_transform.

Theorem C19_dec_enc_tolerance : forall t, tol_valid t = true ->
  dec_tolerance (enc_tolerance t) = Some t.
Proof. exact dec_enc_tolerance. Qed.
Print Assumptions C19_dec_enc_tolerance.

Theorem C19_dec_enc_surfaces : forall ss, forallb wfb_surface ss = true ->
  dec_surfaces (enc_surfaces ss) = Some ss.
Proof. exact dec_enc_surfaces. Qed.
Print Assumptions C19_dec_enc_surfaces.

(** the involute type is written but cannot be read back (known finding) *)
Theorem C19_dec_enc_surfaces_involute_refuted : exists ss, dec_surfaces (enc_surfaces ss) = None.
Proof. exact dec_enc_surfaces_involute_refuted. Qed.
Print Assumptions C19_dec_enc_surfaces_involute_refuted.

(** a volume's own JSON carries everything but its label (written by the
    unit as "volume_labels") and its OBZ (dropped: wf requires it absent) *)
Theorem C19_dec_enc_volume : forall v, wfb_volume v = true ->
  dec_volume (enc_volume v) = Some (strip_volume v).
Proof. exact dec_enc_volume. Qed.
Print Assumptions C19_dec_enc_volume.

Theorem C19_dec_enc_unit : forall u, wfb_unit u = true -> dec_unit (enc_unit u) = Some u.
Proof. exact dec_enc_unit. Qed.
Print Assumptions C19_dec_enc_unit.

Theorem C19_dec_enc_rectarray : forall r, wfb_rectarray r = true ->
  exists j, enc_rectarray r = Some j /\ dec_rectarray j = Some r.
Proof. exact dec_enc_rectarray. Qed.
Print Assumptions C19_dec_enc_rectarray.

Theorem C19_enc_rectarray_error_iff : forall r,
  enc_rectarray r = None <-> exists d, In d (r_daughters r) /\ rect_daughter_translated_only d = false.
Proof. exact enc_rectarray_error_iff. Qed.
Print Assumptions C19_enc_rectarray_error_iff.

(** ** The whole input: in-memory tree, and through the JSON text *)
Theorem C19_dec_enc_orange_input_tree : forall x, wf x ->
  exists j, enc_input x = Some j /\ dec_input j = Some x.
Proof. exact dec_enc_orange_input_tree. Qed.
Print Assumptions C19_dec_enc_orange_input_tree.

Theorem C19_dec_enc_orange_input : forall x, wf x ->
  exists j, enc_input x = Some j /\ wire j = j /\ dec_input (wire j) = Some x.
Proof. exact dec_enc_orange_input. Qed.
Print Assumptions C19_dec_enc_orange_input.

(** [wf] holds of a non-trivial input (two units with all three transform
    kinds, every readable surface type, a rect array, non-default tolerance) *)
Theorem C19_wf_satisfiable : wf ex_input /\ List.length (oi_universes ex_input) = 3%nat.
Proof. exact (conj ex_input_wf eq_refl). Qed.
Print Assumptions C19_wf_satisfiable.
