"""C08 — PropagationApplier: differential of coq/C08/ApplierModel.v against the REAL
detail::PropagationApplier<scripted propagator> on one track slot of a real CoreState
(harness/applier.cc; problem definitions imported read-only from props/C01/harness),
over sequences of consecutive applications (the looping counter persists), plus the
property oracle (statement of C08_applier_post on the implementation's outputs)."""
import os
import random

import vlib
from vlib import hexf

HERE = os.path.dirname(os.path.abspath(__file__))
LIBS = ["testcel_celeritas", "testcel_harness", "testcel_core", "testcel_geocel",
        "celeritas", "orange", "geocel", "corecel"]
PRE = ("From Coq Require Import ZArith List Floats.\n"
       "From Celer Require Import Base.Num Base.NumF C08.ApplierModel C08.RunApplier.\n"
       "Import ListNotations.\nOpen Scope float_scope.\n")


def hx(x):
    return float(x).hex()


def fh(t):
    return float(t) if t in ("nan", "-nan", "inf", "-inf") else float.fromhex(t)


def build(ctx):
    ctx.build_libs(LIBS)
    return ctx.compile_harness([os.path.join(HERE, "harness", "applier.cc")], "applier", libs=LIBS, test_includes=True)


def gen_case(r, thr):
    pid = r.randrange(len(thr))
    ms, mx, te, stable = thr[pid]
    n = r.choice([1, 2, 3, 5, 8, 12, 14])
    looper = r.random() < 0.5          # long runs of looping steps: reach the thresholds
    calls = []
    for _ in range(n):
        c = r.random()
        if te > 0:
            e = te * r.choice([0.5, 1 - 1e-9, 1.0, 1 + 1e-9, 2.0, r.uniform(0.1, 3.0)])
        else:
            e = r.choice([0.0, 1e-3, 1.0])
        step = 10 ** r.uniform(-6, 3)
        if r.random() < 0.06:
            step = 0.0
        pclass = r.choice([1, 2, 5])
        can_loop = 1 if (looper or r.random() < 0.7) else 0
        k = r.random()
        if looper and k < 0.85:
            dist, bnd, loop = step * r.uniform(0.01, 0.99), 0, 1
        elif k < 0.25:
            dist, bnd, loop = step * r.uniform(0.01, 0.99), 0, 1
        elif k < 0.5:
            dist, bnd, loop = step * r.choice([1.0, 1 - 1e-16, 0.5, 1e-3]), 1, 0
        elif k < 0.75:
            dist, bnd, loop = step, 0, 0
        elif k < 0.92:
            dist, bnd, loop = step * r.choice([1 - 1e-16, 0.5, 1e-9]), 0, 0        # bumped
        elif k < 0.96:
            dist, bnd, loop = step * 0.5, 1, 1      # outside the propagator's contract: looping AND boundary
        else:
            dist, bnd, loop = step * 1.5, r.choice([0, 1]), 0      # outside the contract: distance > step
        if step == 0.0:
            dist = 1.0
        calls.append((e, step, pclass, dist, bnd, loop, can_loop))
    return dict(pid=pid, calls=calls)


def line(c):
    t = ["A", str(c["pid"]), str(len(c["calls"]))]
    for e, step, pclass, dist, bnd, loop, cl in c["calls"]:
        t += [hx(e), hx(step), str(pclass), hx(dist), str(bnd), str(loop), str(cl)]
    return " ".join(t)


def b(x):
    return "true" if x else "false"


def model_expr(c, thr):
    ms, mx, te, stable = thr[c["pid"]]
    calls = "; ".join("(%s, %s, %d%%nat, %s, %s, %s, %s)" % (hexf(e), hexf(step), pclass, hexf(dist), b(bnd), b(loop), b(cl))
                      for e, step, pclass, dist, bnd, loop, cl in c["calls"])
    return "run_applier %s %d %d %s [%s]" % (b(stable), ms, mx, hexf(te), calls)


def oracle(c, thr, outs):
    """the property on the implementation's outputs; only calls whose scripted propagator
    result satisfies the propagator's post-condition (0 < dist <= step, not looping-and-boundary)"""
    ms, mx, te, stable = thr[c["pid"]]
    nloop = 0
    for k, ((e, step, pclass, dist, bnd, loop, cl), (st1, act, nl, ncalls, status)) in enumerate(zip(c["calls"], outs)):
        if step == 0:
            if (st1, act, nl, ncalls) != (0.0, pclass, nloop, 0):
                return "call %d: stopped track (step 0) was touched: %r" % (k, (st1, act, nl, ncalls))
            continue
        valid = 0 < dist <= step and not (loop and bnd)
        if ncalls != 1:
            return "call %d: propagator called %d times" % (k, ncalls)
        if valid:
            if not (0 < st1 <= step):
                return "call %d: step length %r not in (0, %r]" % (k, st1, step)
            if st1 != dist:
                return "call %d: step length %r is not the travelled distance %r" % (k, st1, dist)
            if bnd and act != 0:
                return "call %d: boundary hit at %r but the post-step action class is %d, not the boundary action" % (k, dist, act)
            if not bnd and act == 0:
                return "call %d: boundary action without a boundary hit" % k
            if cl and loop:
                if nl != nloop + 1:
                    return "call %d: looping but the counter went %d -> %d" % (k, nloop, nl)
                thr_n = ms if e < te else mx
                kill = bool(stable) and nl >= thr_n
                if (act == 3) != kill:
                    return ("call %d: looping track with counter %d (threshold %d, stable %r): action class %d"
                            % (k, nl, thr_n, bool(stable), act))
                if act not in (3, 5):
                    return "call %d: looping track neither continued (propagation limit) nor killed: class %d" % (k, act)
            elif cl and nl != 0:
                return "call %d: not looping but the counter is %d, not reset" % (k, nl)
            elif not cl and nl != nloop:
                return "call %d: tracks cannot loop but the counter changed %d -> %d" % (k, nloop, nl)
            if not (cl and loop) and not bnd:
                want = pclass if dist == step else 5
                if act != want:
                    return "call %d: interior end (dist %r of %r): action class %d, expected %d" % (k, dist, step, act, want)
        nloop = nl
    return None


def run(ctx, exe):
    quick = ctx.tier == "quick"
    found = False
    r = random.Random(ctx.seed * 15485863 + 29)
    rc, out = ctx.run_harness(exe, input="T\n")
    tl = [l for l in out.splitlines() if l.startswith("T ")]
    if rc != 0 or not tl:
        raise vlib.BuildError("applier harness failed rc=%d" % rc, out[-2000:])
    tok = tl[0].split()
    thr = [(int(tok[2 + 4 * i]), int(tok[3 + 4 * i]), fh(tok[4 + 4 * i]), int(tok[5 + 4 * i])) for i in range(int(tok[1]))]
    n = 500 if quick else 8000
    cases = [gen_case(r, thr) for _ in range(n)]
    rc, out = ctx.run_harness(exe, input="\n".join(line(c) for c in cases) + "\n", timeout=1800)
    lines = [l for l in out.splitlines() if l.startswith("A ")]
    if rc != 0 or len(lines) != n:
        raise vlib.BuildError("applier harness failed rc=%d (%d/%d lines)" % (rc, len(lines), n), out[-2000:])
    mv = ctx.coq_eval("applier", PRE, [model_expr(c, thr) for c in cases], chunk=max(25, -(-n // 8)))
    nd = 0
    for c, l, m in zip(cases, lines, mv):
        tok = l.split()
        ctx.case(["applier", c["pid"], c["calls"]], nontrivial=True)
        if tok[1] != "ok":
            nd += 1
            ctx.violation("tie-broken", "applier harness error: " + " ".join(tok[2:])[:200], {"case": c, "harness_line": line(c)}, no_input=True)
            continue
        v = tok[2:]
        outs = [(fh(v[5 * k]), int(v[5 * k + 1]), int(v[5 * k + 2]), int(v[5 * k + 3]), int(v[5 * k + 4])) for k in range(len(c["calls"]))]
        for (e, step, pclass, dist, bnd, loop, cl), o in zip(c["calls"], outs):
            ctx.count("applier:%s" % ("stopped" if step == 0 else "looping-killed" if (cl and loop and o[1] == 3) else
                                      "looping-continued" if (cl and loop) else "boundary" if bnd else
                                      "bumped" if dist < step else "full-step"))
        pv = oracle(c, thr, outs)
        if pv:
            found = True
            nd += 1
            ctx.violation("property", "PropagationApplier: " + pv, {"case": c, "thresholds": thr[c["pid"]], "impl": outs, "harness_line": line(c)})
        model = [(x[0], x[1], x[2], x[3]) for x in m]
        impl = [(o[0], o[1], o[2], o[3]) for o in outs]
        if model != impl:
            k = next(i for i, (a, b_) in enumerate(zip(model, impl)) if a != b_)
            nd += 1
            ctx.violation("correspondence", "ApplierModel.v and PropagationApplier.hh differ at call %d: model %r impl %r" % (k, model[k], impl[k]),
                          {"case": c, "thresholds": thr[c["pid"]], "impl": impl, "model": model, "harness_line": line(c)}, no_input=True)
        if nd > 5:
            break
    ctx.sample({"kind": "applier", "thresholds(max_sub,max_steps,E,stable)": thr}, limit=1)
    return found
