// C08 correspondence harness for the numerical integrators: the REAL templates
// RungeKuttaStepper / DormandPrinceStepper over the REAL MagFieldEquation,
// built by make_mag_field_stepper, with a UniformField or a position-dependent
// (linear) test field.  Header-only code compiled from $VERIF_REPO/src.
//   "K"                                   -> "K e_native mevc_native coeff(+1) coeff(-1) coeff(2)"
//   "S kind q nf field(nf) step state(6)" -> "S mid(6) end(6) err(6)"   kind 0 = RK4, 1 = DormandPrince
//   "Q q nf field(nf) state(6)"           -> "Q rhs(6)"
#include "../../../harness/common.hh"

#include "corecel/math/ArrayUtils.hh"
#include "celeritas/Quantities.hh"
#include "celeritas/UnitTypes.hh"
#include "celeritas/field/DormandPrinceStepper.hh"
#include "celeritas/field/MagFieldEquation.hh"
#include "celeritas/field/MakeMagFieldPropagator.hh"
#include "celeritas/field/RungeKuttaStepper.hh"
#include "celeritas/field/Types.hh"
#include "celeritas/field/UniformField.hh"

using namespace celeritas;
using verif::hex;
using verif::rd;

namespace
{
std::ostream& operator<<(std::ostream& os, Real3 const& v)
{
    os << hex(v[0]) << ' ' << hex(v[1]) << ' ' << hex(v[2]);
    return os;
}
std::ostream& operator<<(std::ostream& os, OdeState const& s)
{
    os << s.pos << ' ' << s.mom;
    return os;
}
Real3 rd3(std::istream& is)
{
    Real3 r;
    for (auto& x : r)
        x = rd(is);
    return r;
}

// test scaffolding: B(p) = b0 + (gx.p, gy.p, gz.p)
struct LinField
{
    Real3 b0, gx, gy, gz;
    Real3 operator()(Real3 const& p) const
    {
        return {b0[0] + dot_product(gx, p), b0[1] + dot_product(gy, p), b0[2] + dot_product(gz, p)};
    }
};

template<class F>
void run_s(int kind, F&& field, double q, double step, OdeState const& st)
{
    FieldStepperResult r;
    if (kind == 0)
    {
        auto stepper = make_mag_field_stepper<RungeKuttaStepper>(std::forward<F>(field),
                                                                 units::ElementaryCharge{q});
        r = stepper(step, st);
    }
    else
    {
        auto stepper = make_mag_field_stepper<DormandPrinceStepper>(std::forward<F>(field),
                                                                    units::ElementaryCharge{q});
        r = stepper(step, st);
    }
    std::cout << "S " << r.mid_state << ' ' << r.end_state << ' ' << r.err_state << "\n";
}

double measured_coeff(double q)
{
    // mom = (1,0,0), B = (0,0,1): momentum_inv = 1, cross = (0,-1,0) => result.mom[1] = -coeffi
    MagFieldEquation<UniformField> eq{UniformField{Real3{0, 0, 1}}, units::ElementaryCharge{q}};
    OdeState y;
    y.pos = {0, 0, 0};
    y.mom = {1, 0, 0};
    return -eq(y).mom[1];
}
}  // namespace

int main()
{
    std::string line;
    while (std::getline(std::cin, line))
    {
        if (line.empty())
            continue;
        std::istringstream is(line);
        std::string kind;
        is >> kind;
        if (kind == "K")
        {
            std::cout << "K " << hex(units::EElectron::value()) << ' ' << hex(units::MevPerC::value()) << ' '
                      << hex(measured_coeff(1)) << ' ' << hex(measured_coeff(-1)) << ' '
                      << hex(measured_coeff(2)) << "\n";
        }
        else if (kind == "S" || kind == "Q")
        {
            int k = kind == "S" ? static_cast<int>(rd(is)) : -1;
            double q = rd(is);
            int nf = static_cast<int>(rd(is));
            LinField lf{};
            Real3 ub{};
            if (nf == 3)
                ub = rd3(is);
            else
            {
                lf.b0 = rd3(is);
                lf.gx = rd3(is);
                lf.gy = rd3(is);
                lf.gz = rd3(is);
            }
            double step = kind == "S" ? rd(is) : 0;
            OdeState st;
            st.pos = rd3(is);
            st.mom = rd3(is);
            if (kind == "S")
            {
                if (nf == 3)
                    run_s(k, UniformField{ub}, q, step, st);
                else
                    run_s(k, LinField{lf}, q, step, st);
            }
            else if (nf == 3)
            {
                MagFieldEquation<UniformField> eq{UniformField{ub}, units::ElementaryCharge{q}};
                std::cout << "Q " << eq(st) << "\n";
            }
            else
            {
                MagFieldEquation<LinField> eq{LinField{lf}, units::ElementaryCharge{q}};
                std::cout << "Q " << eq(st) << "\n";
            }
        }
        else
            std::cout << "unknown\n";
    }
    return 0;
}
