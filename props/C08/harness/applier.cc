// C08 correspondence harness for the REAL detail::PropagationApplier (header
// template) instantiated with a scripted propagator functor, on one track slot
// of a real CoreState -- the pattern of props/C01/harness/unit.cc ("propagate"
// case), whose problem definitions (problems.hh) are included read-only.
// The problem P2 is subclassed to (a) add an UNSTABLE particle (id 5) and
// (b) give every particle its own small looping thresholds.
//
// stdin:  "T"                                    -> "T npart {max_sub max_steps thr_energy stable}*"
//         "A pid n {E step pclass dist bnd loop can_loop}*n"
// stdout: "A ok {step_length action_class num_looping_steps ncalls status}*n"   or "A err ..."
#include "../../../harness/common.hh"

#include <map>

#include "corecel/cont/Span.hh"
#include "celeritas/global/CoreState.hh"
#include "celeritas/global/CoreTrackView.hh"
#include "celeritas/global/alongstep/detail/PropagationApplier.hh"
#include "celeritas/phys/Primary.hh"
#include "celeritas/track/SimParams.hh"
#include "celeritas/track/SimTrackView.hh"
#include "corecel/sys/ActionInterface.hh"

#include "../../C01/harness/problems.hh"

using namespace celeritas;
using verif::hex;
using verif::rd;

namespace
{
struct ScriptedPropagator
{
    Propagation result;
    bool can_loop;
    int* ncalls;
    Propagation operator()(real_type)
    {
        ++*ncalls;
        return result;
    }
    bool tracks_can_loop() const { return can_loop; }
};

class P2U : public verif::P2
{
  public:
    using verif::P2::P2;
    using verif::P2::core;
    static constexpr int nthr = 6;
    static LoopingThreshold thr(int i)
    {
        // {max_subthreshold_steps, max_steps, threshold_energy [MeV]}
        static size_type const sub[nthr] = {2, 3, 1, 4, 2, 3};
        static size_type const mx[nthr] = {5, 7, 3, 9, 4, 6};
        static double const en[nthr] = {1.0, 10.0, 0.5, 2.0, 0.0, 5.0};
        LoopingThreshold t;
        t.max_subthreshold_steps = sub[i];
        t.max_steps = mx[i];
        t.threshold_energy = LoopingThreshold::Energy{en[i]};
        return t;
    }

  protected:
    SPConstParticle build_particle() override
    {
        using namespace constants;
        using namespace units;
        constexpr auto zero = zero_quantity();
        ParticleParams::Input inp;
        inp.push_back({"gamma", pdg::gamma(), zero, zero, stable_decay_constant});
        inp.push_back({"celeriton", PDGNumber{1337}, MevMass{1}, ElementaryCharge{1}, stable_decay_constant});
        inp.push_back({"anti-celeriton", PDGNumber{-1337}, MevMass{1}, ElementaryCharge{-1}, stable_decay_constant});
        inp.push_back({"electron", pdg::electron(), MevMass{0.5109989461}, ElementaryCharge{-1}, stable_decay_constant});
        inp.push_back({"celerino", PDGNumber{81}, MevMass{0}, ElementaryCharge{0}, stable_decay_constant});
        inp.push_back({"unstable", PDGNumber{13}, MevMass{105.6583745}, ElementaryCharge{-1},
                       1 / (2.1969811e-6 * units::second)});
        return std::make_shared<ParticleParams>(std::move(inp));
    }
    SPConstSim build_sim() override
    {
        SimParams::Input input;
        input.particles = this->particle();
        for (int i = 0; i < nthr; ++i)
            input.looping.insert({input.particles->id_to_pdg(ParticleId(i)), thr(i)});
        return std::make_shared<SimParams>(input);
    }
};

struct Fixture
{
    std::unique_ptr<P2U> prob;
    std::shared_ptr<CoreParams const> core;

    Fixture()
    {
        verif::ProblemConfig c;
        c.lowest = 0.001;
        prob.reset(new P2U(c));
        core = prob->core();
    }
    void execute(std::string const& label, CoreState<MemSpace::host>& state)
    {
        auto const& areg = *core->action_reg();
        auto id = areg.find_action(label);
        CELER_VALIDATE(id, << "no action " << label);
        auto const* act = dynamic_cast<CoreStepActionInterface const*>(areg.action(id).get());
        CELER_VALIDATE(act, << "not a step action " << label);
        act->step(*core, state);
    }
    std::unique_ptr<CoreState<MemSpace::host>> make_state(ParticleId pid, real_type energy)
    {
        auto state = std::make_unique<CoreState<MemSpace::host>>(*core, StreamId{0}, 1);
        Primary p;
        p.particle_id = pid;
        p.energy = units::MevEnergy{energy};
        p.position = {0.25, 0.1, 0};
        p.direction = {0, 0, 1};
        p.time = 0;
        p.event_id = EventId{0};
        std::vector<Primary> prims{p};
        prob->insert_primaries(*state, make_span(prims));
        this->execute("extend-from-primaries", *state);
        this->execute("initialize-tracks", *state);
        return state;
    }
};

int paction_class(CoreTrackView const& track, ActionId a)
{
    auto phys = track.make_physics_view();
    if (!a)
        return -1;
    if (a == track.boundary_action())
        return 0;
    if (a == phys.scalars().range_action())
        return 1;
    if (a == phys.scalars().discrete_action())
        return 2;
    if (a == track.tracking_cut_action())
        return 3;
    if (a == track.propagation_limit_action())
        return 5;
    return 6;
}
ActionId class_action(CoreTrackView const& track, int c)
{
    auto phys = track.make_physics_view();
    switch (c)
    {
        case 0:
            return track.boundary_action();
        case 1:
            return phys.scalars().range_action();
        case 2:
            return phys.scalars().discrete_action();
        case 3:
            return track.tracking_cut_action();
        default:
            return track.propagation_limit_action();
    }
}
}  // namespace

int main()
{
    std::unique_ptr<Fixture> fx;
    std::string line;
    while (std::getline(std::cin, line))
    {
        if (line.empty())
            continue;
        std::istringstream is(line);
        std::string kind;
        is >> kind;
        std::ostringstream os;
        try
        {
            if (!fx)
                fx.reset(new Fixture);
            if (kind == "T")
            {
                auto state = fx->make_state(ParticleId{3}, 1.0);
                CoreTrackView track(fx->core->host_ref(), state->ref(), ThreadId{0});
                auto sim = track.make_sim_view();
                os << "T " << P2U::nthr;
                for (int i = 0; i < P2U::nthr; ++i)
                {
                    auto const& t = sim.looping_threshold(ParticleId(i));
                    ParticleView pv(fx->core->host_ref().particles, ParticleId(i));
                    os << ' ' << t.max_subthreshold_steps << ' ' << t.max_steps << ' '
                       << hex(t.threshold_energy.value()) << ' '
                       << (pv.decay_constant() == constants::stable_decay_constant ? 1 : 0);
                }
            }
            else if (kind == "A")
            {
                unsigned pid;
                std::size_t n;
                is >> pid >> n;
                auto state = fx->make_state(ParticleId{pid}, 1.0);
                CoreTrackView track(fx->core->host_ref(), state->ref(), ThreadId{0});
                auto sim = track.make_sim_view();
                auto particle = track.make_particle_view();
                os << "A ok";
                for (std::size_t k = 0; k < n; ++k)
                {
                    real_type E = rd(is), step0 = rd(is);
                    int pclass;
                    is >> pclass;
                    real_type dist = rd(is);
                    int bnd, loop, can_loop;
                    is >> bnd >> loop >> can_loop;
                    particle.energy(units::MevEnergy{E});
                    sim.reset_step_limit({step0, class_action(track, pclass)});
                    Propagation p;
                    p.distance = dist;
                    p.boundary = bnd != 0;
                    p.looping = loop != 0;
                    int ncalls = 0;
                    auto mp = [&](CoreTrackView const&) { return ScriptedPropagator{p, can_loop != 0, &ncalls}; };
                    detail::PropagationApplier<decltype(mp)> apply{std::move(mp)};
                    apply(track);
                    os << ' ' << hex(sim.step_length()) << ' ' << paction_class(track, sim.post_step_action())
                       << ' ' << sim.num_looping_steps() << ' ' << ncalls << ' '
                       << static_cast<int>(sim.status());
                }
            }
            else
                os << "err unknown-kind";
        }
        catch (std::exception const& e)
        {
            std::string m = e.what();
            for (auto& c : m)
                if (c == '\n')
                    c = ' ';
            os.str("");
            os << kind << " err " << m.substr(0, 300);
        }
        std::cout << os.str() << '\n';
    }
    return 0;
}
