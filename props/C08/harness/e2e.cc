// C08 end-to-end harness: the real stack (make_mag_field_propagator with
// UniformField / UniformZField / RZMapField x DormandPrince / RK4 / ZHelix on
// real ORANGE geometries) and the real ZHelixStepper on its own.
//
// stdin lines:
//  H q bz step px py pz mx my mz
//      -> "H coeffi mid(6) end(6)"
//  E geom field stepper q energy bx by bz px py pz dx dy dz prestart
//    <13 driver options> ncalls step...
//      -> "E ok coeffi pmag S px py pz dx dy dz onb vol {C dist bnd loop onb p3 d3 vol fresh outside esame nstepper fresh_safety}*"
//         or "E error <what>"
// argv[1] = directory with *.org.json, argv[2] = RZ field map json
#include "../../../harness/common.hh"

#include <fstream>
#include <functional>
#include <map>
#include <memory>

#include "corecel/data/CollectionStateStore.hh"
#include "corecel/math/ArrayUtils.hh"
#include "orange/OrangeData.hh"
#include "orange/OrangeParams.hh"
#include "orange/OrangeTrackView.hh"
#include "celeritas/Quantities.hh"
#include "celeritas/field/DormandPrinceStepper.hh"
#include "celeritas/field/FieldDriverOptions.hh"
#include "celeritas/field/MakeMagFieldPropagator.hh"
#include "celeritas/field/RZMapField.hh"
#include "celeritas/field/RZMapFieldInput.hh"
#include "celeritas/field/RZMapFieldParams.hh"
#include "celeritas/field/RungeKuttaStepper.hh"
#include "celeritas/field/UniformField.hh"
#include "celeritas/field/UniformZField.hh"
#include "celeritas/field/ZHelixStepper.hh"
#include "celeritas/phys/PDGNumber.hh"
#include "celeritas/phys/ParticleParams.hh"
#include "celeritas/phys/ParticleTrackView.hh"

using namespace celeritas;
using verif::hex;
using verif::rd;

namespace
{
std::ostream& operator<<(std::ostream& os, Real3 const& v)
{
    os << hex(v[0]) << ' ' << hex(v[1]) << ' ' << hex(v[2]);
    return os;
}
Real3 rd3(std::istream& is)
{
    Real3 r;
    for (auto& x : r)
        x = rd(is);
    return r;
}

struct Geo
{
    std::shared_ptr<OrangeParams> params;
    CollectionStateStore<OrangeStateData, MemSpace::host> state;
    OrangeTrackView view(int slot)
    {
        return OrangeTrackView{params->host_ref(), state.ref(), TrackSlotId(slot)};
    }
};

struct World
{
    std::string geodir;
    std::map<std::string, Geo> geos;
    std::shared_ptr<ParticleParams> particles;
    CollectionStateStore<ParticleStateData, MemSpace::host> pstate;
    std::shared_ptr<RZMapFieldParams> rzmap;

    Geo& geo(std::string const& name)
    {
        auto it = geos.find(name);
        if (it == geos.end())
        {
            Geo g;
            g.params = std::make_shared<OrangeParams>(geodir + "/" + name + ".org.json");
            g.state = CollectionStateStore<OrangeStateData, MemSpace::host>(g.params->host_ref(), 2);
            it = geos.emplace(name, std::move(g)).first;
        }
        return it->second;
    }
};

// number of stepper invocations in the current propagation (the truncation
// error the controller allows accumulates per invocation)
long g_nsteps = 0;
template<class E>
struct CountDP : DormandPrinceStepper<E>
{
    using DormandPrinceStepper<E>::DormandPrinceStepper;
    FieldStepperResult operator()(real_type step, OdeState const& s) const
    {
        ++g_nsteps;
        return DormandPrinceStepper<E>::operator()(step, s);
    }
};
template<class E>
struct CountRK : RungeKuttaStepper<E>
{
    using RungeKuttaStepper<E>::RungeKuttaStepper;
    FieldStepperResult operator()(real_type step, OdeState const& s) const
    {
        ++g_nsteps;
        return RungeKuttaStepper<E>::operator()(step, s);
    }
};
template<class E>
struct CountZH : ZHelixStepper<E>
{
    using ZHelixStepper<E>::ZHelixStepper;
    FieldStepperResult operator()(real_type step, OdeState const& s) const
    {
        ++g_nsteps;
        return ZHelixStepper<E>::operator()(step, s);
    }
};

double lorentz_coeff(int q)
{
    return native_value_from(units::ElementaryCharge{real_type(q)})
           / native_value_from(OdeState::MomentumUnits{1});
}

void run_helix(std::istream& is)
{
    int q = static_cast<int>(rd(is));
    double bz = rd(is), step = rd(is);
    OdeState st;
    st.pos = rd3(is);
    st.mom = rd3(is);
    auto stepper = make_mag_field_stepper<ZHelixStepper>(UniformZField{bz},
                                                         units::ElementaryCharge{real_type(q)});
    FieldStepperResult r = stepper(step, st);
    std::cout << "H " << hex(lorentz_coeff(q)) << ' ' << r.mid_state.pos << ' ' << r.mid_state.mom
              << ' ' << r.end_state.pos << ' ' << r.end_state.mom << "\n";
}

template<template<class> class StepperT, class FieldT>
Propagation do_propagate(FieldT&& field,
                         FieldDriverOptions const& o,
                         ParticleTrackView const& particle,
                         OrangeTrackView& geo,
                         real_type step)
{
    auto propagate = make_mag_field_propagator<StepperT>(std::forward<FieldT>(field), o, particle, geo);
    return propagate(step);
}

// a propagator kept alive across calls (the field functor it references lives
// as long as the returned callable)
template<template<class> class StepperT, class FieldT>
std::function<Propagation(real_type)> make_shared_prop(FieldT field,
                                                       FieldDriverOptions const& o,
                                                       ParticleTrackView const& particle,
                                                       OrangeTrackView& geo)
{
    auto fp = std::make_shared<FieldT>(std::move(field));
    using P = decltype(make_mag_field_propagator<StepperT>(*fp, o, particle, geo));
    auto pp = std::make_shared<P>(make_mag_field_propagator<StepperT>(*fp, o, particle, geo));
    return [fp, pp](real_type step) { return (*pp)(step); };
}

void run_e2e(World& w, std::istream& is)
{
    std::string gname;
    is >> gname;
    int fkind = static_cast<int>(rd(is));
    int skind = static_cast<int>(rd(is));
    int q = static_cast<int>(rd(is));
    double energy = rd(is);
    Real3 b = rd3(is);
    Real3 pos = rd3(is), dir = rd3(is);
    int prestart = static_cast<int>(rd(is));
    FieldDriverOptions o;
    o.minimum_step = rd(is);
    o.delta_chord = rd(is);
    o.delta_intersection = rd(is);
    o.epsilon_step = rd(is);
    o.epsilon_rel_max = rd(is);
    o.errcon = rd(is);
    o.pgrow = rd(is);
    o.pshrink = rd(is);
    o.safety = rd(is);
    o.max_stepping_increase = rd(is);
    o.max_stepping_decrease = rd(is);
    o.max_nsteps = static_cast<short int>(rd(is));
    o.max_substeps = static_cast<short int>(rd(is));
    std::size_t ncalls = static_cast<std::size_t>(rd(is));
    std::vector<double> steps(ncalls);
    for (auto& s : steps)
        s = rd(is);
    // reuse = 1: ONE propagator object serves all the calls of the case (its
    // internal state persists); 0: a fresh propagator per call
    int reuse = 0;
    {
        std::string tok;
        if (is >> tok)
            reuse = std::atoi(tok.c_str());
    }

    std::ostringstream os;
    try
    {
        validate_input(o);
        Geo& g = w.geo(gname);
        auto geo = g.view(0);
        geo = GeoTrackInitializer{pos, make_unit_vector(dir)};
        if (geo.is_outside())
        {
            std::cout << "E outside\n";
            return;
        }
        if (prestart)
        {
            // start exactly on a boundary, having just crossed it
            auto next = geo.find_next_step();
            if (!next.boundary)
            {
                std::cout << "E outside\n";
                return;
            }
            geo.move_to_boundary();
            geo.cross_boundary();
            if (geo.is_outside())
            {
                std::cout << "E outside\n";
                return;
            }
        }
        ParticleTrackView particle{w.particles->host_ref(), w.pstate.ref(), TrackSlotId{0}};
        particle = ParticleTrackView::Initializer_t{ParticleId(q < 0 ? 0 : 1), units::MevEnergy{energy}};
        double pmag = value_as<units::MevMomentum>(particle.momentum());
        os << "E ok " << hex(lorentz_coeff(q)) << ' ' << hex(pmag) << " S " << geo.pos() << ' '
           << geo.dir() << ' ' << geo.is_on_boundary() << ' ' << geo.volume_id().unchecked_get();
        auto make = [&]() -> std::function<Propagation(real_type)> {
            if (fkind == 0 && skind == 0)
                return make_shared_prop<CountDP>(UniformField{b}, o, particle, geo);
            if (fkind == 0 && skind == 1)
                return make_shared_prop<CountRK>(UniformField{b}, o, particle, geo);
            if (fkind == 1 && skind == 0)
                return make_shared_prop<CountDP>(UniformZField{b[2]}, o, particle, geo);
            if (fkind == 1 && skind == 1)
                return make_shared_prop<CountRK>(UniformZField{b[2]}, o, particle, geo);
            if (fkind == 1 && skind == 2)
                return make_shared_prop<CountZH>(UniformZField{b[2]}, o, particle, geo);
            if (fkind == 2 && skind == 0)
                return make_shared_prop<CountDP>(RZMapField{w.rzmap->host_ref()}, o, particle, geo);
            if (fkind == 2 && skind == 1)
                return make_shared_prop<CountRK>(RZMapField{w.rzmap->host_ref()}, o, particle, geo);
            throw std::runtime_error("bad field/stepper combination");
        };
        std::function<Propagation(real_type)> propagate;
        for (double step : steps)
        {
            Propagation r;
            g_nsteps = 0;
            if (!reuse || !propagate)
                propagate = make();
            r = propagate(step);

            long fresh = -1;
            double fsafety = 0;
            if (!geo.is_on_boundary())
            {
                auto f = g.view(1);
                f = GeoTrackInitializer{geo.pos(), geo.dir()};
                fresh = f.is_outside() ? -2 : static_cast<long>(f.volume_id().unchecked_get());
                fsafety = f.is_outside() ? 0 : f.find_safety();
            }
            bool esame = particle.energy().value() == energy;
            os << " C " << hex(r.distance) << ' ' << r.boundary << ' ' << r.looping << ' '
               << geo.is_on_boundary() << ' ' << geo.pos() << ' ' << geo.dir() << ' '
               << geo.volume_id().unchecked_get() << ' ' << fresh;
            bool outside = false;
            if (r.boundary && geo.is_on_boundary())
            {
                geo.cross_boundary();
                outside = geo.is_outside();
            }
            os << ' ' << outside << ' ' << esame << ' ' << g_nsteps << ' ' << hex(fsafety);
            if (outside)
                break;
        }
    }
    catch (std::exception const& e)
    {
        std::string what = e.what();
        for (auto& c : what)
            if (c == '\n')
                c = ' ';
        std::cout << "E error " << what.substr(0, 300) << "\n";
        return;
    }
    std::cout << os.str() << "\n";
}
}  // namespace

int main(int argc, char** argv)
{
    if (argc < 3)
        return 2;
    World w;
    w.geodir = argv[1];
    {
        using namespace units;
        ParticleParams::Input defs = {{"electron", pdg::electron(), MevMass{0.5109989461},
                                       ElementaryCharge{-1}, constants::stable_decay_constant},
                                      {"positron", pdg::positron(), MevMass{0.5109989461},
                                       ElementaryCharge{1}, constants::stable_decay_constant}};
        w.particles = std::make_shared<ParticleParams>(std::move(defs));
        w.pstate = CollectionStateStore<ParticleStateData, MemSpace::host>(w.particles->host_ref(), 1);
        RZMapFieldInput inp;
        std::ifstream(argv[2]) >> inp;
        w.rzmap = std::make_shared<RZMapFieldParams>(inp);
    }
    std::string line;
    while (std::getline(std::cin, line))
    {
        if (line.empty())
            continue;
        std::istringstream is(line);
        std::string kind;
        is >> kind;
        if (kind == "H")
            run_helix(is);
        else if (kind == "G")
        {
            // the RZ field map as the params hold it (native units): grids and node values
            auto const& d = w.rzmap->host_ref();
            std::cout << "G " << hex(d.grids.data_z.front) << ' ' << hex(d.grids.data_z.back) << ' '
                      << hex(d.grids.data_z.delta) << ' ' << d.grids.data_z.size << ' '
                      << hex(d.grids.data_r.front) << ' ' << hex(d.grids.data_r.back) << ' '
                      << hex(d.grids.data_r.delta) << ' ' << d.grids.data_r.size;
            for (auto i : range(d.fieldmap.size()))
            {
                auto const& el = d.fieldmap[ItemId<size_type>(i)];
                std::cout << ' ' << hex(el.value_z) << ' ' << hex(el.value_r);
            }
            std::cout << "\n";
        }
        else if (kind == "R")
        {
            Real3 pos = rd3(is);
            RZMapField field{w.rzmap->host_ref()};
            std::cout << "R " << field(pos) << "\n";
        }
        else if (kind == "E")
            run_e2e(w, is);
        else
            std::cout << "unknown\n";
    }
    return 0;
}
