// C08 correspondence harness: the REAL templates FieldPropagator<D,G> and
// FieldDriver<S> (header-only, compiled from the working tree) instantiated
// with scripted oracles.  A script is a list of *relative* answers; the
// oracles resolve them against the arguments they are called with (so the
// answers satisfy the contracts of the real driver / geometry), log every call
// with its arguments and the absolute answer given, and the Coq float model
// replays the absolute answers.
//
// stdin, one case per line:
//  P minsub dint maxsub step onb px py pz dx dy dz energy mass L
//      L x (a b ux uy uz wx wy wz)   L x (kind a)
//  PM minsub dint maxsub nsteps step... onb px ... (as P): nsteps consecutive calls on ONE propagator
//  D <13 options> px py pz mx my mz  nreq req...  L
//      L x (b ac ae ux uy uz vx vy vz wx wy wz)
// stdout, one line per case (tokens; floats in hex):
//  P ok|exhausted pmag {A rem s6 -> step s6 | D d3 | F lim -> dist bnd | I p3 | M}*
//      R dist bnd loop gonb gp3 gd3
//  D ok|exhausted {S step s6 -> mid6 end6 err6 | V step s6}*
#include "../../../harness/common.hh"

#include <memory>

#include "corecel/data/CollectionStateStore.hh"
#include "corecel/math/ArrayUtils.hh"
#include "celeritas/Quantities.hh"
#include "celeritas/field/FieldDriver.hh"
#include "celeritas/field/FieldDriverOptions.hh"
#include "celeritas/field/FieldPropagator.hh"
#include "celeritas/field/Types.hh"
#include "celeritas/phys/PDGNumber.hh"
#include "celeritas/phys/ParticleParams.hh"
#include "celeritas/phys/ParticleTrackView.hh"

using namespace celeritas;
using verif::hex;
using verif::rd;

namespace
{
struct Exhausted
{
};

std::ostream& operator<<(std::ostream& os, Real3 const& v)
{
    os << hex(v[0]) << ' ' << hex(v[1]) << ' ' << hex(v[2]);
    return os;
}
std::ostream& operator<<(std::ostream& os, OdeState const& s)
{
    os << s.pos << ' ' << s.mom;
    return os;
}
Real3 rd3(std::istream& is)
{
    Real3 r;
    for (auto& x : r)
        x = rd(is);
    return r;
}

//---------------------------------------------------------------------------//
struct Shared
{
    std::ostringstream log;
    double minsub{}, dint{};
    double last_substep{0}, last_chord{0};
};

struct DriverSpec
{
    double a, b;
    Real3 u, w;
};

class ScriptedDriver
{
  public:
    ScriptedDriver(Shared& sh, short int maxsub, std::vector<DriverSpec> sp)
        : sh_(sh), maxsub_(maxsub), specs_(std::move(sp))
    {
    }
    DriverResult advance(real_type rem, OdeState const& st)
    {
        if (pos_ >= specs_.size())
            throw Exhausted{};
        auto const& sp = specs_[pos_++];
        DriverResult r;
        r.step = rem * sp.a;
        real_type clen = r.step * sp.b;
        real_type pmag = norm(st.mom);
        for (int i = 0; i < 3; ++i)
        {
            r.state.pos[i] = st.pos[i] + clen * sp.u[i];
            r.state.mom[i] = pmag * sp.w[i];
        }
        sh_.last_substep = r.step;
        sh_.last_chord = clen;
        sh_.log << " A " << hex(rem) << ' ' << st << " -> " << hex(r.step)
                << ' ' << r.state;
        return r;
    }
    short int max_substeps() const { return maxsub_; }
    real_type minimum_step() const { return sh_.minsub; }
    real_type delta_intersection() const { return sh_.dint; }

  private:
    Shared& sh_;
    short int maxsub_;
    std::vector<DriverSpec> specs_;
    std::size_t pos_{0};
};

struct GeoSpec
{
    int kind;
    double a;
};

class ScriptedGeo
{
  public:
    ScriptedGeo(Shared& sh, Real3 pos, Real3 dir, bool onb, std::vector<GeoSpec> sp)
        : sh_(sh), pos_(pos), dir_(dir), onb_(onb), specs_(std::move(sp))
    {
    }
    Real3 const& pos() const { return pos_; }
    Real3 const& dir() const { return dir_; }
    bool is_on_boundary() const { return onb_; }
    void set_dir(Real3 const& d)
    {
        dir_ = d;
        sh_.log << " D " << d;
    }
    Propagation find_next_step(real_type limit)
    {
        if (cur_ >= specs_.size())
            throw Exhausted{};
        auto sp = specs_[cur_++];
        real_type const bump = sh_.dint * real_type(0.1);
        if (sp.kind == 5 && !onb_)
        {
            sp.kind = 1;
            sp.a = 0.5;
        }
        Propagation r;
        r.boundary = true;
        switch (sp.kind)
        {
            case 0:
                r.boundary = false;
                r.distance = limit;
                break;
            case 1:
                r.distance = limit * sp.a;
                break;
            case 2:
                r.distance = (limit - sh_.dint) + sp.a * sh_.dint;
                break;
            case 3:
                r.distance = bump * sp.a;
                break;
            case 4:
                r.distance = sp.a * sh_.minsub * sh_.last_chord / sh_.last_substep;
                break;
            default:
                r.distance = 0;
        }
        if (r.boundary && sp.kind != 5)
        {
            if (!(r.distance > 0))
                r.distance = limit * 0.5;
            // a boundary exactly at the search limit makes is_intercept_close a
            // rounding knife-edge (see NOTES.md): stay 1e-9 inside
            if (r.distance > limit * (1 - 1e-9))
                r.distance = limit * (1 - 1e-9);
        }
        next_ = r.distance;
        sh_.log << " F " << hex(limit) << " -> " << hex(r.distance) << ' '
                << (r.boundary ? 1 : 0);
        return r;
    }
    void move_internal(Real3 const& p)
    {
        pos_ = p;
        onb_ = false;
        sh_.log << " I " << p;
    }
    void move_to_boundary()
    {
        axpy(next_, dir_, &pos_);
        onb_ = true;
        sh_.log << " M";
    }

  private:
    Shared& sh_;
    Real3 pos_, dir_;
    bool onb_;
    std::vector<GeoSpec> specs_;
    std::size_t cur_{0};
    real_type next_{0};
};

//---------------------------------------------------------------------------//
struct StepSpec
{
    double b, ac, ae;
    Real3 u, v, w;
};

class ScriptedStepper
{
  public:
    ScriptedStepper(std::ostringstream& log, FieldDriverOptions const& o, std::vector<StepSpec> sp)
        : log_(log), o_(o), specs_(std::move(sp))
    {
    }
    FieldStepperResult operator()(real_type step, OdeState const& st) const
    {
        if (pos_ >= specs_.size())
            throw Exhausted{};
        auto const& sp = specs_[pos_++];
        FieldStepperResult r;
        real_type clen = step * sp.b;
        real_type h = (o_.delta_chord + o_.dchord_tol) * sp.ac;
        real_type pmag = norm(st.mom);
        real_type e = std::sqrt(sp.ae) * o_.epsilon_rel_max;
        for (int i = 0; i < 3; ++i)
        {
            r.end_state.pos[i] = st.pos[i] + clen * sp.u[i];
            r.mid_state.pos[i] = st.pos[i] + (0.5 * clen) * sp.u[i] + h * sp.v[i];
            r.end_state.mom[i] = pmag * sp.w[i];
            r.mid_state.mom[i] = st.mom[i];
            r.err_state.pos[i] = (i == 0 ? e * step : 0);
            r.err_state.mom[i] = (i == 1 ? 0.5 * e * pmag : 0);
        }
        log_ << " S " << hex(step) << ' ' << st << " -> " << r.mid_state << ' '
             << r.end_state << ' ' << r.err_state;
        return r;
    }

  private:
    std::ostringstream& log_;
    FieldDriverOptions const& o_;
    std::vector<StepSpec> specs_;
    mutable std::size_t pos_{0};
};

//---------------------------------------------------------------------------//
struct Particles
{
    std::shared_ptr<ParticleParams> params;
    CollectionStateStore<ParticleStateData, MemSpace::host> state;

    explicit Particles(double mass)
    {
        ParticleParams::Input defs = {{"p",
                                       PDGNumber{11},
                                       units::MevMass{mass},
                                       units::ElementaryCharge{-1},
                                       constants::stable_decay_constant}};
        params = std::make_shared<ParticleParams>(std::move(defs));
        state = CollectionStateStore<ParticleStateData, MemSpace::host>(
            params->host_ref(), 1);
    }
    ParticleTrackView view(double energy)
    {
        ParticleTrackView v{params->host_ref(), state.ref(), TrackSlotId{0}};
        v = ParticleTrackView::Initializer_t{ParticleId{0}, units::MevEnergy{energy}};
        return v;
    }
};

// multi: "PM": nsteps step... in place of the single step; all calls are made on
// ONE FieldPropagator object (its internal state_ persists between calls); one
// output segment per call, separated by " ;;"
void run_propagator(std::istream& is, bool multi)
{
    Shared sh;
    sh.minsub = rd(is);
    sh.dint = rd(is);
    short int maxsub = static_cast<short int>(rd(is));
    std::vector<double> steps(multi ? static_cast<std::size_t>(rd(is)) : 1);
    for (auto& x : steps)
        x = rd(is);
    bool onb = rd(is) != 0;
    Real3 pos = rd3(is), dir = rd3(is);
    double energy = rd(is), mass = rd(is);
    std::size_t L = static_cast<std::size_t>(rd(is));
    std::vector<DriverSpec> ds(L);
    for (auto& s : ds)
    {
        s.a = rd(is);
        s.b = rd(is);
        s.u = rd3(is);
        s.w = rd3(is);
    }
    std::vector<GeoSpec> gs(L);
    for (auto& s : gs)
    {
        s.kind = static_cast<int>(rd(is));
        s.a = rd(is);
    }
    Particles par(mass);
    auto particle = par.view(energy);
    double pmag = value_as<units::MevMomentum>(particle.momentum());
    double e_before = particle.energy().value();

    ScriptedDriver driver(sh, maxsub, ds);
    ScriptedGeo geo(sh, pos, dir, onb, gs);
    FieldPropagator<ScriptedDriver&, ScriptedGeo&> propagate(driver, particle, geo);
    bool first = true;
    for (double step : steps)
    {
        bool ok = true;
        Propagation result;
        sh.log.str("");
        try
        {
            result = propagate(step);
        }
        catch (Exhausted const&)
        {
            ok = false;
        }
        double pmag_after = value_as<units::MevMomentum>(particle.momentum());
        std::cout << (first ? "" : " ;; ") << "P " << (ok ? "ok " : "exhausted ") << hex(pmag)
                  << sh.log.str();
        first = false;
        if (ok)
        {
            std::cout << " R " << hex(result.distance) << ' ' << result.boundary << ' '
                      << result.looping << ' ' << geo.is_on_boundary() << ' ' << geo.pos()
                      << ' ' << geo.dir() << ' ' << hex(pmag_after) << ' '
                      << (e_before == particle.energy().value() ? 1 : 0);
        }
        else
            break;
    }
    std::cout << "\n";
}

void run_driver(std::istream& is)
{
    FieldDriverOptions o;
    o.minimum_step = rd(is);
    o.delta_chord = rd(is);
    o.delta_intersection = rd(is);
    o.epsilon_step = rd(is);
    o.epsilon_rel_max = rd(is);
    o.errcon = rd(is);
    o.pgrow = rd(is);
    o.pshrink = rd(is);
    o.safety = rd(is);
    o.max_stepping_increase = rd(is);
    o.max_stepping_decrease = rd(is);
    o.max_nsteps = static_cast<short int>(rd(is));
    o.max_substeps = static_cast<short int>(rd(is));
    OdeState st;
    st.pos = rd3(is);
    st.mom = rd3(is);
    std::size_t nreq = static_cast<std::size_t>(rd(is));
    std::vector<double> req(nreq);
    for (auto& x : req)
        x = rd(is);
    std::size_t L = static_cast<std::size_t>(rd(is));
    std::vector<StepSpec> sp(L);
    for (auto& s : sp)
    {
        s.b = rd(is);
        s.ac = rd(is);
        s.ae = rd(is);
        s.u = rd3(is);
        s.v = rd3(is);
        s.w = rd3(is);
    }
    std::ostringstream log;
    ScriptedStepper stepper(log, o, sp);
    bool ok = true;
    try
    {
        FieldDriver<ScriptedStepper&> driver(o, stepper);
        for (double r : req)
        {
            // successive advances from the same start state exercise the
            // cached max_chord_ estimate exactly as the propagator's retries do
            DriverResult res = driver.advance(r, st);
            log << " V " << hex(res.step) << ' ' << res.state;
        }
    }
    catch (Exhausted const&)
    {
        ok = false;
    }
    std::cout << "D " << (ok ? "ok" : "exhausted") << log.str() << "\n";
}
}  // namespace

int main()
{
    std::string line;
    while (std::getline(std::cin, line))
    {
        if (line.empty())
            continue;
        std::istringstream is(line);
        std::string kind;
        is >> kind;
        if (kind == "P")
            run_propagator(is, false);
        else if (kind == "PM")
            run_propagator(is, true);
        else if (kind == "D")
            run_driver(is);
        else
            std::cout << "unknown\n";
    }
    return 0;
}
