"""C08 — field propagation: proofs (Properties_C08.v) + scripted-oracle
differential of the float model against the REAL templates
FieldPropagator<ScriptedDriver,ScriptedGeo> / FieldDriver<ScriptedStepper>
+ ZHelixStepper differential + end-to-end search on the real stack
(make_mag_field_propagator x ORANGE geometries)."""
import math, os, sys, threading
import vlib
from vlib import hexf, close

HERE = os.path.dirname(os.path.abspath(__file__))
sys.path.insert(0, HERE)
import e2e  # noqa: E402  (props/C08/e2e.py: end-to-end search)
import rzmap as rzm  # noqa: E402  (props/C08/rzmap.py: RZMapField differential)
import applier as apl  # noqa: E402  (props/C08/applier.py: PropagationApplier differential)
import integrators as stp  # noqa: E402  (props/C08/integrators.py: RK4/DormandPrince/MagFieldEquation, translator + differential)

PRE = ("From Coq Require Import ZArith List Floats.\n"
       "From Celer Require Import Base.Num Base.NumF Base.Vec3 C08.Run.\n"
       "Import ListNotations.\nOpen Scope float_scope.\n")


def fl(xs):
    return "[" + "; ".join(hexf(x) for x in xs) + "]"


def logu(r, lo, hi):
    return 10 ** r.uniform(lo, hi)


def unit(r):
    while True:
        v = [r.gauss(0, 1) for _ in range(3)]
        n = math.sqrt(sum(x * x for x in v))
        if n > 1e-3:
            return [x / n for x in v]


def cross(a, b):
    return [a[1] * b[2] - a[2] * b[1], a[2] * b[0] - a[0] * b[2], a[0] * b[1] - a[1] * b[0]]


def hx(x):
    return float(x).hex()


def vclose(a, b, rtol=1e-9):
    """vectors / scalars: relative to the largest component (directions have
    components that legitimately cancel to ~0)"""
    if isinstance(a, (list, tuple)):
        if len(a) != len(b):
            return False
        if any(isinstance(x, float) and (x != x or math.isinf(x)) for x in list(a) + list(b)):
            return close(list(a), list(b), rtol)
        sc = max([abs(x) for x in a] + [abs(x) for x in b] + [0.0])
        return all(abs(x - y) <= rtol * sc + 1e-300 for x, y in zip(a, b))
    return close(a, b, rtol, atol=1e-300)


EDGE = [1 - 1e-6, 1 + 1e-6]


def nchunk(n):
    """vlib.coq_eval reads the coqc pipes only after starting every job and
    waits for a free slot once NCPU jobs run: with outputs larger than a pipe
    buffer that would block for ever, so never create more than NCPU-1 files."""
    return max(25, -(-n // max(1, min(15, vlib.NCPU - 1))))

# ---------------------------------------------------------------------------
# scripted propagator cases


def gen_prop_case(r):
    minsub = logu(r, -8, -4)
    dint = minsub * r.choice([1.0001, 2.0, 10.0, 10.0, 100.0])
    maxsub = r.choice([1, 2, 3, 10, 10, 20])
    c = r.random()
    if c < 0.12:
        step = minsub * r.choice([0.1, 0.5] + EDGE + [2.5])
    elif c < 0.2:
        step = dint * r.choice([0.05, 0.1, 0.5, 1.0, 3.0])
    else:
        step = logu(r, -6, 3)
    onb = 1 if r.random() < 0.4 else 0
    pos = [0.0, 0.0, 0.0] if r.random() < 0.1 else [r.uniform(-1, 1) * logu(r, -2, 2) for _ in range(3)]
    d = unit(r)
    energy = logu(r, -3, 3)
    L = 40
    heavy_n = r.random() < 0.3     # long accept chains: exhaust the substep budget
    ds, gs = [], []
    for i in range(L):
        a = r.choice([1.0, 1.0, 1.0, 0.5, r.uniform(0.05, 1.0), 1e-3])
        if heavy_n:
            a = r.choice([r.uniform(0.01, 0.3), 0.5, 1.0])
        b = r.choice([1.0, 1.0, 0.999, r.uniform(0.3, 1.0), r.uniform(0.3, 1.0), 1e-4, 1e-9])
        if r.random() < 0.03:
            b = 0.0
        u = unit(r)
        if r.random() < 0.6:  # mostly forward
            u = [x + 3 * y for x, y in zip(u, d)]
            n = math.sqrt(sum(x * x for x in u))
            u = [x / n for x in u]
        ds.append([a, b] + u + unit(r))
        c = r.random()
        if heavy_n and c < 0.85:
            gs.append((0, 0.0))
        elif c < 0.40:
            gs.append((0, 0.0))
        elif c < 0.55:
            gs.append((1, r.choice([r.random(), 0.5, 1e-3, 1 - 1e-9])))
        elif c < 0.78:
            gs.append((2, r.choice([-1 - 1e-6, -1 + 1e-6, 1 - 1e-6, 3e-7, 1e-6, -1e-6, -2.0, 0.5, -0.5, -10.0])))
        elif c < 0.87:
            gs.append((3, r.choice(EDGE + [0.5, 2.0, 0.01])))
        elif c < 0.95:
            gs.append((4, r.choice([1 - 3e-6, 1 + 3e-6, 0.5, 2.0, 30.0])))
        else:
            gs.append((5, 0.0))
    if onb and r.random() < 0.5:   # start on a boundary heading back in
        gs[0] = r.choice([(5, 0.0), (3, 0.5), (3, 1 - 1e-6), (3, 1 + 1e-6)])
        if r.random() < 0.5:
            gs[1] = r.choice([(5, 0.0), (3, 0.5)])
    return dict(minsub=minsub, dint=dint, maxsub=maxsub, step=step, onb=onb, pos=pos, dir=d,
                energy=energy, mass=0.5109989461, L=L, ds=ds, gs=gs)


def prop_line(c):
    t = ["P", hx(c["minsub"]), hx(c["dint"]), str(c["maxsub"]), hx(c["step"]), str(c["onb"])]
    t += [hx(x) for x in c["pos"] + c["dir"]] + [hx(c["energy"]), hx(c["mass"]), str(c["L"])]
    for s in c["ds"]:
        t += [hx(x) for x in s]
    for k, a in c["gs"]:
        t += [str(k), hx(a)]
    return " ".join(t)


def gen_multi_case(r):
    """a HISTORY of 2-5 propagate(step) calls on one FieldPropagator object: the
    scripts are consumed across the calls; ~half of the calls are aimed at ending
    in a chosen exit branch on their first substep (full step accepted / finish
    inside the delta_intersection margin past the end of the step / boundary /
    tiny update), so that the NEXT call starts from each kind of committed state"""
    c = gen_prop_case(r)
    n = r.choice([2, 2, 3, 3, 4, 5])
    steps = [c["step"]]
    for _ in range(n - 1):
        k = r.random()
        if k < 0.5:
            steps.append(c["step"] * r.choice([1.0, 0.5, 2.0, r.uniform(0.1, 3.0)]))
        elif k < 0.6:
            steps.append(c["minsub"] * r.choice([0.5] + EDGE + [2.5]))
        else:
            steps.append(logu(r, -6, 3))
    c["steps"] = steps
    if r.random() < 0.6:
        # aim the first substep of the first call(s): driver takes the whole remaining length
        c["ds"][0][0] = 1.0
        c["ds"][0][1] = r.choice([1.0, 0.999, r.uniform(0.3, 1.0)])
        c["gs"][0] = r.choice([(0, 0.0), (2, 0.5), (2, 1e-6), (2, 1 - 1e-6), (2, 3e-7), (2, r.random()),
                               (1, 0.5), (4, 0.5)])
    return c


def multi_line(c):
    t = ["PM", hx(c["minsub"]), hx(c["dint"]), str(c["maxsub"]), str(len(c["steps"]))]
    t += [hx(x) for x in c["steps"]] + [str(c["onb"])]
    t += [hx(x) for x in c["pos"] + c["dir"]] + [hx(c["energy"]), hx(c["mass"]), str(c["L"])]
    for s in c["ds"]:
        t += [hx(x) for x in s]
    for k, a in c["gs"]:
        t += [str(k), hx(a)]
    return " ".join(t)


def multi_model_expr(c, segs):
    calls = []
    start = (bool(c["onb"]), c["pos"], c["dir"])
    for step, o in zip(c["steps"], segs):
        dans = [ev[2] for ev in o["ev"] if ev[0] == "A"]
        gans = [ev[2] for ev in o["ev"] if ev[0] == "F"]
        n = min(len(dans), len(gans))
        calls.append("(%s, [%s], [%s], (%s, %s, %s))" % (
            hexf(step), "; ".join(fl(a) for a in dans[:n]),
            "; ".join("(%s, %s)" % (hexf(d), "true" if b else "false") for d, b in gans[:n]),
            "true" if start[0] else "false", fl(start[1]), fl(start[2])))
        # the next call starts from the geometry state this call left (see Run.v)
        start = (o["res"]["gonb"], o["res"]["gpos"], o["res"]["gdir"])
    return "run_prop_many %s %s %d %s %s [%s]" % (
        hexf(c["minsub"]), hexf(c["dint"]), c["maxsub"], fl(c["dir"]), hexf(segs[0]["pmag"]), "; ".join(calls))


def fh(t):
    if t in ("nan", "-nan"):
        return float("nan")
    if t in ("inf", "-inf"):
        return float(t)
    return float.fromhex(t)


def parse_prop(line):
    tok = line.split()
    assert tok[0] == "P", line[:80]
    out = {"ok": tok[1] == "ok", "pmag": fh(tok[2]), "ev": [], "res": None}
    i = 3
    while i < len(tok):
        k = tok[i]
        if k == "A":
            args = [fh(x) for x in tok[i + 1:i + 8]]
            ans = [fh(x) for x in tok[i + 9:i + 16]]
            out["ev"].append(("A", args, ans)); i += 16
        elif k == "D":
            out["ev"].append(("D", [fh(x) for x in tok[i + 1:i + 4]])); i += 4
        elif k == "F":
            out["ev"].append(("F", [fh(tok[i + 1])], (fh(tok[i + 3]), tok[i + 4] == "1"))); i += 5
        elif k == "I":
            out["ev"].append(("I", [fh(x) for x in tok[i + 1:i + 4]])); i += 4
        elif k == "M":
            out["ev"].append(("M", [])); i += 1
        elif k == "R":
            v = tok[i + 1:]
            out["res"] = dict(dist=fh(v[0]), bnd=v[1] == "1", loop=v[2] == "1", gonb=v[3] == "1",
                              gpos=[fh(x) for x in v[4:7]], gdir=[fh(x) for x in v[7:10]],
                              pmag_after=fh(v[10]), e_same=v[11] == "1")
            break
        else:
            raise ValueError("bad token %r in harness output" % k)
    return out


def prop_model_expr(c, o):
    dans = [ev[2] for ev in o["ev"] if ev[0] == "A"]
    gans = [ev[2] for ev in o["ev"] if ev[0] == "F"]
    n = min(len(dans), len(gans))
    return "run_prop %s %s %d %s %s %s %s %s [%s] [%s]" % (
        hexf(c["minsub"]), hexf(c["dint"]), c["maxsub"], hexf(c["step"]),
        "true" if c["onb"] else "false", fl(c["pos"]), fl(c["dir"]), hexf(o["pmag"]),
        "; ".join(fl(a) for a in dans[:n]),
        "; ".join("(%s, %s)" % (hexf(d), "true" if b else "false") for d, b in gans[:n]))


def prop_oracle(c, o):
    """The property itself, on what the real template did with the scripted
    oracles (whose answers satisfy the driver/geometry contracts)."""
    r = o["res"]
    step, dist = c["step"], r["dist"]
    bump = c["dint"] * 0.1
    if not (dist > 0):
        return "returned distance %r is not positive" % dist
    if not (dist <= step * (1 + 1e-12)):
        return "returned distance %r exceeds the requested step %r" % (dist, step)
    if r["bnd"] != r["gonb"]:
        return "boundary flag %r differs from the geometry's on-boundary state %r" % (r["bnd"], r["gonb"])
    if r["pmag_after"] != o["pmag"] or not r["e_same"]:
        return "particle momentum/energy changed by the propagator"
    if abs(math.sqrt(sum(x * x for x in r["gdir"])) - 1) > 1e-9:
        return "final geometry direction is not a unit vector"
    n_acc = sum(1 for e in o["ev"] if e[0] == "F" and not e[2][1])
    acc_len = 0.0
    last = None
    for e in o["ev"]:
        if e[0] == "A":
            last = e
        elif e[0] == "F" and not e[2][1]:
            acc_len += last[2][0]
    nmove = sum(1 for e in o["ev"] if e[0] == "M")
    if r["loop"] != (n_acc >= c["maxsub"] and dist < step):
        return "looping flag %r but accepted substeps %d of %d, distance %r of %r" % (
            r["loop"], n_acc, c["maxsub"], dist, step)
    if r["loop"] and r["bnd"]:
        return "looping track flagged on a boundary"
    if r["bnd"] != (nmove == 1):
        return "boundary flag %r but %d move_to_boundary calls" % (r["bnd"], nmove)
    if not r["loop"] and not r["bnd"] and abs(dist - step) > 1e-12 * step:
        # only the documented stuck-on-boundary bump may stop short
        if not (c["onb"] and n_acc == 0 and dist == min(bump, step)):
            return "stopped short (%r of %r) without boundary, looping or bump" % (dist, step)
    last_d = [e for e in o["ev"] if e[0] == "D"]
    if not last_d or not vclose(last_d[-1][1], r["gdir"], 1e-12):
        return "final set_dir is not what the geometry holds"
    return None


def near(a, b, rt=1e-12):
    return abs(a - b) <= rt * max(abs(a), abs(b))


def prop_knife_edge(c, o):
    """Explicit, narrow acceptance rule (BUILDING.md, required behaviour 4): the
    model computes |chord| without the fused multiply-add the C++ dot_product
    uses, so quantities derived from it differ by an ulp.  A discrete outcome may
    then legitimately differ iff one of the propagator's own comparisons is
    decided within 1e-12 relative in the implementation's trace.  Returns the name
    of that comparison or None."""
    minsub, dint, step = c["minsub"], c["dint"], c["step"]
    bump = dint * 0.1
    dist = 0.0
    onb = bool(c["onb"])
    ev = o["ev"]
    adv = None
    for k, e in enumerate(ev):
        if e[0] == "A":
            adv = e
            if k > 0 and near(e[1][0], minsub):
                return "remaining > minimum_substep"
        elif e[0] == "F":
            sub = adv[2][0]
            chord = math.dist(adv[1][1:4], adv[2][1:4])
            lin, bnd = e[2]
            if near(chord, minsub):
                return "chord.length >= minimum_substep"
            if not bnd:
                dist += sub
                onb = False
                if near(step - dist, minsub):
                    return "remaining > minimum_substep"
                continue
            if onb and near(lin, bump):
                return "linear_step.distance < bump_distance"
            if chord == 0:
                continue
            upd = sub * lin / chord
            if near(upd, minsub):
                return "update_length <= minimum_substep"
            if near(abs(lin - chord), dint, 1e-10):
                return "is_intercept_close"
            if near(lin, chord):
                return "linear_step.distance <= chord.length"
            if near(dist + upd, step):
                return "result.distance + update_length <= step"
            if near(sub / 2, minsub):
                return "remaining > minimum_substep"
    if near(dist, step) and dist != step:
        return "result.distance < step"
    return None


def compare_prop(c, o, m):
    """model (parsed Coq value) against implementation trace; returns None or text"""
    if not o["ok"]:
        return None if m is None else "implementation ran out of script, model did not"
    if m is None:
        return "model ran out of fuel, implementation did not"
    (dist, bnd, loop), (gonb, gpos, gdir), (nsub, outc, trace), dlog, glog = m
    r = o["res"]
    if (bnd, loop, gonb) != (r["bnd"], r["loop"], r["gonb"]):
        return "flags differ: model %r impl %r" % ((bnd, loop, gonb), (r["bnd"], r["loop"], r["gonb"]))
    if not vclose(dist, r["dist"]):
        return "distance differs: model %r impl %r" % (dist, r["dist"])
    if not vclose(gpos, r["gpos"]) or not vclose(gdir, r["gdir"]):
        return "final geometry position/direction differ"
    ia = [e for e in o["ev"] if e[0] == "A"]
    if len(ia) != len(dlog):
        return "number of driver.advance calls: model %d impl %d" % (len(dlog), len(ia))
    for k, (e, ml) in enumerate(zip(ia, dlog)):
        if not (vclose(e[1][0], ml[0]) and vclose(e[1][1:4], ml[1:4]) and vclose(e[1][4:7], ml[4:7])):
            return "advance call %d arguments: model %r impl %r" % (k, ml, e[1])
    ig = [e for e in o["ev"] if e[0] != "A"]
    code = {"D": 0, "F": 1, "I": 2, "M": 3}
    if [code[e[0]] for e in ig] != [g[0] for g in glog]:
        return "sequence of geometry calls differs: model %r impl %r" % (
            [g[0] for g in glog], [code[e[0]] for e in ig])
    for k, (e, g) in enumerate(zip(ig, glog)):
        if not vclose(list(e[1]), list(g[1])):
            return "geometry call %d (%s) argument: model %r impl %r" % (k, e[0], g[1], e[1])
    return None


# ---------------------------------------------------------------------------
# scripted driver cases

def gen_driver_case(r):
    ms = logu(r, -7, -4)
    o = [ms, logu(r, -3, 0), ms * r.choice([1.5, 10, 100]), logu(r, -6, -3), logu(r, -4, -2), 1e-4,
         r.choice([-0.2, -0.2, -0.1, -0.4]), r.choice([-0.25, -0.25, -0.15, -0.5]),
         r.choice([0.9, 0.9, 0.5, 0.95]), r.choice([5.0, 5.0, 1.5, 10.0]), r.choice([0.1, 0.1, 0.05, 0.5])]
    max_nsteps = r.choice([1, 2, 3, 5, 5, 100])
    st = [r.uniform(-1, 1) * logu(r, -2, 2) for _ in range(3)]
    pm = logu(r, -3, 3)
    st += [pm * x for x in unit(r)]
    reqs = []
    for _ in range(r.choice([1, 2, 3])):
        c = r.random()
        if c < 0.2:
            reqs.append(ms * r.choice([0.1, 1.0] + EDGE))
        else:
            reqs.append(logu(r, -5, 2))
    L = 80
    easy = r.random() < 0.5
    sp = []
    for _ in range(L):
        b = r.choice([1.0, 0.99, r.uniform(0.5, 1.0)])
        ac = r.choice([1e-3, 0.5] + EDGE + [2.0, 4.0, 100.0, 1e4])
        ae = r.choice([1e-6, 0.5] + EDGE + [4.0, 100.0, 1e4])
        if easy or r.random() < 0.4:
            ac = r.choice([1e-3, 0.5, 1 - 1e-6])
        if easy or r.random() < 0.4:
            ae = r.choice([1e-6, 0.5, 1 - 1e-6])
        u = unit(r)
        v = cross(u, unit(r))
        n = math.sqrt(sum(x * x for x in v))
        v = [x / n for x in v]
        sp.append([b, ac, ae] + u + v + unit(r))
    return dict(o=o, max_nsteps=max_nsteps, st=st, reqs=reqs, L=L, sp=sp)


def driver_line(c):
    t = ["D"] + [hx(x) for x in c["o"]] + [str(c["max_nsteps"]), "10"] + [hx(x) for x in c["st"]]
    t += [str(len(c["reqs"]))] + [hx(x) for x in c["reqs"]] + [str(c["L"])]
    for s in c["sp"]:
        t += [hx(x) for x in s]
    return " ".join(t)


def parse_driver(line):
    tok = line.split()
    assert tok[0] == "D", line[:80]
    out = {"ok": tok[1] == "ok", "S": [], "V": []}
    i = 2
    while i < len(tok):
        if tok[i] == "S":
            args = [fh(x) for x in tok[i + 1:i + 8]]
            ans = [fh(x) for x in tok[i + 9:i + 27]]
            out["S"].append((args, ans)); i += 27
        elif tok[i] == "V":
            out["V"].append([fh(x) for x in tok[i + 1:i + 8]]); i += 8
        else:
            raise ValueError("bad token %r" % tok[i])
    return out


def driver_model_expr(c, o, ans=None):
    """ans: list of (answer18, impl_index | None); None = the implementation's answers"""
    ol = c["o"][:5] + c["o"][6:]       # errcon is unused
    al = [a for _, a in o["S"]] if ans is None else [a for a, _ in ans]
    return "run_driver %s %d %s %s [%s]" % (fl(ol), c["max_nsteps"], fl(c["st"]), fl(c["reqs"]),
                                            "; ".join(fl(a) for a in al))


def compare_driver(c, o, m, ans=None):
    """ans (see driver_realign): alignment of the model's answer list with the
    implementation's calls; entries with impl index None are remainder steps
    only the model took, implementation calls not referenced are remainder steps
    only the implementation took."""
    if m is None:
        return "model rejected the option list"
    res, log, left = m
    if ans is None:
        ans = [(a, k) for k, (_, a) in enumerate(o["S"])]
    if len(log) != len(ans) or left != 0:
        return "number of stepper calls: model %d (+%d unused) impl %d" % (len(log), left, len(o["S"]))
    realigned = len(ans) != len(o["S"]) or any(k is None for _, k in ans)
    for j, ((_, k), ml) in enumerate(zip(ans, log)):
        if k is None:
            continue
        args = o["S"][k][0]
        if not (vclose(args[0], ml[0]) and vclose(args[1:4], ml[1:4]) and vclose(args[4:7], ml[4:7])):
            return "stepper call %d arguments: model %r impl %r" % (k, ml, args)
    if len(res) != len(o["V"]):
        return "number of results differ"
    for k, (a, b) in enumerate(zip(o["V"], res)):
        if not vclose(a[0], b[0]):
            return "advance %d result: model %r impl %r" % (k, b, a)
        # the end state of a rounding-decided extra remainder step is whatever the
        # script answers there: compared only when the call sequences are identical
        if not realigned and not (vclose(a[1:4], b[1:4]) and vclose(a[4:7], b[4:7])):
            return "advance %d result: model %r impl %r" % (k, b, a)
    return None


def driver_realign(c, o, m, ans):
    """Explicit, narrow knife-edge rule for accurate_advance: after taking
    h = end_curve_length - curve_length, `curve_length >= end_curve_length` is
    decided by the rounding of (curve + (end - curve)); when it fails one more
    integrate_step of ~1e-16 of the step is taken.  Model and C++ carry values an
    ulp apart (fma in dot_product), so one side may take that remainder step and
    the other not.  If the first differing stepper call is such a remainder step
    (<= 1e-9 of the preceding step) on exactly one side, realign the script there."""
    if m is None:
        return None
    _, log, _ = m
    if ans is None:
        ans = [(a, k) for k, (_, a) in enumerate(o["S"])]
    used = [k for _, k in ans if k is not None]
    # walk both sequences
    j = 0          # index in model log / ans
    nxt = 0        # next implementation call expected
    while j < len(log) and j < len(ans):
        a, k = ans[j]
        if k is None:
            j += 1
            continue
        if k != nxt:
            break
        if not vclose(o["S"][k][0][0], log[j][0]):
            break
        nxt = k + 1
        j += 1
    if j == 0 or nxt == 0:
        return None
    ref = abs(o["S"][nxt - 1][0][0])
    m_step = abs(log[j][0]) if j < len(log) else None
    i_step = abs(o["S"][nxt][0][0]) if nxt < len(o["S"]) else None
    m_tiny = m_step is not None and m_step <= 1e-9 * ref
    i_tiny = i_step is not None and i_step <= 1e-9 * ref
    if m_tiny and not i_tiny:
        st = list(log[j][1:7])
        e = 1e-3 * c["o"][4] * log[j][0]
        dummy = st + st + [e, 0.0, 0.0, 0.0, 0.0, 0.0]       # no movement, small error
        rest = [(o["S"][k][1], k) for k in range(nxt, len(o["S"]))]
        return ans[:j] + [(dummy, None)] + rest
    if i_tiny and not m_tiny:
        rest = [(o["S"][k][1], k) for k in range(nxt + 1, len(o["S"]))]
        return ans[:j] + rest
    return None


def driver_oracle(c, o):
    for req, v in zip(c["reqs"], o["V"]):
        if not (v[0] > 0 and v[0] <= req * (1 + 1e-12)):
            return "advance(%r) returned step %r outside (0, requested]" % (req, v[0])
    return None


# ---------------------------------------------------------------------------

def run(ctx):
    quick = ctx.tier == "quick"
    n_prop = 1500 if quick else 40000
    n_drv = 450 if quick else 12000
    ctx.trusted += [
        "hand-written models coq/C08/{PropagatorModel,DriverModel,Helix}.v tied by scripted-oracle replay against the real templates (props/C08/run.py, harness/scripted.cc) and by the ZHelixStepper differential",
        "integrator models: coq/Generated/C08_steppers.v regenerated from RungeKuttaStepper.hh/DormandPrinceStepper.hh by translators/steppers.py on every run (the translator is trusted only as far as the differential harness/steppers.cc against the real templates checks its output); hand-written coq/C08/{StepperBase,Steppers}.v (OdeState axpy, MagFieldEquation coefficient/right-hand side, field functors)",
        "hand-written model coq/C08/ApplierModel.v (PropagationApplier + SimTrackView::update_looping/is_looping) tied by the differential harness/applier.cc: the real detail::PropagationApplier<scripted propagator> on a track slot of a real CoreState (problem definitions of props/C01/harness/problems.hh + an unstable particle and per-particle looping thresholds)",
        "hand-written model coq/C08/RZMap.v (RZMapField::operator(), UniformGrid::find/operator[], find_interp, valid/id) tied by the differential on the real RZMapFieldParams of cms-tiny.field.json (harness/e2e.cc lines G/R: grids and node values are read back from the params)",
        "histories of calls on one propagator: the model re-reads the start position of call k+1 from the implementation's geometry after call k (C08_propagator_state_synced)",
        "float instance of Num (Base/NumF.v, Base/FloatFun.v): own exp/log/sin/cos; compared with libm under rtol 1e-9",
        "gap R vs binary64 rounding (DESIGN.md 3.1)",
        "end-to-end: analytic helix reference computed in Python (props/C08/e2e.py) with double precision",
    ]
    ctx.assumptions += [
        "driver contract: 0 < substep.step <= remaining and |chord| <= substep.step (proved for FieldDriver in driver_step_in_range; chord<=arc is geometry of curves)",
        "geometry contract (C03): 0 <= find_next_step(limit).distance <= limit; move_internal clears and move_to_boundary sets the on-boundary state; set_dir/find_next_step preserve it",
        "truncation error of RK4 / Dormand-Prince beyond the controller's own estimate is not proved (numerical analysis)",
    ]
    # regenerate the integrator models from the current headers BEFORE proving:
    # a changed tableau constant or axpy sequence changes the model the theorems are about
    tie_err = stp.regenerate(ctx)
    proofs_ok = ctx.coq_prove("Properties_C08.v")
    ok, log = ctx.coq_build(["C08/Run.vo", "C08/RunSteppers.vo", "C08/RunApplier.vo", "C08/RunRZMap.vo"])
    if not ok:
        ctx.violation("model-broken", "the executable model no longer compiles",
                      getattr(ctx, "broken_proof", {"log_tail": log[-2000:]}), no_input=True)
        return

    # build both harnesses (the end-to-end one links the libraries)
    exe = {}
    err = {}

    def build_e2e():
        try:
            ctx.build_libs(["celeritas", "orange"])
            exe["applier"] = apl.build(ctx)
            exe["e2e"] = ctx.compile_harness([os.path.join(HERE, "harness", "e2e.cc")], "e2e",
                                             libs=["celeritas", "orange", "geocel", "corecel"])
        except Exception as ex:  # re-raised in the main thread
            err["e2e"] = ex

    th = threading.Thread(target=build_e2e)
    th.start()
    try:
        exe["steppers"] = ctx.compile_harness([os.path.join(HERE, "harness", "steppers.cc")], "steppers")
        exe["scripted"] = ctx.compile_harness([os.path.join(HERE, "harness", "scripted.cc")], "scripted",
                                              libs=["celeritas", "orange", "geocel", "corecel"])
    finally:
        th.join()
    if err:
        raise err["e2e"]

    found_input = False
    e2e_job = e2e.start(ctx, exe["e2e"])      # runs in the background
    # ---- scripted propagator ------------------------------------------------
    r = ctx.rng
    pcases = [gen_prop_case(r) for _ in range(n_prop)]
    rc, out = ctx.run_harness(exe["scripted"], input="\n".join(prop_line(c) for c in pcases) + "\n")
    lines = out.strip().splitlines()
    if rc != 0 or len(lines) != len(pcases):
        raise vlib.BuildError("scripted propagator harness failed rc=%d" % rc, out[-2000:])
    pouts = [parse_prop(l) for l in lines]
    exprs = [prop_model_expr(c, o) for c, o in zip(pcases, pouts)]
    mvals = ctx.coq_eval("prop", PRE, exprs, chunk=nchunk(len(exprs)))
    # Coq prints left-nested pairs flat: (dist, bnd, loop, geo, meta, dlog, glog)
    mvals = [None if m is None else ((m[0], m[1], m[2]), m[3], m[4], m[5], m[6]) for m in mvals]
    ndis = 0
    names = {0: "accept", 1: "halve", 2: "finish-boundary", 3: "finish-inside", 4: "retry"}
    outn = {0: "looping", 1: "boundary", 2: "full-step", 3: "bumped"}
    for c, o, m in zip(pcases, pouts, mvals):
        key = [c["minsub"], c["step"], c["pos"], c["energy"]]
        ctx.case(key, nontrivial=o["ok"])
        if not o["ok"]:
            ctx.count("prop:script-exhausted")
        if m is not None:
            for b in set(m[2][2]):
                ctx.count("prop:branch:" + names[b])
            ctx.count("prop:outcome:" + outn[m[2][1]])
            ctx.count("prop:iterations:%s" % (len(m[2][2]) if len(m[2][2]) < 6 else "6+"))
        ctx.sample({"kind": "scripted-propagator", "step": c["step"], "minsub": c["minsub"], "dint": c["dint"],
                    "max_substeps": c["maxsub"], "start_on_boundary": c["onb"],
                    "impl": o["res"], "model_result": m and m[0], "branches": m and [names[b] for b in m[2][2]]}, limit=3)
        if o["ok"]:
            pv = prop_oracle(c, o)
            if pv:
                found_input = True
                ctx.violation("property", "FieldPropagator with contract-respecting oracles: " + pv,
                              {"case": c, "impl_events": o["ev"], "impl_result": o["res"],
                               "harness_line": prop_line(c)})
                ndis += 1
        dv = compare_prop(c, o, m)
        if dv and o["ok"]:
            ke = prop_knife_edge(c, o)
            if ke:
                ctx.count("prop:knife-edge-accepted:" + ke)
                dv = None
        if dv:
            ndis += 1
            ctx.violation("correspondence", "PropagatorModel and FieldPropagator.hh differ: " + dv,
                          {"case": c, "impl_events": o["ev"], "impl_result": o["res"], "model": m,
                           "harness_line": prop_line(c),
                           "theorem": "Properties_C08.v is about a model that no longer matches the code"},
                          no_input=True)
        if ndis > 6:
            break

    # ---- histories of calls on ONE propagator object ---------------------------
    n_multi = 600 if quick else 6000
    mcases = [gen_multi_case(r) for _ in range(n_multi)]
    rc, out = ctx.run_harness(exe["scripted"], input="\n".join(multi_line(c) for c in mcases) + "\n")
    lines = out.strip().splitlines()
    if rc != 0 or len(lines) != len(mcases):
        raise vlib.BuildError("scripted multi-call propagator harness failed rc=%d" % rc, out[-2000:])
    msegs = []
    for l in lines:
        segs = [parse_prop(x.strip()) for x in l.split(";;")]
        msegs.append([sg for sg in segs if sg["ok"]])       # an exhausted script ends the history
    live = [(c, sg) for c, sg in zip(mcases, msegs) if sg]
    ctx.count("prop-history:script-exhausted-in-first-call", len(mcases) - len(live))
    mvals = ctx.coq_eval("prop_many", PRE, [multi_model_expr(c, sg) for c, sg in live], chunk=nchunk(len(live)))
    ndis = 0
    for (c, segs), mv in zip(live, mvals):
        outs, okf = mv
        ctx.case(["history", c["minsub"], c["steps"], c["pos"], c["energy"]], nontrivial=len(segs) > 1)
        ctx.count("prop-history:calls:%d" % len(segs))
        prev_out = None
        for k, (step, o) in enumerate(zip(c["steps"], segs)):
            ck = dict(c, step=step, onb=(c["onb"] if k == 0 else int(segs[k - 1]["res"]["gonb"])))
            pv = prop_oracle(ck, o)
            if pv is None and k > 0:
                # state-machine property: the call must start from where the previous one left
                # the geometry (the internal state_ is synced with the geometry after every call)
                first_adv = next((e for e in o["ev"] if e[0] == "A"), None)
                gp = segs[k - 1]["res"]["gpos"]
                if first_adv is not None and not vclose(first_adv[1][1:4], gp, 1e-12):
                    pv = ("call %d on the same propagator starts integrating from %r although the previous call "
                          "left the geometry at %r (internal state not synced)" % (k, first_adv[1][1:4], gp))
            if pv:
                found_input = True
                ndis += 1
                ctx.violation("property", "FieldPropagator, history of calls on one object: " + pv,
                              {"case": c, "call": k, "impl_events": o["ev"], "impl_result": o["res"],
                               "harness_line": multi_line(c)})
                break
            if k >= len(outs):
                dv = "model ran out of fuel in call %d, implementation did not" % k
            else:
                m = outs[k]
                dv = compare_prop(ck, o, ((m[0], m[1], m[2]), m[3], m[4], m[5], m[6]))
            if dv:
                ke = prop_knife_edge(ck, o)
                if ke:
                    ctx.count("prop-history:knife-edge-accepted:" + ke)
                    break       # later calls legitimately start from a different state
                ndis += 1
                ctx.violation("correspondence", "PropagatorModel (history of calls) and FieldPropagator.hh differ in call %d: %s" % (k, dv),
                              {"case": c, "call": k, "impl_events": o["ev"], "impl_result": o["res"], "model": m if k < len(outs) else None,
                               "harness_line": multi_line(c)}, no_input=True)
                break
            if k > 0:
                bk = (m[4][2] or [None])[-1]
                ctx.count("prop-history:previous-call-ended-by:%s" % names.get(prev_out, prev_out))
            prev_out = (m[4][2] or [None])[-1]
        if ndis > 6:
            break

    # ---- scripted driver ----------------------------------------------------
    dcases = [gen_driver_case(r) for _ in range(n_drv)]
    rc, out = ctx.run_harness(exe["scripted"], input="\n".join(driver_line(c) for c in dcases) + "\n")
    lines = out.strip().splitlines()
    if rc != 0 or len(lines) != len(dcases):
        raise vlib.BuildError("scripted driver harness failed rc=%d" % rc, out[-2000:])
    douts = [parse_driver(l) for l in lines]
    live = [(c, o) for c, o in zip(dcases, douts) if o["ok"]]
    ctx.count("driver:script-exhausted", len(dcases) - len(live))
    exprs = [driver_model_expr(c, o) for c, o in live]
    mvals = ctx.coq_eval("driver", PRE, exprs, chunk=nchunk(len(exprs)))
    ndis = 0
    for (c, o), m in zip(live, mvals):
        ctx.case([c["o"], c["st"], c["reqs"]], nontrivial=True)
        ns = len(o["S"])
        ctx.count("driver:stepper-calls:%s" % (ns if ns < 4 else "4-9" if ns < 10 else "10+"))
        ctx.sample({"kind": "scripted-driver", "requests": c["reqs"], "max_nsteps": c["max_nsteps"],
                    "impl_results": [v[0] for v in o["V"]], "stepper_calls": ns}, limit=5)
        pv = driver_oracle(c, o)
        if pv:
            found_input = True
            ndis += 1
            ctx.violation("property", "FieldDriver with scripted stepper: " + pv,
                          {"case": c, "impl": o, "harness_line": driver_line(c)})
        dv = compare_driver(c, o, m)
        ans = None
        rounds = 0
        while dv and rounds < 4:
            ans2 = driver_realign(c, o, m, ans)
            if ans2 is None:
                break
            ans = ans2
            rounds += 1
            m = ctx.coq_eval("driver_re", PRE, [driver_model_expr(c, o, ans)])[0]
            dv = compare_driver(c, o, m, ans)
            if not dv:
                ctx.count("driver:knife-edge-remainder-step-realigned")
        if dv:
            ndis += 1
            ctx.violation("correspondence", "DriverModel and FieldDriver.hh differ: " + dv,
                          {"case": c, "impl": o, "model": m, "harness_line": driver_line(c)}, no_input=True)
        if ndis > 6:
            break

    # ---- PropagationApplier (how the propagation result is applied to the track) ----
    found_input |= apl.run(ctx, exe["applier"])

    # ---- integrators: RK4 / Dormand-Prince / MagFieldEquation ---------------
    found_input |= stp.run(ctx, exe["steppers"])
    if tie_err:
        ctx.violation("tie-broken", "translators/steppers.py no longer recognises the integrator source: " + tie_err,
                      {"broken": "translators/steppers.py", "detail": tie_err}, no_input=True)

    # ---- ZHelix differential + end-to-end search ---------------------------
    found_input |= e2e.finish(ctx, e2e_job, PRE)

    # ---- RZMapField interpolation on the real field map ------------------------
    found_input |= rzm.run(ctx, exe["e2e"], e2e_job["geodir"], e2e_job["fmap"])

    if not proofs_ok and not found_input:
        ctx.violation("proof-broken", "Properties_C08.v no longer checks", ctx.broken_proof, no_input=True)
    ctx.coverage["rule"] = (
        "cases drawn from one PRNG seeded by VERIF_SEED: (a) scripted propagator = options, step, start state, "
        "40 relative driver answers + 40 relative geometry answers resolved by the oracles against the real call "
        "arguments (contract-respecting, biased to branch thresholds +-1e-6); (a') histories of 2-5 propagate calls "
        "on ONE FieldPropagator object, scripts consumed across the calls, first substeps aimed at each exit branch; "
        "(b) scripted driver = options, start "
        "state, 1-3 successive advance requests, 80 relative stepper answers; (b') RK4/Dormand-Prince/MagFieldEquation "
        "on random states, uniform and linear fields, charges, step/R 1e-6..3; (c) ZHelixStepper vs model; "
        "(d) end-to-end propagations on ORANGE geometries (every other case: one propagator object for all calls; "
        "every 4th of those also re-run with a fresh propagator per call and compared); (e) PropagationApplier: "
        "sequences of 1-14 applications on one track slot, stable/unstable particles, energies at the looping "
        "threshold +-1e-9; (f) RZMapField: nodes, grid lines +-1 ulp, axis, map edges, outside, random points. non-trivial = the script was long enough / the run "
        "returned a result; distinct by (options, step, start state)")
    ctx.coverage["traces_validated_against_impl"] = len(pcases) + len(live) + len(mcases)
