"""C08 end-to-end search on the real stack + ZHelixStepper differential.

run(ctx, exe, PRE) -> True iff a concrete failing input was reported."""
import math, os
import vlib
from vlib import hexf

REPO = vlib.REPO
COEFF = 0.00029979245799999996   # |e| / (MeV/c) in native (CGS-gauss) units; re-read from the harness
MASS = 0.5109989461

GEOMS = {
    # name: (scale, sampler of a start point)
    "two-boxes": (5.0, lambda r: [r.uniform(-12, 12) for _ in range(3)]),
    "field-layers": (1.0, lambda r: [r.uniform(-9.5, 9.5), r.uniform(-6, 6), r.uniform(-9.5, 9.5)]),
    "simple-cms": (100.0, None),
}


def hx(x):
    return float(x).hex()


def fh(t):
    if t in ("nan", "-nan", "inf", "-inf"):
        return float(t)
    return float.fromhex(t)


def unit(r):
    while True:
        v = [r.gauss(0, 1) for _ in range(3)]
        n = math.sqrt(sum(x * x for x in v))
        if n > 1e-3:
            return [x / n for x in v]


def norm(v):
    return math.sqrt(sum(x * x for x in v))


def cross(a, b):
    return [a[1] * b[2] - a[2] * b[1], a[2] * b[0] - a[0] * b[2], a[0] * b[1] - a[1] * b[0]]


def helix(pos, d, bvec, coeffi, pmag, s):
    """analytic solution of  x' = u, u' = (coeffi/p) u x B  at arc length s"""
    bn = norm(bvec)
    if bn == 0:
        return [p + s * u for p, u in zip(pos, d)], list(d)
    bh = [x / bn for x in bvec]
    k = coeffi * bn / pmag
    dpar = sum(a * b for a, b in zip(d, bh))
    par = [dpar * x for x in bh]
    perp = [a - b for a, b in zip(d, par)]
    pxb = cross(perp, bh)
    th = k * s
    if abs(th) < 1e-4:
        sk = s * (1 - th * th / 6 + th ** 4 / 120)              # sin(ks)/k
        ck = s * (th / 2 - th ** 3 / 24 + th ** 5 / 720)        # (1-cos(ks))/k
    else:
        sk = math.sin(th) / k
        ck = (2 * math.sin(th / 2) ** 2) / k
    p1 = [p + s * a + sk * b + ck * c for p, a, b, c in zip(pos, par, perp, pxb)]
    d1 = [a + math.cos(th) * b + math.sin(th) * c for a, b, c in zip(par, perp, pxb)]
    return p1, d1


SIG_F2 = "fieldprop-tiny-update-commits-full-substep-momentum"

DEFAULT_OPTS = [1e-6, 0.025, 1e-5, 1e-5, 1e-3, 1e-4, -0.2, -0.25, 0.9, 5.0, 0.1, 100, 10]


def gen_case(r, coeff):
    g = r.choice(["two-boxes", "two-boxes", "field-layers", "field-layers", "simple-cms"])
    scale = GEOMS[g][0]
    q = r.choice([-1, 1])
    energy = 10 ** r.uniform(-3, 4)
    pmag = math.sqrt(energy * energy + 2 * MASS * energy)
    fk, sk = r.choice([(0, 0), (0, 0), (0, 1), (1, 0), (1, 1), (1, 2), (1, 2), (2, 0), (2, 1)])
    if fk == 2:
        g = "simple-cms"
        scale = 100.0
    opts = list(DEFAULT_OPTS)
    if r.random() < 0.35:
        dint = 10 ** r.uniform(-6, -3)
        opts[2] = dint
        opts[0] = dint * r.choice([0.1, 0.5, 0.999])
        opts[1] = 10 ** r.uniform(-3, -1)
        opts[4] = 10 ** r.uniform(-4, -2.5)
        opts[12] = r.choice([1, 3, 10, 100])
    # gyroradius from 1e-6 to 1e6 x geometry scale
    rad = scale * 10 ** r.uniform(-6, 6)
    if r.random() < 0.5:
        rad = scale * 10 ** r.uniform(-2, 1.5)
    bmag = pmag / (abs(coeff) * rad)
    d = unit(r)
    if fk == 0:
        b = [bmag * x for x in unit(r)]
    else:
        b = [0.0, 0.0, bmag * r.choice([-1, 1])]
    # start point
    if g == "simple-cms":
        rr = r.choice([r.uniform(0, 720), r.choice([30, 125, 175, 275, 375, 700]) + r.uniform(-1, 1) * 10 ** r.uniform(-6, 0)])
        ph = r.uniform(0, 2 * math.pi)
        pos = [rr * math.cos(ph), rr * math.sin(ph), r.uniform(-690, 690)]
        if r.random() < 0.3:   # near-tangent to the cylinders
            eps = r.choice([0, 1e-9, 1e-6, 1e-3]) * r.choice([-1, 1])
            d = [-math.sin(ph) + eps * math.cos(ph), math.cos(ph) + eps * math.sin(ph), r.uniform(-0.3, 0.3)]
    else:
        pos = GEOMS[g][1](r)
        if r.random() < 0.3:   # near-tangent to the planes
            ax = r.randrange(3)
            d[ax] = r.choice([0, 1e-12, 1e-9, 1e-6, 1e-3]) * r.choice([-1, 1])
        if r.random() < 0.15:  # a hair away from a plane, heading to it
            if g == "two-boxes":
                ax = r.randrange(3)
                pos = [r.uniform(-4, 4) for _ in range(3)]
                pos[ax] = 5 - 10 ** r.uniform(-8, -4)
                d[ax] = abs(d[ax]) + 0.2
            else:
                pos[1] = r.choice([-4, -2, 0, 2, 4]) + 0.5 - 10 ** r.uniform(-8, -4)
                d[1] = abs(d[1]) + 0.2
    n = norm(d)
    d = [x / n for x in d]
    onaxis = False
    if sk == 2 and r.random() < 0.8:
        # ZHelixStepper is only exact when the gyration centre is on the z axis
        lim = 40.0 if g == "two-boxes" else (8.0 if g == "field-layers" else 600.0)
        rad = lim * 10 ** r.uniform(-3, 0)
        bmag = pmag / (abs(coeff) * rad)
        # ... and the helicity is "positive" (q * Bz < 0): see NOTES.md F-C08-1
        b = [0.0, 0.0, -q * bmag]
        k = q * abs(coeff) * b[2] / pmag
        pos = [-d[1] / k, d[0] / k, pos[2] if g != "two-boxes" else r.uniform(-12, 12)]
        onaxis = True
    prestart = 1 if r.random() < 0.3 and not onaxis else 0
    steps = []
    for _ in range(r.choice([1, 2, 3, 4])):
        c = r.random()
        if c < 0.1:
            steps.append(opts[0] * r.choice([0.1, 0.5, 1 - 1e-6, 1 + 1e-6, 3.0]))
        elif c < 0.2:
            steps.append(opts[2] * r.choice([0.05, 0.1, 1.0, 5.0]))
        elif c < 0.5:
            steps.append(min(2 * math.pi * rad * r.choice([0.01, 0.3, 1.0, 3.0, 100.0]), 1e4 * scale))
        else:
            steps.append(scale * 10 ** r.uniform(-5, 1.5))
    return dict(geom=g, fk=fk, sk=sk, q=q, energy=energy, b=b, pos=pos, dir=d, prestart=prestart,
                opts=opts, steps=steps, onaxis=onaxis, rad=rad, scale=scale)


def case_line(c):
    t = ["E", c["geom"], str(c["fk"]), str(c["sk"]), str(c["q"]), hx(c["energy"])]
    t += [hx(x) for x in c["b"] + c["pos"] + c["dir"]] + [str(c["prestart"])]
    t += [hx(x) for x in c["opts"][:11]] + [str(c["opts"][11]), str(c["opts"][12])]
    t += [str(len(c["steps"]))] + [hx(x) for x in c["steps"]]
    t += [str(c.get("reuse", 0))]
    return " ".join(t)


def parse_case(line):
    tok = line.split()
    if tok[0] != "E":
        raise ValueError(line[:100])
    if tok[1] != "ok":
        return {"status": tok[1], "msg": " ".join(tok[2:])}
    out = {"status": "ok", "coeffi": fh(tok[2]), "pmag": fh(tok[3]), "calls": []}
    assert tok[4] == "S"
    out["start"] = dict(pos=[fh(x) for x in tok[5:8]], dir=[fh(x) for x in tok[8:11]], onb=tok[11] == "1", vol=int(tok[12]))
    i = 13
    while i < len(tok):
        assert tok[i] == "C", tok[i]
        v = tok[i + 1:i + 18]
        out["calls"].append(dict(dist=fh(v[0]), bnd=v[1] == "1", loop=v[2] == "1", onb=v[3] == "1",
                                 pos=[fh(x) for x in v[4:7]], dir=[fh(x) for x in v[7:10]],
                                 vol=int(v[10]), fresh=int(v[11]), outside=v[12] == "1", esame=v[13] == "1", nstep=int(v[14]), fsafety=fh(v[15])))
        i += 17
    return out


def check_case(c, o, stats):
    """property oracle; returns (kind, text) or None"""
    pos, d = o["start"]["pos"], o["start"]["dir"]
    uniform = c["fk"] in (0, 1)
    opts = c["opts"]
    # ZHelixStepper is only meaningful on-axis with positive helicity (F-C08-1)
    zh_bad = c["sk"] == 2 and not c["onaxis"]
    # accurate_advance floors its trial steps at minimum_step whatever the error:
    # with a gyroradius comparable to minimum_step the integration is uncontrolled
    controlled = c["rad"] > 10 * opts[0]
    for k, (step, r) in enumerate(zip(c["steps"], o["calls"])):
        if not (r["dist"] > 0 and r["dist"] <= step * (1 + 1e-9)):
            return ("distance", "call %d: distance %r not in (0, step=%r]" % (k, r["dist"], step))
        if r["bnd"] != r["onb"]:
            return ("flag", "call %d: boundary flag %r but geo.is_on_boundary() = %r" % (k, r["bnd"], r["onb"]))
        if not r["esame"]:
            return ("momentum", "call %d: particle energy changed" % k)
        if abs(norm(r["dir"]) - 1) > 1e-9:
            return ("direction", "call %d: geometry direction not unit" % k)
        if r["loop"] and not (r["dist"] < step):
            return ("looping", "call %d: looping flagged but full step travelled" % k)
        if r["loop"] and r["bnd"]:
            return ("looping", "call %d: looping flagged on a boundary" % k)
        if not r["bnd"] and not r["loop"] and abs(r["dist"] - step) > 1e-12 * step:
            bump = min(0.1 * opts[2], step)
            if r["dist"] != bump:
                return ("short", "call %d: stopped at %r of %r without boundary/looping/bump" % (k, r["dist"], step))
            stats["bumped"] = stats.get("bumped", 0) + 1
        # within delta_intersection (+ minimum step: chords shorter than that are
        # not tested against the geometry, FieldPropagator.hh l.196-206) of a
        # surface the logical volume may lag the position: documented caveat
        if zh_bad:
            pass
        elif not r["onb"] and r["fresh"] != r["vol"] and r["fsafety"] <= 2 * (opts[2] + opts[0]):
            stats["volume_lag_within_tolerance"] = stats.get("volume_lag_within_tolerance", 0) + 1
        elif not r["onb"] and r["fresh"] != r["vol"] and c["fk"] != 2 and c["rad"] <= 4 * opts[0]:
            # gyroradius below the minimum step: chords shorter than minimum_step are
            # never tested against the geometry (finding F-C08-3, NOTES.md)
            stats["volume_lag_tiny_gyroradius"] = stats.get("volume_lag_tiny_gyroradius", 0) + 1
            break
        elif not r["onb"] and r["fresh"] != r["vol"]:
            return ("volume", "call %d: navigator says volume %d, fresh point location says %d at %r" % (
                k, r["vol"], r["fresh"], r["pos"]))
        if uniform and not zh_bad and not controlled:
            stats["uncontrolled_regime_skipped"] = stats.get("uncontrolled_regime_skipped", 0) + 1
        elif uniform and not zh_bad:
            hp, hd = helix(pos, d, c["b"], o["coeffi"], o["pmag"], r["dist"])
            perr = norm([a - b for a, b in zip(hp, r["pos"])])
            derr = norm([a - b for a, b in zip(hd, r["dir"])])
            # budget: chord sagitta + intersection tolerance + what the step
            # controller itself allows (per stepper call: |dpos| <= eps*h and
            # |dmom|/|p| <= eps, so n calls give eps*s*(1+n))
            eps = opts[4] if c["sk"] != 2 else 1e-9
            tol = (2 * (opts[1] + 1e-6) + 2 * opts[2] + 2 * eps * r["dist"] * (1 + r["nstep"])
                   + 1e-9 * (norm(pos) + r["dist"]))
            stats["max_perr_over_tol"] = max(stats.get("max_perr_over_tol", 0.0), perr / tol)
            if perr > tol:
                return ("helix", "call %d: end point %r is %.3g from the analytic helix point %r (budget %.3g) after %r" % (
                    k, r["pos"], perr, hp, tol, r["dist"]))
            # direction: controller allowance + phase error from the position budget
            kk = abs(o["coeffi"]) * norm(c["b"]) / o["pmag"]
            dbud = 2 * eps * (1 + r["nstep"]) + kk * (tol + 2 * opts[0]) + 1e-9
            stats["max_derr_over_budget"] = max(stats.get("max_derr_over_budget", 0.0), derr / dbud if not r["bnd"] else 0.0)
            if derr > dbud:
                if r["bnd"]:
                    # finding F-C08-2 (NOTES.md): boundary within minimum_substep of the
                    # start of a trial substep -> momentum of the whole substep is committed
                    return ("F-C08-2", "call %d: travelled %.3g to a boundary but the direction turned by %.3g rad "
                            "(helix: %.3g rad)" % (k, r["dist"], norm([a - b for a, b in zip(d, r["dir"])]),
                                                   norm([a - b for a, b in zip(d, hd)])))
                return ("direction", "call %d: direction %r is %.3g from the analytic helix direction %r (budget %.3g) after %r" % (
                    k, r["dir"], derr, hd, dbud, r["dist"]))
            stats.setdefault("derr", []).append((derr, k, r["nstep"], r["bnd"], r["loop"], c["rad"], r["dist"], case_line(c)))
        elif uniform:
            stats["zhelix_offaxis"] = stats.get("zhelix_offaxis", 0) + 1
        pos, d = r["pos"], r["dir"]
    return None


def call_budget(c, o, r, pos):
    """(position, direction) budget of one call: the same formulas as check_case"""
    opts = c["opts"]
    eps = opts[4] if c["sk"] != 2 else 1e-9
    tol = (2 * (opts[1] + 1e-6) + 2 * opts[2] + 2 * eps * r["dist"] * (1 + r["nstep"])
           + 1e-9 * (norm(pos) + r["dist"]))
    kk = abs(o["coeffi"]) * (norm(c["b"]) if c["fk"] != 2 else 4e4) / o["pmag"]
    dbud = 2 * eps * (1 + r["nstep"]) + kk * (tol + 2 * opts[0]) + 1e-9
    return tol, dbud, kk


def compare_twins(c, oa, ob, stats):
    """the same case run (a) with ONE propagator object serving all calls and (b) with a
    fresh propagator per call must agree call by call: same flags, distances, positions and
    directions within the accumulated budgets of the two runs (the cached chord length of the
    driver and the un-renormalised momentum legitimately change the subdivision, so agreement
    is up to the integration tolerances, not bitwise).  A differing boundary flag is accepted
    when the interior end point is within the budget of a surface; a differing looping flag
    (substep counts) ends the comparison.  Returns text or None."""
    opts = c["opts"]
    if c["sk"] == 2 and not c["onaxis"]:
        return None
    if c["rad"] <= 10 * opts[0]:
        stats["twins_uncontrolled_skipped"] = stats.get("twins_uncontrolled_skipped", 0) + 1
        return None
    if oa["start"] != ob["start"]:
        return "start states differ: %r vs %r" % (oa["start"], ob["start"])
    accp, accd = 0.0, 0.0
    pos = oa["start"]["pos"]
    for k, (ra, rb) in enumerate(zip(oa["calls"], ob["calls"])):
        ta, da, kk = call_budget(c, oa, ra, pos)
        tb, db, _ = call_budget(c, ob, rb, pos)
        dist = max(ra["dist"], rb["dist"])
        accp = accp * (1 + kk * dist) + accd * dist + 2 * (ta + tb)
        accd = accd + kk * accp + 2 * (da + db)
        if ra["loop"] != rb["loop"]:
            stats["twins_looping_differs"] = stats.get("twins_looping_differs", 0) + 1
            return None
        if ra["bnd"] != rb["bnd"]:
            inner = rb if ra["bnd"] else ra
            if inner["fsafety"] <= accp + 2 * (opts[2] + opts[0]):
                stats["twins_boundary_within_budget"] = stats.get("twins_boundary_within_budget", 0) + 1
                return None
            return ("call %d: one propagator object for all calls reports boundary=%r, a fresh propagator per call "
                    "boundary=%r, and the interior end point is %.3g from the nearest surface (budget %.3g)"
                    % (k, ra["bnd"], rb["bnd"], inner["fsafety"], accp))
        perr = norm([x - y for x, y in zip(ra["pos"], rb["pos"])])
        derr = norm([x - y for x, y in zip(ra["dir"], rb["dir"])])
        stats["twins_max_perr_over_budget"] = max(stats.get("twins_max_perr_over_budget", 0.0), perr / accp)
        if ra["bnd"] and (ra["vol"] != rb["vol"]) and perr <= accp:
            stats["twins_other_surface_within_budget"] = stats.get("twins_other_surface_within_budget", 0) + 1
            return None
        if abs(ra["dist"] - rb["dist"]) > accp or perr > accp:
            return ("call %d: one propagator object for all calls ends at %r after %r, a fresh propagator per call at %r "
                    "after %r: %.3g apart (budget %.3g)" % (k, ra["pos"], ra["dist"], rb["pos"], rb["dist"], perr, accp))
        if derr > accd and not ra["bnd"]:
            return ("call %d: directions %r (one object) and %r (fresh per call) differ by %.3g (budget %.3g)"
                    % (k, ra["dir"], rb["dir"], derr, accd))
        stats["twins_calls_compared"] = stats.get("twins_calls_compared", 0) + 1
        pos = ra["pos"]
    return None


def gen_helix_cases(r, nh):
    hcases = []
    for _ in range(nh):
        q = r.choice([-1, 1])
        bz = 10 ** r.uniform(1, 6) * r.choice([-1, 1])
        pm = 10 ** r.uniform(-3, 4)
        mom = [pm * x for x in unit(r)]
        pos = [r.uniform(-1, 1) * 10 ** r.uniform(-2, 2) for _ in range(3)]
        rad = pm / (COEFF * abs(bz))
        step = rad * r.choice([1e-6, 1e-3, 0.1, 1.0, 3.0, 10 ** r.uniform(-3, 1)])
        hcases.append((q, bz, step, pos + mom))
    return hcases


def start(ctx, exe):
    """generate the cases (own PRNG stream, so the order of the other parts
    does not matter) and run the harness in a background thread"""
    import random, threading
    quick = ctx.tier == "quick"
    r = random.Random(ctx.seed * 7919 + 8)
    job = {"exe": exe}
    job["geodir"] = os.path.join(REPO, "test", "geocel", "data")
    job["fmap"] = os.path.join(REPO, "test", "celeritas", "data", "cms-tiny.field.json")
    job["hcases"] = gen_helix_cases(r, 300 if quick else 5000)
    ne = int(os.environ.get("C08_E2E_N", "0")) or (3000 if quick else 20000)   # override: ad-hoc experiments
    job["cases"] = [gen_case(r, COEFF) for _ in range(ne)]
    for k, c in enumerate(job["cases"]):
        # every other case makes all its calls on ONE propagator object (internal state
        # persists between calls); the others construct a fresh propagator per call
        c["reuse"] = k % 2
    # twins: every 4th reuse case is ALSO run with a fresh propagator per call; the two
    # runs must agree call by call (compare_twins)
    job["twins"] = []
    for k, c in enumerate(list(job["cases"])):
        if c["reuse"] and (k // 2) % 2 == 0 and len(c["steps"]) > 1:
            t = dict(c)
            t["reuse"] = 0
            job["twins"].append((k, len(job["cases"])))
            job["cases"].append(t)

    def work():
        try:
            inp = "\n".join("H %d %s %s %s" % (q, hx(bz), hx(s), " ".join(hx(x) for x in st))
                            for q, bz, s, st in job["hcases"]) + "\n"
            job["hout"] = ctx.run_harness(exe, [job["geodir"], job["fmap"]], input=inp)
            job["eout"] = ctx.run_harness(exe, [job["geodir"], job["fmap"]],
                                          input="\n".join(case_line(c) for c in job["cases"]) + "\n", timeout=2400)
        except Exception as ex:
            job["error"] = ex
    job["thread"] = threading.Thread(target=work)
    job["thread"].start()
    return job


def finish(ctx, job, PRE):
    job["thread"].join()
    if "error" in job:
        raise job["error"]
    found = False
    exe, geodir, fmap = job["exe"], job["geodir"], job["fmap"]

    # ---- ZHelixStepper differential -----------------------------------------
    hcases = job["hcases"]
    nh = len(hcases)
    rc, out = job["hout"]
    lines = out.strip().splitlines()
    if rc != 0 or len(lines) != nh:
        raise vlib.BuildError("helix harness failed rc=%d" % rc, out[-2000:])
    coeff = abs(fh(lines[0].split()[1]))
    if coeff != COEFF:
        ctx.violation("tie-broken", "Lorentz coefficient of MagFieldEquation changed: %r (expected %r)" % (coeff, COEFF),
                      {"coeffi": coeff}, no_input=True)
    exprs = ["run_helix %s %s %s [%s]" % (hexf(q * coeff), hexf(bz), hexf(s), "; ".join(hexf(x) for x in st))
             for q, bz, s, st in hcases]
    mv = ctx.coq_eval("helix", PRE, exprs, chunk=max(25, -(-nh // 8)))
    nd = 0
    for (q, bz, s, st), line, m in zip(hcases, lines, mv):
        tok = line.split()
        impl = [fh(x) for x in tok[2:]]
        ctx.case([q, bz, s, st], nontrivial=True)
        ctx.count("helix:cases")
        pm = norm(st[3:])
        # property oracle: |mom| conserved exactly (to rounding) by the analytic stepper
        for off in (3, 9):
            if abs(norm(impl[off:off + 3]) - pm) > 1e-12 * pm:
                found = True
                nd += 1
                ctx.violation("property", "ZHelixStepper changed |p|: %r -> %r" % (pm, norm(impl[off:off + 3])),
                              {"q": q, "bz": bz, "step": s, "state": st, "impl": impl})
        model = list(m[0]) + list(m[1])
        sc_p = max(norm(st[:3]), 1e-300)
        ok = all(abs(a - b) <= 1e-9 * sc_p + 1e-9 * abs(s) for a, b in zip(impl[0:3] + impl[6:9], model[0:3] + model[6:9]))
        ok = ok and all(abs(a - b) <= 1e-9 * pm for a, b in zip(impl[3:6] + impl[9:12], model[3:6] + model[9:12]))
        if not ok:
            nd += 1
            ctx.violation("correspondence", "Helix.v and ZHelixStepper.hh differ",
                          {"q": q, "bz": bz, "step": s, "state": st, "impl": impl, "model": model}, no_input=True)
        if nd > 4:
            break

    # ---- end-to-end ---------------------------------------------------------
    cases = job["cases"]
    ne = len(cases)
    rc, out = job["eout"]
    lines = [l for l in out.strip().splitlines() if l.startswith("E ")]
    if rc != 0 or len(lines) != ne:
        raise vlib.BuildError("end-to-end harness failed rc=%d (%d/%d lines)" % (rc, len(lines), ne), out[-2000:])
    stats = {}
    nv = 0
    fn = {0: "UniformField", 1: "UniformZField", 2: "RZMapField"}
    sn = {0: "DormandPrince", 1: "RK4", 2: "ZHelix"}
    parsed = {}
    for idx, (c, line) in enumerate(zip(cases, lines)):
        o = parse_case(line)
        parsed[idx] = o
        key = [c["geom"], c["pos"], c["dir"], c["energy"], c["b"], c.get("reuse", 0)]
        if o["status"] != "ok":
            ctx.case(key, nontrivial=False)
            ctx.count("e2e:" + o["status"])
            if o["status"] == "error":
                found = True
                nv += 1
                ctx.violation("property", "end-to-end propagation raised: " + o["msg"][:200],
                              {"case": c, "harness_line": case_line(c)})
            continue
        ctx.case(key, nontrivial=True)
        ctx.count("e2e:%s/%s/%s" % (c["geom"], fn[c["fk"]], sn[c["sk"]]))
        ctx.count("e2e:propagator:%s" % ("one-object-for-all-calls" if c.get("reuse") else "fresh-per-call"))
        for cl in o["calls"]:
            ctx.count("e2e:outcome:" + ("looping" if cl["loop"] else "boundary" if cl["bnd"] else "interior"))
        if o["start"]["onb"]:
            ctx.count("e2e:start-on-boundary")
        ctx.count("e2e:gyroradius/scale:1e%+d" % int(math.floor(math.log10(c["rad"] / c["scale"]) / 3) * 3))
        ctx.sample({"kind": "end-to-end", "geom": c["geom"], "field": fn[c["fk"]], "stepper": sn[c["sk"]],
                    "gyroradius": c["rad"], "steps": c["steps"],
                    "results": [(x["dist"], x["bnd"], x["loop"]) for x in o["calls"]]}, limit=6)
        v = check_case(c, o, stats)
        if v and v[0] == "F-C08-2":
            ctx.count("e2e:finding:F-C08-2-direction-jump-at-near-boundary")
            if any(k.get("signature") == SIG_F2 for k in ctx.known):
                ctx.violation("property", v[1], {"case": c, "harness_line": case_line(c)}, signature=SIG_F2)
            stats.setdefault("F-C08-2_examples", [])
            if len(stats["F-C08-2_examples"]) < 3:
                stats["F-C08-2_examples"].append({"what": v[1], "harness_line": case_line(c)})
            v = None
        if v:
            found = True
            nv += 1
            ctx.violation("property", "end-to-end (%s, %s, %s): %s" % (c["geom"], fn[c["fk"]], sn[c["sk"]], v[1]),
                          {"case": c, "impl": o, "harness_line": case_line(c),
                           "run": "%s %s %s" % (exe, geodir, fmap)})
            if nv > 6:
                break
    # ---- one propagator object for all calls vs a fresh one per call --------------
    nt = 0
    for ia, ib in job.get("twins", []):
        oa, ob = parsed.get(ia), parsed.get(ib)
        if not oa or not ob or oa["status"] != "ok" or ob["status"] != "ok":
            continue
        ctx.count("e2e:twin-runs-compared")
        tv = compare_twins(cases[ia], oa, ob, stats)
        if tv:
            found = True
            nt += 1
            c = cases[ia]
            ctx.violation("property", "end-to-end (%s, %s, %s), propagator reuse: %s" % (c["geom"], fn[c["fk"]], sn[c["sk"]], tv),
                          {"case": c, "one_object": oa, "fresh_per_call": ob,
                           "harness_line_one_object": case_line(c), "harness_line_fresh": case_line(cases[ib])})
            if nt > 4:
                break
    derr = sorted(stats.pop("derr", []), reverse=True)
    if derr:
        stats["max_direction_error_vs_helix"] = derr[0][0]

    ctx.coverage["e2e_stats"] = stats
    ctx.notes.append("ZHelixStepper end-to-end cases with the gyration centre off the z axis are not checked against "
                     "the analytic helix (finding F-C08-1 in NOTES.md): %d such cases ran" % stats.get("zhelix_offaxis", 0))
    return found
