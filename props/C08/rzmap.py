"""C08 — RZMapField::operator(): differential of coq/C08/RZMap.v against the REAL functor on the
REAL RZMapFieldParams built from test/celeritas/data/cms-tiny.field.json (harness/e2e.cc lines G, R)
+ property oracle (node values at nodes, every component between its two neighbour node values,
zero outside the map)."""
import math
import os
import random

import vlib
from vlib import hexf


def hx(x):
    return float(x).hex()


def fh(t):
    return float(t) if t in ("nan", "-nan", "inf", "-inf") else float.fromhex(t)


PRE = ("From Coq Require Import ZArith List Floats.\n"
       "From Celer Require Import Base.Num Base.NumF Base.Vec3 C08.RZMap C08.RunRZMap.\n"
       "Import ListNotations.\nOpen Scope float_scope.\n")


def ulp(x, k):
    for _ in range(abs(k)):
        x = math.nextafter(x, math.inf if k > 0 else -math.inf)
    return x


def run(ctx, exe, geodir, fmap):
    quick = ctx.tier == "quick"
    found = False
    r = random.Random(ctx.seed * 32452843 + 5)
    rc, out = ctx.run_harness(exe, [geodir, fmap], input="G\n")
    gl = [l for l in out.splitlines() if l.startswith("G ")]
    if rc != 0 or not gl:
        raise vlib.BuildError("rzmap harness failed rc=%d" % rc, out[-2000:])
    t = gl[0].split()
    zf, zb, zd, nz = fh(t[1]), fh(t[2]), fh(t[3]), int(t[4])
    rf, rb, rd_, nr = fh(t[5]), fh(t[6]), fh(t[7]), int(t[8])
    vals = [fh(x) for x in t[9:]]
    nodes = [(vals[2 * i], vals[2 * i + 1]) for i in range(len(vals) // 2)]
    if len(nodes) != nz * nr:
        raise vlib.BuildError("rzmap harness: %d nodes for a %dx%d grid" % (len(nodes), nz, nr), gl[0][:300])
    zs = [zf + zd * i for i in range(nz)]
    rs = [rf + rd_ * i for i in range(nr)]
    n = 600 if quick else 10000
    pts = []
    for _ in range(n):
        c = r.random()
        if c < 0.25:      # exactly on a node / on a grid line, +-1 ulp (y = 0: r = |x| exactly)
            z = ulp(r.choice(zs), r.choice([-1, 0, 0, 1]))
            x = ulp(r.choice(rs), r.choice([-1, 0, 0, 1])) * r.choice([-1, 1])
            pts.append((x, 0.0, z) if r.random() < 0.5 else (0.0, x, z))
        elif c < 0.35:    # on the axis, edges of the map
            pts.append((0.0, 0.0, r.choice([zf, zb, ulp(zb, 1), ulp(zf, -1), r.uniform(zf, zb)])))
        elif c < 0.45:    # outer radius / outside
            rr = r.choice([rb, ulp(rb, 1), ulp(rb, -1), rb * 1.5])
            pts.append((rr, 0.0, r.uniform(zf, zb)))
        else:
            rr = r.uniform(rf, rb) * r.choice([1.0, 1.0, 1e-3, 1.2])
            ph = r.uniform(0, 2 * math.pi)
            pts.append((rr * math.cos(ph), rr * math.sin(ph), r.uniform(zf, zb) * r.choice([1.0, 1.0, 1.1])))
    rc, out = ctx.run_harness(exe, [geodir, fmap], input="\n".join("R %s %s %s" % tuple(hx(v) for v in p) for p in pts) + "\n")
    lines = [l for l in out.splitlines() if l.startswith("R ")]
    if rc != 0 or len(lines) != n:
        raise vlib.BuildError("rzmap harness failed rc=%d (%d/%d)" % (rc, len(lines), n), out[-2000:])
    fm = "[" + "; ".join("(%s, %s)" % (hexf(a), hexf(b)) for a, b in nodes) + "]"
    chunk = 100
    exprs = ["run_rzmap [%s; %s; %s] %d [%s; %s; %s] %d %s [%s]" % (
        hexf(zf), hexf(zb), hexf(zd), nz, hexf(rf), hexf(rb), hexf(rd_), nr, fm,
        "; ".join("(%s, %s, %s)" % tuple(hexf(v) for v in p) for p in pts[i:i + chunk])) for i in range(0, n, chunk)]
    mv = [v for part in ctx.coq_eval("rzmap", PRE, exprs, chunk=1) for v in part]
    bmax = max(max(abs(a), abs(b)) for a, b in nodes)
    nd = 0
    for p, l, m in zip(pts, lines, mv):
        impl = [fh(x) for x in l.split()[1:4]]
        ctx.case(["rzmap", p], nontrivial=True)
        x, y, z = p
        rr = math.sqrt(x * x + y * y)
        inside = zf <= z <= zb and rf <= rr <= rb
        ctx.count("rzmap:%s" % ("inside" if inside else "outside"))
        # generic points whose radius is within 1e-9 of a grid line: the bin of r is a rounding
        # knife-edge of sqrt(x*x + y*y) (the on-line cases have y = 0 or x = 0, where r is exact)
        if x != 0 and y != 0 and any(abs(rr - g) <= 1e-9 * rb for g in rs):
            ctx.count("rzmap:knife-edge-radius-skipped")
            continue
        # property oracle
        pv = None
        if not inside:
            if impl != [0.0, 0.0, 0.0]:
                pv = "outside the map but B = %r" % (impl,)
        else:
            iz = min(int((z - zf) / zd), nz - 2)
            ir = min(int((rr - rf) / rd_), nr - 2)
            lo, hi = nodes[iz * nr + ir][0], nodes[(iz + 1) * nr + ir][0]
            if not (min(lo, hi) - 1e-12 * bmax <= impl[2] <= max(lo, hi) + 1e-12 * bmax):
                pv = "B_z = %r is not between the neighbouring node values %r, %r" % (impl[2], lo, hi)
            lo, hi = nodes[iz * nr + ir][1], nodes[iz * nr + ir + 1][1]
            if rr > 0:
                br = (impl[0] * x + impl[1] * y) / rr
                if not (min(lo, hi) - 1e-9 * bmax <= br <= max(lo, hi) + 1e-9 * bmax):
                    pv = "B_r = %r is not between the neighbouring node values %r, %r" % (br, lo, hi)
                if abs(impl[0] * y - impl[1] * x) > 1e-9 * bmax * rr:
                    pv = "the transverse field is not radial"
            if z in zs and rr in rs and zs.index(z) < nz - 1 and rs.index(rr) < nr - 1 and rr > 0:
                nzv, nrv = nodes[zs.index(z) * nr + rs.index(rr)]
                if abs(impl[2] - nzv) > 1e-12 * bmax or abs((impl[0] * x + impl[1] * y) / rr - nrv) > 1e-9 * bmax:
                    pv = "at the node (%r, %r): B = %r, node values %r" % (z, rr, impl, (nzv, nrv))
                ctx.count("rzmap:exactly-on-node")
        if pv:
            found = True
            nd += 1
            ctx.violation("property", "RZMapField: " + pv, {"pos": p, "impl": impl})
        if not all(abs(a - b) <= 1e-12 * bmax for a, b in zip(impl, m)):
            nd += 1
            ctx.violation("correspondence", "RZMap.v and RZMapField.hh differ at %r: model %r impl %r" % (p, list(m), impl),
                          {"pos": p, "impl": impl, "model": list(m)}, no_input=True)
        if nd > 5:
            break
    return found
