"""C08 — numerical integrators: translator (translators/steppers.py ->
coq/Generated/C08_steppers.v) + differential of the float model against the REAL
RungeKuttaStepper / DormandPrinceStepper / MagFieldEquation templates
(harness/steppers.cc) + property oracles on the implementation's outputs
(straight line for zero curvature, analytic helix within the method's order for
a uniform field, dp/ds . p = 0, charge sign of the Lorentz coefficient)."""
import math
import os
import random
import sys

import vlib
from vlib import hexf

HERE = os.path.dirname(os.path.abspath(__file__))
sys.path.insert(0, os.path.join(vlib.VERIF, "translators"))
import steppers as tr  # noqa: E402
import e2e  # noqa: E402
from e2e import fh, hx, norm, unit, cross, helix  # noqa: E402

GEN = os.path.join(vlib.COQDIR, "Generated", "C08_steppers.v")
PRE = ("From Coq Require Import ZArith List Floats.\n"
       "From Celer Require Import Base.Num Base.NumF Base.Vec3 C08.Run C08.RunSteppers.\n"
       "Import ListNotations.\nOpen Scope float_scope.\n")
COEFF = e2e.COEFF


def regenerate(ctx):
    """translate the current sources; returns an error string or None"""
    try:
        text, names = tr.translate(vlib.REPO)
    except tr.TieError as ex:
        return str(ex)
    changed = tr.write_if_changed(GEN, text)
    ctx.log("translators/steppers.py: %d constants, %s" % (len(names), "REWRITTEN" if changed else "unchanged"))
    return None


def dot(a, b):
    return sum(x * y for x, y in zip(a, b))


def gen_cases(r, n):
    cases = []
    for i in range(n):
        kind = i % 2
        c = r.random()
        q = r.choice([-1.0, 1.0, 1.0, -1.0, 2.0])
        if c < 0.06:
            q = 0.0
        bmag = 10 ** r.uniform(1, 6)
        pm = 10 ** r.uniform(-3, 4)
        rad = pm / (COEFF * abs(q if q else 1.0) * bmag)
        b0 = [bmag * x for x in unit(r)]
        c = r.random()
        if c < 0.08:
            b0 = [0.0, 0.0, 0.0]
        elif c < 0.2:
            b0 = [0.0, 0.0, bmag * r.choice([-1, 1])]
        x = r.choice([1e-6, 1e-3, 0.01, 0.03, 0.1, 0.2, 0.3, 0.5, 1.0, 3.0, 10 ** r.uniform(-3, 0.5)])
        step = rad * x
        pos = [r.uniform(-1, 1) * rad * 10 ** r.uniform(-2, 1) for _ in range(3)]
        if r.random() < 0.05:
            pos = [0.0, 0.0, 0.0]
        mom = [pm * u for u in unit(r)]
        if r.random() < 0.05:       # momentum along an axis / along the field
            mom = [0.0, 0.0, 0.0]
            mom[r.randrange(3)] = pm * r.choice([-1, 1])
        if r.random() < 0.5:
            field = b0
        else:
            g = [[bmag / rad * 0.3 * r.uniform(-1, 1) for _ in range(3)] for _ in range(3)]
            field = b0 + g[0] + g[1] + g[2]
        cases.append(dict(kind=kind, q=q, field=field, step=step, st=pos + mom, x=x, rad=rad, pm=pm))
    return cases


def s_line(c):
    return "S %d %s %d %s %s %s" % (c["kind"], hx(c["q"]), len(c["field"]), " ".join(hx(v) for v in c["field"]),
                                    hx(c["step"]), " ".join(hx(v) for v in c["st"]))


def q_line(c):
    return "Q %s %d %s %s" % (hx(c["q"]), len(c["field"]), " ".join(hx(v) for v in c["field"]),
                              " ".join(hx(v) for v in c["st"]))


def fl(xs):
    return "[" + "; ".join(hexf(v) for v in xs) + "]"


STATS = {"corr": 0.0, "helix_pos": 0.0, "helix_dir": 0.0, "pmag": 0.0, "straight": 0.0}


def oracle(c, impl, coeff):
    """property oracle on the implementation's mid(6) end(6) err(6)"""
    pos, mom = c["st"][:3], c["st"][3:]
    pm, step = c["pm"], c["step"]
    d = [v / pm for v in mom]
    sc_p = max(abs(v) for v in pos + [step])
    mid, end, err = impl[0:6], impl[6:12], impl[12:18]
    uniform = len(c["field"]) == 3
    bn = norm(c["field"][:3]) if uniform else None
    if c["q"] == 0 or (uniform and bn == 0):
        # zero curvature: the exact straight line, unchanged momentum, zero error estimate
        for name, st, s in (("mid", mid, step / 2), ("end", end, step)):
            ex = [p + s * u for p, u in zip(pos, d)]
            STATS["straight"] = max([STATS["straight"]] + [abs(a - b) / (1e-13 * sc_p) for a, b in zip(st[:3], ex)])
            if any(abs(a - b) > 1e-13 * sc_p for a, b in zip(st[:3], ex)):
                return "zero curvature: %s position %r is not the straight-line point %r" % (name, st[:3], ex)
            if any(abs(a - b) > 1e-13 * pm for a, b in zip(st[3:], mom)):
                return "zero curvature: %s momentum %r changed from %r" % (name, st[3:], mom)
        if any(abs(a) > 1e-13 * sc_p for a in err[:3]) or any(abs(a) > 1e-13 * pm for a in err[3:]):
            return "zero curvature: error estimate %r is not zero" % (err,)
        return None
    if uniform and c["x"] <= 0.5:
        x = c["x"]
        k = c["q"] * coeff
        for name, st, s, tol in (("mid", mid, step / 2, x ** 3 / 10), ("end", end, step, x ** 4 / 10)):
            hp, hd = helix(pos, d, c["field"], k, pm, s)
            e = norm([a - b for a, b in zip(st[:3], hp)])
            STATS["helix_pos"] = max(STATS["helix_pos"], e / (step * tol + 1e-12 * sc_p))
            if e > step * tol + 1e-12 * sc_p:
                return "%s position is %.3g from the analytic helix (allowed %.3g = step * (step/R)^%d / 10) for step/R = %g" % (
                    name, e, step * tol, 3 if name == "mid" else 4, x)
            e = norm([a / pm - b for a, b in zip(st[3:], hd)])
            STATS["helix_dir"] = max(STATS["helix_dir"], e / (tol + 1e-12))
            if e > tol + 1e-12:
                return "%s direction is %.3g from the analytic helix (allowed %.3g) for step/R = %g" % (name, e, tol, x)
        STATS["pmag"] = max(STATS["pmag"], abs(norm(end[3:]) - pm) / (pm * (x ** 4 / 10 + 1e-12)))
        if abs(norm(end[3:]) - pm) > pm * (x ** 4 / 10 + 1e-12):
            return "|p| changed by %.3g (relative) over one step with step/R = %g" % (abs(norm(end[3:]) - pm) / pm, x)
    return None


def run(ctx, exe):
    """returns True when a concrete failing input was reported"""
    quick = ctx.tier == "quick"
    found = False
    r = random.Random(ctx.seed * 104729 + 17)
    n = 400 if quick else 6000
    cases = gen_cases(r, n)
    inp = "K\n" + "\n".join(s_line(c) for c in cases) + "\n" + "\n".join(q_line(c) for c in cases) + "\n"
    rc, out = ctx.run_harness(exe, input=inp)
    lines = out.strip().splitlines()
    if rc != 0 or len(lines) != 1 + 2 * n:
        raise vlib.BuildError("stepper harness failed rc=%d (%d lines)" % (rc, len(lines)), out[-2000:])
    kt = [fh(t) for t in lines[0].split()[1:]]
    e_nat, mevc_nat, cp, cm, c2 = kt
    # ---- Lorentz coefficient: model and charge-sign oracle ---------------
    mco = ctx.coq_eval("coeffi", PRE, ["run_coeffi %s %s %s" % (hexf(e_nat), hexf(mevc_nat), hexf(qq))
                                       for qq in (1.0, -1.0, 2.0)])
    for qq, a, b in zip((1.0, -1.0, 2.0), (cp, cm, c2), mco):
        ctx.case(["coeffi", qq], nontrivial=True)
        if not (abs(a - b) <= 1e-14 * abs(a)):
            ctx.violation("correspondence", "mfe_coeffi and MagFieldEquation's coefficient differ for charge %r: model %r impl %r" % (qq, b, a),
                          {"charge": qq, "impl": a, "model": b}, no_input=True)
    if not (cp > 0 and cm == -cp and abs(c2 - 2 * cp) <= 1e-15 * cp):
        found = True
        ctx.violation("property", "Lorentz coefficient does not carry the charge: coeffi(+1)=%r coeffi(-1)=%r coeffi(2)=%r" % (cp, cm, c2),
                      {"coeffi": [cp, cm, c2]})
    coeff = cp
    # ---- steppers -----------------------------------------------------------
    exprs = ["run_stepper %d %s %s %s %s" % (c["kind"], hexf(c["q"] * coeff), fl(c["field"]), hexf(c["step"]), fl(c["st"]))
             for c in cases]
    exprs += ["run_rhs %s %s %s" % (hexf(c["q"] * coeff), fl(c["field"]), fl(c["st"])) for c in cases]
    mv = ctx.coq_eval("steppers", PRE, exprs, chunk=max(25, -(-len(exprs) // 8)))
    nd = 0
    worst = {"end": 0.0, "mid": 0.0}
    for c, line, m in zip(cases, lines[1:1 + n], mv[:n]):
        impl = [fh(t) for t in line.split()[1:]]
        ctx.case(["S", c["kind"], c["q"], c["field"], c["step"], c["st"]], nontrivial=True)
        ctx.count("stepper:%s:%s" % ("rk4" if c["kind"] == 0 else "dormand-prince",
                                     "neutral" if c["q"] == 0 else "zero-field" if not any(c["field"]) else
                                     "uniform" if len(c["field"]) == 3 else "linear-field"))
        ctx.sample({"kind": "stepper", "stepper": c["kind"], "step_over_R": c["x"], "impl_err": impl[12:18]}, limit=2)
        pv = oracle(c, impl, coeff)
        if pv:
            found = True
            nd += 1
            ctx.violation("property", ("RungeKuttaStepper: " if c["kind"] == 0 else "DormandPrinceStepper: ") + pv,
                          {"case": c, "impl": impl, "harness_line": s_line(c)})
        model = list(m[0]) + list(m[1]) + list(m[2])
        sc_p = max(abs(v) for v in c["st"][:3] + [c["step"]])
        ok = True
        for off in (0, 6, 12):
            STATS["corr"] = max([STATS["corr"]] + [abs(a - b) / (1e-12 * sc_p) for a, b in zip(impl[off:off + 3], model[off:off + 3])]
                                + [abs(a - b) / (1e-12 * c["pm"]) for a, b in zip(impl[off + 3:off + 6], model[off + 3:off + 6])])
            ok = ok and all(abs(a - b) <= 1e-12 * sc_p for a, b in zip(impl[off:off + 3], model[off:off + 3]))
            ok = ok and all(abs(a - b) <= 1e-12 * c["pm"] for a, b in zip(impl[off + 3:off + 6], model[off + 3:off + 6]))
        if not ok:
            nd += 1
            ctx.violation("correspondence", "Generated/C08_steppers.v (+ Steppers.v) and the %s template differ"
                          % ("RungeKuttaStepper" if c["kind"] == 0 else "DormandPrinceStepper"),
                          {"case": c, "impl": impl, "model": model, "harness_line": s_line(c)}, no_input=True)
        if nd > 4:
            break
    # ---- right-hand side -----------------------------------------------------
    nd = 0
    for c, line, m in zip(cases, lines[1 + n:], mv[n:]):
        impl = [fh(t) for t in line.split()[1:]]
        ctx.case(["Q", c["q"], c["field"], c["st"]], nontrivial=True)
        mom = c["st"][3:]
        # property oracle: |dx/ds| = 1 and dp/ds . p = 0
        nm = norm(impl[3:])
        if abs(norm(impl[:3]) - 1) > 1e-14 or abs(dot(impl[3:], mom)) > 1e-13 * nm * c["pm"]:
            found = True
            nd += 1
            ctx.violation("property", "MagFieldEquation: |dx/ds| = %r, (dp/ds . p)/(|dp/ds||p|) = %r"
                          % (norm(impl[:3]), dot(impl[3:], mom) / max(nm * c["pm"], 1e-300)),
                          {"case": c, "impl": impl, "harness_line": q_line(c)})
        sc = max([abs(v) for v in m[3:]] + [abs(v) for v in impl[3:]] + [1e-300])
        if not (all(abs(a - b) <= 1e-14 for a, b in zip(impl[:3], m[:3]))
                and all(abs(a - b) <= 1e-12 * sc for a, b in zip(impl[3:], m[3:]))):
            nd += 1
            ctx.violation("correspondence", "mfe_rhs (Steppers.v/Helix.v) and MagFieldEquation::operator() differ",
                          {"case": c, "impl": impl, "model": list(m), "harness_line": q_line(c)}, no_input=True)
        if nd > 4:
            break
    ctx.log("integrators: worst observed/allowed ratios: " + ", ".join("%s=%.3g" % kv for kv in sorted(STATS.items())))
    ctx.coverage["integrator_margins"] = dict(STATS)
    return found
