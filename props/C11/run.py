"""C11 — the reported safety distance is conservative.

proofs (Properties_C11.v) + differential of the float model (coq/C11/Run.v:
find_safety over the dumped (flag, faces, local position) of every level)
against the real OrangeTrackView::find_safety on generated multi-level
geometries (orangeinp API) + the property oracle: safety <= distance to the
next boundary over 256+ directions, and the safety sphere stays in the volume."""
import math, os, sys
import vlib
from vlib import hexf

HERE = os.path.dirname(os.path.abspath(__file__))
PRE = ("From Coq Require Import ZArith List Floats.\n"
       "From Celer Require Import Base.Num Base.NumF Base.Vec3 C12.Solver C12.Surfaces C11.Safety C11.Run.\n"
       "Import ListNotations.\nOpen Scope float_scope.\n")
INF = float("inf")
AXN = {"x": 0, "y": 1, "z": 2}
AXC = ["AX", "AY", "AZ"]
F4_SIG = "safety-inf-where-normal-nan"
SHIPPED = ["rect-array", "nested-rect-arrays", "universes", "inputbuilder-universes", "inputbuilder-hierarchy",
           "inputbuilder-bgspheres", "inputbuilder-globalspheres", "five-volumes", "hex-array", "testem3"]


def hx(xs):
    return " ".join(float(x).hex() for x in xs)


def pf(tok):
    return float(tok) if tok in ("nan", "inf", "-inf") else float.fromhex(tok)


def v3(v):
    return "(V3 %s %s %s)" % tuple(hexf(x) for x in v)


def coq_surf(ty, d):
    h = [hexf(x) for x in d]
    if ty in ("px", "py", "pz"):
        return "(SPlaneAligned %s %s)" % (AXC[AXN[ty[1]]], h[0])
    if ty in ("cxc", "cyc", "czc"):
        return "(SCylCentered %s %s)" % (AXC[AXN[ty[1]]], h[0])
    if ty == "sc":
        return "(SSphereCentered %s)" % h[0]
    if ty in ("cx", "cy", "cz"):
        return "(SCylAligned %s %s %s %s)" % (AXC[AXN[ty[1]]], h[0], h[1], h[2])
    if ty == "p":
        return "(SPlane %s %s)" % (v3(d[:3]), h[3])
    if ty == "s":
        return "(SSphere %s %s)" % (v3(d[:3]), h[3])
    if ty in ("kx", "ky", "kz"):
        return "(SConeAligned %s %s %s)" % (AXC[AXN[ty[1]]], v3(d[:3]), h[3])
    if ty == "sq":
        return "(SSimpleQuadric %s %s %s)" % (v3(d[:3]), v3(d[3:6]), h[6])
    if ty == "gq":
        return "(SGeneralQuadric %s %s %s %s)" % (v3(d[:3]), v3(d[3:6]), v3(d[6:9]), h[9])
    raise ValueError(ty)


# ---------------------------------------------------------------------------
# geometry generator

def unit3(r):
    while True:
        v = [r.gauss(0, 1) for _ in range(3)]
        n = math.sqrt(sum(x * x for x in v))
        if n > 1e-3:
            return [x / n for x in v]


def rnd_rotation(r, reflect=False):
    ax = unit3(r)
    th = r.choice([r.uniform(0, math.pi), math.pi / 2, math.pi / 4])
    c, s = math.cos(th), math.sin(th)
    X, Y, Z = ax
    R = [[c + X * X * (1 - c), X * Y * (1 - c) - Z * s, X * Z * (1 - c) + Y * s],
         [X * Y * (1 - c) + Z * s, c + Y * Y * (1 - c), Y * Z * (1 - c) - X * s],
         [X * Z * (1 - c) - Y * s, Y * Z * (1 - c) + X * s, c + Z * Z * (1 - c)]]
    if reflect:
        R[0] = [-x for x in R[0]]
    return R


def axis_rotation(r):
    perm = [0, 1, 2]; r.shuffle(perm)
    M = [[0.0] * 3 for _ in range(3)]
    sg = [r.choice([1.0, -1.0]) for _ in range(3)]
    for i in range(3):
        M[i][perm[i]] = sg[i]
    return M


def gen_shape(r, rho, kinds):
    """a shape that fits in a ball of radius rho around its own origin"""
    k = r.choice(kinds)
    f = r.uniform(0.35, 0.95)
    if k == "sph":
        return ["sph", rho * f]
    if k == "box":
        h = [rho * f * r.uniform(0.3, 0.57) for _ in range(3)]
        return ["box"] + h
    if k == "cyl":
        rr = rho * f * r.uniform(0.3, 0.65); hh = rho * f * r.uniform(0.3, 0.7)
        return ["cyl", rr, hh]
    if k == "cone":
        hh = rho * f * 0.6
        return ["cone", rho * f * r.uniform(0.05, 0.3), rho * f * r.uniform(0.35, 0.6), hh]
    if k == "ell":
        return ["ell"] + [rho * f * r.uniform(0.3, 0.9) for _ in range(3)]
    raise ValueError(k)


def gen_transform(r, centre):
    c = r.random()
    if c < 0.55:
        return ["tr"] + list(centre), None
    R = rnd_rotation(r, reflect=r.random() < 0.15) if c < 0.85 else axis_rotation(r)
    return ["tf"] + [x for row in R for x in row] + list(centre), R


def tr_txt(t):
    return t[0] + (" " + hx(t[1:]) if len(t) > 1 else "")


def shape_txt(s):
    return s[0] + " " + hx(s[1:])


class Gen:
    def __init__(self, r):
        self.r = r
        self.units = []        # text blocks
        self.points = []       # interesting global points

    def make_unit(self, size, depth, frames, boundary_kinds=("sph", "box", "cyl")):
        """define a unit whose boundary fits in radius `size`; frames = list of (R, t) mapping local->global for each placement chain"""
        r = self.r
        bshape = gen_shape(r, size / 0.95, boundary_kinds)
        bshape = [bshape[0]] + [x for x in bshape[1:]]
        # usable inner half-width
        if bshape[0] == "sph":
            inner = bshape[1] / math.sqrt(3) * 0.98
        elif bshape[0] == "box":
            inner = min(bshape[1:]) * 0.98
        else:
            inner = min(bshape[1] / math.sqrt(2), bshape[2]) * 0.98
        ncell = r.choice([2, 3])
        g = 2 * inner / ncell
        cells = [(i, j, k) for i in range(ncell) for j in range(ncell) for k in range(ncell)]
        r.shuffle(cells)
        nch = r.randint(1, min(5, len(cells)))
        lines = []
        for ci in range(nch):
            i, j, k = cells[ci]
            centre = [-inner + g * (i + 0.5), -inner + g * (j + 0.5), -inner + g * (k + 0.5)]
            if r.random() < 0.3:
                centre = [float(round(x * 4)) / 4 if abs(round(x * 4) / 4 - x) < g * 0.05 else x for x in centre]
            rho = g / 2 * 0.92
            tr, R = gen_transform(r, centre)
            child_frames = [compose(fr, (R, centre)) for fr in frames]
            if depth < 2 and r.random() < 0.35:
                idx = self.make_unit(rho, depth + 1, child_frames)
                lines.append("dau %d %s" % (idx, tr_txt(tr)))
            else:
                kinds = ["sph", "sph", "box", "box", "cyl"] + (["cone", "ell"] if rho > 0.4 else [])
                shp = gen_shape(r, rho, kinds)
                lines.append("mat %s %s" % (shape_txt(shp), tr_txt(tr)))
                for fr in child_frames:
                    self.add_points_for(shp, fr, rho)
        for fr in frames:
            self.add_points_for(bshape, fr, size)
            for _ in range(6):
                self.points.append(apply_frame(fr, [r.uniform(-1, 1) * inner for _ in range(3)]))
        zo = r.choice(["m", "e"]) if depth > 0 else "m"
        label = "u%d" % len(self.units)
        self.units.append("unit %s %s 1 %s %d\n%s" % (label, zo, shape_txt(bshape), len(lines), "\n".join(lines)))
        return len(self.units) - 1

    def add_points_for(self, shp, fr, rho):
        r = self.r
        c = apply_frame(fr, [0.0, 0.0, 0.0])
        self.points.append(c)
        # +- 1 ulp around the centre, per coordinate
        q = list(c); a = r.randrange(3)
        q[a] = math.nextafter(q[a], r.choice([-INF, INF])); self.points.append(q)
        q = [math.nextafter(x, r.choice([-INF, INF])) for x in c]; self.points.append(q)
        # tiny offsets (denormal-size and sqrt-underflow-size)
        q = list(c); q[r.randrange(3)] += r.choice([1e-300, 1e-170, 1e-160, 1e-17, 1e-9]); self.points.append(q)
        # on the local axes
        for _ in range(2):
            l = [0.0, 0.0, 0.0]; l[r.randrange(3)] = r.uniform(-1, 1) * rho * 0.5
            self.points.append(apply_frame(fr, l))
        # generic near points
        for _ in range(3):
            self.points.append(apply_frame(fr, [r.uniform(-1, 1) * rho for _ in range(3)]))


def compose(fr, child):
    """fr: (R, t) local->global of the parent; child = (Rc, tc) child-local -> parent-local"""
    R, t = fr
    Rc, tc = child
    if Rc is None:
        Rc = [[1.0, 0, 0], [0, 1.0, 0], [0, 0, 1.0]]
    Rn = [[sum(R[i][k] * Rc[k][j] for k in range(3)) for j in range(3)] for i in range(3)]
    tn = [sum(R[i][k] * tc[k] for k in range(3)) + t[i] for i in range(3)]
    return (Rn, tn)


def apply_frame(fr, p):
    R, t = fr
    if all(x == 0 for x in p):
        return list(t)
    return [sum(R[i][k] * p[k] for k in range(3)) + t[i] for i in range(3)]


IDENT = ([[1.0, 0, 0], [0, 1.0, 0], [0, 0, 1.0]], [0.0, 0.0, 0.0])


def gen_geometry(r, npts):
    g = Gen(r)
    W = r.choice([10.0, 10.0, 3.0, 100.0])
    g.make_unit(W, 0, [IDENT], boundary_kinds=("sph", "box"))
    pts = g.points
    r.shuffle(pts)
    pts = pts[:npts]
    txt = "geom %d\n%s\n" % (len(g.units), "\n".join(g.units))
    return txt, pts


def corpus_geometry():
    """the design-phase witness of F4: world sphere r=10 with an inner sphere r=2, point at the centre"""
    txt = "geom 1\nunit world m 1 sph %s 1\nmat sph %s none\n" % (float(10).hex(), float(2).hex())
    return txt, [[0.0, 0.0, 0.0], [1e-300, 0.0, 0.0], [0.0, 1.0, 0.0]]


# ---------------------------------------------------------------------------

def parse_pt(line):
    tok = line.split()
    if tok[0] != "pt" or tok[1] != "ok":
        return None
    safety = pf(tok[2]); best = pf(tok[3]); bd = [pf(t) for t in tok[4:7]]
    i = 7
    nlev = int(tok[i]); i += 1
    levels = []
    for _ in range(nlev):
        univ = int(tok[i]); vol = int(tok[i + 1]); flag = int(tok[i + 2]); i += 3
        pos = [pf(t) for t in tok[i:i + 3]]; i += 3
        nf = int(tok[i]); i += 1
        faces = []
        for _ in range(nf):
            ty = tok[i]; n = int(tok[i + 1]); i += 2
            faces.append((ty, [pf(t) for t in tok[i:i + n]])); i += n
        levels.append({"universe": univ, "volume": vol, "flag": flag, "pos": pos, "faces": faces})
    nbad = int(tok[i]); badp = [pf(t) for t in tok[i + 1:i + 4]]; i += 4
    nr = int(tok[i]); i += 1
    radii = [(pf(tok[i + 2 * k]), pf(tok[i + 2 * k + 1])) for k in range(nr)]; i += 2 * nr
    nl = int(tok[i]); i += 1
    lsafe = [pf(t) for t in tok[i:i + nl]]; i += nl
    moved = None
    if i < len(tok) and tok[i] == "mv" and tok[i + 1] == "1":
        v = [pf(t) for t in tok[i + 2:i + 2 + 15]]
        moved = {"dir": v[0:3], "step": v[3], "reached": v[4:7], "after_move_dist": v[7], "after_move_dist_maxstep": v[8],
                 "after_move_pos": v[9], "after_move_pos_maxstep": v[10], "fresh": v[11], "min_next_step": v[12],
                 "local_pos_dev_dist": v[13], "local_pos_dev_pos": v[14],
                 "same_path_dist": int(tok[i + 17]), "same_path_pos": int(tok[i + 18]), "nbad": int(tok[i + 19]),
                 "badp": [pf(t) for t in tok[i + 20:i + 23]], "levels": int(tok[i + 23])}
    bounced = None
    j = i
    if moved is not None:
        j = i + 24
    elif i < len(tok) and tok[i] == "mv":
        j = i + 2
    if j < len(tok) and tok[j] == "bn" and tok[j + 1] == "1":
        v = [pf(t) for t in tok[j + 2:j + 2 + 15]]
        bounced = {"dir": v[0:3], "step": v[3], "reached": v[4:7], "after_move_dist": v[7], "after_move_dist_maxstep": v[8],
                   "after_move_pos": v[9], "after_move_pos_maxstep": v[10], "fresh": v[11], "min_next_step": v[12],
                   "local_pos_dev_dist": v[13], "local_pos_dev_pos": v[14],
                   "same_path_dist": int(tok[j + 17]), "same_path_pos": int(tok[j + 18]), "nbad": int(tok[j + 19]),
                   "badp": [pf(t) for t in tok[j + 20:j + 23]], "levels": int(tok[j + 23]),
                   "levels_before": int(tok[j + 24]), "distance_to_boundary": pf(tok[j + 25])}
    return {"moved": moved, "bounced": bounced, "safety": safety, "minstep": best, "mindir": bd, "levels": levels, "nbad": nbad, "badp": badp,
            "with_max_step": radii, "level_safety": lsafe}


def nan_normal_faces(levels):
    """faces whose calc_normal is NaN at the level's local position (centre of a sphere, axis of a centred cylinder)"""
    out = []
    for li, lv in enumerate(levels):
        if lv["flag"] != 1:
            continue
        p = lv["pos"]
        for ty, d in lv["faces"]:
            if ty == "sc":
                w = p
            elif ty == "s":
                w = [p[k] - d[k] for k in range(3)]
            elif ty in ("cxc", "cyc", "czc"):
                t = AXN[ty[1]]; w = [0.0 if k == t else p[k] for k in range(3)]
            else:
                continue
            # |w|^2 is zero (exactly, or by underflow): 1/|w| = inf and the
            # "unit normal" has NaN (0*inf) or infinite components
            dot = w[0] * w[0] + w[1] * w[1] + w[2] * w[2]
            if dot == 0.0:
                out.append((li, ty, d))
    return out


# ---------------------------------------------------------------------------
# the MSC users of the safety: fragments extracted from the source tree at run time

MSC_DIR = os.path.join("src", "celeritas", "em", "msc")
FRAGS = [
    # (placeholder, file, regex with one group = the statements)
    ("@FRAG1@", os.path.join(MSC_DIR, "detail", "UrbanMscScatter.hh"),
     r"\n(    if \(is_displaced_\)\n    \{\n.*?\n    \})\n\n    // Calculate direction and return"),
    ("@FRAG2@", os.path.join(MSC_DIR, "UrbanMsc.hh"),
     r"auto msc_result = \[&\] \{\n(        real_type safety = 0;\n.*?)\n\s*auto mat = track\.make_material_view"),
    ("@FRAG3@", os.path.join(MSC_DIR, "detail", "UrbanMscSafetyStepLimit.hh"),
     r"\n(    limit_min_ = msc_range\.limit_min;\n.*?\n    limit_ = max<real_type>\(limit_, limit_min_\);)\n"),
    ("@FRAG4@", os.path.join(MSC_DIR, "detail", "UrbanMscSafetyStepLimit.hh"),
     r"UrbanMscSafetyStepLimit::operator\(\)\(Engine& rng\)\n\{\n(.*?)\n\}\n"),
]


def check_msc(ctx, n):
    """Differential of C11/Msc.v against the safety-dependent statements of UrbanMsc::apply_step,
    UrbanMscScatter::operator() and UrbanMscSafetyStepLimit (extracted from $VERIF_REPO/src at run time and
    compiled against the real headers) + the real static UrbanMscScatter::calc_displacement;
    oracle: the displacement applied never exceeds (1 - safety_tol) * safety, and the bound handed to
    find_safety(max_step) is large enough for that comparison."""
    import re
    r = ctx.rng
    tpl = open(os.path.join(HERE, "harness", "msc_frag.cc.in")).read()
    for ph, rel, rx in FRAGS:
        path = os.path.join(vlib.REPO, rel)
        try:
            txt = open(path).read()
        except OSError:
            txt = ""
        m = re.search(rx, txt, re.S)
        if not m:
            ctx.violation("tie-broken", "cannot find the modelled statements in %s (source shape changed): the model C11/Msc.v "
                          "has to be re-validated against the new code" % rel, {"file": rel, "pattern": rx}, no_input=True)
            return False
        tpl = tpl.replace(ph, m.group(1))
    src = os.path.join(ctx.work, "msc_frag.cc")
    with open(src, "w") as f:
        f.write(tpl)
    try:
        exe = ctx.compile_harness([src], "msc_frag", libs=["corecel"])
    except vlib.BuildError as e:
        ctx.violation("tie-broken", "the extracted MSC statements no longer compile in the harness context "
                      "(props/C11/harness/msc_frag.cc.in): %s" % str(e)[:300], {"source": src}, no_input=True)
        return False
    MM = 0.1   # units::millimeter in CGS
    cases = []
    for i in range(n):
        tol = r.choice([0.01, 0.01, 0.01, 0.05, 1e-3, 0.5])
        glim = r.choice([5e-8 * MM, 5e-8 * MM, 0.0, 1e-6])
        tru = 10 ** r.uniform(-8, 1)
        geom = tru * r.choice([1.0, 1 - 1e-12, 0.999, 0.9, 0.5, r.uniform(0.1, 1)])
        cd = 0.73 * math.sqrt(max(0.0, (tru - geom) * (tru + geom)))
        # safety around the three regimes: far larger than / comparable with / smaller than the displacement, zero, inf
        k = r.choice([0.0, 1e-3, 0.5, 0.98, 1.0 / (1 - tol) * 0.999, 1.0 / (1 - tol) * 1.001, 1.02, 2.0, 1e3, INF])
        safety = cd * k if cd > 0 and k != INF else (INF if k == INF else r.choice([0.0, 1e-9, 1e-3]))
        # displacement length right at geom_limit
        if r.random() < 0.15 and glim > 0:
            safety = glim / (1 - tol) * r.choice([0.999, 1.001])
        ud = unit3(r)
        disp = 1 if r.random() < 0.85 else 0
        cases.append(("disp", (tol, glim, disp, safety, geom, tru, ud)))
        cases.append(("query", (tol, glim, disp, geom, tru, safety)))
        cases.append(("cdisp", (geom, tru)))
        rng_ = 10 ** r.uniform(-4, 2)
        sf = r.choice([0.6, 0.6, 0.3, 1.0])
        saf = rng_ * r.choice([0.0, 1e-3, 0.1, 0.5, 0.999, 1.001, 2.0])
        rf = r.choice([0.04, 0.04, 0.2, 0.02]); ri = rng_ * r.choice([1.0, 1.0, 3.0]); lmin = r.choice([1e-9, 1e-7, rng_ * 0.05, rng_ * 0.5])
        cases.append(("limit", (saf, rng_, rf, ri, lmin, sf)))
        lim = max(max(rf * ri, sf * saf) if saf < rng_ else rng_, lmin)
        ms = lim * r.choice([0.5, 0.999, 1.001, 1.5, 10.0])
        lm2 = r.choice([lmin, lmin, lim])
        if lm2 > ms:
            lm2 = ms * 0.5
        z = r.gauss(0, 1) * r.choice([1, 1, 10, 100])
        cases.append(("sample", (ms, lim, lm2, z)))
    lines, exprs = [], []
    for cmd, a in cases:
        if cmd == "disp":
            tol, glim, disp, safety, geom, tru, ud = a
            lines.append("disp %s %d %s %s" % (hx([tol, glim]), disp, hx([safety, geom, tru]), hx(ud)))
            so = "None" if safety == INF else "(Some %s)" % hexf(safety)
            exprs.append("run_msc_disp %s %s %s %s %s %s %s" % (hexf(tol), hexf(glim), "true" if disp else "false", so, hexf(geom), hexf(tru), v3(ud)))
        elif cmd == "query":
            tol, glim, disp, geom, tru, safety = a
            lines.append("query %s %d %s" % (hx([tol, glim]), disp, hx([geom, tru, safety])))
            so = "None" if safety == INF else "(Some %s)" % hexf(safety)
            exprs.append("run_msc_query %s %s %s %s %s %s" % (hexf(tol), hexf(glim), "true" if disp else "false", hexf(geom), hexf(tru), so))
        elif cmd == "cdisp":
            lines.append("cdisp %s" % hx(a)); exprs.append("run_msc_cdisp %s %s" % tuple(hexf(x) for x in a))
        elif cmd == "limit":
            lines.append("limit %s" % hx(a)); exprs.append("run_msc_limit %s" % " ".join(hexf(x) for x in a))
        else:
            ms, lim, lm2, z = a
            sampled = lim + (0.1 * (lim - lm2)) * z
            lines.append("sample %s" % hx(a)); exprs.append("run_msc_sample %s" % " ".join(hexf(x) for x in (ms, lim, lm2, sampled)))
    rc, out = ctx.run_harness(exe, input="\n".join(lines) + "\n")
    outl = out.strip().splitlines()
    if rc != 0 or len(outl) != len(lines):
        raise vlib.BuildError("msc fragment harness failed rc=%d" % rc, out[-2000:])
    mvals = ctx.coq_eval("msc", PRE, exprs, chunk=max(50, len(exprs) // 8 + 1), timeout=600)
    found = False
    nv = 0
    def same(a, b):
        return a == b or (a != INF and b != INF and abs(a - b) <= 1e-12 * max(abs(a), abs(b)) + 1e-300)
    for (cmd, a), line, mv in zip(cases, outl, mvals):
        tok = line.split()
        ctx.count("msc:" + cmd)
        replay = {"cmd": "msc-" + cmd, "args": a, "impl": line, "model": mv}
        if tok[0] != "ok":
            ctx.violation("tie-broken", "msc fragment harness error", replay, no_input=True); nv += 1
            continue
        vals = [pf(t) if not t.isdigit() else int(t) for t in tok[1:]]
        bad = None; corr = None
        if cmd == "disp":
            tol, glim, disp, safety, geom, tru, ud = a
            flag = int(tok[1]); d = [pf(t) for t in tok[2:5]]
            dn = math.sqrt(sum(x * x for x in d))
            ctx.case(("msc-disp", a), nontrivial=bool(flag))
            if flag and safety != INF and dn > (1 - tol) * safety * (1 + 1e-12):
                bad = ("MSC displacement |d| = %.17g exceeds (1 - safety_tol) * safety = %.17g (safety %.17g, tol %g): the displaced "
                       "point can leave the safety sphere" % (dn, (1 - tol) * safety, safety, tol))
            elif not flag and any(x != 0 for x in d):
                bad = "displacement %r without the displaced action" % d
            mflag, md = mv
            if bad is None and (bool(flag) != mflag or not all(same(x, y) for x, y in zip(d, md))):
                # knife edge: length within rounding of geom_limit
                cd = 0.73 * math.sqrt(max(0.0, (tru - geom) * (tru + geom)))
                ln = min(cd, (1 - tol) * safety)
                if bool(flag) != mflag and abs(ln - glim) <= 1e-12 * glim:
                    ctx.count("msc-knife-accepted")
                else:
                    corr = "displacement"
        elif cmd == "query":
            tol, glim, disp, geom, tru, safety = a
            got_s, got_d, asked = pf(tok[1]), int(tok[2]), pf(tok[3])
            ctx.case(("msc-query", a), nontrivial=bool(disp))
            cd = 0.73 * math.sqrt(max(0.0, (tru - geom) * (tru + geom)))
            if disp:
                if not (asked >= cd / (1 - tol) * (1 - 1e-12) and asked >= glim):
                    bad = ("find_safety(max_step) is asked only up to %.17g although UrbanMscScatter compares the displacement %.17g "
                           "with (1 - %g) * safety" % (asked, cd, tol))
                elif got_s != safety or got_d != (0 if safety == 0 else 1):
                    bad = "safety query: returned safety %r / is_displaced %d for a find_safety answer %r" % (got_s, got_d, safety)
            elif got_s != 0 or got_d != 0 or asked != -1:
                bad = "safety queried / used although the step is not displaced"
            mb, mdisp = mv
            if bad is None and ((disp and not same(mb, asked)) or bool(got_d) != mdisp):
                corr = "safety query"
        else:
            ctx.case(("msc-" + cmd, a), nontrivial=True)
            got = pf(tok[1])
            if cmd == "limit":
                saf, rng_, rf, ri, lmin, sf = a
                if got < lmin or (saf < rng_ and got < sf * saf):
                    bad = "step limit %.17g below limit_min %.17g or safety_factor * safety %.17g" % (got, lmin, sf * saf)
            if cmd == "sample":
                ms, lim, lm2, z = a
                if not (min(lm2, ms) <= got <= ms):
                    bad = "sampled MSC step %.17g outside [limit_min %.17g, max_step %.17g]" % (got, lm2, ms)
            if bad is None and not same(got, mv):
                corr = cmd
        if bad:
            ctx.violation("oracle", bad, replay); found = True; nv += 1
        elif corr:
            ctx.violation("correspondence", "C11/Msc.v and the extracted MSC code differ in %s" % corr, replay, no_input=True); nv += 1
        if nv > 6:
            break
    return found


def run(ctx):
    quick = ctx.tier == "quick"
    ngeo = int(os.environ.get("VERIF_C11_NGEO", 0)) or (400 if quick else 3000)
    npts = 40
    ctx.trusted += [
        "hand-written model coq/C11/Safety.v (+ C12 surface model) tied by differential testing against OrangeTrackView::find_safety (props/C11/run.py, harness/safety.cc)",
        "the harness's dump of (simple_safety flag, faces, local position) per level, read from the real OrangeParams/state",
        "float instance of Num (Base/NumF.v); gap R vs binary64 rounding (DESIGN.md 3.1)",
        "IEEE characterisation of the NaN normal (0 * (1/0)) is part of the model (C11/Safety.v normal_is_nan)",
        "hand-written model coq/C11/Msc.v tied to the safety-dependent statements of UrbanMsc.hh / UrbanMscScatter.hh / UrbanMscSafetyStepLimit.hh, which are extracted from the source at run time and compiled in a stub context (props/C11/harness/msc_frag.cc.in)",
    ]
    ctx.assumptions += [
        "theorems: every face has a defined normal at the point (faces_ok); where it is not, C11_safety_center_refuted applies (finding F4)",
        "that leaving a volume requires changing the sense of one of its faces is C03's theorem; here: all senses are constant on the ball",
        "levels are related by isometries (C12 transform theorems), so a ball in a local frame is a ball in the global frame",
        "a rect-array cell is modelled as six aligned planes with the simple flag (= RectArrayTracker::safety)",
    ]
    proofs_ok = ctx.coq_prove("Properties_C11.v")
    ok, _ = ctx.coq_build(["C11/Run.vo"])
    if not ok:
        ctx.violation("model-broken", "the executable model no longer compiles", getattr(ctx, "broken_proof", {}), no_input=True)
        return
    ctx.build_libs(["orange"])
    exe = ctx.compile_harness([os.path.join(HERE, "harness", "safety.cc")], "safety",
                              libs=["orange", "geocel", "corecel"])
    r = ctx.rng
    geos = [corpus_geometry()] + [gen_geometry(r, npts) for _ in range(ngeo)]
    # shipped multi-level test geometries (rect arrays, nested arrays, universes, hierarchy)
    files = [os.path.join(vlib.REPO, "test", "orange", "data", f + ".org.json") for f in SHIPPED]
    files = [f for f in files if os.path.exists(f)]
    rc, out = ctx.run_harness(exe, input="".join("file %s\nendgeom\n" % f for f in files))
    bbl = [l for l in out.splitlines() if l.startswith("geom")]
    if rc != 0 or len(bbl) != len(files):
        raise vlib.BuildError("safety harness failed on the shipped geometries rc=%d" % rc, out[-2000:])
    for f, l in zip(files, bbl):
        tok = l.split()
        if tok[1] != "ok":
            ctx.count("shipped-geometry-rejected")
            continue
        bb = [pf(t) for t in tok[2:8]]
        lo = [max(-60.0, x) for x in bb[:3]]; hi = [min(60.0, x) for x in bb[3:]]
        pts = [[r.uniform(lo[k], hi[k]) for k in range(3)] for _ in range(120 if quick else 1500)]
        # points close to grid planes / cell walls: snap one coordinate near a half-integer or integer value
        for p in pts[::3]:
            k = r.randrange(3); p[k] = min(hi[k], max(lo[k], round(p[k] * 2) / 2 + r.choice([-1, 1]) * r.choice([1e-3, 0.05, 0.2])))
        geos.append(("file %s\n" % f, pts))
    inp = []
    for txt, pts in geos:
        inp.append(txt + "".join("pt %s\n" % hx(p) for p in pts) + "endgeom\n")
    # run in a few parallel chunks
    nchunk = 8
    chunks = ["".join(inp[i::nchunk]) for i in range(nchunk)]
    order = [list(range(len(geos)))[i::nchunk] for i in range(nchunk)]
    import concurrent.futures as cf
    with cf.ThreadPoolExecutor(max_workers=nchunk) as ex:
        outs = list(ex.map(lambda c: ctx.run_harness(exe, input=c, timeout=1500), chunks))
    results = {}
    for (rc, out), idxs in zip(outs, order):
        if rc != 0:
            # a crash inside the geometry builder: isolate it by running the chunk's geometries one by one
            out = ""
            for gi in idxs:
                rc1, o1 = ctx.run_harness(exe, input=inp[gi], timeout=600)
                if rc1 != 0:
                    ctx.count("geometry-builder-crashed")
                    ctx.notes.append("orangeinp builder crashed (rc=%d) on a generated geometry: %s" % (rc1, geos[gi][0][:400]))
                    o1 = "geom error crashed\n" + "pt skip nogeom\n" * len(geos[gi][1]) + "endgeom\n"
                    if gi == 0:
                        raise vlib.BuildError("safety harness crashed on the corpus geometry rc=%d" % rc1, o1)
                out += o1
        lines = [l for l in out.splitlines() if l.startswith(("geom", "pt", "endgeom"))]
        li = 0
        for gi in idxs:
            txt, pts = geos[gi]
            gline = lines[li]; li += 1
            pl = lines[li:li + len(pts)]; li += len(pts)
            assert lines[li] == "endgeom", lines[li]; li += 1
            results[gi] = (gline, pl)
    ctx.log("harness done")
    found = False
    nviol = 0
    nf4 = 0
    exprs, meta = [], []
    for gi, (txt, pts) in enumerate(geos):
        gline, pl = results[gi]
        if not gline.startswith("geom ok"):
            ctx.count("geometry-rejected")
            if gi == 0:
                ctx.violation("tie-broken", "the corpus geometry no longer builds: " + gline, {"geometry": txt}, no_input=True)
            continue
        ctx.count("geometry-built")
        for p, line in zip(pts, pl):
            res = parse_pt(line)
            if res is None:
                ctx.count("point-skipped:" + (line.split()[2] if len(line.split()) > 2 else "?"))
                ctx.case(None, nontrivial=False)
                continue
            ctx.count("levels:%d" % len(res["levels"]))
            s, m = res["safety"], res["minstep"]
            ctx.case((gi, p), nontrivial=s > 0)
            ctx.count("safety:" + ("inf" if s == INF else "zero" if s == 0 else "positive"))
            if len(ctx.samples) < 6 and s > 0:
                ctx.sample({"geometry": txt, "point": p, "safety": s, "min_next_step": m, "levels": res["levels"]})
            # ---- property oracle ---------------------------------------------
            bad = None
            if not (s >= 0):
                bad = "safety is negative or NaN: %r" % s
            elif m < 1e300 and s > m * (1 + 1e-9) + 1e-12:
                bad = "safety %r exceeds the distance %r to the next boundary along %r" % (s, m, res["mindir"])
            else:
                # find_safety(max_step): conservative for every search radius, and at least min(max_step, safety)
                for ms, rm in res["with_max_step"]:
                    ctx.count("max_step:" + ("below" if ms < s else "above" if ms > s else "equal"))
                    if not (rm >= 0):
                        bad = "find_safety(%r) is negative or NaN: %r" % (ms, rm)
                    elif m < 1e300 and rm > m * (1 + 1e-9) + 1e-12:
                        bad = ("find_safety(max_step = %r) = %r exceeds the distance %r to the next boundary along %r "
                               "(find_safety() = %r, per-level safeties %r)" % (ms, rm, m, res["mindir"], s, res["level_safety"]))
                    elif rm < min(ms, s) * (1 - 1e-12):
                        bad = "find_safety(max_step = %r) = %r is smaller than min(max_step, find_safety() = %r)" % (ms, rm, s)
                    if bad:
                        break
            # the sphere-sampling / same-volume clause is about interior points: a safety radius inside the
            # geometry's tolerance band (100 x 1e-8 x length scale) means the point is within tolerance of a
            # boundary and the sampled "sphere" straddles it - not judged (the next-step clause above still is)
            band = 100 * 1e-8 * max([1.0] + [abs(x) for x in p])
            rmax_rep = max([s] + [rm for _, rm in res["with_max_step"]])
            if res["nbad"] > 0 and not (rmax_rep >= band):
                ctx.count("not-judged:point-within-tolerance-of-a-boundary")
            if bad is None and res["nbad"] > 0 and rmax_rep >= band:
                bad = ("%d sample point(s) of the sphere of the largest reported safety radius are in another volume, e.g. %r "
                       "(find_safety() = %r, with max_step: %r)" % (res["nbad"], res["badp"], s, res["with_max_step"][:6]))
            for prog in ("moved", "bounced"):
                mvd = res[prog]
                if bad is None and mvd is not None:
                    # the same point reached by the navigator's own moves (move_internal(distance) and
                    # move_internal(position)) must be in the state of a fresh initialisation there
                    ctx.count("%s-point:levels=%d" % (prog, mvd["levels"]))
                    if not mvd["same_path_dist"] and not mvd["same_path_pos"]:
                        # both moves agree with each other but point location at the reached point finds another
                        # volume path: the straight segment crossed something the navigator did not report (legacy
                        # masked/overlapping cells in shipped .org.json files) - that is C03's property, not a safety question
                        ctx.count("%s-point:path-differs-from-point-location(C03)" % prog)
                        if len(ctx.notes) < 3:
                            ctx.notes.append("navigator and point location disagree after a straight move (C03 territory): point %r dir %r step %r in %s"
                                             % (p, mvd["dir"], mvd["step"], txt.splitlines()[0][:120]))
                        mvd = None
                if bad is None and mvd is not None:
                    sc = max([1.0, mvd["step"]] + [abs(x) for x in mvd["reached"]])
                    sf, mb = mvd["fresh"], mvd["min_next_step"]
                    for key in ("after_move_dist", "after_move_dist_maxstep", "after_move_pos", "after_move_pos_maxstep"):
                        val = mvd[key]
                        same = (val == sf) or (val != INF and sf != INF and abs(val - sf) <= 1e-9 * max(abs(val), abs(sf)) + 1e-9 * sc)
                        if mb < 1e300 and val > mb * (1 + 1e-9) + 1e-12 and not same:
                            bad = ("find_safety %s = %r exceeds the distance %r to the next boundary (fresh initialisation at the "
                                   "reached point %r gives safety %r)" % (key.replace("_", " "), val, mb, mvd["reached"], sf))
                        elif not same:
                            bad = ("find_safety %s = %r differs from the safety %r of a fresh initialisation at the same point %r"
                                   % (key.replace("_", " "), val, sf, mvd["reached"]))
                        if bad:
                            break
                    if bad is None and (mvd["local_pos_dev_dist"] > 1e-9 * sc or mvd["local_pos_dev_pos"] > 1e-9 * sc):
                        bad = ("after move_internal the local position of some level differs from the re-transformed one by %r (distance move) / %r (position move)"
                               % (mvd["local_pos_dev_dist"], mvd["local_pos_dev_pos"]))
                    if bad is None and not (mvd["same_path_dist"] and mvd["same_path_pos"]):
                        bad = "volume path after move_internal differs from a fresh initialisation at %r" % (mvd["reached"],)
                    rmv = max(mvd["after_move_dist"], mvd["after_move_dist_maxstep"], mvd["after_move_pos"], mvd["after_move_pos_maxstep"])
                    if mvd["nbad"] > 0 and not (rmv >= band):
                        ctx.count("not-judged:point-within-tolerance-of-a-boundary")
                    if bad is None and mvd["nbad"] > 0 and not (sf == INF) and rmv >= band:
                        bad = ("%d sample point(s) of the safety sphere around the moved point %r are in another volume, e.g. %r"
                               % (mvd["nbad"], mvd["reached"], mvd["badp"]))
                    if bad:
                        bad = (("after init at the point and a move along %r by %r: %s" % (mvd["dir"], mvd["step"], bad)) if prog == "moved" else
                           ("after init at the point along %r, move_to_boundary (%r away), set_dir(reverse) on the boundary (re-entrant), "
                            "cross_boundary, find_next_step, move_internal(%r): %s" % (mvd["dir"], mvd["distance_to_boundary"], mvd["step"], bad)))
            if bad:
                nanf = nan_normal_faces(res["levels"])
                sig = F4_SIG if (nanf and (s == INF or s > m)) else None
                ctx.count("non-conservative:" + (sig or "other"))
                if sig is not None:
                    nf4 += 1
                    if nf4 > 1:
                        continue      # one replay of the known finding per run is enough
                ctx.violation("oracle", bad + (" [calc_normal is NaN for face %r]" % (nanf[0],) if nanf else ""),
                              {"geometry": txt, "point": p, "point_hex": [float(x).hex() for x in p], "find_safety": s,
                               "min_find_next_step": m, "direction": res["mindir"], "levels": res["levels"],
                               "find_safety_with_max_step": res["with_max_step"], "level_safety": res["level_safety"],
                               "moved": res["moved"], "bounced": res["bounced"],
                               "nan_normal_faces": nanf}, signature=sig)
                if sig is None:
                    found = True
                    nviol += 1
            if any(lv["flag"] < 0 for lv in res["levels"]):
                continue
            exprs.append("run_find_safety [%s]" % "; ".join(
                "(%s, [%s], %s)" % ("true" if lv["flag"] else "false",
                                    "; ".join(coq_surf(ty, d) for ty, d in lv["faces"]), v3(lv["pos"]))
                for lv in res["levels"]))
            meta.append((gi, p, res))
        if nviol > 8:
            break
    ctx.log("oracle done: %d model evaluations" % len(exprs))
    # ---- correspondence model vs implementation -------------------------------
    nmax = 6000 if quick else 60000
    if len(exprs) > nmax:
        keep = sorted(ctx.rng.sample(range(len(exprs)), nmax))
        exprs = [exprs[i] for i in keep]; meta = [meta[i] for i in keep]
    mvals = ctx.coq_eval("safety", PRE, exprs, chunk=min(400, max(40, len(exprs) // 16 + 1)), timeout=1200)
    ndis = 0
    for (gi, p, res), mv in zip(meta, mvals):
        s = res["safety"]
        scale = max([1.0] + [abs(x) for lv in res["levels"] for x in lv["pos"]])
        agree = (mv == s) or (mv != INF and s != INF and abs(mv - s) <= 1e-9 * max(abs(s), abs(mv)) + 1e-10 * scale)
        if agree:
            for ms, rm in res["with_max_step"]:
                if not ((mv == rm) or (mv != INF and rm != INF and abs(mv - rm) <= 1e-9 * max(abs(rm), abs(mv)) + 1e-10 * scale)):
                    agree = False
                    s = ("find_safety(max_step=%r)" % ms, rm)
                    break
        if not agree:
            ndis += 1
            ctx.violation("correspondence", "model find_safety (= find_safety_max) = %r but implementation = %r" % (mv, s),
                          {"geometry": geos[gi][0], "point": p, "levels": res["levels"], "impl": s, "model": mv,
                           "theorem": "Properties_C11.v is about a model that no longer matches the code"}, no_input=True)
            if ndis > 5:
                break
    check_msc(ctx, 300 if quick else 3000)
    if not proofs_ok:
        ctx.violation("proof-broken", "Properties_C11.v no longer checks", ctx.broken_proof, no_input=True)
    ctx.coverage["rule"] = ("case = (generated geometry: world sphere/box with 1-5 grid-placed children per unit, children = translated/rotated/reflected "
                            "sphere/box/cylinder/cone/ellipsoid or nested daughter units up to 3 levels, background fill; point) from one PRNG seeded by VERIF_SEED; "
                            "points: shape centres, +-1 ulp, 1e-300..1e-9 offsets, on local axes, random; non-trivial = safety > 0")
    ctx.coverage["traces_validated_against_impl"] = len(exprs)
